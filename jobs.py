"""Property -> jobs table (which harness runs in which world for which tier)."""

PROPS = {}
NOT_APPLICABLE = {}

PROPS["C01"] = {
    "level": "model_checking",
    "technique": "explicit-state enumeration of the real bn_* code on complete small operand spaces (8-bit digits) and alphabet products (64-bit), against a GMP reference model",
    "level_text": "Exhaustive within stated bounds: in the 8-bit-digit build of the same sources every integer |a| < 2^16 (131 071 states) is driven through every unary, "
                  "single-digit and shift operation, every signed pair below 2^11 (quick) / 2^13 (thorough) and the products with structured digit-vector alphabets through every "
                  "binary operation, algorithm variant and alias pattern; the shipped 64-bit build runs the full product of a boundary-digit alphabet. Every transition is compared with GMP and "
                  "checked for normal form and unchanged inputs. This is the right level because carry/borrow/estimate corner cases are 2^-64 events for the random tests but occur millions of times at 8-bit digits.",
    "level_note": "Trusted: GMP, the harness glue (raw dp/used/sign access). Not reached: a defect needing one specific full-width 64-bit digit value outside the alphabet with no 8-bit analogue. "
                  "Results that need the whole RLC_BN_SIZE capacity may either succeed or raise the precision error.",
    "rule": "cases are (operation, operands, alias pattern) enumerated by odometers over duplicate-free domains: in the 8-bit-digit world "
            "every integer |a| < 2^16 for unary/digit/shift forms and every signed pair below 2^11 (quick) / 2^13 (thorough), products with "
            "digit-vector alphabets, capacity-edge operands; alphabet products in the 64-bit world. A case is non-trivial when an operand "
            "has more than one digit, is negative, or the second argument is non-zero; distinct = distinct (op, args) by 64-bit hash.",
    "assumptions": ["GMP is the reference for integer arithmetic", "calls are made inside RLC_TRY (documented idiom)",
                    "digits above `used` are unspecified and are poisoned with two patterns per case"],
    "jobs": [
        {"name": "bn-w8", "world": "W8", "src": "props/C01_bn.c", "share": 0.7},
        {"name": "bn-w64", "world": "W64", "src": "props/C01_bn.c"},
        {"name": "bn-w16", "world": "W16", "src": "props/C01_bn.c", "tiers": ("thorough",)},
    ],
}
