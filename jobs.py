"""Property -> jobs table (which harness runs in which world for which tier)."""

PROPS = {}
NOT_APPLICABLE = {}

PROPS["C01"] = {
    "level": "model_checking",
    "technique": "explicit-state enumeration of the real bn_* code on complete small operand spaces (8-bit digits) and alphabet products (64-bit), against a GMP reference model",
    "level_text": "Exhaustive within stated bounds: in the 8-bit-digit build of the same sources every integer |a| < 2^16 (131 071 states) is driven through every unary, "
                  "single-digit and shift operation, every signed pair below 2^11 (quick) / 2^13 (thorough) and the products with structured digit-vector alphabets through every "
                  "binary operation, algorithm variant and alias pattern; the shipped 64-bit build runs the full product of a boundary-digit alphabet. Every transition is compared with GMP and "
                  "checked for normal form and unchanged inputs. This is the right level because carry/borrow/estimate corner cases are 2^-64 events for the random tests but occur millions of times at 8-bit digits. Karatsuba builds (BN_KARAT = 1, 2) in the thorough tier.",
    "level_note": "Trusted: GMP, the harness glue (raw dp/used/sign access). Not reached: a defect needing one specific full-width 64-bit digit value outside the alphabet with no 8-bit analogue. "
                  "Results that need the whole RLC_BN_SIZE capacity may either succeed or raise the precision error.",
    "rule": "cases are (operation, operands, alias pattern) enumerated by odometers over duplicate-free domains: in the 8-bit-digit world "
            "every integer |a| < 2^16 for unary/digit/shift forms and every signed pair below 2^11 (quick) / 2^13 (thorough), products with "
            "digit-vector alphabets, capacity-edge operands; alphabet products in the 64-bit world. A case is non-trivial when an operand "
            "has more than one digit, is negative, or the second argument is non-zero; distinct = distinct (op, args) by 64-bit hash.",
    "assumptions": ["GMP is the reference for integer arithmetic", "calls are made inside RLC_TRY (documented idiom)",
                    "digits above `used` are unspecified and are poisoned with two patterns per case"],
    "jobs": [
        {"name": "bn-w8", "world": "W8", "src": "props/C01_bn.c", "share": 0.7},
        {"name": "bn-w64", "world": "W64", "src": "props/C01_bn.c"},
        {"name": "bn-w16", "world": "W16", "src": "props/C01_bn.c", "tiers": ("thorough",)},
        {"name": "bn-w64-karat", "world": "W64-karat", "src": "props/C01_bn.c", "tiers": ("thorough",)},
        {"name": "bn-w8-karat", "world": "W8-karat", "src": "props/C01_bn.c", "tiers": ("thorough",), "share": 0.2},
    ],
}

PROPS["C02"] = {
    "level": "model_checking",
    "technique": "explicit-state enumeration of complete 16-bit prime fields in the 8-bit-digit build (every residue, every pair for small primes, every 2-digit prime in the thorough tier) plus alphabet products on every prime selectable at the shipped sizes, against GMP modular arithmetic",
    "level_text": "Complete state spaces: for ten structurally different 16-bit primes (quick) and every prime in [257, 65536) (thorough) every residue is driven through every unary operation and algorithm variant "
                  "(7 inverters, 5 symbol algorithms, square/cube roots, conversions), every ordered pair of residues for p <= 1009 through every add/sub/mul variant and alias pattern, every exponent in [-2p, 2p], every double-width value below p*R through the reductions; "
                  "at 256/255/381 bits the full product of a boundary alphabet (0, 1, p-1, (p+-1)/2, 2^k, values whose Montgomery form has zero/all-ones digits, small values and their inverses). Results must equal GMP and be canonical (< p in the raw representation). fp_inv_sim for every batch length with a separate output and in place; conversion back into a destination that held a negative number; Karatsuba builds in the thorough tier.",
    "level_note": "Trusted: GMP; elements are injected/read through the raw Montgomery representation computed by GMP, so relic's own conversions are not in the oracle path. Not reached: a defect needing a specific 256-bit value outside the alphabet with no 16-bit analogue.",
    "rule": "cases are (operation group, prime, operands); W8: every residue of each listed prime (complete), every pair for p <= 1009; W64: alphabet product per selectable prime. "
            "Non-trivial: operand not in {0,1} (unary), both operands non-zero (binary), |exponent| > 1; distinct by 64-bit hash of (group, prime, operands). transitions counts individual operation applications compared with GMP.",
    "assumptions": ["GMP is the reference for Z/pZ", "W8 RNG callback never yields a zero blinding factor"],
    "jobs": [
        {"name": "fp-w8", "world": "W8", "src": "props/C02_fp.c", "share": 0.6},
        {"name": "fp-w64", "world": "W64", "src": "props/C02_fp.c"},
        {"name": "fp-w64-255", "world": "W64-255", "src": "props/C02_fp.c", "tiers": ("thorough",)},
        {"name": "fp-w64-381", "world": "W64-381", "src": "props/C02_fp.c", "tiers": ("thorough",)},
        {"name": "fp-w64-karat", "world": "W64-karat", "src": "props/C02_fp.c", "tiers": ("thorough",)},
        {"name": "fp-w8-karat", "world": "W8-karat", "src": "props/C02_fp.c", "tiers": ("thorough",), "share": 0.2},
    ],
}

PROPS["C09"] = {
    "level": "model_checking",
    "technique": "explicit-state enumeration of complete small operand spaces (every signed pair in a square, every n < 2^16 / 2^17 for primality, every scalar < 2^16 x every window width for recodings) of the real bn_* number-theoretic code in the 8-bit-digit and shipped builds, against GMP",
    "level_text": "Every signed pair in [-G, G]^2 through gcd (Euclid, Lehmer, binary), extended gcd with the Bezout identity, lcm, inverse, Jacobi/Legendre and reduction (all algorithms incl. Montgomery conversion and pseudo-Mersenne); "
                  "every (a, e, m) with a, m < 40/64 and |e| < 128 through every exponentiation algorithm; every n below 2^16 (8-bit digits) / 2^17-2^20 (64-bit) plus every base-2 Fermat pseudoprime below 2^22-2^26, prime squares, close-prime products and Chernick numbers through every primality test; "
                  "every k < 2^16 x every width 2..8 through every recoding with digit-set, sparsity, length and guard-byte checks (tau-NAF evaluated in Z[tau] and checked modulo (tau^m-1)/(tau-1)). 8-bit digits make Lehmer fallbacks and carry paths frequent. bn_rec_glv is driven directly with the lattices of the three shipped endomorphism curves on scalars constructed to carry out of the lowest digit(s) of the rounded quotients; bn_evl also with coefficients above the modulus and below zero.",
    "level_note": "Trusted: GMP (gcdext, powm, jacobi, sqrt, probab_prime_p with 40 rounds as the primality reference). bn_rec_rtnaf, bn_rec_glv, bn_rec_frb/sac are decided through the scalar multiplications that use them (C16, C03, C11) because their contracts are relative to curve data. bn_gcd_ext_mid and bn_mxp_crt are covered only through their callers.",
    "rule": "cases are (function group, operands) from odometers over duplicate-free ranges/alphabets; every case is non-trivial except none (all counted); distinct by 64-bit hash; transitions = individual function results compared with GMP.",
    "assumptions": ["GMP is the reference", "the deterministic RNG seed makes probabilistic primality tests a function of the input"],
    "jobs": [
        {"name": "nt-w8", "world": "W8", "src": "props/C09_nt.c", "share": 0.6},
        {"name": "nt-w64", "world": "W64", "src": "props/C09_nt.c"},
    ],
}

PROPS["C03"] = {
    "level": "model_checking",
    "technique": "explicit-state enumeration of complete tiny elliptic-curve groups (full Cayley tables, every scalar in [-2n-3, 2n+3] for every routine) built with the real ep_* code at 8-bit digits, plus point/scalar alphabet products on every shipped curve, against an affine chord-and-tangent reference on GMP",
    "level_text": "Complete groups: tiny curves found by reference point counting are installed through the public ep_curve_set_plain/endom API; on ~1000-point curves (prime order, cofactor 2/4 with order-two points, a = -3/0/1/2, GLV) the complete Cayley table is run through every addition/doubling formula (affine, projective, Jacobian) in every operand representation and alias pattern; "
                  "on 16-bit prime-order curves (plain, GLV, generic a) every scalar in [-2n-3, 2n+3] through every variable-base, fixed-base (basic, single/double comb, w-NAF tables), generator, digit and simultaneous routine, every scalar pair in [-n-2, n+2]^2 for the simultaneous forms, many-point forms with n in {0..4, 9..12, 33}. "
                  "The six 256-bit curves run a scalar alphabet (0, +-1, n-1, n, n+1, 2n, multiples, 2^k boundaries, longer than n up to 2^1000-1, GLV boundary neighbourhood) against the same reference. Every simultaneous case runs a second time with the result aliased to a point and / or un-normalised operands.",
    "level_note": "Trusted: GMP-based affine reference (ref_ec.h), harness glue reading points by coordinate flag. Fixed-base tables are only built on tiny curves whose order has the bit length of the field (tiny_exclusion otherwise). W8 RNG never yields a zero blinding factor. Not reached: defects needing a specific 256-bit scalar outside the alphabet with no tiny analogue. The thorough tier also runs the 446-bit builds (BN_P446; B12_P446 where its twist is defined, i.e. under FP_QNRES). The thorough tier also runs the 64-bit battery in builds of 160, 192, 224, 384 and 521 bits (SECG_P160/K160, NIST_P192/SECG_K192, NIST_P224/SECG_K224, NIST_P384, NIST_P521).",
    "rule": "cases are (curve, operation group, points, scalars); tiny worlds: complete point lists / scalar ranges by odometer; W64: alphabet products; all cases count as non-trivial (each involves at least one group operation); distinct by 64-bit hash; transitions = individual routine results compared with the reference.",
    "assumptions": ["reference group law in ref_ec.h", "calls inside RLC_TRY", "DRBG/RNG re-seeded identically before every randomised routine"],
    "jobs": [
        {"name": "ep-w8", "world": "W8", "src": "props/C03_ep.c", "share": 0.65},
        {"name": "ep-w64", "world": "W64", "src": "props/C03_ep.c"},
        {"name": "ep-w8-jacob", "world": "W8-jacob", "src": "props/C03_ep.c", "tiers": ("thorough",)},
        {"name": "ep-w8-basic", "world": "W8-basic", "src": "props/C03_ep.c", "tiers": ("thorough",)},
        {"name": "ep-w64-381", "world": "W64-381", "src": "props/C03_ep.c", "tiers": ("thorough",)},
        {"name": "ep-w64-446", "world": "W64-446", "src": "props/C03_ep.c", "tiers": ("thorough",)},
        {"name": "ep-w64-160", "world": "W64-160", "src": "props/C03_ep.c", "tiers": ("thorough",)},
        {"name": "ep-w64-192", "world": "W64-192", "src": "props/C03_ep.c", "tiers": ("thorough",)},
        {"name": "ep-w64-224", "world": "W64-224", "src": "props/C03_ep.c", "tiers": ("thorough",)},
        {"name": "ep-w64-384", "world": "W64-384", "src": "props/C03_ep.c", "tiers": ("thorough",)},
        {"name": "ep-w64-521", "world": "W64-521", "src": "props/C03_ep.c", "tiers": ("thorough",)},
        {"name": "ep-w64-255", "world": "W64-255", "src": "props/C03_ep.c", "tiers": ("thorough",)},
    ],
}

PROPS["C11"] = {
    "level": "model_checking",
    "technique": "explicit-state enumeration of complete tiny elliptic-curve groups over F_p^2 (full Cayley tables per coefficient class, every scalar in [-2r-3, 2r+3] for every routine) built with the real ep2_* code at 8-bit digits, plus point/scalar alphabet products on the BN_P256 / SM9_P256 twists including twist points outside G2, against an affine chord-and-tangent reference over F_p[u]/(u^2 - beta) on GMP",
    "level_text": "Complete groups: curves over F_p^2 (p = 23, 29, 251) found by reference point counting are installed through the public ep2_curve_set API; on ~530-point curves (a = -3, 0, 1, 2, one-digit, general; an even-order curve with order-two points; p = 1 mod 4) the complete Cayley table is run through every addition/doubling formula (affine, projective, Jacobian) in every operand representation and alias pattern; on 16-bit prime-order curves every scalar in [-2r-3, 2r+3] through every variable-base, fixed-base, generator, digit and simultaneous routine. "
                  "On the 256-bit twists: G2 members and twist points outside G2 (x = i + j u lifted by reference square root), scalar alphabet incl. GLS boundary values, the Frobenius endomorphism (eigenvalue p on G2, additivity, characteristic equation psi^2 - [t]psi + [p] = 0 on every enumerated twist point, powers 1..4) and cofactor clearing ([r]R' = identity, R' = identity only if [h]R is). The many-point form is also called with the result aliased to one of its points, the Frobenius on un-normalised operands.",
    "level_note": "Trusted: ref_ec2.h (F_p^2 by definition with beta = u^2 learned from the library and validated as a non-residue), harness glue. Tiny curves have no twist structure, so Frobenius-based routines (ep2_frb, GLS recodings, fast cofactor clearing) are judged at 256 bits only. Recoding-based multiplications (lwnaf, lwreg, fixed-base) are judged on points of the order-r subgroup (they reduce the scalar modulo r). Curves over cubic/quartic/octic extensions (ep3/ep4/ep8) have no curve-arithmetic reference; they are judged through the pairing oracle of the family jobs (subgroup points only; points outside the subgroup only via validity / cofactor clearing). The thorough tier also runs the 446-bit builds (BN_P446; B12_P446 where its twist is defined, i.e. under FP_QNRES).",
    "rule": "cases are (curve, operation group, points, scalars); tiny worlds: complete point lists / scalar ranges by odometer; W64: alphabet products; all cases non-trivial; distinct by 64-bit hash; transitions = individual routine results compared with the reference.",
    "assumptions": ["reference group law in ref_ec2.h", "calls inside RLC_TRY", "DRBG/RNG re-seeded identically before every randomised routine"],
    "jobs": [
        {"name": "ep2-w8", "world": "W8", "src": "props/C11_ep2.c", "share": 0.6, "share_thorough": 0.18},
        {"name": "ep2-w64", "world": "W64", "src": "props/C11_ep2.c", "share_thorough": 0.10},
        {"name": "ep2-w8-jacob", "world": "W8-jacob", "src": "props/C11_ep2.c", "tiers": ("thorough",), "share": 0.06},
        {"name": "ep2-w8-basic", "world": "W8-basic", "src": "props/C11_ep2.c", "tiers": ("thorough",), "share": 0.06},
        {"name": "ep2-w64-381", "world": "W64-381", "src": "props/C11_ep2.c", "tiers": ("thorough",), "share": 0.05},
        {"name": "ep2-w64-446", "world": "W64-446", "src": "props/C11_ep2.c", "tiers": ("thorough",), "share": 0.04},
        {"name": "ep2-w64-446q", "world": "W64-446q", "src": "props/C11_ep2.c", "tiers": ("thorough",), "share": 0.04},
        {"name": "fam-g2-w64-315", "world": "W64-315", "src": "props/C04_fam.c", "args": ["--only", "c11-"], "share": 0.035, "share_quick": 0.15},
        {"name": "fam-g2-w64-330", "world": "W64-330", "src": "props/C04_fam.c", "tiers": ("thorough",), "args": ["--only", "c11-"], "share": 0.035},
        {"name": "fam-g2-w64-638", "world": "W64-638", "src": "props/C04_fam.c", "tiers": ("thorough",), "args": ["--only", "c11-"], "share": 0.035},
        {"name": "fam-g2-w64-575q", "world": "W64-575q", "src": "props/C04_fam.c", "tiers": ("thorough",), "args": ["--only", "c11-"], "share": 0.035},
        {"name": "fam-g2-w64-544", "world": "W64-544", "src": "props/C04_fam.c", "tiers": ("thorough",), "args": ["--only", "c11-"], "share": 0.025},
        {"name": "fam-g2-w64-158", "world": "W64-158", "src": "props/C04_fam.c", "tiers": ("thorough",), "args": ["--only", "c11-"], "share": 0.02},
        {"name": "fam-g2-w64-254", "world": "W64-254", "src": "props/C04_fam.c", "tiers": ("thorough",), "args": ["--only", "c11-"], "share": 0.02},
        {"name": "fam-g2-w64-317", "world": "W64-317", "src": "props/C04_fam.c", "tiers": ("thorough",), "args": ["--only", "c11-"], "share": 0.02},
        {"name": "fam-g2-w64-354", "world": "W64-354", "src": "props/C04_fam.c", "tiers": ("thorough",), "args": ["--only", "c11-"], "share": 0.02},
        {"name": "fam-g2-w64-377", "world": "W64-377", "src": "props/C04_fam.c", "tiers": ("thorough",), "args": ["--only", "c11-"], "share": 0.02},
        {"name": "fam-g2-w64-382", "world": "W64-382", "src": "props/C04_fam.c", "tiers": ("thorough",), "args": ["--only", "c11-"], "share": 0.02},
        {"name": "fam-g2-w64-383", "world": "W64-383", "src": "props/C04_fam.c", "tiers": ("thorough",), "args": ["--only", "c11-"], "share": 0.02},
        {"name": "fam-g2-w64-455", "world": "W64-455", "src": "props/C04_fam.c", "tiers": ("thorough",), "args": ["--only", "c11-"], "share": 0.02},
        {"name": "fam-g2-w64-508", "world": "W64-508", "src": "props/C04_fam.c", "tiers": ("thorough",), "args": ["--only", "c11-"], "share": 0.02},
        {"name": "fam-g2-w64-509", "world": "W64-509", "src": "props/C04_fam.c", "tiers": ("thorough",), "args": ["--only", "c11-"], "share": 0.02},
        {"name": "fam-g2-w64-510", "world": "W64-510", "src": "props/C04_fam.c", "tiers": ("thorough",), "args": ["--only", "c11-"], "share": 0.02},
        {"name": "fam-g2-w64-765", "world": "W64-765", "src": "props/C04_fam.c", "tiers": ("thorough",), "args": ["--only", "c11-"], "share": 0.02},
        {"name": "fam-g2-w64-766", "world": "W64-766", "src": "props/C04_fam.c", "tiers": ("thorough",), "args": ["--only", "c11-"], "share": 0.02},
        {"name": "fam-g2-w64-768", "world": "W64-768", "src": "props/C04_fam.c", "tiers": ("thorough",), "args": ["--only", "c11-"], "share": 0.02},
        {"name": "fam-g2-w64-638q", "world": "W64-638q", "src": "props/C04_fam.c", "tiers": ("thorough",), "args": ["--only", "c11-"], "share": 0.02},
    ],
}

PROPS["C12"] = {
    "level": "model_checking",
    "technique": "bounded exhaustive enumeration of constructed candidate sets (members, identity, off-curve, curve/twist points outside the order-r subgroup, cofactor parts, small-order points, member + non-member; target-field elements outside the cyclotomic subgroup, cyclotomic elements of order not dividing r) through the real membership predicates, and of scalar alphabets through every g1_/g2_/gt_ multiplication form, against the definition evaluated by reference group laws and a reference quotient-ring tower on GMP",
    "level_text": "Per parameter set (BN_P256 with D-type twist, SM9_P256 with M-type twist; B12_P381 in the 381-bit build, where G1 has a cofactor): the expected verdict of g1_is_valid / g2_is_valid / gt_is_valid is the definition itself -- on the curve, not the identity, annihilated by r -- computed by plain reference multiplication / exponentiation (no endomorphism shortcut). Candidates are built by the reference: multiples of the generators, off-curve neighbours, points lifted from small x (outside the subgroup when a cofactor exists), their [r]- and [h]-multiples, sums member + cofactor part, points of every prime order < 2^20 dividing the cofactor, points of another twist; GT: powers of the generator, 0, 1, -1, -g, sparse and dense field elements, their images under the easy part of the final exponentiation (cyclotomic, order not dividing r), those times a member, and their images under the hard part (members unrelated to the generator). Exponentiation: g1/g2 mul, mul_sec, mul_any, mul_dig, mul_gen, mul_fix, mul_sim, mul_sim_lot, mul_sim_gen and gt_exp, gt_exp_sec, gt_exp_dig, gt_exp_gen, gt_exp_sim for scalars 0, +-1, r-1, r, r+1, 2r, 2^k boundaries, longer than r, negative, curve-parameter multiples. Other families (thorough, C04_fam.c, bounds c11-): on the curves over F_p^3, F_p^4, F_p^8 of the KSS18, KSS16/B24, B48 builds the pairing with a fixed G1 generator is an exact oracle (G2 cyclic of prime order, pairing non-degenerate: X = [k]G2 iff e(G1, X) = E0^k in the reference tower): EVERY multiplication routine (26 forms incl. regular, ladder, every table method, simultaneous forms) x 18 scalars; the group law in every coordinate system and operand representation over all 12 x 12 index pairs (equal, opposite, identity operands); twist points found by solving the curve equation: rejected by g2_is_valid, mapped into the order-r subgroup by cofactor clearing; the Frobenius endomorphism for every power 0..k+1 on affine and projective operands (e(G1, frb^i([j]G2)) = E0^(j p^i)). The B24 build (315 bits) also runs in the quick tier; the thorough tier adds one build per remaining pairing field size (158 .. 768 bits). Other families (thorough, C04_fam.c, bounds c12-): validity predicates on members, identities and non-members, every G1 multiplication form and every GT exponentiation form (gt_exp, _sec, _dig, _gen, _sim, inverse, square/multiply, Frobenius) against the reference tower of degree 16, 18, 24, 48. In-place gt_exp / gt_exp_sec / gt_exp_dig and the identity as the variable base of g1/g2_mul_sim_gen are part of every case.",
    "level_note": "Trusted: ref_ec.h / ref_ec2.h group laws, ref_ext.h tower with each level's constant read from the library and validated irreducible, twist type derived from the coefficients (b' = b/xi or b*xi). The k = 8, 16, 18, 24, 48 families are judged by the family jobs (pairing as oracle, reference tower of degree k) in one build per field size. The thorough tier also runs the 446-bit builds (BN_P446; B12_P446 where its twist is defined, i.e. under FP_QNRES).",
    "rule": "cases are (parameter set, predicate or routine, candidate / base, scalar(s)); all counted non-trivial; distinct by 64-bit hash; transitions = individual verdicts / results compared with the reference.",
    "assumptions": ["reference group laws and tower", "calls inside RLC_TRY", "DRBG re-seeded identically before every randomised routine"],
    "jobs": [
        {"name": "pc-w64", "world": "W64", "src": "props/C12_pc.c", "share": 0.5},
        {"name": "pc-w64-381", "world": "W64-381", "src": "props/C12_pc.c"},
        {"name": "pc-w64-446", "world": "W64-446", "src": "props/C12_pc.c", "tiers": ("thorough",)},
        {"name": "pc-w64-446q", "world": "W64-446q", "src": "props/C12_pc.c", "tiers": ("thorough",)},
        {"name": "fam-pc-w64-315", "world": "W64-315", "src": "props/C04_fam.c", "args": ["--only", "c12-"]},
        {"name": "fam-pc-w64-330", "world": "W64-330", "src": "props/C04_fam.c", "tiers": ("thorough",), "args": ["--only", "c12-"]},
        {"name": "fam-pc-w64-638", "world": "W64-638", "src": "props/C04_fam.c", "tiers": ("thorough",), "args": ["--only", "c12-"]},
        {"name": "fam-pc-w64-575q", "world": "W64-575q", "src": "props/C04_fam.c", "tiers": ("thorough",), "args": ["--only", "c12-"]},
        {"name": "fam-pc-w64-544", "world": "W64-544", "src": "props/C04_fam.c", "tiers": ("thorough",), "args": ["--only", "c12-"]},
        {"name": "fam-pc-w64-158", "world": "W64-158", "src": "props/C04_fam.c", "tiers": ("thorough",), "args": ["--only", "c12-"]},
        {"name": "fam-pc-w64-254", "world": "W64-254", "src": "props/C04_fam.c", "tiers": ("thorough",), "args": ["--only", "c12-"]},
        {"name": "fam-pc-w64-317", "world": "W64-317", "src": "props/C04_fam.c", "tiers": ("thorough",), "args": ["--only", "c12-"]},
        {"name": "fam-pc-w64-354", "world": "W64-354", "src": "props/C04_fam.c", "tiers": ("thorough",), "args": ["--only", "c12-"]},
        {"name": "fam-pc-w64-377", "world": "W64-377", "src": "props/C04_fam.c", "tiers": ("thorough",), "args": ["--only", "c12-"]},
        {"name": "fam-pc-w64-382", "world": "W64-382", "src": "props/C04_fam.c", "tiers": ("thorough",), "args": ["--only", "c12-"]},
        {"name": "fam-pc-w64-383", "world": "W64-383", "src": "props/C04_fam.c", "tiers": ("thorough",), "args": ["--only", "c12-"]},
        {"name": "fam-pc-w64-455", "world": "W64-455", "src": "props/C04_fam.c", "tiers": ("thorough",), "args": ["--only", "c12-"]},
        {"name": "fam-pc-w64-508", "world": "W64-508", "src": "props/C04_fam.c", "tiers": ("thorough",), "args": ["--only", "c12-"]},
        {"name": "fam-pc-w64-509", "world": "W64-509", "src": "props/C04_fam.c", "tiers": ("thorough",), "args": ["--only", "c12-"]},
        {"name": "fam-pc-w64-510", "world": "W64-510", "src": "props/C04_fam.c", "tiers": ("thorough",), "args": ["--only", "c12-"]},
        {"name": "fam-pc-w64-765", "world": "W64-765", "src": "props/C04_fam.c", "tiers": ("thorough",), "args": ["--only", "c12-"]},
        {"name": "fam-pc-w64-766", "world": "W64-766", "src": "props/C04_fam.c", "tiers": ("thorough",), "args": ["--only", "c12-"]},
        {"name": "fam-pc-w64-768", "world": "W64-768", "src": "props/C04_fam.c", "tiers": ("thorough",), "args": ["--only", "c12-"]},
        {"name": "fam-pc-w64-638q", "world": "W64-638q", "src": "props/C04_fam.c", "tiers": ("thorough",), "args": ["--only", "c12-"]},
    ],
}

PROPS["C04"] = {
    "level": "model_checking",
    "technique": "bounded exhaustive enumeration of (map, base points, scalar pair, operand representation) products and of multi-pairing lists with identities at every subset of positions through the real pairing code; oracle = the algebraic property itself with both sides computed independently: multiples [a]P, [b]Q by reference group laws, the power e(P,Q)^(ab) by a reference quotient-ring tower on GMP",
    "level_text": "Per parameter set (BN_P256/D-type, SM9_P256/M-type; B12_P381 in the 381-bit build) and per map (pc_map, optimal ate, Tate, Weil): E0 = e(P0, Q0) for three base pairs must not be 0 or 1 and must satisfy E0^r = 1 (reference power); e([a]P0, [b]Q0) must equal E0^(ab mod r) for every (a, b) in {0, 1, 2, -1, r-1, r, r+1, 2^64, a 200-bit value}^2 (thorough: 13 scalars), with operands in affine and projective form (four combinations) -- identity operands arise as a or b in {0, r}; multi-pairings pc_map_sim / pp_map_sim_* over m in 0..4 (thorough 0..6) pairs with an identity in the G1 slot, the G2 slot or both at EVERY subset of positions for m <= 3 and at each single position above must equal E0^(sum a_i b_i). gt_get_gen must equal pc_map of the generators. Other families (thorough, C04_fam.c): in the builds of the shipped presets for B24 (315 bits), KSS16 (330), KSS18 (638) and B48 (575, FP_QNRES) the set chosen by pc_param_set_any is driven through the pairing-group layer: E0 = e(G1, G2) is read once, checked non-trivial and of order r in a reference tower of degree k = 24, 16, 18, 48 (constants read from the library and validated irreducible), and e([a]G1, [b]G2) = E0^(ab) is compared coefficient by coefficient over the 18 x 18 scalar alphabet (normalised and un-normalised points), multi-pairings over every identity pattern of up to three pairs. Also (family harness): the Tate and Weil pairings at k = 12, 16, 18 (bilinearity over the scalar alphabet squared, multi-pairings over identity masks with un-normalised points, each judged in the reference tower against the map's own generator value) and the final exponentiation pp_exp_k12 as a homomorphism onto the order-r subgroup (separate result and in place).",
    "level_note": "No reference pairing: the value E0 itself is not compared with an external implementation, only its algebraic properties (which characterise a non-degenerate bilinear map up to a fixed power). Trusted: reference group laws and tower as in C12. A toy pairing world is not used: tiny BN/BLS parameters make Miller-loop exceptional cases frequent that cannot occur for 256-bit r. The k = 8, 16, 18, 24, 48 families are judged by the family jobs in one build per field size; k = 54 is not (the pairing-group layer does not serve it). The thorough tier also runs the 446-bit builds (BN_P446; B12_P446 where its twist is defined, i.e. under FP_QNRES).",
    "rule": "cases are (set, map, base, a, b, repP, repQ) and (set, map, m, identity pattern, scalar pattern); all non-trivial; distinct by 64-bit hash; transitions = pairing values compared.",
    "assumptions": ["reference group laws and tower", "calls inside RLC_TRY"],
    "jobs": [
        {"name": "pair-w64", "world": "W64", "src": "props/C04_pair.c", "share": 0.5},
        {"name": "pair-w64-381", "world": "W64-381", "src": "props/C04_pair.c"},
        {"name": "pair-w64-446", "world": "W64-446", "src": "props/C04_pair.c", "tiers": ("thorough",)},
        {"name": "pair-w64-446q", "world": "W64-446q", "src": "props/C04_pair.c", "tiers": ("thorough",)},
        {"name": "fam-w64-315", "world": "W64-315", "src": "props/C04_fam.c", "args": ["--only", "c04-"]},
        {"name": "fam-alt-w64", "world": "W64", "src": "props/C04_fam.c", "args": ["--only", "tate-and-weil"]},
        {"name": "fam-alt-w64-330", "world": "W64-330", "src": "props/C04_fam.c", "args": ["--only", "tate-and-weil"]},
        {"name": "fam-w64-330", "world": "W64-330", "src": "props/C04_fam.c", "tiers": ("thorough",), "args": ["--only", "c04-"]},
        {"name": "fam-w64-638", "world": "W64-638", "src": "props/C04_fam.c", "tiers": ("thorough",), "args": ["--only", "c04-"]},
        {"name": "fam-w64-575q", "world": "W64-575q", "src": "props/C04_fam.c", "tiers": ("thorough",), "args": ["--only", "c04-"]},
        {"name": "fam-w64-544", "world": "W64-544", "src": "props/C04_fam.c", "tiers": ("thorough",), "args": ["--only", "c04-"]},
        {"name": "fam-w64-158", "world": "W64-158", "src": "props/C04_fam.c", "tiers": ("thorough",), "args": ["--only", "c04-"]},
        {"name": "fam-w64-254", "world": "W64-254", "src": "props/C04_fam.c", "tiers": ("thorough",), "args": ["--only", "c04-"]},
        {"name": "fam-w64-317", "world": "W64-317", "src": "props/C04_fam.c", "tiers": ("thorough",), "args": ["--only", "c04-"]},
        {"name": "fam-w64-354", "world": "W64-354", "src": "props/C04_fam.c", "tiers": ("thorough",), "args": ["--only", "c04-"]},
        {"name": "fam-w64-377", "world": "W64-377", "src": "props/C04_fam.c", "tiers": ("thorough",), "args": ["--only", "c04-"]},
        {"name": "fam-w64-382", "world": "W64-382", "src": "props/C04_fam.c", "tiers": ("thorough",), "args": ["--only", "c04-"]},
        {"name": "fam-w64-383", "world": "W64-383", "src": "props/C04_fam.c", "tiers": ("thorough",), "args": ["--only", "c04-"]},
        {"name": "fam-w64-455", "world": "W64-455", "src": "props/C04_fam.c", "tiers": ("thorough",), "args": ["--only", "c04-"]},
        {"name": "fam-w64-508", "world": "W64-508", "src": "props/C04_fam.c", "tiers": ("thorough",), "args": ["--only", "c04-"]},
        {"name": "fam-w64-509", "world": "W64-509", "src": "props/C04_fam.c", "tiers": ("thorough",), "args": ["--only", "c04-"]},
        {"name": "fam-w64-510", "world": "W64-510", "src": "props/C04_fam.c", "tiers": ("thorough",), "args": ["--only", "c04-"]},
        {"name": "fam-w64-765", "world": "W64-765", "src": "props/C04_fam.c", "tiers": ("thorough",), "args": ["--only", "c04-"]},
        {"name": "fam-w64-766", "world": "W64-766", "src": "props/C04_fam.c", "tiers": ("thorough",), "args": ["--only", "c04-"]},
        {"name": "fam-w64-768", "world": "W64-768", "src": "props/C04_fam.c", "tiers": ("thorough",), "args": ["--only", "c04-"]},
        {"name": "fam-w64-638q", "world": "W64-638q", "src": "props/C04_fam.c", "tiers": ("thorough",), "args": ["--only", "c04-"]},
    ],
}

PROPS["C18"] = {
    "level": "model_checking",
    "technique": "exhaustive enumeration of the configuration space: every identifier value 0..255 is offered to fp_param_set, ep_param_set and eb_param_set in each verified build; every accepted parameter set is put through every consistency obligation, decided with GMP primality tests, reference group laws (prime, F_p^2, binary) and a reference quotient-ring tower, never with the library's own arithmetic",
    "level_text": "Per selectable set: p prime and of the configured size, Montgomery constants, non-residues, 2-adicity, sparse forms; curve non-singular, generator on the curve, r prime, [r]G = O, Hasse bound for r h, [r h]T = O for 8 independent curve points (with Hasse and r prime this pins the order), ep_mul_cof maps them into the subgroup and kills exactly what [h] kills, advertised level vs bits(r), coefficient-class flags; endomorphism curves: beta primitive cube root of unity, (beta x, y) = [lambda]G for a root of l^2 + l + 1 mod r, ep_psi agrees, GLV decomposition through the stored lattice satisfies k0 + k1 lambda = k mod r with half-length parts on 12 scalars; pairing sets: p and r equal the family polynomials at the stored parameter and its sparse form, r | Phi_12(p), r divides no p^j - 1 (j | 12, j < 12), twist type derived from b' (b/xi or b xi), G2 on the twist and of order r, Hasse over F_p^2, [r h2]T = O for 4 twist points, ep2_mul_cof lands in G2, psi(G2) = [p]G2, e(G1, G2) non-degenerate, of order r and equal to gt_get_gen; binary sets: f(z) irreducible by Rabin's test, curve non-singular, generator on the curve, r prime, [r]G = O, Hasse, [r h]T = O for 8 points built by half-trace, Koblitz flag, level. Every curve set is examined twice: on a fresh context, and after a pairing-friendly, an endomorphism and a plain set were selected first.",
    "level_note": "Worlds: the shipped 256/283-bit build, the 381-bit build (B12_P381) and the 255-bit build. Edwards parameter sets are decided in C17's harness (same obligations on the Edwards reference). The builds of the other pairing field sizes are visited in the thorough tier (315, 330, 446, 575, 638 bits); sizes without a build here (e.g. 569 for k = 54, 1536 and above) are not reached. Hash-to-curve constants are decided where they are used (C13). The thorough tier also runs the 446-bit builds (BN_P446; B12_P446 where its twist is defined, i.e. under FP_QNRES). In the builds of the other families (315, 330, 575, 638 bits; thorough) every selectable set gets the field, curve, order, cofactor, level and embedding-degree obligations (the multiplicative order of p modulo r must be the advertised k, for any family); twist / tower / pairing-value obligations of the k != 12 families are judged by the family job of C04.",
    "rule": "cases are (selection function, identifier) for all 3 x 256 identifier values: non-trivial when the identifier is accepted; states = selectable parameter sets; transitions = obligations evaluated.",
    "assumptions": ["GMP primality (64 Miller-Rabin rounds)", "reference group laws and tower"],
    "jobs": [
        {"name": "param-w64", "world": "W64", "src": "props/C18_param.c", "share": 0.4},
        {"name": "param-w64-381", "world": "W64-381", "src": "props/C18_param.c", "share": 0.3},
        {"name": "param-w64-446", "world": "W64-446", "src": "props/C18_param.c", "tiers": ("thorough",)},
        {"name": "param-w64-446q", "world": "W64-446q", "src": "props/C18_param.c", "tiers": ("thorough",)},
        {"name": "param-w64-315", "world": "W64-315", "src": "props/C18_param.c", "tiers": ("thorough",)},
        {"name": "param-w64-330", "world": "W64-330", "src": "props/C18_param.c", "tiers": ("thorough",)},
        {"name": "param-w64-638", "world": "W64-638", "src": "props/C18_param.c", "tiers": ("thorough",)},
        {"name": "param-w64-575q", "world": "W64-575q", "src": "props/C18_param.c", "tiers": ("thorough",)},
        {"name": "param-w64-255", "world": "W64-255", "src": "props/C18_param.c"},
    ],
}

PROPS["C17"] = {
    "level": "model_checking",
    "technique": "explicit-state enumeration of complete tiny twisted-Edwards groups (full Cayley tables over ALL points incl. the 2-, 4- and 8-torsion, every scalar in [-2r-3, 2r+3] for every routine) built with the real ed_* code at 8-bit digits, plus point/scalar alphabet products on Ed25519 in the 255-bit build, against the affine Edwards addition law on GMP",
    "level_text": "Complete groups: curves -x^2 + y^2 = 1 + d x^2 y^2 (d non-square, p = 1 mod 4: complete law) over 257, 281, 1009, 65449 and 65521 found by reference point counting are installed by writing the curve context (the Edwards module has no public setter); on the ~260/280/1000-point curves every ordered pair of points goes through addition, subtraction and doubling in affine, projective and extended coordinates with every operand representation and alias pattern, plus ed_neg, ed_norm, ed_cmp, ed_on_curve, ed_is_infty, and every scalar in [-2r-3, 2r+3] from every 5th point (outside the prime-order subgroup too, for the generic routines); on the 16-bit curves every scalar in [-2r-3, 2r+3] through basic, sliding, ladder, w-NAF, regular, generator, digit, the five fixed-base forms and the simultaneous forms, many-point forms with n in {0..4, 9..12, 33}, and the compression / codec round trip of every curve point. Ed25519: generator multiples, the complete 8-torsion, member + torsion, a full-order point; scalar alphabet; round trips; ed_map for every message length 0..140 (thorough 300) x 3 byte patterns lands on the curve, in the subgroup, deterministically.",
    "level_note": "Trusted: ref_ed.h (affine law, completeness precondition checked per curve), context injection of (a, d, r, h, G) and the generator table. ed_map is judged for validity, determinism and input sensitivity, not for equality with an independent Elligator 2 implementation.",
    "rule": "cases are (curve, operation group, points, scalars); tiny worlds: complete point lists / scalar ranges by odometer; W64-255: alphabet products; all non-trivial; distinct by 64-bit hash; transitions = routine results compared with the reference.",
    "assumptions": ["reference Edwards law in ref_ed.h", "calls inside RLC_TRY", "curve context written directly for the tiny curves"],
    "jobs": [
        {"name": "ed-w8", "world": "W8", "src": "props/C17_ed.c", "share": 0.6},
        {"name": "ed-w64-255", "world": "W64-255", "src": "props/C17_ed.c"},
        {"name": "ed-w8-extnd", "world": "W8-edext", "src": "props/C17_ed.c", "share": 0.5},
        {"name": "ed-w64-255-extnd", "world": "W64-255-edext", "src": "props/C17_ed.c"},
    ],
}

PROPS["C13"] = {
    "level": "model_checking",
    "technique": "exhaustive enumeration of complete input spaces of the map-from-randomness entry point on tiny curves (every pair of 2-byte strings = all p^2 pairs of field elements incl. every exceptional element and the non-canonical values >= p), message-length x pattern and exceptional-element alphabets at shipped sizes, against the documented construction re-implemented from its definition (expand_message_xmd on OpenSSL SHA-256, simplified SWU / Shallue-van de Woestijne on GMP, stated sign rule, stored isogeny, reference addition and cofactor clearing)",
    "level_text": "Complete: on five ~1000-point tiny curves (a b != 0: simplified SWU; a = 0: Shallue-van de Woestijne; prime order and cofactor 2/4) ep_map_rnd sees every pair (u0, u1) in [0, p + 6)^2 plus the top of the 16-bit range; on three 16-bit curves every u0 in [0, 65536) against a small alphabet of u1 and vice versa; each result must be on the curve, in the order-r subgroup and EQUAL to the reference construction; a too-short string must be refused. Shipped sizes (six 256-bit curves; B12_P381 with its isogeny in the 381-bit build; the 255-bit build): ep_map_sswum, ep_map_basic, ep_map_swift, ep_map for every message length 0..120 (thorough 0..200, 255, 256, 257, 1000) x 3 byte patterns: valid, deterministic, sensitive to the last bit, and (sswum, ep_map, basic) equal to the reference; ep_map_rnd on a field-element alphabet containing 0, 1, p-1, p, p+1, 2p, the maximal string and the reference-computed exceptional elements of each map. Map constants are re-derived from Z and the curve and compared (c3 only through its defining square). ep2_map_sswum/basic/swift, g2_map, g1_map, eb_map: valid subgroup point, deterministic, input-sensitive.",
    "level_note": "Trusted: OpenSSL SHA-256 under the reference expand_message_xmd, GMP, reference group laws. The reference follows the source where the papers leave a choice: domain-separation tag = the project string INCLUDING its terminator for the SWU/SvdW entry points and without it for try-and-increment; sign of y made equal to the parity of t in the library's internal (Montgomery) representation; cofactor clearing by h, or by 1 - x on BLS12 curves. SwiftEC and the F_p^2 / binary / Edwards maps are judged for validity, determinism and input sensitivity only (no independent re-implementation). The thorough tier also runs the 446-bit builds (BN_P446; B12_P446 where its twist is defined, i.e. under FP_QNRES). Family builds (thorough, C04_fam.c bounds c13-): g1_map and g2_map in one build per pairing field size (158 .. 768 bits) over 24 message lengths 0..1000 x 3 patterns: the image is a valid group element of order r (on ep2 / ep3 / ep4 / ep8 for G2), the map is deterministic, one-bit neighbours map to different points; the map constants of those curves are not recomputed there.",
    "rule": "cases are (curve, u0, u1) or (curve, entry point, message length, pattern); all non-trivial; distinct by 64-bit hash; states = first elements of the complete pair spaces; transitions = results judged.",
    "assumptions": ["OpenSSL SHA-256", "reference maps written from RFC 9380 6.6.2 and draft-06 6.6.1", "calls inside RLC_TRY"],
    "jobs": [
        {"name": "map-w8", "world": "W8", "src": "props/C13_map.c", "ldflags": ["-lcrypto"], "share": 0.5},
        {"name": "map-w64", "world": "W64", "src": "props/C13_map.c", "ldflags": ["-lcrypto"], "share": 0.4},
        {"name": "map-w64-381", "world": "W64-381", "src": "props/C13_map.c", "ldflags": ["-lcrypto"], "share": 0.3},
        {"name": "map-w64-446", "world": "W64-446", "src": "props/C13_map.c", "ldflags": ["-lcrypto"], "tiers": ("thorough",)},
        {"name": "fam-map-w64-315", "world": "W64-315", "src": "props/C04_fam.c", "tiers": ("thorough",), "args": ["--only", "c13-"]},
        {"name": "fam-map-w64-330", "world": "W64-330", "src": "props/C04_fam.c", "tiers": ("thorough",), "args": ["--only", "c13-"]},
        {"name": "fam-map-w64-638", "world": "W64-638", "src": "props/C04_fam.c", "tiers": ("thorough",), "args": ["--only", "c13-"]},
        {"name": "fam-map-w64-575q", "world": "W64-575q", "src": "props/C04_fam.c", "tiers": ("thorough",), "args": ["--only", "c13-"]},
        {"name": "fam-map-w64-544", "world": "W64-544", "src": "props/C04_fam.c", "tiers": ("thorough",), "args": ["--only", "c13-"]},
        {"name": "fam-map-w64-158", "world": "W64-158", "src": "props/C04_fam.c", "tiers": ("thorough",), "args": ["--only", "c13-"]},
        {"name": "fam-map-w64-254", "world": "W64-254", "src": "props/C04_fam.c", "tiers": ("thorough",), "args": ["--only", "c13-"]},
        {"name": "fam-map-w64-317", "world": "W64-317", "src": "props/C04_fam.c", "tiers": ("thorough",), "args": ["--only", "c13-"]},
        {"name": "fam-map-w64-354", "world": "W64-354", "src": "props/C04_fam.c", "tiers": ("thorough",), "args": ["--only", "c13-"]},
        {"name": "fam-map-w64-377", "world": "W64-377", "src": "props/C04_fam.c", "tiers": ("thorough",), "args": ["--only", "c13-"]},
        {"name": "fam-map-w64-382", "world": "W64-382", "src": "props/C04_fam.c", "tiers": ("thorough",), "args": ["--only", "c13-"]},
        {"name": "fam-map-w64-383", "world": "W64-383", "src": "props/C04_fam.c", "tiers": ("thorough",), "args": ["--only", "c13-"]},
        {"name": "fam-map-w64-455", "world": "W64-455", "src": "props/C04_fam.c", "tiers": ("thorough",), "args": ["--only", "c13-"]},
        {"name": "fam-map-w64-508", "world": "W64-508", "src": "props/C04_fam.c", "tiers": ("thorough",), "args": ["--only", "c13-"]},
        {"name": "fam-map-w64-509", "world": "W64-509", "src": "props/C04_fam.c", "tiers": ("thorough",), "args": ["--only", "c13-"]},
        {"name": "fam-map-w64-510", "world": "W64-510", "src": "props/C04_fam.c", "tiers": ("thorough",), "args": ["--only", "c13-"]},
        {"name": "fam-map-w64-765", "world": "W64-765", "src": "props/C04_fam.c", "tiers": ("thorough",), "args": ["--only", "c13-"]},
        {"name": "fam-map-w64-766", "world": "W64-766", "src": "props/C04_fam.c", "tiers": ("thorough",), "args": ["--only", "c13-"]},
        {"name": "fam-map-w64-768", "world": "W64-768", "src": "props/C04_fam.c", "tiers": ("thorough",), "args": ["--only", "c13-"]},
        {"name": "fam-map-w64-638q", "world": "W64-638q", "src": "props/C04_fam.c", "tiers": ("thorough",), "args": ["--only", "c13-"]},
        {"name": "map-w64-255", "world": "W64-255", "src": "props/C13_map.c", "ldflags": ["-lcrypto"]},
    ],
}

PROPS["C05"] = {
    "level": "model_checking",
    "technique": "bounded exhaustive enumeration of (scheme, parameter set, DRBG seed, message) x a complete mutation battery per case (every single-bit flip of every integer signature component, component/range substitutions, message bit flips, group-component and key substitutions incl. identity, off-curve and out-of-subgroup points) through the real verifiers; oracle = an independent verdict on every triple: ECDSA re-implemented from the standard on reference curve arithmetic plus OpenSSL's verifier on three named curves, EC-Schnorr re-evaluated on the reference, RSA-PSS by OpenSSL, the pairing schemes' equations re-evaluated from their definitions with reference group arithmetic",
    "level_text": "ECDSA on the six 256-bit curves: keys from cp_ecdsa_gen under enumerated DRBG seeds (public key = [d]G checked by the reference), 8 (thorough 16) message lengths from {0, 1, 31..33, 55, 56, 63..65, 119, 120, 127..129, 200} x patterns, hash-then-sign and pre-hashed mode with digest lengths 20..64; per case ~560 mutated triples (all bit flips of r and s up to bit n+1; r, s -> 0, 1, n, n-1, c+n, n-c, -c, 2^256-1, c+2n, 2c; swap; message bit flips, truncation, extension; key -> identity, -Q, Q+G, 2Q, off-curve, foreign, G, (x,0), (0,0); a forgery under the identity key; projective key). The library's verdict must equal the reference verdict on EVERY triple (so (r, n-s) is expected to verify) and the reference must equal OpenSSL on P-256, secp256k1, brainpoolP256r1. EC-Schnorr: same battery against its equation. RSA-PSS (512/768/1024-bit keys): every listed signature bit flip, message bit flips, sig+N, 0, 1, N, N-1, all-ones, length k+-1, stripped leading zero, foreign key, and signatures of the ENCODED MESSAGE with each listed bit flipped (re-signed with the private exponent by GMP, so that the padding is what is wrong), judged by OpenSSL EVP_PKEY_verify (PSS, SHA-256, MGF1-SHA-256, salt length 0). BLS, BB, ZSS, CL-A, PS on BN_P256 and SM9_P256: honest signatures, every signature/key component -> identity, generator, -X, X+G, 2X, off-curve, X + twist point outside G2, foreign key, message bit flips, all-identity signatures; expected verdict = the scheme's equation and well-formedness rules evaluated with reference-computed group elements. vBNN-IBS, PoK/SoK of discrete logs (single and OR), CL-I, PS-block: completeness and structurally invalid mutations (message/identity bit, component + 1 / + G, statement + G, all-identity).",
    "level_note": "Trusted: OpenSSL (SHA-256, RSA-PSS verify, ECDSA verify), reference group laws, the pairing for the equality tests of the pairing schemes (its bilinearity is C04). Extendable ring signatures (ers, smlers) are driven for completeness at every ring size 1..4 and for the invalidity of every member's altered proof component. Second job (C05_more.c): extendable THRESHOLD ring signatures over EVERY history of extensions and joins up to ring size 4 with every prefix judged (honest accepted for the true threshold; message bit, every member's c / r / h / y / key, every remaining trapdoor, threshold + 1, a ring forged without any secret key: rejected -- finding L40); multi-key homomorphic signatures for every shape 1..3 signers x 1..4 labels and 4-6 coefficient patterns (cp_mklhs_ver, cp_mklhs_off/onv; 12 + 4 S L mutations); two-party Pointcheval-Sanders signing/verification for the simple scheme and blocks of 1, 2, 5 (3) messages against the conventional verifiers. Context-hiding multi-key homomorphic signatures (cp_cmlhs_*, BLS and ECDSA flavours) for every shape 1..3 signers x 1..4 labels and coefficient patterns incl. the zero function: honest evaluation accepted by cp_cmlhs_ver and cp_cmlhs_off/onv; message, R, S, every signer's A / C / Z / inner signature / Y / key, every coefficient, data set name, swapped labels: rejected. Camenisch-Lysyanskaya block signatures for 1..5 messages: every message bit-flipped or swapped, every signature component + G and identity, sum-preserving pairs of the A_i / B_i and triples of the B_i altered along the kernel of (sum, message-weighted sum), every key component + G2, all-identity signature. Out-of-subgroup points for verifiers that do not promise a membership check are expected exactly as the equation decides.",
    "rule": "cases are (scheme, set, seed, message spec); each runs its whole mutation battery; transitions = verdicts compared; mutations_judged, oracle_accepts, oracle_rejects are reported.",
    "assumptions": ["OpenSSL as independent implementation", "reference group laws", "pairing bilinear (C04)"],
    "jobs": [
        {"name": "sig-w64", "world": "W64", "src": "props/C05_sig.c", "ldflags": ["-lcrypto"], "cflags": ["-Wno-deprecated-declarations"]},
        {"name": "sig-more-w64", "world": "W64", "src": "props/C05_more.c"},
    ],
}

PROPS["C06"] = {
    "level": "model_checking",
    "technique": "bounded exhaustive enumeration: every RSA-OAEP plaintext length from 0 to beyond the maximum per key size and the complete byte-mutation battery of ciphertexts judged by OpenSSL's decryption of the same bytes; plaintext alphabets and all operand pairs (incl. wrap-around) for the additively homomorphic schemes with sums checked by GMP; every ECIES plaintext length with every ciphertext/tag byte altered; ECDH/ECMQV keys against a KDF of the shared point computed by the reference group law; every (k, n) threshold with every share subset; every pair of subsets (<= 3 of a 6-element universe) for the three set-intersection protocols; every helper answer altered in every way of a mutation alphabet for the four delegated-pairing protocols; share-split alphabets for the group and pairing triples",
    "level_text": "RSA-OAEP (768/1024-bit keys, thorough 2048): EVERY plaintext length 0..k-66 plus two beyond (must be refused) x byte patterns (all-00, all-FF, leading zero, counter): round trip, exact length, guard bytes, OpenSSL decrypts the library's ciphertext; for a fifth of the lengths the whole battery of mutated ciphertexts (one bit in every third byte, thorough every byte; 0, 1, N-1, N, c+N, length +-1): library verdict and plaintext = OpenSSL's. Paillier, generalised Paillier (s = 1, 2), subgroup Paillier, Rabin, Benaloh (EVERY residue for blocks 2, 3, 5, 251, 257; block value refused): decrypt(encrypt(m)) = m over {0, 1, 2, n-1, n-2, n/2+-1, 2^63..2^65, a fixed value}; cp_phpe_add on ALL ordered pairs of that alphabet incl. sums that wrap, expected (m1 + m2) mod n by GMP. ECIES on six curves: every plaintext length 0..66 (stride 5 except on the first curve in quick): round trip, every byte of body and tag altered => error, truncations, other / identity ephemeral point => error, too-short output buffers not written beyond capacity. ECDH / ECMQV on six curves, key lengths {1, 16, 32, 33, 64, 65}: both parties agree and the key equals KDF2-SHA-256 of the x-coordinate of the shared point computed with ref_ec.h; identity peer key refused. BF-IBE round trip per length 0..40, foreign identity key does not decrypt; BGN enc/dec in G1, G2, product and sum homomorphisms over [0,17)^2. Shamir sharing: every 1 <= k <= n <= 5, secrets {0, 1, q-1, random}: EVERY k-subset and every (k+1)-subset reconstructs, shares interpolate to the secret by GMP Lagrange, indexes distinct and non-zero; multiplication triples: c = ab and the protocol output x y mod q for x, y in {0, 1, q-1, random}. SOK key agreement over all ordered identity pairs of a 12-name list (prefixes, case, trailing blank, empty). Protocol job (C06_proto.c): cp_rsapsi / cp_shipsi / cp_pbpsi on EVERY pair (X, Y) of subsets of at most three elements of {0, 1, 2, n-1, two dense} (42 x 42; quick thins pairs involving the sixth element), thorough also in reversed / rotated array order and a second key: the client's output is exactly the intersection as a multiset; cp_pdpub / cp_lvpub / cp_pdprv / cp_lvprv over P = [a]G1, Q = [b]G2, a, b in {0, 1, 2, n-1, dense}: honest helper accepted with e(P, Q), and EVERY answer altered in 8 ways (x generator, squared, inverted, 1, 0, another answer, non-member, x e(P,Q)): acceptance implies the output e(P, Q); cp_ped_com = [x]G + [r]H over 7 x 7 x 4 selectors incl. the refused ones; g1 / g2 / gt / pairing triples over k, point (incl. identity) and share-split alphabets.",
    "level_note": "Trusted: OpenSSL (RSAES-OAEP decryption, SHA-256), GMP, reference group law. The shared-secret encoding follows the source (minimal-length x-coordinate, the 'BouncyCastle' quirk of ECIES). The protocol job states expected values with the library's own pairing, plain multiplications and group operations, which are decided against the reference models in C03/C04/C11/C12. Soundness of delegation is statistical in the 50-bit challenge; the alphabet contains only challenge-independent alterations, for which acceptance with a wrong value is a defect, not chance. The protocol job also runs (thorough) in the B24, KSS16, KSS18 and B48 builds on the set pc_param_set_any selects: pairing-based set intersection, the four delegated-pairing protocols with every helper answer altered, and the g1 / g2 / gt / pairing triples over ep3 / ep4 / ep8 and the towers of degree 16, 18, 24, 48.",
    "rule": "cases are (scheme, key size / curve, seed, plaintext spec); each runs its whole battery; states = configurations; transitions = verdicts judged.",
    "assumptions": ["OpenSSL as independent implementation", "reference group law", "GMP"],
    "jobs": [
        {"name": "enc-w64", "world": "W64", "src": "props/C06_enc.c", "ldflags": ["-lcrypto"], "cflags": ["-Wno-deprecated-declarations"]},
        {"name": "proto-w64", "world": "W64", "src": "props/C06_proto.c"},
        {"name": "proto-fam-w64-315", "world": "W64-315", "src": "props/C06_proto.c", "defs": ["FAM"], "tiers": ("thorough",)},
        {"name": "proto-fam-w64-330", "world": "W64-330", "src": "props/C06_proto.c", "defs": ["FAM"], "tiers": ("thorough",)},
        {"name": "proto-fam-w64-638", "world": "W64-638", "src": "props/C06_proto.c", "defs": ["FAM"], "tiers": ("thorough",)},
        {"name": "proto-fam-w64-575q", "world": "W64-575q", "src": "props/C06_proto.c", "defs": ["FAM"], "tiers": ("thorough",)},
    ],
}

PROPS["C07"] = {
    "level": "model_checking",
    "technique": "exhaustive enumeration of complete byte-string spaces given to the real decoders in the tiny build (every string of length 0..2/3 for integers, every 2-byte string per prime, every 1- and 3-byte string and structured 5-byte strings per tiny curve, every short text x every radix), tag x length x coordinate alphabets at shipped sizes, against a reference validity predicate and canonical encoder written from the format definition",
    "level_text": "Complete input spaces: the decoder under test sees every byte string of the relevant lengths on tiny instances (2^24 compressed-point strings per curve, 65 536 field strings per prime, every integer string up to 2-3 bytes, every text of length <= 2-3 over a 67-symbol alphabet in every radix 2..64) and must accept exactly the strings the reference predicate calls valid, produce the reference object, and re-encode to the same bytes; every value |a| < 2^12/2^16 in every radix for the text form; encoders are checked for advertised size, guard bytes, short buffers. At 256 bits: every tag byte x 14 lengths x coordinate alphabets (0, 1, p-1, p, p+1, 2^256-1, generator coordinates, wrong roots) on the six curves. Also: binary-curve points (every abscissa of GF(2^17) x every tag, compressed and uncompressed, unused high bits, wrong lengths; the encoding of every point of three tiny curves in affine and projective form), binary-field strings, the byte codec of every extension tower, and the G1/G2 decoders on altered encodings (tags, a coordinate chunk replaced by itself + p, p, all ones, zero, +-1) with three differently prepared destinations whose verdicts must agree.",
    "level_note": "Trusted: the reference predicate (length/tag dispatch, coordinate < p, curve equation, parity convention per observation O1: Montgomery-representation parity for ordinary curves, half-range for pairing-friendly ones). bn_read_str is judged by its documented behaviour of parsing the longest valid prefix. Part 2 (binary fields/curves, extension fields and curves, Edwards, target group) lives in the C16/C10/C11/C17 harnesses where those codecs are exercised on their own structures. Group-element encodings of the pairing groups (C04_fam.c bounds c07-; quick at 256 bits, thorough also at 315, 330, 381, 446, 544, 575, 638 bits): g1 / g2 / gt write-read round trips for 12 elements incl. the identity, compressed and plain, exact sizes (guard bytes), one byte truncated / appended refused, every tag-bit flip never yields an off-curve point (finding L44: the compressed unity of GT).",
    "rule": "cases are (codec, length, bytes) or (codec, value, radix) by odometer over complete byte/character spaces; all counted non-trivial; distinct by 64-bit hash; states = distinct byte strings of the complete spaces; transitions = decoder/encoder calls judged.",
    "assumptions": ["reference validity predicate written from the format", "calls inside RLC_TRY"],
    "jobs": [
        {"name": "codec-w8", "world": "W8", "src": "props/C07_codec.c", "share": 0.7},
        {"name": "codec-w64", "world": "W64", "src": "props/C07_codec.c"},
        {"name": "tower-codec-w8", "world": "W8", "src": "props/C10_fpx.c", "args": ["--op", "cod"], "share": 0.3},
        {"name": "tower-codec-w64", "world": "W64", "src": "props/C10_fpx.c", "args": ["--op", "cod"], "share": 0.3},
        {"name": "tower-codec-w64-381", "world": "W64-381", "src": "props/C10_fpx.c", "args": ["--op", "cod"], "tiers": ("thorough",)},
        {"name": "tower-codec-w64-330", "world": "W64-330", "src": "props/C10_fpx.c", "args": ["--op", "cod"], "tiers": ("thorough",)},
        {"name": "tower-codec-w64-638", "world": "W64-638", "src": "props/C10_fpx.c", "args": ["--op", "cod"], "tiers": ("thorough",)},
        {"name": "bin-codec-w8", "world": "W8", "src": "props/C16_fb.c", "args": ["--only", "codec"], "share": 0.5},
        {"name": "bin-codec-w64", "world": "W64", "src": "props/C16_fb.c", "args": ["--only", "codec"]},
        {"name": "fam-cod-w64", "world": "W64", "src": "props/C04_fam.c", "args": ["--only", "c07-"]},
        {"name": "fam-cod-w64-315", "world": "W64-315", "src": "props/C04_fam.c", "tiers": ("thorough",), "args": ["--only", "c07-"]},
        {"name": "fam-cod-w64-330", "world": "W64-330", "src": "props/C04_fam.c", "tiers": ("thorough",), "args": ["--only", "c07-"]},
        {"name": "fam-cod-w64-638", "world": "W64-638", "src": "props/C04_fam.c", "tiers": ("thorough",), "args": ["--only", "c07-"]},
        {"name": "fam-cod-w64-575q", "world": "W64-575q", "src": "props/C04_fam.c", "tiers": ("thorough",), "args": ["--only", "c07-"]},
        {"name": "fam-cod-w64-544", "world": "W64-544", "src": "props/C04_fam.c", "tiers": ("thorough",), "args": ["--only", "c07-"]},
        {"name": "fam-cod-w64-446", "world": "W64-446", "src": "props/C04_fam.c", "tiers": ("thorough",), "args": ["--only", "c07-"]},
        {"name": "fam-cod-w64-381", "world": "W64-381", "src": "props/C04_fam.c", "tiers": ("thorough",), "args": ["--only", "c07-"]},
    ],
}

PROPS["C15"] = {
    "level": "model_checking",
    "technique": "explicit-state exploration of the DRBG state machine: every history of generate/reseed/refused-request transitions up to depth 3 (quick) / 4 (thorough) from eight instantiations, plus every transition from ~1300 injected non-initial states (carry paths, large reseed counters), each step compared with an independent SP 800-90A Hash_DRBG model (GMP integers + OpenSSL SHA-256)",
    "level_text": "The generator is a real state machine (V, C, reseed counter, seeded flag). All |Sigma|^d histories over a 21-transition alphabet (13 request sizes 0..65536 incl. non-multiples of the digest length, the refused 65537-byte request, 6 reseed lengths, the refused empty seed) are replayed on the real code from a fresh state and compared with the model after EVERY transition (output bytes, V, C, counter). Carry chains that hashes cannot reach in bounded depth are covered by injecting V, C in {0, 1, 2^440-1, 2^440-2, 2^256-1, 2^256, (2^256-1)*2^184, 2^439, 00FF.., 00FF..FF} and counters in {1, 2, 255..257, 32511..32513, 32767, 32768, 65535, 65536, 2^31-2}, and by honestly generating up to counter 70 000. bn_rand for every bit length 0..precision and bn_rand_mod for ten bounds (64 draws x 4 seeds, zero-rejection path counted) are compared with the model stream.",
    "level_note": "Trusted: the 60-line reference Hash_DRBG (validated against relic on the CAVS vectors of test_rand.c implicitly through agreement on all histories), OpenSSL SHA-256, GMP. Not reached: histories longer than the depth from hash-reachable states other than the injected ones; prediction resistance / additional input (not offered by the API).",
    "rule": "a case is a whole call history (instantiation, transitions); histories are enumerated by an odometer over the transition alphabet, distinct by construction and by 64-bit hash; states = distinct histories reached + injected states; transitions = single generator calls compared with the model.",
    "assumptions": ["SP 800-90A rev.1 section 10.1.1 as implemented in the reference model", "MD_MAP is SHA-256 (shipped default)"],
    "jobs": [
        {"name": "drbg-w64", "world": "W64", "src": "props/C15_drbg.c"},
    ],
}

PROPS["C14"] = {
    "level": "model_checking",
    "technique": "bounded-exhaustive enumeration over complete ranges of message/key/output lengths (every message length 0..1100 (thorough 4200), every key x message length pair up to 140 x 140 (thorough 300 x 300), every KDF/MGF output length 0..270 (700), every XMD output length 0..700 (2100) and DST length 0..257, every plaintext length 0..80 and every byte of the last two ciphertext blocks x a xor alphabet), in a build of every selectable hash behind the MAC/KDF/MGF, of the real md_*/bc_* code against OpenSSL EVP and own RFC 7693 / RFC 9380 / MGF1 / KDF2 references",
    "level_text": "Every message length in a range that covers every residue modulo both block sizes several times (and the 55/56/63/64/111/112/127/128 padding boundaries) with four byte patterns for SHA-224/256/384/512 and BLAKE2s-160/256; HMAC on a grid of 12 key lengths x every message length 0..150 (thorough: every pair up to 300); MGF1/KDF2 for every output length 0..130 and larger boundary sizes; expand_message_xmd for four hashes over output/message/DST length alphabets incl. the 255-block maximum and the out-of-range refusals; AES-CBC for the three key sizes (and invalid ones) x every plaintext length 0..80, decryption of every produced ciphertext, ciphertext mutation operators deciding with the reference whether the PKCS#7 padding is still valid.",
    "level_note": "Trusted: OpenSSL 3 EVP (second, independent implementation), ref_hash.h pieces (BLAKE2s self-checked against EVP at 256 bits at start-up). Not reached: messages >= 2^32 bytes (length-field high word).",
    "rule": "cases are (primitive, lengths, pattern) by odometer; all non-trivial; distinct by 64-bit hash; states = grid points (primitive, length tuple, pattern / ciphertext operator) visited, transitions = library calls compared with the reference.",
    "assumptions": ["OpenSSL implements FIPS 180-4, RFC 7693, FIPS 197 / SP 800-38A correctly", "HMAC, KDF2 and MGF1 are written out in the harness over the configured hash (MD_MAP; checked against OpenSSL's HMAC in the SHA-256 build)"],
    "jobs": [
        {"name": "hash-w64", "world": "W64", "src": "props/C14_hash.c"},
        {"name": "hash-w64-sh512", "world": "W64-md-sh512", "src": "props/C14_hash.c", "args": ["--only", "mac"]},
        {"name": "hash-w64-sh224", "world": "W64-md-sh224", "src": "props/C14_hash.c", "args": ["--only", "mac"], "tiers": ("thorough",)},
        {"name": "hash-w64-sh384", "world": "W64-md-sh384", "src": "props/C14_hash.c", "args": ["--only", "mac"], "tiers": ("thorough",)},
        {"name": "hash-w64-b2s160", "world": "W64-md-b2s160", "src": "props/C14_hash.c", "args": ["--only", "mac"], "tiers": ("thorough",)},
        {"name": "hash-w64-b2s256", "world": "W64-md-b2s256", "src": "props/C14_hash.c", "args": ["--only", "mac"], "tiers": ("thorough",)},
    ],
}

PROPS["C19"] = {
    "level": "model_checking",
    "technique": "explicit-state exploration in four parts: (a) every try/throw/rethrow/catch/finally program up to a size and nesting bound executed with the real macros from three initial contexts and compared event by event with a reference interpreter of structured-exception semantics; (b) every interleaving of two per-context programs over two context objects; (c) every history of parameter selections up to a length bound, judged by a differential oracle (observation battery vs a fresh process with only the last selections); (d) every step-level interleaving of 2-3 real threads under a baton scheduler in the thread-enabled build, plus free-running ThreadSanitizer runs of the same bodies",
    "level_text": "(a) all programs over {mark, throw, rethrow, get_code, TRY/CATCH_ANY|CATCH(var)[/FINALLY]} with <= 6 (quick) / <= 7 (thorough) statements, each from a pristine context, after a throw outside any block, and inside an enclosing user block; judged: nearest handler runs, nothing after a throw, every finaliser exactly once, handler chain restored, sticky code semantics, CATCH(var) value. (b) four pairs of per-context programs (init, selections, batteries, throw, get_code, clean+init, incl. throw followed by re-initialisation): ALL interleavings (924 + 792 + 462 + 924); the observation sequence of each context must equal its solo run, and a context that was just (re-)initialised must read as success. (c) alphabet of 11 actions (six prime-curve selections incl. twist selection for the two pairing curves, two binary curves, a foreign dense prime, fp_param_set of another prime, heavy use): ALL histories of length <= 3 (1 463; thorough <= 4: 16 104) on a re-initialised context; afterwards a 25-item observation battery (flags, constants, field/tower ops, generator/variable/fixed/simultaneous multiplications, endomorphism, encodings, hashing, F_p^2 curve ops, pairing, GT, validity, binary curve, sticky code) must hash item by item like a process forked right after core_init that made only the last selections. (d) MULTI=PTHREAD build: program sets for 2 x 5 and 3 x 3 steps (thorough also 2 x 6): ALL 252 + 252 + 1 680 step-level interleavings under a baton scheduler, the observations of each thread equal to its solo run, replay determinism asserted; the same bodies free-running with and without ThreadSanitizer (library and harness instrumented): any data-race report fails the run. Structural side (mt-syms): EVERY data object of the multi-threaded archive in a writable non-thread-local section is enumerated (objdump -t) and must be on a justified list of five (the thread-initialiser hook and its argument, the volatile memset pointer, two never-written SHA initial-value tables); the two context pointers must be thread-local.",
    "level_note": "Trusted: the reference interpreter of (a) (relic's documented order: finaliser before handler); the battery as the notion of what the library computes. Derived data that no computation of the selected sets reads (sparse form of a previous sparse prime after a dense one, the curve-family parameter after leaving a pairing curve) is deliberately not observed. (d) explores scheduling at API-step granularity; instruction-level interleavings inside a step are covered only by the ThreadSanitizer runs (sampling of schedules, exhaustive in nothing) -- stated as a limit.",
    "rule": "cases are (program text, initial context) resp. (selection history) resp. (schedule); enumerated by a generator over the grammar / odometers; distinct by 64-bit hash; states = programs x contexts; transitions = model statements executed (each compared with the implementation trace).",
    "assumptions": ["structured-exception semantics as stated in the property with finaliser-before-handler order", "CHECK and VERBS on (shipped)"],
    "jobs": [
        {"name": "err-w64", "world": "W64", "src": "props/C19_err.c", "share": 0.4},
        {"name": "ctx-w64", "world": "W64", "src": "props/C19_ctx.c", "share": 0.4},
        {"name": "mt-w64", "world": "W64-mt", "src": "props/C19_mt.c", "ldflags": ["-lpthread"], "share": 0.5},
        {"name": "mt-syms", "world": "W64-mt", "src": "props/C19_syms.c", "share": 0.05},
        {"name": "mt-tsan", "world": "W64-mt-tsan", "src": "props/C19_mt.c", "defs": ["C19_FREE_ONLY"], "cflags": ["-fsanitize=thread", "-O1", "-g"], "ldflags": ["-fsanitize=thread", "-lpthread"],
         "env": {"TSAN_OPTIONS": "halt_on_error=1:exitcode=66:report_signal_unsafe=0"}},
    ],
}

PROPS["C16"] = {
    "level": "model_checking",
    "technique": "explicit-state enumeration of the complete field GF(2^17) (every element through every unary operation and algorithm variant) and of tiny Koblitz/random binary curves over it (point-subset group law, every scalar in [-2n-3, 2n+3] through every routine) in the 8-bit-digit build, plus alphabet products for GF(2^283), NIST B-283 and K-283, against a shift-and-xor polynomial reference",
    "level_text": "Every one of the 131 072 elements of GF(2^17) through 3 squarers, 2 square-rooters, 8 inverters, 2 trace and 2 quadratic-solver routines, iterated squaring for every count 0..m+1, products with a structured alphabet through 3-4 multipliers in every alias pattern, every 3-byte string through the decoder. Four tiny curves over GF(2^17) (both Koblitz curves, two random ones; orders 2r / 4r with r prime by reference counting): all pairs of a 120-400 point list incl. the identity, the point of order two, opposite points and generator + 2-torsion in affine and Lopez-Dahab representations and alias patterns; halving on every listed point of odd order (2 hlv(P) = P, result in the subgroup), Frobenius = (x^2, y^2); every scalar in [-2n-3, 2n+3] through binary, Lopez-Dahab ladder, (tau-)w-NAF, regular (tau-)w-NAF, halving, generator, digit and four fixed-base routines; simultaneous forms over scalar alphabets and related base points. At 283 bits the same oracles run on alphabets for both NIST curves. Also: the quadratic extension GF(2^m)[s]/(s^2+s+1) (every x of GF(2^17) paired with alphabet and derived partners through multiplication, squaring, inversion, multiplication by s and quadratic solving), table-driven iterated squaring for every count, both reductions of double-length polynomials, bit access, strings in every power-of-two radix, the point codec over every abscissa x every tag, a second tiny pentanomial (quick) and further trinomials / pentanomials, Karatsuba builds and the library's second 283-bit polynomial (thorough), and every trinomial / pentanomial of degree 17 offered to the public setters.",
    "level_note": "Trusted: ref_gf2.h (shift-and-xor multiplication, Fermat inversion, affine binary-curve law); the library polynomial is asserted equal to the reference polynomial at start-up. fb2_* (quadratic extension) is not covered yet. Not reached: defects needing a specific 283-bit operand outside the alphabet with no 17-bit analogue. The thorough tier repeats the 64-bit battery in builds with FB_POLYN = 163 and 233 (NIST B-/K-163, B-/K-233); m = 409 and 571 exceed the 5-word reference elements and are not built.",
    "rule": "cases are (operation group, operands/points/scalars) by odometer over the complete field / scalar ranges / point lists; all non-trivial; distinct by 64-bit hash; states = field elements visited in the complete space; transitions = individual routine results compared with the reference.",
    "assumptions": ["reference GF(2^m) and curve arithmetic in ref_gf2.h", "calls inside RLC_TRY"],
    "jobs": [
        {"name": "fb-w8", "world": "W8", "src": "props/C16_fb.c", "share": 0.7, "share_thorough": 0.55},
        {"name": "fb-w64", "world": "W64", "src": "props/C16_fb.c", "share_thorough": 0.2},
        {"name": "fb-w64-sqrt", "world": "W64", "src": "props/C16_fb.c", "env": {"VF_FB_POLY": "sqrt"}, "share": 0.1},
        {"name": "fb-w8-p953", "world": "W8", "src": "props/C16_fb.c", "env": {"VF_FB_POLY": "p:9,5,3"}, "share": 0.2, "share_thorough": 0.1},
        {"name": "fb-w8-p532", "world": "W8", "src": "props/C16_fb.c", "env": {"VF_FB_POLY": "p:5,3,2"}, "tiers": ("thorough",), "share": 0.1},
        {"name": "fb-w8-p871", "world": "W8", "src": "props/C16_fb.c", "env": {"VF_FB_POLY": "p:8,7,1"}, "tiers": ("thorough",), "share": 0.1},
        {"name": "fb-w8-t6", "world": "W8", "src": "props/C16_fb.c", "env": {"VF_FB_POLY": "t:6"}, "tiers": ("thorough",), "share": 0.1},
        {"name": "fb-w8-t5", "world": "W8", "src": "props/C16_fb.c", "env": {"VF_FB_POLY": "t:5"}, "tiers": ("thorough",), "share": 0.1},
        {"name": "fb-w64-karat", "world": "W64-karat", "src": "props/C16_fb.c", "tiers": ("thorough",), "share": 0.1},
        {"name": "fb-w8-karat", "world": "W8-karat", "src": "props/C16_fb.c", "tiers": ("thorough",), "share": 0.15},
        {"name": "fb-w64-163", "world": "W64-fb163", "src": "props/C16_fb.c", "tiers": ("thorough",), "share": 0.1},
        {"name": "fb-w64-233", "world": "W64-fb233", "src": "props/C16_fb.c", "tiers": ("thorough",), "share": 0.1},
    ],
}

PROPS["C10"] = {
    "level": "model_checking",
    "technique": "explicit-state enumeration of complete quadratic and cubic extensions of tiny prime fields (every element of F_p^2 for p in {257, 263, 331, 1009}, F_p^3 for p = 331) and alphabet products for every tower up to degree 54 at 16-bit and 256-bit primes, against a generic polynomial-quotient-ring reference whose tower constants are read from the library and validated to define fields",
    "level_text": "Every element of F_p^2 (p = 257, 263, 331, 1009: up to 10^6 states each) through negation, doubling, every squaring variant, multiplication by the adjoined root, inversion (a * inv(a) = 1 by reference multiplication, zero refused), square root and quadratic-residuosity (Euler criterion in the quotient ring), Frobenius powers 0..N; pairs against structured operands through every add/sub/mul variant and alias pattern; F_p^3 for p = 331 (every 7th element quick, all 3.6*10^7 thorough). Towers of degree 4, 6, 8, 9, 12, 16, 18, 24, 48, 54: per-coefficient alphabet {0, 1, p-1, 2, (p-1)/2, dense} in all positions (all vectors for N <= 4, <= 2 non-default positions over zero and dense defaults above, all-(p-1) for maximal lazy-reduction accumulators) through the same operations, exponentiation incl. 0, negative, p, 300-bit, and the fp12 cyclotomic family (conv_cyc, test_cyc, sqr_cyc, inv_cyc, exp_cyc, compressed squaring + decompression) at both 256-bit pairing primes (BN_256, SM9_256). Also: simultaneous inversion of every tower that offers it (batch lengths 1..4, separate and in-place output), the cyclotomic subgroup of the towers 8, 12, 16, 18, 24, 48, 54 (conversion against a^((p^k-1)/Phi_k(p)), membership, cyclotomic and compressed squarings with single and simultaneous decompression, inversion, exponentiation incl. the sparse form), the sparse multiplications of the k = 12 Miller loop for both twist types, and the byte codec of every tower.",
    "level_note": "Trusted: ref_ext.h; the gamma of each level is the library's own X^d and is validated by the reference (X^d - gamma irreducible), towers failing the validation for a prime are reported as not-a-field and skipped. Not yet covered: mul_dxs sparse forms, unreduced mul_unr outputs, exp_cyc_sps/gls/sim, fp18+ cyclotomic families, pck/upk (those are exercised indirectly through the pairing checks C04/C12).",
    "rule": "cases are (prime, tower, operation group, elements); tiny worlds: complete element spaces by odometer, alphabets above; all non-trivial; distinct by 64-bit hash; states = elements of the complete spaces; transitions = individual results compared.",
    "assumptions": ["reference quotient-ring arithmetic in ref_ext.h", "calls inside RLC_TRY"],
    "jobs": [
        {"name": "dxs-w64", "world": "W64", "src": "props/C04_pair.c", "args": ["--op", "dxs"], "share": 0.05},
        {"name": "dxs-w64-381", "world": "W64-381", "src": "props/C04_pair.c", "args": ["--op", "dxs"], "tiers": ("thorough",), "share": 0.05},
        {"name": "fpx-w8", "world": "W8", "src": "props/C10_fpx.c", "share": 0.5, "share_thorough": 0.28},
        {"name": "fpx-w64", "world": "W64", "src": "props/C10_fpx.c", "share_thorough": 0.28},
        {"name": "fpx-w64-381", "world": "W64-381", "src": "props/C10_fpx.c", "tiers": ("thorough",), "share": 0.08},
        {"name": "fpx-w64-446", "world": "W64-446", "src": "props/C10_fpx.c", "tiers": ("thorough",), "share": 0.07},
        {"name": "fpx-w64-315", "world": "W64-315", "src": "props/C10_fpx.c", "tiers": ("thorough",), "share": 0.07},
        {"name": "fpx-w64-330", "world": "W64-330", "src": "props/C10_fpx.c", "tiers": ("thorough",), "share": 0.07},
        {"name": "fpx-w64-575q", "world": "W64-575q", "src": "props/C10_fpx.c", "tiers": ("thorough",), "share": 0.07},
        {"name": "fpx-w64-638", "world": "W64-638", "src": "props/C10_fpx.c", "tiers": ("thorough",), "share": 0.07},
    ],
}

def _san(name, world, src, stride, quick_stride=None):
    j = {"name": name, "world": world, "src": src, "args": ["--stride", str(stride)], "memory_only": True, "share": 0.12}
    if quick_stride:
        j["args_quick"] = ["--stride", str(quick_stride)]   # the quick tier thins further so that the job ends within its share
    return j

PROPS["C08"] = {
    "level": "fault_enumeration",
    "technique": "exhaustive allocation-failure enumeration (every k-th allocation of every driver operation fails once, each in a forked child under AddressSanitizer/UndefinedBehaviorSanitizer in the ALLOC=DYNAMIC build) plus re-execution of the bounded-exhaustive drivers of the other properties (complete tiny state spaces, capacity-edge and buffer-length sweeps) under the sanitizers",
    "level_text": "Pass 3: for each of 24 driver operations (bn mul/div/gcd/mxp/inverse/primality/text codec, fp inverse/exp/root, ep lwnaf/lwreg/ladder/generator/simultaneous/hash-to-curve/codec, ep2 mul, optimal-ate pairing, fp12 arithmetic, eb mul, XMD, ECDSA gen+sign+verify, BLS gen+sign+verify) the run counts the N allocations and fails exactly the k-th one for EVERY k in 1..N (capped at 300 per driver in the quick tier); each case must report the failure (thrown code or error return), raise no sanitizer report, and compute the baseline result when repeated fault-free. Passes 1-2: the enumerations of C01, C02, C03, C07, C09, C10, C16 (every k-th case of their deterministic order, stride recorded per job) re-run in W8-san / W64-san; only memory verdicts count there: sanitizer reports, crashes, hangs, guard-byte violations, missing precision/buffer errors.",
    "level_note": "Trusted: ASan/UBSan (gcc 12) as the memory oracle. Calls outside any RLC_TRY are not explored (documented idiom). Intra-object overflow invisible to ASan is only seen through guard bytes / value oracles. Leaks are not judged.",
    "rule": "pass 3 cases are (driver, index of the failed allocation): all counted non-trivial, distinct by construction; passes 1-2 reuse the case definitions of the re-run harnesses with the stated stride.",
    "assumptions": ["sanitizers as oracle", "calls inside RLC_TRY"],
    "jobs": [
        {"name": "alloc-faults", "world": "W64-dyn-san", "src": "props/C08_alloc.c", "ldflags": ["-Wl,--wrap=malloc,--wrap=calloc,--wrap=realloc,--wrap=posix_memalign"], "share": 0.3,
         "env": {"ASAN_OPTIONS": "abort_on_error=1:detect_leaks=0:allocator_may_return_null=1:handle_segv=1:handle_sigbus=1:handle_abort=0"}},
        _san("san-bn-w8", "W8-san", "props/C01_bn.c", 120), _san("san-bn-w64", "W64-san", "props/C01_bn.c", 40),
        _san("san-fp-w8", "W8-san", "props/C02_fp.c", 50), _san("san-fp-w64", "W64-san", "props/C02_fp.c", 16),
        _san("san-ep-w8", "W8-san", "props/C03_ep.c", 80), _san("san-ep-w64", "W64-san", "props/C03_ep.c", 24),
        _san("san-codec-w8", "W8-san", "props/C07_codec.c", 16), _san("san-codec-w64", "W64-san", "props/C07_codec.c", 4),
        _san("san-nt-w8", "W8-san", "props/C09_nt.c", 120), _san("san-nt-w64", "W64-san", "props/C09_nt.c", 40),
        _san("san-fpx-w64", "W64-san", "props/C10_fpx.c", 50),
        _san("san-fb-w8", "W8-san", "props/C16_fb.c", 100, 300), _san("san-fb-w64", "W64-san", "props/C16_fb.c", 20),
        _san("san-hash-w64", "W64-san", "props/C14_hash.c", 1), _san("san-drbg-w64", "W64-san", "props/C15_drbg.c", 1),
        {"name": "edge-w64", "world": "W64-san", "src": "props/C08_edge.c", "share": 0.25, "env": {"ASAN_OPTIONS": "detect_leaks=0:handle_segv=1:handle_sigbus=1"}},
        {"name": "edge-w8", "world": "W8-san", "src": "props/C08_edge.c", "share": 0.15, "env": {"ASAN_OPTIONS": "detect_leaks=0:handle_segv=1:handle_sigbus=1"}},
    ],
}

_TRACE = ["-fsanitize-coverage=trace-pc"]
# two scopes: the utility translation units are traced only for the primitives (fp_is_zero & co. live there and are data dependent by design);
# the regular algorithms are traced in their own bodies only
_CT_PRIM_TUS = [("src/dv/relic_dv_util.c", _TRACE), ("src/relic_util.c", _TRACE), ("src/fp/relic_fp_util.c", _TRACE)]
_CT_TUS = [("src/ep/relic_ep_mul.c", _TRACE), ("src/epx/relic_ep2_mul.c", _TRACE), ("src/eb/relic_eb_mul.c", _TRACE), ("src/bn/relic_bn_mxp.c", _TRACE), ("src/ed/relic_ed_mul.c", _TRACE), ("src/fb/relic_fb_exp.c", _TRACE),
           ("src/fp/relic_fp_exp.c", _TRACE), ("src/pc/relic_pc_exp.c", _TRACE)]
PROPS["C20"] = {
    "level": "model_checking",
    "technique": "exhaustive self-composition by enumeration: the real routines, recompiled with -fsanitize-coverage=trace-pc at the shipped optimisation level, are run on every secret of a complete tiny secret space (every k in [1, n-1] on three 16-bit curves, every exponent of a fixed bit length) and on structured 256/283-bit alphabets; the basic-block trace must be identical to that of a reference secret and the result must equal the specification",
    "level_text": "Observation = sequence of basic-block PCs of the algorithm translation units (ep_mul, ep2_mul, eb_mul, bn_mxp, fp_exp, pc_exp, bn_rec, dv_util, util, fp_util). Complete: every scalar 1..n-1 on three tiny curves (plain a=-3, GLV, generic a) for ep_mul_monty, ep_mul_lwreg and the output length of bn_rec_reg; every 12-bit and every 16-bit exponent for bn_mxp_monty / fp_exp_monty; every pair from a digit alphabet x every position x both condition bits x sizes 0..4 for dv_copy_sec, dv_swap_sec, dv_cmp_sec, util_cmp_sec, fp_copy_sec. Alphabets (Hamming weight 1/2, runs of ones/zeros, n-1, n/2, small, dense): the six 256-bit curves, ep2_mul_monty/lwreg, g1_mul_sec, g2_mul_sec, gt_exp_sec on BN_P256, eb_mul_lodah / eb_mul_rwnaf on NIST B-283 and K-283. Controls: ep_mul_lwnaf, bn_mxp_slide, dv_cmp must show more than one trace over the same secrets (reported per shard in the evidence notes).",
    "level_note": "Limits: timing and micro-architectural effects, data flow inside a basic block, other compilers/flags, and the field layer below the group level (callees in other translation units are not traced; the caller's block sequence fixes which calls are made). Edwards routines (ed_mul_monty, ed_mul_lwreg; control ed_mul_lwnaf) are checked in the 255-bit build on Ed25519; binary-field exponentiation (fb_exp_monty; control fb_exp_slide) on exponents of one fixed length.",
    "rule": "a case is (routine, curve, reference secret, secret); complete secret ranges by odometer; all non-trivial; states = secrets of the complete tiny spaces; transitions = basic blocks recorded and compared.",
    "assumptions": ["basic-block trace equality as the observable", "generator re-seeded identically before both runs so blinding is the same public input"],
    "jobs": [
        {"name": "ct-prim-w8", "world": "W8", "src": "props/C20_ct.c", "retu": _CT_PRIM_TUS, "defs": ["CT_PRIM"], "share": 0.1},
        {"name": "ct-prim-w64", "world": "W64", "src": "props/C20_ct.c", "retu": _CT_PRIM_TUS, "defs": ["CT_PRIM"], "share": 0.1},
        {"name": "ct-reg-w8", "world": "W8", "src": "props/C20_ct.c", "retu": _CT_TUS, "defs": ["CT_REG"], "share": 0.5},
        {"name": "ct-reg-w64", "world": "W64", "src": "props/C20_ct.c", "retu": _CT_TUS, "defs": ["CT_REG"], "share": 0.5},
        {"name": "ct-reg-w64-255", "world": "W64-255", "src": "props/C20_ct.c", "retu": _CT_TUS, "defs": ["CT_REG"]},
    ],
}
