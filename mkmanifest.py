#!/usr/bin/env python3
"""Regenerates MANIFEST.json from jobs.py (PROPS) so that the two cannot drift apart."""
import json
import os
import sys
ROOT = os.path.dirname(os.path.abspath(__file__))
sys.path.insert(0, ROOT)
from jobs import PROPS, NOT_APPLICABLE  # noqa

ALL = ["C%02d" % i for i in range(1, 21)]
m = {
    "version": 1,
    "setup_cmd": "python3 check.py setup",
    "hooks": {
        "guard": "RELIC_VERIF",
        "enable": "worlds.py passes -DRELIC_VERIF in CFLAGS of every world build; no source hook is needed so far "
                  "(ctx_t is public, algorithm variants are exported, printing is interposed with -Wl,--wrap, tracing and fault injection use compiler/linker flags)",
        "baseline_off_cmd": "cmake -S /repo -B /repo/_build -G Ninja -DCMAKE_BUILD_TYPE=RelWithDebInfo -DCMAKE_POLICY_VERSION_MINIMUM=3.5 -DCMAKE_C_FLAGS=-Wno-error && cmake --build /repo/_build -j16 && ctest --test-dir /repo/_build -j8 --timeout 900",
        "source_commits": [],
        "add_only": True,
    },
    "engines": [
        {"name": "xplore", "path": "engine/vf.h", "serves_properties": sorted(PROPS),
         "kind_free_text": "hand-written explicit-state / bounded-exhaustive enumeration runtime in C (odometers over duplicate-free domains, 16 shards, replay-before-report) driving the real library against GMP/OpenSSL reference models; orchestrated by check.py"},
    ],
    "checks": [],
    "not_applicable": [],
    "notes": "See DESIGN.md. known_findings.json lists recorded and fixed genuine defects.",
}
for pid in ALL:
    if pid in PROPS:
        p = PROPS[pid]
        m["checks"].append({
            "property_id": pid,
            "quick_cmd": "python3 check.py %s --tier quick" % pid,
            "thorough_cmd": "python3 check.py %s --tier thorough" % pid,
            "evidence_file": "evidence/%s.json" % pid,
            "replay_cmd_template": "python3 check.py replay {path}",
            "engine": "xplore",
            "level_claimed": {"category": p["level"], "text": p["level_text"], "design_ref": p.get("design_ref", "DESIGN.md section 3, " + pid)},
            "level_note": p["level_note"],
            "technique": p["technique"],
        })
    else:
        m["not_applicable"].append({"property_id": pid, "reason": NOT_APPLICABLE.get(pid, "check not built yet in this phase; see DESIGN.md")})
json.dump(m, open(os.path.join(ROOT, "MANIFEST.json"), "w"), indent=1)
print("MANIFEST.json: %d checks, %d not_applicable" % (len(m["checks"]), len(m["not_applicable"])))
try:
    import jsonschema
    jsonschema.validate(m, json.load(open("/root/.vp/MANIFEST.schema.json")))
    print("schema ok")
except ImportError:
    pass
