#!/bin/bash
# seedtest.sh <worktree> <outdir-of-agent> <n> <PROP> <seed-name> <test-binaries...>
# 1. confirms a seeded change in the scratch worktree (tests pass with it, demo fails with it / passes without)
# 2. applies it to /repo, runs the property's quick check, reverts /repo
# 3. stores it under /verif/seeded/<seed-name>/
set -u
WT=$1; OUT=$2; N=$3; PROP=$4; NAME=$5; shift 5; TESTS="$@"
D=$OUT/$N
B=$WT/${SEED_BUILD:-_b}
log() { echo "[seedtest $NAME] $*"; }
cd $WT && git checkout -q -- . && git apply $D/patch.diff || { log "patch does not apply in worktree"; exit 1; }
cmake --build $B -j8 --target relic_s $TESTS >/dev/null 2>&1 || { log "build failed with patch"; git checkout -q -- .; exit 1; }
TP=1
for t in $TESTS; do if ! (cd $B && ./bin/$t >/tmp/seed_$t.log 2>&1); then TP=0; log "$t FAILS with the patch"; fi; if grep -q "FAIL" /tmp/seed_$t.log; then TP=0; log "$t prints FAIL"; fi; done
gcc -O1 -I$WT/include -I$B/include $D/demo.c $B/lib/librelic_s.a -lcrypto -lgmp -lpthread -o /tmp/seed_demo 2>/dev/null || { log "demo does not compile"; }
/tmp/seed_demo >/tmp/seed_demo1.log 2>&1; R1=$?
git checkout -q -- . && cmake --build $B -j8 --target relic_s >/dev/null 2>&1
gcc -O1 -I$WT/include -I$B/include $D/demo.c $B/lib/librelic_s.a -lcrypto -lgmp -lpthread -o /tmp/seed_demo 2>/dev/null
/tmp/seed_demo >/tmp/seed_demo0.log 2>&1; R0=$?
log "tests pass with patch: $TP ; demo rc with patch: $R1 ; demo rc without: $R0"
if [ $TP != 1 ] || [ $R1 = 0 ] || [ $R0 != 0 ]; then log "NOT CONFIRMED"; exit 2; fi
# store, then run the check against a scratch worktree of /repo HEAD + patch (seedrun.sh; /repo itself stays untouched)
RC=-1; V=0
mkdir -p /verif/seeded/$NAME && cp $D/patch.diff $D/demo.c /verif/seeded/$NAME/ && cp $D/notes.txt /verif/seeded/$NAME/notes.txt 2>/dev/null
python3 - <<PY
import json
json.dump({"property":"$PROP","seed":"$NAME","needs_to_manifest":open("$D/notes.txt").read()[:1500],
 "confirmed":{"tests_run":"$TESTS","tests_pass_with_patch":True,"demo_fails_with_patch":True,"demo_passes_without":True},
 "check_run":"python3 check.py $PROP --tier quick","check_exit":$RC,"violations_reported":$V,"detected":$RC==1 and $V>0}, open("/verif/seeded/$NAME/meta.json","w"), indent=1)
PY
bash /verif/seedrun.sh $PROP $NAME
