#!/usr/bin/env python3
"""World table and build cache.

A *world* is a cmake/ninja build of /repo's CURRENT working tree (static library only) into
/verif/.build/<world>-<treehash>/ .  The tree hash covers every file below /repo/src, /repo/include,
/repo/cmake and /repo/CMakeLists.txt, so a check rebuilds when, and only when, the tree changed.
Stale build directories of the same world (other tree hash) are pruned.
"""
import fcntl
import hashlib
import os
import shutil
import subprocess
import sys
import time

REPO = os.environ.get("VERIF_REPO", "/repo")
ROOT = os.path.dirname(os.path.abspath(__file__))
BUILD = os.path.join(ROOT, ".build")
GUARD = "RELIC_VERIF"

SAN = "-fsanitize=address,undefined -fno-sanitize-recover=undefined -fno-omit-frame-pointer -O1 -g"

# name -> (cmake -D options, extra C flags)
WORLDS = {
    # shipped defaults == baseline configuration of the pinned suite
    "W64": ([], ""),
    "W64-san": ([], SAN),
    # tiny world: 8-bit digits, 16-bit prime fields, GF(2^17)
    "W8": (["WSIZE=8", "FP_PRIME=16", "BN_PRECI=64", "FB_POLYN=17", "RAND=CALL"], ""),
    "W8-san": (["WSIZE=8", "FP_PRIME=16", "BN_PRECI=64", "FB_POLYN=17", "RAND=CALL"], SAN),
    "W8-jacob": (["WSIZE=8", "FP_PRIME=16", "BN_PRECI=64", "FB_POLYN=17", "RAND=CALL",
                  "EP_METHD=JACOB;LWNAF;COMBS;INTER;SSWUM"], ""),
    "W8-basic": (["WSIZE=8", "FP_PRIME=16", "BN_PRECI=64", "FB_POLYN=17", "RAND=CALL",
                  "EP_METHD=BASIC;LWNAF;COMBS;INTER;SSWUM",
                  "FP_METHD=BASIC;COMBA;COMBA;MONTY;BINAR;BASIC;BASIC",
                  "ED_METHD=EXTND;LWREG;COMBD;JOINT",
                  "EB_METHD=BASIC;HALVE;LWNAF;TRICK"], ""),
    "W8-fb11": (["WSIZE=8", "FP_PRIME=16", "BN_PRECI=64", "FB_POLYN=11", "RAND=CALL"], ""),
    "W16": (["WSIZE=16", "FP_PRIME=32", "BN_PRECI=128", "FB_POLYN=17", "RAND=CALL"], ""),
    "W64-255": (["FP_PRIME=255"], ""),
    "W64-255-edext": (["FP_PRIME=255", "ED_METHD=EXTND;LWNAF;COMBS;INTER"], ""),
    "W8-edext": (["WSIZE=8", "FP_PRIME=16", "BN_PRECI=64", "FB_POLYN=17", "RAND=CALL", "ED_METHD=EXTND;LWNAF;COMBS;INTER"], ""),
    "W64-381": (["FP_PRIME=381"], ""),
    "W64-446": (["FP_PRIME=446"], ""),
    "W64-446q": (["FP_PRIME=446", "FP_QNRES=on"], ""),
    # the other pairing families, as the shipped presets configure them
    "W64-315": (["FP_PRIME=315"], ""),
    "W64-330": (["FP_PRIME=330"], ""),
    "W64-575q": (["FP_PRIME=575", "FP_QNRES=on", "BN_PRECI=3072"], ""),
    "W64-638": (["FP_PRIME=638"], ""),
    "W64-544": (["FP_PRIME=544"], ""),
    "W64-160": (["FP_PRIME=160"], ""),
    "W64-192": (["FP_PRIME=192"], ""),
    "W64-224": (["FP_PRIME=224"], ""),
    "W64-384": (["FP_PRIME=384"], ""),
    "W64-521": (["FP_PRIME=521"], ""),
    # Karatsuba levels switched on (the default builds compile the Karatsuba code with zero levels)
    "W64-karat": (["FP_KARAT=1", "BN_KARAT=2", "FB_KARAT=1"], ""),
    "W8-karat": (["WSIZE=8", "FP_PRIME=16", "BN_PRECI=64", "FB_POLYN=17", "RAND=CALL", "FP_KARAT=1", "BN_KARAT=1", "FB_KARAT=1"], ""),
    # the other selectable hash functions behind md_map / md_hmac / md_kdf / md_mgf
    "W64-md-sh224": (["MD_METHD=SH224"], ""),
    "W64-md-sh384": (["MD_METHD=SH384"], ""),
    "W64-md-sh512": (["MD_METHD=SH512"], ""),
    "W64-md-b2s160": (["MD_METHD=B2S160"], ""),
    "W64-md-b2s256": (["MD_METHD=B2S256"], ""),
    "W64-fb163": (["FB_POLYN=163"], ""),
    "W64-fb233": (["FB_POLYN=233"], ""),
    # the remaining pairing field sizes (one selectable family each): thorough tier only
    "W64-158": (["FP_PRIME=158"], ""),
    "W64-254": (["FP_PRIME=254"], ""),
    "W64-317": (["FP_PRIME=317"], ""),
    "W64-354": (["FP_PRIME=354"], ""),
    "W64-377": (["FP_PRIME=377"], ""),
    "W64-382": (["FP_PRIME=382"], ""),
    "W64-383": (["FP_PRIME=383"], ""),
    "W64-455": (["FP_PRIME=455"], ""),
    "W64-508": (["FP_PRIME=508"], ""),
    "W64-509": (["FP_PRIME=509"], ""),
    "W64-510": (["FP_PRIME=510"], ""),
    "W64-765": (["FP_PRIME=765", "BN_PRECI=3072"], ""),
    "W64-766": (["FP_PRIME=766", "BN_PRECI=3072"], ""),
    "W64-768": (["FP_PRIME=768", "BN_PRECI=3072"], ""),
    "W64-638q": (["FP_PRIME=638", "FP_QNRES=on", "BN_PRECI=2048"], ""),
    "W64-dyn-san": (["ALLOC=DYNAMIC"], SAN),
    "W64-mt": (["MULTI=PTHREAD"], ""),
    "W64-mt-tsan": (["MULTI=PTHREAD"], "-fsanitize=thread -O1 -g"),
    "W64-pkcs1": (["CP_RSAPD=PKCS1"], ""),
    "W64-basicpad": (["CP_RSAPD=BASIC", "CP_CRT=off"], ""),
    "W64-cov": ([], "--coverage -O0"),
    "W8-cov": (["WSIZE=8", "FP_PRIME=16", "BN_PRECI=64", "FB_POLYN=17", "RAND=CALL"], "--coverage -O0"),
}


def tree_hash():
    h = hashlib.sha1()
    paths = []
    for top in ("src", "include", "cmake"):
        for dp, dn, fn in os.walk(os.path.join(REPO, top)):
            dn.sort()
            for f in sorted(fn):
                paths.append(os.path.join(dp, f))
    paths.append(os.path.join(REPO, "CMakeLists.txt"))
    for p in paths:
        try:
            with open(p, "rb") as fh:
                data = fh.read()
        except OSError:
            continue
        h.update(os.path.relpath(p, REPO).encode())
        h.update(b"\0")
        h.update(hashlib.sha1(data).digest())
    return h.hexdigest()[:12]


_TH = None


def th():
    global _TH
    if _TH is None:
        _TH = tree_hash()
    return _TH


def world_dir(name):
    return os.path.join(BUILD, "%s-%s" % (name, th()))


def build(name, log=sys.stderr):
    """Build (or reuse) world `name`; returns its directory. Raises on failure."""
    opts, cflags = WORLDS[name]
    os.makedirs(BUILD, exist_ok=True)
    d = world_dir(name)
    lock = open(os.path.join(BUILD, ".lock-" + name), "w")
    fcntl.flock(lock, fcntl.LOCK_EX)
    try:
        if os.path.exists(os.path.join(d, ".ok")):
            os.utime(d, None)   # mark as in use
            return d
        # prune stale builds of this world
        # (keep the most recent other build: a seeded-change run against a scratch copy of the repository and a run against
        # /repo itself alternate, and must not evict each other's build while the other is still running)
        olds = [e for e in os.listdir(BUILD) if e.startswith(name + "-") and e != os.path.basename(d) and len(e) == len(name) + 13]
        olds.sort(key=lambda e: os.path.getmtime(os.path.join(BUILD, e)), reverse=True)
        for e in olds[1:]:
            if time.time() - os.path.getmtime(os.path.join(BUILD, e)) < 5400:
                continue    # used within the last 90 minutes: a run against another tree may still be executing from it
            shutil.rmtree(os.path.join(BUILD, e), ignore_errors=True)
        shutil.rmtree(d, ignore_errors=True)
        os.makedirs(d)
        t0 = time.time()
        cf = "-Wno-error -D%s %s" % (GUARD, cflags)
        cmd = ["cmake", "-S", REPO, "-B", d, "-G", "Ninja", "-DCMAKE_BUILD_TYPE=RelWithDebInfo",
               "-DCMAKE_POLICY_VERSION_MINIMUM=3.5", "-DSHLIB=OFF", "-DSTLIB=ON", "-DTESTS=0", "-DBENCH=0",
               "-DDOCUM=OFF", "-DCOLOR=OFF", "-DCMAKE_C_FLAGS=" + cf, "-DCFLAGS=" + cf]
        if cflags:
            # sanitizer / coverage worlds: keep the requested optimisation level
            cmd.append("-DCMAKE_C_FLAGS_RELWITHDEBINFO=-g -DNDEBUG")
        cmd += ["-D" + o for o in opts]
        with open(os.path.join(d, "verif-build.log"), "w") as lf:
            r = subprocess.run(cmd, stdout=lf, stderr=subprocess.STDOUT)
            if r.returncode == 0:
                r = subprocess.run(["cmake", "--build", d, "-j", str(os.cpu_count() or 8)], stdout=lf,
                                   stderr=subprocess.STDOUT)
        if r.returncode != 0 or not os.path.exists(os.path.join(d, "lib", "librelic_s.a")):
            tail = open(os.path.join(d, "verif-build.log")).read()[-3000:]
            raise RuntimeError("world %s failed to build:\n%s" % (name, tail))
        open(os.path.join(d, ".ok"), "w").write("%.1f\n" % (time.time() - t0))
        print("[worlds] built %s in %.1fs" % (name, time.time() - t0), file=log)
        return d
    finally:
        fcntl.flock(lock, fcntl.LOCK_UN)
        lock.close()


def cflags_for(name):
    """Compile/link flags a harness needs to match the world's instrumentation."""
    return WORLDS[name][1].split()


if __name__ == "__main__":
    for w in sys.argv[1:]:
        print(build(w))
