#!/usr/bin/env python3
"""Orchestrator.

  check.py <ID> [--tier quick|thorough]     run the check of one property, rewrite evidence/<ID>.json
  check.py replay <file>                    re-execute one recorded violation alone
  check.py setup                            toolchain check + reference self-tests + warm world cache
  check.py list

Exit status of a check: 0 = property held on everything explored (known findings are printed as
KNOWN-FINDING lines), 1 = at least one violation that known_findings.json does not list (a line
`VIOLATION property=<id> replay=<path>` per violation class), 2 = the machinery itself failed.
"""
import hashlib
import json
import os
import re
import subprocess
import sys
import threading
import time

ROOT = os.path.dirname(os.path.abspath(__file__))
sys.path.insert(0, ROOT)
import worlds  # noqa: E402
from jobs import PROPS  # noqa: E402

NCPU = os.cpu_count() or 8
JOBS = int(os.environ.get("VERIF_JOBS", str(NCPU)))
DEADLINE = {"quick": 420.0, "thorough": 2700.0}


def log(*a):
    print(*a, file=sys.stderr, flush=True)


# ------------------------------------------------------------------------------------------ build
def compile_harness(wdir, world, job):
    src = os.path.join(ROOT, job["src"])
    deps = [src] + [os.path.join(ROOT, "engine", f) for f in sorted(os.listdir(os.path.join(ROOT, "engine")))]
    h = hashlib.sha1()
    for d in deps:
        h.update(open(d, "rb").read())
    h.update(json.dumps([job.get("cflags", []), job.get("ldflags", []), job.get("defs", [])]).encode())
    exe = os.path.join(wdir, "h_%s_%s" % (job["name"], h.hexdigest()[:10]))
    if os.path.exists(exe):
        return exe
    for e in os.listdir(wdir):
        if e.startswith("h_%s_" % job["name"]):
            os.unlink(os.path.join(wdir, e))
    pre = []
    # translation units of relic recompiled by the harness with extra instrumentation and linked
    # in front of the archive (trace-pc for C20, -finstrument-functions for C19)
    for i, (tu, flags) in enumerate(job.get("retu", [])):
        obj = os.path.join(wdir, "retu_%s_%d.o" % (job["name"], i))
        cmd = ["gcc", "-c", "-m64", "-Wno-error", "-D" + worlds.GUARD, "-O2", "-g", "-DNDEBUG", "-I" + os.path.join(wdir, "include"),
               "-I" + os.path.join(worlds.REPO, "include"), "-I" + os.path.join(worlds.REPO, "include", "low"),
               "-I" + os.path.join(worlds.REPO, "src", "tmpl"), "-I" + os.path.join(worlds.REPO, "src")] + flags + \
              [os.path.join(worlds.REPO, tu), "-o", obj]
        r = subprocess.run(cmd, capture_output=True, text=True)
        if r.returncode != 0:
            raise RuntimeError("recompiling %s failed:\n%s" % (tu, r.stderr[-3000:]))
        pre.append(obj)
    cmd = ["gcc", "-O2", "-g", "-std=gnu11", "-w", "-I" + os.path.join(wdir, "include"), "-I" + os.path.join(worlds.REPO, "include"),
           "-I" + os.path.join(worlds.REPO, "include", "low"),
           "-I" + os.path.join(ROOT, "engine")] + ["-D" + d for d in job.get("defs", [])] + worlds.cflags_for(world) + \
          job.get("cflags", []) + [src] + pre + [os.path.join(wdir, "lib", "librelic_s.a"), "-lgmp", "-lcrypto", "-lm", "-lpthread",
                                                 "-Wl,--wrap=err_full_msg,--wrap=err_simple_msg"] + job.get("ldflags", []) + ["-o", exe]
    if pre:
        cmd.insert(-2, "-Wl,--allow-multiple-definition")
    r = subprocess.run(cmd, capture_output=True, text=True)
    if r.returncode != 0:
        raise RuntimeError("compiling %s for %s failed:\n%s" % (job["src"], world, r.stderr[-4000:]))
    return exe


# ------------------------------------------------------------------------------------------ run
ENV = dict(os.environ)
ENV["ASAN_OPTIONS"] = "abort_on_error=1:detect_leaks=0:detect_stack_use_after_return=1:allocator_may_return_null=1:handle_segv=0:handle_abort=0"
ENV["UBSAN_OPTIONS"] = "abort_on_error=1:print_stacktrace=1"
ENV["TSAN_OPTIONS"] = "halt_on_error=0:report_signal_unsafe=0"


class Result:
    def __init__(self):
        self.stats = {}
        self.samples = []
        self.viols = []     # dicts: job, kf, op, args, msg
        self.bounds = {}    # name -> set of states seen over shards
        self.infos = []
        self.exhaustive = True
        self.errors = []    # machinery errors
        self.crashes = []   # dicts: job, text, stderr
        self.lock = threading.Lock()


def parse_output(res, job, out):
    done = False
    for line in out.splitlines():
        if not line.startswith("@"):
            continue
        if line.startswith("@STAT "):
            _, k, v = line.split(" ", 2)
            try:
                res.stats[k] = res.stats.get(k, 0) + int(v)
            except ValueError:
                pass
        elif line.startswith("@SAMPLE "):
            if len(res.samples) < 400:
                res.samples.append("%s: %s" % (job["name"], line[8:]))
        elif line.startswith("@VIOL "):
            m = re.match(r"@VIOL kf=(\S+) op=(\S+) args=(\S*) msg=(.*)$", line)
            if m:
                if job.get("memory_only"):
                    # C08 re-runs of other properties' drivers: value disagreements belong to those properties; only the
                    # memory-safety verdicts of the harnesses (guard bytes, writes outside a buffer) count here
                    if not re.search(r"wrote|beyond|outside|dangling|guard|overran|buffer one byte|too-short|short buffer|not refused|exceed the precision", m.group(4)):
                        continue
                    res.viols.append({"job": job, "kf": "-", "op": m.group(2), "args": m.group(3), "msg": m.group(4)})
                else:
                    res.viols.append({"job": job, "kf": m.group(1), "op": m.group(2), "args": m.group(3), "msg": m.group(4)})
        elif line.startswith("@BOUND "):
            parts = line.split(" ")
            res.bounds.setdefault(job["name"] + ":" + parts[1], set()).add(parts[2])
        elif line.startswith("@INFO "):
            if len(res.infos) < 200:
                res.infos.append("%s: %s" % (job["name"], line[6:]))
        elif line.startswith("@DONE"):
            done = True
            if "exhaustive=0" in line:
                res.exhaustive = False
    return done


def run_shard(res, exe, job, tier, shard, nshards, deadline, seed, extra=()):
    cmd = [exe, "--shard", "%d/%d" % (shard, nshards), "--tier", tier, "--deadline", "%.0f" % deadline,
           "--seed", str(seed)] + list(job.get("args_" + tier, job.get("args", []))) + list(extra)
    try:
        p = subprocess.run(cmd, capture_output=True, text=True, env=dict(ENV, **job.get("env", {})), errors="replace",
                           timeout=deadline * 1.5 + 300)
        out, err, rc = p.stdout, p.stderr, p.returncode
    except subprocess.TimeoutExpired as e:
        out = (e.stdout or b"").decode(errors="replace") if isinstance(e.stdout, bytes) else (e.stdout or "")
        err, rc = "timeout", -9
    with res.lock:
        done = parse_output(res, job, out)
    return done, rc, out, err


def run_job(res, job, tier, deadline, seed):
    world = job["world"]
    wdir = worlds.build(world, log=sys.stderr)
    exe = compile_harness(wdir, world, job)
    nshards = job.get("shards", JOBS)
    failed = []
    sem = threading.Semaphore(JOBS)

    def work(i):
        with sem:
            done, rc, out, err = run_shard(res, exe, job, tier, i, nshards, deadline, seed)
        if not done or rc != 0:
            failed.append((i, rc, out, err))

    ths = [threading.Thread(target=work, args=(i,)) for i in range(nshards)]
    for t in ths:
        t.start()
    for t in ths:
        t.join()
    # A shard that died: find the case by re-running it with --track
    for (i, rc, out, err) in sorted(failed)[:4]:
        m = re.search(r"@(CRASH|HANG) sig=(\S+) case=(\S.*)", out)
        out2, err2, rc2 = out, err, rc
        if not m:
            log("[check] %s shard %d ended abnormally (rc=%s); re-running with --track" % (job["name"], i, rc))
            done, rc2, out2, err2 = run_shard(Result(), exe, job, tier, i, nshards, deadline, seed, extra=["--track"])
            m = re.search(r"@(CRASH|HANG) sig=(\S+) case=(.*)", out2)
        if m:
            res.crashes.append({"job": job, "kind": m.group(1), "sig": m.group(2), "case": m.group(3).strip(),
                                "stderr": err2[-6000:]})
        else:
            res.errors.append("%s shard %d: abnormal end rc=%s not reproduced with --track (rc=%s)\nstdout tail: %s\nstderr tail: %s" %
                              (job["name"], i, rc, rc2, out[-1500:], err[-1500:]))
    if len(failed) > 4:
        res.infos.append("%s: %d shards ended abnormally; the first 4 were analysed" % (job["name"], len(failed)))
    return exe


def replay_case(exe, job, casetext, timeout=600):
    cmd = [exe] + list(job.get("args", [])) + ["--replay", casetext]
    try:
        p = subprocess.run(cmd, capture_output=True, text=True, env=dict(ENV, **job.get("env", {})), errors="replace", timeout=timeout)
    except subprocess.TimeoutExpired:
        return "hang", "", ""
    if "@REPLAY violation" in p.stdout:
        return "violation", p.stdout, p.stderr
    if "@REPLAY ok" in p.stdout:
        return "ok", p.stdout, p.stderr
    if re.search(r"@(CRASH|HANG)", p.stdout) or p.returncode not in (0, 1):
        return "crash", p.stdout, p.stderr
    return "unknown", p.stdout, p.stderr


# ------------------------------------------------------------------------------------------ findings
def load_findings():
    p = os.path.join(ROOT, "known_findings.json")
    if not os.path.exists(p):
        return {"findings": [], "fixed": []}
    return json.load(open(p))


def kf_match(pid, v, findings):
    """Return the finding entry that lists this violation, or None."""
    for f in findings["findings"]:
        if f["property"] != pid:
            continue
        if f["id"] != v["kf"]:
            continue
        if "ops" in f and not any(re.fullmatch(o, v["op"]) for o in f["ops"]):
            continue
        if "when" in f:
            try:
                a = [int(x, 16) for x in v["args"].split(",") if x != ""]
            except ValueError:
                a = []
            try:
                if not eval(f["when"], {"__builtins__": {}, "a": a, "op": v["op"], "msg": v["msg"], "abs": abs, "len": len, "any": any, "all": all}):
                    continue
            except Exception:
                continue
        return f
    return None


def crash_kf_match(pid, c, findings):
    for f in findings["findings"]:
        if f["property"] != pid or "crash_case" not in f:
            continue
        if re.search(f["crash_case"], c["case"]) and (("crash_stderr" not in f) or re.search(f["crash_stderr"], c["stderr"])):
            return f
    return None


# ------------------------------------------------------------------------------------------ main check
def run_check(pid, tier):
    t0 = time.time()
    spec = PROPS[pid]
    seed = int(os.environ.get("VERIF_SEED", "0") or 0)
    budget = float(os.environ.get("VERIF_DEADLINE_S", DEADLINE[tier]))
    res = Result()
    exes = {}
    jobs = [j for j in spec["jobs"] if tier in j.get("tiers", ("quick", "thorough"))]
    # build all worlds first, in parallel (cached by tree hash)
    errs = []

    def bw(w):
        try:
            worlds.build(w, log=sys.stderr)
        except Exception as e:  # noqa
            errs.append(str(e))
    ths = [threading.Thread(target=bw, args=(w,)) for w in sorted(set(j["world"] for j in jobs))]
    for t in ths:
        t.start()
    for t in ths:
        t.join()
    if errs:
        # a tree that no longer builds in a world the property is quantified over
        for e in errs:
            log(e)
        print("ERROR: world build failed")
        return 2
    for j in jobs:
        remaining = budget - (time.time() - t0)
        share = j.get("share_" + tier, j.get("share"))
        dl = max(20.0, remaining if share is None else min(remaining, budget * share))
        try:
            exes[j["name"]] = run_job(res, j, tier, dl, seed)
        except RuntimeError as e:
            log(str(e))
            res.errors.append(str(e)[:2000])
    findings = load_findings()
    rdir = os.path.join(ROOT, "replays", pid)
    os.makedirs(rdir, exist_ok=True)
    out_lines = []
    nviol = 0
    known_hit = {}
    # group violations by (job, op, kf) ; replay up to 2 per class before believing them
    classes = {}
    for v in res.viols:
        v["sub"] = re.split(r"[:\[( ]", v["msg"], 1)[0][:63]
        classes.setdefault((v["job"]["name"], v["op"], v["kf"], v["sub"]), []).append(v)
    # replay-before-report, all classes in parallel (a replay is a fresh process incl. harness set-up)
    confirmed_of = {}

    def confirm(key):
        vs = classes[key]
        job = vs[0]["job"]
        # up to six members of the class, spread over it: a violation that depends on what an earlier case of the sweep left behind does not
        # reproduce in a fresh process, but another member of the same class (whose own arguments contain the cause) does
        step = max(1, len(vs) // 6)
        for v in (vs[:2] + vs[2::step])[:6]:
            st, so, se = replay_case(exes[job["name"]], job, "%s %s" % (v["op"], v["args"].replace(",", " ")))
            if st in ("violation", "crash", "hang"):
                confirmed_of[key] = v
                return
        confirmed_of[key] = None
    psem = threading.Semaphore(JOBS)

    def confirm_l(key):
        with psem:
            confirm(key)
    cths = [threading.Thread(target=confirm_l, args=(k,)) for k in classes]
    for t in cths:
        t.start()
    for t in cths:
        t.join()
    for key in sorted(classes):
        vs = classes[key]
        job = vs[0]["job"]
        confirmed = confirmed_of.get(key)
        if confirmed is None:
            res.errors.append("violation did not reproduce on replay: %s %s %s" % (key, vs[0]["args"], vs[0]["msg"]))
            continue
        f = kf_match(pid, confirmed, findings) if confirmed["kf"] != "-" else None
        cnt = res.stats.get("viol.%s.%s.%s" % (confirmed["op"], confirmed["kf"], confirmed["sub"]), len(vs))
        if f is not None:
            known_hit.setdefault(f["id"], [f, 0, confirmed])
            known_hit[f["id"]][1] += cnt
            continue
        nviol += 1
        rp = write_replay(rdir, pid, job, confirmed, cnt)
        out_lines.append("VIOLATION property=%s replay=%s" % (pid, rp))
        log("  violation: job=%s op=%s args=%s msg=%s (count %d)" % (job["name"], confirmed["op"], confirmed["args"][:300], confirmed["msg"][:400], cnt))
    for c in res.crashes:
        job = c["job"]
        st, so, se = replay_case(exes[job["name"]], job, c["case"])
        if st not in ("crash", "hang", "violation"):
            res.errors.append("crash did not reproduce on replay: %s %s" % (job["name"], c["case"]))
            continue
        c["stderr"] = (se or c["stderr"])[-6000:]
        f = crash_kf_match(pid, c, findings)
        if f is not None:
            known_hit.setdefault(f["id"], [f, 0, {"op": "crash", "args": c["case"], "msg": c["kind"]}])
            known_hit[f["id"]][1] += 1
            continue
        nviol += 1
        v = {"op": c["case"].split(" ")[0], "args": ",".join(c["case"].split(" ")[1:]), "kf": "-",
             "msg": "%s sig=%s; stderr tail: %s" % (c["kind"], c["sig"], c["stderr"][-1500:])}
        rp = write_replay(rdir, pid, job, v, 1)
        out_lines.append("VIOLATION property=%s replay=%s" % (pid, rp))
        log("  crash: job=%s case=%s" % (job["name"], c["case"]))
    for fid in sorted(known_hit):
        f, cnt, v = known_hit[fid]
        print("KNOWN-FINDING: property=%s %s -- %s (cases hit: %d, e.g. op=%s args=%s)" % (pid, fid, f["what"], cnt, v["op"], v["args"][:200]))
    # findings listed as open that were NOT hit are reported on stderr (they may be outside this tier's bounds)
    for f in findings["findings"]:
        if f["property"] == pid and f["id"] not in known_hit:
            log("[check] note: listed finding %s was not hit in this run" % f["id"])
    for l in out_lines:
        print(l)
    wall = time.time() - t0
    write_evidence(pid, tier, seed, spec, res, jobs, known_hit, nviol, wall)
    if res.errors:
        for e in res.errors:
            log("[check] MACHINERY ERROR: " + e)
    if nviol:
        return 1
    if res.errors:
        print("ERROR: machinery failure in check %s (see stderr)" % pid)
        return 2
    print("OK property=%s tier=%s evaluations=%d wall=%.0fs exhaustive=%s" % (pid, tier, res.stats.get("evaluations", 0), wall, res.exhaustive))
    return 0


def write_replay(rdir, pid, job, v, cnt):
    d = {"property": pid, "world": job["world"], "job": job["name"], "harness": job["src"], "op": v["op"], "args": v["args"],
         "msg": v["msg"], "count_in_run": cnt, "job_args": job.get("args", []),
         "replay_cmd": "python3 check.py replay <this file>"}
    hname = hashlib.sha1(json.dumps([pid, job["name"], v["op"], v["args"]]).encode()).hexdigest()[:16]
    rp = os.path.join(rdir, hname + ".json")
    json.dump(d, open(rp, "w"), indent=1)
    return rp


def write_evidence(pid, tier, seed, spec, res, jobs, known_hit, nviol, wall):
    st = res.stats
    cov = {
        "evaluations": st.get("evaluations", 0),
        "distinct_nontrivial": st.get("distinct_nontrivial", 0),
        "rule": spec["rule"] + (" (the distinct-case hash set of at least one shard reached its cap; the count is a lower bound)"
                                if st.get("distinct_set_capped") else ""),
        "samples": res.samples[:60],
        "exhaustive": bool(res.exhaustive and not res.errors),
        "bounds_completed": sorted(k for k, v in res.bounds.items() if v == {"complete"}),
        "bounds_not_completed": sorted(k for k, v in res.bounds.items() if v != {"complete"}),
        "worlds": sorted(set(j["world"] for j in jobs)),
        "per_operation_evaluations": {k[6:]: v for k, v in sorted(st.items()) if k.startswith("evals.")},
        "known_findings_hit": {k: v[1] for k, v in known_hit.items()},
        "notes": res.infos[:80],
    }
    for k, v in sorted(st.items()):
        if k.startswith("x."):
            cov[k[2:]] = v
    if spec["level"] == "model_checking":
        # states: emitted by the harness (one per distinct state of the complete spaces it walks);
        # transitions: operation applications compared with the reference model; every transition is
        # executed on the implementation (the model is never run alone)
        cov["states"] = st.get("states", 0)
        cov["transitions"] = st.get("transitions", st.get("evaluations", 0))
        cov["traces_validated_against_impl"] = st.get("traces_validated", cov["transitions"])
    ev = {"property_id": pid, "tier": tier, "seed": seed, "level": spec["level"], "coverage": cov,
          "assumptions": spec.get("assumptions", []), "wall_s": round(wall, 1), "violations": nviol}
    os.makedirs(os.path.join(ROOT, "evidence"), exist_ok=True)
    json.dump(ev, open(os.path.join(ROOT, "evidence", pid + ".json"), "w"), indent=1)


def do_replay(path):
    d = json.load(open(path))
    job = None
    for j in PROPS[d["property"]]["jobs"]:
        if j["name"] == d["job"]:
            job = j
    if job is None:
        print("unknown job in replay file")
        return 2
    wdir = worlds.build(job["world"])
    exe = compile_harness(wdir, job["world"], job)
    st, so, se = replay_case(exe, job, "%s %s" % (d["op"], d["args"].replace(",", " ")))
    sys.stdout.write(so)
    sys.stderr.write(se[-4000:])
    print("replay verdict: %s" % st)
    return 1 if st in ("violation", "crash", "hang") else 0


def do_setup():
    for tool in ("gcc", "cmake", "ninja"):
        if subprocess.run(["which", tool], capture_output=True).returncode != 0:
            print("missing tool: " + tool)
            return 2
    # reference-model self tests (GMP/OpenSSL only, no relic)
    st = os.path.join(ROOT, "engine", "selftest.c")
    if os.path.exists(st):
        os.makedirs(worlds.BUILD, exist_ok=True)
        exe = os.path.join(worlds.BUILD, "selftest")
        r = subprocess.run(["gcc", "-O2", "-w", "-I" + os.path.join(ROOT, "engine"), st, "-lgmp", "-lcrypto", "-o", exe], capture_output=True, text=True)
        if r.returncode != 0:
            print(r.stderr)
            return 2
        r = subprocess.run([exe], capture_output=True, text=True)
        sys.stdout.write(r.stdout)
        if r.returncode != 0:
            return 2
    # warm the world cache for the quick tier
    ws = sorted(set(j["world"] for p in PROPS.values() for j in p["jobs"] if "quick" in j.get("tiers", ("quick", "thorough"))))
    for w in ws:
        worlds.build(w)
    print("setup ok: worlds " + " ".join(ws))
    return 0


def main():
    a = sys.argv[1:]
    if not a:
        print(__doc__)
        return 2
    if a[0] == "setup":
        return do_setup()
    if a[0] == "list":
        for k in sorted(PROPS):
            print(k, [j["name"] for j in PROPS[k]["jobs"]])
        return 0
    if a[0] == "replay":
        return do_replay(a[1])
    if a[0] == "dev":
        # developer aid: check.py dev <ID> <job> [harness args...]  -> build + run one harness process, raw output
        job = [j for j in PROPS[a[1]]["jobs"] if j["name"] == a[2]][0]
        wdir = worlds.build(job["world"])
        exe = compile_harness(wdir, job["world"], job)
        return subprocess.run([exe] + list(job.get("args", [])) + a[3:], env=dict(ENV, **job.get("env", {}))).returncode
    pid = a[0]
    tier = os.environ.get("VERIF_TIER", "quick")
    if "--tier" in a:
        tier = a[a.index("--tier") + 1]
    if pid not in PROPS:
        print("unknown property " + pid)
        return 2
    return run_check(pid, tier)


if __name__ == "__main__":
    sys.exit(main())
