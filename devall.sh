#!/bin/bash
# devall.sh <ID> <job> [harness args...]: compile once, then run all 16 shards in parallel and print violations / totals (developer aid)
ID=$1; JOB=$2; shift 2
python3 /verif/check.py dev $ID $JOB --only __none__ >/dev/null 2>&1
for i in $(seq 0 15); do (python3 /verif/check.py dev $ID $JOB "$@" --shard $i/16 > /tmp/devall_$i.log 2>&1) & done; wait
cat /tmp/devall_*.log | grep -a "@VIOL\|crash\|Segm\|Abort\|rror" | sort | uniq -c | sort -rn | head -${DEVALL_N:-25}
cat /tmp/devall_*.log | grep -a "@STAT evaluations\|@DONE" | awk '/evaluations/{e+=$3} /@DONE/{n++; split($3,a,"="); if (a[2]>w) w=a[2]} END{print "evaluations", e, "shards done", n, "max wall", w}'
cat /tmp/devall_*.log | grep -a "@BOUND" | sort | uniq -c | awk '$1!=16' | head
