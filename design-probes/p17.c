#include <stdio.h>
#include <string.h>
#include <stdlib.h>
#include "relic.h"
extern char __executable_start;
static unsigned long trace_h; static volatile int ton; static long tn; static void *lo, *hi;
void __sanitizer_cov_trace_pc(void){ if(ton){ unsigned long pc=(unsigned long)__builtin_return_address(0)-(unsigned long)&__executable_start; trace_h=(trace_h^pc)*1099511628211UL; tn++; } }
typedef void (*mulf)(ep_t, const ep_t, const bn_t);
static void run(const char*name, mulf f, int curve){ ep_param_set(curve); ep_t g,r; bn_t n,k; bn_new(n);bn_new(k); ep_curve_get_gen(g); ep_curve_get_ord(n);
  unsigned long hs[64]; long ns[64]; int nh=0; uint8_t seed[32]={9};
  for(int i=0;i<40;i++){ /* scalars of full bit length */
    bn_set_2b(k,bn_bits(n)-1); 
    switch(i%8){ case 0: bn_add_dig(k,k,i+1); break; case 1: bn_sub_dig(k,n,i+1); break; case 2: { bn_t t; bn_new(t); bn_set_2b(t,i*5+3); bn_add(k,k,t);} break; case 3: { bn_t t; bn_new(t); bn_set_2b(t,bn_bits(n)-2); bn_sub_dig(t,t,i); bn_add(k,k,t);} break;
      case 4: { bn_t t; bn_new(t); bn_set_2b(t,128); bn_sub_dig(t,t,1); bn_lsh(t,t,i); bn_add(k,k,t);} break; case 5: bn_add_dig(k,k,2*i); break; case 6: { bn_hlv(k,n); bn_add_dig(k,k,i); bn_set_bit(k,bn_bits(n)-1,1);} break; default: { bn_t t; bn_new(t); bn_set_2b(t,64+i); bn_add(k,k,t); bn_add_dig(k,k,1);} }
    if(bn_cmp(k,n)!=RLC_LT) bn_sub_dig(k,n,i+2);
    core_get()->seeded=0; rand_seed(seed,32);
    trace_h=1469598103934665603UL; tn=0; ton=1; f(r,g,k); ton=0;
    int found=0; for(int j=0;j<nh;j++) if(hs[j]==trace_h) found=1; if(!found&&nh<64){ hs[nh]=trace_h; ns[nh]=tn; nh++; } }
  printf("%-14s curve=%d distinct traces=%d (len %ld%s)\n",name,curve,nh,ns[0],nh>1?" ...":""); }
int main(void){ core_init(); 
  int curves[]={NIST_P256,SECG_K256,BN_P256};
  for(int c=0;c<3;c++){ run("ep_mul_monty",ep_mul_monty,curves[c]); run("ep_mul_lwreg",ep_mul_lwreg,curves[c]); run("ep_mul_lwnaf",ep_mul_lwnaf,curves[c]); run("ep_mul_basic",ep_mul_basic,curves[c]); }
  core_clean(); return 0; }
