#include <stdio.h>
#include "relic.h"
static char tr[256]; static int tn; static void E(char c){ tr[tn++]=c; tr[tn]=0; }
static void thrower(int e){ E('t'); RLC_THROW(e); E('!'); }
static void shape1(void){ RLC_TRY { E('a'); thrower(ERR_NO_VALID); E('b'); } RLC_CATCH_ANY { E('C'); } RLC_FINALLY { E('F'); } E('z'); }
static void shape2(void){ RLC_TRY { E('a'); RLC_TRY { E('b'); thrower(ERR_NO_VALID); E('c'); } RLC_CATCH_ANY { E('D'); RLC_THROW(ERR_CAUGHT); E('d'); } RLC_FINALLY { E('G'); } E('e'); } RLC_CATCH_ANY { E('C'); } RLC_FINALLY { E('F'); } E('z'); }
static void shape3(void){ err_t e=0; RLC_TRY { E('a'); thrower(ERR_NO_BUFFER); } RLC_CATCH(e) { E('C'); E('0'+e); } E('z'); }
static void shape4(void){ RLC_TRY { E('a'); } RLC_CATCH_ANY { E('C'); } RLC_FINALLY { E('F'); thrower(ERR_NO_VALID); E('f'); } E('z'); }
static void shape5(void){ RLC_TRY { E('a'); shape4(); E('b'); } RLC_CATCH_ANY { E('X'); } RLC_FINALLY { E('Y'); } E('w'); }
static void shape6(void){ RLC_TRY { E('a'); thrower(ERR_NO_VALID); } RLC_CATCH_ANY { E('C'); } RLC_FINALLY { E('F'); thrower(ERR_NO_BUFFER); E('f'); } E('z'); }
#define RUN(f) do{ tn=0; tr[0]=0; void*l0=core_get()->last; f(); printf("%-7s trace=%-20s last_restored=%d code=%d code2=%d\n",#f,tr,core_get()->last==l0,err_get_code(),err_get_code()); }while(0)
int main(void){ core_init(); freopen("/dev/null","w",stderr);
  RUN(shape1); RUN(shape2); RUN(shape3); RUN(shape4); RUN(shape5); RUN(shape6);
  tn=0; thrower(ERR_NO_VALID); printf("outside: trace=%s last=%p(error=%p) code=%d\n",tr,(void*)core_get()->last,(void*)&core_get()->error,err_get_code());
  RUN(shape1); tn=0; thrower(ERR_NO_VALID); printf("outside2: trace=%s code=%d\n",tr,err_get_code());
  core_clean(); return 0; }
