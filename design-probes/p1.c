#include <stdio.h>
#include "relic.h"
static void show(const char *n, bn_t a){ printf("%s: used=%zu sign=%d dp0=%llu ", n, a->used, a->sign, (unsigned long long)a->dp[0]); bn_print(a);}
int main(void){
  core_init();
  bn_t a,b,q,r; bn_new(a);bn_new(b);bn_new(q);bn_new(r);
  bn_zero(a); bn_set_dig(b,5); bn_neg(b,b);
  bn_div_rem(q,r,a,b); show("0 div -5 q",q); show("0 div -5 r",r);
  bn_set_dig(a,5); bn_neg(a,a);
  bn_div_dig(q,a,7); show("-5 div_dig 7 q",q);
  dig_t d; bn_div_rem_dig(q,&d,a,7); show("-5 div_rem_dig 7 q",q); printf("d=%llu\n",(unsigned long long)d);
  bn_set_2b(a,64); bn_div_dig(q,a,2); show("2^64 div_dig 2",q);
  bn_set_dig(a,14); bn_neg(a,a); bn_div_rem_dig(q,&d,a,7); show("-14 div_rem_dig 7 q",q); printf("d=%llu\n",(unsigned long long)d);
  core_clean(); return 0; }
