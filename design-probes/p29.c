/* fp12 tower vs generic quotient-ring reference with constants learned from the library */
#include <stdio.h>
#include <string.h>
#include <gmp.h>
#include "relic.h"
static mpz_t P, BETA, XI[2];
typedef mpz_t e2[2]; typedef e2 e6[3]; typedef e6 e12[2];
static void i2(e2 a){ mpz_init(a[0]); mpz_init(a[1]); } static void i6(e6 a){ for(int i=0;i<3;i++) i2(a[i]); } static void i12(e12 a){ i6(a[0]); i6(a[1]); }
static void m2(e2 c,e2 a,e2 b){ mpz_t t0,t1,t2; mpz_inits(t0,t1,t2,NULL); mpz_mul(t0,a[0],b[0]); mpz_mul(t1,a[1],b[1]); mpz_mul(t1,t1,BETA); mpz_add(t0,t0,t1); mpz_mul(t1,a[0],b[1]); mpz_mul(t2,a[1],b[0]); mpz_add(t1,t1,t2); mpz_mod(c[0],t0,P); mpz_mod(c[1],t1,P); mpz_clears(t0,t1,t2,NULL); }
static void a2(e2 c,e2 a,e2 b){ mpz_add(c[0],a[0],b[0]); mpz_mod(c[0],c[0],P); mpz_add(c[1],a[1],b[1]); mpz_mod(c[1],c[1],P); }
static void s2(e2 c,e2 a){ mpz_set(c[0],a[0]); mpz_set(c[1],a[1]); }
static void xi2(e2 c,e2 a){ e2 x; i2(x); mpz_set(x[0],XI[0]); mpz_set(x[1],XI[1]); e2 t; i2(t); m2(t,a,x); s2(c,t); }
static void m6(e6 c,e6 a,e6 b){ e2 t,u; i2(t); i2(u); e6 r; i6(r);
  m2(r[0],a[0],b[0]); m2(t,a[1],b[2]); m2(u,a[2],b[1]); a2(t,t,u); xi2(t,t); a2(r[0],r[0],t);
  m2(r[1],a[0],b[1]); m2(t,a[1],b[0]); a2(r[1],r[1],t); m2(t,a[2],b[2]); xi2(t,t); a2(r[1],r[1],t);
  m2(r[2],a[0],b[2]); m2(t,a[1],b[1]); a2(r[2],r[2],t); m2(t,a[2],b[0]); a2(r[2],r[2],t); for(int i=0;i<3;i++) s2(c[i],r[i]); }
static void a6(e6 c,e6 a,e6 b){ for(int i=0;i<3;i++) a2(c[i],a[i],b[i]); }
static void v6(e6 c,e6 a){ e2 t; i2(t); xi2(t,a[2]); e2 x0,x1; i2(x0);i2(x1); s2(x0,a[0]); s2(x1,a[1]); s2(c[0],t); s2(c[1],x0); s2(c[2],x1); }
static void m12(e12 c,e12 a,e12 b){ e6 t,u,r0,r1; i6(t);i6(u);i6(r0);i6(r1); m6(r0,a[0],b[0]); m6(t,a[1],b[1]); v6(t,t); a6(r0,r0,t); m6(r1,a[0],b[1]); m6(t,a[1],b[0]); a6(r1,r1,t); for(int i=0;i<3;i++){ s2(c[0][i],r0[i]); s2(c[1][i],r1[i]); } }
static void s12(e12 c,e12 a){ for(int i=0;i<2;i++) for(int j=0;j<3;j++) s2(c[i][j],a[i][j]); }
static void pow12(e12 c,e12 a,mpz_t e){ e12 r,b; i12(r); i12(b); mpz_set_ui(r[0][0][0],1); s12(b,a); for(size_t i=mpz_sizeinbase(e,2);i-->0;){ m12(r,r,r); if(mpz_tstbit(e,i)) m12(r,r,b);} s12(c,r); }
static void fpget(mpz_t z,const fp_t a){ bn_t t; bn_new(t); fp_prime_back(t,a); mpz_import(z,t->used,-1,sizeof(dig_t),0,0,t->dp); }
static void fpset(fp_t a,const mpz_t z){ bn_t t; bn_new(t); uint8_t buf[64]; size_t c; mpz_export(buf,&c,1,1,1,0,z); bn_read_bin(t,buf,c); fp_prime_conv(a,t); }
static void get12(e12 r, fp12_t a){ for(int i=0;i<2;i++) for(int j=0;j<3;j++) for(int k=0;k<2;k++) fpget(r[i][j][k],a[i][j][k]); }
static void set12(fp12_t a, e12 r){ for(int i=0;i<2;i++) for(int j=0;j<3;j++) for(int k=0;k<2;k++) fpset(a[i][j][k],r[i][j][k]); }
static int eq12(e12 a,e12 b){ for(int i=0;i<2;i++) for(int j=0;j<3;j++) for(int k=0;k<2;k++) if(mpz_cmp(a[i][j][k],b[i][j][k])) return 0; return 1; }
int main(void){ core_init(); int ids[]={BN_P256,SM9_P256}; mpz_inits(P,BETA,XI[0],XI[1],NULL);
 for(int c=0;c<2;c++){ ep_param_set(ids[c]); { bn_t t; bn_new(t); t->used=RLC_FP_DIGS; dv_copy(t->dp,fp_prime_get(),RLC_FP_DIGS); mpz_import(P,t->used,-1,8,0,0,t->dp); }
  fp2_t u,u2; fp_zero(u[0]); fp_set_dig(u[1],1); fp2_sqr(u2,u); fpget(BETA,u2[0]); mpz_t t1; mpz_init(t1); fpget(t1,u2[1]); 
  fp2_t one,xi; fp2_set_dig(one,1); fp2_mul_nor(xi,one); fpget(XI[0],xi[0]); fpget(XI[1],xi[1]);
  /* learn v^3 and w^2 through fp6_mul_art / fp12 structure */
  fp6_t v1,v3; fp6_zero(v1); fp2_set_dig(v1[1],1); fp6_mul(v3,v1,v1); fp6_mul(v3,v3,v1); mpz_t a0,a1; mpz_inits(a0,a1,NULL); fpget(a0,v3[0][0]); fpget(a1,v3[0][1]);
  gmp_printf("curve %d: p mod 8=%lu beta=%Zd (u^2 imag part %Zd) xi=%Zd+%Zd u ; v^3=%Zd+%Zd u (matches xi: %d) qnr2=%d\n",ids[c],mpz_fdiv_ui(P,8),BETA,t1,XI[0],XI[1],a0,a1,!mpz_cmp(a0,XI[0])&&!mpz_cmp(a1,XI[1]),fp2_field_get_qnr());
  /* alphabet of coefficient values */ mpz_t al[6]; for(int i=0;i<6;i++) mpz_init(al[i]); mpz_set_ui(al[0],0); mpz_set_ui(al[1],1); mpz_sub_ui(al[2],P,1); mpz_set_ui(al[3],2); mpz_sub_ui(al[4],P,1); mpz_fdiv_q_2exp(al[4],al[4],1); mpz_set_str(al[5],"123456789abcdef0fedcba9876543210aa55aa55deadbeef",16);
  unsigned long bad[8]={0},n=0; e12 A,B,E,G; i12(A);i12(B);i12(E);i12(G); fp12_t fa,fb,fc;
  /* operands: dense default (al[5]+idx) with up to two positions replaced; here: all single replacements x all single replacements */
  for(int pa=0;pa<12;pa++) for(int va=0;va<5;va++) for(int pb=0;pb<12;pb++) for(int vb=0;vb<5;vb+=2){
    for(int q=0;q<12;q++){ mpz_add_ui(A[q/6][(q/2)%3][q%2],al[5],q*977); mpz_mul_ui(B[q/6][(q/2)%3][q%2],al[5],q+3); mpz_mod(B[q/6][(q/2)%3][q%2],B[q/6][(q/2)%3][q%2],P);} 
    mpz_set(A[pa/6][(pa/2)%3][pa%2],al[va]); mpz_set(B[pb/6][(pb/2)%3][pb%2],al[vb]); set12(fa,A); set12(fb,B); m12(E,A,B); n++;
    fp12_mul_basic(fc,fa,fb); get12(G,fc); if(!eq12(G,E)) bad[0]++; fp12_mul_lazyr(fc,fa,fb); get12(G,fc); if(!eq12(G,E)) bad[1]++;
    if(pb==0&&vb==0){ m12(E,A,A); fp12_sqr_basic(fc,fa); get12(G,fc); if(!eq12(G,E)) bad[2]++; fp12_sqr_lazyr(fc,fa); get12(G,fc); if(!eq12(G,E)) bad[3]++;
      fp12_inv(fc,fa); get12(G,fc); m12(G,G,A); int isone=1; for(int q=0;q<12;q++) if(mpz_cmp_ui(G[q/6][(q/2)%3][q%2],q==0)) isone=0; if(!isone) bad[4]++; } }
  /* frobenius on a few */ for(int k=1;k<=3;k++){ mpz_t e; mpz_init(e); mpz_pow_ui(e,P,k); pow12(E,A,e); set12(fa,A); fp12_frb(fc,fa,k); get12(G,fc); if(!eq12(G,E)) bad[5]++; }
  printf("  pairs=%lu bad mul_basic=%lu mul_lazyr=%lu sqr_basic=%lu sqr_lazyr=%lu inv=%lu frb(1..3)=%lu\n",n,bad[0],bad[1],bad[2],bad[3],bad[4],bad[5]); }
 core_clean(); return 0; }
