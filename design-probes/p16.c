#include <stdio.h>
#include <string.h>
#include <gmp.h>
#include <openssl/sha.h>
#include "relic.h"
/* reference Hash_DRBG generate step on state (V,C,counter) */
static void ref_gen(mpz_t V, mpz_t C, unsigned long *ctr, uint8_t *out, size_t n){
  uint8_t vb[55], h[32]; mpz_t data, mod, t; mpz_inits(data,mod,t,NULL); mpz_ui_pow_ui(mod,2,440); mpz_set(data,V);
  size_t off=0; while(off<n){ memset(vb,0,55); size_t c; uint8_t tmp[55]; mpz_export(tmp,&c,1,1,1,0,data); memcpy(vb+55-c,tmp,c); SHA256(vb,55,h); size_t m=n-off<32?n-off:32; memcpy(out+off,h,m); off+=m; mpz_add_ui(data,data,1); mpz_mod(data,data,mod);} 
  uint8_t b[56]; b[0]=3; memset(b+1,0,55); { size_t c; uint8_t tmp[55]; mpz_export(tmp,&c,1,1,1,0,V); memcpy(b+56-c,tmp,c);} SHA256(b,56,h); mpz_import(t,32,1,1,1,0,h);
  mpz_add(V,V,t); mpz_add(V,V,C); mpz_add_ui(V,V,*ctr); mpz_mod(V,V,mod); (*ctr)++; mpz_clears(data,mod,t,NULL); }
int main(void){ core_init(); ctx_t *ctx=core_get(); uint8_t seed[32]; memset(seed,0x42,32); ctx->seeded=0; rand_seed(seed,32);
  mpz_t V,C; mpz_inits(V,C,NULL); unsigned long ctr;
  long counters[]={1,255,256,32000,32511,32512,32513,32767,32768,65535,70000,0};
  for(int i=0;counters[i];i++){ ctx->counter=counters[i]; mpz_import(V,55,1,1,1,0,ctx->rand+1); mpz_import(C,55,1,1,1,0,ctx->rand+56); ctr=counters[i];
    uint8_t o1[40],o2[40]; rand_bytes(o1,40); ref_gen(V,C,&ctr,o2,40);
    uint8_t vb[55]; memset(vb,0,55); size_t c; uint8_t tmp[55]; mpz_export(tmp,&c,1,1,1,0,V); memcpy(vb+55-c,tmp,c);
    printf("counter=%ld out_eq=%d V_eq=%d ctr_eq=%d\n",counters[i],!memcmp(o1,o2,40),!memcmp(vb,ctx->rand+1,55),(unsigned long)ctx->counter==ctr); }
  core_clean(); return 0; }
