#include <stdio.h>
#include "relic.h"
int main(void){ core_init(); bn_t k; bn_new(k); bn_set_dig(k,1); uint8_t win[64]; size_t len=64;
 bn_rec_win(win,&len,k,4); printf("len=%zu win0=%d\n",len,win[0]);
 bn_zero(k); len=64; bn_rec_win(win,&len,k,4); printf("zero: len=%zu win0=%d\n",len,win[0]);
 core_clean(); return 0; }
