#include <stdio.h>
#include <time.h>
#include "relic.h"
int main(void){ core_init(); if(pc_param_set_any()!=RLC_OK){ printf("no pairing\n"); return 1;} printf("curve id=%d pairf=%d ctmap=%d level=%d\n",ep_param_get(),ep_curve_is_pairf(),ep_curve_is_ctmap(),pc_param_level());
 g1_t p; g2_t q; gt_t e; g1_get_gen(p); g2_get_gen(q); clock_t t0=clock(); for(int i=0;i<50;i++) pc_map(e,p,q); printf("pc_map %.2f ms\n",(double)(clock()-t0)/CLOCKS_PER_SEC*1000/50);
 bn_t n; bn_new(n); pc_get_ord(n); t0=clock(); for(int i=0;i<50;i++) g2_mul(q,q,n); printf("g2_mul %.2f ms\n",(double)(clock()-t0)/CLOCKS_PER_SEC*1000/50);
 t0=clock(); for(int i=0;i<50;i++) g1_map(p,(uint8_t*)"x",1); printf("g1_map %.2f ms valid=%d\n",(double)(clock()-t0)/CLOCKS_PER_SEC*1000/50,g1_is_valid(p));
 core_clean(); return 0; }
