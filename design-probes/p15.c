#include <stdio.h>
#include <stdlib.h>
#include "relic.h"
typedef long long ll; static ll P;
static ll md(ll x){ x%=P; if(x<0)x+=P; return x; }
static ll mpow(ll b, ll e){ ll r=1; b=md(b); while(e){ if(e&1) r=r*b%P; b=b*b%P; e>>=1;} return r; }
static void bnset(bn_t t, ll v){ bn_zero(t); for(int i=7;i>=0;i--){ bn_lsh(t,t,8); bn_add_dig(t,t,(v>>(8*i))&0xff);} }
static void fpset(fp_t c, ll v){ bn_t t; bn_new(t); bnset(t,md(v)); fp_prime_conv(c,t); }
static ll fpget(const fp_t a){ bn_t t; bn_new(t); fp_prime_back(t,a); ll v=0; for(int i=t->used-1;i>=0;i--) v=(v<<8)|t->dp[i]; return v; }
int main(int argc,char**argv){ core_init(); 
  ll primes[]={263,257,269,331,1009,0};
  for(int pi=0;primes[pi];pi++){ P=primes[pi]; bn_t bp; bn_new(bp); bnset(bp,P); int ok=1; RLC_TRY{ fp_prime_set_dense(bp);} RLC_CATCH_ANY{ok=0;}
    ll beta=fp_prime_get_qnr(); printf("p=%lld ok=%d qnr=%lld cnr=%d qnr2=%d\n",P,ok,beta,fp_prime_get_cnr(),fp2_field_get_qnr());
    /* learn u^2 */ fp2_t u,u2; fp_zero(u[0]); fp_set_dig(u[1],1); fp2_sqr(u2,u); ll b0=fpget(u2[0]), b1=fpget(u2[1]); printf("  u^2 = %lld + %lld u (expect %lld)\n",b0,b1,md(beta));
    unsigned long bad[6]={0},n=0;
    for(ll a0=0;a0<P;a0++) for(ll a1=0;a1<P;a1++){ fp2_t a,c; fpset(a[0],a0); fpset(a[1],a1);
       ll e0=md(a0*a0+b0*a1%P*a1), e1=md(2*a0*a1);
       fp2_sqr_basic(c,a); if(fpget(c[0])!=e0||fpget(c[1])!=e1) bad[0]++;
       fp2_sqr_integ(c,a); if(fpget(c[0])!=e0||fpget(c[1])!=e1) bad[1]++;
       if(a0||a1){ fp2_inv(c,a); ll c0=fpget(c[0]),c1=fpget(c[1]); if(md(a0*c0+b0*a1%P*c1)!=1||md(a0*c1+a1*c0)!=0) bad[2]++; }
       fp2_frb(c,a,1); /* a^p: conj */ if(fpget(c[0])!=a0||fpget(c[1])!=md(-a1)) bad[3]++;
       int r=fp2_srt(c,a); if(r){ ll c0=fpget(c[0]),c1=fpget(c[1]); if(md(c0*c0+b0*c1%P*c1)!=a0||md(2*c0*c1)!=a1) bad[4]++; } else bad[5]++; /* count non-squares */
       n++; }
    printf("  n=%lu bad: sqr_basic=%lu sqr_integ=%lu inv=%lu frb=%lu srt=%lu nonsquares=%lu (expect %lld)\n",n,bad[0],bad[1],bad[2],bad[3],bad[4],bad[5],(P*P-1)/2);
  }
  core_clean(); return 0; }
