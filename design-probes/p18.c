#include <stdio.h>
#include <string.h>
#include <stdlib.h>
#include "relic.h"
static unsigned long H; static void hb(const void*p,size_t n){ const uint8_t*b=p; for(size_t i=0;i<n;i++){ H=(H^b[i])*1099511628211UL; } }
static void sel(int id){ if(id==BN_P256){ ep_param_set(id); ep2_curve_set_twist(RLC_EP_DTYPE);} else if(id==SM9_P256){ ep_param_set(id); ep2_curve_set_twist(RLC_EP_MTYPE);} else ep_param_set(id); }
static unsigned long battery(void){ H=1469598103934665603UL; uint8_t buf[800]; uint8_t seed[32]={3}; core_get()->seeded=0; rand_seed(seed,32);
  fp_t a,b; fp_set_dig(a,12345); fp_inv(b,a); fp_write_bin(buf,32,b); hb(buf,32); int r=fp_srt(b,a); hb(&r,4); if(r){fp_write_bin(buf,32,b); hb(buf,32);} 
  bn_t k,n; bn_new(k);bn_new(n); ep_curve_get_ord(n); bn_set_2b(k,200); bn_sub_dig(k,k,77);
  ep_t p,q; ep_mul_gen(p,k); ep_write_bin(buf,65,p,0); hb(buf,65); ep_curve_get_gen(q); ep_mul_lwnaf(p,q,k); ep_write_bin(buf,65,p,0); hb(buf,65); ep_mul_lwreg(p,q,k); ep_write_bin(buf,65,p,0); hb(buf,65);
  ep_map(p,(uint8_t*)"abc",3); ep_write_bin(buf,65,p,0); hb(buf,65);
  if(ep_curve_is_pairf()){ fp2_t x,y; fp2_set_dig(x,7); fp_set_dig(x[1],9); fp2_inv(y,x); fp2_write_bin(buf,64,y,0); hb(buf,64); fp2_frb(y,x,1); fp2_write_bin(buf,64,y,0); hb(buf,64);
    fp12_t e; g1_t g1; g2_t g2; g1_get_gen(g1); g2_get_gen(g2); g2_mul_gen(g2,k); g2_write_bin(buf,129,g2,0); hb(buf,129); pc_map(e,g1,g2); gt_write_bin(buf,384,e,0); hb(buf,384); gt_exp_gen(e,k); gt_write_bin(buf,384,e,0); hb(buf,384);
    int v=g2_is_valid(g2); hb(&v,4); g2_map(g2,(uint8_t*)"abc",3); g2_write_bin(buf,129,g2,0); hb(buf,129); }
  int code=err_get_code(); hb(&code,4); return H; }
int main(int argc,char**argv){ int ids[]={NIST_P256,BSI_P256,SM2_P256,SECG_K256,SM9_P256,BN_P256}; int bad=0,tot=0; unsigned long fresh[6];
  for(int i=0;i<6;i++){ core_init(); sel(ids[i]); fresh[i]=battery(); core_clean(); }
  for(int i=0;i<6;i++) for(int j=0;j<6;j++){ core_init(); sel(ids[i]); battery(); sel(ids[j]); unsigned long h=battery(); core_clean(); tot++; if(h!=fresh[j]){ bad++; printf("MISMATCH history [%d,%d]\n",ids[i],ids[j]); } }
  printf("histories=%d mismatches=%d\n",tot,bad); return 0; }
