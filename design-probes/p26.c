#include <stdio.h>
#include "relic.h"
int main(void){ core_init(); bn_t a,b,c,d,e; bn_new(a);bn_new(b);bn_new(c);bn_new(d);bn_new(e); int n=0;
 for(int x=0;x<=40;x++) for(int y=0;y<=40;y++){ bn_set_dig(a,x); bn_set_dig(b,y); int t=0; freopen("/dev/null","w",stderr); RLC_TRY{ bn_gcd_ext_binar(c,d,e,a,b);} RLC_CATCH_ANY{t=1;} err_get_code(); if(t){ printf("(%d,%d) ",x,y); n++; } }
 printf("\nthrows=%d\n",n); core_clean(); return 0; }
