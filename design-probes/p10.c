#include <stdio.h>
#include <time.h>
#include <gmp.h>
#include "relic.h"
static void show(const char *n, bn_t a){ printf("%s: used=%zu sign=%d ", n, a->used, a->sign); bn_print(a);}
int main(void){ core_init(); uint8_t seed[32]={7}; core_get()->seeded=0; rand_seed(seed,32);
  ep_param_set(NIST_P256);
  fp_t z,o; fp_zero(z); fp_neg_basic(o,z); printf("fp_neg_basic(0) raw: %lx %lx %lx %lx\n",o[3],o[2],o[1],o[0]);
  fp_neg_integ(o,z); printf("fp_neg_integ(0) raw: %lx %lx %lx %lx\n",o[3],o[2],o[1],o[0]);
  fp_sub_basic(o,z,z); printf("fp_sub(0,0) raw: %lx..%lx\n",o[3],o[0]);
  bn_t a,b; bn_new(a);bn_new(b); bn_set_dig(a,5); bn_neg(a,a); bn_rsh(b,a,1); show("-5>>1",b); bn_hlv(b,a); show("hlv(-5)",b);
  bn_set_dig(a,1); bn_neg(a,a); bn_rsh(b,a,1); show("-1>>1",b);
  /* ECDSA with Q = infinity */
  bn_t d,r,s,n,e,k; ec_t q,p; bn_new(d);bn_new(r);bn_new(s);bn_new(n);bn_new(e);bn_new(k);
  ec_curve_get_ord(n); uint8_t msg[5]={1,2,3,4,5}; uint8_t h[32]; md_map(h,msg,5);
  /* forge: pick s=1 => p = e*G ; r = x(eG) mod n */
  bn_read_bin(e,h,32); bn_mod(e,e,n); ec_mul_gen(p,e); ec_get_x(r,p); bn_mod(r,r,n); bn_set_dig(s,1);
  ec_set_infty(q);
  int v = cp_ecdsa_ver(r,s,msg,5,0,q); printf("ecdsa_ver with Q=infinity forged sig => %d (on_curve(inf)=%d)\n",v,ec_on_curve(q));
  /* speed */
  mpz_t x,y,m,w; mpz_inits(x,y,m,w,NULL); mpz_set_str(m,"ffffffff00000001000000000000000000000000ffffffffffffffffffffffff",16);
  fp_t fa,fb,fc; fp_rand(fa); fp_rand(fb); uint8_t buf[32]; clock_t t0=clock(); unsigned long cnt=0;
  for(int i=0;i<200000;i++){ fp_mul(fc,fa,fb); fp_write_bin(buf,32,fc); mpz_import(w,32,1,1,0,0,buf); fp_add_dig(fa,fa,1); cnt++; }
  printf("fp_mul+write_bin+import: %.2f us/case\n", (double)(clock()-t0)/CLOCKS_PER_SEC*1e6/cnt);
  core_clean(); return 0; }
