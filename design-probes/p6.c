#include <stdio.h>
#include "relic.h"
#define M 17
static unsigned POLY;
static unsigned rmul(unsigned a, unsigned b){ unsigned long long r=0; for(int i=0;i<M;i++) if((b>>i)&1) r^=(unsigned long long)a<<i; for(int i=2*M-2;i>=M;i--) if((r>>i)&1) r^=(unsigned long long)POLY<<(i-M); return (unsigned)r; }
static void fbset(fb_t c, unsigned v){ fb_zero(c); for(int i=0;i<RLC_FB_DIGS;i++) c[i]=(v>>(8*i))&0xff; }
static unsigned fbget(const fb_t a){ unsigned v=0; for(int i=RLC_FB_DIGS-1;i>=0;i--) v=(v<<8)|a[i]; return v; }
int main(void){ core_init(); POLY=(1u<<17)|(1u<<3)|1;
  int ok=1; RLC_TRY{ fb_poly_set_trino(3);} RLC_CATCH_ANY{ok=0;} printf("set ok=%d code=%d digs=%d\n",ok,err_get_code(),(int)RLC_FB_DIGS);
  unsigned long bad[10]={0},n=0;
  for(unsigned a=0;a<(1u<<M);a+=1){ fb_t x,y,z; fbset(x,a);
    unsigned bs[]={0,1,2,3,0x1ffff,0x10000,0x155,a,a^1,(a*2654435761u)&0x1ffff};
    for(int j=0;j<10;j++){ unsigned b=bs[j]; fbset(y,b); unsigned e=rmul(a,b);
      fb_mul_basic(z,x,y); if(fbget(z)!=e) bad[0]++;
      fb_mul_lodah(z,x,y); if(fbget(z)!=e) bad[1]++;
      fb_mul_integ(z,x,y); if(fbget(z)!=e) bad[2]++;
      fb_mul_karat(z,x,y); if(fbget(z)!=e) bad[3]++; n++; }
    unsigned e=rmul(a,a);
    fb_sqr_basic(z,x); if(fbget(z)!=e) bad[4]++; fb_sqr_quick(z,x); if(fbget(z)!=e) bad[5]++; fb_sqr_integ(z,x); if(fbget(z)!=e) bad[6]++;
    if(a){ fb_inv_basic(z,x); if(rmul(fbget(z),a)!=1) bad[7]++; fb_inv_exgcd(z,x); if(rmul(fbget(z),a)!=1) bad[7]++; fb_inv_almos(z,x); if(rmul(fbget(z),a)!=1) bad[7]++; fb_inv_itoht(z,x); if(rmul(fbget(z),a)!=1) bad[8]++; fb_inv_binar(z,x); if(rmul(fbget(z),a)!=1) bad[7]++; fb_inv_bruch(z,x); if(rmul(fbget(z),a)!=1) bad[7]++; fb_inv_ctaia(z,x); if(rmul(fbget(z),a)!=1) bad[7]++; fb_inv_lower(z,x); if(rmul(fbget(z),a)!=1) bad[7]++;}
    fb_srt_basic(z,x); if(rmul(fbget(z),fbget(z))!=a) bad[9]++; fb_srt_quick(z,x); if(rmul(fbget(z),fbget(z))!=a) bad[9]++;
  }
  printf("n=%lu bad mul: basic=%lu lodah=%lu integ=%lu karat=%lu sqr: %lu %lu %lu inv=%lu itoht=%lu srt=%lu\n",n,bad[0],bad[1],bad[2],bad[3],bad[4],bad[5],bad[6],bad[7],bad[8],bad[9]);
  core_clean(); return 0; }
