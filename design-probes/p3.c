#include <stdio.h>
#include "relic.h"
static unsigned back(fp_t a){ bn_t t; bn_new(t); fp_prime_back(t,a); unsigned v=0; for(int i=t->used-1;i>=0;i--) v=(v<<8)|t->dp[i]; return v;}
static void conv(fp_t c, unsigned v){ bn_t t; bn_new(t); bn_set_dig(t, v>>8); bn_lsh(t,t,8); bn_add_dig(t,t,v&0xff); fp_prime_conv(c,t);}
static unsigned long mpow(unsigned long b, unsigned long e, unsigned long m){unsigned long r=1;b%=m;while(e){if(e&1)r=r*b%m;b=b*b%m;e>>=1;}return r;}
#define CK(name, expr, exp) do{ unsigned long g=(expr), e_=(exp); if(g!=e_){ cnt_##name++; if(cnt_##name<=3) printf("  FAIL %s p=%u a=%u got=%lu exp=%lu\n",#name,p,a,g,e_);} }while(0)
int main(int argc,char**argv){
  core_init();
  unsigned primes[]={40961, 65521, 65519, 32771, 12289, 0};
  for(int k=0;primes[k];k++){ unsigned p=primes[k];
    bn_t P; bn_new(P); bn_set_dig(P,p>>8); bn_lsh(P,P,8); bn_add_dig(P,P,p&0xff);
    fp_prime_set_dense(P);
    printf("p=%u\n",p);
    unsigned long cnt_basic=0,cnt_binar=0,cnt_monty=0,cnt_exgcd=0,cnt_divst=0,cnt_jmpds=0,cnt_lower=0,cnt_sb=0,cnt_sbin=0,cnt_sdiv=0,cnt_sjmp=0,cnt_slow=0,cnt_srt=0,cnt_srtv=0;
    for(unsigned a=1;a<p;a++){ fp_t x,z; conv(x,a); unsigned long inv=mpow(a,p-2,p);
      fp_inv_basic(z,x); CK(basic,back(z),inv);
      fp_inv_binar(z,x); CK(binar,back(z),inv);
      fp_inv_monty(z,x); CK(monty,back(z),inv);
      fp_inv_exgcd(z,x); CK(exgcd,back(z),inv);
      fp_inv_divst(z,x); CK(divst,back(z),inv);
      fp_inv_jmpds(z,x); CK(jmpds,back(z),inv);
      fp_inv_lower(z,x); CK(lower,back(z),inv);
      int e=(mpow(a,(p-1)/2,p)==1)?1:-1;
      CK(sb,fp_smb_basic(x)+1,e+1); CK(sbin,fp_smb_binar(x)+1,e+1); CK(sdiv,fp_smb_divst(x)+1,e+1); CK(sjmp,fp_smb_jmpds(x)+1,e+1); CK(slow,fp_smb_lower(x)+1,e+1);
      int r=fp_srt(z,x); CK(srt,r,(e==1)); if(r){ unsigned v=back(z); CK(srtv,(unsigned long)v*v%p,a); }
    }
    printf("  basic=%lu binar=%lu monty=%lu exgcd=%lu divst=%lu jmpds=%lu lower=%lu | smb: %lu %lu %lu %lu %lu | srt %lu %lu\n",cnt_basic,cnt_binar,cnt_monty,cnt_exgcd,cnt_divst,cnt_jmpds,cnt_lower,cnt_sb,cnt_sbin,cnt_sdiv,cnt_sjmp,cnt_slow,cnt_srt,cnt_srtv);
  }
  core_clean(); return 0; }
