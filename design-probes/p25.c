#include <stdio.h>
#include <stdlib.h>
#include <gmp.h>
#include "relic.h"
static void tobn(bn_t b, const mpz_t z){ size_t c=0; uint8_t buf[256]; mpz_export(buf,&c,1,1,1,0,z); bn_read_bin(b,buf,c); if(mpz_sgn(z)<0) bn_neg(b,b); }
static void tomp(mpz_t z, const bn_t b){ mpz_import(z,b->used,-1,sizeof(dig_t),0,0,b->dp); if(b->sign==RLC_NEG) mpz_neg(z,z); }
int main(int argc,char**argv){ core_init(); freopen("/dev/null","w",stderr); long R=atol(argv[1]); mpz_t A,B,E,G,T1,T2; mpz_inits(A,B,E,G,T1,T2,NULL); bn_t a,b,c,d,e; bn_new(a);bn_new(b);bn_new(c);bn_new(d);bn_new(e);
 unsigned long f[16]={0},th[16]={0};
 for(long x=0;x<=R;x++) for(long y=0;y<=R;y++){ mpz_set_si(A,x); mpz_set_si(B,y); tobn(a,A); tobn(b,B); mpz_gcd(E,A,B);
   void (*ge[3])(bn_t,bn_t,bn_t,const bn_t,const bn_t)={bn_gcd_ext_basic,bn_gcd_ext_lehme,bn_gcd_ext_binar};
   for(int v=0;v<3;v++){ int t=0; RLC_TRY{ ge[v](c,d,e,a,b);} RLC_CATCH_ANY{t=1;} if(t){ th[v]++; if(th[v]<3) printf(" gcd_ext[%d] throws a=%ld b=%ld\n",v,x,y); err_get_code(); continue;} tomp(G,c); tomp(T1,d); tomp(T2,e); mpz_mul(T1,T1,A); mpz_addmul(T1,T2,B); if(mpz_cmp(G,E)||mpz_cmp(T1,E)){ f[v]++; if(f[v]<3) gmp_printf(" gcd_ext[%d] a=%ld b=%ld g=%Zd bez=%Zd exp=%Zd\n",v,x,y,G,T1,E);} }
   if(y>1){ mpz_mod(E,A,B); if(x<y*y){ bn_mod_pre_barrt(d,b); int t=0; RLC_TRY{ bn_mod_barrt(c,a,b,d);} RLC_CATCH_ANY{t=1;} tomp(G,c); if(t) th[3]++; else if(mpz_cmp(G,E)){ f[3]++; if(f[3]<3) gmp_printf(" barrt a=%ld m=%ld got=%Zd\n",x,y,G);} }
     if(y&1){ bn_mod_pre_monty(d,b); int t=0; RLC_TRY{ bn_mod_monty_conv(c,a,b); bn_mod_monty_back(c,c,b);} RLC_CATCH_ANY{t=1;} tomp(G,c); if(t) th[4]++; else if(mpz_cmp(G,E)){ f[4]++; if(f[4]<3) gmp_printf(" monty conv/back a=%ld m=%ld got=%Zd\n",x,y,G);} 
       int io=mpz_invert(E,A,B); t=0; RLC_TRY{ bn_mod_inv(c,a,b);} RLC_CATCH_ANY{t=1;} tomp(G,c); if(io){ if(t){ th[5]++; if(th[5]<3) printf(" mod_inv throws a=%ld m=%ld\n",x,y);} else if(mpz_cmp(G,E)){ f[5]++; if(f[5]<3) gmp_printf(" mod_inv a=%ld m=%ld got=%Zd exp=%Zd\n",x,y,G,E);} } else if(!t) { f[6]++; if(f[6]<3) gmp_printf(" mod_inv non-invertible not reported a=%ld m=%ld got=%Zd\n",x,y,G);} 
       /* mxp: base 5.. exponent +-x */ mpz_set_ui(T1,(x*7+3)%y); bn_t base; bn_new(base); tobn(base,T1);
       for(int neg=0;neg<2;neg++){ mpz_set_si(T2,neg?-x:x); bn_t ex; bn_new(ex); tobn(ex,T2); int okp=1; if(neg&&x) okp=mpz_invert(G,T1,B); if(!okp) continue; mpz_powm(E,T1,T2,B);
         void (*mx[3])(bn_t,const bn_t,const bn_t,const bn_t)={bn_mxp_basic,bn_mxp_slide,bn_mxp_monty};
         for(int v=0;v<3;v++){ t=0; RLC_TRY{ mx[v](c,base,ex,b);} RLC_CATCH_ANY{t=1;} tomp(G,c); if(t){ th[7+v]++; if(th[7+v]<3) gmp_printf(" mxp[%d] throws base=%Zd e=%Zd m=%ld\n",v,T1,T2,y); err_get_code(); } else if(mpz_cmp(G,E)){ f[7+v]++; if(f[7+v]<3) gmp_printf(" mxp[%d] base=%Zd e=%Zd m=%ld got=%Zd exp=%Zd\n",v,T1,T2,y,G,E);} } } } } }
 const char*nm[]={"gcd_ext_basic","gcd_ext_lehme","gcd_ext_binar","mod_barrt","monty_conv_back","mod_inv","mod_inv_noninv_silent","mxp_basic","mxp_slide","mxp_monty"};
 for(int i=0;i<10;i++) printf("%-22s fails=%lu thrown=%lu\n",nm[i],f[i],th[i]); core_clean(); return 0; }
