#include <stdio.h>
#include "relic.h"
static char tr[256]; static int tn; static void E(char c){ tr[tn++]=c; tr[tn]=0; }
static void lex(void){ err_t e=0;
  RLC_TRY { E('a');
    RLC_TRY { E('b');
      RLC_TRY { E('c'); RLC_THROW(ERR_NO_VALID); E('!'); } RLC_CATCH(e) { E('0'+e); RLC_THROW(ERR_CAUGHT); E('!'); } RLC_FINALLY { E('F'); }
      E('!');
    } RLC_CATCH_ANY { E('D'); } RLC_FINALLY { E('G'); }
    E('d'); RLC_THROW(ERR_NO_BUFFER); E('!');
  } RLC_CATCH(e) { E('0'+e); } RLC_FINALLY { E('H'); }
  E('z'); }
int main(void){ core_init(); freopen("/dev/null","w",stderr); void*l0=core_get()->last; lex(); printf("trace=%s restored=%d code=%d\n",tr,core_get()->last==l0,err_get_code()); core_clean(); return 0; }
