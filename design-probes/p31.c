#include <stdio.h>
#include <string.h>
#include <openssl/ec.h>
#include <openssl/ecdsa.h>
#include <openssl/bn.h>
#include "relic.h"
static BIGNUM *tobn_fp(const fp_t a){ uint8_t b[64]; fp_write_bin(b,RLC_FP_BYTES,a); return BN_bin2bn(b,RLC_FP_BYTES,NULL); }
static BIGNUM *tobn(const bn_t a){ uint8_t b[300]; size_t l=bn_size_bin(a); bn_write_bin(b,l,a); BIGNUM*r=BN_bin2bn(b,l,NULL); if(bn_sign(a)==RLC_NEG) BN_set_negative(r,1); return r; }
int main(void){ core_init(); uint8_t seed[32]={5}; core_get()->seeded=0; rand_seed(seed,32);
 int ids[]={NIST_P256,BSI_P256,SM2_P256,SECG_K256,SM9_P256,BN_P256}; BN_CTX*ctx=BN_CTX_new();
 for(int c=0;c<6;c++){ ep_param_set(ids[c]); bn_t n,d,r,s,t; bn_new(n);bn_new(d);bn_new(r);bn_new(s);bn_new(t); ec_t q,g; ec_curve_get_ord(n); ec_curve_get_gen(g);
  bn_t pp; bn_new(pp); pp->used=RLC_FP_DIGS; pp->sign=RLC_POS; dv_copy(pp->dp,fp_prime_get(),RLC_FP_DIGS);
  BIGNUM *P=tobn(pp),*A=tobn_fp(ep_curve_get_a()),*B=tobn_fp(ep_curve_get_b()),*N=tobn(n),*GX=tobn_fp(g->x),*GY=tobn_fp(g->y);
  EC_GROUP*grp=EC_GROUP_new_curve_GFp(P,A,B,ctx); EC_POINT*G=EC_POINT_new(grp); EC_POINT_set_affine_coordinates(grp,G,GX,GY,ctx); EC_GROUP_set_generator(grp,G,N,BN_value_one());
  cp_ecdsa_gen(d,q); ec_norm(q,q); EC_KEY*key=EC_KEY_new(); EC_KEY_set_group(key,grp); EC_POINT*Q=EC_POINT_new(grp); BIGNUM*QX=tobn_fp(q->x),*QY=tobn_fp(q->y); EC_POINT_set_affine_coordinates(grp,Q,QX,QY,ctx); int kr=EC_KEY_set_public_key(key,Q);
  unsigned long cases=0,dis=0,acc=0; uint8_t msg[80]; for(int i=0;i<80;i++) msg[i]=i*11+c;
  int lens[]={0,1,20,31,32,33,48,64}; for(int li=0;li<8;li++){ int len=lens[li]; cp_ecdsa_sig(r,s,msg,len,1,d);
    /* mutations on (r,s): identity + 512 single bit flips + substitutions */
    for(int m=-1;m<512+8;m++){ bn_t r2,s2; bn_new(r2);bn_new(s2); bn_copy(r2,r); bn_copy(s2,s);
      if(m>=0&&m<256){ bn_set_bit(r2,m,!bn_get_bit(r2,m)); } else if(m>=256&&m<512){ bn_set_bit(s2,m-256,!bn_get_bit(s2,m-256)); }
      else switch(m-512){ case 0: bn_sub(s2,n,s); break; case 1: bn_add(s2,s,n); break; case 2: bn_add(r2,r,n); break; case 3: bn_zero(s2); break; case 4: bn_zero(r2); break; case 5: bn_copy(s2,n); break; case 6: bn_neg(s2,s); break; case 7: bn_copy(r2,s); bn_copy(s2,r); break; }
      int v=0; RLC_TRY{ v=cp_ecdsa_ver(r2,s2,msg,len,1,q);} RLC_CATCH_ANY{v=-1;} 
      ECDSA_SIG*sig=ECDSA_SIG_new(); ECDSA_SIG_set0(sig,tobn(r2),tobn(s2)); int o=ECDSA_do_verify(msg,len,sig,key); ECDSA_SIG_free(sig); if(o<0) o=0;
      cases++; acc+=v==1; if(v!=o){ dis++; if(dis<5) printf("  DISAGREE curve=%d len=%d mut=%d relic=%d openssl=%d\n",ids[c],len,m,v,o); } } }
  printf("curve %d keyset=%d cases=%lu accepted=%lu disagreements=%lu\n",ids[c],kr,cases,acc,dis); }
 core_clean(); return 0; }
