#include <stdio.h>
#include <stdlib.h>
#include <string.h>
#include "relic.h"
typedef long long ll; static ll P, A, B;
static ll md(ll x){ x%=P; if(x<0)x+=P; return x; }
static void bnset(bn_t t, ll v){ int neg=v<0; if(neg)v=-v; bn_zero(t); for(int i=7;i>=0;i--){ bn_lsh(t,t,8); bn_add_dig(t,t,(v>>(8*i))&0xff);} if(neg) bn_neg(t,t); }
static void fpset(fp_t c, ll v){ bn_t t; bn_new(t); bnset(t,md(v)); fp_prime_conv(c,t); }
static ll fpget(const fp_t a){ bn_t t; bn_new(t); fp_prime_back(t,a); ll v=0; for(int i=t->used-1;i>=0;i--) v=(v<<8)|t->dp[i]; return v; }
int main(int argc,char**argv){ core_init(); freopen("/dev/null","w",stderr); P=atoll(argv[1]); A=-3; B=atoll(argv[2]);
  bn_t bp; bn_new(bp); bnset(bp,P); fp_prime_set_dense(bp);
  ll *sq=malloc(P*sizeof(ll)); memset(sq,-1,P*sizeof(ll)); for(ll y=0;y<P;y++){ ll s=y*y%P; if(sq[s]<0) sq[s]=y; }
  /* order must be given: count */ ll n=1; ll gx=-1,gy=0; for(ll x=0;x<P;x++){ ll rhs=md(md(x*x%P*x)+A*x+B); if(sq[rhs]>=0){ n+= sq[rhs]?2:1; if(gx<0&&sq[rhs]){gx=x;gy=sq[rhs];} } }
  fp_t fa,fb; fpset(fa,A); fpset(fb,B); ep_t g; fpset(g->x,gx); fpset(g->y,gy); fp_set_dig(g->z,1); g->coord=BASIC; bn_t r,h; bn_new(r);bn_new(h); bnset(r,n); bnset(h,1);
  /* skip generator table problems: set curve inside try */ RLC_TRY{ ep_curve_set_plain(fa,fb,g,r,h,0);} RLC_CATCH_ANY{} err_get_code();
  printf("p=%lld b=%lld order=%lld\n",P,B,n);
  unsigned long acc_bad=0, rej_bad=0, re_bad=0, obj_bad=0, tot=0, valid=0;
  /* compressed: every tag x every 2-byte x */
  for(int tag=0;tag<256;tag++) for(ll xv=0;xv<65536;xv++){ uint8_t bin[3]={tag,xv>>8,xv&255}, out[3]; ep_t q; int th=0; RLC_TRY{ ep_read_bin(q,bin,3);} RLC_CATCH_ANY{th=1;} err_get_code(); tot++;
    int ok=0; ll ey=0; if((tag==2||tag==3)&&xv<P){ ll rhs=md(md(xv*xv%P*xv)+A*xv+B); if(sq[rhs]>=0){ ok=1; ey=sq[rhs]; if((ey&1)!=(tag&1)) ey=md(-ey); if(ey==0 && (tag&1)) ok=0; /* y=0 has parity 0 only */ } }
    if(ok){ valid++; if(th){ rej_bad++; if(rej_bad<4) printf(" rejected valid: tag=%d x=%lld\n",tag,xv); } else { if(fpget(q->x)!=xv||fpget(q->y)!=ey||!ep_on_curve(q)) { obj_bad++; if(obj_bad<4) printf(" wrong object tag=%d x=%lld y=%lld exp=%lld\n",tag,xv,fpget(q->y),ey);} int t2=0; RLC_TRY{ ep_write_bin(out,3,q,1);} RLC_CATCH_ANY{t2=1;} if(t2||memcmp(out,bin,3)){ re_bad++; if(re_bad<4) printf(" re-encode differs tag=%d x=%lld -> %02x %02x %02x\n",tag,xv,out[0],out[1],out[2]); } } }
    else if(!th){ acc_bad++; if(acc_bad<6) printf(" ACCEPTED invalid: tag=%d x=%lld (on_curve=%d)\n",tag,xv,ep_on_curve(q)); } }
  printf("compressed: strings=%lu valid=%lu accepted-invalid=%lu rejected-valid=%lu wrong-object=%lu reencode-diff=%lu\n",tot,valid,acc_bad,rej_bad,obj_bad,re_bad);
  /* length 1 and wrong lengths */ unsigned long l1=0; for(int t=0;t<256;t++){ uint8_t bin[1]={t}; ep_t q; int th=0; RLC_TRY{ ep_read_bin(q,bin,1);} RLC_CATCH_ANY{th=1;} err_get_code(); if((t==0)==th) l1++; } printf("length-1 disagreements=%lu\n",l1);
  /* uncompressed */ acc_bad=rej_bad=re_bad=obj_bad=tot=valid=0; int tags[]={0,1,2,3,4,5,6,7,255};
  for(int ti=0;ti<9;ti++) for(ll xv=0;xv<65536;xv++){ ll rhs= xv<P? md(md(xv*xv%P*xv)+A*xv+B):-1; ll y0= (rhs>=0&&sq[rhs]>=0)?sq[rhs]:-1; ll ys[6]={ y0>=0?y0:1, y0>=0?md(-y0):2, y0>=0?md(y0+1):3, 0, P, 65535};
    for(int yi=0;yi<6;yi++){ ll yv=ys[yi]; uint8_t bin[5]={tags[ti],xv>>8,xv&255,yv>>8,yv&255}, out[5]; ep_t q; int th=0; RLC_TRY{ ep_read_bin(q,bin,5);} RLC_CATCH_ANY{th=1;} err_get_code(); tot++;
      int ok = tags[ti]==4 && xv<P && yv<P && rhs>=0 && yv*yv%P==rhs;
      if(ok){ valid++; if(th) rej_bad++; else { int t2=0; RLC_TRY{ ep_write_bin(out,5,q,0);} RLC_CATCH_ANY{t2=1;} if(t2||memcmp(out,bin,5)) re_bad++; } } else if(!th){ acc_bad++; if(acc_bad<6) printf(" ACCEPTED invalid uncompressed: tag=%d x=%lld y=%lld\n",tags[ti],xv,yv); } } }
  printf("uncompressed: strings=%lu valid=%lu accepted-invalid=%lu rejected-valid=%lu reencode-diff=%lu\n",tot,valid,acc_bad,rej_bad,re_bad);
  core_clean(); return 0; }
