#include <stdio.h>
#include <string.h>
#include "relic.h"
static void *trace[1<<16]; static volatile int tn, ton;
void __sanitizer_cov_trace_pc(void){ if(ton && tn<(1<<16)) trace[tn++]=__builtin_return_address(0); }
static unsigned long th(void){ unsigned long h=1469598103934665603UL; for(int i=0;i<tn;i++){ h^=(unsigned long)trace[i]; h*=1099511628211UL;} return h; }
int main(void){ core_init();
 dig_t a[4]={1,2,3,4}, b[4]={1,2,3,4}, c[4]={9,2,3,4};
 tn=0; ton=1; int r1=dv_cmp_sec(a,b,4); ton=0; unsigned long h1=th(); int n1=tn;
 tn=0; ton=1; int r2=dv_cmp_sec(a,c,4); ton=0; unsigned long h2=th(); int n2=tn;
 printf("cmp_sec: r=%d/%d n=%d/%d same=%d\n",r1,r2,n1,n2,h1==h2);
 tn=0; ton=1; dv_copy_sec(a,c,4,0); ton=0; h1=th(); n1=tn; tn=0; ton=1; dv_copy_sec(a,c,4,1); ton=0; h2=th(); n2=tn;
 printf("copy_sec: n=%d/%d same=%d\n",n1,n2,h1==h2);
 tn=0; ton=1; r1=dv_cmp(a,b,4); ton=0; h1=th(); n1=tn; tn=0; ton=1; r2=dv_cmp(b,c,4); ton=0; h2=th(); n2=tn;
 printf("dv_cmp (non-ct control): n=%d/%d same=%d\n",n1,n2,h1==h2);
 tn=0; ton=1; r1=util_cmp_sec(a,b,32); ton=0; h1=th(); n1=tn; tn=0; ton=1; r2=util_cmp_sec(b,c,32); ton=0; h2=th(); n2=tn;
 printf("util_cmp_sec: n=%d/%d same=%d (untraced TU expected n=0)\n",n1,n2,h1==h2);
 core_clean(); return 0; }
