#include <stdio.h>
#include <stdlib.h>
#include "relic.h"
static long fail_at=-1, count=0;
void *__real_malloc(size_t); void *__real_calloc(size_t,size_t); void *__real_realloc(void*,size_t);
void *__wrap_malloc(size_t n){ if(++count==fail_at) return NULL; return __real_malloc(n);} 
void *__wrap_calloc(size_t a,size_t b){ if(++count==fail_at) return NULL; return __real_calloc(a,b);} 
void *__wrap_realloc(void*p,size_t n){ if(++count==fail_at) return NULL; return __real_realloc(p,n);} 
static int op(int which){ int ok=1; bn_t a,b,c; bn_null(a);bn_null(b);bn_null(c);
  RLC_TRY { bn_new(a);bn_new(b);bn_new(c); bn_set_2b(a,200); bn_sub_dig(a,a,17); bn_set_2b(b,190); bn_add_dig(b,b,5);
    switch(which){ case 0: bn_mul_karat(c,a,b); break; case 1: bn_div_rem(c,b,a,b); break; case 2: bn_gcd_ext_lehme(c,a,b,a,b); break; case 3: bn_mxp_slide(c,a,b,a); break; }
  } RLC_CATCH_ANY { ok=0; } RLC_FINALLY { bn_free(a);bn_free(b);bn_free(c);} return ok; }
int main(int argc,char**argv){ core_init(); int which=atoi(argv[1]); 
  count=0; fail_at=-1; op(which); long total=count; fprintf(stderr,"op %d allocs=%ld\n",which,total);
  long k=atol(argv[2]); count=0; fail_at=k; int ok=op(which); fail_at=-1; fprintf(stderr,"fail_at=%ld ok=%d code=%d\n",k,ok,err_get_code());
  count=0; ok=op(which); fprintf(stderr,"after: ok=%d\n",ok);
  core_clean(); return 0; }
