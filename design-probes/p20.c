#include <stdio.h>
#include <stdlib.h>
#include <string.h>
#include "relic.h"
#define M 17
typedef unsigned u32; typedef long long ll;
static u32 POLY=(1u<<17)|(1u<<3)|1, A_, B_;
static u32 gm(u32 a,u32 b){ unsigned long long r=0; for(int i=0;i<M;i++) if((b>>i)&1) r^=(unsigned long long)a<<i; for(int i=2*M-2;i>=M;i--) if((r>>i)&1) r^=(unsigned long long)POLY<<(i-M); return (u32)r; }
static u32 gpow(u32 a, ll e){ u32 r=1; while(e){ if(e&1) r=gm(r,a); a=gm(a,a); e>>=1;} return r; }
static u32 ginv(u32 a){ return gpow(a,(1LL<<M)-2); }
typedef struct { u32 x,y; int inf; } pt;
static pt padd(pt p, pt q){ pt r; if(p.inf) return q; if(q.inf) return p;
  if(p.x==q.x){ if((p.y^q.y)==p.x || p.x==0){ /* q = -p (or 2-torsion) */ if(p.y==q.y && p.x!=0){} else { r.inf=1;r.x=r.y=0; return r; } }
     if(p.y!=q.y){ r.inf=1;r.x=r.y=0; return r; }
     u32 l=p.x^gm(p.y,ginv(p.x)); r.x=gm(l,l)^l^A_; r.y=gm(p.x,p.x)^gm(l^1,r.x); r.inf=0; return r; }
  u32 l=gm(p.y^q.y,ginv(p.x^q.x)); r.x=gm(l,l)^l^p.x^q.x^A_; r.y=gm(l,p.x^r.x)^r.x^p.y; r.inf=0; return r; }
static pt pneg(pt p){ if(!p.inf) p.y^=p.x; return p; }
static pt pmul(pt p, ll k){ pt r; r.inf=1;r.x=r.y=0; int neg=k<0; if(neg)k=-k; pt q=p; while(k){ if(k&1) r=padd(r,q); q=padd(q,q); k>>=1;} return neg?pneg(r):r; }
static void fbset(fb_t c, u32 v){ fb_zero(c); for(int i=0;i<RLC_FB_DIGS;i++) c[i]=(v>>(8*i))&0xff; }
static u32 fbget(const fb_t a){ u32 v=0; for(int i=RLC_FB_DIGS-1;i>=0;i--) v=(v<<8)|a[i]; return v; }
static void bnset(bn_t t, ll v){ int neg=v<0; if(neg)v=-v; bn_zero(t); for(int i=7;i>=0;i--){ bn_lsh(t,t,8); bn_add_dig(t,t,(v>>(8*i))&0xff);} if(neg) bn_neg(t,t); }
static void ebset(eb_t e, pt p){ if(p.inf){ eb_set_infty(e); return;} fbset(e->x,p.x); fbset(e->y,p.y); fb_set_dig(e->z,1); e->coord=BASIC; }
static int ebeq(eb_t e, pt p){ eb_t n; eb_norm(n,e); if(eb_is_infty(n)) return p.inf; if(p.inf) return 0; return fbget(n->x)==p.x && fbget(n->y)==p.y; }
static unsigned st=99; static void rcb(uint8_t *buf, size_t n, void *a){ for(size_t i=0;i<n;i++){ st=st*1103515245u+12345u; buf[i]=(st>>16)&0xff; } if(n==3 && ((buf[0]|(buf[1]<<8)|((buf[2]&1)<<16))==0)) buf[0]=1; }
#define T(name, call) do{ eb_t s; eb_set_infty(s); int thrown=0; RLC_TRY{ call; } RLC_CATCH_ANY{ thrown=1; } if(thrown||!ebeq(s,e)){ if(cnt_##name<2) printf("  FAIL %-8s k=%lld thrown=%d\n",#name,(ll)k,thrown); cnt_##name++; } }while(0)
int main(int argc,char**argv){ core_init(); rand_seed(rcb,NULL); fb_poly_set_trino(3); A_=atoi(argv[1]); B_=atoi(argv[2]);
  /* solve table: z^2+z -> z */ u32 N=1u<<M; int *sol=malloc(N*sizeof(int)); memset(sol,-1,N*sizeof(int)); for(u32 z=0;z<N;z++){ u32 v=gm(z,z)^z; if(sol[v]<0) sol[v]=z; }
  pt *pts=malloc(sizeof(pt)*(2*N+2)); ll n=0; pts[n].inf=1;pts[n].x=pts[n].y=0;n++;
  { pts[n].x=0; pts[n].y=gpow(B_,1LL<<(M-1)); pts[n].inf=0; n++; }
  for(u32 x=1;x<N;x++){ u32 xi=ginv(x); u32 c=x^A_^gm(B_,gm(xi,xi)); if(sol[c]>=0){ u32 z=sol[c]; pts[n].x=x;pts[n].y=gm(z,x);pts[n].inf=0;n++; pts[n].x=x;pts[n].y=gm(z^1,x);pts[n].inf=0;n++; } }
  ll h=1,r=n; while(r%2==0){r/=2;h*=2;} int prime=1; for(ll d=3;d*d<=r;d+=2) if(r%d==0) prime=0;
  printf("a=%u b=%u order=%lld = %lld * %lld prime=%d\n",A_,B_,n,h,r,prime); if(!prime) return 0;
  pt g; for(int i=2;i<n;i++){ g=pmul(pts[i],h); if(!g.inf) break; }
  fb_t fa,fb_; fbset(fa,A_); fbset(fb_,B_); eb_t eg; ebset(eg,g); bn_t br,bh; bn_new(br);bn_new(bh); bnset(br,r); bnset(bh,h);
  int ok=1; RLC_TRY{ eb_curve_set(fa,fb_,eg,br,bh);} RLC_CATCH_ANY{ok=0;} printf("curve set ok=%d kbltz=%d code=%d\n",ok,eb_curve_is_kbltz(),err_get_code());
  unsigned long bad[4]={0},cnt=0; for(int i=0;i<600;i++) for(int j=0;j<600;j++){ int a=i<300?i:(int)(n-1-(i-300)), b=j<300?j:(int)(n-1-(j-300)); eb_t p,q,s; ebset(p,pts[a]); ebset(q,pts[b]); pt e=padd(pts[a],pts[b]);
     eb_add_basic(s,p,q); if(!ebeq(s,e)) bad[0]++; eb_add_projc(s,p,q); if(!ebeq(s,e)) bad[1]++; eb_t pp; eb_dbl_projc(pp,p); eb_add_projc(s,pp,q); if(!ebeq(s,padd(padd(pts[a],pts[a]),pts[b]))) bad[2]++; cnt++; }
  printf("add pairs=%lu bad basic=%lu projc=%lu mixed=%lu\n",cnt,bad[0],bad[1],bad[2]);
  unsigned long cnt_basic=0,cnt_lodah=0,cnt_lwnaf=0,cnt_rwnaf=0,cnt_halve=0,cnt_gen=0,cnt_fcombs=0,cnt_sinter=0,cnt_sjoint=0,mc=0; eb_t p; ebset(p,g); eb_t tc[RLC_EB_TABLE_MAX]; eb_mul_pre_combs(tc,p); eb_t q; ebset(q,pmul(g,5));
  ll lo=-2*r-3, hi=2*r+3, step= (argc>3)?atoll(argv[3]):1;
  for(ll k=lo;k<=hi;k+=step){ pt e=pmul(g,k); bn_t bk; bn_new(bk); bnset(bk,k);
    T(basic, eb_mul_basic(s,p,bk)); T(lodah, eb_mul_lodah(s,p,bk)); T(lwnaf, eb_mul_lwnaf(s,p,bk)); T(rwnaf, eb_mul_rwnaf(s,p,bk)); T(halve, eb_mul_halve(s,p,bk)); T(gen, eb_mul_gen(s,bk)); T(fcombs, eb_mul_fix_combs(s,(const eb_t*)tc,bk));
    ll m=(k*7+3)%(2*r); bn_t bm; bn_new(bm); bnset(bm,m); e=padd(pmul(g,k),pmul(g,5*m)); T(sinter, eb_mul_sim_inter(s,p,bk,q,bm)); T(sjoint, eb_mul_sim_joint(s,p,bk,q,bm)); mc++; }
  printf("scalars=%lu bad basic=%lu lodah=%lu lwnaf=%lu rwnaf=%lu halve=%lu gen=%lu fcombs=%lu sinter=%lu sjoint=%lu\n",mc,cnt_basic,cnt_lodah,cnt_lwnaf,cnt_rwnaf,cnt_halve,cnt_gen,cnt_fcombs,cnt_sinter,cnt_sjoint);
  core_clean(); return 0; }
