/* reference hash-to-curve (XMD + SSWU, no isogeny) vs ep_map_sswum on ab!=0 curves */
#include <stdio.h>
#include <string.h>
#include <gmp.h>
#include <openssl/evp.h>
#include "relic.h"
static mpz_t P,A,B,Z;
static int dg(const uint8_t*m,size_t l,uint8_t*o){ unsigned ol=0; EVP_Digest(m,l,o,&ol,EVP_sha256(),NULL); return ol; }
static void ref_xmd(uint8_t*out,size_t n,const uint8_t*msg,size_t ml,const uint8_t*dst,size_t dl){ uint8_t buf[2000],b0[32],bi[32]; size_t ell=(n+31)/32, p=0; memset(buf,0,64); p=64; memcpy(buf+p,msg,ml); p+=ml; buf[p++]=n>>8; buf[p++]=n; buf[p++]=0; memcpy(buf+p,dst,dl); p+=dl; buf[p++]=dl; dg(buf,p,b0);
  memcpy(buf,b0,32); p=32; buf[p++]=1; memcpy(buf+p,dst,dl); p+=dl; buf[p++]=dl; dg(buf,p,bi); size_t off=0; for(size_t i=1;i<=ell;i++){ size_t m=n-off<32?n-off:32; memcpy(out+off,bi,m); off+=m; if(i==ell) break; uint8_t t[32]; for(int j=0;j<32;j++) t[j]=b0[j]^bi[j]; memcpy(buf,t,32); p=32; buf[p++]=i+1; memcpy(buf+p,dst,dl); p+=dl; buf[p++]=dl; dg(buf,p,bi); } }
static void g(mpz_t r,const mpz_t x){ mpz_t t; mpz_init(t); mpz_mul(t,x,x); mpz_add(t,t,A); mpz_mul(t,t,x); mpz_add(t,t,B); mpz_mod(r,t,P); mpz_clear(t); }
static int issq(const mpz_t a){ return mpz_sgn(a)==0 || mpz_jacobi(a,P)==1; }
static void msqrt(mpz_t r,const mpz_t a){ /* p = 3 mod 4 for these curves */ mpz_t e; mpz_init(e); mpz_add_ui(e,P,1); mpz_fdiv_q_2exp(e,e,2); mpz_powm(r,a,e,P); mpz_clear(e); }
static void sswu(mpz_t x,mpz_t y,const mpz_t t){ mpz_t t0,t1,t2,x1,gx,x2; mpz_inits(t0,t1,t2,x1,gx,x2,NULL); mpz_mul(t0,t,t); mpz_mul(t0,t0,Z); mpz_mod(t0,t0,P); mpz_mul(t1,t0,t0); mpz_add(t2,t1,t0); mpz_mod(t2,t2,P);
  mpz_t mboa; mpz_init(mboa); mpz_invert(mboa,A,P); mpz_mul(mboa,mboa,B); mpz_neg(mboa,mboa); mpz_mod(mboa,mboa,P);
  if(mpz_sgn(t2)==0){ /* x1 = B/(Z A) */ mpz_mul(x1,Z,A); mpz_invert(x1,x1,P); mpz_mul(x1,x1,B); mpz_mod(x1,x1,P); } else { mpz_invert(t2,t2,P); mpz_add_ui(t2,t2,1); mpz_mul(x1,t2,mboa); mpz_mod(x1,x1,P); }
  g(gx,x1); if(issq(gx)){ mpz_set(x,x1); msqrt(y,gx); } else { mpz_mul(x2,t0,x1); mpz_mod(x2,x2,P); g(gx,x2); mpz_set(x,x2); msqrt(y,gx); }
  if(mpz_odd_p(y)!=mpz_odd_p(t)){ mpz_sub(y,P,y); mpz_mod(y,y,P);} }
static void fpget(mpz_t z,const fp_t a){ bn_t t; bn_new(t); fp_prime_back(t,a); mpz_import(z,t->used,-1,sizeof(dig_t),0,0,t->dp); }
static void padd(mpz_t x3,mpz_t y3,int*inf,mpz_t x1,mpz_t y1,mpz_t x2,mpz_t y2){ mpz_t l,t; mpz_inits(l,t,NULL); *inf=0; if(!mpz_cmp(x1,x2)){ mpz_add(t,y1,y2); mpz_mod(t,t,P); if(mpz_sgn(t)==0){*inf=1;return;} mpz_mul(l,x1,x1); mpz_mul_ui(l,l,3); mpz_add(l,l,A); mpz_mul_ui(t,y1,2); mpz_invert(t,t,P); mpz_mul(l,l,t);} else { mpz_sub(l,y2,y1); mpz_sub(t,x2,x1); mpz_mod(t,t,P); mpz_invert(t,t,P); mpz_mul(l,l,t);} mpz_mod(l,l,P); mpz_mul(t,l,l); mpz_sub(t,t,x1); mpz_sub(t,t,x2); mpz_mod(t,t,P); mpz_t yy; mpz_init(yy); mpz_sub(yy,x1,t); mpz_mul(yy,yy,l); mpz_sub(yy,yy,y1); mpz_mod(y3,yy,P); mpz_set(x3,t); }
int main(void){ core_init(); mpz_inits(P,A,B,Z,NULL); int ids[]={NIST_P256,BSI_P256,SM2_P256};
 for(int c=0;c<3;c++){ ep_param_set(ids[c]); { bn_t t; bn_new(t); t->used=RLC_FP_DIGS; t->sign=RLC_POS; dv_copy(t->dp,fp_prime_get(),RLC_FP_DIGS); mpz_import(P,t->used,-1,8,0,0,t->dp);} fpget(A,ep_curve_get_a()); fpget(B,ep_curve_get_b()); fpget(Z,core_get()->ep_map_u);
  size_t elm=(FP_PRIME+ep_param_level()+7)/8; gmp_printf("curve %d level=%d elm=%zu Z=%Zd p mod 4=%lu ctmap=%d\n",ids[c],ep_param_level(),elm,Z,mpz_fdiv_ui(P,4),ep_curve_is_ctmap());
  unsigned long bad=0,n=0; uint8_t msg[260]; for(int i=0;i<260;i++) msg[i]=i*5+c; for(size_t len=0;len<=200;len++){ uint8_t r[200]; ref_xmd(r,2*elm,msg,len,(const uint8_t*)"RELIC",6); mpz_t t0,t1,x0,y0,x1,y1,x,y,ex,ey; mpz_inits(t0,t1,x0,y0,x1,y1,x,y,ex,ey,NULL); mpz_import(t0,elm,1,1,1,0,r); mpz_mod(t0,t0,P); mpz_import(t1,elm,1,1,1,0,r+elm); mpz_mod(t1,t1,P); sswu(x0,y0,t0); sswu(x1,y1,t1); int inf; padd(x,y,&inf,x0,y0,x1,y1);
    ep_t p; ep_map_sswum(p,msg,len); ep_norm(p,p); fpget(ex,p->x); fpget(ey,p->y); n++; if(inf!=ep_is_infty(p)||(!inf&&(mpz_cmp(x,ex)||mpz_cmp(y,ey)))){ bad++; if(bad<3) gmp_printf("  len=%zu ref=(%Zx,%Zx) lib=(%Zx,%Zx)\n",len,x,y,ex,ey);} }
  printf("  messages=%lu disagreements=%lu\n",n,bad); }
 core_clean(); return 0; }
