#include <stdio.h>
#include <stdlib.h>
#include <string.h>
#include "relic.h"
typedef long long ll;
static ll P, A, B;
static ll md(ll x){ x%=P; if(x<0)x+=P; return x; }
static ll mpow(ll b, ll e){ ll r=1; b=md(b); while(e){ if(e&1) r=r*b%P; b=b*b%P; e>>=1;} return r; }
static ll inv(ll x){ return mpow(x,P-2); }
typedef struct { ll x,y; int inf; } pt;
static pt padd(pt p, pt q){ pt r; if(p.inf) return q; if(q.inf) return p;
  if(p.x==q.x){ if(md(p.y+q.y)==0){ r.inf=1;r.x=r.y=0;return r;} ll l=md(md(3*p.x%P*p.x+A)*inv(2*p.y)); r.x=md(l*l-2*p.x); r.y=md(l*(p.x-r.x)-p.y); r.inf=0; return r; }
  ll l=md(md(q.y-p.y)*inv(q.x-p.x)); r.x=md(l*l-p.x-q.x); r.y=md(l*(p.x-r.x)-p.y); r.inf=0; return r; }
static pt pmul(pt p, ll k){ pt r; r.inf=1;r.x=r.y=0; int neg=k<0; if(neg)k=-k; pt q=p; while(k){ if(k&1) r=padd(r,q); q=padd(q,q); k>>=1;} if(neg&&!r.inf) r.y=md(-r.y); return r; }
static void bnset(bn_t t, ll v){ int neg=v<0; if(neg)v=-v; bn_zero(t); for(int i=7;i>=0;i--){ bn_lsh(t,t,8); bn_add_dig(t,t,(v>>(8*i))&0xff);} if(neg) bn_neg(t,t); }
static void fpset(fp_t c, ll v){ bn_t t; bn_new(t); bnset(t,md(v)); fp_prime_conv(c,t); }
static ll fpget(const fp_t a){ bn_t t; bn_new(t); fp_prime_back(t,a); ll v=0; for(int i=t->used-1;i>=0;i--) v=(v<<8)|t->dp[i]; return v; }
static void epset(ep_t e, pt p){ if(p.inf){ ep_set_infty(e); return;} fpset(e->x,p.x); fpset(e->y,p.y); fp_set_dig(e->z,1); e->coord=BASIC; }
static int epeq(ep_t e, pt p){ ep_t n; ep_norm(n,e); if(ep_is_infty(n)) return p.inf; if(p.inf) return 0; return fpget(n->x)==p.x && fpget(n->y)==p.y; }
static unsigned st=12345; static void rcb(uint8_t *buf, size_t n, void *a){ for(size_t i=0;i<n;i++){ st=st*1103515245u+12345u; buf[i]=(st>>16)&0xff; } if(n==2){ unsigned v=buf[0]|(buf[1]<<8); if(v%P==0) buf[0]^=1; } }
#define T(name, call) do{ ep_t s; ep_set_infty(s); int thrown=0; RLC_TRY{ call; } RLC_CATCH_ANY{ thrown=1; } if(thrown||!epeq(s,e)){ if(cnt_##name<2) printf("  FAIL %-12s k=%lld thrown=%d\n",#name,(ll)k,thrown); cnt_##name++; } }while(0)
int main(int argc,char**argv){
  core_init(); rand_seed(rcb,NULL);
  P = atoll(argv[1]); A = atoll(argv[2]); int endo = argc>3?atoi(argv[3]):0;
  bn_t bp; bn_new(bp); bnset(bp,P); fp_prime_set_dense(bp);
  ll *sq=calloc(P,sizeof(ll)); memset(sq,-1,P*sizeof(ll)); for(ll y=0;y<P;y++){ ll s=y*y%P; if(sq[s]<0) sq[s]=y; }
  for(B=1;B<P;B++){ if(md(4*A*A%P*A+27*B*B)==0) continue;
    pt *pts=malloc(sizeof(pt)*(2*P+2)); int n=0; pts[n].inf=1;pts[n].x=pts[n].y=0;n++;
    for(ll x=0;x<P;x++){ ll rhs=md(md(x*x%P*x)+A*x+B); if(sq[rhs]>=0){ ll y=sq[rhs]; pts[n].x=x;pts[n].y=y;pts[n].inf=0;n++; if(y){ pts[n].x=x;pts[n].y=P-y;pts[n].inf=0;n++; } } }
    int prime=1; for(int d=2;d*d<=n;d++) if(n%d==0) prime=0;
    if(!prime){ free(pts); continue; }
    printf("p=%lld a=%lld b=%lld order=%d endo=%d\n",P,md(A),B,n,endo);
    fp_t fa,fb; fpset(fa,A); fpset(fb,B); ep_t g; epset(g,pts[1]); bn_t r,h; bn_new(r);bn_new(h); bnset(r,n); bnset(h,1);
    int ok=1; 
    if(!endo){ RLC_TRY{ ep_curve_set_plain(fa,fb,g,r,h,0);} RLC_CATCH_ANY{ ok=0; } }
    else { /* find beta: cube root of unity, lambda: root of l^2+l+1 mod n */
      ll beta=0; for(ll t=2;t<P;t++) if(t*t%P*t%P==1){beta=t;break;}
      ll lam=0; for(ll t=2;t<n;t++) if((t*t+t+1)%n==0){lam=t;break;}
      fp_t fbeta; fpset(fbeta,beta); bn_t bl; bn_new(bl); bnset(bl,lam); printf("beta=%lld lambda=%lld\n",beta,lam);
      RLC_TRY{ ep_curve_set_endom(fa,fb,g,r,h,fbeta,bl,0);} RLC_CATCH_ANY{ ok=0; } }
    printf("curve set ok=%d code=%d opt_a=%d opt_b=%d\n",ok,err_get_code(),ep_curve_opt_a(),ep_curve_opt_b());
    if(!ok) { free(pts); continue; }
    unsigned long cnt_basic=0,cnt_slide=0,cnt_monty=0,cnt_lwnaf=0,cnt_lwreg=0,cnt_gen=0,cnt_dig=0,cnt_fbasic=0,cnt_fyaowi=0,cnt_fnafwi=0,cnt_fcombs=0,cnt_fcombd=0,cnt_flwnaf=0,cnt_sbasic=0,cnt_strick=0,cnt_sinter=0,cnt_sjoint=0,cnt_sgen=0,cnt_slot=0, mc=0;
    ep_t tb[RLC_EP_TABLE_MAX], ty[RLC_EP_TABLE_MAX], tn[RLC_EP_TABLE_MAX], tc[RLC_EP_TABLE_MAX], td[RLC_EP_TABLE_MAX], tl[RLC_EP_TABLE_MAX];
    int pi=2; ep_t p; epset(p,pts[pi]);
    int pre_ok[6]={1,1,1,1,1,1};
    RLC_TRY{ ep_mul_pre_basic(tb,p);} RLC_CATCH_ANY{pre_ok[0]=0;} pre_ok[1]=pre_ok[2]=0;
    RLC_TRY{ ep_mul_pre_combs(tc,p);} RLC_CATCH_ANY{pre_ok[3]=0;} RLC_TRY{ ep_mul_pre_combd(td,p);} RLC_CATCH_ANY{pre_ok[4]=0;} RLC_TRY{ ep_mul_pre_lwnaf(tl,p);} RLC_CATCH_ANY{pre_ok[5]=0;}
    printf("pre ok: %d %d %d %d %d %d code=%d\n",pre_ok[0],pre_ok[1],pre_ok[2],pre_ok[3],pre_ok[4],pre_ok[5],err_get_code());
    ep_t q; epset(q,pts[5]);
    for(ll k=-2*n-3;k<=2*n+3;k++){ pt e=pmul(pts[pi],k); bn_t bk; bn_new(bk); bnset(bk,k);
      T(basic, ep_mul_basic(s,p,bk)); T(slide, ep_mul_slide(s,p,bk)); T(monty, ep_mul_monty(s,p,bk)); T(lwnaf, ep_mul_lwnaf(s,p,bk)); T(lwreg, ep_mul_lwreg(s,p,bk));
      if(pre_ok[0]) T(fbasic, ep_mul_fix_basic(s,(const ep_t*)tb,bk)); 
      if(pre_ok[3]) T(fcombs, ep_mul_fix_combs(s,(const ep_t*)tc,bk)); if(pre_ok[4]) T(fcombd, ep_mul_fix_combd(s,(const ep_t*)td,bk)); if(pre_ok[5]) T(flwnaf, ep_mul_fix_lwnaf(s,(const ep_t*)tl,bk));
      if(k>=0&&k<256){ T(dig, ep_mul_dig(s,p,(dig_t)k)); }
      { pt e0=e; e=pmul(pts[1],k); T(gen, ep_mul_gen(s,bk)); e=e0; }
      /* sim: k*p + m*q with m = (k*7+3) */
      ll m=(k*7+3)%(2*n); bn_t bm; bn_new(bm); bnset(bm,m); pt e0=e; e=padd(pmul(pts[pi],k),pmul(pts[5],m));
      T(sbasic, ep_mul_sim_basic(s,p,bk,q,bm)); if(md(0)==0){ ll kk=((k%n)+n)%n, mm=((m%n)+n)%n; if(kk>3&&mm>3) T(strick, ep_mul_sim_trick(s,p,bk,q,bm)); } T(sinter, ep_mul_sim_inter(s,p,bk,q,bm)); T(sjoint, ep_mul_sim_joint(s,p,bk,q,bm));
      { ep_t ps[2]; bn_t ks[2]; ep_copy(ps[0],p); ep_copy(ps[1],q); bn_new(ks[0]); bn_new(ks[1]); bn_copy(ks[0],bk); bn_copy(ks[1],bm); T(slot, ep_mul_sim_lot(s,ps,ks,2)); }
      e=padd(pmul(pts[1],k),pmul(pts[5],m)); T(sgen, ep_mul_sim_gen(s,bk,q,bm)); e=e0;
      mc++; }
    printf("scalars=%lu fails: basic=%lu slide=%lu monty=%lu lwnaf=%lu lwreg=%lu gen=%lu dig=%lu | fix: basic=%lu yaowi=%lu nafwi=%lu combs=%lu combd=%lu lwnaf=%lu | sim: basic=%lu trick=%lu inter=%lu joint=%lu gen=%lu lot=%lu\n",mc,cnt_basic,cnt_slide,cnt_monty,cnt_lwnaf,cnt_lwreg,cnt_gen,cnt_dig,cnt_fbasic,cnt_fyaowi,cnt_fnafwi,cnt_fcombs,cnt_fcombd,cnt_flwnaf,cnt_sbasic,cnt_strick,cnt_sinter,cnt_sjoint,cnt_sgen,cnt_slot);
    break;
  }
  core_clean(); return 0; }
