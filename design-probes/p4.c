#include <stdio.h>
#include "relic.h"
int main(int argc,char**argv){
  core_init();
  int ids[]={NIST_256,BSI_256,SECG_256,SM2_256,BN_256,SM9_256};
  for(int k=0;k<6;k++){ fp_param_set(ids[k]);
    unsigned long bad_div=0,bad_bin=0,bad_jmp=0,bad_low=0;
    fp_t x; fp_set_dig(x,1);
    for(unsigned a=1;a<40000;a++){ fp_set_dig(x,a); if (a&1) fp_neg(x,x); if (a%3==0) fp_inv(x,x);
      int e=fp_smb_basic(x);
      if(fp_smb_divst(x)!=e){ if(!bad_div) printf("  divst a=%u\n",a); bad_div++;}
      if(fp_smb_binar(x)!=e){ if(!bad_bin) printf("  binar a=%u\n",a); bad_bin++;}
      if(fp_smb_jmpds(x)!=e) bad_jmp++; if(fp_smb_lower(x)!=e) bad_low++; }
    printf("id=%d divst=%lu binar=%lu jmpds=%lu lower=%lu\n",ids[k],bad_div,bad_bin,bad_jmp,bad_low);
  }
  core_clean(); return 0; }
