/* number theory + recodings vs GMP over small exhaustive ranges */
#include <stdio.h>
#include <stdlib.h>
#include <string.h>
#include <gmp.h>
#include "relic.h"
static void tobn(bn_t b, const mpz_t z){ size_t c=0; uint8_t buf[256]; mpz_export(buf,&c,1,1,1,0,z); bn_read_bin(b,buf,c); if(mpz_sgn(z)<0) bn_neg(b,b); }
static void tomp(mpz_t z, const bn_t b){ mpz_import(z,b->used,-1,sizeof(dig_t),0,0,b->dp); if(b->sign==RLC_NEG) mpz_neg(z,z); }
static unsigned long fails[64], thrown[64]; static const char *names[64]; static int shown[64];
static mpz_t A,B,E,G,Q,Rm,T1,T2;
#define CHK(id,nm,cond) do{ names[id]=nm; if(!(cond)){ fails[id]++; if(shown[id]<3){ shown[id]++; gmp_printf("  FAIL %-16s a=%Zd b=%Zd got=%Zd exp=%Zd\n",nm,A,B,G,E);} } }while(0)
#define TRY(id,nm,stmt) do{ names[id]=nm; int th=0; RLC_TRY{ stmt; } RLC_CATCH_ANY{ th=1; } if(th){ thrown[id]++; err_get_code(); } else
#define END }while(0)
int main(int argc,char**argv){ core_init(); freopen("/dev/null","w",stderr); long R=atol(argv[1]); mpz_inits(A,B,E,G,Q,Rm,T1,T2,NULL); bn_t a,b,c,d,e; bn_new(a);bn_new(b);bn_new(c);bn_new(d);bn_new(e);
  for(long x=-R;x<=R;x++) for(long y=-R;y<=R;y++){ mpz_set_si(A,x); mpz_set_si(B,y); tobn(a,A); tobn(b,B);
    mpz_gcd(E,A,B);
    TRY(0,"gcd_basic", bn_gcd_basic(c,a,b)) { tomp(G,c); CHK(0,"gcd_basic",!mpz_cmp(G,E)); } END;
    TRY(1,"gcd_lehme", bn_gcd_lehme(c,a,b)) { tomp(G,c); CHK(1,"gcd_lehme",!mpz_cmp(G,E)); } END;
    TRY(2,"gcd_binar", bn_gcd_binar(c,a,b)) { tomp(G,c); CHK(2,"gcd_binar",!mpz_cmp(G,E)); } END;
    TRY(3,"gcd_ext_basic", bn_gcd_ext_basic(c,d,e,a,b)) { tomp(G,c); CHK(3,"gcd_ext_basic.g",!mpz_cmp(G,E)); tomp(T1,d); tomp(T2,e); mpz_mul(T1,T1,A); mpz_addmul(T1,T2,B); mpz_set(G,T1); CHK(4,"gcd_ext_basic.bez",!mpz_cmp(T1,E)); } END;
    TRY(5,"gcd_ext_lehme", bn_gcd_ext_lehme(c,d,e,a,b)) { tomp(G,c); CHK(5,"gcd_ext_lehme.g",!mpz_cmp(G,E)); tomp(T1,d); tomp(T2,e); mpz_mul(T1,T1,A); mpz_addmul(T1,T2,B); mpz_set(G,T1); CHK(6,"gcd_ext_lehme.bez",!mpz_cmp(T1,E)); } END;
    TRY(7,"gcd_ext_binar", bn_gcd_ext_binar(c,d,e,a,b)) { tomp(G,c); CHK(7,"gcd_ext_binar.g",!mpz_cmp(G,E)); tomp(T1,d); tomp(T2,e); mpz_mul(T1,T1,A); mpz_addmul(T1,T2,B); mpz_set(G,T1); CHK(8,"gcd_ext_binar.bez",!mpz_cmp(T1,E)); } END;
    mpz_lcm(E,A,B); TRY(9,"lcm", bn_lcm(c,a,b)) { tomp(G,c); CHK(9,"lcm",!mpz_cmpabs(G,E)); } END;
    if(y>0){ mpz_mod(E,A,B); TRY(10,"mod_basic", bn_mod_basic(c,a,b)) { tomp(G,c); CHK(10,"mod_basic",!mpz_cmp(G,E)); } END;
      TRY(11,"mod_barrt", { bn_mod_pre_barrt(d,b); bn_mod_barrt(c,a,b,d);} ) { tomp(G,c); CHK(11,"mod_barrt",!mpz_cmp(G,E)); } END;
      if(y&1 && y>1){ int inv_ok=mpz_invert(E,A,B); TRY(12,"mod_inv", bn_mod_inv(c,a,b)) { tomp(G,c); if(inv_ok) CHK(12,"mod_inv",!mpz_cmp(G,E)); } END;
        if(x>=0){ mpz_set_si(E,mpz_jacobi(A,B)); TRY(13,"smb_jac", mpz_set_si(G,bn_smb_jac(a,b))) { CHK(13,"smb_jac",!mpz_cmp(G,E)); } END; }
        /* mxp a^x' mod b for exponent = x (may be negative) with base |y-3| */ }
      if(y>1){ mpz_set_si(T1,(x*x+3)%97); bn_t base; bn_new(base); tobn(base,T1); int okp=1; if(x<0){ okp=mpz_invert(T2,T1,B); } if(okp){ mpz_powm(E,T1,A,B);
          TRY(14,"mxp_basic", bn_mxp_basic(c,base,a,b)) { tomp(G,c); CHK(14,"mxp_basic",!mpz_cmp(G,E)); } END;
          TRY(15,"mxp_slide", bn_mxp_slide(c,base,a,b)) { tomp(G,c); CHK(15,"mxp_slide",!mpz_cmp(G,E)); } END;
          TRY(16,"mxp_monty", bn_mxp_monty(c,base,a,b)) { tomp(G,c); CHK(16,"mxp_monty",!mpz_cmp(G,E)); } END; } } }
    if(y==0 && x>=0){ mpz_sqrt(E,A); TRY(17,"srt", bn_srt(c,a)) { tomp(G,c); CHK(17,"srt",!mpz_cmp(G,E)); } END;
      int pr=mpz_probab_prime_p(A,30)>0; mpz_set_si(E,pr);
      TRY(18,"is_prime", mpz_set_si(G,bn_is_prime(a))) { CHK(18,"is_prime",!mpz_cmp(G,E)); } END;
      TRY(19,"is_prime_basic", mpz_set_si(G,bn_is_prime_basic(a))) { CHK(19,"is_prime_basic",!mpz_cmp(G,E)||x>=1009*1009); } END;
      if(x>2){ TRY(20,"is_prime_rabin", mpz_set_si(G,bn_is_prime_rabin(a))) { CHK(20,"is_prime_rabin",!mpz_cmp(G,E)); } END;
               TRY(21,"is_prime_solov", mpz_set_si(G,bn_is_prime_solov(a))) { CHK(21,"is_prime_solov",!mpz_cmp(G,E)); } END; }
      for(int w=2;w<=8;w++){ int8_t naf[80]; size_t len=80; TRY(22,"rec_naf", bn_rec_naf(naf,&len,a,w)) { mpz_set_ui(G,0); int ok=1; for(int i=len-1;i>=0;i--){ mpz_mul_2exp(G,G,1); if(naf[i]>=0) mpz_add_ui(G,G,naf[i]); else mpz_sub_ui(G,G,-naf[i]); if(naf[i]&&((naf[i]&1)==0||abs(naf[i])>=(1<<(w-1)))) ok=0; } mpz_set(E,A); CHK(22,"rec_naf",!mpz_cmp(G,E)&&ok); } END;
        uint8_t win[80]; len=80; if(x>=(1<<w)) TRY(23,"rec_win", bn_rec_win(win,&len,a,w)) { mpz_set_ui(G,0); for(int i=len-1;i>=0;i--){ mpz_mul_2exp(G,G,w); mpz_add_ui(G,G,win[i]); } mpz_set(E,A); CHK(23,"rec_win",!mpz_cmp(G,E)); } END;
        len=80; TRY(24,"rec_slw", bn_rec_slw(win,&len,a,w)) { mpz_set_ui(G,0); for(size_t i=0;i<len;i++){ if(win[i]==0) mpz_mul_2exp(G,G,1); else { int bits=0; for(int t=win[i];t;t>>=1) bits++; mpz_mul_2exp(G,G,bits); mpz_add_ui(G,G,win[i]); } } mpz_set(E,A); CHK(24,"rec_slw",!mpz_cmp(G,E)); } END;
        if(w>=2 && (x&1)){ int nb=17; len=80; TRY(25,"rec_reg", bn_rec_reg(naf,&len,a,nb,w)) { mpz_set_ui(G,0); int ok=1; for(int i=len-1;i>=0;i--){ mpz_mul_2exp(G,G,w-1); if(naf[i]>=0) mpz_add_ui(G,G,naf[i]); else mpz_sub_ui(G,G,-naf[i]); if(naf[i]==0||(naf[i]&1)==0) ok=0; } mpz_set(E,A); CHK(25,"rec_reg",!mpz_cmp(G,E)&&ok&&len==(size_t)((nb+w-2)/(w-1))+1-0); } END; }
      } }
  }
  printf("range=%ld\n",R); for(int i=0;i<64;i++) if(names[i]&&(fails[i]||thrown[i])) printf("  %-18s fails=%lu thrown=%lu\n",names[i],fails[i],thrown[i]); core_clean(); return 0; }
