/* bn ops vs GMP over a small exhaustive range (generic over WSIZE) */
#include <stdio.h>
#include <stdlib.h>
#include <string.h>
#include <gmp.h>
#include "relic.h"
static void tobn(bn_t b, const mpz_t z){ size_t c=0; uint8_t buf[256]; mpz_export(buf,&c,1,1,1,0,z); bn_read_bin(b,buf,c); if(mpz_sgn(z)<0) bn_neg(b,b); }
static void tomp(mpz_t z, const bn_t b){ mpz_import(z,b->used,-1,sizeof(dig_t),0,0,b->dp); if(b->sign==RLC_NEG) mpz_neg(z,z); }
static int normal(const bn_t b){ if(b->used<1) return 0; if(b->used>1 && b->dp[b->used-1]==0) return 0; if(b->used==1&&b->dp[0]==0&&b->sign!=RLC_POS) return 0; return 1; }
static unsigned long fails[64]; static const char *names[64]; static int shown[64];
#define CHK(id,nm,cond) do{ names[id]=nm; if(!(cond)){ fails[id]++; if(shown[id]<3){ shown[id]++; gmp_printf("  FAIL %-14s a=%Zd b=%Zd\n",nm,A,B);} } }while(0)
int main(int argc,char**argv){ core_init(); long R=atol(argv[1]); mpz_t A,B,E,G,Q,Rm; mpz_inits(A,B,E,G,Q,Rm,NULL); bn_t a,b,c,d; bn_new(a);bn_new(b);bn_new(c);bn_new(d);
  unsigned long n=0;
  for(long x=-R;x<=R;x++) for(long y=-R;y<=R;y++){ mpz_set_si(A,x); mpz_set_si(B,y); if(argc>2){ mpz_mul_2exp(A,A,atoi(argv[2])); mpz_add_ui(A,A,(unsigned long)(x*x)%7); } tobn(a,A); tobn(b,B); n++;
    bn_add(c,a,b); tomp(G,c); mpz_add(E,A,B); CHK(0,"add",!mpz_cmp(G,E)&&normal(c));
    bn_sub(c,a,b); tomp(G,c); mpz_sub(E,A,B); CHK(1,"sub",!mpz_cmp(G,E)&&normal(c));
    mpz_mul(E,A,B); bn_mul_basic(c,a,b); tomp(G,c); CHK(2,"mul_basic",!mpz_cmp(G,E)&&normal(c)); bn_mul_comba(c,a,b); tomp(G,c); CHK(3,"mul_comba",!mpz_cmp(G,E)&&normal(c)); bn_mul_karat(c,a,b); tomp(G,c); CHK(4,"mul_karat",!mpz_cmp(G,E)&&normal(c));
    mpz_mul(E,A,A); bn_sqr_basic(c,a); tomp(G,c); CHK(5,"sqr_basic",!mpz_cmp(G,E)&&normal(c)); bn_sqr_comba(c,a); tomp(G,c); CHK(6,"sqr_comba",!mpz_cmp(G,E)&&normal(c)); bn_sqr_karat(c,a); tomp(G,c); CHK(7,"sqr_karat",!mpz_cmp(G,E)&&normal(c));
    if(y!=0){ mpz_fdiv_qr(Q,Rm,A,B); bn_div_rem(c,d,a,b); tomp(G,c); CHK(8,"div_rem.q",!mpz_cmp(G,Q)&&normal(c)); tomp(G,d); CHK(9,"div_rem.r",!mpz_cmp(G,Rm)&&normal(d)); bn_div(c,a,b); tomp(G,c); CHK(10,"div",!mpz_cmp(G,Q));
      if(y>0&&y<256){ dig_t r; bn_div_rem_dig(c,&r,a,(dig_t)y); tomp(G,c); CHK(11,"div_rem_dig.q",!mpz_cmp(G,Q)&&normal(c)); CHK(12,"div_rem_dig.r",mpz_cmp_ui(Rm,r)==0); bn_div_dig(c,a,(dig_t)y); tomp(G,c); CHK(13,"div_dig",!mpz_cmp(G,Q)&&normal(c)); bn_mod_dig(&r,a,(dig_t)y); CHK(14,"mod_dig",mpz_cmp_ui(Rm,r)==0);
        bn_add_dig(c,a,(dig_t)y); tomp(G,c); mpz_add_ui(E,A,y); CHK(15,"add_dig",!mpz_cmp(G,E)&&normal(c)); bn_sub_dig(c,a,(dig_t)y); tomp(G,c); mpz_sub_ui(E,A,y); CHK(16,"sub_dig",!mpz_cmp(G,E)&&normal(c)); bn_mul_dig(c,a,(dig_t)y); tomp(G,c); mpz_mul_ui(E,A,y); CHK(17,"mul_dig",!mpz_cmp(G,E)&&normal(c)); } }
    int cm=mpz_cmp(A,B); cm=cm<0?RLC_LT:cm>0?RLC_GT:RLC_EQ; CHK(18,"cmp",bn_cmp(a,b)==cm); int ca=mpz_cmpabs(A,B); ca=ca<0?RLC_LT:ca>0?RLC_GT:RLC_EQ; CHK(19,"cmp_abs",bn_cmp_abs(a,b)==ca);
    if(y>=0&&y<40){ bn_lsh(c,a,y); tomp(G,c); mpz_mul_2exp(E,A,y); CHK(20,"lsh",!mpz_cmp(G,E)&&normal(c)); bn_rsh(c,a,y); tomp(G,c); mpz_fdiv_q_2exp(E,A,y); CHK(21,"rsh(floor)",!mpz_cmp(G,E)&&normal(c)); mpz_tdiv_q_2exp(E,A,y); CHK(22,"rsh(trunc)",!mpz_cmp(G,E)&&normal(c));
      bn_mod_2b(c,a,y); tomp(G,c); mpz_fdiv_r_2exp(E,A,y); CHK(23,"mod_2b(floor)",!mpz_cmp(G,E)&&normal(c)); mpz_tdiv_r_2exp(E,A,y); CHK(24,"mod_2b(trunc)",!mpz_cmp(G,E)); CHK(25,"get_bit",bn_get_bit(a,y)==mpz_tstbit(A,y)||mpz_sgn(A)<0); }
    if(y==0){ bn_dbl(c,a); tomp(G,c); mpz_mul_2exp(E,A,1); CHK(26,"dbl",!mpz_cmp(G,E)&&normal(c)); bn_hlv(c,a); tomp(G,c); mpz_fdiv_q_2exp(E,A,1); CHK(27,"hlv(floor)",!mpz_cmp(G,E)&&normal(c)); mpz_tdiv_q_2exp(E,A,1); CHK(28,"hlv(trunc)",!mpz_cmp(G,E)&&normal(c)); CHK(29,"bits",bn_bits(a)==(mpz_sgn(A)?mpz_sizeinbase(A,2):0)); CHK(30,"ham",bn_ham(a)==mpz_popcount(A)||mpz_sgn(A)<0); CHK(31,"is_even",bn_is_even(a)==mpz_even_p(A));
      bn_neg(c,a); tomp(G,c); mpz_neg(E,A); CHK(32,"neg",!mpz_cmp(G,E)&&normal(c)); bn_abs(c,a); tomp(G,c); mpz_abs(E,A); CHK(33,"abs",!mpz_cmp(G,E)&&normal(c)); }
    /* aliasing */ bn_copy(c,a); bn_add(c,c,b); tomp(G,c); mpz_add(E,A,B); CHK(34,"add c==a",!mpz_cmp(G,E)); bn_copy(c,b); bn_sub(c,a,c); tomp(G,c); mpz_sub(E,A,B); CHK(35,"sub c==b",!mpz_cmp(G,E)); bn_copy(c,a); bn_mul_comba(c,c,c); tomp(G,c); mpz_mul(E,A,A); CHK(36,"mul c==a==b",!mpz_cmp(G,E));
    if(y!=0){ mpz_fdiv_qr(Q,Rm,A,B); bn_copy(c,a); bn_copy(d,b); bn_div_rem(c,d,c,d); tomp(G,c); CHK(37,"div_rem q==a,r==b",!mpz_cmp(G,Q)); tomp(G,d); CHK(38,"div_rem r alias",!mpz_cmp(G,Rm)); }
  }
  printf("pairs=%lu\n",n); for(int i=0;i<64;i++) if(names[i]&&fails[i]) printf("  %-18s fails=%lu\n",names[i],fails[i]); core_clean(); return 0; }
