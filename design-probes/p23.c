#include <stdio.h>
#include "relic.h"
int main(void){ core_init(); bn_t a,b,c; bn_new(a);bn_new(b);bn_new(c); bn_set_dig(a,700); bn_neg(a,a); bn_set_dig(b,700); bn_add(c,a,b); printf("(-700)+700: used=%zu dp0=%lu sign=%d is_zero=%d bn_sign==NEG:%d\n",c->used,(unsigned long)c->dp[0],c->sign,bn_is_zero(c),bn_sign(c)==RLC_NEG);
 bn_set_dig(a,5); bn_set_dig(b,9); bn_t r; bn_new(r); bn_div_rem(a,r,a,b); printf("5 div 9 with q==a: q="); bn_print(a); printf(" r="); bn_print(r); core_clean(); return 0; }
