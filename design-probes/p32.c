#include <stdio.h>
#include "relic.h"
int main(void){ core_init(); int ids[]={BN_P256,SM9_P256}; int types[]={RLC_EP_DTYPE,RLC_EP_MTYPE};
 for(int c=0;c<2;c++){ ep_param_set(ids[c]); ep2_curve_set_twist(types[c]); bn_t r,h; bn_new(r); bn_new(h); pc_get_ord(r); ep2_curve_get_cof(h);
  unsigned long npts=0, bad_nonmember=0, bad_member=0, bad_sum=0, inG2=0; g2_t gen; g2_get_gen(gen);
  for(int i=0;i<30;i++) for(int j=0;j<30;j++){ ep2_t t,m,s; fp2_t rhs; fp_set_dig(t->x[0],i); fp_set_dig(t->x[1],j); ep2_rhs(rhs,t->x); if(!fp2_srt(t->y,rhs)) continue; fp2_set_dig(t->z,1); t->coord=BASIC; if(!ep2_on_curve(t)) { printf("not on curve?\n"); continue; } npts++;
    ep2_t rt; ep2_mul_basic(rt,t,r); int member=ep2_is_infty(rt); inG2+=member; int v=g2_is_valid(t); if(v!=member){ bad_nonmember++; if(bad_nonmember<3) printf("  x=%d+%du member=%d valid=%d\n",i,j,member,v);} 
    ep2_mul_basic(m,t,h); if(!ep2_is_infty(m)){ ep2_norm(m,m); if(!g2_is_valid(m)) bad_member++; ep2_add(s,m,t); ep2_norm(s,s); ep2_mul_basic(rt,s,r); if(g2_is_valid(s)!=ep2_is_infty(rt)) bad_sum++; }
    /* cofactor-part point [r]T: order divides h */ ep2_mul_basic(rt,t,r); if(!ep2_is_infty(rt)){ ep2_norm(rt,rt); if(g2_is_valid(rt)) bad_nonmember++; ep2_add(s,rt,gen); ep2_norm(s,s); if(g2_is_valid(s)) bad_sum++; } }
  printf("curve %d: twist points=%lu (in G2 by chance: %lu) wrong-on-nonmember=%lu wrong-on-[h]T=%lu wrong-on-sums=%lu; cofactor bits=%zu\n",ids[c],npts,inG2,bad_nonmember,bad_member,bad_sum,bn_bits(h)); }
 core_clean(); return 0; }
