#include <stdio.h>
#include <stdlib.h>
#include <string.h>
#include "relic.h"
typedef long long ll; static ll P, A, D;
static ll md(ll x){ x%=P; if(x<0)x+=P; return x; }
static ll mpow(ll b, ll e){ ll r=1; b=md(b); while(e){ if(e&1) r=r*b%P; b=b*b%P; e>>=1;} return r; }
static ll inv(ll x){ return mpow(x,P-2); }
typedef struct { ll x,y; } pt;
static pt padd(pt p, pt q){ pt r; ll t=md(D*p.x%P*q.x%P*p.y%P*q.y); r.x=md(md(p.x*q.y+p.y*q.x)*inv(1+t)); r.y=md(md(p.y*q.y-A*p.x%P*q.x)*inv(1-t)); return r; }
static pt pmul(pt p, ll k){ pt r={0,1}; int neg=k<0; if(neg)k=-k; pt q=p; while(k){ if(k&1) r=padd(r,q); q=padd(q,q); k>>=1;} if(neg) r.x=md(-r.x); return r; }
static void bnset(bn_t t, ll v){ int neg=v<0; if(neg)v=-v; bn_zero(t); for(int i=7;i>=0;i--){ bn_lsh(t,t,8); bn_add_dig(t,t,(v>>(8*i))&0xff);} if(neg) bn_neg(t,t); }
static void fpset(fp_t c, ll v){ bn_t t; bn_new(t); bnset(t,md(v)); fp_prime_conv(c,t); }
static ll fpget(const fp_t a){ bn_t t; bn_new(t); fp_prime_back(t,a); ll v=0; for(int i=t->used-1;i>=0;i--) v=(v<<8)|t->dp[i]; return v; }
static void edset(ed_t e, pt p){ fpset(e->x,p.x); fpset(e->y,p.y); fp_set_dig(e->z,1); fp_mul(e->t,e->x,e->y); e->coord=BASIC; }
static int edeq(ed_t e, pt p){ ed_t n; ed_norm(n,e); return fpget(n->x)==p.x && fpget(n->y)==p.y; }
static unsigned st=777; static void rcb(uint8_t *buf, size_t n, void *a){ for(size_t i=0;i<n;i++){ st=st*1103515245u+12345u; buf[i]=(st>>16)&0xff; } if(n==2){ unsigned v=buf[0]|(buf[1]<<8); if(v%P==0) buf[0]^=1; } }
int main(int argc,char**argv){ core_init(); rand_seed(rcb,NULL); P=atoll(argv[1]); A=P-1;
  bn_t bp; bn_new(bp); bnset(bp,P); fp_prime_set_dense(bp);
  for(D=2;D<P;D++){ if(mpow(D,(P-1)/2)==1) continue; /* d non-square */
    pt *pts=malloc(sizeof(pt)*2*P); int n=0; for(ll x=0;x<P;x++) for(ll y=0;y<P;y++) if(md(A*x%P*x+y*y)==md(1+D*x%P*x%P*y%P*y)){ pts[n].x=x;pts[n].y=y;n++; }
    int h=1,r=n; while(r%2==0){r/=2;h*=2;} int prime=1; for(int d=3;d*d<=r;d+=2) if(r%d==0) prime=0; if(!prime||h<4||r<100){ free(pts); continue; }
    printf("p=%lld a=-1 d=%lld order=%d = %d * %d\n",P,D,n,h,r);
    ctx_t *ctx=core_get(); fpset(ctx->ed_a,A); fpset(ctx->ed_d,D); bnset(&ctx->ed_r,r); bnset(&ctx->ed_h,h);
    pt g; for(int i=0;i<n;i++){ g=pmul(pts[i],h); if(!(g.x==0&&g.y==1)) break; }
    ed_t eg; edset(eg,g); ed_copy(&ctx->ed_g,eg);
    int ok=1; RLC_TRY{ ed_mul_pre((ed_t*)ed_curve_get_tab(),&ctx->ed_g);} RLC_CATCH_ANY{ok=0;} printf("pre ok=%d\n",ok);
    unsigned long bad[8]={0},cnt=0;
    for(int i=0;i<n;i++) for(int j=0;j<n;j++){ ed_t p,q,s; edset(p,pts[i]); edset(q,pts[j]); pt e=padd(pts[i],pts[j]);
      ed_add_basic(s,p,q); if(!edeq(s,e)) bad[0]++; ed_add_projc(s,p,q); if(!edeq(s,e)) bad[1]++; ed_add_extnd(s,p,q); if(!edeq(s,e)) bad[2]++;
      ed_t pp; ed_dbl_projc(pp,p); pt e2=padd(padd(pts[i],pts[i]),pts[j]); ed_add_projc(s,pp,q); if(!edeq(s,e2)) bad[3]++; ed_dbl_extnd(pp,p); ed_add_extnd(s,pp,q); if(!edeq(s,e2)) bad[4]++;
      if(!ed_on_curve(s)) bad[5]++; cnt++; }
    printf("add pairs=%lu bad basic=%lu projc=%lu extnd=%lu projc-mixed=%lu extnd-mixed=%lu oncurve=%lu\n",cnt,bad[0],bad[1],bad[2],bad[3],bad[4],bad[5]);
    unsigned long mb[8]={0},mc=0; ed_t p; edset(p,g);
    for(ll k=-2*r-3;k<=2*r+3;k++){ pt e=pmul(g,k); bn_t bk; bn_new(bk); bnset(bk,k); ed_t s;
      ed_mul_basic(s,p,bk); if(!edeq(s,e)){ if(!mb[0]) printf(" basic k=%lld\n",k); mb[0]++;} ed_mul_slide(s,p,bk); if(!edeq(s,e)){ if(!mb[1]) printf(" slide k=%lld\n",k); mb[1]++;}
      ed_mul_monty(s,p,bk); if(!edeq(s,e)){ if(!mb[2]) printf(" monty k=%lld\n",k); mb[2]++;} ed_mul_lwnaf(s,p,bk); if(!edeq(s,e)){ if(!mb[3]) printf(" lwnaf k=%lld\n",k); mb[3]++;}
      ed_mul_lwreg(s,p,bk); if(!edeq(s,e)){ if(!mb[4]) printf(" lwreg k=%lld\n",k); mb[4]++;} ed_mul_gen(s,bk); if(!edeq(s,e)){ if(!mb[5]) printf(" gen k=%lld\n",k); mb[5]++;} mc++; }
    printf("mul scalars=%lu bad basic=%lu slide=%lu monty=%lu lwnaf=%lu lwreg=%lu gen=%lu\n",mc,mb[0],mb[1],mb[2],mb[3],mb[4],mb[5]);
    break; }
  core_clean(); return 0; }
