#include <stdio.h>
#include "relic.h"
int main(void){ core_init(); ep_param_set(NIST_P256);
  ep_t g,r,t[RLC_EP_TABLE_MAX]; bn_t n,k; bn_new(n);bn_new(k); ep_curve_get_gen(g); ep_curve_get_ord(n);
  ep_mul_pre_lwnaf(t,g); ep_mul_fix_lwnaf(r,(const ep_t*)t,n); printf("fix_lwnaf [n]G is_infty=%d\n",ep_is_infty(r));
  bn_dbl(k,n); ep_mul_fix_lwnaf(r,(const ep_t*)t,k); printf("fix_lwnaf [2n]G is_infty=%d\n",ep_is_infty(r));
  ep_mul_pre_combs(t,g); ep_mul_fix_combs(r,(const ep_t*)t,n); printf("fix_combs [n]G is_infty=%d\n",ep_is_infty(r));
  ep_mul_lwnaf(r,g,n); printf("mul_lwnaf [n]G is_infty=%d\n",ep_is_infty(r));
  ep_mul_gen(r,n); printf("mul_gen [n]G is_infty=%d\n",ep_is_infty(r));
  bn_set_dig(k,1); bn_t m; bn_new(m); bn_set_dig(m,12345); fflush(stdout);
  ep_mul_sim_trick(r,g,k,g,m); printf("sim_trick ok\n");
  core_clean(); return 0; }
