#include <stdio.h>
#include "relic.h"
int main(void){ core_init();
 for(int type=1; type<=2; type++){
  ep_param_set(SM9_P256); 
  int ok=1; RLC_TRY{ ep2_curve_set_twist(type);} RLC_CATCH_ANY{ok=0;}
  g1_t p; g2_t q; gt_t e1,e2; bn_t a,b,n; bn_new(a);bn_new(b);bn_new(n);
  g1_get_gen(p); g2_get_gen(q); printf("type=%d ok=%d g2 on curve=%d g2 valid=%d g1 valid=%d\n",type,ok,g2_on_curve(q),g2_is_valid(q),g1_is_valid(p));
  pc_get_ord(n); bn_set_dig(a,12345); bn_set_dig(b,6789);
  g1_t pa; g2_t qb; g1_mul(pa,p,a); g2_mul(qb,q,b); pc_map(e1,pa,qb); pc_map(e2,p,q); bn_mul(a,a,b); gt_exp(e2,e2,a);
  printf("  bilinear=%d unity=%d  is_typeb? pairf=%d\n", gt_cmp(e1,e2)==RLC_EQ, gt_is_unity(e1), ep_curve_is_pairf());
  gt_exp(e1,e1,n); printf("  e^r==1: %d\n", gt_is_unity(e1));
 }
 core_clean(); return 0; }
