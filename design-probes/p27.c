#include <stdio.h>
#include <string.h>
#include <stdlib.h>
#include <openssl/evp.h>
#include <openssl/hmac.h>
#include "relic.h"
static int dg(const char*n,const uint8_t*m,size_t l,uint8_t*o){ unsigned ol=0; const EVP_MD*md=EVP_get_digestbyname(n); if(!md) return -1; EVP_Digest(m,l,o,&ol,md,NULL); return ol; }
static void ref_kdf(uint8_t*out,size_t n,const uint8_t*in,size_t l,uint32_t start){ uint8_t buf[600],h[32]; memcpy(buf,in,l); size_t off=0; for(uint32_t c=start; off<n; c++){ buf[l]=c>>24;buf[l+1]=c>>16;buf[l+2]=c>>8;buf[l+3]=c; dg("SHA256",buf,l+4,h); size_t m=n-off<32?n-off:32; memcpy(out+off,h,m); off+=m; } }
static void ref_xmd(uint8_t*out,size_t n,const uint8_t*msg,size_t ml,const uint8_t*dst,size_t dl){ /* RFC 9380 5.3.1 SHA-256 */
  uint8_t buf[2000],b0[32],bi[32]; size_t ell=(n+31)/32, p=0; memset(buf,0,64); p=64; memcpy(buf+p,msg,ml); p+=ml; buf[p++]=n>>8; buf[p++]=n; buf[p++]=0; memcpy(buf+p,dst,dl); p+=dl; buf[p++]=dl; dg("SHA256",buf,p,b0);
  p=0; memcpy(buf,b0,32); p=32; buf[p++]=1; memcpy(buf+p,dst,dl); p+=dl; buf[p++]=dl; dg("SHA256",buf,p,bi); size_t off=0; for(size_t i=1;i<=ell;i++){ size_t m=n-off<32?n-off:32; memcpy(out+off,bi,m); off+=m; if(i==ell) break; uint8_t t[32]; for(int j=0;j<32;j++) t[j]=b0[j]^bi[j]; p=0; memcpy(buf,t,32); p=32; buf[p++]=i+1; memcpy(buf+p,dst,dl); p+=dl; buf[p++]=dl; dg("SHA256",buf,p,bi); } }
int main(void){ core_init(); uint8_t msg[1200], a[64], b[64]; unsigned long bad[12]={0}, n=0;
  for(int pat=0;pat<3;pat++){ for(int i=0;i<1200;i++) msg[i]=pat==0?0:pat==1?0xff:(uint8_t)(i*7+1);
   for(size_t l=0;l<=300;l++){ n++;
    md_map_sh224(a,msg,l); dg("SHA224",msg,l,b); if(memcmp(a,b,28)) bad[0]++;
    md_map_sh256(a,msg,l); dg("SHA256",msg,l,b); if(memcmp(a,b,32)) bad[1]++;
    md_map_sh384(a,msg,l); dg("SHA384",msg,l,b); if(memcmp(a,b,48)) bad[2]++;
    md_map_sh512(a,msg,l); dg("SHA512",msg,l,b); if(memcmp(a,b,64)) bad[3]++;
    md_map_b2s256(a,msg,l); if(dg("BLAKE2s256",msg,l,b)==32 && memcmp(a,b,32)) bad[4]++;
    for(size_t kl=0;kl<=130;kl+= (kl<70?1:13)){ unsigned ol; HMAC(EVP_sha256(),msg+300,kl,msg,l>150?150:l,b,&ol); md_hmac(a,msg,l>150?150:l,msg+300,kl); if(memcmp(a,b,32)){ if(!bad[5]) printf("hmac first bad kl=%zu l=%zu\n",kl,l); bad[5]++; } if(l>150) break; }
    if(l<=130){ uint8_t o1[140],o2[140]; size_t ins[]={0,1,32,55,56,64,100}; for(int k=0;k<7;k++){ memset(o1,0xA5,140); md_kdf(o1,l,msg,ins[k]); ref_kdf(o2,l,msg,ins[k],1); if(memcmp(o1,o2,l)||o1[l]!=0xA5) bad[6]++; memset(o1,0xA5,140); md_mgf(o1,l,msg,ins[k]); ref_kdf(o2,l,msg,ins[k],0); if(memcmp(o1,o2,l)||o1[l]!=0xA5) bad[7]++; } }
    if(l>=1&&l<=200){ uint8_t o1[210],o2[210]; size_t dls[]={0,1,16,43,255}; for(int k=0;k<5;k++){ memset(o1,0xA5,210); int th=0; RLC_TRY{ md_xmd_sh256(o1,l,msg,l%77,msg+500,dls[k]); } RLC_CATCH_ANY{th=1;} ref_xmd(o2,l,msg,l%77,msg+500,dls[k]); if(th||memcmp(o1,o2,l)||o1[l]!=0xA5){ if(!bad[8]) printf("xmd first bad outlen=%zu dst=%zu thrown=%d\n",l,dls[k],th); bad[8]++; } } }
   } }
  /* AES-CBC */ uint8_t key[32], iv[16], ct[200], ct2[200], pt[200]; for(int i=0;i<32;i++) key[i]=i*3+1; for(int i=0;i<16;i++) iv[i]=0xF0+i;
  int ks[]={16,24,32}; for(int k=0;k<3;k++) for(size_t l=0;l<=80;l++){ size_t ol=200; int r=bc_aes_cbc_enc(ct,&ol,msg+10,l,key,ks[k],iv); EVP_CIPHER_CTX*c=EVP_CIPHER_CTX_new(); const EVP_CIPHER*ci=ks[k]==16?EVP_aes_128_cbc():ks[k]==24?EVP_aes_192_cbc():EVP_aes_256_cbc(); int o1=0,o2=0; EVP_EncryptInit_ex(c,ci,NULL,key,iv); EVP_EncryptUpdate(c,ct2,&o1,msg+10,l); EVP_EncryptFinal_ex(c,ct2+o1,&o2); EVP_CIPHER_CTX_free(c);
     if(r!=RLC_OK||ol!=(size_t)(o1+o2)||memcmp(ct,ct2,ol)){ if(!bad[9]) printf("aes enc first bad key=%d len=%zu r=%d ol=%zu vs %d\n",ks[k],l,r,ol,o1+o2); bad[9]++; }
     size_t pl=200; r=bc_aes_cbc_dec(pt,&pl,ct2,o1+o2,key,ks[k],iv); if(r!=RLC_OK||pl!=l||memcmp(pt,msg+10,l)){ if(!bad[10]) printf("aes dec first bad key=%d len=%zu r=%d pl=%zu\n",ks[k],l,r,pl); bad[10]++; } }
  printf("lengths*patterns=%lu bad: sh224=%lu sh256=%lu sh384=%lu sh512=%lu b2s256=%lu hmac=%lu kdf=%lu mgf=%lu xmd=%lu aes_enc=%lu aes_dec=%lu\n",n,bad[0],bad[1],bad[2],bad[3],bad[4],bad[5],bad[6],bad[7],bad[8],bad[9],bad[10]); core_clean(); return 0; }
