/*
 * vf_relic.h -- relic <-> GMP glue through RAW fields (dp/used/sign, field digits), so that the
 * codecs and conversions under test are never part of the oracle path.
 */
#ifndef VF_RELIC_H
#define VF_RELIC_H

#include "relic.h"
#include "vf.h"

#define VF_DIGB ((int)(8 * sizeof(dig_t)))

/* ---- bn ---- */
/* Sets b from z by writing the representation directly. Returns 0 if z does not fit the precision. */
static int vf_bn_set(bn_t b, const mpz_t z) {
	size_t n = mpz_sgn(z) ? (mpz_sizeinbase(z, 2) + (size_t)VF_DIGB - 1) / (size_t)VF_DIGB : 1;
	if (n > (size_t)RLC_BN_SIZE) return 0;
	bn_grow(b, n);
	size_t cnt = 0;
	memset(b->dp, 0, n * sizeof(dig_t));
	mpz_export(b->dp, &cnt, -1, sizeof(dig_t), 0, 0, z);
	b->used = (int)(cnt ? cnt : 1);
	b->sign = mpz_sgn(z) < 0 ? RLC_NEG : RLC_POS;
	return 1;
}
static void vf_bn_get(mpz_t z, const bn_t b) {
	mpz_import(z, (size_t)b->used, -1, sizeof(dig_t), 0, 0, b->dp);
	if (b->sign == RLC_NEG) mpz_neg(z, z);
}
/* Normal form: used >= 1, no leading zero digit unless value 0 (used == 1), zero is non-negative. */
static int vf_bn_normal(const bn_t b) {
	if (b->used < 1) return 0;
	if (b->used > 1 && b->dp[b->used - 1] == 0) return 0;
	if (b->used == 1 && b->dp[0] == 0 && b->sign != RLC_POS) return 0;
	if (b->sign != RLC_POS && b->sign != RLC_NEG) return 0;
#if ALLOC == AUTO
	if (b->used > RLC_BN_SIZE) return 0;
#else
	if ((size_t)b->used > (size_t)b->alloc) return 0;
#endif
	return 1;
}
/* Poison the digits above `used` (they are unspecified by the representation invariant). */
static void vf_bn_poison(bn_t b, int pat) {
#if ALLOC == AUTO
	for (int i = b->used; i < RLC_BN_SIZE; i++) b->dp[i] = (dig_t)(pat ? ~(dig_t)0 / 255 * 0xA5 : 0);
#else
	for (size_t i = (size_t)b->used; i < (size_t)b->alloc; i++) b->dp[i] = (dig_t)(pat ? ~(dig_t)0 / 255 * 0xA5 : 0);
#endif
}

/* ---- fp ---- */
static mpz_t vf_p, vf_R, vf_Rinv;
static int vf_fp_inited = 0;
/* Re-read the active prime (raw digits) and recompute R, R^-1 with GMP. Call after every prime change. */
static void vf_fp_sync(void) {
	if (!vf_fp_inited) { mpz_inits(vf_p, vf_R, vf_Rinv, NULL); vf_fp_inited = 1; }
	mpz_import(vf_p, RLC_FP_DIGS, -1, sizeof(dig_t), 0, 0, fp_prime_get());
	mpz_set_ui(vf_R, 1);
#if FP_RDC == MONTY
	mpz_mul_2exp(vf_R, vf_R, (unsigned long)RLC_FP_DIGS * (unsigned long)VF_DIGB);
	mpz_mod(vf_R, vf_R, vf_p);
#endif
	if (mpz_cmp_ui(vf_p, 1) > 0 && mpz_invert(vf_Rinv, vf_R, vf_p) == 0) mpz_set_ui(vf_Rinv, 0);
}
/* raw digits as an integer (no conversion) */
static void vf_fp_raw(mpz_t z, const fp_t a) { mpz_import(z, RLC_FP_DIGS, -1, sizeof(dig_t), 0, 0, a); }
static void vf_fp_set_raw(fp_t a, const mpz_t z) {
	size_t cnt = 0; memset(a, 0, RLC_FP_DIGS * sizeof(dig_t));
	mpz_export(a, &cnt, -1, sizeof(dig_t), 0, 0, z);
}
/* a := residue z (any integer), injected in the internal representation computed by GMP */
static void vf_fp_set(fp_t a, const mpz_t z) {
	mpz_t t; mpz_init(t);
	mpz_mul(t, z, vf_R); mpz_mod(t, t, vf_p);
	vf_fp_set_raw(a, t);
	mpz_clear(t);
}
/* z := residue represented by a; returns 1 iff the raw representation is canonical (< p) */
static int vf_fp_get(mpz_t z, const fp_t a) {
	vf_fp_raw(z, a);
	int canon = mpz_cmp(z, vf_p) < 0;
	mpz_mul(z, z, vf_Rinv); mpz_mod(z, z, vf_p);
	return canon;
}

/* ---- misc ---- */
/* deterministic RNG callback for RAND=CALL worlds: LCG; never yields an all-zero block */
static unsigned vf_lcg = 12345;
static void vf_rand_cb(uint8_t *buf, size_t n, void *arg) {
	(void)arg; int nz = 0;
	for (size_t i = 0; i < n; i++) { vf_lcg = vf_lcg * 1103515245u + 12345u; buf[i] = (uint8_t)(vf_lcg >> 16); nz |= buf[i]; }
	if (n && !nz) buf[0] = 1;
}
/* Re-seed whatever generator the world has, identically (so randomised internals are a function of the case). */
static void vf_reseed(void) {
#if RAND == CALL
	vf_lcg = 12345; rand_seed(vf_rand_cb, NULL);
#else
	static uint8_t seed[64]; for (int i = 0; i < 64; i++) seed[i] = (uint8_t)(i * 7 + 1);
	core_get()->seeded = 0; rand_seed(seed, sizeof seed);
#endif
}

/* Run `stmt` under RLC_TRY; thrown = 1 if it raised. Clears the sticky code afterwards. */
/* thrown := 0, or the error code delivered to this handler (ERR_CAUGHT when an inner handler swallowed it) */
/* Every library call of a harness goes through VF_TRY. Besides catching, it checks a context invariant the error
 * mechanism relies on: when the call returns normally, the innermost try frame must again be the caller's (here: ours);
 * a callee that leaves its own RLC_TRY block by `return` keeps ctx->last pointing into its dead stack frame, and the
 * next throw jumps through it (memory-safety: counted by C08's re-runs too). */
static int vf_ctx_dangling = 0;
#define VF_TRY(thrown, stmt) do { err_t vf_e_ = (err_t)0; thrown = 0; RLC_TRY { stmt; if (core_get()->last != &_this) { vf_ctx_dangling++; core_get()->last = &_this; } } RLC_CATCH(vf_e_) { thrown = vf_e_ ? (int)vf_e_ : (int)ERR_CAUGHT; } core_get()->code = RLC_OK; \
	if (vf_ctx_dangling) { vf_ctx_dangling = 0; vf_fail(NULL, "dangling error context: the call returned with ctx->last pointing into its own dead stack frame, outside any live try block (%s)", #stmt); } } while (0)

/* Error *printing* (message + backtrace_symbols on every throw) is not part of any property and costs
 * ~100 us per throw; harnesses are linked with -Wl,--wrap=err_full_msg,--wrap=err_simple_msg. */
static __thread unsigned long long vf_throws = 0; /* per thread: the error hooks run in whichever thread throws */
void __wrap_err_full_msg(const char *function, const char *file, int line, int error) {
	(void)function; (void)file; (void)line; (void)error; vf_throws++;
}
void __wrap_err_simple_msg(int error) { (void)error; vf_throws++; }

static void vf_set_si(vf_case *c, int i, long x) { mpz_set_si(c->v[i], x); }

#endif
