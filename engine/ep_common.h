/*
 * ep_common.h -- shared by the prime-curve harnesses (C03, C07, C13, C20): tiny curves found by reference
 * point counting, curve installation, point injection / extraction through raw coordinates.
 */
#ifndef EP_COMMON_H
#define EP_COMMON_H
#include "vf_relic.h"
#include "ref_ec.h"

#define MAXCURVES 16
typedef struct { long p, a, b; int endom; long order, r, h; long gx, gy; long beta, lambda; const char *name; } tiny_curve;
static tiny_curve TC[MAXCURVES];
static int ntc = 0;

static rcurve RC;          /* active curve, reference side */
static rpt RG;             /* generator */
static mpz_t RN, RH;       /* subgroup order, cofactor */
static long cur_cid = -1;
static int cur_endom = 0;
static unsigned long long transitions = 0;
static mpz_t zt, zu;
static const int tiny = (WSIZE != 64);

/* ---------------------------------------------------------------- tiny curve generation (reference only) */
static long modl(long x, long p) { x %= p; return x < 0 ? x + p : x; }
static long count_points(long p, long a, long b, signed char *leg) {
	long n = 1;
	for (long x = 0; x < p; x++) { long v = (long)(((__int128)x * x % p * x + (__int128)modl(a, p) * x + b) % p); n += 1 + leg[v]; }
	return n;
}
static int isprime_l(long n) { if (n < 2) return 0; for (long d = 2; d * d <= n; d++) if (n % d == 0) return 0; return 1; }
static long powl_(long b, long e, long p) { __int128 r = 1, x = b % p; while (e) { if (e & 1) r = r * x % p; x = x * x % p; e >>= 1; } return (long)r; }
static long sqrtl_(long v, long p) { for (long y = 0; y <= p / 2; y++) if ((__int128)y * y % p == v) return y; return -1; }

static int find_soft = 0; /* set: find_curve returns without a new entry instead of exiting */
/* kind: 0 prime order; 1 order = 2 * prime or 4 * prime (has a point with y = 0); want16: order must have the bit length of p */
static void find_curve(const char *name, long p, long a, int endom, int kind, int samelen) {
	signed char *leg = malloc((size_t)p);
	for (long v = 0; v < p; v++) leg[v] = (signed char)(v == 0 ? 0 : (powl_(v, (p - 1) / 2, p) == 1 ? 1 : -1));
	int plen = 0; for (long t = p; t; t >>= 1) plen++;
	for (long b = 1; b < p; b++) {
		if (modl(4 * modl(a, p) % p * modl(a, p) % p * modl(a, p) + 27 * b % p * b, p) == 0) continue;
		long n = count_points(p, a, b, leg), r = n, h = 1;
		if (kind == 0) { if (!isprime_l(n)) continue; }
		else { if (n % 4 == 0 && isprime_l(n / 4)) { r = n / 4; h = 4; } else if (n % 2 == 0 && isprime_l(n / 2)) { r = n / 2; h = 2; } else continue; }
		int rlen = 0; for (long t = r; t; t >>= 1) rlen++;
		if (samelen && rlen != plen) continue;
		tiny_curve *c = &TC[ntc]; memset(c, 0, sizeof *c);
		c->name = name; c->p = p; c->a = modl(a, p); c->b = b; c->endom = endom; c->order = n; c->r = r; c->h = h;
		/* generator: first point (smallest x) whose h-multiple is not the identity */
		rcurve rc; rcurve_init(&rc); mpz_set_si(rc.p, p); mpz_set_si(rc.a, c->a); mpz_set_si(rc.b, b);
		rpt g, t; rpt_init(&g); rpt_init(&t); mpz_t hh; mpz_init_set_si(hh, h);
		int ok = 0;
		for (long x = 0; x < p && !ok; x++) { long v = (long)(((__int128)x * x % p * x + (__int128)c->a * x + b) % p); if (leg[v] != 1) continue; long y = sqrtl_(v, p);
			mpz_set_si(g.x, x); mpz_set_si(g.y, y); g.inf = 0; rpt_mul(&rc, &t, &g, hh); if (t.inf) continue; c->gx = mpz_get_si(t.x); c->gy = mpz_get_si(t.y); ok = 1; }
		if (!ok) continue;
		if (endom) {
			/* beta: primitive cube root of unity in F_p; lambda: the root of l^2 + l + 1 mod r with [lambda]G = (beta x, y) */
			long beta = 0; for (long t2 = 2; t2 < p; t2++) if (powl_(t2, 3, p) == 1) { beta = t2; break; }
			long lam = 0; mpz_t l; mpz_init(l);
			mpz_set_si(g.x, c->gx); mpz_set_si(g.y, c->gy); g.inf = 0;
			for (long t2 = 2; t2 < r; t2++) if (((__int128)t2 * t2 + t2 + 1) % r == 0) { mpz_set_si(l, t2); rpt_mul(&rc, &t, &g, l); if (!t.inf && mpz_get_si(t.x) == (long)((__int128)beta * c->gx % p) && mpz_get_si(t.y) == c->gy) { lam = t2; break; } }
			mpz_clear(l);
			if (!lam) continue;
			c->beta = beta; c->lambda = lam;
		}
		ntc++; free(leg); return;
	}
	free(leg);
	if (find_soft) return;
	fprintf(stderr, "no tiny curve found for %s\n", name); exit(2);
}

/* finds the standard table of tiny curves (ids 0..7) */
static void tiny_curves_setup(void) {
	rcurve_init(&RC); rpt_init(&RG); mpz_inits(RN, RH, zt, zu, NULL);
	if (tiny) {
		find_curve("T1 p=1019 a=-3 prime order", 1019, -3, 0, 0, 0);          /* 0: complete Cayley table */
		find_curve("T2 p=65519 a=-3 prime order", 65519, -3, 0, 0, 1);        /* 1: every scalar */
		find_curve("T3 p=65521 a=0 GLV prime order", 65521, 0, 1, 0, 1);      /* 2: endomorphism curve */
		find_curve("T4 p=65519 a=5 generic prime order", 65519, 5, 0, 0, 1);  /* 3 */
		find_curve("T5 p=1009 a=1 prime order", 1009, 1, 0, 0, 0);            /* 4: opt_a ONE */
		find_curve("T6 p=1019 a=-3 cofactor 2/4", 1019, -3, 0, 1, 0);         /* 5: points of order two */
		find_curve("T7 p=1013 a=2 cofactor", 1013, 2, 0, 1, 0);               /* 6 */
		find_curve("T8 p=1009 a=0 GLV prime order", 1009, 0, 1, 0, 0);        /* 7: small endomorphism curve, complete table */
		for (int i = 0; i < ntc; i++) printf("@INFO curve %d: %s b=%ld order=%ld r=%ld h=%ld G=(%ld,%ld) beta=%ld lambda=%ld\n", i, TC[i].name, TC[i].b, TC[i].order, TC[i].r, TC[i].h, TC[i].gx, TC[i].gy, TC[i].beta, TC[i].lambda);
	}
}

/* ---------------------------------------------------------------- glue */
#define REP_AFF 0
#define REP_PRJ 1
#define REP_JAC 2
static void ep_inject(ep_t e, const rpt *p, int rep, unsigned long lam) {
	if (p->inf) { ep_set_infty(e); if (rep == REP_PRJ) e->coord = PROJC; else if (rep == REP_JAC) e->coord = JACOB; return; }
	mpz_t l, t; mpz_init_set_ui(l, lam); mpz_init(t);
	if (rep == REP_AFF) { vf_fp_set(e->x, p->x); vf_fp_set(e->y, p->y); mpz_set_ui(t, 1); vf_fp_set(e->z, t); e->coord = BASIC; }
	else if (rep == REP_PRJ) { mpz_mul(t, p->x, l); vf_fp_set(e->x, t); mpz_mul(t, p->y, l); vf_fp_set(e->y, t); vf_fp_set(e->z, l); e->coord = PROJC; }
	else { mpz_mul(t, l, l); mpz_mul(t, t, p->x); vf_fp_set(e->x, t); mpz_mul(t, l, l); mpz_mul(t, t, l); mpz_mul(t, t, p->y); vf_fp_set(e->y, t); vf_fp_set(e->z, l); e->coord = JACOB; }
	mpz_clears(l, t, NULL);
}
/* read a point by its coordinate-system flag, using GMP only. Returns 0 if a coordinate is not canonical. */
static int ep_extract(rpt *r, const ep_t e) {
	mpz_t x, y, z, zi; mpz_inits(x, y, z, zi, NULL);
	int ok = vf_fp_get(x, e->x) & vf_fp_get(y, e->y) & vf_fp_get(z, e->z);
	if (mpz_sgn(z) == 0) rpt_set_inf(r);
	else {
		mpz_invert(zi, z, vf_p);
		if (e->coord == PROJC) { mpz_mul(x, x, zi); mpz_mul(y, y, zi); }
		else if (e->coord == JACOB) { mpz_mul(x, x, zi); mpz_mul(x, x, zi); mpz_mul(y, y, zi); mpz_mul(y, y, zi); mpz_mul(y, y, zi); }
		else if (mpz_cmp_ui(z, 1) != 0) ok = 0;
		mpz_mod(r->x, x, vf_p); mpz_mod(r->y, y, vf_p); r->inf = 0;
	}
	mpz_clears(x, y, z, zi, NULL);
	return ok;
}
static void pt_from_args(rpt *p, const mpz_t x, const mpz_t y) { if (mpz_sgn(x) < 0) rpt_set_inf(p); else { mpz_set(p->x, x); mpz_set(p->y, y); p->inf = 0; } }

static int select_curve(long cid) {
	if (cid == cur_cid) return 1;
	int th;
	cur_cid = -1;
	if (tiny) {
		if (cid < 0 || cid >= ntc) return 0;
		tiny_curve *c = &TC[cid];
		bn_t p, r, h, l; bn_new(p); bn_new(r); bn_new(h); bn_new(l);
		mpz_set_si(zt, c->p); vf_bn_set(p, zt);
		VF_TRY(th, fp_prime_set_dense(p)); if (th) return 0;
		vf_fp_sync();
		fp_t a, b, beta; ep_t g; fp_new(a); fp_new(b); fp_new(beta); ep_new(g);
		mpz_set_si(zt, c->a); vf_fp_set(a, zt); mpz_set_si(zt, c->b); vf_fp_set(b, zt);
		rpt G; rpt_init(&G); mpz_set_si(G.x, c->gx); mpz_set_si(G.y, c->gy); G.inf = 0; ep_inject(g, &G, REP_AFF, 1);
		mpz_set_si(zt, c->r); vf_bn_set(r, zt); mpz_set_si(zt, c->h); vf_bn_set(h, zt);
		vf_reseed();
		if (c->endom) { mpz_set_si(zt, c->beta); vf_fp_set(beta, zt); mpz_set_si(zt, c->lambda); vf_bn_set(l, zt); VF_TRY(th, ep_curve_set_endom(a, b, g, r, h, beta, l, 0)); }
		else VF_TRY(th, ep_curve_set_plain(a, b, g, r, h, 0));
		if (th) return 0;
		mpz_set_si(RC.p, c->p); mpz_set_si(RC.a, c->a); mpz_set_si(RC.b, c->b); rpt_set(&RG, &G); mpz_set_si(RN, c->r); mpz_set_si(RH, c->h);
		cur_endom = c->endom;
	} else {
		VF_TRY(th, ep_param_set((int)cid)); if (th) return 0;
		vf_fp_sync();
		ctx_t *ctx = core_get();
		mpz_set(RC.p, vf_p); vf_fp_get(RC.a, ctx->ep_a); vf_fp_get(RC.b, ctx->ep_b);
		ep_t g; ep_new(g); ep_curve_get_gen(g); ep_extract(&RG, g);
		vf_bn_get(RN, &ctx->ep_r); vf_bn_get(RH, &ctx->ep_h);
		cur_endom = ep_curve_is_endom();
		if (!rpt_on_curve(&RC, &RG)) return 0;
	}
	cur_cid = cid;
	return 1;
}

static void expect_pt(const char *what, const ep_t got, const rpt *exp, int must_norm, const char *kf) {
	rpt r; rpt_init(&r);
	transitions++;
	int canon = ep_extract(&r, got);
	if (!rpt_eq(&r, exp)) { char b[900]; gmp_snprintf(b, sizeof b, "%s: expected %s(%Zx,%Zx) got %s(%Zx,%Zx)", what, exp->inf ? "INF" : "", exp->x, exp->y, r.inf ? "INF" : "", r.x, r.y); vf_fail(kf, "%s", b); }
	else if (!canon) vf_fail(kf, "%s: a coordinate is not canonical (>= p) or affine point with z != 1", what);
	else if (must_norm && !r.inf && got->coord != BASIC) vf_fail(kf, "%s: result not normalised (coord=%d)", what, got->coord);
	rpt_clear(&r);
}


#endif
