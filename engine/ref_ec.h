/*
 * ref_ec.h -- reference model: affine chord-and-tangent law on y^2 = x^3 + a x + b over F_p (GMP).
 * Plain integer scalars: [k]P by double-and-add on |k|, negative k = -[|k|]P, no reduction assumed.
 * Never calls relic.
 */
#ifndef REF_EC_H
#define REF_EC_H
#include <gmp.h>

typedef struct { mpz_t x, y; int inf; } rpt;
typedef struct { mpz_t p, a, b; } rcurve;

static void rpt_init(rpt *r) { mpz_init(r->x); mpz_init(r->y); r->inf = 1; }
static void rpt_clear(rpt *r) { mpz_clear(r->x); mpz_clear(r->y); }
static void rpt_set(rpt *r, const rpt *p) { mpz_set(r->x, p->x); mpz_set(r->y, p->y); r->inf = p->inf; }
static void rpt_set_inf(rpt *r) { mpz_set_ui(r->x, 0); mpz_set_ui(r->y, 0); r->inf = 1; }
static int rpt_eq(const rpt *p, const rpt *q) { if (p->inf || q->inf) return p->inf && q->inf; return !mpz_cmp(p->x, q->x) && !mpz_cmp(p->y, q->y); }
static void rcurve_init(rcurve *c) { mpz_init(c->p); mpz_init(c->a); mpz_init(c->b); }

static int rpt_on_curve(const rcurve *c, const rpt *p) {
	if (p->inf) return 1;
	mpz_t l, r; mpz_inits(l, r, NULL);
	mpz_mul(l, p->y, p->y); mpz_mod(l, l, c->p);
	mpz_mul(r, p->x, p->x); mpz_add(r, r, c->a); mpz_mul(r, r, p->x); mpz_add(r, r, c->b); mpz_mod(r, r, c->p);
	int ok = mpz_cmp(l, r) == 0; mpz_clears(l, r, NULL); return ok;
}
static void rpt_neg(const rcurve *c, rpt *r, const rpt *p) {
	rpt_set(r, p); if (!r->inf && mpz_sgn(r->y)) mpz_sub(r->y, c->p, r->y);
}
/* r = p + q (r may alias p or q) */
static void rpt_add(const rcurve *c, rpt *r, const rpt *p, const rpt *q) {
	if (p->inf) { rpt_set(r, q); return; }
	if (q->inf) { rpt_set(r, p); return; }
	mpz_t l, t, x3, y3; mpz_inits(l, t, x3, y3, NULL);
	if (mpz_cmp(p->x, q->x) == 0) {
		mpz_add(t, p->y, q->y); mpz_mod(t, t, c->p);
		if (mpz_sgn(t) == 0) { rpt_set_inf(r); mpz_clears(l, t, x3, y3, NULL); return; }
		/* doubling: l = (3 x^2 + a) / (2 y) */
		mpz_mul(l, p->x, p->x); mpz_mul_ui(l, l, 3); mpz_add(l, l, c->a);
		mpz_mul_2exp(t, p->y, 1); mpz_invert(t, t, c->p); mpz_mul(l, l, t); mpz_mod(l, l, c->p);
	} else {
		mpz_sub(l, q->y, p->y); mpz_sub(t, q->x, p->x); mpz_mod(t, t, c->p); mpz_invert(t, t, c->p); mpz_mul(l, l, t); mpz_mod(l, l, c->p);
	}
	mpz_mul(x3, l, l); mpz_sub(x3, x3, p->x); mpz_sub(x3, x3, q->x); mpz_mod(x3, x3, c->p);
	mpz_sub(y3, p->x, x3); mpz_mul(y3, y3, l); mpz_sub(y3, y3, p->y); mpz_mod(y3, y3, c->p);
	mpz_set(r->x, x3); mpz_set(r->y, y3); r->inf = 0;
	mpz_clears(l, t, x3, y3, NULL);
}
/* r = [k]p for any integer k */
static void rpt_mul(const rcurve *c, rpt *r, const rpt *p, const mpz_t k) {
	rpt acc, base; rpt_init(&acc); rpt_init(&base); rpt_set(&base, p);
	mpz_t a; mpz_init(a); mpz_abs(a, k);
	size_t n = mpz_sgn(a) ? mpz_sizeinbase(a, 2) : 0;
	for (size_t i = n; i-- > 0;) { rpt_add(c, &acc, &acc, &acc); if (mpz_tstbit(a, i)) rpt_add(c, &acc, &acc, &base); }
	if (mpz_sgn(k) < 0) rpt_neg(c, &acc, &acc);
	mpz_clear(a);
	rpt_set(r, &acc); rpt_clear(&acc); rpt_clear(&base);
}
/* y^2 = rhs(x): returns 1 and a root in y if rhs is a square (p odd prime), brute-force free (uses mpz powm / Tonelli) */
static int ref_sqrt_mod(mpz_t y, const mpz_t v, const mpz_t p) {
	mpz_t a; mpz_init(a); mpz_mod(a, v, p);
	if (mpz_sgn(a) == 0) { mpz_set_ui(y, 0); mpz_clear(a); return 1; }
	if (mpz_jacobi(a, p) != 1) { mpz_clear(a); return 0; }
	mpz_t q, z, c, t, r, b, e; mpz_inits(q, z, c, t, r, b, e, NULL);
	mpz_sub_ui(q, p, 1); unsigned long s = mpz_scan1(q, 0); mpz_fdiv_q_2exp(q, q, s);
	mpz_set_ui(z, 2); while (mpz_jacobi(z, p) != -1) mpz_add_ui(z, z, 1);
	mpz_powm(c, z, q, p); mpz_add_ui(e, q, 1); mpz_fdiv_q_2exp(e, e, 1); mpz_powm(r, a, e, p); mpz_powm(t, a, q, p);
	unsigned long m = s;
	while (mpz_cmp_ui(t, 1) != 0) {
		unsigned long i = 0; mpz_set(b, t); while (mpz_cmp_ui(b, 1) != 0) { mpz_mul(b, b, b); mpz_mod(b, b, p); i++; }
		mpz_set(b, c); for (unsigned long j = 0; j + i + 1 < m; j++) { mpz_mul(b, b, b); mpz_mod(b, b, p); }
		mpz_mul(r, r, b); mpz_mod(r, r, p); mpz_mul(c, b, b); mpz_mod(c, c, p); mpz_mul(t, t, c); mpz_mod(t, t, p); m = i;
	}
	mpz_set(y, r);
	mpz_clears(a, q, z, c, t, r, b, e, NULL); return 1;
}
/* lift x to a curve point if possible (the root with the smaller integer value) */
static int rpt_lift_x(const rcurve *c, rpt *r, const mpz_t x) {
	mpz_t v; mpz_init(v);
	mpz_mul(v, x, x); mpz_add(v, v, c->a); mpz_mul(v, v, x); mpz_add(v, v, c->b); mpz_mod(v, v, c->p);
	int ok = ref_sqrt_mod(r->y, v, c->p);
	if (ok) { mpz_mod(r->x, x, c->p); r->inf = 0; mpz_sub(v, c->p, r->y); if (mpz_cmp(v, r->y) < 0) mpz_set(r->y, v); }
	mpz_clear(v); return ok;
}
#endif
