/*
 * ep2_common.h -- shared by the harnesses that touch curves over F_p^2 (C11, C12, C04, C13, C18): learning the
 * quadratic non-residue, tiny curves over F_p^2 found by reference point counting (installed via ep2_curve_set),
 * W64 twist selection, point injection / extraction through raw coordinates.
 * An F_p^2 element travels in a case argument as a + b * 2^F2BITS; the point at infinity as x = -1.
 */
#ifndef EP2_COMMON_H
#define EP2_COMMON_H
#include "ep_common.h"
#include "ref_ec2.h"

static rcurve2 RC2; static rpt2 RG2; static mpz_t RN2, RH2; /* active curve over F_p^2, generator, subgroup order, cofactor */
static long cur_cid2 = -1; static int F2BITS;
static mpz_t cur_beta_p;

static void f2_unpack(f2 *r, const mpz_t v) { mpz_fdiv_r_2exp(r->a, v, (unsigned long)F2BITS); mpz_fdiv_q_2exp(r->b, v, (unsigned long)F2BITS); }
static void f2_pack(mpz_t v, const f2 *x) { mpz_mul_2exp(v, x->b, (unsigned long)F2BITS); mpz_add(v, v, x->a); }
static void pt2_from_args(rpt2 *p, const mpz_t x, const mpz_t y) { if (mpz_sgn(x) < 0) rpt2_set_inf(p); else { f2_unpack(&p->x, x); f2_unpack(&p->y, y); p->inf = 0; } }
static void vf_fp2_set(fp2_t e, const f2 *x) { vf_fp_set(e[0], x->a); vf_fp_set(e[1], x->b); }
static int vf_fp2_get(f2 *x, const fp2_t e) { return vf_fp_get(x->a, e[0]) & vf_fp_get(x->b, e[1]); }

/* u^2 as the library computes it; must be a non-residue of F_p (validated) */
static int learn_beta(void) {
	f2_setup(); mpz_set(F2P, vf_p);
	if (!mpz_cmp(cur_beta_p, vf_p)) return 1;
	fp2_t u, s; fp2_new(u); fp2_new(s); f2 U, S; f2_init(&U); f2_init(&S); f2_set_si(&U, 0, 1); vf_fp2_set(u, &U);
	int th; VF_TRY(th, fp2_mul_basic(s, u, u)); if (th) return 0;
	vf_fp2_get(&S, s); if (mpz_sgn(S.b)) return 0;
	mpz_set(F2BETA, S.a); if (mpz_jacobi(F2BETA, F2P) != -1) return 0;
	mpz_set(cur_beta_p, vf_p); f2_clear(&U); f2_clear(&S); return 1;
}

/* ---------------------------------------------------------------- tiny curves over F_p^2 (reference only, long arithmetic) */
typedef struct { long p, beta; long a0, a1, b0, b1; long order, r, h; long gx0, gx1, gy0, gy1; int base; const char *name; } tiny_curve2;
#define MAXC2 16
static tiny_curve2 TC2[MAXC2]; static int ntc2 = 0;
typedef struct { long a, b; } l2;
static long T2P, T2B; /* prime and beta for the long helpers */
static l2 l2_mul(l2 x, l2 y) { l2 r; r.a = (long)(((__int128)x.a * y.a + (__int128)x.b * y.b % T2P * T2B) % T2P); r.b = (long)(((__int128)x.a * y.b + (__int128)x.b * y.a) % T2P); return r; }
static l2 l2_add(l2 x, l2 y) { l2 r = {(x.a + y.a) % T2P, (x.b + y.b) % T2P}; return r; }
static l2 l2_rhs(l2 x, l2 a, l2 b) { return l2_add(l2_mul(l2_add(l2_mul(x, x), a), x), b); }
static long isqrt_tab_p = 0; static long *sq_root = NULL; /* sq_root[idx(v)] = idx of one root, -1 if none */
static void build_sqrt_table(long p, long beta) {
	if (isqrt_tab_p == p) return; free(sq_root); sq_root = malloc(sizeof(long) * (size_t)(p * p)); for (long i = 0; i < p * p; i++) sq_root[i] = -1;
	T2P = p; T2B = beta;
	for (long a = 0; a < p; a++) for (long b = 0; b < p; b++) { l2 e = {a, b}; l2 s = l2_mul(e, e); long id = s.a + s.b * p; if (sq_root[id] < 0) sq_root[id] = a + b * p; }
	isqrt_tab_p = p;
}
/* kind 0: the order N has a divisor d in [400, 1100] and a point of exact order d exists: the library is given the subgroup <D> (r = d, h = N/d);
 * kind 1: N = 2 r with r a 16-bit prime (r = N/2, h = 2); kind 2: as kind 0 with d even (the subgroup contains a point of order two).
 * bmode 0: b in F_p, 1: b has a u-component. */
static int exact_order(const rcurve2 *C, const rpt2 *Q, long d) {
	rpt2 t; rpt2_init(&t); mpz_t k; mpz_init_set_si(k, d); rpt2_mul(C, &t, Q, k); int ok = t.inf && !Q->inf;
	for (long f = 2, m = d; ok && m > 1; f++) if (m % f == 0) { while (m % f == 0) m /= f; mpz_set_si(k, d / f); rpt2_mul(C, &t, Q, k); if (t.inf) ok = 0; }
	mpz_clear(k); rpt2_clear(&t); return ok;
}
static void find_curve2(const char *name, int base, long p, long beta, long a0, long a1, int kind, int bmode) {
	build_sqrt_table(p, beta); f2_setup(); mpz_set_si(F2P, p); mpz_set_si(F2BETA, beta); mpz_set_ui(cur_beta_p, 0);
	l2 a = {modl(a0, p), modl(a1, p)};
	for (long b1 = bmode ? 1 : 0; b1 < (bmode ? p : 1); b1++) for (long b0 = (bmode ? 0 : 1); b0 < p; b0++) {
		l2 b = {b0, b1};
		{ l2 a3 = l2_mul(l2_mul(a, a), a), b2 = l2_mul(b, b); l2 d = {(4 * a3.a + 27 * b2.a) % p, (4 * a3.b + 27 * b2.b) % p}; if (d.a == 0 && d.b == 0) continue; }
		long n = 1;
		for (long x0 = 0; x0 < p; x0++) for (long x1 = 0; x1 < p; x1++) { l2 x = {x0, x1}; l2 v = l2_rhs(x, a, b); long id = v.a + v.b * p; if (id == 0) n += 1; else if (sq_root[id] >= 0) n += 2; }
		long r = 0, h = 0;
		if (kind == 1) { if (n % 2 || !isprime_l(n / 2) || n / 2 < 32768 || n / 2 > 65535) continue; r = n / 2; h = 2; }
		else { for (long d = 1100; d >= 400; d--) if (n % d == 0 && (kind != 2 || d % 2 == 0) && (kind != 0 || d % 2 == 1)) { r = d; h = n / d; break; } if (!r) continue; }
		/* a point of exact order r */
		rcurve2 C; rcurve2_init(&C); f2_set_si(&C.a, a.a, a.b); f2_set_si(&C.b, b0, b1);
		rpt2 g, t; rpt2_init(&g); rpt2_init(&t); mpz_t hh; mpz_init_set_si(hh, h); int ok = 0; f2 x; f2_init(&x);
		for (long i = 0; i < 200 && !ok; i++) { f2_set_si(&x, i % p, i / p); if (!rpt2_lift_x(&C, &g, &x)) continue; rpt2_mul(&C, &t, &g, hh); if (exact_order(&C, &t, r)) ok = 1; }
		if (!ok) continue;
		tiny_curve2 *c = &TC2[ntc2]; memset(c, 0, sizeof *c);
		c->name = name; c->base = base; c->p = p; c->beta = beta; c->a0 = a.a; c->a1 = a.b; c->b0 = b0; c->b1 = b1; c->order = n; c->r = r; c->h = h;
		c->gx0 = mpz_get_si(t.x.a); c->gx1 = mpz_get_si(t.x.b); c->gy0 = mpz_get_si(t.y.a); c->gy1 = mpz_get_si(t.y.b);
		ntc2++; return;
	}
	fprintf(stderr, "no tiny F_p^2 curve found for %s\n", name); exit(2);
}

/* ---------------------------------------------------------------- glue */
static const long LAMS[][2] = {{1, 0}, {3, 2}, {5, 1}, {7, 3}, {2, 9}, {11, 4}, {13, 6}, {6, 5}};
static void ep2_inject(ep2_t e, const rpt2 *p, int rep, int li) {
	if (p->inf) { ep2_set_infty(e); if (rep == REP_PRJ) e->coord = PROJC; else if (rep == REP_JAC) e->coord = JACOB; return; }
	f2 l, t; f2_init(&l); f2_init(&t); f2_set_si(&l, LAMS[li & 7][0], LAMS[li & 7][1]);
	if (rep == REP_AFF) { vf_fp2_set(e->x, &p->x); vf_fp2_set(e->y, &p->y); f2_set_si(&t, 1, 0); vf_fp2_set(e->z, &t); e->coord = BASIC; }
	else if (rep == REP_PRJ) { f2_mul(&t, &p->x, &l); vf_fp2_set(e->x, &t); f2_mul(&t, &p->y, &l); vf_fp2_set(e->y, &t); vf_fp2_set(e->z, &l); e->coord = PROJC; }
	else { f2_mul(&t, &l, &l); f2_mul(&t, &t, &p->x); vf_fp2_set(e->x, &t); f2_mul(&t, &l, &l); f2_mul(&t, &t, &l); f2_mul(&t, &t, &p->y); vf_fp2_set(e->y, &t); vf_fp2_set(e->z, &l); e->coord = JACOB; }
	f2_clear(&l); f2_clear(&t);
}
static int ep2_extract(rpt2 *r, const ep2_t e) {
	f2 x, y, z, zi, one; f2_init(&x); f2_init(&y); f2_init(&z); f2_init(&zi); f2_init(&one); f2_set_si(&one, 1, 0);
	int ok = vf_fp2_get(&x, (fp_t *)e->x) & vf_fp2_get(&y, (fp_t *)e->y) & vf_fp2_get(&z, (fp_t *)e->z);
	if (f2_is_zero(&z)) rpt2_set_inf(r);
	else {
		f2_inv(&zi, &z);
		if (e->coord == PROJC) { f2_mul(&x, &x, &zi); f2_mul(&y, &y, &zi); }
		else if (e->coord == JACOB) { f2_mul(&x, &x, &zi); f2_mul(&x, &x, &zi); f2_mul(&y, &y, &zi); f2_mul(&y, &y, &zi); f2_mul(&y, &y, &zi); }
		else if (!f2_eq(&z, &one)) ok = 0;
		f2_set(&r->x, &x); f2_set(&r->y, &y); r->inf = 0;
	}
	f2_clear(&x); f2_clear(&y); f2_clear(&z); f2_clear(&zi); f2_clear(&one);
	return ok;
}
static void expect_pt2(const char *what, const ep2_t got, const rpt2 *exp, int must_norm, const char *kf) {
	rpt2 r; rpt2_init(&r); transitions++;
	int canon = ep2_extract(&r, got);
	if (!rpt2_eq(&r, exp)) { char b[1400]; gmp_snprintf(b, sizeof b, "%s: expected %s(%Zx+%Zx u, %Zx+%Zx u) got %s(%Zx+%Zx u, %Zx+%Zx u)", what, exp->inf ? "INF" : "", exp->x.a, exp->x.b, exp->y.a, exp->y.b, r.inf ? "INF" : "", r.x.a, r.x.b, r.y.a, r.y.b); vf_fail(kf, "%s", b); }
	else if (!canon) vf_fail(kf, "%s: a coordinate is not canonical (>= p) or affine point with z != 1", what);
	else if (must_norm && !r.inf && got->coord != BASIC) vf_fail(kf, "%s: result not normalised (coord=%d)", what, got->coord);
	rpt2_clear(&r);
}

static int twist_type = 0;
static void ep2_common_setup(void) { f2_setup(); mpz_inits(RN2, RH2, cur_beta_p, NULL); rcurve2_init(&RC2); rpt2_init(&RG2); F2BITS = RLC_FP_DIGS * VF_DIGB; }

/* tiny: cid indexes TC2 (its base field comes from the tiny prime curve TC2[cid].base); W64: ep_param_set identifier + twist selection */
static int select_curve2(long cid) {
	if (cid == cur_cid2) return 1;
	int th; cur_cid2 = -1;
	if (tiny) {
		if (cid < 0 || cid >= ntc2) do { if (getenv("VF_DEBUG")) fprintf(stderr, "select_curve2(%ld): step 1 failed\n", cid); return 0; } while (0);
		tiny_curve2 *c = &TC2[cid];
		cur_cid = -1; if (!select_curve(c->base)) do { if (getenv("VF_DEBUG")) fprintf(stderr, "select_curve2(%ld): step 2 failed\n", cid); return 0; } while (0); /* plain (non-endomorphism) base curve over the same prime */
		if (!learn_beta()) do { if (getenv("VF_DEBUG")) fprintf(stderr, "select_curve2(%ld): step 3 failed\n", cid); return 0; } while (0);
		if (mpz_cmp_si(F2BETA, c->beta)) { fprintf(stderr, "harness: library beta differs from the table's for p=%ld\n", c->p); exit(2); }
		f2_set_si(&RC2.a, c->a0, c->a1); f2_set_si(&RC2.b, c->b0, c->b1); mpz_set_si(RN2, c->r); mpz_set_si(RH2, c->h);
		f2_set_si(&RG2.x, c->gx0, c->gx1); f2_set_si(&RG2.y, c->gy0, c->gy1); RG2.inf = 0;
		fp2_t a, b; ep2_t g; bn_t r, h; fp2_new(a); fp2_new(b); ep2_new(g); bn_new(r); bn_new(h);
		vf_fp2_set(a, &RC2.a); vf_fp2_set(b, &RC2.b); ep2_inject(g, &RG2, REP_AFF, 0); vf_bn_set(r, RN2); vf_bn_set(h, RH2);
		vf_reseed(); VF_TRY(th, ep2_curve_set(a, b, g, r, h)); if (th) do { if (getenv("VF_DEBUG")) fprintf(stderr, "select_curve2(%ld): step 4 failed\n", cid); return 0; } while (0);
	} else {
		cur_cid = -1; if (!select_curve(cid)) do { if (getenv("VF_DEBUG")) fprintf(stderr, "select_curve2(%ld): step 5 failed\n", cid); return 0; } while (0);
		if (!learn_beta()) do { if (getenv("VF_DEBUG")) fprintf(stderr, "select_curve2(%ld): step 6 failed\n", cid); return 0; } while (0);
		ctx_t *ctx = core_get();
		/* the twist type is determined by the curve coefficients, not by trial: with xi the cubic/sextic non-residue of the tower
		 * (v^3 = xi, read from the library's fp6 multiplication), b' = b / xi is the D-type twist and b' = b * xi the M-type twist */
		int found = 0;
		VF_TRY(th, ep2_curve_set_twist(RLC_EP_DTYPE)); if (th) do { if (getenv("VF_DEBUG")) fprintf(stderr, "select_curve2(%ld): step 7 failed\n", cid); return 0; } while (0);
		vf_fp2_get(&RC2.a, ctx->ep2_a); vf_fp2_get(&RC2.b, ctx->ep2_b);
		{ f2 xi, t, bb; f2_init(&xi); f2_init(&t); f2_init(&bb); mpz_set(bb.a, RC.b); mpz_set_ui(bb.b, 0);
			fp6_t x6, y6; fp6_new(x6); fp6_new(y6); fp6_zero(x6); fp_set_dig(x6[1][0], 1); VF_TRY(th, fp6_mul(y6, x6, x6)); if (th) do { if (getenv("VF_DEBUG")) fprintf(stderr, "select_curve2(%ld): step 8 failed\n", cid); return 0; } while (0); VF_TRY(th, fp6_mul(y6, y6, x6)); if (th) do { if (getenv("VF_DEBUG")) fprintf(stderr, "select_curve2(%ld): step 9 failed\n", cid); return 0; } while (0);
			vf_fp2_get(&xi, y6[0]); if (!fp2_is_zero(y6[1]) || !fp2_is_zero(y6[2])) do { if (getenv("VF_DEBUG")) fprintf(stderr, "select_curve2(%ld): step 10 failed\n", cid); return 0; } while (0);
			f2_mul(&t, &RC2.b, &xi); if (f2_eq(&t, &bb)) { found = 1; twist_type = RLC_EP_DTYPE; }
			f2_mul(&t, &bb, &xi); if (f2_eq(&t, &RC2.b)) { found = 1; twist_type = RLC_EP_MTYPE; }
			f2_clear(&xi); f2_clear(&t); f2_clear(&bb); }
		if (!found || !f2_is_zero(&RC2.a)) do { if (getenv("VF_DEBUG")) fprintf(stderr, "select_curve2(%ld): step 11 failed\n", cid); return 0; } while (0);
		VF_TRY(th, ep2_curve_set_twist(twist_type)); if (th) do { if (getenv("VF_DEBUG")) fprintf(stderr, "select_curve2(%ld): step 12 failed\n", cid); return 0; } while (0);
		{ ep2_t g; ep2_new(g); ep2_curve_get_gen(g); ep2_extract(&RG2, g); rpt2 t; rpt2_init(&t);
			if (!rpt2_on_curve(&RC2, &RG2)) do { if (getenv("VF_DEBUG")) fprintf(stderr, "select_curve2(%ld): step 13 failed\n", cid); return 0; } while (0); rpt2_mul(&RC2, &t, &RG2, RN); if (!t.inf) do { if (getenv("VF_DEBUG")) fprintf(stderr, "select_curve2(%ld): step 14 failed\n", cid); return 0; } while (0); rpt2_clear(&t); }
		mpz_set(RN2, RN); vf_bn_get(RH2, &ctx->ep2_h);
	}
	cur_cid2 = cid;
	return 1;
}
#endif
