/*
 * ref_gf2.h -- reference model for GF(2^m) (m <= 319) and binary curves y^2 + xy = x^3 + a x^2 + b.
 * Elements are 5 x 64-bit words; polynomial arithmetic by shift-and-xor, nothing clever. Never calls relic.
 */
#ifndef REF_GF2_H
#define REF_GF2_H
#include <stdint.h>
#include <string.h>
#include <stdio.h>
#include <stdlib.h>

#define GW 5
typedef struct { uint64_t w[GW]; } gf2;
static int GF_M;          /* extension degree */
static gf2 GF_POLY;       /* irreducible polynomial incl. the x^m term */

static gf2 gf_zero(void) { gf2 r; memset(&r, 0, sizeof r); return r; }
static gf2 gf_one(void) { gf2 r = gf_zero(); r.w[0] = 1; return r; }
static int gf_is_zero(gf2 a) { for (int i = 0; i < GW; i++) if (a.w[i]) return 0; return 1; }
static int gf_eq(gf2 a, gf2 b) { return !memcmp(&a, &b, sizeof a); }
static gf2 gf_add(gf2 a, gf2 b) { for (int i = 0; i < GW; i++) a.w[i] ^= b.w[i]; return a; }
static int gf_bit(gf2 a, int i) { return (int)((a.w[i >> 6] >> (i & 63)) & 1); }
static void gf_setbit(gf2 *a, int i) { a->w[i >> 6] |= (uint64_t)1 << (i & 63); }
static int gf_deg(gf2 a) { for (int i = GW * 64 - 1; i >= 0; i--) if (gf_bit(a, i)) return i; return -1; }
static void gf_set_poly(int m, const int *terms, int nterms) { GF_M = m; GF_POLY = gf_zero(); gf_setbit(&GF_POLY, m); gf_setbit(&GF_POLY, 0); for (int i = 0; i < nterms; i++) gf_setbit(&GF_POLY, terms[i]); }
/* double-width product then reduction */
static gf2 gf_mul(gf2 a, gf2 b) {
	uint64_t r[2 * GW]; memset(r, 0, sizeof r);
	for (int i = 0; i < GF_M; i++) if (gf_bit(b, i)) { int ws = i >> 6, bs = i & 63; for (int j = 0; j < GW; j++) { r[j + ws] ^= a.w[j] << bs; if (bs && j + ws + 1 < 2 * GW) r[j + ws + 1] ^= a.w[j] >> (64 - bs); } }
	for (int i = 2 * GF_M - 2; i >= GF_M; i--) if ((r[i >> 6] >> (i & 63)) & 1) { int sh = i - GF_M, ws = sh >> 6, bs = sh & 63; for (int j = 0; j < GW; j++) { r[j + ws] ^= GF_POLY.w[j] << bs; if (bs && j + ws + 1 < 2 * GW) r[j + ws + 1] ^= GF_POLY.w[j] >> (64 - bs); } }
	gf2 o; memcpy(o.w, r, sizeof o.w); return o;
}
static gf2 gf_sqr(gf2 a) { return gf_mul(a, a); }
static gf2 gf_shl(gf2 a, int j) { gf2 r = gf_zero(); int ws = j >> 6, bs = j & 63; for (int i = GW - 1; i >= ws; i--) { r.w[i] = a.w[i - ws] << bs; if (bs && i - ws - 1 >= 0) r.w[i] |= a.w[i - ws - 1] >> (64 - bs); } return r; }
/* a^(2^m - 2) by Fermat: kept as the definition, used to cross-check the Euclidean inverse on first use */
static gf2 gf_inv_fermat(gf2 a) { gf2 r = gf_one(), s = a; for (int i = 1; i < GF_M; i++) { s = gf_sqr(s); r = gf_mul(r, s); } return r; }
/* polynomial extended Euclid over GF(2): u g1 = a (mod f) invariant */
static gf2 gf_inv(gf2 a) {
	gf2 u = a, v = GF_POLY, g1 = gf_one(), g2 = gf_zero();
	int du = gf_deg(u), dv = GF_M;
	while (du > 0) {
		int j = du - dv;
		if (j < 0) { gf2 t = u; u = v; v = t; t = g1; g1 = g2; g2 = t; int td = du; du = dv; dv = td; j = -j; }
		u = gf_add(u, gf_shl(v, j)); g1 = gf_add(g1, gf_shl(g2, j));
		du = gf_deg(u);
	}
	static int checked = 0;
	if (checked < 50) { checked++; if (!gf_eq(g1, gf_inv_fermat(a))) { fprintf(stderr, "reference self-check failed: Euclidean inverse != Fermat inverse\n"); exit(2); } }
	return g1;
}
static gf2 gf_sqrt(gf2 a) { for (int i = 1; i < GF_M; i++) a = gf_sqr(a); return a; }
static int gf_trace(gf2 a) { gf2 t = a, s = a; for (int i = 1; i < GF_M; i++) { s = gf_sqr(s); t = gf_add(t, s); } return gf_bit(t, 0); }
/* half-trace (m odd): solves z^2 + z = a when Tr(a) = 0 */
static gf2 gf_htrace(gf2 a) { gf2 t = a, s = a; for (int i = 1; i <= (GF_M - 1) / 2; i++) { s = gf_sqr(gf_sqr(s)); t = gf_add(t, s); } return t; }
static gf2 gf_from_u64(uint64_t v) { gf2 r = gf_zero(); r.w[0] = v; return r; }

typedef struct { gf2 x, y; int inf; } bpt;
static gf2 EB_A, EB_B;
static bpt bpt_inf(void) { bpt r; r.x = r.y = gf_zero(); r.inf = 1; return r; }
static int bpt_eq(bpt p, bpt q) { if (p.inf || q.inf) return p.inf && q.inf; return gf_eq(p.x, q.x) && gf_eq(p.y, q.y); }
static int bpt_on_curve(bpt p) { if (p.inf) return 1; gf2 l = gf_add(gf_sqr(p.y), gf_mul(p.x, p.y)); gf2 x2 = gf_sqr(p.x); gf2 r = gf_add(gf_add(gf_mul(x2, p.x), gf_mul(EB_A, x2)), EB_B); return gf_eq(l, r); }
static bpt bpt_neg(bpt p) { if (!p.inf) p.y = gf_add(p.y, p.x); return p; }
static bpt bpt_dbl(bpt p) {
	if (p.inf || gf_is_zero(p.x)) return bpt_inf();
	gf2 l = gf_add(p.x, gf_mul(p.y, gf_inv(p.x))); bpt r; r.inf = 0;
	r.x = gf_add(gf_add(gf_sqr(l), l), EB_A); r.y = gf_add(gf_sqr(p.x), gf_mul(gf_add(l, gf_one()), r.x)); return r;
}
static bpt bpt_add(bpt p, bpt q) {
	if (p.inf) return q; if (q.inf) return p;
	if (gf_eq(p.x, q.x)) { if (gf_eq(p.y, q.y)) return bpt_dbl(p); return bpt_inf(); }
	gf2 l = gf_mul(gf_add(p.y, q.y), gf_inv(gf_add(p.x, q.x))); bpt r; r.inf = 0;
	r.x = gf_add(gf_add(gf_add(gf_add(gf_sqr(l), l), p.x), q.x), EB_A); r.y = gf_add(gf_add(gf_mul(l, gf_add(p.x, r.x)), r.x), p.y); return r;
}
#endif
