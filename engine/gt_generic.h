/*
 * gt_generic.h -- the target field F_p^k of ANY pairing family the build offers (k = RLC_GT_EMBED: 8, 12, 16, 18, 24, 48, 54) as a reference
 * quotient-ring tower (ref_ext.h). The chain of sub-towers follows the library's nesting (fp48 = fp24[2], fp24 = fp8[3], fp18 = fp9[2], ...); the
 * constant of each level is READ from the library (X^d computed with its multiplication) and VALIDATED irreducible by the reference, as C10 does.
 * Elements travel flattened in memory order (the nested fp_st arrays are contiguous).
 */
#ifndef GT_GENERIC_H
#define GT_GENERIC_H
#include "vf_relic.h"
#include "ref_ext.h"

typedef void (*gx_mul_fn)(void *, const void *, const void *);
#define GXW(N) static void gx_mul##N(void *c, const void *a, const void *b) { fp##N##_mul(c, a, b); }
GXW(2) GXW(3) GXW(4) GXW(6) GXW(8) GXW(9) GXW(12) GXW(16) GXW(18) GXW(24) GXW(48) GXW(54)
typedef struct { int N, deg, subN; gx_mul_fn mul; rtower rt; int learned, ok; } gx_level;
static gx_level GXL[] = { {1, 1, 0, NULL}, {2, 2, 1, gx_mul2}, {3, 3, 1, gx_mul3}, {4, 2, 2, gx_mul4}, {6, 3, 2, gx_mul6}, {8, 2, 4, gx_mul8}, {9, 3, 3, gx_mul9}, {12, 2, 6, gx_mul12},
	{16, 2, 8, gx_mul16}, {18, 2, 9, gx_mul18}, {24, 3, 8, gx_mul24}, {48, 2, 24, gx_mul48}, {54, 3, 18, gx_mul54} };
#define GX_NL ((int)(sizeof GXL / sizeof *GXL))
static mpz_t gx_p; static int gx_init = 0;
static gx_level *gx_find(int N) { for (int i = 0; i < GX_NL; i++) if (GXL[i].N == N) return &GXL[i]; return NULL; }
static void gx_put(void *dst, int n, const relt *e) { fp_st *s = (fp_st *)dst; for (int i = 0; i < n; i++) vf_fp_set(s[i], e->c[i]); }
static int gx_get(relt *e, int n, const void *src) { const fp_st *s = (const fp_st *)src; int ok = 1; for (int i = 0; i < n; i++) ok &= vf_fp_get(e->c[i], s[i]); return ok; }
/* learn level N (and, recursively, its sub-levels) for the prime currently selected; returns the reference tower or NULL */
static rtower *gx_learn(int N) {
	if (!gx_init) { rx_init(); mpz_init(gx_p); for (int i = 0; i < GX_NL; i++) for (int j = 0; j < RX_MAXN; j++) mpz_init(GXL[i].rt.gamma[j]); gx_init = 1; }
	if (mpz_cmp(gx_p, vf_p)) { for (int i = 0; i < GX_NL; i++) GXL[i].learned = 0; mpz_set(gx_p, vf_p); mpz_set(RX_P, vf_p); }
	gx_level *L = gx_find(N); if (!L) return NULL; if (L->learned) return L->ok ? &L->rt : NULL;
	L->learned = 1; L->ok = 0; L->rt.n = L->N; L->rt.deg = L->deg;
	if (N == 1) { L->rt.sub = NULL; L->ok = 1; return &L->rt; }
	rtower *sub = gx_learn(L->subN); if (!sub) return NULL; L->rt.sub = sub; int ns = sub->n, th;
	static fp_st X[RX_MAXN], A[RX_MAXN]; relt e, g; relt_init(&e); relt_init(&g); relt_zero(&L->rt, &e); mpz_set_ui(e.c[ns], 1); gx_put(X, N, &e); memcpy(A, X, sizeof(fp_st) * (size_t)N);
	int bad = 0; for (int i = 1; i < L->deg; i++) { VF_TRY(th, L->mul(A, A, X)); if (th) bad = 1; }
	if (!bad) { gx_get(&g, N, A); for (int i = ns; i < N; i++) if (mpz_sgn(g.c[i])) bad = 1; }
	if (!bad) { for (int i = 0; i < ns; i++) mpz_set(L->rt.gamma[i], g.c[i]); L->ok = rx_gamma_ok(&L->rt); }
	relt_clear(&e); relt_clear(&g); return L->ok ? &L->rt : NULL;
}
/* r = a^e in the reference tower, any sign of e (negative through a^(p^k - 2)) */
static void gx_pow(const rtower *T, relt *r, const relt *a, const mpz_t e) {
	if (mpz_sgn(e) >= 0) { relt_pow(T, r, a, e); return; }
	mpz_t t; mpz_init(t); mpz_pow_ui(t, vf_p, (unsigned long)T->n); mpz_sub_ui(t, t, 2); relt inv; relt_init(&inv); relt_pow(T, &inv, a, t); mpz_neg(t, e); relt_pow(T, r, &inv, t); relt_clear(&inv); mpz_clear(t);
}
static int gx_is_one(const rtower *T, const relt *a) { if (mpz_cmp_ui(a->c[0], 1)) return 0; for (int i = 1; i < T->n; i++) if (mpz_sgn(a->c[i])) return 0; return 1; }
#endif
