/*
 * ctx_battery.h -- the observation battery shared by the context / re-parameterisation / thread harnesses of C19: a fixed list of labelled
 * observations of the selected parameter sets (flags, constants, field / tower / curve / pairing computations, encodings, hashing, sticky code),
 * hashed item by item so that the first differing item can be named. All state is thread-local.
 */
#ifndef CTX_BATTERY_H
#define CTX_BATTERY_H
#include "vf_relic.h"
static unsigned long long transitions = 0;
static __thread uint64_t H;
/* the battery is a list of labelled items; IT[i] = running hash after item i, so the first differing item can be named */
#define MAXIT 96
static __thread uint64_t ITH[MAXIT]; static __thread const char *ITL[MAXIT]; static __thread int nit;
static void item(const char *label) { if (nit < MAXIT) { ITH[nit] = H; ITL[nit] = label; nit++; } }
static void hb(const void *p, size_t n) { H = vf_hash_bytes(H, p, n); }
static void hi(long v) { hb(&v, sizeof v); }
#define T_(stmt) do { int th_; VF_TRY(th_, stmt); hi(th_); } while (0)
static const int EPS[] = {NIST_P256, BSI_P256, SECG_K256, SM2_P256, BN_P256, SM9_P256};
static const int EBS[] = {NIST_B283, NIST_K283};
#define NACT 11 /* 0..5 prime curves, 6..7 binary curves, 8 foreign dense prime, 9 heavy use, 10 fp_param_set of another prime then back through ep */
static const char *ANAME[] = {"ep NIST_P256", "ep BSI_P256", "ep SECG_K256", "ep SM2_P256", "ep BN_P256 + twist D", "ep SM9_P256 + twist M", "eb NIST_B283", "eb NIST_K283", "fp dense foreign prime", "heavy use", "fp_param_set(BN_256)"};

static void sel_ep(int i) { int th; VF_TRY(th, ep_param_set(EPS[i])); if (EPS[i] == BN_P256) VF_TRY(th, ep2_curve_set_twist(RLC_EP_DTYPE)); else if (EPS[i] == SM9_P256) VF_TRY(th, ep2_curve_set_twist(RLC_EP_MTYPE)); }
static void sel_eb(int i) { int th; VF_TRY(th, eb_param_set(EBS[i])); }
static void reseed(void) { uint8_t seed[64]; for (int i = 0; i < 64; i++) seed[i] = (uint8_t)(i * 5 + 3); core_get()->seeded = 0; rand_seed(seed, sizeof seed); }

/* the observation battery: ep part (if a prime curve is validly selected), eb part (if a binary curve is selected) */
static uint64_t battery(int have_ep, int have_eb) {
	H = 0xcbf29ce484222325ULL; nit = 0; uint8_t buf[1600]; reseed();
	if (have_ep) {
		hi(ep_param_get()); hi(ep_curve_is_endom()); hi(ep_curve_is_super()); hi(ep_curve_is_pairf()); hi(ep_curve_is_ctmap()); hi(ep_curve_embed()); hi(ep_param_level()); hi(ep_curve_opt_a()); hi(ep_curve_opt_b()); hi(fp_param_get());
		item("curve flags and level");
		hi(fp_prime_get_qnr()); hi(fp_prime_get_cnr()); hi(fp_prime_get_2ad()); hi((long)fp_prime_get_mod8()); hi((long)fp_prime_get_mod18()); item("field residue constants (qnr, cnr, 2-adicity, mod 8, mod 18)");
		{ int l = 0; const int *sp = fp_prime_get_sps(&l); hi(l); hi(sp != NULL); if (sp && l > 0 && l < 32) hb(sp, (size_t)l * sizeof(int)); } item("sparse form of the modulus (fp_prime_get_sps)");
		/* the curve-family parameter and its sparse form are derived state of PAIRING curves only: observed there */
		if (ep_curve_is_pairf()) { int l = 0; const int *sp = fp_prime_get_par_sps(&l); hi(l); if (sp && l > 0) hb(sp, (size_t)l * sizeof(int)); bn_t x; bn_new(x); fp_prime_get_par(x); bn_write_bin(buf, 40, x); hb(buf, 40); hi(bn_sign(x)); item("curve-family parameter and its sparse form"); }
		fp_t a, b; fp_new(a); fp_new(b); fp_set_dig(a, 12345); T_(fp_inv(b, a)); fp_write_bin(buf, RLC_FP_BYTES, b); hb(buf, RLC_FP_BYTES); { int r = 0; T_(r = fp_srt(b, a)); hi(r); if (r) { fp_write_bin(buf, RLC_FP_BYTES, b); hb(buf, RLC_FP_BYTES); } } fp_set_dig(a, 7); { int r = 0; T_(r = fp_smb(a)); hi(r); }
		{ bn_t e; bn_new(e); bn_set_2b(e, 100); bn_sub_dig(e, e, 3); T_(fp_exp(b, a, e)); fp_write_bin(buf, RLC_FP_BYTES, b); hb(buf, RLC_FP_BYTES); } item("field inverse, square root, symbol, exponentiation");
		bn_t k, n, k2; bn_new(k); bn_new(n); bn_new(k2); ep_curve_get_ord(n); bn_write_bin(buf, RLC_FP_BYTES, n); hb(buf, RLC_FP_BYTES); bn_set_2b(k, 200); bn_sub_dig(k, k, 77); bn_sub_dig(k2, n, 5);
		ep_t p, q, g; ep_new(p); ep_new(q); ep_new(g); ep_curve_get_gen(g);
		#define EPH(P) do { int sz_ = 0; T_(sz_ = ep_size_bin(P, 0)); if (sz_ > 0 && sz_ < 200) { T_(ep_write_bin(buf, sz_, P, 0)); hb(buf, (size_t)sz_); } T_(sz_ = ep_size_bin(P, 1)); if (sz_ > 0 && sz_ < 200) { T_(ep_write_bin(buf, sz_, P, 1)); hb(buf, (size_t)sz_); } } while (0)
		EPH(g); item("generator encoding (plain and compressed)"); T_(ep_mul_gen(p, k)); EPH(p); item("ep_mul_gen (generator table)"); T_(ep_mul_lwnaf(p, g, k)); EPH(p); item("ep_mul_lwnaf"); T_(ep_mul_lwreg(p, g, k2)); EPH(p); item("ep_mul_lwreg"); T_(ep_mul_monty(p, g, k)); EPH(p); item("ep_mul_monty"); T_(ep_mul_sim_gen(p, k, g, k2)); EPH(p); item("ep_mul_sim_gen"); T_(ep_mul_sim(q, g, k, p, k2)); EPH(q); item("ep_mul_sim");
		{ static __thread ep_t tab[RLC_EP_TABLE]; for (int i = 0; i < RLC_EP_TABLE; i++) ep_new(tab[i]); T_(ep_mul_pre(tab, p)); T_(ep_mul_fix(q, (const ep_t *)tab, k)); EPH(q); } item("ep_mul_pre / ep_mul_fix");
		if (ep_curve_is_endom()) { T_(ep_psi(q, p)); EPH(q); item("ep_psi"); }
		T_(ep_mul_cof(q, p)); EPH(q); item("ep_mul_cof"); T_(ep_map(q, (const uint8_t *)"abc", 3)); EPH(q); item("ep_map"); T_(ep_map_basic(q, (const uint8_t *)"abcd", 4)); EPH(q); item("ep_map_basic"); { int oc = 0; T_(oc = ep_on_curve(p)); hi(oc); }
		/* decoding of a compressed point (sign rule) */
		{ int sz = 0; T_(sz = ep_size_bin(p, 1)); if (sz > 0 && sz < 200) { T_(ep_write_bin(buf, sz, p, 1)); T_(ep_read_bin(q, buf, sz)); EPH(q); } } item("compressed point decoding");
		{ fp2_t x, y; fp2_new(x); fp2_new(y); fp2_set_dig(x, 7); fp_set_dig(x[1], 9); T_(fp2_inv(y, x)); fp2_write_bin(buf, 2 * RLC_FP_BYTES, y, 0); hb(buf, 2 * RLC_FP_BYTES); T_(fp2_frb(y, x, 1)); fp2_write_bin(buf, 2 * RLC_FP_BYTES, y, 0); hb(buf, 2 * RLC_FP_BYTES); { int r = 0; T_(r = fp2_srt(y, x)); hi(r); } T_(fp2_mul_nor(y, x)); fp2_write_bin(buf, 2 * RLC_FP_BYTES, y, 0); hb(buf, 2 * RLC_FP_BYTES); } item("F_p^2 inverse, Frobenius, square root, non-residue multiplication");
		if (ep_curve_is_pairf()) { hi(ep2_curve_is_twist()); hi(ep2_curve_opt_a()); hi(ep2_curve_opt_b()); item("twist flags");
			g1_t g1; g2_t g2, r2; gt_t e; g1_new(g1); g2_new(g2); g2_new(r2); gt_new(e); g1_get_gen(g1); g2_get_gen(g2);
			#define G2H(P) do { T_(g2_write_bin(buf, 4 * RLC_FP_BYTES + 1, P, 0)); hb(buf, 4 * RLC_FP_BYTES + 1); T_(g2_write_bin(buf, 2 * RLC_FP_BYTES + 1, P, 1)); hb(buf, 2 * RLC_FP_BYTES + 1); } while (0)
			G2H(g2); T_(g2_mul_gen(r2, k)); G2H(r2); T_(g2_mul(r2, g2, k2)); G2H(r2); T_(ep2_frb(r2, r2, 1)); G2H(r2); T_(ep2_mul_cof(r2, r2)); G2H(r2); T_(g2_map(r2, (const uint8_t *)"abc", 3)); G2H(r2); { int v = 0; T_(v = g2_is_valid(r2)); hi(v); T_(v = g1_is_valid(p)); hi(v); } item("G2 generator, multiplications, Frobenius, cofactor, hashing, validity");
			T_(pc_map(e, g1, g2)); T_(gt_write_bin(buf, 12 * RLC_FP_BYTES, e, 0)); hb(buf, 12 * RLC_FP_BYTES); T_(gt_exp_gen(e, k)); T_(gt_write_bin(buf, 12 * RLC_FP_BYTES, e, 0)); hb(buf, 12 * RLC_FP_BYTES); { int v = 0; T_(v = gt_is_valid(e)); hi(v); } item("pairing of the generators, gt_exp_gen, gt_is_valid"); T_(gt_get_gen(e)); T_(gt_write_bin(buf, 12 * RLC_FP_BYTES, e, 0)); hb(buf, 12 * RLC_FP_BYTES);
			{ fp12_t f; fp12_new(f); T_(fp12_frb(f, e, 1)); T_(fp12_write_bin(buf, 12 * RLC_FP_BYTES, f, 0)); hb(buf, 12 * RLC_FP_BYTES); T_(fp12_inv(f, e)); T_(fp12_write_bin(buf, 12 * RLC_FP_BYTES, f, 0)); hb(buf, 12 * RLC_FP_BYTES); } item("gt_get_gen, F_p^12 Frobenius and inverse"); }
	}
	if (have_eb) { hi(eb_param_get()); hi(eb_curve_is_kbltz()); hi(eb_param_level()); hi(eb_curve_opt_a()); hi(eb_curve_opt_b()); bn_t k, n; bn_new(k); bn_new(n); eb_curve_get_ord(n); bn_write_bin(buf, RLC_FB_BYTES + 1, n); hb(buf, RLC_FB_BYTES + 1); bn_set_2b(k, 200); bn_sub_dig(k, k, 77);
		eb_t p, g; eb_new(p); eb_new(g); eb_curve_get_gen(g);
		#define EBH(P) do { T_(eb_write_bin(buf, 2 * RLC_FB_BYTES + 1, P, 0)); hb(buf, 2 * RLC_FB_BYTES + 1); T_(eb_write_bin(buf, RLC_FB_BYTES + 1, P, 1)); hb(buf, RLC_FB_BYTES + 1); } while (0)
		EBH(g); T_(eb_mul_gen(p, k)); EBH(p); T_(eb_mul_lwnaf(p, g, k)); EBH(p); T_(eb_mul_lodah(p, g, k)); EBH(p); T_(eb_mul_halve(p, g, k)); EBH(p); T_(eb_map(p, (const uint8_t *)"abc", 3)); EBH(p);
		{ fb_t a, b; fb_new(a); fb_new(b); fb_set_dig(a, 0x53); T_(fb_inv(b, a)); hb(b, sizeof(fb_st)); T_(fb_srt(b, a)); hb(b, sizeof(fb_st)); T_(fb_slv(b, a)); hb(b, sizeof(fb_st)); hi(fb_trc(a)); } item("binary curve: flags, generator, multiplications, hashing, field inverse / root / solve / trace"); }
	{ int code = err_get_code(); hi(code); } item("sticky error code");
	return H;
}

#endif
