/*
 * vf.h -- enumeration runtime shared by every harness (single header, static functions).
 *
 * A harness is one executable per (property, world).  It enumerates a bounded space of cases; every
 * case is (operation name, up to VF_MAXARG integer arguments).  The harness supplies
 *
 *     static void run_case(vf_case *c);      -- execute the real code on the case, compare with the
 *                                                reference model, call vf_fail() on disagreement
 *     static void enumerate(void);           -- generate every case of every bound and call vf_run()
 *
 * and ends with VF_MAIN().  Because every case goes through run_case(), a violation can be replayed
 * alone in a fresh process: `harness --replay "<op> <hex> <hex> ..."`.
 *
 * Line protocol on stdout (parsed by check.py):
 *   @STAT <name> <integer>            additive counters (summed over shards)
 *   @SAMPLE <text>                    an actual case, written out
 *   @VIOL kf=<id|-> op=<op> args=<hex,...> msg=<text>
 *   @BOUND <name> complete|skipped
 *   @INFO <text>
 *   @DONE exhaustive=<0|1>
 *   @CRASH sig=<n> case=<op hex ...>   (from the signal handler; needs --track for the case text)
 */
#ifndef VF_H
#define VF_H

#include <stdio.h>
#include <stdlib.h>
#include <string.h>
#include <stdint.h>
#include <stdarg.h>
#include <signal.h>
#include <unistd.h>
#include <time.h>
#include <gmp.h>

#define VF_MAXARG 10

typedef struct {
	const char *op;
	int n;
	mpz_t v[VF_MAXARG];
} vf_case;

static int vf_shard = 0, vf_nshards = 1, vf_tier = 0, vf_replaying = 0, vf_track = 0;
static double vf_deadline = 0; /* seconds of wall clock this process may use for enumeration; 0 = none */
static struct timespec vf_t0;
static unsigned long long vf_ctr = 0;
static int vf_seed = 0;
static int vf_incomplete = 0;
static char vf_trackbuf[8192];
static const char *vf_only = NULL; /* --only <substring>: restrict enumeration to bounds whose name matches */

static void run_case(vf_case *c);
static void enumerate(void);

/* ------------------------------------------------------------------ time */
static double vf_elapsed(void) {
	struct timespec t;
	clock_gettime(CLOCK_MONOTONIC, &t);
	return (t.tv_sec - vf_t0.tv_sec) + 1e-9 * (t.tv_nsec - vf_t0.tv_nsec);
}
static int vf_expired(void) {
	return vf_deadline > 0 && vf_elapsed() > vf_deadline;
}

/* ------------------------------------------------------------------ counters */
#define VF_MAXSTAT 4096
static struct { char name[200]; unsigned long long v; } vf_stats[VF_MAXSTAT];
static int vf_nstats = 0;
static unsigned long long *vf_stat_slot(const char *name) {
	for (int i = 0; i < vf_nstats; i++)
		if (strcmp(vf_stats[i].name, name) == 0) return &vf_stats[i].v;
	if (vf_nstats == VF_MAXSTAT) { fprintf(stderr, "vf: too many stats\n"); exit(2); }
	snprintf(vf_stats[vf_nstats].name, sizeof vf_stats[0].name, "%s", name);
	vf_stats[vf_nstats].v = 0;
	return &vf_stats[vf_nstats++].v;
}
static void vf_stat_add(const char *name, unsigned long long d) { *vf_stat_slot(name) += d; }
static void vf_statf_add(unsigned long long d, const char *fmt, ...) {
	char b[200]; va_list ap; va_start(ap, fmt); vsnprintf(b, sizeof b, fmt, ap); va_end(ap);
	vf_stat_add(b, d);
}

/* per-op bookkeeping, looked up by pointer first (op names are string literals) */
#define VF_MAXOPS 256
typedef struct {
	const char *op; unsigned long long evals, nontriv, viol, samples, printed;
} vf_opinfo;
static vf_opinfo vf_ops[VF_MAXOPS];
static int vf_nops = 0;
static vf_opinfo *vf_op(const char *op) {
	for (int i = 0; i < vf_nops; i++) if (vf_ops[i].op == op) return &vf_ops[i];
	for (int i = 0; i < vf_nops; i++) if (strcmp(vf_ops[i].op, op) == 0) return &vf_ops[i];
	if (vf_nops == VF_MAXOPS) { fprintf(stderr, "vf: too many ops\n"); exit(2); }
	memset(&vf_ops[vf_nops], 0, sizeof(vf_opinfo));
	vf_ops[vf_nops].op = op;
	return &vf_ops[vf_nops++];
}

/* distinct-case set: open addressing over 64-bit hashes, capped (then counting is conservative) */
static uint64_t *vf_set = NULL;
static size_t vf_set_cap = 0, vf_set_n = 0;
static int vf_set_full = 0;
#define VF_SET_MAX ((size_t)1 << 23)
static int vf_set_insert(uint64_t h) {
	if (h == 0) h = 1;
	if (vf_set == NULL) { vf_set_cap = 1 << 16; vf_set = calloc(vf_set_cap, 8); }
	if (vf_set_n * 2 > vf_set_cap) {
		if (vf_set_cap >= VF_SET_MAX) { vf_set_full = 1; return 0; }
		size_t nc = vf_set_cap * 4; uint64_t *ns = calloc(nc, 8);
		for (size_t i = 0; i < vf_set_cap; i++) if (vf_set[i]) {
			size_t j = vf_set[i] & (nc - 1); while (ns[j]) j = (j + 1) & (nc - 1); ns[j] = vf_set[i];
		}
		free(vf_set); vf_set = ns; vf_set_cap = nc;
	}
	size_t j = h & (vf_set_cap - 1);
	while (vf_set[j]) { if (vf_set[j] == h) return 0; j = (j + 1) & (vf_set_cap - 1); }
	vf_set[j] = h; vf_set_n++;
	return 1;
}
static uint64_t vf_hash_bytes(uint64_t h, const void *p, size_t n) {
	const unsigned char *s = p;
	for (size_t i = 0; i < n; i++) { h ^= s[i]; h *= 0x100000001b3ULL; }
	return h;
}
static uint64_t vf_hash_case(const vf_case *c) {
	uint64_t h = 0xcbf29ce484222325ULL;
	h = vf_hash_bytes(h, c->op, strlen(c->op));
	for (int i = 0; i < c->n; i++) {
		int sz = c->v[i]->_mp_size;
		h = vf_hash_bytes(h, &sz, sizeof sz);
		h = vf_hash_bytes(h, c->v[i]->_mp_d, (size_t)abs(sz) * sizeof(mp_limb_t));
	}
	h ^= h >> 29; h *= 0xbf58476d1ce4e5b9ULL; h ^= h >> 32;
	return h;
}

/* ------------------------------------------------------------------ case text */
static void vf_case_text(char *buf, size_t len, const vf_case *c) {
	size_t o = (size_t)snprintf(buf, len, "%s", c->op);
	for (int i = 0; i < c->n && o + 8 < len; i++) {
		if (mpz_sizeinbase(c->v[i], 16) + 4 > len - o) { o += (size_t)snprintf(buf + o, len - o, " ..."); break; }
		o += (size_t)gmp_snprintf(buf + o, len - o, " %Zx", c->v[i]);
	}
}

static vf_case *vf_cur = NULL;
static unsigned long long vf_total_evals = 0;
static int vf_cur_failed = 0;

/* A case the harness considers non-trivial (its own rule); counted once per distinct case. */
static void vf_nontrivial(void) {
	if (vf_cur && vf_set_insert(vf_hash_case(vf_cur))) vf_op(vf_cur->op)->nontriv++;
}

#define VF_PRINT_CAP 4
/* Report a disagreement. kf = id of a known-finding class the failing input belongs to, or NULL. */
static void vf_fail(const char *kf, const char *fmt, ...) {
	char msg[1024], ct[4096]; va_list ap;
	va_start(ap, fmt); vsnprintf(msg, sizeof msg, fmt, ap); va_end(ap);
	vf_case *c = vf_cur;
	vf_cur_failed = 1;
	/* failure class = (op, known-finding id, sub-operation); the sub-operation is the message up to its first
	 * ':' '[' '(' or space, i.e. the routine name the harness puts in front of every message */
	char sub[64]; size_t sl = 0;
	while (msg[sl] && sl + 1 < sizeof sub && msg[sl] != ':' && msg[sl] != '[' && msg[sl] != '(' && msg[sl] != ' ') { sub[sl] = msg[sl]; sl++; }
	sub[sl] = 0;
	vf_statf_add(1, "viol.%s.%s.%s", c ? c->op : "?", kf ? kf : "-", sub);
	char key[200]; snprintf(key, sizeof key, "printed.%s.%s.%s", c ? c->op : "?", kf ? kf : "-", sub);
	unsigned long long *pr = vf_stat_slot(key);
	if (*pr >= VF_PRINT_CAP && !vf_replaying) return;
	(*pr)++;
	if (c) {
		size_t o = 0; ct[0] = 0;
		for (int i = 0; i < c->n; i++) o += (size_t)gmp_snprintf(ct + o, sizeof ct - o, "%s%Zx", i ? "," : "", c->v[i]);
	} else ct[0] = 0;
	for (char *p = msg; *p; p++) if (*p == '\n') *p = ' ';
	printf("@VIOL kf=%s op=%s args=%s msg=%s\n", kf ? kf : "-", c ? c->op : "?", ct, msg);
	fflush(stdout);
}

static void vf_sample_now(const vf_case *c) {
	char b[2048]; vf_case_text(b, sizeof b, c);
	printf("@SAMPLE %s\n", b);
}

/* Execute one case: bookkeeping + run_case(). */
static const char *vf_op_only = NULL, *vf_op_skip = NULL; /* --op <name>: run only the cases of one operation; --skip-op <name>: leave one out (a harness shared between two properties) */
static void vf_run(vf_case *c) {
	if (vf_op_only && strcmp(c->op, vf_op_only)) return;
	if (vf_op_skip && !strcmp(c->op, vf_op_skip)) return;
	vf_opinfo *o = vf_op(c->op);
	o->evals++; vf_total_evals++;
	if (vf_track) { vf_case_text(vf_trackbuf, sizeof vf_trackbuf, c); alarm(120); }
	/* write out a few actual cases per op: the first, and two later ones */
	if (o->samples < 3 && (o->evals == 1 || o->evals == 1000 || o->evals == 100000)) { o->samples++; vf_sample_now(c); }
	vf_cur = c; vf_cur_failed = 0;
	run_case(c);
	vf_cur = NULL;
}

/* case-index based sharding: call once per case (or per outer-loop block) */
/* --stride K keeps every K-th case of the (deterministic) enumeration order: a fixed, documented sub-bound used by the
 * sanitizer re-runs of C08, where each case costs several times more */
static unsigned long long vf_stride = 1;
static int vf_mine(void) {
	unsigned long long idx = vf_ctr++;
	if (vf_stride > 1) { if (idx % vf_stride) return 0; idx /= vf_stride; }
	return (int)((idx + (unsigned)vf_seed) % (unsigned)vf_nshards) == vf_shard;
}

static int vf_bound_on(const char *name) {
	if (vf_only && !strstr(name, vf_only)) return 0;
	if (vf_expired()) { printf("@BOUND %s skipped\n", name); vf_incomplete = 1; return 0; }
	if (vf_track) fprintf(stderr, "[bound %s]\n", name);
	return 1;
}
static void vf_bound_done(const char *name) {
	if (vf_expired()) { printf("@BOUND %s partial\n", name); vf_incomplete = 1; }
	else printf("@BOUND %s complete\n", name);
	fflush(stdout);
}

/* ------------------------------------------------------------------ crash handling */
static unsigned long long vf_wd_last = ~0ULL;
static int vf_wd_ticks = 0;
#define VF_WD_PERIOD 15
#define VF_WD_TICKS 4
static void vf_sig(int s) {
	static char b[9000];
	if (s == SIGALRM && !vf_track) {
		/* periodic watchdog: the same case still running after VF_WD_TICKS periods is a hang */
		if (vf_wd_last != vf_total_evals) { vf_wd_last = vf_total_evals; vf_wd_ticks = 0; alarm(VF_WD_PERIOD); return; }
		if (++vf_wd_ticks < VF_WD_TICKS) { alarm(VF_WD_PERIOD); return; }
		if (vf_cur) vf_case_text(vf_trackbuf, sizeof vf_trackbuf, vf_cur);
	}
	if (s != SIGALRM && vf_cur && !vf_trackbuf[0]) vf_case_text(vf_trackbuf, sizeof vf_trackbuf, vf_cur);
	int n = snprintf(b, sizeof b, "\n@%s sig=%d case=%s\n", s == SIGALRM ? "HANG" : "CRASH", s, vf_trackbuf);
	if (write(1, b, (size_t)n) < 0) {}
	_exit(s == SIGALRM ? 4 : 3);
}
/* sanitizer callback: make the report attributable to a case */
void __asan_on_error(void) {
	static char b[9000];
	if (vf_cur && !vf_trackbuf[0]) vf_case_text(vf_trackbuf, sizeof vf_trackbuf, vf_cur);
	int n = snprintf(b, sizeof b, "\n@CRASH sig=asan case=%s\n", vf_trackbuf);
	if (write(1, b, (size_t)n) < 0) {}
}

static void vf_emit_stats(void) {
	unsigned long long ev = 0, nt = 0;
	for (int i = 0; i < vf_nops; i++) {
		printf("@STAT evals.%s %llu\n", vf_ops[i].op, vf_ops[i].evals);
		printf("@STAT nontrivial.%s %llu\n", vf_ops[i].op, vf_ops[i].nontriv);
		ev += vf_ops[i].evals; nt += vf_ops[i].nontriv;
	}
	printf("@STAT evaluations %llu\n@STAT distinct_nontrivial %llu\n", ev, nt);
	if (vf_set_full) printf("@STAT distinct_set_capped 1\n");
	for (int i = 0; i < vf_nstats; i++) printf("@STAT %s %llu\n", vf_stats[i].name, vf_stats[i].v);
}

static int vf_parse_replay(vf_case *c, char *s, char **opbuf) {
	char *tok = strtok(s, " ");
	if (!tok) return -1;
	*opbuf = strdup(tok); c->op = *opbuf; c->n = 0;
	while ((tok = strtok(NULL, " ,")) != NULL && c->n < VF_MAXARG) {
		if (mpz_set_str(c->v[c->n], tok, 16) != 0) return -1;
		c->n++;
	}
	return 0;
}

static void vf_case_init(vf_case *c) { for (int i = 0; i < VF_MAXARG; i++) mpz_init(c->v[i]); c->n = 0; c->op = "?"; }

static void harness_setup(void);

static int vf_main(int argc, char **argv) {
	char *replay = NULL;
	clock_gettime(CLOCK_MONOTONIC, &vf_t0);
	setvbuf(stdout, NULL, _IOLBF, 0);
	for (int i = 1; i < argc; i++) {
		if (!strcmp(argv[i], "--shard") && i + 1 < argc) { sscanf(argv[++i], "%d/%d", &vf_shard, &vf_nshards); }
		else if (!strcmp(argv[i], "--tier") && i + 1 < argc) { vf_tier = !strcmp(argv[++i], "thorough"); }
		else if (!strcmp(argv[i], "--deadline") && i + 1 < argc) { vf_deadline = atof(argv[++i]); }
		else if (!strcmp(argv[i], "--seed") && i + 1 < argc) { vf_seed = atoi(argv[++i]); }
		else if (!strcmp(argv[i], "--only") && i + 1 < argc) { vf_only = argv[++i]; }
		else if (!strcmp(argv[i], "--op") && i + 1 < argc) { vf_op_only = argv[++i]; }
		else if (!strcmp(argv[i], "--skip-op") && i + 1 < argc) { vf_op_skip = argv[++i]; }
		else if (!strcmp(argv[i], "--stride") && i + 1 < argc) { vf_stride = strtoull(argv[++i], NULL, 10); if (!vf_stride) vf_stride = 1; }
		else if (!strcmp(argv[i], "--track")) { vf_track = 1; }
		else if (!strcmp(argv[i], "--replay") && i + 1 < argc) { replay = argv[++i]; }
		else { fprintf(stderr, "vf: unknown argument %s\n", argv[i]); return 2; }
	}
#ifndef VF_KEEP_SEGV_HANDLER
	signal(SIGSEGV, vf_sig); signal(SIGBUS, vf_sig);
#endif
	signal(SIGFPE, vf_sig); signal(SIGABRT, vf_sig);
	signal(SIGILL, vf_sig); signal(SIGALRM, vf_sig);
	harness_setup();
	if (!vf_track && !replay) alarm(VF_WD_PERIOD);
	if (replay) {
		vf_case c; char *opb; vf_case_init(&c);
		vf_replaying = 1; vf_track = 1;
		if (vf_parse_replay(&c, replay, &opb) != 0) { fprintf(stderr, "vf: bad replay string\n"); return 2; }
		vf_run(&c);
		alarm(0);
		printf("@REPLAY %s\n", vf_cur_failed ? "violation" : "ok");
		return vf_cur_failed ? 1 : 0;
	}
	enumerate();
	alarm(0);
	vf_emit_stats();
	printf("@DONE exhaustive=%d wall=%.2f\n", vf_incomplete ? 0 : 1, vf_elapsed());
	return 0;
}
#define VF_MAIN() int main(int argc, char **argv) { return vf_main(argc, argv); }

/* ------------------------------------------------------------------ small domain helpers */
typedef struct { mpz_t *v; int n, cap; } vf_dom;
static void vf_dom_init(vf_dom *d) { d->v = NULL; d->n = d->cap = 0; }
static void vf_dom_add(vf_dom *d, const mpz_t z) {
	if (d->n == d->cap) { d->cap = d->cap ? 2 * d->cap : 64; d->v = realloc(d->v, sizeof(mpz_t) * (size_t)d->cap); }
	mpz_init_set(d->v[d->n++], z);
}
static int vf_dom_cmp_(const void *a, const void *b) {
	/* order: by absolute value then sign, so small / simple values come first */
	int c = mpz_cmpabs(*(const mpz_t *)a, *(const mpz_t *)b);
	return c ? c : mpz_cmp(*(const mpz_t *)b, *(const mpz_t *)a);
}
/* sort and remove duplicates: products over a domain are then distinct by construction */
static void vf_dom_uniq(vf_dom *d) {
	if (d->n < 2) return;
	qsort(d->v, (size_t)d->n, sizeof(mpz_t), vf_dom_cmp_);
	int w = 1;
	for (int i = 1; i < d->n; i++) {
		if (mpz_cmp(d->v[i], d->v[w - 1]) == 0) mpz_clear(d->v[i]);
		else { if (w != i) memcpy(&d->v[w], &d->v[i], sizeof(mpz_t)); w++; }
	}
	d->n = w;
}
static void vf_dom_add_si(vf_dom *d, long x) { mpz_t z; mpz_init_set_si(z, x); vf_dom_add(d, z); mpz_clear(z); }
static void vf_dom_add_str(vf_dom *d, const char *hex) { mpz_t z; mpz_init_set_str(z, hex, 16); vf_dom_add(d, z); mpz_clear(z); }
static void vf_dom_clear(vf_dom *d) { for (int i = 0; i < d->n; i++) mpz_clear(d->v[i]); free(d->v); vf_dom_init(d); }
/* add z, z+1, z-1 and their negatives when sign != 0 */
static void vf_dom_add_near(vf_dom *d, const mpz_t z, int both_signs) {
	mpz_t t; mpz_init(t);
	for (int k = -1; k <= 1; k++) {
		if (k < 0) mpz_sub_ui(t, z, 1); else mpz_add_ui(t, z, (unsigned long)k);
		vf_dom_add(d, t);
		if (both_signs) { mpz_neg(t, t); vf_dom_add(d, t); }
	}
	mpz_clear(t);
}
/* all digit vectors of length 0..maxlen over the digit alphabet `digs` (ndig values of `wbits` bits), normalised */
static void vf_dom_add_vecs(vf_dom *d, const unsigned long long *digs, int ndig, int wbits, int maxlen, int both_signs) {
	int idx[16]; mpz_t z; mpz_init(z);
	for (int len = 0; len <= maxlen; len++) {
		memset(idx, 0, sizeof idx);
		for (;;) {
			mpz_set_ui(z, 0);
			for (int i = len - 1; i >= 0; i--) { mpz_mul_2exp(z, z, (unsigned long)wbits); mpz_t t; mpz_init(t); mpz_set_ui(t, (unsigned long)(digs[idx[i]] >> 32)); mpz_mul_2exp(t, t, 32); mpz_add_ui(t, t, (unsigned long)(digs[idx[i]] & 0xffffffffULL)); mpz_add(z, z, t); mpz_clear(t); }
			vf_dom_add(d, z);
			if (both_signs && mpz_sgn(z)) { mpz_neg(z, z); vf_dom_add(d, z); }
			int k = 0; while (k < len && ++idx[k] == ndig) idx[k++] = 0;
			if (k == len) break;
		}
	}
	mpz_clear(z);
}

#endif
