/*
 * ref_ec2.h -- reference model: F_p^2 = F_p[u]/(u^2 - beta) and the affine chord-and-tangent law on
 * y^2 = x^3 + a x + b over it (GMP). Plain integer scalars as in ref_ec.h. Never calls relic.
 */
#ifndef REF_EC2_H
#define REF_EC2_H
#include <gmp.h>
#include "ref_ec.h"

typedef struct { mpz_t a, b; } f2; /* a + b u */
static mpz_t F2P, F2BETA; static int f2_ready = 0;
static mpz_t f2t0, f2t1, f2t2, f2t3;
static void f2_setup(void) { if (!f2_ready) { mpz_inits(F2P, F2BETA, f2t0, f2t1, f2t2, f2t3, NULL); f2_ready = 1; } }
static void f2_init(f2 *r) { mpz_init(r->a); mpz_init(r->b); }
static void f2_clear(f2 *r) { mpz_clear(r->a); mpz_clear(r->b); }
static void f2_set(f2 *r, const f2 *x) { mpz_set(r->a, x->a); mpz_set(r->b, x->b); }
static void f2_set_si(f2 *r, long a, long b) { mpz_set_si(r->a, a); mpz_mod(r->a, r->a, F2P); mpz_set_si(r->b, b); mpz_mod(r->b, r->b, F2P); }
static int f2_eq(const f2 *x, const f2 *y) { return !mpz_cmp(x->a, y->a) && !mpz_cmp(x->b, y->b); }
static int f2_is_zero(const f2 *x) { return !mpz_sgn(x->a) && !mpz_sgn(x->b); }
static void f2_add(f2 *r, const f2 *x, const f2 *y) { mpz_add(r->a, x->a, y->a); mpz_mod(r->a, r->a, F2P); mpz_add(r->b, x->b, y->b); mpz_mod(r->b, r->b, F2P); }
static void f2_sub(f2 *r, const f2 *x, const f2 *y) { mpz_sub(r->a, x->a, y->a); mpz_mod(r->a, r->a, F2P); mpz_sub(r->b, x->b, y->b); mpz_mod(r->b, r->b, F2P); }
static void f2_neg(f2 *r, const f2 *x) { mpz_neg(r->a, x->a); mpz_mod(r->a, r->a, F2P); mpz_neg(r->b, x->b); mpz_mod(r->b, r->b, F2P); }
static void f2_mul(f2 *r, const f2 *x, const f2 *y) {
	mpz_mul(f2t0, x->a, y->a); mpz_mul(f2t1, x->b, y->b); mpz_mul(f2t1, f2t1, F2BETA); mpz_add(f2t0, f2t0, f2t1);
	mpz_mul(f2t2, x->a, y->b); mpz_mul(f2t3, x->b, y->a); mpz_add(f2t2, f2t2, f2t3);
	mpz_mod(r->a, f2t0, F2P); mpz_mod(r->b, f2t2, F2P);
}
static void f2_mul_ui(f2 *r, const f2 *x, unsigned long k) { mpz_mul_ui(r->a, x->a, k); mpz_mod(r->a, r->a, F2P); mpz_mul_ui(r->b, x->b, k); mpz_mod(r->b, r->b, F2P); }
/* 1/x, x != 0: conj(x) / (a^2 - beta b^2) */
static void f2_inv(f2 *r, const f2 *x) {
	mpz_mul(f2t0, x->a, x->a); mpz_mul(f2t1, x->b, x->b); mpz_mul(f2t1, f2t1, F2BETA); mpz_sub(f2t0, f2t0, f2t1); mpz_mod(f2t0, f2t0, F2P);
	mpz_invert(f2t0, f2t0, F2P);
	mpz_mul(r->a, x->a, f2t0); mpz_mod(r->a, r->a, F2P); mpz_neg(f2t1, x->b); mpz_mul(r->b, f2t1, f2t0); mpz_mod(r->b, r->b, F2P);
}
static void f2_pow(f2 *r, const f2 *x, const mpz_t e) {
	f2 acc, base; f2_init(&acc); f2_init(&base); f2_set_si(&acc, 1, 0); f2_set(&base, x);
	size_t n = mpz_sgn(e) ? mpz_sizeinbase(e, 2) : 0;
	for (size_t i = n; i-- > 0;) { f2_mul(&acc, &acc, &acc); if (mpz_tstbit(e, i)) f2_mul(&acc, &acc, &base); }
	f2_set(r, &acc); f2_clear(&acc); f2_clear(&base);
}
/* Frobenius x -> x^p = conjugate */
static void f2_conj(f2 *r, const f2 *x) { mpz_set(r->a, x->a); mpz_neg(r->b, x->b); mpz_mod(r->b, r->b, F2P); }
/* a square root if one exists (verified by squaring): norm method */
static int f2_sqrt(f2 *r, const f2 *v) {
	if (f2_is_zero(v)) { f2_set_si(r, 0, 0); return 1; }
	mpz_t n, s, t, i2, x0, x1; mpz_inits(n, s, t, i2, x0, x1, NULL); int ok = 0;
	if (!mpz_sgn(v->b)) {
		if (ref_sqrt_mod(x0, v->a, F2P)) { mpz_set_ui(x1, 0); ok = 1; }
		else { mpz_invert(t, F2BETA, F2P); mpz_mul(t, t, v->a); mpz_mod(t, t, F2P); if (ref_sqrt_mod(x1, t, F2P)) { mpz_set_ui(x0, 0); ok = 1; } }
	} else {
		mpz_mul(n, v->a, v->a); mpz_mul(t, v->b, v->b); mpz_mul(t, t, F2BETA); mpz_sub(n, n, t); mpz_mod(n, n, F2P);
		if (ref_sqrt_mod(s, n, F2P)) {
			mpz_set_ui(i2, 2); mpz_invert(i2, i2, F2P);
			for (int tr = 0; tr < 2 && !ok; tr++) {
				if (tr == 0) mpz_add(t, v->a, s); else mpz_sub(t, v->a, s);
				mpz_mul(t, t, i2); mpz_mod(t, t, F2P);
				if (mpz_sgn(t) && ref_sqrt_mod(x0, t, F2P)) { mpz_mul_2exp(t, x0, 1); mpz_invert(t, t, F2P); mpz_mul(x1, v->b, t); mpz_mod(x1, x1, F2P); ok = 1; }
			}
		}
	}
	if (ok) { f2 c, q; f2_init(&c); f2_init(&q); mpz_set(c.a, x0); mpz_set(c.b, x1); f2_mul(&q, &c, &c); ok = f2_eq(&q, v); if (ok) f2_set(r, &c); f2_clear(&c); f2_clear(&q); }
	mpz_clears(n, s, t, i2, x0, x1, NULL); return ok;
}

typedef struct { f2 x, y; int inf; } rpt2;
typedef struct { f2 a, b; } rcurve2;
static void rpt2_init(rpt2 *r) { f2_init(&r->x); f2_init(&r->y); r->inf = 1; }
static void rpt2_clear(rpt2 *r) { f2_clear(&r->x); f2_clear(&r->y); }
static void rpt2_set(rpt2 *r, const rpt2 *p) { f2_set(&r->x, &p->x); f2_set(&r->y, &p->y); r->inf = p->inf; }
static void rpt2_set_inf(rpt2 *r) { f2_set_si(&r->x, 0, 0); f2_set_si(&r->y, 0, 0); r->inf = 1; }
static int rpt2_eq(const rpt2 *p, const rpt2 *q) { if (p->inf || q->inf) return p->inf && q->inf; return f2_eq(&p->x, &q->x) && f2_eq(&p->y, &q->y); }
static void rcurve2_init(rcurve2 *c) { f2_init(&c->a); f2_init(&c->b); }
static void rpt2_rhs(const rcurve2 *c, f2 *r, const f2 *x) { f2 t; f2_init(&t); f2_mul(&t, x, x); f2_add(&t, &t, &c->a); f2_mul(&t, &t, x); f2_add(r, &t, &c->b); f2_clear(&t); }
static int rpt2_on_curve(const rcurve2 *c, const rpt2 *p) {
	if (p->inf) return 1;
	f2 l, r; f2_init(&l); f2_init(&r); f2_mul(&l, &p->y, &p->y); rpt2_rhs(c, &r, &p->x);
	int ok = f2_eq(&l, &r); f2_clear(&l); f2_clear(&r); return ok;
}
static void rpt2_neg(rpt2 *r, const rpt2 *p) { rpt2_set(r, p); if (!r->inf) f2_neg(&r->y, &r->y); }
static void rpt2_add(const rcurve2 *c, rpt2 *r, const rpt2 *p, const rpt2 *q) {
	if (p->inf) { rpt2_set(r, q); return; }
	if (q->inf) { rpt2_set(r, p); return; }
	f2 l, t, x3, y3; f2_init(&l); f2_init(&t); f2_init(&x3); f2_init(&y3);
	if (f2_eq(&p->x, &q->x)) {
		f2_add(&t, &p->y, &q->y);
		if (f2_is_zero(&t)) { rpt2_set_inf(r); goto done; }
		f2_mul(&l, &p->x, &p->x); f2_mul_ui(&l, &l, 3); f2_add(&l, &l, &c->a); f2_mul_ui(&t, &p->y, 2); f2_inv(&t, &t); f2_mul(&l, &l, &t);
	} else { f2_sub(&l, &q->y, &p->y); f2_sub(&t, &q->x, &p->x); f2_inv(&t, &t); f2_mul(&l, &l, &t); }
	f2_mul(&x3, &l, &l); f2_sub(&x3, &x3, &p->x); f2_sub(&x3, &x3, &q->x);
	f2_sub(&y3, &p->x, &x3); f2_mul(&y3, &y3, &l); f2_sub(&y3, &y3, &p->y);
	f2_set(&r->x, &x3); f2_set(&r->y, &y3); r->inf = 0;
done:
	f2_clear(&l); f2_clear(&t); f2_clear(&x3); f2_clear(&y3);
}
static void rpt2_mul(const rcurve2 *c, rpt2 *r, const rpt2 *p, const mpz_t k) {
	rpt2 acc, base; rpt2_init(&acc); rpt2_init(&base); rpt2_set(&base, p);
	mpz_t a; mpz_init(a); mpz_abs(a, k);
	size_t n = mpz_sgn(a) ? mpz_sizeinbase(a, 2) : 0;
	for (size_t i = n; i-- > 0;) { rpt2_add(c, &acc, &acc, &acc); if (mpz_tstbit(a, i)) rpt2_add(c, &acc, &acc, &base); }
	if (mpz_sgn(k) < 0) rpt2_neg(&acc, &acc);
	mpz_clear(a); rpt2_set(r, &acc); rpt2_clear(&acc); rpt2_clear(&base);
}
/* lift x to a curve point if rhs(x) is a square */
static int rpt2_lift_x(const rcurve2 *c, rpt2 *r, const f2 *x) {
	f2 v; f2_init(&v); rpt2_rhs(c, &v, x); int ok = f2_sqrt(&r->y, &v); if (ok) { f2_set(&r->x, x); r->inf = 0; } f2_clear(&v); return ok;
}
#endif
