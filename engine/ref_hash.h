/*
 * ref_hash.h -- reference hashing pieces: OpenSSL EVP digests/HMAC/AES, own MGF1 / KDF2 / expand_message_xmd
 * and a parametrised BLAKE2s (RFC 7693) for the 160-bit variant OpenSSL does not offer. Never calls relic.
 */
#ifndef REF_HASH_H
#define REF_HASH_H
#include <string.h>
#include <stdint.h>
#include <openssl/evp.h>
#include <openssl/hmac.h>

static int ref_digest(const char *name, const uint8_t *m, size_t l, uint8_t *o) {
	unsigned ol = 0; const EVP_MD *md = EVP_get_digestbyname(name); if (!md) return -1;
	EVP_Digest(m, l, o, &ol, md, NULL); return (int)ol;
}
/* counter-mode KDF over SHA-256: start = 0 -> MGF1 (PKCS#1), start = 1 -> KDF2 (IEEE 1363 / X9.63) */
static void ref_ctr_kdf(uint8_t *out, size_t n, const uint8_t *in, size_t l, uint32_t start) {
	uint8_t *buf = malloc(l + 4), h[32]; memcpy(buf, in, l); size_t off = 0;
	for (uint32_t c = start; off < n; c++) { buf[l] = (uint8_t)(c >> 24); buf[l + 1] = (uint8_t)(c >> 16); buf[l + 2] = (uint8_t)(c >> 8); buf[l + 3] = (uint8_t)c; ref_digest("SHA256", buf, l + 4, h); size_t m = n - off < 32 ? n - off : 32; memcpy(out + off, h, m); off += m; }
	free(buf);
}
/* RFC 9380 section 5.3.1 expand_message_xmd; returns 0 if the parameters are outside the RFC's range */
static int ref_xmd(const char *hname, size_t hlen, size_t blk, uint8_t *out, size_t n, const uint8_t *msg, size_t ml, const uint8_t *dst, size_t dl) {
	size_t ell = (n + hlen - 1) / hlen;
	if (ell > 255 || n > 65535 || dl > 255) return 0;
	uint8_t *buf = malloc(blk + ml + 3 + dl + 1 + 200), b0[64], bi[64], t[64]; size_t p = 0;
	memset(buf, 0, blk); p = blk; memcpy(buf + p, msg, ml); p += ml; buf[p++] = (uint8_t)(n >> 8); buf[p++] = (uint8_t)n; buf[p++] = 0; memcpy(buf + p, dst, dl); p += dl; buf[p++] = (uint8_t)dl;
	ref_digest(hname, buf, p, b0);
	memcpy(buf, b0, hlen); p = hlen; buf[p++] = 1; memcpy(buf + p, dst, dl); p += dl; buf[p++] = (uint8_t)dl; ref_digest(hname, buf, p, bi);
	size_t off = 0;
	for (size_t i = 1; i <= ell; i++) {
		size_t m = n - off < hlen ? n - off : hlen; memcpy(out + off, bi, m); off += m; if (i == ell) break;
		for (size_t j = 0; j < hlen; j++) t[j] = b0[j] ^ bi[j];
		memcpy(buf, t, hlen); p = hlen; buf[p++] = (uint8_t)(i + 1); memcpy(buf + p, dst, dl); p += dl; buf[p++] = (uint8_t)dl; ref_digest(hname, buf, p, bi);
	}
	free(buf); return 1;
}
/* BLAKE2s, unkeyed, digest length outlen (1..32) -- RFC 7693 */
static uint32_t b2_rotr(uint32_t x, int n) { return (x >> n) | (x << (32 - n)); }
static void ref_blake2s(uint8_t *out, size_t outlen, const uint8_t *in, size_t inlen) {
	static const uint32_t IV[8] = {0x6A09E667, 0xBB67AE85, 0x3C6EF372, 0xA54FF53A, 0x510E527F, 0x9B05688C, 0x1F83D9AB, 0x5BE0CD19};
	static const uint8_t SG[10][16] = {{0,1,2,3,4,5,6,7,8,9,10,11,12,13,14,15},{14,10,4,8,9,15,13,6,1,12,0,2,11,7,5,3},{11,8,12,0,5,2,15,13,10,14,3,6,7,1,9,4},{7,9,3,1,13,12,11,14,2,6,5,10,4,0,15,8},{9,0,5,7,2,4,10,15,14,1,11,12,6,8,3,13},{2,12,6,10,0,11,8,3,4,13,7,5,15,14,1,9},{12,5,1,15,14,13,4,10,0,7,6,3,9,2,8,11},{13,11,7,14,12,1,3,9,5,0,15,4,8,6,2,10},{6,15,14,9,11,3,0,8,12,2,13,7,1,4,10,5},{10,2,8,4,7,6,1,5,15,11,9,14,3,12,13,0}};
	uint32_t h[8]; for (int i = 0; i < 8; i++) h[i] = IV[i]; h[0] ^= 0x01010000 ^ (uint32_t)outlen;
	uint64_t t = 0; size_t off = 0; uint8_t blk[64];
	do {
		size_t n = inlen - off; int last = n <= 64; if (n > 64) n = 64;
		memset(blk, 0, 64); if (n) memcpy(blk, in + off, n); off += n; t += n;
		uint32_t m[16], v[16];
		for (int i = 0; i < 16; i++) m[i] = (uint32_t)blk[4 * i] | ((uint32_t)blk[4 * i + 1] << 8) | ((uint32_t)blk[4 * i + 2] << 16) | ((uint32_t)blk[4 * i + 3] << 24);
		for (int i = 0; i < 8; i++) { v[i] = h[i]; v[i + 8] = IV[i]; }
		v[12] ^= (uint32_t)t; v[13] ^= (uint32_t)(t >> 32); if (last) v[14] = ~v[14];
#define B2G(a, b, c, d, x, y) do { v[a] = v[a] + v[b] + (x); v[d] = b2_rotr(v[d] ^ v[a], 16); v[c] = v[c] + v[d]; v[b] = b2_rotr(v[b] ^ v[c], 12); v[a] = v[a] + v[b] + (y); v[d] = b2_rotr(v[d] ^ v[a], 8); v[c] = v[c] + v[d]; v[b] = b2_rotr(v[b] ^ v[c], 7); } while (0)
		for (int r = 0; r < 10; r++) { const uint8_t *s = SG[r];
			B2G(0, 4, 8, 12, m[s[0]], m[s[1]]); B2G(1, 5, 9, 13, m[s[2]], m[s[3]]); B2G(2, 6, 10, 14, m[s[4]], m[s[5]]); B2G(3, 7, 11, 15, m[s[6]], m[s[7]]);
			B2G(0, 5, 10, 15, m[s[8]], m[s[9]]); B2G(1, 6, 11, 12, m[s[10]], m[s[11]]); B2G(2, 7, 8, 13, m[s[12]], m[s[13]]); B2G(3, 4, 9, 14, m[s[14]], m[s[15]]); }
		for (int i = 0; i < 8; i++) h[i] ^= v[i] ^ v[i + 8];
		if (last) break;
	} while (1);
	uint8_t full[32]; for (int i = 0; i < 8; i++) { full[4 * i] = (uint8_t)h[i]; full[4 * i + 1] = (uint8_t)(h[i] >> 8); full[4 * i + 2] = (uint8_t)(h[i] >> 16); full[4 * i + 3] = (uint8_t)(h[i] >> 24); }
	memcpy(out, full, outlen);
}
/* AES-CBC with PKCS#7 through EVP; returns ciphertext length */
static int ref_aes_cbc_enc(uint8_t *ct, const uint8_t *pt, size_t l, const uint8_t *key, int ks, const uint8_t *iv) {
	EVP_CIPHER_CTX *c = EVP_CIPHER_CTX_new(); const EVP_CIPHER *ci = ks == 16 ? EVP_aes_128_cbc() : ks == 24 ? EVP_aes_192_cbc() : EVP_aes_256_cbc(); int o1 = 0, o2 = 0;
	EVP_EncryptInit_ex(c, ci, NULL, key, iv); EVP_EncryptUpdate(c, ct, &o1, pt, (int)l); EVP_EncryptFinal_ex(c, ct + o1, &o2); EVP_CIPHER_CTX_free(c); return o1 + o2;
}
/* returns plaintext length or -1 if the padding is invalid / length not a positive multiple of 16 */
static int ref_aes_cbc_dec(uint8_t *pt, const uint8_t *ct, size_t l, const uint8_t *key, int ks, const uint8_t *iv) {
	if (l == 0 || l % 16) return -1;
	EVP_CIPHER_CTX *c = EVP_CIPHER_CTX_new(); const EVP_CIPHER *ci = ks == 16 ? EVP_aes_128_cbc() : ks == 24 ? EVP_aes_192_cbc() : EVP_aes_256_cbc(); int o1 = 0, o2 = 0;
	EVP_DecryptInit_ex(c, ci, NULL, key, iv); EVP_DecryptUpdate(c, pt, &o1, ct, (int)l); int ok = EVP_DecryptFinal_ex(c, pt + o1, &o2); EVP_CIPHER_CTX_free(c);
	return ok == 1 ? o1 + o2 : -1;
}
#endif
