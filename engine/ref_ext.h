/*
 * ref_ext.h -- reference model for extension towers: an element of F_p^N is its vector of N base-field
 * coefficients in relic's (nested-array) storage order; each level is sub[X]/(X^d - gamma).
 * Multiplication is schoolbook polynomial multiplication followed by X^d -> gamma. Never calls relic.
 */
#ifndef REF_EXT_H
#define REF_EXT_H
#include <gmp.h>
#include <stdlib.h>

#define RX_MAXN 54
typedef struct rtower {
	int n;                      /* total number of F_p coefficients */
	int deg;                    /* degree over the sub-level (1 for the base field) */
	const struct rtower *sub;   /* NULL for the base field */
	mpz_t gamma[RX_MAXN];       /* X^deg = gamma, an element of the sub-level (sub->n coefficients) */
} rtower;
static mpz_t RX_P;              /* the prime */
static int rx_inited = 0;
static void rx_init(void) { if (!rx_inited) { mpz_init(RX_P); rx_inited = 1; } }

typedef struct { mpz_t c[RX_MAXN]; } relt;
static void relt_init(relt *e) { for (int i = 0; i < RX_MAXN; i++) mpz_init(e->c[i]); }
static void relt_clear(relt *e) { for (int i = 0; i < RX_MAXN; i++) mpz_clear(e->c[i]); }
static void relt_set(const rtower *T, relt *r, const relt *a) { for (int i = 0; i < T->n; i++) mpz_set(r->c[i], a->c[i]); }
static void relt_zero(const rtower *T, relt *r) { for (int i = 0; i < T->n; i++) mpz_set_ui(r->c[i], 0); }
static void relt_one(const rtower *T, relt *r) { relt_zero(T, r); mpz_set_ui(r->c[0], 1); }
static int relt_eq(const rtower *T, const relt *a, const relt *b) { for (int i = 0; i < T->n; i++) if (mpz_cmp(a->c[i], b->c[i])) return 0; return 1; }
static int relt_is_zero(const rtower *T, const relt *a) { for (int i = 0; i < T->n; i++) if (mpz_sgn(a->c[i])) return 0; return 1; }
static void relt_add(const rtower *T, relt *r, const relt *a, const relt *b) { for (int i = 0; i < T->n; i++) { mpz_add(r->c[i], a->c[i], b->c[i]); mpz_mod(r->c[i], r->c[i], RX_P); } }
static void relt_sub(const rtower *T, relt *r, const relt *a, const relt *b) { for (int i = 0; i < T->n; i++) { mpz_sub(r->c[i], a->c[i], b->c[i]); mpz_mod(r->c[i], r->c[i], RX_P); } }

/* r = a * b on coefficient arrays (r must not alias a or b); tmp-free recursion on heap arrays */
static void rx_mul_raw(const rtower *T, mpz_t *r, mpz_t *a, mpz_t *b) {
	if (T->sub == NULL) { mpz_mul(r[0], a[0], b[0]); mpz_mod(r[0], r[0], RX_P); return; }
	int d = T->deg, ns = T->sub->n;
	mpz_t *prod = malloc(sizeof(mpz_t) * (size_t)((2 * d - 1) * ns)), *t = malloc(sizeof(mpz_t) * (size_t)ns);
	for (int i = 0; i < (2 * d - 1) * ns; i++) mpz_init(prod[i]);
	for (int i = 0; i < ns; i++) mpz_init(t[i]);
	for (int i = 0; i < d; i++) for (int j = 0; j < d; j++) {
		rx_mul_raw(T->sub, t, a + i * ns, b + j * ns);
		for (int k = 0; k < ns; k++) { mpz_add(prod[(i + j) * ns + k], prod[(i + j) * ns + k], t[k]); mpz_mod(prod[(i + j) * ns + k], prod[(i + j) * ns + k], RX_P); }
	}
	for (int k = 2 * d - 2; k >= d; k--) { /* X^k = gamma X^(k-d) */
		rx_mul_raw(T->sub, t, prod + k * ns, (mpz_t *)T->gamma);
		for (int q = 0; q < ns; q++) { mpz_add(prod[(k - d) * ns + q], prod[(k - d) * ns + q], t[q]); mpz_mod(prod[(k - d) * ns + q], prod[(k - d) * ns + q], RX_P); }
	}
	for (int i = 0; i < d * ns; i++) mpz_set(r[i], prod[i]);
	for (int i = 0; i < (2 * d - 1) * ns; i++) mpz_clear(prod[i]);
	for (int i = 0; i < ns; i++) mpz_clear(t[i]);
	free(prod); free(t);
}
static void relt_mul(const rtower *T, relt *r, const relt *a, const relt *b) {
	relt t; relt_init(&t); rx_mul_raw(T, t.c, (mpz_t *)a->c, (mpz_t *)b->c); relt_set(T, r, &t); relt_clear(&t);
}
/* r = a^e, e >= 0 */
static void relt_pow(const rtower *T, relt *r, const relt *a, const mpz_t e) {
	relt acc, base; relt_init(&acc); relt_init(&base); relt_one(T, &acc); relt_set(T, &base, a);
	size_t n = mpz_sgn(e) ? mpz_sizeinbase(e, 2) : 0;
	for (size_t i = n; i-- > 0;) { relt_mul(T, &acc, &acc, &acc); if (mpz_tstbit(e, i)) relt_mul(T, &acc, &acc, &base); }
	relt_set(T, r, &acc); relt_clear(&acc); relt_clear(&base);
}
/* q = p^n */
static void rx_field_size(mpz_t q, const rtower *T) { mpz_pow_ui(q, RX_P, (unsigned long)T->n); }
/* is X^deg - gamma irreducible over the sub-level? (deg in {2,3}: gamma must not be a deg-th power) */
static int rx_gamma_ok(const rtower *T) {
	if (T->sub == NULL) return 1;
	mpz_t q, e; mpz_inits(q, e, NULL); rx_field_size(q, T->sub); mpz_sub_ui(q, q, 1);
	int ok = 1; relt g, r; relt_init(&g); relt_init(&r);
	for (int i = 0; i < T->sub->n; i++) mpz_set(g.c[i], T->gamma[i]);
	if (relt_is_zero(T->sub, &g)) ok = 0;
	else if (!mpz_divisible_ui_p(q, (unsigned long)T->deg)) ok = 0; /* then every element is a deg-th power */
	else { mpz_divexact_ui(e, q, (unsigned long)T->deg); relt_pow(T->sub, &r, &g, e); relt one; relt_init(&one); relt_one(T->sub, &one); if (relt_eq(T->sub, &r, &one)) ok = 0; relt_clear(&one); }
	relt_clear(&g); relt_clear(&r); mpz_clears(q, e, NULL); return ok;
}
#endif
