/*
 * pc_common.h -- shared by the pairing-group harnesses (C04, C12, C05/C06 where they touch GT): the k = 12 tower
 * F_p^2 -> F_p^6 -> F_p^12 as a reference quotient ring (ref_ext.h) with the constants of each level read from the
 * library (X^d computed with the library's multiplication) and VALIDATED irreducible by the reference.
 * A GT element travels in a case argument as sum c_i * 2^(i * F2BITS), c_i in the library's storage order.
 */
#ifndef PC_COMMON_H
#define PC_COMMON_H
#include "ep2_common.h"
#include "ref_ext.h"

static rtower T1, T2, T6, T12; static int towers_init = 0; static mpz_t towers_p;
static mpz_t GT_Q12, GT_COFAC; /* p^12 - 1 over r */

static void gt_get(relt *e, const void *g) { const fp_st *s = (const fp_st *)g; for (int i = 0; i < 12; i++) vf_fp_get(e->c[i], s[i]); }
static int gt_get_canon(relt *e, const void *g) { const fp_st *s = (const fp_st *)g; int ok = 1; for (int i = 0; i < 12; i++) ok &= vf_fp_get(e->c[i], s[i]); return ok; }
static void gt_put(void *g, const relt *e) { fp_st *s = (fp_st *)g; for (int i = 0; i < 12; i++) vf_fp_set(s[i], e->c[i]); }
static void gt_pack(mpz_t v, const relt *e) { mpz_set_ui(v, 0); for (int i = 11; i >= 0; i--) { mpz_mul_2exp(v, v, (unsigned long)F2BITS); mpz_add(v, v, e->c[i]); } }
static void gt_unpack(relt *e, const mpz_t v) { mpz_t t; mpz_init_set(t, v); for (int i = 0; i < 12; i++) { mpz_fdiv_r_2exp(e->c[i], t, (unsigned long)F2BITS); mpz_mod(e->c[i], e->c[i], RX_P); mpz_fdiv_q_2exp(t, t, (unsigned long)F2BITS); } mpz_clear(t); }

/* after a pairing-friendly curve has been selected (vf_p current, beta learned) */
static int learn_towers(void) {
	if (!towers_init) { rx_init(); mpz_inits(towers_p, GT_Q12, GT_COFAC, NULL); rtower *ts[] = {&T1, &T2, &T6, &T12}; for (int t = 0; t < 4; t++) for (int j = 0; j < RX_MAXN; j++) mpz_init(ts[t]->gamma[j]);
		T1.n = 1; T1.deg = 1; T1.sub = NULL; T2.n = 2; T2.deg = 2; T2.sub = &T1; T6.n = 6; T6.deg = 3; T6.sub = &T2; T12.n = 12; T12.deg = 2; T12.sub = &T6; towers_init = 1; }
	if (!mpz_cmp(towers_p, vf_p)) return 1;
	mpz_set(RX_P, vf_p); mpz_set(T2.gamma[0], F2BETA);
	int th; relt X; relt_init(&X);
	{ fp6_t x, y; fp6_new(x); fp6_new(y); fp6_zero(x); relt_zero(&T6, &X); mpz_set_ui(X.c[2], 1); fp_st *s = (fp_st *)x; for (int i = 0; i < 6; i++) vf_fp_set(s[i], X.c[i]);
		VF_TRY(th, fp6_mul(y, x, x)); if (th) return 0; VF_TRY(th, fp6_mul(y, y, x)); if (th) return 0;
		s = (fp_st *)y; for (int i = 0; i < 6; i++) vf_fp_get(X.c[i], s[i]); for (int i = 2; i < 6; i++) if (mpz_sgn(X.c[i])) return 0; mpz_set(T6.gamma[0], X.c[0]); mpz_set(T6.gamma[1], X.c[1]); }
	{ fp12_t x, y; fp12_new(x); fp12_new(y); fp12_zero(x); relt_zero(&T12, &X); mpz_set_ui(X.c[6], 1); gt_put(x, &X);
		VF_TRY(th, fp12_mul(y, x, x)); if (th) return 0;
		gt_get(&X, y); for (int i = 6; i < 12; i++) if (mpz_sgn(X.c[i])) return 0; for (int i = 0; i < 6; i++) mpz_set(T12.gamma[i], X.c[i]); }
	relt_clear(&X);
	if (!rx_gamma_ok(&T2) || !rx_gamma_ok(&T6) || !rx_gamma_ok(&T12)) return 0;
	mpz_pow_ui(GT_Q12, vf_p, 12); mpz_sub_ui(GT_Q12, GT_Q12, 1);
	mpz_set(towers_p, vf_p); return 1;
}
/* r = a^e for any integer e (negative: through the inverse a^(p^12 - 2)) */
static void gt_ref_pow(relt *r, const relt *a, const mpz_t e) {
	if (mpz_sgn(e) >= 0) { relt_pow(&T12, r, a, e); return; }
	mpz_t t; mpz_init(t); mpz_sub_ui(t, GT_Q12, 1); relt inv; relt_init(&inv); relt_pow(&T12, &inv, a, t); mpz_neg(t, e); relt_pow(&T12, r, &inv, t); relt_clear(&inv); mpz_clear(t);
}
static int gt_ref_is_one(const relt *a) { if (mpz_cmp_ui(a->c[0], 1)) return 0; for (int i = 1; i < 12; i++) if (mpz_sgn(a->c[i])) return 0; return 1; }
/* selection: curve + twist + towers; pc-level generator of GT is computed by the library in ep2_curve_set_twist (pc_core_calc) */
static int select_pc(long cid) { if (!select_curve2(cid)) return 0; return learn_towers(); }
#endif
