/*
 * ref_ed.h -- reference model: the twisted Edwards curve a x^2 + y^2 = 1 + d x^2 y^2 over F_p with the affine
 * addition law (x1y2 + y1x2)/(1 + d x1x2y1y2), (y1y2 - a x1x2)/(1 - d x1x2y1y2), complete when a is a square and d is not
 * (checked by the harness). Neutral element (0, 1). Plain integer scalars. Never calls relic.
 */
#ifndef REF_ED_H
#define REF_ED_H
#include <gmp.h>
#include "ref_ec.h"
typedef struct { mpz_t x, y; } edp;
typedef struct { mpz_t p, a, d; } edcurve;
static void edp_init(edp *r) { mpz_init(r->x); mpz_init_set_ui(r->y, 1); }
static void edp_clear(edp *r) { mpz_clear(r->x); mpz_clear(r->y); }
static void edp_set(edp *r, const edp *p) { mpz_set(r->x, p->x); mpz_set(r->y, p->y); }
static void edp_set_id(edp *r) { mpz_set_ui(r->x, 0); mpz_set_ui(r->y, 1); }
static int edp_is_id(const edp *p) { return !mpz_sgn(p->x) && !mpz_cmp_ui(p->y, 1); }
static int edp_eq(const edp *p, const edp *q) { return !mpz_cmp(p->x, q->x) && !mpz_cmp(p->y, q->y); }
static void edcurve_init(edcurve *c) { mpz_inits(c->p, c->a, c->d, NULL); }
static int edp_on_curve(const edcurve *c, const edp *p) {
	mpz_t l, r, x2, y2; mpz_inits(l, r, x2, y2, NULL); mpz_mul(x2, p->x, p->x); mpz_mul(y2, p->y, p->y);
	mpz_mul(l, c->a, x2); mpz_add(l, l, y2); mpz_mod(l, l, c->p); mpz_mul(r, x2, y2); mpz_mod(r, r, c->p); mpz_mul(r, r, c->d); mpz_add_ui(r, r, 1); mpz_mod(r, r, c->p);
	int ok = !mpz_cmp(l, r); mpz_clears(l, r, x2, y2, NULL); return ok;
}
static void edp_neg(const edcurve *c, edp *r, const edp *p) { edp_set(r, p); if (mpz_sgn(r->x)) mpz_sub(r->x, c->p, r->x); }
/* returns 0 if a denominator vanishes (cannot happen on a complete curve) */
static int edp_add(const edcurve *c, edp *r, const edp *p, const edp *q) {
	mpz_t t, n1, n2, d1, d2; mpz_inits(t, n1, n2, d1, d2, NULL);
	mpz_mul(t, p->x, q->x); mpz_mul(t, t, p->y); mpz_mod(t, t, c->p); mpz_mul(t, t, q->y); mpz_mod(t, t, c->p); mpz_mul(t, t, c->d); mpz_mod(t, t, c->p);
	mpz_mul(n1, p->x, q->y); mpz_addmul(n1, p->y, q->x); mpz_mul(n2, p->y, q->y); mpz_mul(d1, p->x, q->x); mpz_mod(d1, d1, c->p); mpz_mul(d1, d1, c->a); mpz_sub(n2, n2, d1);
	mpz_add_ui(d1, t, 1); mpz_mod(d1, d1, c->p); mpz_ui_sub(d2, 1, t); mpz_mod(d2, d2, c->p);
	int ok = mpz_sgn(d1) && mpz_sgn(d2);
	if (ok) { mpz_invert(d1, d1, c->p); mpz_invert(d2, d2, c->p); mpz_mul(n1, n1, d1); mpz_mod(r->x, n1, c->p); mpz_mul(n2, n2, d2); mpz_mod(r->y, n2, c->p); }
	mpz_clears(t, n1, n2, d1, d2, NULL); return ok;
}
static void edp_mul(const edcurve *c, edp *r, const edp *p, const mpz_t k) {
	edp acc, base; edp_init(&acc); edp_init(&base); edp_set(&base, p); mpz_t a; mpz_init(a); mpz_abs(a, k);
	size_t n = mpz_sgn(a) ? mpz_sizeinbase(a, 2) : 0;
	for (size_t i = n; i-- > 0;) { edp_add(c, &acc, &acc, &acc); if (mpz_tstbit(a, i)) edp_add(c, &acc, &acc, &base); }
	if (mpz_sgn(k) < 0) edp_neg(c, &acc, &acc);
	mpz_clear(a); edp_set(r, &acc); edp_clear(&acc); edp_clear(&base);
}
/* lift y to a curve point: x^2 = (y^2 - 1)/(d y^2 - a) */
static int edp_lift_y(const edcurve *c, edp *r, const mpz_t y) {
	mpz_t n, d; mpz_inits(n, d, NULL); mpz_mul(n, y, y); mpz_mul(d, n, c->d); mpz_sub(d, d, c->a); mpz_mod(d, d, c->p); mpz_sub_ui(n, n, 1); mpz_mod(n, n, c->p);
	int ok = mpz_sgn(d) != 0; if (ok) { mpz_invert(d, d, c->p); mpz_mul(n, n, d); mpz_mod(n, n, c->p); ok = ref_sqrt_mod(r->x, n, c->p); if (ok) mpz_mod(r->y, y, c->p); }
	mpz_clears(n, d, NULL); return ok;
}
#endif
