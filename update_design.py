#!/usr/bin/env python3
"""Regenerates the generated lists of DESIGN.md section 0 (fixed defects, known findings, seeded changes) from
known_findings.json and seeded/*/meta.json. Run after changing either."""
import json, glob, re
kf = json.load(open('/verif/known_findings.json'))
seeds = {}
for f in sorted(glob.glob('/verif/seeded/*/meta.json')):
    d = json.load(open(f)); seeds[d['seed']] = d
def first_line(s):
    s = s.strip().split('\n')
    return ' '.join(x.strip() for x in s[:2])[:230].replace('|', '/')
blocks = {
 'fixed': "\n".join("* " + x[len("fixed: "):] for x in kf['fixed']),
 'findings': "\n".join("* **%s** (%s) — %s" % (f['id'], f['property'], f['what']) for f in kf['findings']),
 'seeds': "| seed | property | what it needs to manifest (from the sub-agent's notes) | quick check |\n|---|---|---|---|\n" + "\n".join("| %s | %s | %s | %s |" % (k, v['property'], first_line(v.get('needs_to_manifest', '')), "detected" if v.get('detected') else "**missed**") for k, v in sorted(seeds.items())),
}
s = open('/verif/DESIGN.md').read()
for k, v in blocks.items():
    s = re.sub(r'<!-- BEGIN %s -->\n.*?\n<!-- END %s -->' % (k, k), lambda m: '<!-- BEGIN %s -->\n%s\n<!-- END %s -->' % (k, v, k), s, flags=re.S)
s = re.sub(r'\n\d+ genuine defects were repaired', '\n%d genuine defects were repaired' % len(kf['fixed']), s)
open('/verif/DESIGN.md', 'w').write(s)
print("DESIGN.md lists regenerated: %d fixed, %d findings, %d seeds" % (len(kf['fixed']), len(kf['findings']), len(seeds)))
