/*
 * C17 -- Edwards curves implement the twisted-Edwards group.
 *
 * W8 (tiny): twisted Edwards curves -x^2 + y^2 = 1 + d x^2 y^2 over 16-bit primes found by reference point counting and installed by
 *   writing the curve context (the library has no public setter for Edwards curves): complete Cayley tables over ALL points (incl. the
 *   points of order 2, 4, 8), every scalar in [-2r-3, 2r+3] for every routine.
 * W64-255: Ed25519: generator multiples, every point of order 1, 2, 4, 8 and their sums with members, scalar alphabet, codec and
 *   compression round trips, hashing.
 * Reference: ref_ed.h. Case args: v[0] = curve id, points as (x, y).
 */
#include "vf_relic.h"
#include "ref_ed.h"

static edcurve EC_; static edp EG; static mpz_t EN, EH; static long cur_ed = -1; static unsigned long long transitions = 0; static mpz_t zt;
static const int tiny = (WSIZE != 64);
typedef struct { long p, d, order, r, h, gx, gy; const char *name; } tiny_ed;
static tiny_ed TE[8]; static int nte = 0;
static long modl(long x, long p) { x %= p; return x < 0 ? x + p : x; }
static long powl_(long b, long e, long p) { __int128 r = 1, x = modl(b, p); while (e) { if (e & 1) r = r * x % p; x = x * x % p; e >>= 1; } return (long)r; }
static int isprime_l(long n) { if (n < 2) return 0; for (long d = 2; d * d <= n; d++) if (n % d == 0) return 0; return 1; }
/* a = -1 (a square: p = 1 mod 4), d a non-square: complete addition law. kind: minimal r wanted */
static void find_ed(const char *name, long p, long rmin, long skip) {
	signed char *leg = malloc((size_t)p); for (long v = 0; v < p; v++) leg[v] = (signed char)(v == 0 ? 0 : (powl_(v, (p - 1) / 2, p) == 1 ? 1 : -1));
	for (long d = 2; d < p; d++) { if (leg[d] != -1) continue;
		/* count: for each x, y^2 = (1 + x^2)/(1 - d x^2) */
		long n = 0; for (long x = 0; x < p; x++) { long x2 = (long)((__int128)x * x % p); long den = modl(1 - (long)((__int128)d * x2 % p), p); if (!den) continue; long v = (long)((__int128)(1 + x2) % p * powl_(den, p - 2, p) % p); n += 1 + leg[v]; }
		long h = 1, r = n; while (r % 2 == 0) { r /= 2; h *= 2; } if (!isprime_l(r) || h < 4 || h > 8 || r < rmin) continue; if (skip-- > 0) continue;
		tiny_ed *c = &TE[nte]; memset(c, 0, sizeof *c); c->name = name; c->p = p; c->d = d; c->order = n; c->r = r; c->h = h;
		edcurve C; edcurve_init(&C); mpz_set_si(C.p, p); mpz_set_si(C.a, p - 1); mpz_set_si(C.d, d); edp g, t; edp_init(&g); edp_init(&t); mpz_t y, hh; mpz_init(y); mpz_init_set_si(hh, h); int ok = 0;
		for (long yy = 2; yy < p && !ok; yy++) { mpz_set_si(y, yy); if (!edp_lift_y(&C, &g, y)) continue; edp_mul(&C, &t, &g, hh); if (edp_is_id(&t)) continue; c->gx = mpz_get_si(t.x); c->gy = mpz_get_si(t.y); ok = 1; }
		if (!ok) continue; nte++; free(leg); return; }
	fprintf(stderr, "no tiny Edwards curve for %s\n", name); exit(2);
}
static void harness_setup(void) {
	if (core_init() != RLC_OK) exit(2);
	vf_reseed(); edcurve_init(&EC_); edp_init(&EG); mpz_inits(EN, EH, zt, NULL);
	if (tiny) {
		find_ed("E0 p=257", 257, 7, 0);        /* 0: complete table, ~260 points */
		find_ed("E1 p=1009", 1009, 50, 0);     /* 1: complete table, ~1000 points */
		find_ed("E2 p=65521", 65521, 4000, 0); /* 2: every scalar */
		find_ed("E3 p=65449", 65449, 4000, 1); /* 3: every scalar, other cofactor pattern */
		find_ed("E4 p=281", 281, 7, 1);        /* 4 */
		for (int i = 0; i < nte; i++) printf("@INFO Edwards curve %d: %s a=-1 d=%ld order=%ld = %ld * %ld G=(%ld,%ld)\n", i, TE[i].name, TE[i].d, TE[i].order, TE[i].h, TE[i].r, TE[i].gx, TE[i].gy);
	}
}
#define REP_AFF 0
#define REP_PRJ 1
#define REP_EXT 2
static void ed_inject(ed_t e, const edp *p, int rep, unsigned long lam) {
	mpz_t l, t; mpz_init_set_ui(l, rep == REP_AFF ? 1 : lam); mpz_init(t);
	mpz_mul(t, p->x, l); vf_fp_set(e->x, t); mpz_mul(t, p->y, l); vf_fp_set(e->y, t); vf_fp_set(e->z, l); mpz_mul(t, p->x, p->y); mpz_mul(t, t, l); vf_fp_set(e->t, t);
	e->coord = rep == REP_AFF ? BASIC : rep == REP_PRJ ? PROJC : EXTND; mpz_clears(l, t, NULL);
}
/* 0: a coordinate not canonical / inconsistent */
static int strict_t = 0; /* set while judging results that the extended build feeds back into its additions (multiplication outputs): they must carry T = X Y / Z */
static int ed_extract(edp *r, const ed_t e, int *degenerate) {
	mpz_t x, y, z, t, zi; mpz_inits(x, y, z, t, zi, NULL); int ok = vf_fp_get(x, e->x) & vf_fp_get(y, e->y) & vf_fp_get(z, e->z); *degenerate = 0;
	if (!mpz_sgn(z)) { *degenerate = 1; mpz_clears(x, y, z, t, zi, NULL); return 0; }
	mpz_invert(zi, z, vf_p); if (e->coord == BASIC && mpz_cmp_ui(z, 1)) ok = 0;
	if (e->coord == EXTND || strict_t) { ok &= vf_fp_get(t, e->t); mpz_mul(t, t, z); mpz_submul(t, x, y); mpz_mod(t, t, vf_p); if (mpz_sgn(t)) ok = 0; }
	mpz_mul(x, x, zi); mpz_mod(r->x, x, vf_p); mpz_mul(y, y, zi); mpz_mod(r->y, y, vf_p);
	mpz_clears(x, y, z, t, zi, NULL); return ok;
}
static void expect_ed(const char *what, const ed_t got, const edp *exp, int must_norm, const char *kf) {
	edp r; edp_init(&r); transitions++; strict_t = (must_norm && ED_ADD == EXTND); int dg, canon = ed_extract(&r, got, &dg); strict_t = 0;
	if (dg) vf_fail(kf, "%s: result has z = 0", what);
	else if (!edp_eq(&r, exp)) { char b[700]; gmp_snprintf(b, sizeof b, "%s: expected (%Zx,%Zx) got (%Zx,%Zx)", what, exp->x, exp->y, r.x, r.y); vf_fail(kf, "%s", b); }
	else if (!canon) vf_fail(kf, "%s: a coordinate is not canonical, affine with z != 1, or extended with T Z != X Y (coord=%d)", what, got->coord);
	else if (must_norm && fp_cmp_dig(got->z, 1) != RLC_EQ) vf_fail(kf, "%s: result not normalised (z != 1)", what); /* the neutral element is returned with the PROJC flag and z = 1 */
	edp_clear(&r);
}
static int select_ed(long cid) {
	if (cid == cur_ed) return 1; cur_ed = -1; int th; ctx_t *ctx = core_get();
	if (tiny) { if (cid < 0 || cid >= nte) return 0; tiny_ed *c = &TE[cid];
		bn_t p; bn_new(p); mpz_set_si(zt, c->p); vf_bn_set(p, zt); VF_TRY(th, fp_prime_set_dense(p)); if (th) return 0; vf_fp_sync();
		mpz_set_si(EC_.p, c->p); mpz_set_si(EC_.a, c->p - 1); mpz_set_si(EC_.d, c->d); mpz_set_si(EG.x, c->gx); mpz_set_si(EG.y, c->gy); mpz_set_si(EN, c->r); mpz_set_si(EH, c->h);
		/* context injection: the Edwards module has no public curve setter */
		vf_fp_set(ctx->ed_a, EC_.a); vf_fp_set(ctx->ed_d, EC_.d); vf_bn_set(&ctx->ed_r, EN); vf_bn_set(&ctx->ed_h, EH);
		ed_t g; ed_new(g); ed_inject(g, &EG, REP_AFF, 1); ed_copy(&ctx->ed_g, g);
#if defined(ED_PRECO)
		VF_TRY(th, ed_mul_pre((ed_t *)ed_curve_get_tab(), &ctx->ed_g)); if (th) return 0;
#endif
	} else {
		VF_TRY(th, ed_param_set((int)cid)); if (th) return 0; vf_fp_sync();
		mpz_set(EC_.p, vf_p); vf_fp_get(EC_.a, ctx->ed_a); vf_fp_get(EC_.d, ctx->ed_d); ed_t g; ed_new(g); ed_curve_get_gen(g); int dg; ed_extract(&EG, g, &dg); vf_bn_get(EN, &ctx->ed_r); vf_bn_get(EH, &ctx->ed_h);
	}
	/* the reference law is complete iff a is a square and d is not */
	if (mpz_jacobi(EC_.a, EC_.p) != 1 || mpz_jacobi(EC_.d, EC_.p) != -1 || !edp_on_curve(&EC_, &EG)) return 0;
	cur_ed = cid; return 1;
}
static void pt_args(edp *p, const mpz_t x, const mpz_t y) { mpz_set(p->x, x); mpz_set(p->y, y); }
#if ED_ADD == PROJC
#define DREP REP_PRJ
#elif ED_ADD == EXTND
#define DREP REP_EXT
#else
#define DREP REP_AFF
#endif
static int ed_same(const ed_t a, const ed_t b) { return a->coord == b->coord && !memcmp(a->x, b->x, sizeof(fp_st)) && !memcmp(a->y, b->y, sizeof(fp_st)) && !memcmp(a->z, b->z, sizeof(fp_st)); }

typedef void (*add_fn)(ed_t, const ed_t, const ed_t);
typedef void (*un_fn)(ed_t, const ed_t);
static void do_law(vf_case *c) {
	int th; edp P, Q, S, D, N, M; edp_init(&P); edp_init(&Q); edp_init(&S); edp_init(&D); edp_init(&N); edp_init(&M);
	pt_args(&P, c->v[1], c->v[2]); pt_args(&Q, c->v[3], c->v[4]);
	edp_add(&EC_, &S, &P, &Q); edp_neg(&EC_, &N, &Q); edp_add(&EC_, &M, &P, &N); edp_add(&EC_, &D, &P, &P);
	ed_t p, q, r, sp, sq; ed_new(p); ed_new(q); ed_new(r); ed_new(sp); ed_new(sq);
	static const struct { const char *n; add_fn f, s; un_fn d; int rep; } SYS[] = {{"basic", ed_add_basic, ed_sub_basic, ed_dbl_basic, REP_AFF}, {"projc", ed_add_projc, ed_sub_projc, ed_dbl_projc, REP_PRJ}, {"extnd", ed_add_extnd, ed_sub_extnd, ed_dbl_extnd, REP_EXT}};
	int same = edp_eq(&P, &Q);
	/* the extended system is only maintained (T negated, copied, recomputed) in builds with ED_ADD = EXTND: judged there (world W8-edext) */
	for (int s = 0; s < (ED_ADD == EXTND ? 3 : 2); s++) {
		for (int rp = 0; rp < (s ? 2 : 1); rp++) for (int rq = 0; rq < (s ? 2 : 1); rq++) for (int al = 0; al < 4; al++) {
			if (al == 3 && (!same || rp != rq)) continue;
			for (int sub = 0; sub < 2; sub++) {
				ed_inject(p, &P, rp ? SYS[s].rep : REP_AFF, 3); ed_inject(q, &Q, rq ? SYS[s].rep : REP_AFF, 5); ed_copy(sp, p); ed_copy(sq, q);
				ed_st *pp = p, *pq = al == 3 ? p : q, *pr = al == 1 ? p : al == 2 ? q : r;
				if (pr == r) memset(r, 0x5A, sizeof(ed_st));
				char w[96]; snprintf(w, sizeof w, "ed_%s_%s[reps %d,%d alias %d]", sub ? "sub" : "add", SYS[s].n, rp, rq, al);
				VF_TRY(th, (sub ? SYS[s].s : SYS[s].f)(pr, pp, pq));
				if (th) { vf_fail(NULL, "%s raised %d", w, th); continue; }
				expect_ed(w, pr, sub ? &M : &S, 0, NULL);
				if (pr != p && !ed_same(p, sp)) vf_fail(NULL, "%s: first operand modified", w);
				if (pr != q && pq == q && !ed_same(q, sq)) vf_fail(NULL, "%s: second operand modified", w);
			}
		}
		for (int rp = 0; rp < (s ? 2 : 1); rp++) for (int al = 0; al < 2; al++) {
			ed_inject(p, &P, rp ? SYS[s].rep : REP_AFF, 7); ed_st *pr = al ? p : r; char w[96]; snprintf(w, sizeof w, "ed_dbl_%s[rep %d alias %d]", SYS[s].n, rp, al);
			VF_TRY(th, SYS[s].d(pr, p)); if (th) { vf_fail(NULL, "%s raised %d", w, th); continue; } expect_ed(w, pr, &D, 0, NULL);
		}
	}
	for (int rp = 0; rp < 2; rp++) for (int rq = 0; rq < 2; rq++) {
		ed_inject(p, &P, rp ? DREP : REP_AFF, 9); ed_inject(q, &Q, rq ? DREP : REP_AFF, 11);
		int e; VF_TRY(th, e = ed_cmp(p, q)); transitions++;
		if (th) vf_fail(NULL, "ed_cmp raised"); else if ((e == RLC_EQ) != same) vf_fail(NULL, "ed_cmp[reps %d,%d]: says %s for %s points", rp, rq, e == RLC_EQ ? "EQ" : "NE", same ? "equal" : "different");
	}
	for (int rp = 0; rp < (ED_ADD == EXTND ? 3 : 2); rp++) {
		ed_inject(p, &P, rp, 13); edp_neg(&EC_, &N, &P);
		if (rp == 0) { VF_TRY(th, ed_neg_basic(r, p)); if (th) vf_fail(NULL, "ed_neg_basic raised"); else expect_ed("ed_neg_basic", r, &N, 0, NULL); }
		else { VF_TRY(th, ed_neg_projc(r, p)); if (th) vf_fail(NULL, "ed_neg_projc raised"); else expect_ed(rp == 1 ? "ed_neg_projc[projc]" : "ed_neg_projc[extnd]", r, &N, 0, NULL); }
		VF_TRY(th, ed_norm(r, p)); if (th) vf_fail(NULL, "ed_norm raised %d", th); else expect_ed("ed_norm", r, &P, 1, NULL);
		ed_copy(r, p); VF_TRY(th, ed_norm(r, r)); if (!th) expect_ed("ed_norm(r==p)", r, &P, 1, NULL);
		int oc; VF_TRY(th, oc = ed_on_curve(p)); transitions++; if (th) vf_fail(NULL, "ed_on_curve raised"); else if (!oc) vf_fail(NULL, "ed_on_curve rejects a curve point (rep %d)", rp);
		int inf; VF_TRY(th, inf = ed_is_infty(p)); transitions++; if (!th && (inf != 0) != edp_is_id(&P)) vf_fail(NULL, "ed_is_infty wrong (rep %d)", rp);
	}
	/* off-curve neighbour */
	{ edp X; edp_init(&X); edp_set(&X, &P); mpz_add_ui(X.y, X.y, 1); mpz_mod(X.y, X.y, EC_.p); if (!edp_on_curve(&EC_, &X)) { ed_inject(p, &X, REP_AFF, 1); int oc; VF_TRY(th, oc = ed_on_curve(p)); transitions++; if (!th && oc) vf_fail(NULL, "ed_on_curve accepts an off-curve point"); } edp_clear(&X); }
	edp_clear(&P); edp_clear(&Q); edp_clear(&S); edp_clear(&D); edp_clear(&N); edp_clear(&M);
}

typedef void (*mul_fn)(ed_t, const ed_t, const bn_t);
typedef void (*pre_fn)(ed_t *, const ed_t);
typedef void (*fix_fn)(ed_t, const ed_t *, const bn_t);
static ed_t TAB[4][RLC_ED_TABLE_MAX]; static int tab_ok[4]; static mpz_t tab_x, tab_y; static long tab_cid = -2; static int tab_init = 0;
static const struct { const char *n; pre_fn pre; fix_fn fix; } FIX[] = {{"ed_mul_fix_basic", ed_mul_pre_basic, ed_mul_fix_basic}, {"ed_mul_fix_combs", ed_mul_pre_combs, ed_mul_fix_combs}, {"ed_mul_fix_combd", ed_mul_pre_combd, ed_mul_fix_combd}, {"ed_mul_fix_lwnaf", ed_mul_pre_lwnaf, ed_mul_fix_lwnaf}};
static void build_tables(const edp *P) {
	if (!tab_init) { mpz_inits(tab_x, tab_y, NULL); tab_init = 1; for (int i = 0; i < 4; i++) for (int j = 0; j < RLC_ED_TABLE_MAX; j++) ed_new(TAB[i][j]); }
	if (tab_cid == cur_ed && !mpz_cmp(tab_x, P->x) && !mpz_cmp(tab_y, P->y)) return;
	ed_t p; ed_new(p); ed_inject(p, P, REP_AFF, 1); for (int i = 0; i < 4; i++) { int th; VF_TRY(th, FIX[i].pre(TAB[i], p)); tab_ok[i] = !th; }
	tab_cid = cur_ed; mpz_set(tab_x, P->x); mpz_set(tab_y, P->y);
}
static int member(const edp *P) { edp t; edp_init(&t); edp_mul(&EC_, &t, P, EN); int r = edp_is_id(&t); edp_clear(&t); return r; }
static void do_mul(vf_case *c) {
	int th; edp P, E; edp_init(&P); edp_init(&E); pt_args(&P, c->v[1], c->v[2]); const mpz_t *k = &c->v[3]; edp_mul(&EC_, &E, &P, *k);
	bn_t bk; bn_new(bk); if (!vf_bn_set(bk, *k)) return; ed_t p, r; ed_new(p); ed_new(r); int mem = member(&P);
	static const struct { const char *n; mul_fn f; int sub; } MUL[] = {{"ed_mul_basic", ed_mul_basic, 0}, {"ed_mul_slide", ed_mul_slide, 0}, {"ed_mul_monty", ed_mul_monty, 1}, {"ed_mul_lwnaf", ed_mul_lwnaf, 1}, {"ed_mul_lwreg", ed_mul_lwreg, 1}};
	for (unsigned i = 0; i < 5; i++) for (int rp = 0; rp < 2; rp++) {
		if (rp && DREP == REP_AFF) continue; if (MUL[i].sub && !mem) continue;
		/* tiny_exclusion: ed_mul_lwreg keeps RLC_CEIL(RLC_FP_BITS + 1, w - 1) digits, one fewer than bn_rec_reg produces when RLC_FP_BITS is 1 mod 3 (16 here; 255, the only size with an Edwards curve, is not) */
		if (tiny && MUL[i].f == ed_mul_lwreg) continue;
		ed_inject(p, &P, rp ? DREP : REP_AFF, 3); memset(r, 0x5A, sizeof(ed_st)); r->coord = BASIC; vf_reseed();
		VF_TRY(th, MUL[i].f(r, p, bk)); char w[64]; snprintf(w, sizeof w, "%s[rep %d]", MUL[i].n, rp);
		if (th) { vf_fail(mpz_sizeinbase(*k, 2) > RLC_FP_BITS ? "L37-ed-routines-refuse-long-scalars" : NULL, "%s raised %d", w, th); continue; } expect_ed(w, r, &E, 1, NULL);
		if (!rp) { ed_inject(p, &P, REP_AFF, 1); vf_reseed(); VF_TRY(th, MUL[i].f(p, p, bk)); if (!th) expect_ed(MUL[i].n, p, &E, 1, NULL); }
	}
	if (mpz_sgn(*k) >= 0 && mpz_sizeinbase(*k, 2) <= (size_t)VF_DIGB) { dig_t d = 0; mpz_export(&d, NULL, -1, sizeof(dig_t), 0, 0, *k); ed_inject(p, &P, REP_AFF, 1); VF_TRY(th, ed_mul_dig(r, p, d)); if (th) vf_fail(NULL, "ed_mul_dig raised %d", th); else expect_ed("ed_mul_dig", r, &E, 1, NULL); }
	if (edp_eq(&P, &EG)) { vf_reseed(); VF_TRY(th, ed_mul_gen(r, bk)); if (th) vf_fail(NULL, "ed_mul_gen raised %d", th); else expect_ed("ed_mul_gen", r, &E, 1, NULL); }
	if (mem && !edp_is_id(&P)) { build_tables(&P); for (int i = 0; i < 4; i++) { if (!tab_ok[i]) { vf_fail(NULL, "%s: precomputation raised", FIX[i].n); continue; } VF_TRY(th, FIX[i].fix(r, (const ed_t *)TAB[i], bk)); if (th) { vf_fail(NULL, "%s raised %d", FIX[i].n, th); continue; } expect_ed(FIX[i].n, r, &E, 1, NULL); } }
	edp_clear(&P); edp_clear(&E);
}
typedef void (*sim_fn)(ed_t, const ed_t, const bn_t, const ed_t, const bn_t);
static void do_sim(vf_case *c) {
	int th; edp P, Q, E, T; edp_init(&P); edp_init(&Q); edp_init(&E); edp_init(&T); pt_args(&P, c->v[1], c->v[2]); pt_args(&Q, c->v[4], c->v[5]);
	edp_mul(&EC_, &E, &P, c->v[3]); edp_mul(&EC_, &T, &Q, c->v[6]); edp_add(&EC_, &E, &E, &T);
	bn_t bk, bm; bn_new(bk); bn_new(bm); if (!vf_bn_set(bk, c->v[3]) || !vf_bn_set(bm, c->v[6])) return; ed_t p, q, r; ed_new(p); ed_new(q); ed_new(r);
	static const struct { const char *n; sim_fn f; } SIM[] = {{"ed_mul_sim_basic", ed_mul_sim_basic}, {"ed_mul_sim_trick", ed_mul_sim_trick}, {"ed_mul_sim_inter", ed_mul_sim_inter}, {"ed_mul_sim_joint", ed_mul_sim_joint}};
	/* L37: the simultaneous forms do not reduce the scalars and their recoding buffers hold RLC_FP_BITS + 1 digits */
	const char *kf_long = (mpz_sizeinbase(c->v[3], 2) > RLC_FP_BITS || mpz_sizeinbase(c->v[6], 2) > RLC_FP_BITS) ? "L37-ed-routines-refuse-long-scalars" : NULL;
	/* every routine with a separate result and with the result aliased to the first / the second point */
	for (unsigned i = 0; i < 4; i++) for (int al = 0; al < 3; al++) { ed_inject(p, &P, REP_AFF, 1); ed_inject(q, &Q, REP_AFF, 1); memset(r, 0x5A, sizeof(ed_st)); r->coord = BASIC; vf_reseed(); ed_st *o = al == 1 ? p : al == 2 ? q : r; char w[64]; snprintf(w, sizeof w, "%s%s", SIM[i].n, al == 1 ? "[r == p]" : al == 2 ? "[r == q]" : "");
		VF_TRY(th, SIM[i].f(o, p, bk, q, bm)); if (th) { vf_fail(kf_long, "%s raised %d", w, th); continue; } expect_ed(w, o, &E, 1, NULL); }
	{ ed_t ps[2]; bn_t ks[2]; ed_new(ps[0]); ed_new(ps[1]); bn_new(ks[0]); bn_new(ks[1]); ed_inject(ps[0], &P, REP_AFF, 1); ed_inject(ps[1], &Q, REP_AFF, 1); bn_copy(ks[0], bk); bn_copy(ks[1], bm);
		vf_reseed(); VF_TRY(th, ed_mul_sim_lot(r, ps, (const bn_t *)ks, 2)); if (th) vf_fail(NULL, "ed_mul_sim_lot(n=2) raised %d", th); else expect_ed("ed_mul_sim_lot(n=2)", r, &E, 1, NULL); }
	if (edp_eq(&P, &EG)) { ed_inject(q, &Q, REP_AFF, 1); vf_reseed(); VF_TRY(th, ed_mul_sim_gen(r, bk, q, bm)); if (th) vf_fail(kf_long, "ed_mul_sim_gen raised %d", th); else expect_ed("ed_mul_sim_gen", r, &E, 1, NULL); }
	edp_clear(&P); edp_clear(&Q); edp_clear(&E); edp_clear(&T);
}
static void scalar_alphabet(vf_dom *d);
/* lot: cid, n, pattern */
static void do_lot(vf_case *c) {
	int th, n = (int)mpz_get_si(c->v[1]); long pat = mpz_get_si(c->v[2]); vf_dom S; vf_dom_init(&S); scalar_alphabet(&S);
	ed_t *ps = malloc(sizeof(ed_t) * (size_t)(n + 1)); bn_t *ks = malloc(sizeof(bn_t) * (size_t)(n + 1)); edp E, T, P; edp_init(&E); edp_init(&T); edp_init(&P);
	for (int i = 0; i < n; i++) { ed_new(ps[i]); bn_new(ks[i]); mpz_set_si(zt, 3 * i + 1); edp_mul(&EC_, &P, &EG, zt); if ((pat & 1) && i == (int)((pat >> 1) % n)) edp_set_id(&P); ed_inject(ps[i], &P, REP_AFF, 1);
		const mpz_t *k = &S.v[(size_t)((pat * 7 + i * 13) % S.n)]; if ((pat & 2) && i == (int)((pat >> 2) % n)) k = &S.v[0]; vf_bn_set(ks[i], *k); edp_mul(&EC_, &T, &P, *k); edp_add(&EC_, &E, &E, &T); }
	ed_t r; ed_new(r); vf_reseed(); VF_TRY(th, ed_mul_sim_lot(r, ps, (const bn_t *)ks, n)); if (th) vf_fail(NULL, "ed_mul_sim_lot(n=%d) raised %d", n, th); else expect_ed("ed_mul_sim_lot", r, &E, 1, NULL);
#if ED_ADD != BASIC
	if (n > 0) { ed_t *rs = malloc(sizeof(ed_t) * (size_t)n); for (int i = 0; i < n; i++) { ed_new(rs[i]); mpz_set_si(zt, 3 * i + 1); edp_mul(&EC_, &P, &EG, zt); if ((pat & 1) && i == (int)((pat >> 1) % n)) edp_set_id(&P); ed_inject(ps[i], &P, DREP, (unsigned long)(2 * i + 3)); }
		VF_TRY(th, ed_norm_sim(rs, (const ed_t *)ps, n)); if (th) vf_fail(NULL, "ed_norm_sim(n=%d) raised %d", n, th); else for (int i = 0; i < n; i++) { mpz_set_si(zt, 3 * i + 1); edp_mul(&EC_, &P, &EG, zt); if ((pat & 1) && i == (int)((pat >> 1) % n)) edp_set_id(&P); expect_ed("ed_norm_sim", rs[i], &P, 1, NULL); } free(rs); }
#endif
	vf_dom_clear(&S); free(ps); free(ks); edp_clear(&E); edp_clear(&T); edp_clear(&P);
}
/* misc: cid, x, y: compression and codec round trips; hashing for the shipped curve */
static void do_misc(vf_case *c) {
	int th; edp P; edp_init(&P); pt_args(&P, c->v[1], c->v[2]); ed_t p, q, r; ed_new(p); ed_new(q); ed_new(r);
	for (int rp = 0; rp < 2; rp++) { ed_inject(p, &P, REP_AFF, 1);
		VF_TRY(th, ed_pck(q, p)); if (th) { vf_fail(NULL, "ed_pck raised"); continue; } int ok; VF_TRY(th, ok = ed_upk(r, q)); if (th || !ok) vf_fail(NULL, "ed_upk fails on a packed curve point"); else expect_ed("ed_upk(ed_pck(P))", r, &P, 1, NULL); }
	for (int pack = 0; pack < 2; pack++) for (int rp = 0; rp < 2; rp++) { if (rp && DREP == REP_AFF) continue; ed_inject(p, &P, rp ? DREP : REP_AFF, 5); uint8_t buf[2 * RLC_FP_BYTES + 9]; memset(buf, 0xA5, sizeof buf); size_t l = 0;
		VF_TRY(th, l = ed_size_bin(p, pack)); if (th || l == 0 || l > 2 * RLC_FP_BYTES + 1) { vf_fail(NULL, "ed_size_bin(pack=%d) raised or returned %zu", pack, l); continue; }
		VF_TRY(th, ed_write_bin(buf, l, p, pack)); if (th) { vf_fail(NULL, "ed_write_bin(pack=%d) raised %d", pack, th); continue; } transitions++;
		for (int i = 0; i < 8; i++) if (buf[l + i] != 0xA5) { vf_fail(NULL, "ed_write_bin(pack=%d) wrote beyond the advertised size", pack); break; }
		VF_TRY(th, ed_read_bin(r, buf, l)); if (th) vf_fail(NULL, "ed_read_bin(ed_write_bin(P), pack=%d) raised %d", pack, th); else expect_ed(pack ? "ed_read_bin(ed_write_bin(P, packed))" : "ed_read_bin(ed_write_bin(P))", r, &P, 0, NULL); }
	edp_clear(&P);
}
#if WSIZE == 64
/* map: cid, message length, pattern */
static void do_map(vf_case *c) {
	int th; size_t len = mpz_get_ui(c->v[1]); unsigned pat = (unsigned)mpz_get_ui(c->v[2]); uint8_t *msg = malloc(len + 1); for (size_t i = 0; i < len; i++) msg[i] = (uint8_t)(pat == 0 ? 0 : pat == 1 ? 0xFF : (i * 7 + pat));
	ed_t p, q; ed_new(p); ed_new(q); edp P, T; edp_init(&P); edp_init(&T); int dg;
	VF_TRY(th, ed_map(p, msg, len)); transitions++; if (th) { vf_fail(NULL, "ed_map raised %d (len %zu)", th, len); return; }
	if (!ed_extract(&P, p, &dg) || dg) vf_fail(NULL, "ed_map: result not canonical / not normalised"); else { if (!edp_on_curve(&EC_, &P)) vf_fail(NULL, "ed_map: result not on the curve"); edp_mul(&EC_, &T, &P, EN); if (!edp_is_id(&T)) vf_fail(NULL, "ed_map: result not in the prime-order subgroup"); if (edp_is_id(&P)) vf_fail(NULL, "ed_map: result is the neutral element"); }
	memset(q, 0xFF, sizeof(ed_st)); q->coord = BASIC; VF_TRY(th, ed_map(q, msg, len)); if (th || ed_cmp(p, q) != RLC_EQ) vf_fail(NULL, "ed_map: not deterministic (second call into an output point that held other data)");
	if (len) { msg[len - 1] ^= 1; VF_TRY(th, ed_map(q, msg, len)); if (!th && ed_cmp(p, q) == RLC_EQ) vf_fail(NULL, "ed_map: last message bit ignored"); }
	free(msg); edp_clear(&P); edp_clear(&T);
}
#endif
static void run_case(vf_case *c) {
	if (!select_ed(mpz_get_si(c->v[0]))) { vf_fail(NULL, "Edwards curve %ld could not be installed (or a is a non-square / d a square / G off the curve)", mpz_get_si(c->v[0])); return; }
	vf_nontrivial();
	if (!strcmp(c->op, "law")) do_law(c); else if (!strcmp(c->op, "mul")) do_mul(c); else if (!strcmp(c->op, "sim")) do_sim(c); else if (!strcmp(c->op, "lot")) do_lot(c); else if (!strcmp(c->op, "misc")) do_misc(c);
#if WSIZE == 64
	else if (!strcmp(c->op, "map")) do_map(c);
#endif
	else vf_fail(NULL, "unknown op");
}

static vf_case K;
static void setpt(int i, const edp *p) { mpz_set(K.v[i], p->x); mpz_set(K.v[i + 1], p->y); }
static void scalar_alphabet(vf_dom *d) {
	mpz_t t; mpz_init(t); for (long i = -2; i <= 3; i++) vf_dom_add_si(d, i);
	vf_dom_add_near(d, EN, 0); mpz_neg(t, EN); vf_dom_add(d, t); mpz_mul_2exp(t, EN, 1); vf_dom_add(d, t); mpz_add_ui(t, t, 1); vf_dom_add(d, t); mpz_mul_ui(t, EN, 3); mpz_sub_ui(t, t, 1); vf_dom_add(d, t);
	mpz_fdiv_q_2exp(t, EN, 1); vf_dom_add(d, t); mpz_add_ui(t, t, 1); vf_dom_add(d, t); mpz_mul(t, EN, EH); vf_dom_add_near(d, t, 0);
	if (!tiny) { int ks[] = {63, 64, 65, 127, 128, 129, 251, 252, 253, 255, 256, 257}; for (unsigned i = 0; i < 12; i++) { mpz_set_ui(t, 1); mpz_mul_2exp(t, t, (unsigned long)ks[i]); vf_dom_add(d, t); mpz_sub_ui(t, t, 1); vf_dom_add(d, t); mpz_add_ui(t, t, 2); vf_dom_add(d, t); }
		mpz_set_ui(t, 1); mpz_mul_2exp(t, t, 300); vf_dom_add(d, t); mpz_set_ui(t, 1); mpz_mul_2exp(t, t, 1000); mpz_sub_ui(t, t, 1); vf_dom_add(d, t);
		mpz_set_str(t, "555555555555555555555555555555555555555555555555555555555555555", 16); vf_dom_add(d, t); mpz_set_str(t, "ffffffffffffffff0000000000000000ffffffffffffffff", 16); vf_dom_add(d, t);
		mpz_set_str(t, "d3b1a40c29f1e8f7a5b6c3d2e1f0a9b8c7d6e5f4a3b2c1d0e9f8a7b6c5d4e3f", 16); vf_dom_add(d, t); mpz_neg(t, t); vf_dom_add(d, t); }
	else { for (int k = 7; k <= 17; k++) { mpz_set_ui(t, 1); mpz_mul_2exp(t, t, (unsigned long)k); vf_dom_add(d, t); mpz_sub_ui(t, t, 1); vf_dom_add(d, t); } mpz_set_ui(t, 1); mpz_mul_2exp(t, t, 40); vf_dom_add(d, t); mpz_set_ui(t, 1); mpz_mul_2exp(t, t, 60); mpz_sub_ui(t, t, 1); vf_dom_add(d, t); }
	mpz_clear(t); vf_dom_uniq(d); for (int i = 0; i < d->n; i++) if (mpz_sgn(d->v[i]) == 0 && i) mpz_swap(d->v[0], d->v[i]);
}
static void enum_lot(long cid) { int ns[] = {0, 1, 2, 3, 4, 9, 10, 11, 12, 33}; for (unsigned i = 0; i < 10; i++) for (long pat = 0; pat < (ns[i] <= 4 ? 24 : 6); pat++) if (vf_mine()) { if (ns[i] == 0 && pat) continue; K.op = "lot"; K.n = 3; mpz_set_si(K.v[0], cid); mpz_set_si(K.v[1], ns[i]); mpz_set_si(K.v[2], pat); vf_run(&K); } }

static void enumerate(void) {
	vf_case_init(&K); mpz_t k; mpz_init(k); edp P, Q; edp_init(&P); edp_init(&Q);
#if WSIZE != 64
	int cay[] = {0, 1, 4};
	for (unsigned ci = 0; ci < 3; ci++) { char bn[64]; snprintf(bn, sizeof bn, "tiny-cayley-edwards-%d", cay[ci]); if (!vf_bound_on(bn)) continue; long cid = cay[ci]; if (!select_ed(cid)) { vf_fail(NULL, "curve install failed"); continue; }
		tiny_ed *c = &TE[cid]; long np = 0; edp *pts = malloc(sizeof(edp) * (size_t)(c->order + 4)); mpz_t y; mpz_init(y);
		for (long yy = 0; yy < c->p; yy++) { mpz_set_si(y, yy); edp t; edp_init(&t); if (!edp_lift_y(&EC_, &t, y)) { edp_clear(&t); continue; } if (np + 2 > c->order + 4) break; pts[np++] = t; if (mpz_sgn(t.x)) { edp_init(&pts[np]); edp_neg(&EC_, &pts[np], &t); np++; } }
		if (np != c->order) { vf_fail(NULL, "point list (%ld) does not match the counted order (%ld)", np, c->order); continue; }
		for (long i = 0; i < np && !vf_expired(); i++) if (vf_mine()) { vf_stat_add("states", 1);
			for (long j = 0; j < np; j++) { K.op = "law"; K.n = 5; mpz_set_si(K.v[0], cid); setpt(1, &pts[i]); setpt(3, &pts[j]); vf_run(&K); }
			K.op = "misc"; K.n = 3; mpz_set_si(K.v[0], cid); setpt(1, &pts[i]); vf_run(&K);
			/* every scalar in [-2r-3, 2r+3] from every 5th point (points outside the subgroup included) */
			if (i % 5 == 1) for (long a = -2 * c->r - 3; a <= 2 * c->r + 3; a += (vf_tier ? 1 : 3)) { K.op = "mul"; K.n = 4; mpz_set_si(K.v[0], cid); setpt(1, &pts[i]); mpz_set_si(K.v[3], a); vf_run(&K); } }
		if (ci == 0 || vf_tier) { mpz_set_si(k, 5); edp_mul(&EC_, &Q, &EG, k); long n = c->r, st = vf_tier ? 1 : 2; for (long a = -n - 2; a <= n + 2 && !vf_expired(); a++) if (vf_mine()) for (long b = -n - 2 + ((a + n + 2) % st); b <= n + 2; b += st) { K.op = "sim"; K.n = 7; mpz_set_si(K.v[0], cid); setpt(1, &EG); mpz_set_si(K.v[3], a); setpt(4, &Q); mpz_set_si(K.v[6], b); vf_run(&K); } }
		enum_lot(cid); free(pts); mpz_clear(y); vf_bound_done(bn); }
	int sc[] = {2, 3};
	for (unsigned ci = 0; ci < 2; ci++) { char bn[64]; snprintf(bn, sizeof bn, "tiny-all-scalars-edwards-%d", sc[ci]); if (!vf_bound_on(bn)) continue; long cid = sc[ci]; if (!select_ed(cid)) { vf_fail(NULL, "curve install failed"); continue; } long n = TE[cid].r;
		for (int pt = 0; pt < (vf_tier ? 2 : 1); pt++) { if (pt) { mpz_set_si(k, 12345); edp_mul(&EC_, &P, &EG, k); } else edp_set(&P, &EG);
			for (long a = -2 * n - 3; a <= 2 * n + 3 && !vf_expired(); a++) if (vf_mine()) { K.op = "mul"; K.n = 4; mpz_set_si(K.v[0], cid); setpt(1, &P); mpz_set_si(K.v[3], a); vf_run(&K); } }
		{ vf_dom S; vf_dom_init(&S); scalar_alphabet(&S); mpz_set_si(k, 7); edp_mul(&EC_, &Q, &EG, k); long st = vf_tier ? 1 : 7;
			for (long a = -n - 2; a <= n + 2 && !vf_expired(); a += st) if (vf_mine()) for (int j = 0; j < S.n; j++) { K.op = "sim"; K.n = 7; mpz_set_si(K.v[0], cid); setpt(1, &EG); mpz_set_si(K.v[3], a); setpt(4, &Q); mpz_set(K.v[6], S.v[j]); vf_run(&K); }
			for (int j = 0; j < S.n; j++) if (vf_mine()) { K.op = "mul"; K.n = 4; mpz_set_si(K.v[0], cid); setpt(1, &EG); mpz_set(K.v[3], S.v[j]); vf_run(&K); edp_set_id(&P); setpt(1, &P); vf_run(&K);
				K.op = "sim"; K.n = 7; setpt(1, &P); mpz_set(K.v[3], S.v[j]); setpt(4, &Q); mpz_set(K.v[6], S.v[(j * 3) % S.n]); vf_run(&K); setpt(1, &EG); setpt(4, &P); vf_run(&K); }
			{ long rel[] = {1, -1, 2, -2, 3}; for (unsigned ri = 0; ri < 5; ri++) { mpz_set_si(k, rel[ri]); edp_mul(&EC_, &Q, &EG, k); for (int a2 = 0; a2 < S.n; a2++) for (int b2 = a2 % 2; b2 < S.n; b2 += 2) if (vf_mine()) { K.op = "sim"; K.n = 7; mpz_set_si(K.v[0], cid); setpt(1, &EG); mpz_set(K.v[3], S.v[a2]); setpt(4, &Q); mpz_set(K.v[6], S.v[b2]); vf_run(&K); } } }
			vf_dom_clear(&S); }
		/* every point of the curve through the codec / compression round trip */
		{ mpz_t y; mpz_init(y); edp t; edp_init(&t); for (long yy = 0; yy < TE[cid].p && !vf_expired(); yy += (vf_tier ? 1 : 3)) if (vf_mine()) { mpz_set_si(y, yy); if (!edp_lift_y(&EC_, &t, y)) continue; K.op = "misc"; K.n = 3; mpz_set_si(K.v[0], cid); setpt(1, &t); vf_run(&K); edp_neg(&EC_, &t, &t); setpt(1, &t); vf_run(&K); } mpz_clear(y); edp_clear(&t); }
		enum_lot(cid); vf_bound_done(bn); }
#else
#if FP_PRIME == 255
	{ long cid = CURVE_ED25519; if (vf_bound_on("w64-ed25519")) { if (!select_ed(cid)) vf_fail(NULL, "ed_param_set(CURVE_ED25519) failed or the parameters do not define a complete curve with G on it");
		else { vf_dom S; vf_dom_init(&S); scalar_alphabet(&S);
			/* points: neutral, G, 2G, -G, fixed multiples; the full 8-torsion (from [r]T for lifted T); member + torsion */
			edp pts[64]; int npt = 0, nmem; long ds[] = {0, 1, 2, -1, 5, 0x12345, -77}; for (unsigned i = 0; i < 7; i++) { edp_init(&pts[npt]); mpz_set_si(k, ds[i]); edp_mul(&EC_, &pts[npt], &EG, k); npt++; } nmem = npt;
			{ mpz_t y; mpz_init(y); edp t, u; edp_init(&t); edp_init(&u); int have8 = 0; for (long yy = 2; yy < 400 && npt < 40; yy++) { mpz_set_si(y, yy); if (!edp_lift_y(&EC_, &t, y)) continue; edp_mul(&EC_, &u, &t, EN); /* torsion part */
					int dup = 0; for (int i = 0; i < npt; i++) if (edp_eq(&pts[i], &u)) dup = 1; if (!dup) { edp_init(&pts[npt]); edp_set(&pts[npt], &u); npt++; edp_init(&pts[npt]); edp_add(&EC_, &pts[npt], &u, &EG); npt++; }
					if (!have8) { edp_init(&pts[npt]); edp_set(&pts[npt], &t); npt++; have8 = 1; } } mpz_clear(y); }
			if (vf_shard == 0) printf("@INFO Ed25519: %d points (%d members, the rest torsion, member + torsion, one full-order point)\n", npt, nmem);
			for (int i = 0; i < npt; i++) for (int j = 0; j < npt; j++) if (vf_mine()) { K.op = "law"; K.n = 5; mpz_set_si(K.v[0], cid); setpt(1, &pts[i]); setpt(3, &pts[j]); vf_run(&K); }
			for (int i = 0; i < npt; i++) if (vf_mine()) { K.op = "misc"; K.n = 3; mpz_set_si(K.v[0], cid); setpt(1, &pts[i]); vf_run(&K); }
			for (int i = 0; i < npt && !vf_expired(); i++) { if (!vf_tier && i > 2 && i != 5 && i < nmem) continue; for (int j = 0; j < S.n; j++) if (vf_mine()) { K.op = "mul"; K.n = 4; mpz_set_si(K.v[0], cid); setpt(1, &pts[i]); mpz_set(K.v[3], S.v[j]); vf_run(&K); } }
			int st = vf_tier ? 1 : 3; for (int a = 0; a < S.n && !vf_expired(); a++) for (int b = a % st; b < S.n; b += st) if (vf_mine()) { K.op = "sim"; K.n = 7; mpz_set_si(K.v[0], cid); setpt(1, &pts[1]); mpz_set(K.v[3], S.v[a]); setpt(4, &pts[5]); mpz_set(K.v[6], S.v[b]); vf_run(&K); }
			for (int a = 0; a < S.n; a += 3) if (vf_mine()) { K.op = "sim"; K.n = 7; mpz_set_si(K.v[0], cid); setpt(1, &pts[0]); mpz_set(K.v[3], S.v[a]); setpt(4, &pts[4]); mpz_set(K.v[6], S.v[(a * 5 + 1) % S.n]); vf_run(&K); setpt(1, &pts[4]); setpt(4, &pts[0]); vf_run(&K); setpt(4, &pts[4]); vf_run(&K); }
			{ long rel[] = {1, -1, 2, -2}; for (unsigned ri = 0; ri < 4; ri++) { mpz_set_si(k, rel[ri]); edp_mul(&EC_, &Q, &EG, k); for (int a = 0; a < S.n && !vf_expired(); a += (vf_tier ? 1 : 3)) for (int b = a % 5; b < S.n; b += 5) if (vf_mine()) { K.op = "sim"; K.n = 7; mpz_set_si(K.v[0], cid); setpt(1, &EG); mpz_set(K.v[3], S.v[a]); setpt(4, &Q); mpz_set(K.v[6], S.v[b]); vf_run(&K); } } }
			enum_lot(cid);
			/* hashing: message lengths 0..200 (several hash blocks) x three byte patterns */
			for (long len = 0; len <= (vf_tier ? 300 : 140); len++) for (long pat = 0; pat < 3; pat++) if (vf_mine()) { K.op = "map"; K.n = 3; mpz_set_si(K.v[0], cid); mpz_set_si(K.v[1], len); mpz_set_si(K.v[2], pat); vf_run(&K); }
			vf_dom_clear(&S); }
		vf_bound_done("w64-ed25519"); } }
#endif
#endif
	vf_stat_add("transitions", transitions); mpz_clear(k);
}
VF_MAIN()
