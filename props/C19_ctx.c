/*
 * C19 (b), (c) -- contexts are independent; re-parameterisation leaves no stale state.
 *
 * (c) Explicit-state search with a differential oracle. Alphabet: every curve selection of the build (the six 256-bit prime curves, the two pairing
 *   ones followed by their twist selection), the two binary curves, a foreign dense prime, and a "heavy use" action. EVERY history up to the bound is
 *   run on a re-initialised context; afterwards an OBSERVATION BATTERY (flags and levels, field constants, field/tower arithmetic, square roots,
 *   generator / variable / fixed-table / simultaneous multiplications, endomorphism, compressed and plain encodings, hash-to-curve, F_p^2 curve
 *   operations and Frobenius, pairing of the generators, target-group generator powers, validity predicates, binary-curve multiplication and
 *   hashing, sparse forms, sticky error code) is hashed. It must equal the battery hash of a FRESH PROCESS (forked right after core_init) in which
 *   only the last selection of each kind was made. The state reached by a history is canonicalised as (last prime-curve selection, last binary
 *   selection, whether the prime field was overwritten afterwards) for the report; no pruning uses it.
 * (b) Two contexts (core_set): every interleaving of two fixed per-context programs (init, selections, batteries, a throw, get_code); the sequence of
 *   observations of each context must equal the one it produces when its program runs alone.
 * Case args: hist: length, a1, a2, ...;   ctx: program pair, interleaving (bit mask: which context moves at each step).
 */
#include "ctx_battery.h"
#include <sys/wait.h>
#include <unistd.h>

/* canonical state after a history */
typedef struct { int ep, eb, ep_valid; } cstate;
static void apply(int a, cstate *s) {
	int th;
	if (a < 6) { sel_ep(a); s->ep = a; s->ep_valid = 1; }
	else if (a < 8) { sel_eb(a - 6); s->eb = a - 6; }
	else if (a == 8) { bn_t p; bn_new(p); bn_read_str(p, "ffffffffffffffffffffffffffffffffffffffffffffffffffffffffffffff43", 64, 16); VF_TRY(th, fp_prime_set_dense(p)); s->ep_valid = 0; }
	else if (a == 9) { if (s->ep_valid || s->eb >= 0) (void)battery(s->ep_valid, s->eb >= 0); }
	else { VF_TRY(th, fp_param_set(BN_256)); s->ep_valid = 0; }
}
static void fresh_ctx(void) { core_clean(); if (core_init() != RLC_OK) exit(2); }

/* reference hashes from fresh processes: FR[ep + 1][eb + 1] (index 0 = none) */
static uint64_t FR[7][3]; static int fr_ok[7][3]; static uint64_t FRIT[7][3][MAXIT]; static int FRN[7][3];
static uint64_t fresh_hash(int ep, int eb) {
	if (fr_ok[ep + 1][eb + 1]) return FR[ep + 1][eb + 1];
	int fd[2]; if (pipe(fd)) exit(2); fflush(stdout); pid_t pid = fork();
	if (pid == 0) { close(fd[0]); /* the child is this process as it was right after harness_setup: one core_init, nothing selected */ fresh_ctx(); cstate s = {-1, -1, 0}; if (eb >= 0) apply(6 + eb, &s); if (ep >= 0) apply(ep, &s); uint64_t h = battery(ep >= 0, eb >= 0); if (write(fd[1], &h, sizeof h) != sizeof h || write(fd[1], &nit, sizeof nit) != sizeof nit || write(fd[1], ITH, sizeof ITH) != sizeof ITH) _exit(3); _exit(0); }
	close(fd[1]); uint64_t h = 0; ssize_t n = read(fd[0], &h, sizeof h); if (n == sizeof h && (read(fd[0], &FRN[ep + 1][eb + 1], sizeof(int)) != sizeof(int) || read(fd[0], FRIT[ep + 1][eb + 1], sizeof ITH) != sizeof ITH)) n = 0; close(fd[0]); int st; waitpid(pid, &st, 0); if (n != sizeof h) { fprintf(stderr, "fresh-process battery failed for ep %d eb %d\n", ep, eb); exit(2); }
	FR[ep + 1][eb + 1] = h; fr_ok[ep + 1][eb + 1] = 1; return h;
}
static void harness_setup(void) { if (core_init() != RLC_OK) exit(2); }

static void do_hist(vf_case *c) {
	int L = (int)mpz_get_si(c->v[0]); fresh_ctx(); cstate s = {-1, -1, 0}; char desc[400] = ""; for (int i = 0; i < L; i++) { int a = (int)mpz_get_si(c->v[1 + i]); apply(a, &s); strncat(desc, ANAME[a], sizeof desc - strlen(desc) - 4); strncat(desc, i + 1 < L ? "; " : "", 3); transitions++; }
	if (!s.ep_valid && s.eb < 0) return; /* nothing selected at the end: nothing to observe */
	uint64_t got = battery(s.ep_valid, s.eb >= 0), exp = fresh_hash(s.ep_valid ? s.ep : -1, s.eb); transitions++;
	char st[64]; snprintf(st, sizeof st, "state.ep%d.eb%d", s.ep_valid ? s.ep : -1, s.eb); vf_statf_add(1, "x.%s", st);
	if (got != exp) { /* name the first item of the battery that differs */
		int e1 = (s.ep_valid ? s.ep : -1) + 1, e2 = s.eb + 1, i = 0; while (i < nit && i < FRN[e1][e2] && ITH[i] == FRIT[e1][e2][i]) i++;
		vf_fail(NULL, "%s: after the history [%s] the library does not compute what a fresh process with only the last selections computes", i < nit ? ITL[i] : "battery length", desc); }
}

/* ---------------------------------------------------------------- (b) two contexts */
static ctx_t CA, CB;
/* per-context programs: sequences of step codes: i init, 0..5 select prime curve, b battery, t throw, g get_code, c clean+init */
static const char *PROGS[][2] = {{"i0btgb", "i4bg2b"}, {"i5bbt", "i1tgb3b"}, {"i2bc4b", "i3btb"}, {"itcg0b", "i1tcgb"}};
static void step(ctx_t *cx, char op, uint64_t *obs, int *nobs, int *have) {
	core_set(cx); int th;
	switch (op) { case 'i': if (core_init() != RLC_OK) exit(2); *have = 0; break; case 'c': core_clean(); core_set(cx); /* core_clean detaches the context */ if (core_init() != RLC_OK) exit(2); *have = 0; break;
		case 'b': obs[(*nobs)++] = *have ? battery(1, 0) : 1; break; case 't': th = 0; RLC_TRY { RLC_THROW(ERR_NO_VALID); } RLC_CATCH_ANY { th = 1; } obs[(*nobs)++] = 100 + (uint64_t)th; break; /* the sticky code stays set in THIS context */ case 'g': obs[(*nobs)++] = 200 + (uint64_t)err_get_code(); break;
		default: sel_ep(op - '0'); *have = 1; break; }
	/* absolute, not differential: a context that has just been initialised (for the first time or again after core_clean) reads as success */
	if ((op == 'i' || op == 'c') && core_get()->code != RLC_OK) vf_fail(NULL, "core_init leaves the sticky error code %d set in a caller-supplied context (step '%c')", core_get()->code, op);
	transitions++;
}
static void do_ctx(vf_case *c) {
	int pp = (int)mpz_get_si(c->v[0]); unsigned long mask = mpz_get_ui(c->v[1]); const char *pa = PROGS[pp][0], *pb = PROGS[pp][1]; int la = (int)strlen(pa), lb = (int)strlen(pb);
	uint64_t oa[16], ob[16], sa[16], sb[16]; int na = 0, nb = 0, nsa = 0, nsb = 0, ha = 0, hb_ = 0;
	/* solo runs (each on a zeroed context object) */
	core_clean(); memset(&CA, 0, sizeof CA); memset(&CB, 0, sizeof CB); for (int i = 0; i < la; i++) step(&CA, pa[i], sa, &nsa, &ha); core_set(&CA); core_clean();
	memset(&CA, 0, sizeof CA); ha = 0; for (int i = 0; i < lb; i++) step(&CB, pb[i], sb, &nsb, &hb_); core_set(&CB); core_clean(); memset(&CB, 0, sizeof CB); hb_ = 0;
	/* the interleaving */
	int ia = 0, ib = 0; for (int t = 0; t < la + lb; t++) { int who = (int)((mask >> t) & 1); if (who == 0 && ia == la) who = 1; if (who == 1 && ib == lb) who = 0; if (who == 0) step(&CA, pa[ia++], oa, &na, &ha); else step(&CB, pb[ib++], ob, &nb, &hb_); }
	if (na != nsa || memcmp(oa, sa, sizeof(uint64_t) * (size_t)na)) { int i = 0; while (i < na && oa[i] == sa[i]) i++; vf_fail(NULL, "context A (program %s) observes something else at its observation %d when interleaved with context B (program %s, schedule %lx) than when running alone", pa, i, pb, mask); }
	if (nb != nsb || memcmp(ob, sb, sizeof(uint64_t) * (size_t)nb)) { int i = 0; while (i < nb && ob[i] == sb[i]) i++; vf_fail(NULL, "context B (program %s) observes something else at its observation %d when interleaved with context A (program %s, schedule %lx) than when running alone", pb, i, pa, mask); }
	core_set(&CA); core_clean(); core_set(&CB); core_clean(); core_set(NULL); if (core_init() != RLC_OK) exit(2);
}

static void run_case(vf_case *c) { vf_nontrivial(); if (!strcmp(c->op, "hist")) do_hist(c); else if (!strcmp(c->op, "ctx")) do_ctx(c); else vf_fail(NULL, "unknown op"); }
static vf_case K;
static void enumerate(void) {
	vf_case_init(&K);
	int maxl = vf_tier ? 4 : 3;
	for (int L = 1; L <= maxl; L++) { char bn[32]; snprintf(bn, sizeof bn, "histories-of-length-%d", L); if (!vf_bound_on(bn)) continue; long tot = 1; for (int i = 0; i < L; i++) tot *= NACT;
		for (long idx = 0; idx < tot && !vf_expired(); idx++) { if (!vf_mine()) continue; long v = idx; K.op = "hist"; K.n = 1 + L; mpz_set_si(K.v[0], L); int last_sel = 0; for (int i = 0; i < L; i++) { mpz_set_si(K.v[1 + i], v % NACT); if (v % NACT < 8) last_sel = 1; v /= NACT; } (void)last_sel; vf_stat_add("states", 1); vf_run(&K); }
		vf_bound_done(bn); }
	if (vf_bound_on("two-contexts-all-interleavings")) { for (int pp = 0; pp < 4; pp++) { int la = (int)strlen(PROGS[pp][0]), lb = (int)strlen(PROGS[pp][1]), n = la + lb;
			for (unsigned long mask = 0; mask < (1UL << n) && !vf_expired(); mask++) { if (__builtin_popcountl(mask) != lb) continue; if (!vf_mine()) continue; K.op = "ctx"; K.n = 2; mpz_set_si(K.v[0], pp); mpz_set_ui(K.v[1], mask); vf_stat_add("states", 1); vf_run(&K); } }
		vf_bound_done("two-contexts-all-interleavings"); }
	vf_stat_add("transitions", transitions);
}
VF_MAIN()
