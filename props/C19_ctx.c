/*
 * C19 (b), (c) -- contexts are independent; re-parameterisation leaves no stale state.
 *
 * (c) Explicit-state search with a differential oracle. Alphabet: every curve selection of the build (the six 256-bit prime curves, the two pairing
 *   ones followed by their twist selection), the two binary curves, a foreign dense prime, and a "heavy use" action. EVERY history up to the bound is
 *   run on a re-initialised context; afterwards an OBSERVATION BATTERY (flags and levels, field constants, field/tower arithmetic, square roots,
 *   generator / variable / fixed-table / simultaneous multiplications, endomorphism, compressed and plain encodings, hash-to-curve, F_p^2 curve
 *   operations and Frobenius, pairing of the generators, target-group generator powers, validity predicates, binary-curve multiplication and
 *   hashing, sparse forms, sticky error code) is hashed. It must equal the battery hash of a FRESH PROCESS (forked right after core_init) in which
 *   only the last selection of each kind was made. The state reached by a history is canonicalised as (last prime-curve selection, last binary
 *   selection, whether the prime field was overwritten afterwards) for the report; no pruning uses it.
 * (b) Two contexts (core_set): every interleaving of two fixed per-context programs (init, selections, batteries, a throw, get_code); the sequence of
 *   observations of each context must equal the one it produces when its program runs alone.
 * Case args: hist: length, a1, a2, ...;   ctx: program pair, interleaving (bit mask: which context moves at each step).
 */
#include "vf_relic.h"
#include <sys/wait.h>
#include <unistd.h>

static unsigned long long transitions = 0;
static uint64_t H;
/* the battery is a list of labelled items; IT[i] = running hash after item i, so the first differing item can be named */
#define MAXIT 96
static uint64_t ITH[MAXIT]; static const char *ITL[MAXIT]; static int nit;
static void item(const char *label) { if (nit < MAXIT) { ITH[nit] = H; ITL[nit] = label; nit++; } }
static void hb(const void *p, size_t n) { H = vf_hash_bytes(H, p, n); }
static void hi(long v) { hb(&v, sizeof v); }
#define T_(stmt) do { int th_; VF_TRY(th_, stmt); hi(th_); } while (0)
static const int EPS[] = {NIST_P256, BSI_P256, SECG_K256, SM2_P256, BN_P256, SM9_P256};
static const int EBS[] = {NIST_B283, NIST_K283};
#define NACT 11 /* 0..5 prime curves, 6..7 binary curves, 8 foreign dense prime, 9 heavy use, 10 fp_param_set of another prime then back through ep */
static const char *ANAME[] = {"ep NIST_P256", "ep BSI_P256", "ep SECG_K256", "ep SM2_P256", "ep BN_P256 + twist D", "ep SM9_P256 + twist M", "eb NIST_B283", "eb NIST_K283", "fp dense foreign prime", "heavy use", "fp_param_set(BN_256)"};

static void sel_ep(int i) { int th; VF_TRY(th, ep_param_set(EPS[i])); if (EPS[i] == BN_P256) VF_TRY(th, ep2_curve_set_twist(RLC_EP_DTYPE)); else if (EPS[i] == SM9_P256) VF_TRY(th, ep2_curve_set_twist(RLC_EP_MTYPE)); }
static void sel_eb(int i) { int th; VF_TRY(th, eb_param_set(EBS[i])); }
static void reseed(void) { uint8_t seed[64]; for (int i = 0; i < 64; i++) seed[i] = (uint8_t)(i * 5 + 3); core_get()->seeded = 0; rand_seed(seed, sizeof seed); }

/* the observation battery: ep part (if a prime curve is validly selected), eb part (if a binary curve is selected) */
static uint64_t battery(int have_ep, int have_eb) {
	H = 0xcbf29ce484222325ULL; nit = 0; uint8_t buf[1600]; reseed();
	if (have_ep) {
		hi(ep_param_get()); hi(ep_curve_is_endom()); hi(ep_curve_is_super()); hi(ep_curve_is_pairf()); hi(ep_curve_is_ctmap()); hi(ep_curve_embed()); hi(ep_param_level()); hi(ep_curve_opt_a()); hi(ep_curve_opt_b()); hi(fp_param_get());
		item("curve flags and level");
		hi(fp_prime_get_qnr()); hi(fp_prime_get_cnr()); hi(fp_prime_get_2ad()); hi((long)fp_prime_get_mod8()); hi((long)fp_prime_get_mod18()); item("field residue constants (qnr, cnr, 2-adicity, mod 8, mod 18)");
		/* the curve-family parameter and its sparse form are derived state of PAIRING curves only: observed there */
		if (ep_curve_is_pairf()) { int l = 0; const int *sp = fp_prime_get_par_sps(&l); hi(l); if (sp && l > 0) hb(sp, (size_t)l * sizeof(int)); bn_t x; bn_new(x); fp_prime_get_par(x); bn_write_bin(buf, 40, x); hb(buf, 40); hi(bn_sign(x)); item("curve-family parameter and its sparse form"); }
		fp_t a, b; fp_new(a); fp_new(b); fp_set_dig(a, 12345); T_(fp_inv(b, a)); fp_write_bin(buf, RLC_FP_BYTES, b); hb(buf, RLC_FP_BYTES); { int r = 0; T_(r = fp_srt(b, a)); hi(r); if (r) { fp_write_bin(buf, RLC_FP_BYTES, b); hb(buf, RLC_FP_BYTES); } } fp_set_dig(a, 7); { int r = 0; T_(r = fp_smb(a)); hi(r); }
		{ bn_t e; bn_new(e); bn_set_2b(e, 100); bn_sub_dig(e, e, 3); T_(fp_exp(b, a, e)); fp_write_bin(buf, RLC_FP_BYTES, b); hb(buf, RLC_FP_BYTES); } item("field inverse, square root, symbol, exponentiation");
		bn_t k, n, k2; bn_new(k); bn_new(n); bn_new(k2); ep_curve_get_ord(n); bn_write_bin(buf, RLC_FP_BYTES, n); hb(buf, RLC_FP_BYTES); bn_set_2b(k, 200); bn_sub_dig(k, k, 77); bn_sub_dig(k2, n, 5);
		ep_t p, q, g; ep_new(p); ep_new(q); ep_new(g); ep_curve_get_gen(g);
		#define EPH(P) do { int sz_ = 0; T_(sz_ = ep_size_bin(P, 0)); if (sz_ > 0 && sz_ < 200) { T_(ep_write_bin(buf, sz_, P, 0)); hb(buf, (size_t)sz_); } T_(sz_ = ep_size_bin(P, 1)); if (sz_ > 0 && sz_ < 200) { T_(ep_write_bin(buf, sz_, P, 1)); hb(buf, (size_t)sz_); } } while (0)
		EPH(g); item("generator encoding (plain and compressed)"); T_(ep_mul_gen(p, k)); EPH(p); item("ep_mul_gen (generator table)"); T_(ep_mul_lwnaf(p, g, k)); EPH(p); item("ep_mul_lwnaf"); T_(ep_mul_lwreg(p, g, k2)); EPH(p); item("ep_mul_lwreg"); T_(ep_mul_monty(p, g, k)); EPH(p); item("ep_mul_monty"); T_(ep_mul_sim_gen(p, k, g, k2)); EPH(p); item("ep_mul_sim_gen"); T_(ep_mul_sim(q, g, k, p, k2)); EPH(q); item("ep_mul_sim");
		{ static ep_t tab[RLC_EP_TABLE]; for (int i = 0; i < RLC_EP_TABLE; i++) ep_new(tab[i]); T_(ep_mul_pre(tab, p)); T_(ep_mul_fix(q, (const ep_t *)tab, k)); EPH(q); } item("ep_mul_pre / ep_mul_fix");
		if (ep_curve_is_endom()) { T_(ep_psi(q, p)); EPH(q); item("ep_psi"); }
		T_(ep_mul_cof(q, p)); EPH(q); item("ep_mul_cof"); T_(ep_map(q, (const uint8_t *)"abc", 3)); EPH(q); item("ep_map"); T_(ep_map_basic(q, (const uint8_t *)"abcd", 4)); EPH(q); item("ep_map_basic"); { int oc = 0; T_(oc = ep_on_curve(p)); hi(oc); }
		/* decoding of a compressed point (sign rule) */
		{ int sz = 0; T_(sz = ep_size_bin(p, 1)); if (sz > 0 && sz < 200) { T_(ep_write_bin(buf, sz, p, 1)); T_(ep_read_bin(q, buf, sz)); EPH(q); } } item("compressed point decoding");
		{ fp2_t x, y; fp2_new(x); fp2_new(y); fp2_set_dig(x, 7); fp_set_dig(x[1], 9); T_(fp2_inv(y, x)); fp2_write_bin(buf, 2 * RLC_FP_BYTES, y, 0); hb(buf, 2 * RLC_FP_BYTES); T_(fp2_frb(y, x, 1)); fp2_write_bin(buf, 2 * RLC_FP_BYTES, y, 0); hb(buf, 2 * RLC_FP_BYTES); { int r = 0; T_(r = fp2_srt(y, x)); hi(r); } T_(fp2_mul_nor(y, x)); fp2_write_bin(buf, 2 * RLC_FP_BYTES, y, 0); hb(buf, 2 * RLC_FP_BYTES); } item("F_p^2 inverse, Frobenius, square root, non-residue multiplication");
		if (ep_curve_is_pairf()) { hi(ep2_curve_is_twist()); hi(ep2_curve_opt_a()); hi(ep2_curve_opt_b()); item("twist flags");
			g1_t g1; g2_t g2, r2; gt_t e; g1_new(g1); g2_new(g2); g2_new(r2); gt_new(e); g1_get_gen(g1); g2_get_gen(g2);
			#define G2H(P) do { T_(g2_write_bin(buf, 4 * RLC_FP_BYTES + 1, P, 0)); hb(buf, 4 * RLC_FP_BYTES + 1); T_(g2_write_bin(buf, 2 * RLC_FP_BYTES + 1, P, 1)); hb(buf, 2 * RLC_FP_BYTES + 1); } while (0)
			G2H(g2); T_(g2_mul_gen(r2, k)); G2H(r2); T_(g2_mul(r2, g2, k2)); G2H(r2); T_(ep2_frb(r2, r2, 1)); G2H(r2); T_(ep2_mul_cof(r2, r2)); G2H(r2); T_(g2_map(r2, (const uint8_t *)"abc", 3)); G2H(r2); { int v = 0; T_(v = g2_is_valid(r2)); hi(v); T_(v = g1_is_valid(p)); hi(v); } item("G2 generator, multiplications, Frobenius, cofactor, hashing, validity");
			T_(pc_map(e, g1, g2)); T_(gt_write_bin(buf, 12 * RLC_FP_BYTES, e, 0)); hb(buf, 12 * RLC_FP_BYTES); T_(gt_exp_gen(e, k)); T_(gt_write_bin(buf, 12 * RLC_FP_BYTES, e, 0)); hb(buf, 12 * RLC_FP_BYTES); { int v = 0; T_(v = gt_is_valid(e)); hi(v); } item("pairing of the generators, gt_exp_gen, gt_is_valid"); T_(gt_get_gen(e)); T_(gt_write_bin(buf, 12 * RLC_FP_BYTES, e, 0)); hb(buf, 12 * RLC_FP_BYTES);
			{ fp12_t f; fp12_new(f); T_(fp12_frb(f, e, 1)); T_(fp12_write_bin(buf, 12 * RLC_FP_BYTES, f, 0)); hb(buf, 12 * RLC_FP_BYTES); T_(fp12_inv(f, e)); T_(fp12_write_bin(buf, 12 * RLC_FP_BYTES, f, 0)); hb(buf, 12 * RLC_FP_BYTES); } item("gt_get_gen, F_p^12 Frobenius and inverse"); }
	}
	if (have_eb) { hi(eb_param_get()); hi(eb_curve_is_kbltz()); hi(eb_param_level()); hi(eb_curve_opt_a()); hi(eb_curve_opt_b()); bn_t k, n; bn_new(k); bn_new(n); eb_curve_get_ord(n); bn_write_bin(buf, RLC_FB_BYTES + 1, n); hb(buf, RLC_FB_BYTES + 1); bn_set_2b(k, 200); bn_sub_dig(k, k, 77);
		eb_t p, g; eb_new(p); eb_new(g); eb_curve_get_gen(g);
		#define EBH(P) do { T_(eb_write_bin(buf, 2 * RLC_FB_BYTES + 1, P, 0)); hb(buf, 2 * RLC_FB_BYTES + 1); T_(eb_write_bin(buf, RLC_FB_BYTES + 1, P, 1)); hb(buf, RLC_FB_BYTES + 1); } while (0)
		EBH(g); T_(eb_mul_gen(p, k)); EBH(p); T_(eb_mul_lwnaf(p, g, k)); EBH(p); T_(eb_mul_lodah(p, g, k)); EBH(p); T_(eb_mul_halve(p, g, k)); EBH(p); T_(eb_map(p, (const uint8_t *)"abc", 3)); EBH(p);
		{ fb_t a, b; fb_new(a); fb_new(b); fb_set_dig(a, 0x53); T_(fb_inv(b, a)); hb(b, sizeof(fb_st)); T_(fb_srt(b, a)); hb(b, sizeof(fb_st)); T_(fb_slv(b, a)); hb(b, sizeof(fb_st)); hi(fb_trc(a)); } item("binary curve: flags, generator, multiplications, hashing, field inverse / root / solve / trace"); }
	{ int code = err_get_code(); hi(code); } item("sticky error code");
	return H;
}

/* canonical state after a history */
typedef struct { int ep, eb, ep_valid; } cstate;
static void apply(int a, cstate *s) {
	int th;
	if (a < 6) { sel_ep(a); s->ep = a; s->ep_valid = 1; }
	else if (a < 8) { sel_eb(a - 6); s->eb = a - 6; }
	else if (a == 8) { bn_t p; bn_new(p); bn_read_str(p, "ffffffffffffffffffffffffffffffffffffffffffffffffffffffffffffff43", 64, 16); VF_TRY(th, fp_prime_set_dense(p)); s->ep_valid = 0; }
	else if (a == 9) { if (s->ep_valid || s->eb >= 0) (void)battery(s->ep_valid, s->eb >= 0); }
	else { VF_TRY(th, fp_param_set(BN_256)); s->ep_valid = 0; }
}
static void fresh_ctx(void) { core_clean(); if (core_init() != RLC_OK) exit(2); }

/* reference hashes from fresh processes: FR[ep + 1][eb + 1] (index 0 = none) */
static uint64_t FR[7][3]; static int fr_ok[7][3]; static uint64_t FRIT[7][3][MAXIT]; static int FRN[7][3];
static uint64_t fresh_hash(int ep, int eb) {
	if (fr_ok[ep + 1][eb + 1]) return FR[ep + 1][eb + 1];
	int fd[2]; if (pipe(fd)) exit(2); fflush(stdout); pid_t pid = fork();
	if (pid == 0) { close(fd[0]); /* the child is this process as it was right after harness_setup: one core_init, nothing selected */ fresh_ctx(); cstate s = {-1, -1, 0}; if (eb >= 0) apply(6 + eb, &s); if (ep >= 0) apply(ep, &s); uint64_t h = battery(ep >= 0, eb >= 0); if (write(fd[1], &h, sizeof h) != sizeof h || write(fd[1], &nit, sizeof nit) != sizeof nit || write(fd[1], ITH, sizeof ITH) != sizeof ITH) _exit(3); _exit(0); }
	close(fd[1]); uint64_t h = 0; ssize_t n = read(fd[0], &h, sizeof h); if (n == sizeof h && (read(fd[0], &FRN[ep + 1][eb + 1], sizeof(int)) != sizeof(int) || read(fd[0], FRIT[ep + 1][eb + 1], sizeof ITH) != sizeof ITH)) n = 0; close(fd[0]); int st; waitpid(pid, &st, 0); if (n != sizeof h) { fprintf(stderr, "fresh-process battery failed for ep %d eb %d\n", ep, eb); exit(2); }
	FR[ep + 1][eb + 1] = h; fr_ok[ep + 1][eb + 1] = 1; return h;
}
static void harness_setup(void) { if (core_init() != RLC_OK) exit(2); }

static void do_hist(vf_case *c) {
	int L = (int)mpz_get_si(c->v[0]); fresh_ctx(); cstate s = {-1, -1, 0}; char desc[400] = ""; for (int i = 0; i < L; i++) { int a = (int)mpz_get_si(c->v[1 + i]); apply(a, &s); strncat(desc, ANAME[a], sizeof desc - strlen(desc) - 4); strncat(desc, i + 1 < L ? "; " : "", 3); transitions++; }
	if (!s.ep_valid && s.eb < 0) return; /* nothing selected at the end: nothing to observe */
	uint64_t got = battery(s.ep_valid, s.eb >= 0), exp = fresh_hash(s.ep_valid ? s.ep : -1, s.eb); transitions++;
	char st[64]; snprintf(st, sizeof st, "state.ep%d.eb%d", s.ep_valid ? s.ep : -1, s.eb); vf_statf_add(1, "x.%s", st);
	if (got != exp) { /* name the first item of the battery that differs */
		int e1 = (s.ep_valid ? s.ep : -1) + 1, e2 = s.eb + 1, i = 0; while (i < nit && i < FRN[e1][e2] && ITH[i] == FRIT[e1][e2][i]) i++;
		vf_fail(NULL, "%s: after the history [%s] the library does not compute what a fresh process with only the last selections computes", i < nit ? ITL[i] : "battery length", desc); }
}

/* ---------------------------------------------------------------- (b) two contexts */
static ctx_t CA, CB;
/* per-context programs: sequences of step codes: i init, 0..5 select prime curve, b battery, t throw, g get_code, c clean+init */
static const char *PROGS[][2] = {{"i0btgb", "i4bg2b"}, {"i5bbt", "i1tgb3b"}, {"i2bc4b", "i3btb"}};
static void step(ctx_t *cx, char op, uint64_t *obs, int *nobs, int *have) {
	core_set(cx); int th;
	switch (op) { case 'i': if (core_init() != RLC_OK) exit(2); *have = 0; break; case 'c': core_clean(); core_set(cx); /* core_clean detaches the context */ if (core_init() != RLC_OK) exit(2); *have = 0; break;
		case 'b': obs[(*nobs)++] = *have ? battery(1, 0) : 1; break; case 't': th = 0; RLC_TRY { RLC_THROW(ERR_NO_VALID); } RLC_CATCH_ANY { th = 1; } obs[(*nobs)++] = 100 + (uint64_t)th; break; /* the sticky code stays set in THIS context */ case 'g': obs[(*nobs)++] = 200 + (uint64_t)err_get_code(); break;
		default: sel_ep(op - '0'); *have = 1; break; }
	transitions++;
}
static void do_ctx(vf_case *c) {
	int pp = (int)mpz_get_si(c->v[0]); unsigned long mask = mpz_get_ui(c->v[1]); const char *pa = PROGS[pp][0], *pb = PROGS[pp][1]; int la = (int)strlen(pa), lb = (int)strlen(pb);
	uint64_t oa[16], ob[16], sa[16], sb[16]; int na = 0, nb = 0, nsa = 0, nsb = 0, ha = 0, hb_ = 0;
	/* solo runs (each on a zeroed context object) */
	core_clean(); memset(&CA, 0, sizeof CA); memset(&CB, 0, sizeof CB); for (int i = 0; i < la; i++) step(&CA, pa[i], sa, &nsa, &ha); core_set(&CA); core_clean();
	memset(&CA, 0, sizeof CA); ha = 0; for (int i = 0; i < lb; i++) step(&CB, pb[i], sb, &nsb, &hb_); core_set(&CB); core_clean(); memset(&CB, 0, sizeof CB); hb_ = 0;
	/* the interleaving */
	int ia = 0, ib = 0; for (int t = 0; t < la + lb; t++) { int who = (int)((mask >> t) & 1); if (who == 0 && ia == la) who = 1; if (who == 1 && ib == lb) who = 0; if (who == 0) step(&CA, pa[ia++], oa, &na, &ha); else step(&CB, pb[ib++], ob, &nb, &hb_); }
	if (na != nsa || memcmp(oa, sa, sizeof(uint64_t) * (size_t)na)) { int i = 0; while (i < na && oa[i] == sa[i]) i++; vf_fail(NULL, "context A (program %s) observes something else at its observation %d when interleaved with context B (program %s, schedule %lx) than when running alone", pa, i, pb, mask); }
	if (nb != nsb || memcmp(ob, sb, sizeof(uint64_t) * (size_t)nb)) { int i = 0; while (i < nb && ob[i] == sb[i]) i++; vf_fail(NULL, "context B (program %s) observes something else at its observation %d when interleaved with context A (program %s, schedule %lx) than when running alone", pb, i, pa, mask); }
	core_set(&CA); core_clean(); core_set(&CB); core_clean(); core_set(NULL); if (core_init() != RLC_OK) exit(2);
}

static void run_case(vf_case *c) { vf_nontrivial(); if (!strcmp(c->op, "hist")) do_hist(c); else if (!strcmp(c->op, "ctx")) do_ctx(c); else vf_fail(NULL, "unknown op"); }
static vf_case K;
static void enumerate(void) {
	vf_case_init(&K);
	int maxl = vf_tier ? 4 : 3;
	for (int L = 1; L <= maxl; L++) { char bn[32]; snprintf(bn, sizeof bn, "histories-of-length-%d", L); if (!vf_bound_on(bn)) continue; long tot = 1; for (int i = 0; i < L; i++) tot *= NACT;
		for (long idx = 0; idx < tot && !vf_expired(); idx++) { if (!vf_mine()) continue; long v = idx; K.op = "hist"; K.n = 1 + L; mpz_set_si(K.v[0], L); int last_sel = 0; for (int i = 0; i < L; i++) { mpz_set_si(K.v[1 + i], v % NACT); if (v % NACT < 8) last_sel = 1; v /= NACT; } (void)last_sel; vf_stat_add("states", 1); vf_run(&K); }
		vf_bound_done(bn); }
	if (vf_bound_on("two-contexts-all-interleavings")) { for (int pp = 0; pp < 3; pp++) { int la = (int)strlen(PROGS[pp][0]), lb = (int)strlen(PROGS[pp][1]), n = la + lb;
			for (unsigned long mask = 0; mask < (1UL << n) && !vf_expired(); mask++) { if (__builtin_popcountl(mask) != lb) continue; if (!vf_mine()) continue; K.op = "ctx"; K.n = 2; mpz_set_si(K.v[0], pp); mpz_set_ui(K.v[1], mask); vf_stat_add("states", 1); vf_run(&K); } }
		vf_bound_done("two-contexts-all-interleavings"); }
	vf_stat_add("transitions", transitions);
}
VF_MAIN()
