/*
 * C04 -- the pairing is bilinear, non-degenerate and maps into the order-r target group.
 *
 * Worlds: W64 (BN_P256 with the D-type twist, SM9_P256 with the M-type twist), W64-381 (B12_P381).
 * The property is algebraic, so no reference pairing is needed: for base points P0 in G1, Q0 in G2 the value
 * E0 = e(P0, Q0) of each map must satisfy E0 != 1, E0^r = 1, and e([a]P0, [b]Q0) = E0^(ab) for every enumerated (a, b);
 * the multiples [a]P0, [b]Q0 are computed by the REFERENCE group law (ref_ec.h / ref_ec2.h) and injected in affine or
 * projective form, the power E0^(ab) by the REFERENCE tower (ref_ext.h) -- neither uses the library's scalar
 * multiplication or exponentiation. Multi-pairings over lists with identities at arbitrary positions must equal
 * E0^(sum a_i b_i).
 * Case args: pair: cid, map, base, a, b, repP, repQ;  sim: cid, map, m, pattern.
 */
#include "pc_common.h"

static void harness_setup(void) {
	if (core_init() != RLC_OK) exit(2);
	vf_reseed(); tiny_curves_setup(); ep2_common_setup();
}

typedef void (*map_fn)(fp12_t, const ep_t, const ep2_t);
typedef void (*sim_fn)(fp12_t, const ep_t *, const ep2_t *, int);
static void w_pc_map(fp12_t r, const ep_t p, const ep2_t q) { pc_map(r, p, q); }
static void w_pc_map_sim(fp12_t r, const ep_t *p, const ep2_t *q, int m) { pc_map_sim(r, p, q, m); }
static const struct { const char *n; map_fn f; const char *sn; sim_fn sf; } MAPS[] = {
	{"pc_map", w_pc_map, "pc_map_sim", w_pc_map_sim},
	{"pp_map_oatep_k12", pp_map_oatep_k12, "pp_map_sim_oatep_k12", pp_map_sim_oatep_k12},
	{"pp_map_tatep_k12", pp_map_tatep_k12, "pp_map_sim_tatep_k12", pp_map_sim_tatep_k12},
	{"pp_map_weilp_k12", pp_map_weilp_k12, "pp_map_sim_weilp_k12", pp_map_sim_weilp_k12}};
#define NMAPS 4
static const long BASES[][2] = {{1, 1}, {5, 7}, {0x12345, -77}};
#define NBASES 3
#if EP_ADD == PROJC
#define DREP REP_PRJ
#elif EP_ADD == JACOB
#define DREP REP_JAC
#else
#define DREP REP_AFF
#endif

/* E0 per (cid, map, base), computed by the library once and checked for the group-membership part of the property */
static relt E0[NMAPS][NBASES]; static int e0_ok[NMAPS][NBASES]; static long e0_cid = -1; static int e0_init = 0;
static rpt BP[NBASES]; static rpt2 BQ[NBASES];
static int get_e0(int mi, int bi) {
	if (!e0_init) { for (int i = 0; i < NMAPS; i++) for (int j = 0; j < NBASES; j++) relt_init(&E0[i][j]); for (int j = 0; j < NBASES; j++) { rpt_init(&BP[j]); rpt2_init(&BQ[j]); } e0_init = 1; }
	if (e0_cid != cur_cid2) { memset(e0_ok, 0, sizeof e0_ok); e0_cid = cur_cid2; mpz_t k; mpz_init(k); for (int j = 0; j < NBASES; j++) { mpz_set_si(k, BASES[j][0]); rpt_mul(&RC, &BP[j], &RG, k); mpz_set_si(k, BASES[j][1]); rpt2_mul(&RC2, &BQ[j], &RG2, k); } mpz_clear(k); }
	if (e0_ok[mi][bi]) return e0_ok[mi][bi] > 0;
	ep_t p; ep2_t q; fp12_t e; ep_new(p); ep2_new(q); fp12_new(e); ep_inject(p, &BP[bi], REP_AFF, 1); ep2_inject(q, &BQ[bi], REP_AFF, 0);
	int th; vf_reseed(); VF_TRY(th, MAPS[mi].f(e, p, q));
	if (th) { e0_ok[mi][bi] = -1; return 0; }
	gt_get(&E0[mi][bi], e); e0_ok[mi][bi] = 1; return 1;
}
static void expect_gt(const char *what, const void *got, const relt *exp) {
	relt g; relt_init(&g); transitions++; int canon = gt_get_canon(&g, got);
	if (!relt_eq(&T12, &g, exp)) { int i = 0; while (!mpz_cmp(g.c[i], exp->c[i])) i++; char b[500]; gmp_snprintf(b, sizeof b, "%s: coefficient %d expected %Zx got %Zx", what, i, exp->c[i], g.c[i]); vf_fail(NULL, "%s", b); }
	else if (!canon) vf_fail(NULL, "%s: a coefficient is not canonical", what);
	relt_clear(&g);
}

/* base: cid, map, base */
static void do_base(vf_case *c) {
	int mi = (int)mpz_get_si(c->v[1]), bi = (int)mpz_get_si(c->v[2]);
	if (!get_e0(mi, bi)) { vf_fail(NULL, "%s raised on the base points", MAPS[mi].n); return; }
	relt R; relt_init(&R); transitions++;
	if (gt_ref_is_one(&E0[mi][bi])) vf_fail(NULL, "%s: degenerate: e(P0, Q0) is the identity", MAPS[mi].n);
	if (relt_is_zero(&T12, &E0[mi][bi])) vf_fail(NULL, "%s: e(P0, Q0) is zero", MAPS[mi].n);
	relt_pow(&T12, &R, &E0[mi][bi], RN); if (!gt_ref_is_one(&R)) vf_fail(NULL, "%s: e(P0, Q0)^r is not the identity", MAPS[mi].n);
	/* the library's own membership test and generator agree */
	{ gt_t e; gt_new(e); gt_put(e, &E0[mi][bi]); int th, v; VF_TRY(th, v = gt_is_valid(e)); if (!th && !v) vf_fail(NULL, "%s: gt_is_valid rejects a pairing value", MAPS[mi].n); }
	if (mi == 0 && bi == 0) { gt_t g; gt_new(g); gt_get_gen(g); expect_gt("gt_get_gen vs pc_map(g1 generator, g2 generator)", g, &E0[0][0]); }
	relt_clear(&R);
}
/* pair: cid, map, base, a, b, repP, repQ */
static void do_pair(vf_case *c) {
	int mi = (int)mpz_get_si(c->v[1]), bi = (int)mpz_get_si(c->v[2]), rp = (int)mpz_get_si(c->v[5]), rq = (int)mpz_get_si(c->v[6]);
	if (!get_e0(mi, bi)) { vf_fail(NULL, "%s raised on the base points", MAPS[mi].n); return; }
	rpt P; rpt2 Q; rpt_init(&P); rpt2_init(&Q); rpt_mul(&RC, &P, &BP[bi], c->v[3]); rpt2_mul(&RC2, &Q, &BQ[bi], c->v[4]);
	mpz_t ab; mpz_init(ab); mpz_mul(ab, c->v[3], c->v[4]); mpz_mod(ab, ab, RN);
	relt E; relt_init(&E); relt_pow(&T12, &E, &E0[mi][bi], ab);
	ep_t p; ep2_t q; fp12_t e; ep_new(p); ep2_new(q); fp12_new(e);
	ep_inject(p, &P, rp ? DREP : REP_AFF, 3); ep2_inject(q, &Q, rq ? DREP : REP_AFF, 2);
	ep_t sp; ep2_t sq; ep_new(sp); ep2_new(sq); ep_copy(sp, p); ep2_copy(sq, q);
	int th; memset(e, 0x5A, sizeof(fp12_t)); vf_reseed(); VF_TRY(th, MAPS[mi].f(e, p, q));
	char w[96]; snprintf(w, sizeof w, "%s[reps %d,%d]", MAPS[mi].n, rp, rq);
	if (th) vf_fail(NULL, "%s raised %d", w, th); else expect_gt(w, e, &E);
	if (memcmp(p, sp, sizeof(ep_st)) && ep_cmp(p, sp) != RLC_EQ) vf_fail(NULL, "%s: G1 input modified", w);
	if (ep2_cmp(q, sq) != RLC_EQ) vf_fail(NULL, "%s: G2 input modified", w);
	rpt_clear(&P); rpt2_clear(&Q); relt_clear(&E); mpz_clear(ab);
}
/* sim: cid, map, m, pattern: pair i uses a_i = SA[(pat + 3i) % n], b_i = SA[(pat / 7 + 5i) % n]; bits of (pat >> 8) mark identities: bit 2i -> P_i, bit 2i+1 -> Q_i */
static const long SA[] = {1, 2, -1, 3, 0x7fff, -5, 1000003};
static void do_sim(vf_case *c) {
	int mi = (int)mpz_get_si(c->v[1]), m = (int)mpz_get_si(c->v[2]); long pat = mpz_get_si(c->v[3]);
	if (!get_e0(mi, 0)) { vf_fail(NULL, "%s raised on the base points", MAPS[mi].n); return; }
	ep_t *ps = malloc(sizeof(ep_t) * (size_t)(m + 1)); ep2_t *qs = malloc(sizeof(ep2_t) * (size_t)(m + 1));
	rpt P; rpt2 Q; rpt_init(&P); rpt2_init(&Q); mpz_t a, b, sum; mpz_inits(a, b, sum, NULL);
	for (int i = 0; i < m; i++) {
		ep_new(ps[i]); ep2_new(qs[i]);
		mpz_set_si(a, SA[(unsigned long)((pat & 0xff) + 3 * i) % 7]); mpz_set_si(b, SA[(unsigned long)((pat & 0xff) / 7 + 5 * i) % 7]);
		rpt_mul(&RC, &P, &BP[0], a); rpt2_mul(&RC2, &Q, &BQ[0], b);
		int ip = (int)((pat >> (8 + 2 * i)) & 1), iq = (int)((pat >> (9 + 2 * i)) & 1);
		if (ip) rpt_set_inf(&P); if (iq) rpt2_set_inf(&Q);
		if (!ip && !iq) { mpz_mul(a, a, b); mpz_add(sum, sum, a); }
		ep_inject(ps[i], &P, (i & 1) ? DREP : REP_AFF, 3); ep2_inject(qs[i], &Q, (i & 2) ? DREP : REP_AFF, 2);
	}
	mpz_mod(sum, sum, RN); relt E; relt_init(&E); relt_pow(&T12, &E, &E0[mi][0], sum);
	fp12_t e; fp12_new(e); memset(e, 0x5A, sizeof(fp12_t)); int th; vf_reseed(); VF_TRY(th, MAPS[mi].sf(e, (const ep_t *)ps, (const ep2_t *)qs, m));
	char w[96]; snprintf(w, sizeof w, "%s[m=%d]", MAPS[mi].sn, m);
	if (th) vf_fail(NULL, "%s raised %d", w, th); else expect_gt(w, e, &E);
	free(ps); free(qs); rpt_clear(&P); rpt2_clear(&Q); relt_clear(&E); mpz_clears(a, b, sum, NULL);
}

/* line: cid, base, a, b, c: R = [b]Q0, Q = [c]Q0, P = [a]P0: the two implementations of the projective line functions (basic / lazy-reduction) must
 * agree on the line value and both must leave R = 2R resp. R + Q (reference group law) */
static void do_line(vf_case *c) {
	int bi = (int)mpz_get_si(c->v[1]); get_e0(0, bi);
	rpt P; rpt2 R, Q, D, S; rpt_init(&P); rpt2_init(&R); rpt2_init(&Q); rpt2_init(&D); rpt2_init(&S);
	rpt_mul(&RC, &P, &BP[bi], c->v[2]); rpt2_mul(&RC2, &R, &BQ[bi], c->v[3]); rpt2_mul(&RC2, &Q, &BQ[bi], c->v[4]);
	if (P.inf || R.inf || Q.inf) return;
	rpt2_add(&RC2, &D, &R, &R); rpt2_add(&RC2, &S, &R, &Q);
	ep_t p; ep2_t r1, r2, q; fp12_t l1, l2; ep_new(p); ep2_new(r1); ep2_new(r2); ep2_new(q); fp12_new(l1); fp12_new(l2);
	int th1, th2; relt A, B; relt_init(&A); relt_init(&B);
	/* the Miller loops pass P prepared by pp_norm / with negated or scaled coordinates; for a differential check any fixed P will do */
	ep_inject(p, &P, REP_AFF, 1);
	for (int rep = 0; rep < 2; rep++) {
		ep2_inject(q, &R, rep ? REP_PRJ : REP_AFF, 2); fp12_zero(l1); fp12_zero(l2);
		VF_TRY(th1, pp_dbl_k12_projc_basic(l1, r1, q, p)); VF_TRY(th2, pp_dbl_k12_projc_lazyr(l2, r2, q, p)); transitions++;
		if (th1 || th2) vf_fail(NULL, "pp_dbl_k12_projc raised (%d, %d)", th1, th2);
		else { gt_get(&A, l1); gt_get(&B, l2); if (!relt_eq(&T12, &A, &B)) vf_fail(NULL, "pp_dbl_k12_projc: basic and lazyr line values differ"); r1->coord = PROJC; r2->coord = PROJC; expect_pt2("pp_dbl_k12_projc_basic point", r1, &D, 0, NULL); expect_pt2("pp_dbl_k12_projc_lazyr point", r2, &D, 0, NULL); }
	}
	if (!rpt2_eq(&R, &Q) && !S.inf) for (int rep = 0; rep < 2; rep++) {
		ep2_inject(q, &Q, REP_AFF, 0); ep2_inject(r1, &R, rep ? REP_PRJ : REP_AFF, 2); ep2_copy(r2, r1); fp12_zero(l1); fp12_zero(l2);
		if (!rep) { fp2_set_dig(r1->z, 1); fp2_set_dig(r2->z, 1); r1->coord = r2->coord = PROJC; }
		VF_TRY(th1, pp_add_k12_projc_basic(l1, r1, q, p)); VF_TRY(th2, pp_add_k12_projc_lazyr(l2, r2, q, p)); transitions++;
		if (th1 || th2) vf_fail(NULL, "pp_add_k12_projc raised (%d, %d)", th1, th2);
		else { gt_get(&A, l1); gt_get(&B, l2); if (!relt_eq(&T12, &A, &B)) vf_fail(NULL, "pp_add_k12_projc: basic and lazyr line values differ"); r1->coord = PROJC; r2->coord = PROJC; expect_pt2("pp_add_k12_projc_basic point", r1, &S, 0, NULL); expect_pt2("pp_add_k12_projc_lazyr point", r2, &S, 0, NULL); }
	}
	/* affine line functions */
	{ ep2_inject(q, &R, REP_AFF, 0); fp12_zero(l1); VF_TRY(th1, pp_dbl_k12_basic(l1, r1, q, p)); transitions++; if (th1) vf_fail(NULL, "pp_dbl_k12_basic raised %d", th1); else expect_pt2("pp_dbl_k12_basic point", r1, &D, 0, NULL);
		if (!rpt2_eq(&R, &Q) && !S.inf) { ep2_inject(q, &Q, REP_AFF, 0); ep2_inject(r1, &R, REP_AFF, 0); fp12_zero(l1); VF_TRY(th1, pp_add_k12_basic(l1, r1, q, p)); if (th1) vf_fail(NULL, "pp_add_k12_basic raised %d", th1); else expect_pt2("pp_add_k12_basic point", r1, &S, 0, NULL); } }
	rpt_clear(&P); rpt2_clear(&R); rpt2_clear(&Q); rpt2_clear(&D); rpt2_clear(&S); relt_clear(&A); relt_clear(&B);
}


/* fexp: cid, j: the final exponentiation on its own. Implementations raise to a fixed multiple c (coprime to r) of (p^12 - 1) / r, so the value is
 * judged as a homomorphism onto the order-r subgroup: pp_exp_k12(f)^r = 1, trivial exactly when f^((p^12 - 1) / r) is, pp_exp_k12(f g) =
 * pp_exp_k12(f) pp_exp_k12(g) with the product taken in the reference tower, and the separate-result call agrees with the in-place one. */
static void fexp_elem(relt *F, long j) { mpz_t v; mpz_init(v); mpz_set_str(v, "b6a4c3e1f09d8775a3c2e1f0d9b8a76655443322110ffeeddccbbaa998877665", 16); mpz_add_ui(v, v, (unsigned long)j * 7919UL);
	for (int i = 0; i < 12; i++) { mpz_mul_ui(v, v, 0x9E3779B1UL + (unsigned long)i); mpz_add_ui(v, v, (unsigned long)(j + i)); mpz_mod(F->c[i], v, RX_P); if (j < 12 && i != j && j % 2) mpz_set_ui(F->c[i], 0); } /* odd small j: a single non-zero coefficient */
	mpz_clear(v); }
static void do_fexp(vf_case *c) {
	long j = mpz_get_si(c->v[1]); int th; relt F[3], R[3], E, G; for (int i = 0; i < 3; i++) { relt_init(&F[i]); relt_init(&R[i]); } relt_init(&E); relt_init(&G); mpz_t e; mpz_init(e);
	fexp_elem(&F[0], j); fexp_elem(&F[1], j + 1); relt_mul(&T12, &F[2], &F[0], &F[1]);
	if (relt_is_zero(&T12, &F[0]) || relt_is_zero(&T12, &F[1])) goto out;
	mpz_pow_ui(e, RX_P, 12); mpz_sub_ui(e, e, 1); if (!mpz_divisible_p(e, RN)) { vf_fail(NULL, "r does not divide p^12 - 1"); goto out; } mpz_divexact(e, e, RN);
	fp12_t f, r; fp12_new(f); fp12_new(r);
	for (int i = 0; i < 3; i++) { gt_put(f, &F[i]); memset(r, 0x5A, sizeof(fp12_t)); VF_TRY(th, pp_exp_k12(r, f)); transitions++; if (th) { vf_fail(NULL, "pp_exp_k12 raised %d", th); goto out; }
		if (!gt_get_canon(&R[i], r)) { vf_fail(NULL, "pp_exp_k12: non-canonical coefficient"); goto out; } gt_get(&G, f); if (!relt_eq(&T12, &G, &F[i])) vf_fail(NULL, "pp_exp_k12 modified its input");
		gt_put(f, &F[i]); VF_TRY(th, pp_exp_k12(f, f)); transitions++; if (th) vf_fail(NULL, "pp_exp_k12 (in place) raised %d", th); else expect_gt("pp_exp_k12: in-place result vs separate result", f, &R[i]);
		relt_pow(&T12, &G, &R[i], RN); if (!gt_ref_is_one(&G)) vf_fail(NULL, "pp_exp_k12: the result does not have order dividing r");
		relt_pow(&T12, &E, &F[i], e); if (gt_ref_is_one(&E) != gt_ref_is_one(&R[i])) vf_fail(NULL, "pp_exp_k12: trivial / non-trivial verdict differs from f^((p^12 - 1) / r)"); }
	relt_mul(&T12, &G, &R[0], &R[1]); transitions++; if (!relt_eq(&T12, &G, &R[2])) vf_fail(NULL, "pp_exp_k12(f g) != pp_exp_k12(f) pp_exp_k12(g)");
out:
	for (int i = 0; i < 3; i++) { relt_clear(&F[i]); relt_clear(&R[i]); } relt_clear(&E); relt_clear(&G); mpz_clear(e);
}

#if EP_ADD == PROJC || EP_ADD == JACOB
/* dxs: cid, j: the sparse multiplications of the Miller loop against the generic product in the reference tower. The sparse operand has the shape the
 * line functions produce for the selected twist type (D: b[0][0], b[1][0], b[1][1]; M: b[0][0], b[0][1], b[1][1] non-zero, as F_p^2 slots). */
static void do_dxs(vf_case *c) {
	long j = mpz_get_si(c->v[1]); int th; relt A, B, E; relt_init(&A); relt_init(&B); relt_init(&E); fexp_elem(&A, 2 * j + 100); fexp_elem(&B, 2 * j + 101);
	int tw = ep2_curve_is_twist(); static const int KD[] = {0, 1, 6, 7, 8, 9}, KM[] = {0, 1, 2, 3, 8, 9}; const int *keep = tw == RLC_EP_DTYPE ? KD : KM;
	for (int i = 0; i < 12; i++) { int k = 0; for (int q = 0; q < 6; q++) if (keep[q] == i) k = 1; if (!k) mpz_set_ui(B.c[i], 0); }
	if (j % 4 == 1) mpz_set_ui(B.c[keep[1]], 0); if (j % 4 == 2) { mpz_set_ui(B.c[keep[2]], 0); mpz_set_ui(B.c[keep[3]], 0); } if (j % 4 == 3) { mpz_set_ui(B.c[keep[0]], 1); mpz_set_ui(B.c[keep[1]], 0); }
	relt_mul(&T12, &E, &A, &B);
	typedef void (*m_fn)(fp12_t, const fp12_t, const fp12_t); static const struct { const char *n; m_fn f; } M[] = {{"fp12_mul_dxs_basic", fp12_mul_dxs_basic}, {"fp12_mul_dxs_lazyr", fp12_mul_dxs_lazyr}};
	fp12_t a, b, r; fp12_new(a); fp12_new(b); fp12_new(r);
	for (int i = 0; i < 2; i++) for (int al = 0; al < 2; al++) { gt_put(a, &A); gt_put(b, &B); memset(r, 0x5A, sizeof(fp12_t)); fp_st (*o)[2][3][2] = NULL; (void)o; char w[64]; snprintf(w, sizeof w, "%s%s (twist type %d)", M[i].n, al ? " [c == a]" : "", tw);
		if (al) { VF_TRY(th, M[i].f(a, a, b)); if (th) vf_fail(NULL, "%s raised %d", w, th); else expect_gt(w, a, &E); } else { VF_TRY(th, M[i].f(r, a, b)); if (th) vf_fail(NULL, "%s raised %d", w, th); else expect_gt(w, r, &E); } }
	relt_clear(&A); relt_clear(&B); relt_clear(&E);
}
#endif

static void run_case(vf_case *c) {
	if (!select_pc(mpz_get_si(c->v[0]))) { vf_fail(NULL, "parameter set %ld could not be installed", mpz_get_si(c->v[0])); return; }
	vf_nontrivial();
	if (!strcmp(c->op, "base")) do_base(c); else if (!strcmp(c->op, "pair")) do_pair(c); else if (!strcmp(c->op, "sim")) do_sim(c); else if (!strcmp(c->op, "line")) do_line(c); else if (!strcmp(c->op, "fexp")) do_fexp(c);
#if EP_ADD == PROJC || EP_ADD == JACOB
	else if (!strcmp(c->op, "dxs")) do_dxs(c);
#endif
	else vf_fail(NULL, "unknown op");
}

static vf_case K;
static void enumerate(void) {
	vf_case_init(&K);
	mpz_t t; mpz_init(t);
#if FP_PRIME == 256
	static const int IDS[] = {BN_P256, SM9_P256};
#elif FP_PRIME == 381
	static const int IDS[] = {B12_P381};
#elif FP_PRIME == 446 && defined(FP_QNRES) /* the twist constants of the BLS12 curves at 446 and 638 bits assume the tower over u^2 = -1, xi = 1 + u, i.e. a build with FP_QNRES */
	static const int IDS[] = {B12_P446};
#elif FP_PRIME == 446
	static const int IDS[] = {BN_P446};
#elif FP_PRIME == 638 && defined(FP_QNRES)
	static const int IDS[] = {B12_P638};
#else
	static const int IDS[] = {0};
#endif
	for (unsigned ci = 0; ci < sizeof IDS / sizeof *IDS; ci++) {
		char bn[64]; snprintf(bn, sizeof bn, "w64-pairing-%d", IDS[ci]);
		if (!vf_bound_on(bn)) continue;
		long cid = IDS[ci]; if (!select_pc(cid)) { vf_fail(NULL, "parameter set %ld could not be installed (curve, twist or tower validation)", cid); continue; }
		mpz_set_si(K.v[0], cid);
		/* scalar alphabet: 0, 1, 2, -1, r-1, r, r+1, 2^64, a 200-bit value (thorough: plus 3, -2, 2r, 2^255) */
		vf_dom S; vf_dom_init(&S); vf_dom_add_si(&S, 0); vf_dom_add_si(&S, 1); vf_dom_add_si(&S, 2); vf_dom_add_si(&S, -1); vf_dom_add_near(&S, RN, 0);
		mpz_set_ui(t, 1); mpz_mul_2exp(t, t, 64); vf_dom_add(&S, t); mpz_set_str(t, "c29f1e8f7a5b6c3d2e1f0a9b8c7d6e5f4a3b2c1d0e9f8a7b6c", 16); vf_dom_add(&S, t);
		vf_dom_add_si(&S, 3); vf_dom_add_si(&S, -2); mpz_mul_2exp(t, RN, 1); vf_dom_add(&S, t); mpz_set_ui(t, 1); mpz_mul_2exp(t, t, 255); vf_dom_add(&S, t);
		if (vf_tier) { vf_dom_add_si(&S, 5); vf_dom_add_si(&S, -7); mpz_fdiv_q_2exp(t, RN, 1); vf_dom_add_near(&S, t, 0); mpz_set_ui(t, 1); mpz_mul_2exp(t, t, 128); vf_dom_add_near(&S, t, 0); mpz_set_str(t, "5555555555555555555555555555555555555555555555555555555555555555", 16); vf_dom_add(&S, t); }
		vf_dom_uniq(&S);
		for (int mi = 0; mi < NMAPS; mi++) for (int bi = 0; bi < NBASES; bi++) if (vf_mine()) { K.op = "base"; K.n = 3; mpz_set_si(K.v[1], mi); mpz_set_si(K.v[2], bi); vf_run(&K); }
		for (int mi = 0; mi < NMAPS; mi++) for (int bi = 0; bi < NBASES; bi++) for (int a = 0; a < S.n; a++) for (int b = 0; b < S.n && !vf_expired(); b++) for (int rep = 0; rep < 4; rep++) {
			if (rep && DREP == REP_AFF) continue;
			if (!vf_tier && bi >= 1 && rep != 0 && rep != 3) continue;
			if (!vf_mine()) continue;
			vf_stat_add("states", rep == 0); K.op = "pair"; K.n = 7; mpz_set_si(K.v[1], mi); mpz_set_si(K.v[2], bi); mpz_set(K.v[3], S.v[a]); mpz_set(K.v[4], S.v[b]); mpz_set_si(K.v[5], rep & 1); mpz_set_si(K.v[6], rep >> 1); vf_run(&K); }
		/* multi-pairings: m in 0..4 (thorough: ..6), identity in the G1 slot, G2 slot or both at every subset of positions for m <= 3, at each single position above */
		for (int mi = 0; mi < NMAPS; mi++) for (int m = 0; m <= (vf_tier ? 6 : 4) && !vf_expired(); m++) {
			long nsub = m <= 3 ? (1L << (2 * m)) : 0;
			for (long sub = 0; sub < (nsub ? nsub : 1 + 3 * m); sub++) for (long v = 0; v < (vf_tier ? 3 : 1); v++) if (vf_mine()) {
				long idb = nsub ? sub : (sub == 0 ? 0 : ((1 + (sub - 1) % 3) << (2 * ((sub - 1) / 3))));
				vf_stat_add("states", 1); K.op = "sim"; K.n = 4; mpz_set_si(K.v[1], mi); mpz_set_si(K.v[2], m); mpz_set_si(K.v[3], (idb << 8) | (long)((sub * 5 + v * 11 + m) & 0xff)); vf_run(&K); } }
		/* line functions: (a, b, c) over small multiples */
		for (int bi = 0; bi < 2; bi++) for (long a = 1; a <= 3; a++) for (long b = 1; b <= (vf_tier ? 12 : 6); b++) for (long c2 = -3; c2 <= 6; c2++) if (vf_mine()) { vf_stat_add("states", 1); K.op = "line"; K.n = 5; mpz_set_si(K.v[1], bi); mpz_set_si(K.v[2], a); mpz_set_si(K.v[3], b); mpz_set_si(K.v[4], c2); vf_run(&K); }
		for (long j = 0; j < (vf_tier ? 64 : 24); j++) if (vf_mine()) { vf_stat_add("states", 1); K.op = "fexp"; K.n = 2; mpz_set_si(K.v[1], j); vf_run(&K); }
#if EP_ADD == PROJC || EP_ADD == JACOB
		for (long j = 0; j < (vf_tier ? 200 : 64); j++) if (vf_mine()) { vf_stat_add("states", 1); K.op = "dxs"; K.n = 2; mpz_set_si(K.v[1], j); vf_run(&K); }
#endif
		vf_dom_clear(&S);
		vf_bound_done(bn);
	}
	vf_stat_add("transitions", transitions);
	mpz_clear(t);
}

VF_MAIN()
