/*
 * C20 -- masked selection and regular exponentiation do not branch on secrets.
 *
 * Observation = the sequence of basic-block program counters reported by -fsanitize-coverage=trace-pc for the
 * algorithm translation units, which check.py recompiles with the world's flags plus that option and links in front of
 * the archive.  A case runs the routine on a reference secret and on the enumerated secret with identical public inputs
 * (and an identically re-seeded generator) and demands IDENTICAL traces; the result must also equal the specification
 * (a "constant" but wrong selection is caught too).  Anti-vacuity: the documented non-regular routines must show
 * more than one trace over the same secrets.
 */
#include "ep_common.h"

#define TMAX (1 << 20)
static uintptr_t TR[2][TMAX]; static size_t tn[2]; static int rec_on = -1; static int overflow = 0;
void __sanitizer_cov_trace_pc(void) {
	if (rec_on < 0) return;
	if (tn[rec_on] < TMAX) TR[rec_on][tn[rec_on]++] = (uintptr_t)__builtin_return_address(0); else overflow = 1;
}
#define REC(slot, stmt) do { tn[slot] = 0; rec_on = slot; stmt; rec_on = -1; } while (0)
static int same_trace(size_t *where) { size_t n = tn[0] < tn[1] ? tn[0] : tn[1]; for (size_t i = 0; i < n; i++) if (TR[0][i] != TR[1][i]) { *where = i; return 0; } *where = n; return tn[0] == tn[1]; }
/* do the two traces differ ONLY by whole extra repetitions of the loop body that ends at the divergence point?
 * (longer = shorter with d blocks inserted at w, and the inserted blocks repeat the d blocks before them) */
static int extra_iterations_only(size_t w) {
	int lo = tn[0] > tn[1] ? 0 : 1, sh = 1 - lo; if (tn[lo] == tn[sh]) return 0; size_t d = tn[lo] - tn[sh];
	if (w < d || w + d > tn[lo]) return 0;
	for (size_t i = w; i < tn[sh]; i++) if (TR[sh][i] != TR[lo][i + d]) return 0;
	for (size_t i = 0; i < d; i++) if (TR[lo][w + i] != TR[lo][w - d + i]) return 0;
	return 1;
}
static unsigned long long trace_events = 0;
/* distinct-trace accounting per routine (hash of the whole trace) */
#define NR 40
static uint64_t seen[NR][64]; static int nseen[NR];
static void note_trace(int rid, int slot) { uint64_t h = vf_hash_bytes(0xcbf29ce484222325ULL, TR[slot], tn[slot] * sizeof(uintptr_t)); for (int i = 0; i < nseen[rid]; i++) if (seen[rid][i] == h) return; if (nseen[rid] < 64) seen[rid][nseen[rid]++] = h; }

static void harness_setup(void) {
	if (core_init() != RLC_OK) exit(2);
	vf_reseed(); tiny_curves_setup();
}

/* routine table */
enum { R_EP_MONTY, R_EP_LWREG, R_EP_LWNAF /* control: must vary */, R_BN_MXP_MONTY, R_BN_MXP_SLIDE /* control */, R_FP_EXP_MONTY, R_BN_REC_REG,
	R_EP2_MONTY, R_EP2_LWREG, R_G1_SEC, R_G2_SEC, R_GT_SEC, R_EB_LODAH, R_EB_RWNAF, R_DV_COPY, R_DV_SWAP, R_DV_CMP, R_UTIL_CMP, R_FP_COPY, R_DV_CMP_NONCT /* control */,
	R_ED_MONTY, R_ED_LWREG, R_ED_LWNAF /* control */, R_FB_EXP_MONTY, R_FB_EXP_SLIDE /* control */, R_LAST };
static const char *RN_[] = {"ep_mul_monty", "ep_mul_lwreg", "ep_mul_lwnaf(control)", "bn_mxp_monty", "bn_mxp_slide(control)", "fp_exp_monty", "bn_rec_reg",
	"ep2_mul_monty", "ep2_mul_lwreg", "g1_mul_sec", "g2_mul_sec", "gt_exp_sec", "eb_mul_lodah", "eb_mul_rwnaf(control)", "dv_copy_sec", "dv_swap_sec", "dv_cmp_sec", "util_cmp_sec", "fp_copy_sec", "dv_cmp(control)",
	"ed_mul_monty", "ed_mul_lwreg", "ed_mul_lwnaf(control)", "fb_exp_monty", "fb_exp_slide(control)"};
static int is_control(int r) { return r == R_EP_LWNAF || r == R_BN_MXP_SLIDE || r == R_DV_CMP_NONCT || r == R_EB_RWNAF /* right-to-left w-NAF: not regular */ || r == R_ED_LWNAF || r == R_FB_EXP_SLIDE; }

static long pc_cid = -7;
static int need_pairing(void) {
#if WSIZE == 64 && FP_PRIME == 256
	if (pc_cid != BN_P256) { int th; VF_TRY(th, ep_param_set(BN_P256)); if (th) return 0; VF_TRY(th, ep2_curve_set_twist(RLC_EP_DTYPE)); pc_cid = BN_P256; cur_cid = -1; vf_fp_sync(); }
	return 1;
#else
	return 0;
#endif
}
static mpz_t MOD; static int mod_init = 0;

/* run routine `rid` once with secret k into `slot`; returns a digest of the result for the specification check */
static uint64_t run_routine(int rid, long cid, const mpz_t k, int slot, int *thrown) {
	int th = 0; uint64_t dg = 0; bn_t bk; bn_new(bk); vf_bn_set(bk, k);
	if (rid <= R_EP_LWNAF) {
		ep_t p, r; ep_new(p); ep_new(r); ep_inject(p, &RG, REP_AFF, 1); vf_reseed();
		if (rid == R_EP_MONTY) REC(slot, VF_TRY(th, ep_mul_monty(r, p, bk))); else if (rid == R_EP_LWREG) REC(slot, VF_TRY(th, ep_mul_lwreg(r, p, bk))); else REC(slot, VF_TRY(th, ep_mul_lwnaf(r, p, bk)));
		if (!th) { rpt E, G; rpt_init(&E); rpt_init(&G); rpt_mul(&RC, &E, &RG, k); ep_extract(&G, r); dg = rpt_eq(&E, &G) ? 1 : 2; rpt_clear(&E); rpt_clear(&G); }
	} else if (rid == R_BN_MXP_MONTY || rid == R_BN_MXP_SLIDE) {
		if (!mod_init) { mpz_init(MOD); mod_init = 1; mpz_set_str(MOD, tiny ? "fff1" : "ffffffff00000000ffffffffffffffffbce6faada7179e84f3b9cac2fc632551", 16); }
		bn_t a, m, c; bn_new(a); bn_new(m); bn_new(c); vf_bn_set(m, MOD); bn_set_dig(a, 7);
		if (rid == R_BN_MXP_MONTY) REC(slot, VF_TRY(th, bn_mxp_monty(c, a, bk, m))); else REC(slot, VF_TRY(th, bn_mxp_slide(c, a, bk, m)));
		if (!th) { mpz_t e, g, b7; mpz_inits(e, g, b7, NULL); mpz_set_ui(b7, 7); mpz_powm(e, b7, k, MOD); vf_bn_get(g, c); dg = mpz_cmp(e, g) ? 2 : 1; mpz_clears(e, g, b7, NULL); }
	} else if (rid == R_FP_EXP_MONTY) {
		fp_t a, c; fp_new(a); fp_new(c); mpz_t b7; mpz_init_set_ui(b7, 7); vf_fp_set(a, b7);
		REC(slot, VF_TRY(th, fp_exp_monty(c, a, bk)));
		if (!th) { mpz_t e, g; mpz_inits(e, g, NULL); mpz_powm(e, b7, k, vf_p); vf_fp_get(g, c); dg = mpz_cmp(e, g) ? 2 : 1; mpz_clears(e, g, NULL); } mpz_clear(b7);
	} else if (rid == R_BN_REC_REG) {
		int8_t reg[RLC_FP_BITS + 8]; size_t len = sizeof reg; size_t n = mpz_sizeinbase(RN, 2);
		REC(slot, VF_TRY(th, bn_rec_reg(reg, &len, bk, n, 4))); dg = 1 + len; /* the OUTPUT LENGTH must not depend on the secret */
	}
#if WSIZE == 64 && FP_PRIME == 256
	else if (rid >= R_EP2_MONTY && rid <= R_GT_SEC) {
		if (!need_pairing()) { *thrown = 1; return 0; }
		if (rid == R_EP2_MONTY || rid == R_EP2_LWREG || rid == R_G2_SEC) { ep2_t g, r, e; ep2_new(g); ep2_new(r); ep2_new(e); ep2_curve_get_gen(g); vf_reseed();
			if (rid == R_EP2_MONTY) REC(slot, VF_TRY(th, ep2_mul_monty(r, g, bk))); else if (rid == R_EP2_LWREG) REC(slot, VF_TRY(th, ep2_mul_lwreg(r, g, bk))); else REC(slot, VF_TRY(th, g2_mul_sec(r, g, bk)));
			if (!th) { ep2_mul_basic(e, g, bk); dg = ep2_cmp(e, r) == RLC_EQ ? 1 : 2; } }
		else if (rid == R_G1_SEC) { g1_t g, r, e; g1_new(g); g1_new(r); g1_new(e); g1_get_gen(g); vf_reseed(); REC(slot, VF_TRY(th, g1_mul_sec(r, g, bk))); if (!th) { ep_mul_basic(e, g, bk); dg = ep_cmp(e, r) == RLC_EQ ? 1 : 2; } }
		else { gt_t g, r, e; gt_new(g); gt_new(r); gt_new(e); gt_get_gen(g); vf_reseed(); REC(slot, VF_TRY(th, gt_exp_sec(r, g, bk))); if (!th) { fp12_exp(e, g, bk); dg = fp12_cmp(e, r) == RLC_EQ ? 1 : 2; } }
	}
#endif
#if WSIZE == 64
	else if (rid == R_EB_LODAH || rid == R_EB_RWNAF) {
		static long eb_cid = -1; if (eb_cid != cid) { int t2; VF_TRY(t2, eb_param_set((int)cid)); if (t2) { *thrown = 1; return 0; } eb_cid = cid; }
		eb_t g, r, e; eb_new(g); eb_new(r); eb_new(e); eb_curve_get_gen(g); vf_reseed();
		if (rid == R_EB_LODAH) REC(slot, VF_TRY(th, eb_mul_lodah(r, g, bk))); else REC(slot, VF_TRY(th, eb_mul_rwnaf(r, g, bk)));
		if (!th) { eb_mul_basic(e, g, bk); dg = eb_cmp(e, r) == RLC_EQ ? 1 : 2; }
	}
#endif
#if WSIZE == 64 && FP_PRIME == 255 && defined(WITH_ED)
	else if (rid >= R_ED_MONTY && rid <= R_ED_LWNAF) {
		static int ed_set = 0; if (!ed_set) { int t2; VF_TRY(t2, ed_param_set(CURVE_ED25519)); if (t2) { *thrown = 1; return 0; } ed_set = 1; }
		ed_t g, r, e; ed_new(g); ed_new(r); ed_new(e); ed_curve_get_gen(g); vf_reseed();
		if (rid == R_ED_MONTY) REC(slot, VF_TRY(th, ed_mul_monty(r, g, bk))); else if (rid == R_ED_LWREG) REC(slot, VF_TRY(th, ed_mul_lwreg(r, g, bk))); else REC(slot, VF_TRY(th, ed_mul_lwnaf(r, g, bk)));
		if (!th) { ed_mul_basic(e, g, bk); dg = ed_cmp(e, r) == RLC_EQ ? 1 : 2; }
	}
#endif
#if WSIZE == 64 && defined(WITH_FB)
	else if (rid == R_FB_EXP_MONTY || rid == R_FB_EXP_SLIDE) {
		static int fb_set = 0; if (!fb_set) { fb_param_set_any(); fb_set = 1; }
		fb_t a, c, e; fb_new(a); fb_new(c); fb_new(e); fb_set_dig(a, 0x53);
		if (rid == R_FB_EXP_MONTY) REC(slot, VF_TRY(th, fb_exp_monty(c, a, bk))); else REC(slot, VF_TRY(th, fb_exp_slide(c, a, bk)));
		if (!th) { fb_exp_basic(e, a, bk); dg = fb_cmp(e, c) == RLC_EQ ? 1 : 2; }
	}
#endif
	*thrown = th; return dg;
}

/* args: rid, cid, kref, k */
static void do_reg(vf_case *c) {
	int rid = (int)mpz_get_si(c->v[0]); long cid = mpz_get_si(c->v[1]); int th0, th1; size_t w;
	if (rid <= R_BN_REC_REG && rid != R_BN_MXP_MONTY && rid != R_BN_MXP_SLIDE) { if (!select_curve(cid)) { vf_fail(NULL, "curve refused"); return; } pc_cid = -7; }
	else if ((rid == R_BN_MXP_MONTY || rid == R_BN_MXP_SLIDE) && !vf_fp_inited) { if (!select_curve(cid)) return; }
	static int last_rid = -1; static long last_cid = -99; static mpz_t last_ref; static int lr_init = 0; static uint64_t d0; if (!lr_init) { mpz_init(last_ref); lr_init = 1; }
	if (last_rid != rid || last_cid != cid || mpz_cmp(last_ref, c->v[2])) { d0 = run_routine(rid, cid, c->v[2], 0, &th0); if (th0) { vf_fail(NULL, "%s raised on the reference secret", RN_[rid]); last_rid = -1; return; } last_rid = rid; last_cid = cid; mpz_set(last_ref, c->v[2]); note_trace(rid, 0); if (d0 == 2) vf_fail(NULL, "%s: wrong result on the reference secret", RN_[rid]); }
	uint64_t d1 = run_routine(rid, cid, c->v[3], 1, &th1);
	trace_events += tn[1];
	if (th1) { vf_fail(NULL, "%s raised %d", RN_[rid], th1); return; }
	if (overflow) { vf_fail(NULL, "harness: trace buffer overflow"); return; }
	note_trace(rid, 1);
	if (d1 == 2) vf_fail(NULL, "%s: result differs from the specification", RN_[rid]);
	if (rid == R_BN_REC_REG && d0 != d1) vf_fail(NULL, "bn_rec_reg: output length depends on the secret (%llu vs %llu)", (unsigned long long)d0, (unsigned long long)d1);
	if (!is_control(rid) && !same_trace(&w)) { const char *kf = NULL;
		/* L33: the GLS/SAC recoding of the BN-family G2 routines sizes its loop by the bit length of the secret sub-scalars */
		if ((rid == R_EP2_LWREG || rid == R_G2_SEC || rid == R_GT_SEC) && extra_iterations_only(w)) kf = "L33-gls-sac-length-depends-on-subscalars";
		/* L34: the Lopez-Dahab ladder's y-recovery has a dedicated branch for (k+1)P = O, i.e. exactly k = n-1 */
		#if WSIZE == 64
		if (rid == R_EB_LODAH) { mpz_t t, o; mpz_inits(t, o, NULL); bn_t bo; bn_new(bo); eb_curve_get_ord(bo); vf_bn_get(o, bo); mpz_add_ui(t, c->v[3], 1); if (!mpz_cmp(t, o)) kf = "L34-lodah-k-equals-order-minus-one"; mpz_clears(t, o, NULL); bn_free(bo); }
#endif
		vf_fail(kf, "%s: basic-block trace depends on the secret: traces of %zu and %zu blocks diverge at block %zu (pc offsets %lx vs %lx)", RN_[rid], tn[0], tn[1], w, (unsigned long)(w < tn[0] ? TR[0][w] - (uintptr_t)&harness_setup : 0), (unsigned long)(w < tn[1] ? TR[1][w] - (uintptr_t)&harness_setup : 0)); }
}
static int __attribute__((noinline)) prim_call(int rid, int slot, dig_t *a, dig_t *b, size_t n, dig_t bit) {
	int r = 0; tn[slot] = 0; rec_on = slot;
	switch (rid) {
		case R_DV_COPY: dv_copy_sec(a, b, n, bit); break;
		case R_DV_SWAP: dv_swap_sec(a, b, n, bit); break;
		case R_DV_CMP: r = dv_cmp_sec(a, b, n); break;
		case R_UTIL_CMP: r = util_cmp_sec(a, b, n * sizeof(dig_t)); break;
		case R_FP_COPY: fp_copy_sec(a, b, bit); break;
		case R_DV_CMP_NONCT: r = dv_cmp(a, b, n); break;
	}
	rec_on = -1; return r;
}
/* primitives: args rid, size, a, b, bit */
static void do_prim(vf_case *c) {
	int rid = (int)mpz_get_si(c->v[0]); size_t n = mpz_get_ui(c->v[1]); dig_t bit = (dig_t)mpz_get_ui(c->v[4]); size_t w;
	dig_t a[RLC_FP_DIGS + 8], b[RLC_FP_DIGS + 8], a0[RLC_FP_DIGS + 8], b0[RLC_FP_DIGS + 8], ra[RLC_FP_DIGS + 8], rb[RLC_FP_DIGS + 8]; memset(a, 0, sizeof a); memset(b, 0, sizeof b);
	mpz_export(a, NULL, -1, sizeof(dig_t), 0, 0, c->v[2]); mpz_export(b, NULL, -1, sizeof(dig_t), 0, 0, c->v[3]);
	memcpy(a0, a, sizeof a); memcpy(b0, b, sizeof b);
	/* reference run: all-zero data, bit 0 */
	memset(ra, 0, sizeof ra); memset(rb, 0, sizeof rb); int r0 = 0, r1 = 0;
	/* both runs go through ONE call site (prim_call): an instrumented callee may reach the hook by a tail call, whose return address is the caller's */
	if (rid == R_FP_COPY) { memset(ra, 0, sizeof ra); memset(rb, 0, sizeof rb); }
	r0 = prim_call(rid, 0, ra, rb, n, 0);
	r1 = prim_call(rid, 1, a, b, n, bit);
	size_t nb = (rid == R_FP_COPY ? sizeof(fp_st) : n * sizeof(dig_t));
	switch (rid) {
		case R_DV_COPY: case R_FP_COPY: if (memcmp(a, bit ? b0 : a0, nb)) vf_fail(NULL, "%s: wrong selection", RN_[rid]); break;
		case R_DV_SWAP: if (memcmp(a, bit ? b0 : a0, nb) || memcmp(b, bit ? a0 : b0, nb)) vf_fail(NULL, "dv_swap_sec: wrong swap"); break;
		case R_DV_CMP: case R_UTIL_CMP: if ((r1 == RLC_EQ) != (memcmp(a0, b0, nb) == 0)) vf_fail(NULL, "%s: wrong verdict", RN_[rid]); break;
		default: break;
	}
	(void)r0; trace_events += tn[1]; note_trace(rid, 0); note_trace(rid, 1);
	if (!is_control(rid) && !same_trace(&w)) { if (vf_replaying) { for (int sl = 0; sl < 2; sl++) { fprintf(stderr, "trace %d (%zu):", sl, tn[sl]); for (size_t i = 0; i < tn[sl] && i < 12; i++) fprintf(stderr, " %lx", (unsigned long)(TR[sl][i] - (uintptr_t)&harness_setup)); fprintf(stderr, "\n"); } }
		vf_fail(NULL, "%s: trace depends on the data or the condition bit (size %zu): diverges at block %zu", RN_[rid], n, w); }
}

static void run_case(vf_case *c) { vf_nontrivial(); if (!strcmp(c->op, "reg")) do_reg(c); else if (!strcmp(c->op, "prim")) do_prim(c); else vf_fail(NULL, "unknown op"); }

static vf_case K;
static void reg(int rid, long cid, const mpz_t kref, const mpz_t k) { K.op = "reg"; K.n = 4; mpz_set_si(K.v[0], rid); mpz_set_si(K.v[1], cid); mpz_set(K.v[2], kref); mpz_set(K.v[3], k); vf_run(&K); }

static void enumerate(void) {
	vf_case_init(&K);
	mpz_t k, kref, t; mpz_inits(k, kref, t, NULL);
#ifdef CT_PRIM
	if (vf_bound_on("primitives")) {
		/* every pair of 1-digit vectors over a digit alphabet, every pair of 2-digit vectors over a smaller one, every condition bit, sizes 0..4 */
#if WSIZE == 8
		static const unsigned long long D1[] = {0, 1, 2, 4, 8, 16, 32, 64, 127, 128, 129, 254, 255};
#else
		static const unsigned long long D1[] = {0, 1, 2, 0xFFFFFFFFULL, 0x100000000ULL, 0x7FFFFFFFFFFFFFFFULL, 0x8000000000000000ULL, 0xFFFFFFFFFFFFFFFEULL, 0xFFFFFFFFFFFFFFFFULL, 0x5555555555555555ULL, 0xAAAAAAAAAAAAAAAAULL};
#endif
		int nd = (int)(sizeof D1 / sizeof *D1); int prims[] = {R_DV_COPY, R_DV_SWAP, R_DV_CMP, R_UTIL_CMP, R_FP_COPY, R_DV_CMP_NONCT};
		for (unsigned pi = 0; pi < 6; pi++) for (int size = 0; size <= 4; size++) for (int i = 0; i < nd; i++) for (int j = 0; j < nd; j++) for (int pos = 0; pos < (size > 1 ? size : 1); pos++) for (int bit = 0; bit < 2; bit++) if (vf_mine()) {
			if (prims[pi] == R_FP_COPY && size != (int)RLC_FP_DIGS && size != 0) continue;
			K.op = "prim"; K.n = 5; mpz_set_si(K.v[0], prims[pi]); mpz_set_si(K.v[1], prims[pi] == R_FP_COPY ? (long)RLC_FP_DIGS : size);
			mpz_set_ui(K.v[2], (unsigned long)(D1[i] >> 32)); mpz_mul_2exp(K.v[2], K.v[2], 32); mpz_add_ui(K.v[2], K.v[2], (unsigned long)(D1[i] & 0xffffffffULL)); mpz_mul_2exp(K.v[2], K.v[2], (unsigned long)(pos * VF_DIGB));
			mpz_set_ui(K.v[3], (unsigned long)(D1[j] >> 32)); mpz_mul_2exp(K.v[3], K.v[3], 32); mpz_add_ui(K.v[3], K.v[3], (unsigned long)(D1[j] & 0xffffffffULL)); mpz_mul_2exp(K.v[3], K.v[3], (unsigned long)(((pos + 1) % (size > 1 ? size : 1)) * VF_DIGB));
			mpz_set_si(K.v[4], bit); vf_run(&K); }
		vf_bound_done("primitives");
	}
#endif
#ifdef CT_REG
#if WSIZE != 64
	/* complete secret spaces on the tiny 16-bit curves: every k in [1, n-1] */
	int cids[] = {1, 2, 3}; int rids[] = {R_EP_MONTY, R_EP_LWREG, R_EP_LWNAF, R_BN_REC_REG};
	for (unsigned ci = 0; ci < 3; ci++) { char bn[48]; snprintf(bn, sizeof bn, "tiny-all-secrets-curve-%d", cids[ci]);
		if (!vf_bound_on(bn)) continue; if (!select_curve(cids[ci])) continue; long n = TC[cids[ci]].r; mpz_set_si(kref, 12345);
		for (unsigned ri = 0; ri < 4; ri++) for (long x = 1; x < n && !vf_expired(); x++) if (vf_mine()) { vf_stat_add("states", 1); mpz_set_si(k, x); reg(rids[ri], cids[ci], kref, k); }
		vf_bound_done(bn); }
	if (vf_bound_on("tiny-exponents-of-fixed-length")) {
		/* bn_mxp_monty / fp_exp_monty: the exponent's bit length is public: every exponent with exactly 12 bits, and every one with exactly 16 */
		if (select_curve(1)) for (int bits = 12; bits <= 16; bits += 4) { mpz_set_ui(kref, 1); mpz_mul_2exp(kref, kref, (unsigned long)bits - 1); mpz_add_ui(kref, kref, 5);
			int rr[] = {R_BN_MXP_MONTY, R_FP_EXP_MONTY, R_BN_MXP_SLIDE};
			for (unsigned ri = 0; ri < 3; ri++) for (long x = 1L << (bits - 1); x < (1L << bits) && !vf_expired(); x++) if (vf_mine()) { mpz_set_si(k, x); reg(rr[ri], 1, kref, k); } }
		vf_bound_done("tiny-exponents-of-fixed-length");
	}
#else
	/* shipped sizes: secrets of the order's length from a structured alphabet */
#if FP_PRIME == 255 && defined(WITH_ED)
	if (vf_bound_on("w64-ed25519-secrets")) { /* secrets of ONE bit length (252: bit 251 set), all below the order 2^252 + c */
		int th; VF_TRY(th, ed_param_set(CURVE_ED25519)); const unsigned long TB = 251;
#define FIXLEN(T) do { mpz_fdiv_r_2exp(T, T, TB); mpz_setbit(T, TB); } while (0)
		vf_dom S; vf_dom_init(&S);
		mpz_set_ui(t, 0); FIXLEN(t); vf_dom_add(&S, t); /* 2^251: lowest weight */ mpz_set_ui(t, 1); mpz_mul_2exp(t, t, TB + 1); mpz_sub_ui(t, t, 1); vf_dom_add(&S, t); /* all ones */
		for (long x = 1; x <= 40; x++) { mpz_set_si(t, x); FIXLEN(t); vf_dom_add(&S, t); mpz_set_ui(t, 1); mpz_mul_2exp(t, t, TB + 1); mpz_sub_ui(t, t, (unsigned long)x); vf_dom_add(&S, t); }
		for (int run = 1; run <= 200; run += (run < 8 ? 1 : 9)) for (int off = 0; off < 4; off++) { int offs[] = {0, 1, 64, 130}; if (run + offs[off] >= (int)TB) continue; mpz_set_ui(t, 1); mpz_mul_2exp(t, t, (unsigned long)run); mpz_sub_ui(t, t, 1); mpz_mul_2exp(t, t, (unsigned long)offs[off]); FIXLEN(t); vf_dom_add(&S, t); /* a run of ones in zeros */ mpz_com(t, t); FIXLEN(t); vf_dom_add(&S, t); /* a run of zeros in ones */ }
		for (unsigned long b = 0; b < TB; b += 5) { mpz_set_ui(t, 0); mpz_setbit(t, b); FIXLEN(t); vf_dom_add(&S, t); }
		mpz_set_str(t, "7d3b1a40c29f1e8f7a5b6c3d2e1f0a9b8c7d6e5f4a3b2c1d0e9f8a7b6c5d4e3f", 16); for (int i = 0; i < (vf_tier ? 400 : 80); i++) { mpz_mul_ui(t, t, 0x9E3779B1UL); mpz_add_ui(t, t, 12345); FIXLEN(t); vf_dom_add(&S, t); }
		vf_dom_uniq(&S); mpz_set_str(kref, "0c9a1b2d4e5f60718293a4b5c6d7e8f90a1b2c3d4e5f60718293a4b5c6d7e8f9", 16); FIXLEN(kref);
		int rr[] = {R_ED_MONTY, R_ED_LWREG, R_ED_LWNAF}; for (unsigned ri = 0; ri < 3; ri++) for (int j = 0; j < S.n && !vf_expired(); j++) if (vf_mine()) reg(rr[ri], CURVE_ED25519, kref, S.v[j]);
		vf_dom_clear(&S); vf_bound_done("w64-ed25519-secrets"); (void)th; }
#endif
#if FP_PRIME == 256
	static const int CIDS[] = {NIST_P256, BSI_P256, SECG_K256, SM2_P256, BN_P256, SM9_P256};
	for (unsigned ci = 0; ci < 6; ci++) { char bn[48]; snprintf(bn, sizeof bn, "w64-secrets-curve-%d", CIDS[ci]);
		if (!vf_bound_on(bn)) continue; if (!select_curve(CIDS[ci])) { vf_fail(NULL, "curve refused"); continue; }
		vf_dom S; vf_dom_init(&S); size_t nb = mpz_sizeinbase(RN, 2);
		mpz_sub_ui(t, RN, 1); vf_dom_add(&S, t); mpz_fdiv_q_2exp(t, RN, 1); vf_dom_add(&S, t); mpz_add_ui(t, t, 1); vf_dom_add(&S, t);
		mpz_set_ui(t, 1); mpz_mul_2exp(t, t, nb - 1); vf_dom_add(&S, t); mpz_add_ui(t, t, 1); vf_dom_add(&S, t); /* Hamming weight 1, 2 */
		mpz_set_ui(t, 1); mpz_mul_2exp(t, t, nb - 1); mpz_sub_ui(t, t, 1); vf_dom_add(&S, t); /* all ones below the top: short by one bit */
		for (int run = 1; run <= 70; run += (run < 8 ? 1 : 9)) for (int off = 0; off < 3; off++) { int offs[] = {1, 64, 130}; mpz_set_ui(t, 1); mpz_mul_2exp(t, t, (unsigned long)run); mpz_sub_ui(t, t, 1); mpz_mul_2exp(t, t, (unsigned long)offs[off]); mpz_setbit(t, nb - 2); mpz_setbit(t, 0); if (mpz_cmp(t, RN) < 0) vf_dom_add(&S, t); mpz_com(t, t); mpz_fdiv_r_2exp(t, t, nb - 1); mpz_setbit(t, nb - 2); if (mpz_cmp(t, RN) < 0) vf_dom_add(&S, t); }
		mpz_set_str(t, "5555555555555555555555555555555555555555555555555555555555555555", 16); vf_dom_add(&S, t); mpz_set_str(t, "2aaaaaaaaaaaaaaaaaaaaaaaaaaaaaaaaaaaaaaaaaaaaaaaaaaaaaaaaaaaaaaa", 16); vf_dom_add(&S, t);
		for (long x = 1; x <= 40; x++) { mpz_set_si(t, x); vf_dom_add(&S, t); mpz_sub(t, RN, t); vf_dom_add(&S, t); }
		mpz_set_str(t, "7d3b1a40c29f1e8f7a5b6c3d2e1f0a9b8c7d6e5f4a3b2c1d0e9f8a7b6c5d4e3f", 16); mpz_mod(t, t, RN); for (int i = 0; i < 40; i++) { mpz_mul_ui(t, t, 0x9E3779B1UL); mpz_add_ui(t, t, 12345); mpz_mod(t, t, RN); if (mpz_sgn(t)) vf_dom_add(&S, t); }
		vf_dom_uniq(&S); mpz_set_str(kref, "3c9a1b2d4e5f60718293a4b5c6d7e8f90a1b2c3d4e5f60718293a4b5c6d7e8f9", 16); mpz_mod(kref, kref, RN);
		int rids[] = {R_EP_MONTY, R_EP_LWREG, R_EP_LWNAF, R_BN_REC_REG, R_BN_MXP_MONTY, R_FP_EXP_MONTY, R_BN_MXP_SLIDE};
		for (unsigned ri = 0; ri < 7; ri++) { if (ri >= 4 && ci) continue; for (int j = 0; j < S.n && !vf_expired(); j++) if (vf_mine()) { if (ri >= 4 && mpz_sizeinbase(S.v[j], 2) != mpz_sizeinbase(kref, 2)) continue; reg(rids[ri], CIDS[ci], kref, S.v[j]); } }
		/* the sign of the scalar is part of its value: the two regular multiplications on negated secrets */
		for (unsigned ri = 0; ri < 2; ri++) for (int j = 0; j < S.n && !vf_expired(); j += 3) if (vf_mine()) { mpz_neg(t, S.v[j]); reg(rids[ri], CIDS[ci], kref, t); }
		if (CIDS[ci] == BN_P256) { int pr[] = {R_EP2_MONTY, R_EP2_LWREG, R_G1_SEC, R_G2_SEC, R_GT_SEC}; for (unsigned ri = 0; ri < 5; ri++) for (int j = 0; j < S.n && !vf_expired(); j += (vf_tier ? 1 : 2)) if (vf_mine()) { if (pr[ri] == R_GT_SEC && mpz_sizeinbase(S.v[j], 2) != mpz_sizeinbase(kref, 2)) continue; /* an exponent's bit length is public */ reg(pr[ri], BN_P256, kref, S.v[j]); } }
		vf_dom_clear(&S); vf_bound_done(bn); }
	if (vf_bound_on("w64-binary-curves")) {
		int ebc[] = {NIST_B283, NIST_K283}; for (unsigned ci = 0; ci < 2; ci++) { int th; VF_TRY(th, eb_param_set(ebc[ci])); if (th) continue; bn_t n; bn_new(n); eb_curve_get_ord(n); vf_bn_get(RN, n);
			mpz_set_str(kref, "1c9a1b2d4e5f60718293a4b5c6d7e8f90a1b2c3d4e5f60718293a4b5c6d7e8f9aabbccd", 16); mpz_mod(kref, kref, RN);
			int rr[] = {R_EB_LODAH, R_EB_RWNAF}; for (unsigned ri = 0; ri < 2; ri++) for (long x = 1; x <= (vf_tier ? 200 : 60); x++) if (vf_mine()) { mpz_set(t, kref); mpz_mul_ui(t, t, (unsigned long)x * 2654435761UL); mpz_mod(t, t, RN); if (x % 3 == 0) { mpz_set_si(t, x); } if (x % 3 == 1 && x < 30) { mpz_set_si(t, x); mpz_sub(t, RN, t); } if (mpz_sgn(t)) reg(rr[ri], ebc[ci], kref, t); } }
		vf_bound_done("w64-binary-curves");
	}
	if (vf_bound_on("w64-binary-field-exponents")) { /* exponents of one fixed bit length (200): every Hamming-weight / zero-run shape of the alphabet */
		mpz_set_ui(kref, 1); mpz_mul_2exp(kref, kref, 199); mpz_add_ui(kref, kref, 0x12345);
		int rr[] = {R_FB_EXP_MONTY, R_FB_EXP_SLIDE}; for (unsigned ri = 0; ri < 2; ri++) for (long x = 0; x < (vf_tier ? 400 : 120); x++) if (vf_mine()) { mpz_set_ui(t, 1); mpz_mul_2exp(t, t, 199); if (x % 4 == 0) mpz_add_ui(t, t, (unsigned long)x); else if (x % 4 == 1) { mpz_t u; mpz_init_set_ui(u, 1); mpz_mul_2exp(u, u, (unsigned long)(x % 190) + 2); mpz_sub_ui(u, u, 1); mpz_add(t, t, u); mpz_clear(u); } else if (x % 4 == 2) { mpz_mul_2exp(t, t, 1); mpz_sub_ui(t, t, 1); mpz_fdiv_q_2exp(t, t, 1); mpz_clrbit(t, (unsigned long)(x % 198)); mpz_setbit(t, 199); } else { mpz_t u; mpz_init_set_ui(u, (unsigned long)x * 2654435761UL); mpz_pow_ui(u, u, 6); mpz_fdiv_r_2exp(u, u, 199); mpz_add(t, t, u); mpz_clear(u); } reg(rr[ri], 0, kref, t); }
		vf_bound_done("w64-binary-field-exponents"); }
#endif
#endif
#endif /* CT_REG */
	/* verdict on distinct traces per routine: constant-time routines must have exactly one, controls more than one */
	for (int r = 0; r < R_LAST; r++) if (nseen[r]) { printf("@INFO shard %d: %s distinct traces %d\n", vf_shard, RN_[r], nseen[r]); vf_statf_add((unsigned long long)nseen[r], "x.max_distinct_traces.%s", RN_[r]); }
	vf_stat_add("transitions", trace_events);
	mpz_clears(k, kref, t, NULL);
}

VF_MAIN()
