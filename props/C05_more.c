/*
 * C05 (structured schemes, second part) -- extendable threshold ring signatures, multi-key linearly homomorphic signatures,
 * multi-party Pointcheval-Sanders signatures.
 *
 *   etrs: EVERY history "sign, then each further key either extends the ring as a non-signer (cp_etrs_ext) or joins as a signer (cp_etrs_uni)"
 *     up to ring size 4 (8 histories, every prefix judged). The true threshold t is 1 + number of joins. Judged at every prefix: the honest
 *     signature verifies for t; a flipped message bit, every member's c / r / h / y / pk altered, every remaining trapdoor altered, the claim t + 1,
 *     and a ring forged without any secret key (all members simulated through the known discrete logarithm of h) must be rejected.
 *   mklhs: S signers x L labels (all 1 <= S <= 3, 1 <= L <= 4), coefficient alphabets {0, 1, 2, 2^32 - 1, dense}: the evaluated signature verifies
 *     (cp_mklhs_ver and the offline/online pair cp_mklhs_off / cp_mklhs_onv); altered combined message, per-signer messages with the sum kept,
 *     signature, one coefficient, one tag, one identity, the data set name, swapped / foreign public keys must be rejected.
 *   mpss: two-party Pointcheval-Sanders signing and verification (single message and blocks of 1, 2, 5): the jointly produced signature verifies in
 *     MPC (output 1) and under the conventional verifier cp_pss_ver / cp_psb_ver on the recombined values; an altered message share or signature
 *     share makes the MPC verification output differ from 1.
 * Case args: etrs: cid, seed, len, history (bit i: member i + 1 joins as signer);  mklhs: cid, S, L, coefficient pattern, seed;  mpss: cid, block
 * size (0 = simple scheme), seed.
 */
#include "pc_common.h"

static void harness_setup(void) { if (core_init() != RLC_OK) exit(2); vf_reseed(); tiny_curves_setup(); ep2_common_setup(); }
static void seed_drbg(unsigned long s) { uint8_t seed[64]; for (int i = 0; i < 64; i++) seed[i] = (uint8_t)(i * 13 + 5 + s * 37 + (s >> 3) * i); core_get()->seeded = 0; rand_seed(seed, sizeof seed); }
static unsigned long long nmut = 0, nacc = 0, nrej = 0;
#define JUDGEK(kf, who, desc, got, exp) do { transitions++; nmut++; if (exp) nacc++; else nrej++; if ((got != 0) != (exp != 0)) vf_fail(kf, "%s: verifier says %d, the scheme's definition says %d for: %s", who, got != 0, exp != 0, desc); } while (0)
#define ACC(WHO, X, DESC) do { VF_TRY(th, v = (X)); if (th) vf_fail(NULL, "%s raised %d for: %s", WHO, th, DESC); else JUDGEK(NULL, WHO, DESC, v, 1); } while (0)
#define REJK(KF, WHO, X, DESC) do { VF_TRY(th, v = (X)); if (!th) JUDGEK(KF, WHO, DESC, v, 0); else { transitions++; nrej++; } } while (0)
#define REJ(WHO, X, DESC) REJK(NULL, WHO, X, DESC)

/* ---------------------------------------------------------------- extendable threshold ring signatures */
#define RMAX 4
#define L40 "L40-etrs-verifier-does-not-check-the-polynomial"
static void do_etrs(vf_case *c) {
	long cid = mpz_get_si(c->v[0]); unsigned long seed = mpz_get_ui(c->v[1]); size_t len = mpz_get_ui(c->v[2]); unsigned hist = (unsigned)mpz_get_ui(c->v[3]); int th, v;
	if (!select_curve(cid)) { vf_fail(NULL, "curve refused"); return; } seed_drbg(seed);
	uint8_t msg[80], m2[80]; for (size_t i = 0; i < len; i++) msg[i] = (uint8_t)(i * 7 + 3); memcpy(m2, msg, len); if (len) m2[len / 2] ^= 0x10;
	bn_t sk[RMAX], td[RMAX], y[RMAX], keep, n; ec_t pp, pk[RMAX], fpk, hk; etrs_t ring[RMAX]; bn_null(keep); bn_new(keep); bn_null(n); bn_new(n); ec_null(pp); ec_new(pp); ec_null(fpk); ec_new(fpk); ec_null(hk); ec_new(hk);
	for (int i = 0; i < RMAX; i++) { bn_null(sk[i]); bn_new(sk[i]); bn_null(td[i]); bn_new(td[i]); bn_null(y[i]); bn_new(y[i]); ec_null(pk[i]); ec_new(pk[i]); etrs_null(ring[i]); etrs_new(ring[i]); VF_TRY(th, v = cp_ers_gen_key(sk[i], pk[i])); }
	VF_TRY(th, v = cp_ers_gen_key(keep, fpk)); VF_TRY(th, v = cp_ers_gen(pp)); ec_curve_get_ord(n);
	VF_TRY(th, v = cp_etrs_sig(td, y, RMAX, ring[0], msg, len, sk[0], pk[0], pp)); if (th || v != RLC_OK) { vf_fail(NULL, "cp_etrs_sig failed"); goto done; }
	size_t size = 1, used = 0, t = 1;
	for (int step = 0; step < RMAX; step++) {
		if (step) { int join = (hist >> (step - 1)) & 1;
			if (join) { VF_TRY(th, v = cp_etrs_uni((int)t, td + used, y + used, (int)(RMAX - used), ring, &size, msg, len, sk[step], pk[step], pp)); if (th || v != RLC_OK) { vf_fail(NULL, "cp_etrs_uni failed at ring size %zu", size + 1); goto done; } t++; }
			else { VF_TRY(th, v = cp_etrs_ext(td + used, y + used, RMAX - used, ring, &size, msg, len, pk[step], pp)); if (th || v != RLC_OK) { vf_fail(NULL, "cp_etrs_ext failed at ring size %zu", size + 1); goto done; } used++; } }
		const bn_t *TD = (const bn_t *)(td + used), *Y = (const bn_t *)(y + used); size_t mx = RMAX - used; char d2[128];
#define VER(T) cp_etrs_ver(T, TD, Y, mx, (const etrs_t *)ring, size, msg, len, pp)
		snprintf(d2, sizeof d2, "the honest signature: ring of %zu, %zu signers", size, t); ACC("cp_etrs_ver", VER(t), d2);
		if (len) { snprintf(d2, sizeof d2, "ring of %zu, %zu signers: one message bit flipped", size, t); REJ("cp_etrs_ver", cp_etrs_ver(t, TD, Y, mx, (const etrs_t *)ring, size, m2, len, pp), d2); }
		for (size_t mb = 0; mb < size; mb++) { for (int comp = 0; comp < 4; comp++) { bn_st *x = comp < 2 ? ring[mb]->c[comp] : ring[mb]->r[comp - 2]; bn_copy(keep, x); bn_add_dig(x, x, 1); bn_mod(x, x, n); snprintf(d2, sizeof d2, "ring of %zu, %zu signers: member %zu %s[%d] + 1", size, t, mb, comp < 2 ? "c" : "r", comp & 1); REJ("cp_etrs_ver", VER(t), d2); bn_copy(x, keep); }
			{ ec_t g; ec_null(g); ec_new(g); ec_curve_get_gen(g); ec_copy(hk, ring[mb]->h); ec_add(ring[mb]->h, ring[mb]->h, g); ec_norm(ring[mb]->h, ring[mb]->h); ec_free(g); } snprintf(d2, sizeof d2, "ring of %zu, %zu signers: member %zu h + G", size, t, mb); REJ("cp_etrs_ver", VER(t), d2); ec_copy(ring[mb]->h, hk);
			ec_copy(hk, ring[mb]->pk); ec_copy(ring[mb]->pk, fpk); snprintf(d2, sizeof d2, "ring of %zu, %zu signers: member %zu public key replaced by a foreign key", size, t, mb); REJ("cp_etrs_ver", VER(t), d2); ec_copy(ring[mb]->pk, hk);
			/* the evaluation point of a member: the points no longer lie on the polynomial through (0, pp) */
			bn_copy(keep, ring[mb]->y); bn_add_dig(ring[mb]->y, ring[mb]->y, 1); snprintf(d2, sizeof d2, "ring of %zu, %zu signers: member %zu evaluation point y + 1", size, t, mb); REJK(L40, "cp_etrs_ver", VER(t), d2); bn_copy(ring[mb]->y, keep); }
		for (size_t k = 0; k < mx; k++) { bn_copy(keep, td[used + k]); bn_add_dig(td[used + k], td[used + k], 1); snprintf(d2, sizeof d2, "ring of %zu, %zu signers: remaining trapdoor %zu + 1", size, t, k); REJK(L40, "cp_etrs_ver", VER(t), d2); bn_copy(td[used + k], keep); }
		if (t + 1 <= size + mx) { snprintf(d2, sizeof d2, "ring of %zu with %zu signers presented as a signature of %zu signers", size, t, t + 1); REJK(L40, "cp_etrs_ver", VER(t + 1), d2); }
		if (size > 1) { snprintf(d2, sizeof d2, "ring of %zu, %zu signers: the ring truncated by its last member", size, t); VF_TRY(th, v = cp_etrs_ver(t, TD, Y, mx, (const etrs_t *)ring, size - 1, msg, len, pp)); if (!th) { if ((hist >> (step - 1)) & 1) JUDGEK(L40, "cp_etrs_ver", d2, v, 0); else vf_stat_add("x.etrs_truncated_non_signer", 1); } }
	}
	/* a ring forged without any secret key: every member simulated through the known discrete logarithm of its h, fresh random trapdoors */
	{ etrs_t fr[2]; bn_t ftd[RMAX], fy[RMAX], r; ec_t w[2]; bn_null(r); bn_new(r); ec_null(w[0]); ec_new(w[0]); ec_null(w[1]); ec_new(w[1]); for (int i = 0; i < RMAX; i++) { bn_null(ftd[i]); bn_new(ftd[i]); bn_null(fy[i]); bn_new(fy[i]); bn_rand_mod(ftd[i], n); bn_rand_mod(fy[i], n); }
		for (int i = 0; i < 2; i++) { etrs_null(fr[i]); etrs_new(fr[i]); bn_rand_mod(r, n); bn_rand_mod(fr[i]->y, n); ec_mul_gen(fr[i]->h, r); ec_copy(fr[i]->pk, pk[i]); ec_copy(w[0], fr[i]->h); ec_copy(w[1], fr[i]->pk); VF_TRY(th, v = cp_sokor_sig(fr[i]->c, fr[i]->r, msg, len, (const ec_t *)w, NULL, r, 1)); if (th || v != RLC_OK) { vf_fail(NULL, "cp_sokor_sig (simulated branch) failed"); goto done; } }
		for (size_t fs = 1; fs <= 2; fs++) for (size_t ft = 1; ft <= fs; ft++) { char d2[128]; snprintf(d2, sizeof d2, "a ring of %zu victims' keys FORGED WITHOUT ANY SECRET KEY (h = [r]G, branch of h simulated), presented with threshold %zu", fs, ft); REJK(L40, "cp_etrs_ver", cp_etrs_ver(ft, (const bn_t *)ftd, (const bn_t *)fy, RMAX, (const etrs_t *)fr, fs, msg, len, pp), d2); }
		for (int i = 0; i < 2; i++) etrs_free(fr[i]); for (int i = 0; i < RMAX; i++) { bn_free(ftd[i]); bn_free(fy[i]); } bn_free(r); ec_free(w[0]); ec_free(w[1]); }
done:
	for (int i = 0; i < RMAX; i++) { bn_free(sk[i]); bn_free(td[i]); bn_free(y[i]); ec_free(pk[i]); etrs_free(ring[i]); } bn_free(keep); bn_free(n); ec_free(pp); ec_free(fpk); ec_free(hk);
}

/* ---------------------------------------------------------------- multi-key linearly homomorphic signatures */
#define MS 3
#define ML 4
static dig_t coef(int pat, int i, int j) { switch (pat) { case 0: return 1; case 1: return (dig_t)(i + 2 * j + 1); case 2: return (i + j) % 2 ? 0 : 2; case 3: return (dig_t)0xFFFFFFFFu - (dig_t)(i * 5 + j); default: return (dig_t)((0x9E3779B97F4A7C15ULL * (unsigned long long)(i * 7 + j * 3 + pat)) >> 33); } }
static void do_mklhs(vf_case *c) {
	long cid = mpz_get_si(c->v[0]); size_t S = mpz_get_ui(c->v[1]), L = mpz_get_ui(c->v[2]); int pat = (int)mpz_get_si(c->v[3]); unsigned long seed = mpz_get_ui(c->v[4]); int th, v;
	if (!select_pc(cid)) { vf_fail(NULL, "parameter set refused"); return; } seed_drbg(seed);
	static const char *IDS[MS] = {"Alice", "Bob", "Carol-with-a-longer-identity"}, *IDS2[MS] = {"Alicf", "Bob", "Carol-with-a-longer-identity"}; static const char *TAGS[ML] = {"t0", "tag-1", "l", "a-much-longer-tag-name"}, *TAGS2[ML] = {"t1", "tag-1", "l", "a-much-longer-tag-name"};
	const char *data = "database-identifier", *data2 = "database-identifies";
	bn_t n, m, m2, sk[MS], mu[MS], mu2[MS], msg[MS][ML], fsk; g1_t sig, sig2, a[MS][ML], part, hs[MS]; g2_t pk[MS], pk2[MS], fpk; dig_t f[MS][ML], f2[MS][ML], ft[MS]; const dig_t *fp[MS], *fp2[MS]; size_t flen[MS];
	bn_null(n); bn_new(n); bn_null(m); bn_new(m); bn_null(m2); bn_new(m2); bn_null(fsk); bn_new(fsk); g1_null(sig); g1_new(sig); g1_null(sig2); g1_new(sig2); g1_null(part); g1_new(part); g2_null(fpk); g2_new(fpk);
	for (size_t i = 0; i < MS; i++) { bn_null(sk[i]); bn_new(sk[i]); bn_null(mu[i]); bn_new(mu[i]); bn_null(mu2[i]); bn_new(mu2[i]); g2_null(pk[i]); g2_new(pk[i]); g2_null(pk2[i]); g2_new(pk2[i]); g1_null(hs[i]); g1_new(hs[i]); fp[i] = f[i]; fp2[i] = f2[i]; flen[i] = L; for (size_t j = 0; j < ML; j++) { bn_null(msg[i][j]); bn_new(msg[i][j]); g1_null(a[i][j]); g1_new(a[i][j]); f[i][j] = f2[i][j] = coef(pat, (int)i, (int)j); } }
	pc_get_ord(n); VF_TRY(th, v = cp_mklhs_gen(fsk, fpk));
	for (size_t i = 0; i < S; i++) { VF_TRY(th, v = cp_mklhs_gen(sk[i], pk[i])); if (th || v != RLC_OK) { vf_fail(NULL, "cp_mklhs_gen failed"); goto done; } g2_copy(pk2[i], pk[i]);
		for (size_t j = 0; j < L; j++) { if ((i + j + (size_t)pat) % 5 == 0) bn_zero(msg[i][j]); else if ((i + j + (size_t)pat) % 5 == 1) bn_sub_dig(msg[i][j], n, 1); else bn_rand_mod(msg[i][j], n); VF_TRY(th, v = cp_mklhs_sig(a[i][j], msg[i][j], data, IDS[i], TAGS[j], sk[i])); if (th || v != RLC_OK) { vf_fail(NULL, "cp_mklhs_sig failed"); goto done; } } }
	g1_set_infty(sig); bn_zero(m);
	for (size_t i = 0; i < S; i++) { VF_TRY(th, v = cp_mklhs_fun(mu[i], (const bn_t *)msg[i], f[i], L)); if (th || v != RLC_OK) { vf_fail(NULL, "cp_mklhs_fun failed"); goto done; } VF_TRY(th, v = cp_mklhs_evl(part, (const g1_t *)a[i], f[i], L)); if (th || v != RLC_OK) { vf_fail(NULL, "cp_mklhs_evl failed"); goto done; } g1_add(sig, sig, part); bn_add(m, m, mu[i]); bn_mod(m, m, n); bn_copy(mu2[i], mu[i]); }
	g1_norm(sig, sig);
	/* mu against GMP */ { mpz_t q, acc, t, u; mpz_inits(q, acc, t, u, NULL); vf_bn_get(q, n); for (size_t i = 0; i < S; i++) { mpz_set_ui(acc, 0); for (size_t j = 0; j < L; j++) { vf_bn_get(t, msg[i][j]); mpz_mul_ui(t, t, (unsigned long)f[i][j]); mpz_add(acc, acc, t); } mpz_mod(acc, acc, q); vf_bn_get(u, mu[i]); transitions++; if (mpz_cmp(acc, u)) vf_fail(NULL, "cp_mklhs_fun: mu[%zu] != sum f_j m_j mod n", i); } mpz_clears(q, acc, t, u, NULL); }
	char d2[160];
#define VERX(SIG, M, MU, DATA, ID, TAG, F, PK) cp_mklhs_ver(SIG, M, (const bn_t *)MU, DATA, ID, TAG, F, flen, (const g2_t *)PK, S)
	snprintf(d2, sizeof d2, "the honestly evaluated signature (%zu signers, %zu labels, coefficient pattern %d)", S, L, pat); ACC("cp_mklhs_ver", VERX(sig, m, mu, data, IDS, TAGS, fp, pk), d2);
	VF_TRY(th, v = cp_mklhs_off(hs, ft, IDS, TAGS, fp, flen, S)); if (th || v != RLC_OK) vf_fail(NULL, "cp_mklhs_off failed"); else { ACC("cp_mklhs_onv", cp_mklhs_onv(sig, m, (const bn_t *)mu, data, IDS, (const g1_t *)hs, ft, (const g2_t *)pk, S), d2);
		bn_add_dig(m2, m, 1); bn_mod(m2, m2, n); REJ("cp_mklhs_onv", cp_mklhs_onv(sig, m2, (const bn_t *)mu, data, IDS, (const g1_t *)hs, ft, (const g2_t *)pk, S), "combined message + 1");
		bn_add_dig(mu2[0], mu[0], 1); bn_mod(mu2[0], mu2[0], n); bn_add_dig(m2, m, 1); bn_mod(m2, m2, n); REJ("cp_mklhs_onv", cp_mklhs_onv(sig, m2, (const bn_t *)mu2, data, IDS, (const g1_t *)hs, ft, (const g2_t *)pk, S), "first signer's message + 1 and combined message + 1 (sum consistent)"); bn_copy(mu2[0], mu[0]);
		g1_get_gen(part); g1_add(sig2, sig, part); g1_norm(sig2, sig2); REJ("cp_mklhs_onv", cp_mklhs_onv(sig2, m, (const bn_t *)mu, data, IDS, (const g1_t *)hs, ft, (const g2_t *)pk, S), "signature + G");
		REJ("cp_mklhs_onv", cp_mklhs_onv(sig, m, (const bn_t *)mu, data2, IDS, (const g1_t *)hs, ft, (const g2_t *)pk, S), "another data set name"); }
	bn_add_dig(m2, m, 1); bn_mod(m2, m2, n); REJ("cp_mklhs_ver", VERX(sig, m2, mu, data, IDS, TAGS, fp, pk), "combined message + 1");
	bn_add_dig(mu2[0], mu[0], 1); bn_mod(mu2[0], mu2[0], n); REJ("cp_mklhs_ver", VERX(sig, m2, mu2, data, IDS, TAGS, fp, pk), "first signer's message + 1 and combined message + 1 (sum consistent)");
	if (S >= 2) { bn_sub_dig(mu2[1], mu[1], 1); if (bn_sign(mu2[1]) == RLC_NEG) bn_add(mu2[1], mu2[1], n); REJ("cp_mklhs_ver", VERX(sig, m, mu2, data, IDS, TAGS, fp, pk), "first signer's message + 1, second signer's - 1 (combined message unchanged)"); bn_copy(mu2[1], mu[1]); } bn_copy(mu2[0], mu[0]);
	g1_get_gen(part); g1_add(sig2, sig, part); g1_norm(sig2, sig2); REJ("cp_mklhs_ver", VERX(sig2, m, mu, data, IDS, TAGS, fp, pk), "signature + G"); g1_neg(sig2, sig); REJ("cp_mklhs_ver", VERX(sig2, m, mu, data, IDS, TAGS, fp, pk), "signature negated"); g1_set_infty(sig2); REJ("cp_mklhs_ver", VERX(sig2, m, mu, data, IDS, TAGS, fp, pk), "signature replaced by the identity");
	for (size_t i = 0; i < S; i++) for (size_t j = 0; j < L; j++) { f2[i][j] = f[i][j] + 1; snprintf(d2, sizeof d2, "coefficient f[%zu][%zu] + 1 at verification", i, j); REJ("cp_mklhs_ver", VERX(sig, m, mu, data, IDS, TAGS, fp2, pk), d2); f2[i][j] = f[i][j]; }
	REJ("cp_mklhs_ver", VERX(sig, m, mu, data, IDS, TAGS2, fp, pk), "first tag altered"); REJ("cp_mklhs_ver", VERX(sig, m, mu, data, IDS2, TAGS, fp, pk), "first identity altered"); REJ("cp_mklhs_ver", VERX(sig, m, mu, data2, IDS, TAGS, fp, pk), "another data set name");
	g2_copy(pk2[0], fpk); REJ("cp_mklhs_ver", VERX(sig, m, mu, data, IDS, TAGS, fp, pk2), "first public key replaced by a foreign key"); g2_copy(pk2[0], pk[0]);
	if (S >= 2) { g2_copy(pk2[0], pk[1]); g2_copy(pk2[1], pk[0]); REJ("cp_mklhs_ver", VERX(sig, m, mu, data, IDS, TAGS, fp, pk2), "first two public keys swapped"); g2_copy(pk2[0], pk[0]); g2_copy(pk2[1], pk[1]); }
done:
	bn_free(n); bn_free(m); bn_free(m2); bn_free(fsk); g1_free(sig); g1_free(sig2); g1_free(part); g2_free(fpk);
	for (size_t i = 0; i < MS; i++) { bn_free(sk[i]); bn_free(mu[i]); bn_free(mu2[i]); g2_free(pk[i]); g2_free(pk2[i]); g1_free(hs[i]); for (size_t j = 0; j < ML; j++) { bn_free(msg[i][j]); g1_free(a[i][j]); } }
}

/* ---------------------------------------------------------------- multi-party Pointcheval-Sanders */
#define MB 5
static void do_mpss(vf_case *c) {
	long cid = mpz_get_si(c->v[0]); size_t l = mpz_get_ui(c->v[1]); unsigned long seed = mpz_get_ui(c->v[2]); int th, v;
	if (!select_pc(cid)) { vf_fail(NULL, "parameter set refused"); return; } seed_drbg(seed);
	bn_t n, m[2], u[2], vv[2], ms[MB][2], _v[MB][2], M, Ms[MB]; g1_t g, s[2], S2; g2_t h, x[2], y[2], _y[MB][2], Y[MB]; gt_t e[2], f[2], E; mt_t tri[3][2]; pt_t t[2];
	bn_null(n); bn_new(n); bn_null(M); bn_new(M); g1_null(g); g1_new(g); g1_null(S2); g1_new(S2); g2_null(h); g2_new(h); gt_null(E); gt_new(E);
	for (int i = 0; i < 2; i++) { bn_null(m[i]); bn_new(m[i]); bn_null(u[i]); bn_new(u[i]); bn_null(vv[i]); bn_new(vv[i]); g1_null(s[i]); g1_new(s[i]); g2_null(x[i]); g2_new(x[i]); g2_null(y[i]); g2_new(y[i]); gt_null(e[i]); gt_new(e[i]); gt_null(f[i]); gt_new(f[i]); pt_null(t[i]); pt_new(t[i]); for (int k = 0; k < 3; k++) { mt_null(tri[k][i]); mt_new(tri[k][i]); } for (int j = 0; j < MB; j++) { bn_null(ms[j][i]); bn_new(ms[j][i]); bn_null(_v[j][i]); bn_new(_v[j][i]); g2_null(_y[j][i]); g2_new(_y[j][i]); } }
	for (int j = 0; j < MB; j++) { bn_null(Ms[j]); bn_new(Ms[j]); g2_null(Y[j]); g2_new(Y[j]); }
	g1_get_ord(n); for (int i = 0; i < 2; i++) { if (seed % 3 == 1 && i == 0) bn_zero(m[i]); else bn_rand_mod(m[i], n); for (int j = 0; j < MB; j++) { if ((seed + (unsigned long)j) % 4 == 1 && i == 1) bn_sub_dig(ms[j][i], n, 1); else bn_rand_mod(ms[j][i], n); } }
#define FRESH_TRIPLES() do { VF_TRY(th, pc_map_tri(t)); for (int k = 0; k < 3; k++) VF_TRY(th, mpc_mt_gen(tri[k], n)); for (int i = 0; i < 2; i++) { gt_exp_gen(e[i], tri[2][i]->b); gt_exp_gen(f[i], tri[2][i]->c); tri[2][i]->bt = &e[i]; tri[2][i]->ct = &f[i]; } } while (0)
	FRESH_TRIPLES();
	if (l == 0) { VF_TRY(th, v = cp_mpss_gen(u, vv, h, x, y)); if (th || v != RLC_OK) { vf_fail(NULL, "cp_mpss_gen failed"); goto done; } VF_TRY(th, v = cp_mpss_bct(x, y)); VF_TRY(th, v = cp_mpss_sig(g, s, (const bn_t *)m, (const bn_t *)u, (const bn_t *)vv, (const mt_t *)tri[0], (const mt_t *)tri[1])); if (th || v != RLC_OK) { vf_fail(NULL, "cp_mpss_sig failed"); goto done; }
#define MVER(G, SS, MM) do { FRESH_TRIPLES(); gt_zero(E); VF_TRY(th, v = cp_mpss_ver(E, G, (const g1_t *)SS, (const bn_t *)MM, h, x[0], y[0], (const mt_t *)tri[2], (const pt_t *)t)); } while (0)
		MVER(g, s, m); if (th) vf_fail(NULL, "cp_mpss_ver raised"); else JUDGEK(NULL, "cp_mpss_ver", "the jointly produced signature (output must be 1)", gt_is_unity(E), 1);
		bn_add(M, m[0], m[1]); bn_mod(M, M, n); g1_add(S2, s[0], s[1]); g1_norm(S2, S2); ACC("cp_pss_ver", cp_pss_ver(g, S2, M, h, x[0], y[0]), "the recombined jointly produced signature under the conventional verifier");
		bn_add_dig(m[0], m[0], 1); bn_mod(m[0], m[0], n); MVER(g, s, m); if (!th) JUDGEK(NULL, "cp_mpss_ver", "first message share + 1 (output must differ from 1)", gt_is_unity(E), 0); bn_sub_dig(m[0], m[0], 1); if (bn_sign(m[0]) == RLC_NEG) bn_add(m[0], m[0], n);
		g1_copy(S2, s[1]); g1_add(s[1], s[1], g); g1_norm(s[1], s[1]); MVER(g, s, m); if (!th) JUDGEK(NULL, "cp_mpss_ver", "second signature share + sigma_1 (output must differ from 1)", gt_is_unity(E), 0); g1_copy(s[1], S2);
		g1_set_infty(S2); { g1_t z[2]; g1_null(z[0]); g1_new(z[0]); g1_null(z[1]); g1_new(z[1]); g1_set_infty(z[0]); g1_set_infty(z[1]); MVER(S2, z, m); if (!th) JUDGEK(NULL, "cp_mpss_ver", "the all-identity signature (output must differ from 1)", gt_is_unity(E), 0); g1_free(z[0]); g1_free(z[1]); } }
	else { VF_TRY(th, v = cp_mpsb_gen(u, _v, h, x, _y, l)); if (th || v != RLC_OK) { vf_fail(NULL, "cp_mpsb_gen failed"); goto done; } VF_TRY(th, v = cp_mpsb_bct(x, _y, l)); VF_TRY(th, v = cp_mpsb_sig(g, s, (const bn_t (*)[2])ms, (const bn_t *)u, (const bn_t (*)[2])_v, (const mt_t *)tri[0], (const mt_t *)tri[1], l)); if (th || v != RLC_OK) { vf_fail(NULL, "cp_mpsb_sig failed"); goto done; }
#define BVER(G, SS, MM, VV) do { FRESH_TRIPLES(); gt_zero(E); VF_TRY(th, v = cp_mpsb_ver(E, G, (const g1_t *)SS, (const bn_t (*)[2])MM, h, x[0], (const g2_t (*)[2])_y, (const bn_t (*)[2])VV, (const mt_t *)tri[2], (const pt_t *)t, l)); } while (0)
		char d2[128]; for (int withv = 0; withv < 2; withv++) { snprintf(d2, sizeof d2, "the jointly produced block signature, %zu messages, verification %s the key shares (output must be 1)", l, withv ? "with" : "without"); if (withv) BVER(g, s, ms, _v); else BVER(g, s, ms, NULL); if (th) vf_fail(NULL, "cp_mpsb_ver raised"); else JUDGEK(NULL, "cp_mpsb_ver", d2, gt_is_unity(E), 1);
			for (size_t j = 0; j < l; j++) { bn_add_dig(ms[j][0], ms[j][0], 1); bn_mod(ms[j][0], ms[j][0], n); snprintf(d2, sizeof d2, "message %zu first share + 1, verification %s the key shares (output must differ from 1)", j, withv ? "with" : "without"); if (withv) BVER(g, s, ms, _v); else BVER(g, s, ms, NULL); if (!th) JUDGEK(NULL, "cp_mpsb_ver", d2, gt_is_unity(E), 0); bn_sub_dig(ms[j][0], ms[j][0], 1); if (bn_sign(ms[j][0]) == RLC_NEG) bn_add(ms[j][0], ms[j][0], n); }
			g1_copy(S2, s[0]); g1_add(s[0], s[0], g); g1_norm(s[0], s[0]); if (withv) BVER(g, s, ms, _v); else BVER(g, s, ms, NULL); if (!th) JUDGEK(NULL, "cp_mpsb_ver", "first signature share + sigma_1 (output must differ from 1)", gt_is_unity(E), 0); g1_copy(s[0], S2); }
		/* conventional block verifier on the recombined values */
		for (size_t j = 0; j < l; j++) { bn_add(Ms[j], ms[j][0], ms[j][1]); bn_mod(Ms[j], Ms[j], n); g2_copy(Y[j], _y[j][0]); } g1_add(S2, s[0], s[1]); g1_norm(S2, S2);
		ACC("cp_psb_ver", cp_psb_ver(g, S2, (const bn_t *)Ms, h, x[0], (const g2_t *)Y, l), "the recombined jointly produced block signature under the conventional verifier"); }
done:
	bn_free(n); bn_free(M); g1_free(g); g1_free(S2); g2_free(h); gt_free(E);
	for (int i = 0; i < 2; i++) { bn_free(m[i]); bn_free(u[i]); bn_free(vv[i]); g1_free(s[i]); g2_free(x[i]); g2_free(y[i]); gt_free(e[i]); gt_free(f[i]); pt_free(t[i]); for (int k = 0; k < 3; k++) mt_free(tri[k][i]); for (int j = 0; j < MB; j++) { bn_free(ms[j][i]); bn_free(_v[j][i]); g2_free(_y[j][i]); } }
	for (int j = 0; j < MB; j++) { bn_free(Ms[j]); g2_free(Y[j]); }
}

/* ---------------------------------------------------------------- context-hiding multi-key homomorphic signatures */
/* cmlhs: cid, S, L, coefficient pattern (5 = the zero function), bls flag, seed */
static void do_cmlhs(vf_case *c) {
	long cid = mpz_get_si(c->v[0]); size_t S = mpz_get_ui(c->v[1]), L = mpz_get_ui(c->v[2]); int pat = (int)mpz_get_si(c->v[3]), bls = (int)mpz_get_si(c->v[4]); unsigned long seed = mpz_get_ui(c->v[5]); int th, v;
	if (!select_pc(cid)) { vf_fail(NULL, "parameter set refused"); return; } seed_drbg(seed);
	enum { KL = RLC_MD_LEN }; uint8_t k[MS][KL]; const char *data = "database-identifier", *data2 = "database-identifies";
	bn_t n, m, m2, msg[MS][ML], sk[MS], d[MS], x[MS][ML], fsk, fd; g1_t _r, h, as[MS], cs[MS], sig[MS], a[MS][ML], cc[MS][ML], r[MS][ML], t1, G, keep1; g2_t _s, s[MS][ML], pk[MS], y[MS], z[MS], t2, G2, keep2, fpk, fy; gt_t hsv[MS][ML + 1], vk, fhs[ML + 1]; const gt_t *hs[MS];
	dig_t f[MS][ML], f2[MS][ML]; const dig_t *fp[MS], *fp2[MS]; size_t flen[MS]; int label[ML], label2[ML]; bn_t fx[ML]; uint8_t fk[KL];
	bn_null(n); bn_new(n); bn_null(m); bn_new(m); bn_null(m2); bn_new(m2); bn_null(fsk); bn_new(fsk); bn_null(fd); bn_new(fd); g1_null(_r); g1_new(_r); g1_null(h); g1_new(h); g1_null(t1); g1_new(t1); g1_null(G); g1_new(G); g1_null(keep1); g1_new(keep1); g2_null(_s); g2_new(_s); g2_null(t2); g2_new(t2); g2_null(G2); g2_new(G2); g2_null(keep2); g2_new(keep2); g2_null(fpk); g2_new(fpk); g2_null(fy); g2_new(fy); gt_null(vk); gt_new(vk);
	for (size_t i = 0; i < MS; i++) { bn_null(sk[i]); bn_new(sk[i]); bn_null(d[i]); bn_new(d[i]); g1_null(as[i]); g1_new(as[i]); g1_null(cs[i]); g1_new(cs[i]); g1_null(sig[i]); g1_new(sig[i]); g2_null(pk[i]); g2_new(pk[i]); g2_null(y[i]); g2_new(y[i]); g2_null(z[i]); g2_new(z[i]); hs[i] = (const gt_t *)hsv[i]; fp[i] = f[i]; fp2[i] = f2[i]; flen[i] = L;
		for (size_t j = 0; j <= ML; j++) { gt_null(hsv[i][j]); gt_new(hsv[i][j]); } for (size_t j = 0; j < ML; j++) { bn_null(msg[i][j]); bn_new(msg[i][j]); bn_null(x[i][j]); bn_new(x[i][j]); g1_null(a[i][j]); g1_new(a[i][j]); g1_null(cc[i][j]); g1_new(cc[i][j]); g1_null(r[i][j]); g1_new(r[i][j]); g2_null(s[i][j]); g2_new(s[i][j]); f[i][j] = f2[i][j] = pat == 5 ? 0 : coef(pat, (int)i, (int)j); } }
	for (size_t j = 0; j <= ML; j++) { gt_null(fhs[j]); gt_new(fhs[j]); } for (size_t j = 0; j < ML; j++) { bn_null(fx[j]); bn_new(fx[j]); label[j] = label2[j] = (int)j; }
	pc_get_ord(n); g1_get_gen(G); g2_get_gen(G2); VF_TRY(th, v = cp_cmlhs_init(h)); if (th || v != RLC_OK) { vf_fail(NULL, "cp_cmlhs_init failed"); goto done; }
	VF_TRY(th, v = cp_cmlhs_gen(fx, fhs, L, fk, KL, fsk, fpk, fd, fy, bls));
	for (size_t i = 0; i < S; i++) { VF_TRY(th, v = cp_cmlhs_gen(x[i], hsv[i], L, k[i], KL, sk[i], pk[i], d[i], y[i], bls)); if (th || v != RLC_OK) { vf_fail(NULL, "cp_cmlhs_gen failed"); goto done; }
		for (size_t j = 0; j < L; j++) { if ((i + j + (size_t)pat) % 5 == 0) bn_zero(msg[i][j]); else if ((i + j + (size_t)pat) % 5 == 1) bn_sub_dig(msg[i][j], n, 1); else bn_rand_mod(msg[i][j], n);
			VF_TRY(th, v = cp_cmlhs_sig(sig[i], z[i], a[i][j], cc[i][j], r[i][j], s[i][j], msg[i][j], data, label[j], x[i][j], h, k[i], KL, d[i], sk[i], bls)); if (th || v != RLC_OK) { vf_fail(NULL, "cp_cmlhs_sig failed"); goto done; } } }
	g1_set_infty(_r); g2_set_infty(_s); { mpz_t q, acc, t; mpz_inits(q, acc, t, NULL); vf_bn_get(q, n); mpz_set_ui(acc, 0);
		for (size_t i = 0; i < S; i++) { VF_TRY(th, v = cp_cmlhs_fun(as[i], cs[i], (const g1_t *)a[i], (const g1_t *)cc[i], f[i], L)); if (th || v != RLC_OK) { vf_fail(NULL, "cp_cmlhs_fun failed"); goto done; } VF_TRY(th, v = cp_cmlhs_evl(t1, t2, (const g1_t *)r[i], (const g2_t *)s[i], f[i], L)); if (th || v != RLC_OK) { vf_fail(NULL, "cp_cmlhs_evl failed"); goto done; } g1_add(_r, _r, t1); g2_add(_s, _s, t2);
			for (size_t j = 0; j < L; j++) { vf_bn_get(t, msg[i][j]); mpz_mul_ui(t, t, (unsigned long)f[i][j]); mpz_add(acc, acc, t); } }
		mpz_mod(acc, acc, q); vf_bn_set(m, acc); mpz_clears(q, acc, t, NULL); }
	g1_norm(_r, _r); g2_norm(_s, _s);
	char d2[160];
#define CVER(R, SS, SIG, Z, A, C, M, DATA, LAB, HS, F, Y, PK) cp_cmlhs_ver(R, SS, (const g1_t *)SIG, (const g2_t *)Z, (const g1_t *)A, (const g1_t *)C, M, DATA, h, LAB, HS, F, flen, (const g2_t *)Y, (const g2_t *)PK, S, bls)
#define CONV(R, SS, SIG, Z, A, C, M, DATA, Y, PK) cp_cmlhs_onv(R, SS, (const g1_t *)SIG, (const g2_t *)Z, (const g1_t *)A, (const g1_t *)C, M, DATA, h, vk, (const g2_t *)Y, (const g2_t *)PK, S, bls)
	snprintf(d2, sizeof d2, "the honestly evaluated signature (%zu signers, %zu labels, coefficient pattern %d, %s)", S, L, pat, bls ? "BLS" : "ECDSA"); ACC("cp_cmlhs_ver", CVER(_r, _s, sig, z, as, cs, m, data, label, hs, fp, y, pk), d2);
	VF_TRY(th, cp_cmlhs_off(vk, h, label, hs, fp, flen, S)); if (th) vf_fail(NULL, "cp_cmlhs_off raised"); else { ACC("cp_cmlhs_onv", CONV(_r, _s, sig, z, as, cs, m, data, y, pk), d2);
		bn_add_dig(m2, m, 1); bn_mod(m2, m2, n); REJ("cp_cmlhs_onv", CONV(_r, _s, sig, z, as, cs, m2, data, y, pk), "combined message + 1"); g1_add(t1, _r, G); g1_norm(t1, t1); REJ("cp_cmlhs_onv", CONV(t1, _s, sig, z, as, cs, m, data, y, pk), "R + G"); REJ("cp_cmlhs_onv", CONV(_r, _s, sig, z, as, cs, m, data2, y, pk), "another data set name"); }
	bn_add_dig(m2, m, 1); bn_mod(m2, m2, n); REJ("cp_cmlhs_ver", CVER(_r, _s, sig, z, as, cs, m2, data, label, hs, fp, y, pk), "combined message + 1");
	g1_add(t1, _r, G); g1_norm(t1, t1); REJ("cp_cmlhs_ver", CVER(t1, _s, sig, z, as, cs, m, data, label, hs, fp, y, pk), "R + G");
	g2_add(t2, _s, G2); g2_norm(t2, t2); REJ("cp_cmlhs_ver", CVER(_r, t2, sig, z, as, cs, m, data, label, hs, fp, y, pk), "S + G2");
	for (size_t i = 0; i < S; i++) { g1_copy(keep1, as[i]); g1_add(as[i], as[i], G); g1_norm(as[i], as[i]); snprintf(d2, sizeof d2, "signer %zu: A + G", i); REJ("cp_cmlhs_ver", CVER(_r, _s, sig, z, as, cs, m, data, label, hs, fp, y, pk), d2); g1_copy(as[i], keep1);
		g1_copy(keep1, cs[i]); g1_add(cs[i], cs[i], G); g1_norm(cs[i], cs[i]); snprintf(d2, sizeof d2, "signer %zu: C + G", i); REJ("cp_cmlhs_ver", CVER(_r, _s, sig, z, as, cs, m, data, label, hs, fp, y, pk), d2); g1_copy(cs[i], keep1);
		g2_copy(keep2, z[i]); g2_add(z[i], z[i], G2); g2_norm(z[i], z[i]); snprintf(d2, sizeof d2, "signer %zu: Z + G2", i); REJ("cp_cmlhs_ver", CVER(_r, _s, sig, z, as, cs, m, data, label, hs, fp, y, pk), d2); g2_copy(z[i], keep2);
		g1_copy(keep1, sig[i]); if (bls) { g1_add(sig[i], sig[i], G); g1_norm(sig[i], sig[i]); } else fp_add_dig(sig[i]->x, sig[i]->x, 1); snprintf(d2, sizeof d2, "signer %zu: the signature on (Z, data set) altered", i); REJ("cp_cmlhs_ver", CVER(_r, _s, sig, z, as, cs, m, data, label, hs, fp, y, pk), d2); g1_copy(sig[i], keep1);
		g2_copy(keep2, y[i]); g2_copy(y[i], fy); snprintf(d2, sizeof d2, "signer %zu: public element Y replaced by a foreign one", i); if (!g1_is_infty(cs[i])) /* a signer whose coefficients are all zero contributes C = O: e(C, Y) does not depend on Y */ REJ("cp_cmlhs_ver", CVER(_r, _s, sig, z, as, cs, m, data, label, hs, fp, y, pk), d2); g2_copy(y[i], keep2);
		g2_copy(keep2, pk[i]); g2_copy(pk[i], fpk); snprintf(d2, sizeof d2, "signer %zu: signature public key replaced by a foreign one", i); REJ("cp_cmlhs_ver", CVER(_r, _s, sig, z, as, cs, m, data, label, hs, fp, y, pk), d2); g2_copy(pk[i], keep2);
		for (size_t j = 0; j < L; j++) { f2[i][j] = f[i][j] + 1; snprintf(d2, sizeof d2, "coefficient f[%zu][%zu] + 1 at verification", i, j); REJ("cp_cmlhs_ver", CVER(_r, _s, sig, z, as, cs, m, data, label, hs, fp2, y, pk), d2); f2[i][j] = f[i][j]; } }
	REJ("cp_cmlhs_ver", CVER(_r, _s, sig, z, as, cs, m, data2, label, hs, fp, y, pk), "another data set name");
	if (L >= 2 && f[0][0] != f[0][1]) { label2[0] = 1; label2[1] = 0; REJ("cp_cmlhs_ver", CVER(_r, _s, sig, z, as, cs, m, data, label2, hs, fp, y, pk), "first two labels swapped at verification"); }
done:
	bn_free(n); bn_free(m); bn_free(m2); bn_free(fsk); bn_free(fd); g1_free(_r); g1_free(h); g1_free(t1); g1_free(G); g1_free(keep1); g2_free(_s); g2_free(t2); g2_free(G2); g2_free(keep2); g2_free(fpk); g2_free(fy); gt_free(vk);
	for (size_t i = 0; i < MS; i++) { bn_free(sk[i]); bn_free(d[i]); g1_free(as[i]); g1_free(cs[i]); g1_free(sig[i]); g2_free(pk[i]); g2_free(y[i]); g2_free(z[i]); for (size_t j = 0; j <= ML; j++) gt_free(hsv[i][j]); for (size_t j = 0; j < ML; j++) { bn_free(msg[i][j]); bn_free(x[i][j]); g1_free(a[i][j]); g1_free(cc[i][j]); g1_free(r[i][j]); g2_free(s[i][j]); } }
	for (size_t j = 0; j <= ML; j++) gt_free(fhs[j]); for (size_t j = 0; j < ML; j++) bn_free(fx[j]);
}

/* ---------------------------------------------------------------- Camenisch-Lysyanskaya block signatures */
/* clb: cid, number of messages l (1..5), seed, message length */
static void do_clb(vf_case *c) {
	long cid = mpz_get_si(c->v[0]); size_t l = mpz_get_ui(c->v[1]); unsigned long seed = mpz_get_ui(c->v[2]); size_t len = mpz_get_ui(c->v[3]); int th, v;
	if (!select_pc(cid)) { vf_fail(NULL, "parameter set refused"); return; } seed_drbg(seed);
	bn_t t, u, vs[MB]; g1_t a, b, cc, As[MB], Bs[MB], G, keep; g2_t x, y, zs[MB], G2, keep2; uint8_t mbuf[MB][72], m2buf[72]; const uint8_t *ms[MB], *ms2[MB]; size_t ls[MB];
	bn_null(t); bn_new(t); bn_null(u); bn_new(u); g1_null(a); g1_new(a); g1_null(b); g1_new(b); g1_null(cc); g1_new(cc); g1_null(G); g1_new(G); g1_null(keep); g1_new(keep); g2_null(x); g2_new(x); g2_null(y); g2_new(y); g2_null(G2); g2_new(G2); g2_null(keep2); g2_new(keep2);
	for (int i = 0; i < MB; i++) { bn_null(vs[i]); bn_new(vs[i]); g1_null(As[i]); g1_new(As[i]); g1_null(Bs[i]); g1_new(Bs[i]); g2_null(zs[i]); g2_new(zs[i]); for (size_t k = 0; k < len; k++) mbuf[i][k] = (uint8_t)(i * 31 + k * 7 + 1); ms[i] = ms2[i] = mbuf[i]; ls[i] = len; }
	g1_get_gen(G); g2_get_gen(G2);
	VF_TRY(th, v = cp_clb_gen(t, u, vs, x, y, zs, l)); if (th || v != RLC_OK) { vf_fail(NULL, "cp_clb_gen(l = %zu) failed", l); goto done; }
	VF_TRY(th, v = cp_clb_sig(a, As, b, Bs, cc, ms, ls, t, u, (const bn_t *)vs, l)); if (th || v != RLC_OK) { vf_fail(NULL, "cp_clb_sig(l = %zu) failed", l); goto done; }
	char d2[128];
#define BV(A_, AS_, B_, BS_, C_, MS_, X_, Y_, ZS_) cp_clb_ver(A_, (const g1_t *)AS_, B_, (const g1_t *)BS_, C_, MS_, ls, X_, Y_, (const g2_t *)ZS_, l)
	snprintf(d2, sizeof d2, "the honest block signature on %zu messages of %zu bytes", l, len); ACC("cp_clb_ver", BV(a, As, b, Bs, cc, ms, x, y, zs), d2);
	if (len) for (size_t i = 0; i < l; i++) { memcpy(m2buf, mbuf[i], len); m2buf[len / 2] ^= 0x10; ms2[i] = m2buf; snprintf(d2, sizeof d2, "message %zu with one bit flipped", i); REJ("cp_clb_ver", BV(a, As, b, Bs, cc, ms2, x, y, zs), d2); ms2[i] = mbuf[i]; }
	if (l >= 2 && len) { ms2[0] = mbuf[1]; ms2[1] = mbuf[0]; REJ("cp_clb_ver", BV(a, As, b, Bs, cc, ms2, x, y, zs), "first two messages swapped"); ms2[0] = mbuf[0]; ms2[1] = mbuf[1]; }
#define G1MUT(P, DESC) do { g1_copy(keep, P); g1_add(P, P, G); g1_norm(P, P); REJ("cp_clb_ver", BV(a, As, b, Bs, cc, ms, x, y, zs), DESC); g1_set_infty(P); REJ("cp_clb_ver", BV(a, As, b, Bs, cc, ms, x, y, zs), DESC " (identity)"); g1_copy(P, keep); } while (0)
	G1MUT(a, "a + G"); G1MUT(b, "b + G"); G1MUT(cc, "c + G"); for (size_t i = 0; i + 1 < l; i++) { G1MUT(As[i], "an A_i + G"); G1MUT(Bs[i], "a B_i + G"); }
#define G2MUT(P, DESC) do { g2_copy(keep2, P); g2_add(P, P, G2); g2_norm(P, P); REJ("cp_clb_ver", BV(a, As, b, Bs, cc, ms, x, y, zs), DESC); g2_copy(P, keep2); } while (0)
	/* compensating alterations: invalid member by member (e(a, Z_i) = e(A_i, g) and e(A_i, Y) = e(B_i, g) hold for EACH i), invisible to a verifier that
	   only checks sums: pairs +G / -G of the A_i; triples of the B_i altered by the kernel vector (m_j - m_k, m_k - m_i, m_i - m_j) G, which leaves both sum B_i
	   and sum m_i B_i unchanged */
	for (size_t i = 0; i + 1 < l; i++) for (size_t j = i + 1; j + 1 < l; j++) { g1_t k1, k2; g1_null(k1); g1_new(k1); g1_null(k2); g1_new(k2); g1_copy(k1, As[i]); g1_copy(k2, As[j]); g1_add(As[i], As[i], G); g1_norm(As[i], As[i]); g1_sub(As[j], As[j], G); g1_norm(As[j], As[j]); snprintf(d2, sizeof d2, "A_%zu + G and A_%zu - G (sum unchanged)", i + 1, j + 1); REJ("cp_clb_ver", BV(a, As, b, Bs, cc, ms, x, y, zs), d2); g1_copy(As[i], k1); g1_copy(As[j], k2);
		g1_copy(k1, Bs[i]); g1_copy(k2, Bs[j]); g1_add(Bs[i], Bs[i], G); g1_norm(Bs[i], Bs[i]); g1_sub(Bs[j], Bs[j], G); g1_norm(Bs[j], Bs[j]); snprintf(d2, sizeof d2, "B_%zu + G and B_%zu - G (sum unchanged)", i + 1, j + 1); REJ("cp_clb_ver", BV(a, As, b, Bs, cc, ms, x, y, zs), d2); g1_copy(Bs[i], k1); g1_copy(Bs[j], k2); g1_free(k1); g1_free(k2); }
	if (len) { bn_t n, mm[MB], dd; bn_null(n); bn_new(n); bn_null(dd); bn_new(dd); pc_get_ord(n); for (size_t i = 0; i < l; i++) { bn_null(mm[i]); bn_new(mm[i]); bn_read_bin(mm[i], ms[i], ls[i]); bn_mod(mm[i], mm[i], n); }
		for (size_t i = 1; i < l; i++) for (size_t j = i + 1; j < l; j++) for (size_t k = j + 1; k < l; k++) { g1_t kp[3], dl; size_t ix[3] = {i, j, k}; g1_null(dl); g1_new(dl); for (int q = 0; q < 3; q++) { g1_null(kp[q]); g1_new(kp[q]); g1_copy(kp[q], Bs[ix[q] - 1]); }
			for (int q = 0; q < 3; q++) { bn_sub(dd, mm[ix[(q + 1) % 3]], mm[ix[(q + 2) % 3]]); bn_mod(dd, dd, n); if (bn_sign(dd) == RLC_NEG) bn_add(dd, dd, n); g1_mul_gen(dl, dd); g1_add(Bs[ix[q] - 1], Bs[ix[q] - 1], dl); g1_norm(Bs[ix[q] - 1], Bs[ix[q] - 1]); }
			snprintf(d2, sizeof d2, "B_%zu, B_%zu, B_%zu altered by the kernel vector (sum B_i and sum m_i B_i unchanged)", i, j, k); REJ("cp_clb_ver", BV(a, As, b, Bs, cc, ms, x, y, zs), d2); for (int q = 0; q < 3; q++) { g1_copy(Bs[ix[q] - 1], kp[q]); g1_free(kp[q]); } g1_free(dl); }
		for (size_t i = 0; i < l; i++) bn_free(mm[i]); bn_free(n); bn_free(dd); }
	G2MUT(x, "public key X + G2"); G2MUT(y, "public key Y + G2"); for (size_t i = 0; i + 1 < l; i++) G2MUT(zs[i], "a public key Z_i + G2");
	{ g1_t ia, ib, ic, iA[MB], iB[MB]; g1_null(ia); g1_new(ia); g1_null(ib); g1_new(ib); g1_null(ic); g1_new(ic); g1_set_infty(ia); g1_set_infty(ib); g1_set_infty(ic); for (int i = 0; i < MB; i++) { g1_null(iA[i]); g1_new(iA[i]); g1_null(iB[i]); g1_new(iB[i]); g1_set_infty(iA[i]); g1_set_infty(iB[i]); } REJ("cp_clb_ver", BV(ia, iA, ib, iB, ic, ms, x, y, zs), "the all-identity signature"); g1_free(ia); g1_free(ib); g1_free(ic); for (int i = 0; i < MB; i++) { g1_free(iA[i]); g1_free(iB[i]); } }
done:
	bn_free(t); bn_free(u); g1_free(a); g1_free(b); g1_free(cc); g1_free(G); g1_free(keep); g2_free(x); g2_free(y); g2_free(G2); g2_free(keep2); for (int i = 0; i < MB; i++) { bn_free(vs[i]); g1_free(As[i]); g1_free(Bs[i]); g2_free(zs[i]); }
}

static void run_case(vf_case *c) {
	vf_nontrivial(); if (!vf_replaying) vf_stat_add("states", 1);
	if (!strcmp(c->op, "etrs")) do_etrs(c); else if (!strcmp(c->op, "mklhs")) do_mklhs(c); else if (!strcmp(c->op, "mpss")) do_mpss(c); else if (!strcmp(c->op, "cmlhs")) do_cmlhs(c); else if (!strcmp(c->op, "clb")) do_clb(c); else vf_fail(NULL, "unknown op");
}
static vf_case K;
static void enumerate(void) {
	vf_case_init(&K);
	static const int EC[] = {NIST_P256, SECG_K256, BN_P256, BSI_P256, SM2_P256, SM9_P256}; static const int PC[] = {BN_P256, SM9_P256};
	if (vf_bound_on("threshold-ring-all-histories")) { static const long LENS[] = {5, 0, 33, 64}; for (unsigned ci = 0; ci < (vf_tier ? 6 : 2); ci++) for (int sd = 0; sd < (vf_tier ? 3 : 1); sd++) for (int li = 0; li < (vf_tier ? 4 : 2); li++) for (unsigned hist = 0; hist < 8; hist++) if (vf_mine() && !vf_expired()) { K.op = "etrs"; K.n = 4; mpz_set_si(K.v[0], EC[ci]); mpz_set_si(K.v[1], sd); mpz_set_si(K.v[2], LENS[li]); mpz_set_ui(K.v[3], hist); vf_run(&K); }
		vf_bound_done("threshold-ring-all-histories"); }
	if (vf_bound_on("multi-key-homomorphic-all-shapes")) { for (unsigned ci = 0; ci < (vf_tier ? 2 : 1); ci++) for (long S = 1; S <= MS; S++) for (long L = 1; L <= ML; L++) for (int pat = 0; pat < (vf_tier ? 6 : 4); pat++) for (int sd = 0; sd < (vf_tier ? 2 : 1); sd++) if (vf_mine() && !vf_expired()) { K.op = "mklhs"; K.n = 5; mpz_set_si(K.v[0], PC[ci]); mpz_set_si(K.v[1], S); mpz_set_si(K.v[2], L); mpz_set_si(K.v[3], pat); mpz_set_si(K.v[4], sd); vf_run(&K); }
		vf_bound_done("multi-key-homomorphic-all-shapes"); }
	if (vf_bound_on("multi-party-ps")) { static const long BL[] = {0, 1, 2, 5, 3}; for (unsigned ci = 0; ci < (vf_tier ? 2 : 1); ci++) for (int bi = 0; bi < (vf_tier ? 5 : 4); bi++) for (int sd = 0; sd < (vf_tier ? 6 : 3); sd++) if (vf_mine() && !vf_expired()) { K.op = "mpss"; K.n = 3; mpz_set_si(K.v[0], PC[ci]); mpz_set_si(K.v[1], BL[bi]); mpz_set_si(K.v[2], sd); vf_run(&K); }
		vf_bound_done("multi-party-ps"); }
	if (vf_bound_on("context-hiding-homomorphic-all-shapes")) { for (unsigned ci = 0; ci < (vf_tier ? 2 : 1); ci++) for (long S = 1; S <= MS; S++) for (long L = 1; L <= ML; L++) for (int pat = 0; pat < 6; pat++) for (int bls = 0; bls < 2; bls++) { if (!vf_tier && pat >= 2 && pat != 5 && (S + L + pat) % 2) continue; if (vf_mine() && !vf_expired()) { K.op = "cmlhs"; K.n = 6; mpz_set_si(K.v[0], PC[ci]); mpz_set_si(K.v[1], S); mpz_set_si(K.v[2], L); mpz_set_si(K.v[3], pat); mpz_set_si(K.v[4], bls); mpz_set_si(K.v[5], S + L); vf_run(&K); } }
		vf_bound_done("context-hiding-homomorphic-all-shapes"); }
	if (vf_bound_on("cl-block")) { static const long ML_[] = {5, 0, 33}; for (unsigned ci = 0; ci < (vf_tier ? 2 : 1); ci++) for (long l = 1; l <= MB; l++) for (int sd = 0; sd < (vf_tier ? 3 : 1); sd++) for (int li = 0; li < (vf_tier ? 3 : 2); li++) if (vf_mine() && !vf_expired()) { K.op = "clb"; K.n = 4; mpz_set_si(K.v[0], PC[ci]); mpz_set_si(K.v[1], l); mpz_set_si(K.v[2], sd); mpz_set_si(K.v[3], ML_[li]); vf_run(&K); }
		vf_bound_done("cl-block"); }
	vf_stat_add("transitions", transitions); vf_stat_add("x.mutations_judged", nmut); vf_stat_add("x.oracle_accepts", nacc); vf_stat_add("x.oracle_rejects", nrej);
}
VF_MAIN()
