/*
 * C08 pass 4 -- edge sweeps under the sanitizers: the argument shapes the property quantifies over, each run through EVERY
 * routine of a family, with the objects under test in exact-size heap blocks (so that ASan sees the first byte outside):
 *   bnsize: size-parameterised integer constructors for every size from 0 to beyond the capacity (must fit or raise);
 *   smul:   every scalar-multiplication routine (prime, F_p^2 and binary curves) x scalars that are 0 modulo the order,
 *           have zero digits / zero windows inside the recodings, sit at the bit-length boundaries, or exceed them;
 *   arr:    array-taking functions with n = 0, 1, 2, 3, 17 in exact-size arrays;
 *   rec:    recodings into exact-size heap buffers for every length around the required one (must fit or raise).
 * Oracles: AddressSanitizer/UBSan, the error-context invariant of VF_TRY (a call must not return with ctx->last pointing
 * into its own dead frame), "fits or raises", and -- for the scalar multiplications -- agreement with the basic
 * double-and-add routine of the same library (a result computed from never-written storage shows up as a disagreement).
 */
#define VF_KEEP_SEGV_HANDLER 1
#include "ep_common.h"
#include <fcntl.h>

static void harness_setup(void) {
	if (core_init() != RLC_OK) exit(2);
	vf_reseed(); tiny_curves_setup();
#if defined(WITH_FB) && WSIZE == 64
	fb_param_set_any();
#endif
}
static bn_st *heap_bn(void) { bn_st *b = malloc(sizeof(bn_st)); bn_make(b, RLC_BN_SIZE); return b; }

/* ---------------------------------------------------------------- bnsize: fn, size */
enum { BF_RAND, BF_SET2B, BF_SETBIT, BF_READBIN, BF_READRAW, BF_READSTR16, BF_READSTR10, BF_LSH, BF_RANDMOD, BF_SQR, BF_MULDIG, BF_LAST };
static const char *BFN[] = {"bn_rand", "bn_set_2b", "bn_set_bit", "bn_read_bin", "bn_read_raw", "bn_read_str(16)", "bn_read_str(10)", "bn_lsh", "bn_rand_mod", "bn_sqr", "bn_mul_dig"};
static void do_bnsize(vf_case *c) {
	int fn = (int)mpz_get_si(c->v[0]); size_t sz = mpz_get_ui(c->v[1]); int th = 0;
#if ALLOC == AUTO
	bn_st *a = heap_bn(), *b = heap_bn();
	size_t capbits = (size_t)RLC_BN_SIZE * RLC_DIG;
	switch (fn) {
		case BF_RAND: vf_reseed(); VF_TRY(th, bn_rand(a, RLC_POS, sz)); break;
		case BF_SET2B: VF_TRY(th, bn_set_2b(a, sz)); break;
		case BF_SETBIT: bn_zero(a); VF_TRY(th, bn_set_bit(a, (uint_t)sz, 1)); break;
		case BF_READBIN: { uint8_t *buf = malloc(sz + 1); memset(buf, 0xFF, sz + 1); VF_TRY(th, bn_read_bin(a, buf, sz)); free(buf); sz *= 8; break; }
		case BF_READRAW: { dig_t *buf = malloc((sz + 1) * sizeof(dig_t)); memset(buf, 0xFF, (sz + 1) * sizeof(dig_t)); VF_TRY(th, bn_read_raw(a, buf, sz)); free(buf); sz *= RLC_DIG; break; }
		case BF_READSTR16: { char *buf = malloc(sz + 1); memset(buf, 'f', sz); buf[sz] = 0; VF_TRY(th, bn_read_str(a, buf, sz, 16)); free(buf); sz *= 4; break; }
		case BF_READSTR10: { char *buf = malloc(sz + 1); memset(buf, '9', sz); buf[sz] = 0; VF_TRY(th, bn_read_str(a, buf, sz, 10)); free(buf); sz = (size_t)((double)sz * 3.3219280948873626) + 1; capbits += 8; break; }
		case BF_LSH: bn_set_dig(b, 1); VF_TRY(th, bn_lsh(a, b, sz)); sz += 1; break;
		case BF_RANDMOD: VF_TRY(th, bn_set_2b(b, sz)); if (th) { free(a); free(b); return; } vf_reseed(); VF_TRY(th, bn_rand_mod(a, b)); break;
		case BF_SQR: VF_TRY(th, bn_set_2b(b, sz / 2)); if (th) { free(a); free(b); return; } VF_TRY(th, bn_sqr(a, b)); break;
		case BF_MULDIG: VF_TRY(th, bn_set_2b(b, sz > RLC_DIG ? sz - RLC_DIG : 0)); if (th) { free(a); free(b); return; } bn_sub_dig(b, b, 1); VF_TRY(th, bn_mul_dig(a, b, (dig_t)-1)); break;
	}
	transitions++;
	if (!th && (a->used > a->alloc || a->used > (int)RLC_BN_SIZE || a->used < 0)) vf_fail(NULL, "%s(size %zu): used = %d digits exceed the precision of %d and no error was raised", BFN[fn], mpz_get_ui(c->v[1]), (int)a->used, (int)RLC_BN_SIZE);
	/* a result that provably needs more bits than the capacity must be refused */
	if (!th && fn != BF_RANDMOD && fn != BF_SQR && fn != BF_MULDIG && fn != BF_READSTR10 && sz > capbits && fn != BF_SET2B && fn != BF_SETBIT) vf_fail(NULL, "%s(size %zu): result beyond the precision not refused", BFN[fn], mpz_get_ui(c->v[1]));
	if (!th && (fn == BF_SET2B || fn == BF_SETBIT) && sz + 1 > capbits) vf_fail(NULL, "%s(size %zu): result beyond the precision not refused", BFN[fn], mpz_get_ui(c->v[1]));
	free(a); free(b);
#else
	(void)fn; (void)sz; (void)th;
#endif
}

/* ---------------------------------------------------------------- smul: family, cid, routine, scalar */
typedef void (*mul_fn)(ep_t, const ep_t, const bn_t);
typedef void (*sim_fn)(ep_t, const ep_t, const bn_t, const ep_t, const bn_t);
typedef void (*pre_fn)(ep_t *, const ep_t);
typedef void (*fix_fn)(ep_t, const ep_t *, const bn_t);
static const struct { const char *n; mul_fn f; } EPM[] = {{"ep_mul_basic", ep_mul_basic}, {"ep_mul_slide", ep_mul_slide}, {"ep_mul_monty", ep_mul_monty}, {"ep_mul_lwnaf", ep_mul_lwnaf}, {"ep_mul_lwreg", ep_mul_lwreg}};
static const struct { const char *n; sim_fn f; } EPS[] = {{"ep_mul_sim_basic", ep_mul_sim_basic}, {"ep_mul_sim_trick", ep_mul_sim_trick}, {"ep_mul_sim_inter", ep_mul_sim_inter}, {"ep_mul_sim_joint", ep_mul_sim_joint}};
static const struct { const char *n; pre_fn pre; fix_fn fix; } EPF[] = {{"ep_mul_fix_basic", ep_mul_pre_basic, ep_mul_fix_basic}, {"ep_mul_fix_combs", ep_mul_pre_combs, ep_mul_fix_combs}, {"ep_mul_fix_combd", ep_mul_pre_combd, ep_mul_fix_combd}, {"ep_mul_fix_lwnaf", ep_mul_pre_lwnaf, ep_mul_fix_lwnaf}};
static ep_t EPTAB[4][RLC_EP_TABLE_MAX]; static long eptab_cid = -9;
static int ep_pt_eq(const ep_t a, const ep_t b) { return ep_cmp(a, b) == RLC_EQ; }
static int tables_ok(void) { return !tiny || mpz_sizeinbase(RN, 2) == RLC_FP_BITS; }
static void do_smul_ep(vf_case *c) {
	long cid = mpz_get_si(c->v[1]); if (!select_curve(cid)) { vf_fail(NULL, "curve refused"); return; }
	bn_st *k = heap_bn(); int th; if (!vf_bn_set(k, c->v[2])) { free(k); return; }
	ep_t g, q, r, e; ep_new(g); ep_new(q); ep_new(r); ep_new(e); ep_curve_get_gen(g); ep_dbl(q, g); ep_norm(q, q);
	int have_e; VF_TRY(th, ep_mul_basic(e, g, k)); have_e = !th;
	for (unsigned i = 0; i < 5; i++) { vf_reseed(); VF_TRY(th, EPM[i].f(r, g, k)); transitions++; if (!th && have_e && !ep_pt_eq(r, e)) vf_fail(NULL, "%s: disagrees with ep_mul_basic outside the value alphabets of C03 (edge scalar)", EPM[i].n); }
	if (tables_ok()) { vf_reseed(); VF_TRY(th, ep_mul_gen(r, k)); transitions++; if (!th && have_e && !ep_pt_eq(r, e)) vf_fail(NULL, "ep_mul_gen: disagrees with ep_mul_basic (edge scalar)");
		if (eptab_cid != cid) { for (int i = 0; i < 4; i++) for (int j = 0; j < RLC_EP_TABLE_MAX; j++) ep_new(EPTAB[i][j]); for (int i = 0; i < 4; i++) VF_TRY(th, EPF[i].pre(EPTAB[i], g)); eptab_cid = cid; }
		for (int i = 0; i < 4; i++) { VF_TRY(th, EPF[i].fix(r, (const ep_t *)EPTAB[i], k)); transitions++; if (!th && have_e && !ep_pt_eq(r, e)) vf_fail(NULL, "%s: disagrees with ep_mul_basic (edge scalar)", EPF[i].n); } }
	/* simultaneous forms: (k, 1), (1, k), (k, k), (k, -k) */
	bn_st *one = heap_bn(), *nk = heap_bn(); bn_set_dig(one, 1); bn_neg(nk, k);
	for (unsigned i = 0; i < 4; i++) { vf_reseed(); VF_TRY(th, EPS[i].f(r, g, k, q, one)); VF_TRY(th, EPS[i].f(r, g, one, q, k)); VF_TRY(th, EPS[i].f(r, g, k, q, k)); VF_TRY(th, EPS[i].f(r, g, k, g, nk)); transitions += 4; if (!th && !ep_is_infty(r)) vf_fail(NULL, "%s: [k]P + [-k]P is not the identity (edge scalar)", EPS[i].n); }
	if (tables_ok()) { vf_reseed(); VF_TRY(th, ep_mul_sim_gen(r, k, q, k)); VF_TRY(th, ep_mul_sim_gen(r, k, q, one)); transitions += 2; }
	{ ep_t *ps = malloc(2 * sizeof(ep_t)); bn_t *ks = malloc(2 * sizeof(bn_t)); ep_new(ps[0]); ep_new(ps[1]); ep_copy(ps[0], g); ep_copy(ps[1], q); bn_new(ks[0]); bn_new(ks[1]); bn_copy(ks[0], k); bn_copy(ks[1], nk);
		vf_reseed(); VF_TRY(th, ep_mul_sim_lot(r, ps, (const bn_t *)ks, 2)); transitions++; free(ps); free(ks); }
	free(k); free(one); free(nk);
}
#if defined(WITH_EPX) && WSIZE == 64 && FP_PRIME == 256
typedef void (*mul2_fn)(ep2_t, const ep2_t, const bn_t);
typedef void (*sim2_fn)(ep2_t, const ep2_t, const bn_t, const ep2_t, const bn_t);
typedef void (*pre2_fn)(ep2_t *, const ep2_t);
typedef void (*fix2_fn)(ep2_t, const ep2_t *, const bn_t);
static const struct { const char *n; mul2_fn f; } E2M[] = {{"ep2_mul_basic", ep2_mul_basic}, {"ep2_mul_slide", ep2_mul_slide}, {"ep2_mul_monty", ep2_mul_monty}, {"ep2_mul_lwnaf", ep2_mul_lwnaf}, {"ep2_mul_lwreg", ep2_mul_lwreg}};
static const struct { const char *n; sim2_fn f; } E2S[] = {{"ep2_mul_sim_basic", ep2_mul_sim_basic}, {"ep2_mul_sim_trick", ep2_mul_sim_trick}, {"ep2_mul_sim_inter", ep2_mul_sim_inter}, {"ep2_mul_sim_joint", ep2_mul_sim_joint}};
static const struct { const char *n; pre2_fn pre; fix2_fn fix; } E2F[] = {{"ep2_mul_fix_basic", ep2_mul_pre_basic, ep2_mul_fix_basic}, {"ep2_mul_fix_combs", ep2_mul_pre_combs, ep2_mul_fix_combs}, {"ep2_mul_fix_combd", ep2_mul_pre_combd, ep2_mul_fix_combd}, {"ep2_mul_fix_lwnaf", ep2_mul_pre_lwnaf, ep2_mul_fix_lwnaf}};
static ep2_t E2TAB[4][RLC_EP_TABLE_MAX]; static long e2tab_cid = -9; static long e2_cid = -9;
static void do_smul_ep2(vf_case *c) {
	long cid = mpz_get_si(c->v[1]); int th;
	if (e2_cid != cid) { cur_cid = -1; if (!select_curve(cid)) { vf_fail(NULL, "curve refused"); return; } VF_TRY(th, ep2_curve_set_twist(cid == SM9_P256 ? RLC_EP_MTYPE : RLC_EP_DTYPE)); if (th) { vf_fail(NULL, "twist refused"); return; } e2_cid = cid; }
	bn_st *k = heap_bn(); if (!vf_bn_set(k, c->v[2])) { free(k); return; }
	ep2_t g, q, r, e; ep2_new(g); ep2_new(q); ep2_new(r); ep2_new(e); ep2_curve_get_gen(g); ep2_dbl(q, g); ep2_norm(q, q);
	int have_e; VF_TRY(th, ep2_mul_basic(e, g, k)); have_e = !th;
	for (unsigned i = 0; i < 5; i++) { vf_reseed(); VF_TRY(th, E2M[i].f(r, g, k)); transitions++; if (!th && have_e && ep2_cmp(r, e) != RLC_EQ) vf_fail(NULL, "%s: disagrees with ep2_mul_basic (edge scalar)", E2M[i].n); }
	vf_reseed(); VF_TRY(th, ep2_mul_gen(r, k)); transitions++; if (!th && have_e && ep2_cmp(r, e) != RLC_EQ) vf_fail(NULL, "ep2_mul_gen: disagrees with ep2_mul_basic (edge scalar)");
	if (e2tab_cid != cid) { for (int i = 0; i < 4; i++) for (int j = 0; j < RLC_EP_TABLE_MAX; j++) ep2_new(E2TAB[i][j]); for (int i = 0; i < 4; i++) VF_TRY(th, E2F[i].pre(E2TAB[i], g)); e2tab_cid = cid; }
	for (int i = 0; i < 4; i++) { VF_TRY(th, E2F[i].fix(r, (const ep2_t *)E2TAB[i], k)); transitions++; if (!th && have_e && ep2_cmp(r, e) != RLC_EQ) vf_fail(NULL, "%s: disagrees with ep2_mul_basic (edge scalar)", E2F[i].n); }
	bn_st *one = heap_bn(), *nk = heap_bn(); bn_set_dig(one, 1); bn_neg(nk, k);
	for (unsigned i = 0; i < 4; i++) { vf_reseed(); VF_TRY(th, E2S[i].f(r, g, k, q, one)); VF_TRY(th, E2S[i].f(r, g, one, q, k)); VF_TRY(th, E2S[i].f(r, g, k, q, k)); VF_TRY(th, E2S[i].f(r, g, k, g, nk)); transitions += 4; if (!th && !ep2_is_infty(r)) vf_fail(NULL, "%s: [k]P + [-k]P is not the identity (edge scalar)", E2S[i].n); }
	vf_reseed(); VF_TRY(th, ep2_mul_sim_gen(r, k, q, k)); transitions++;
	{ ep2_t *ps = malloc(2 * sizeof(ep2_t)); bn_t *ks = malloc(2 * sizeof(bn_t)); ep2_new(ps[0]); ep2_new(ps[1]); ep2_copy(ps[0], g); ep2_copy(ps[1], q); bn_new(ks[0]); bn_new(ks[1]); bn_copy(ks[0], k); bn_copy(ks[1], nk);
		vf_reseed(); VF_TRY(th, ep2_mul_sim_lot(r, ps, (const bn_t *)ks, 2)); transitions++; free(ps); free(ks); }
	free(k); free(one); free(nk);
}
#endif
#if defined(WITH_EB) && WSIZE == 64
typedef void (*mulb_fn)(eb_t, const eb_t, const bn_t);
typedef void (*simb_fn)(eb_t, const eb_t, const bn_t, const eb_t, const bn_t);
typedef void (*preb_fn)(eb_t *, const eb_t);
typedef void (*fixb_fn)(eb_t, const eb_t *, const bn_t);
static const struct { const char *n; mulb_fn f; } EBM[] = {{"eb_mul_basic", eb_mul_basic}, {"eb_mul_lodah", eb_mul_lodah}, {"eb_mul_lwnaf", eb_mul_lwnaf}, {"eb_mul_rwnaf", eb_mul_rwnaf}, {"eb_mul_halve", eb_mul_halve}};
static const struct { const char *n; simb_fn f; } EBS[] = {{"eb_mul_sim_basic", eb_mul_sim_basic}, {"eb_mul_sim_trick", eb_mul_sim_trick}, {"eb_mul_sim_inter", eb_mul_sim_inter}, {"eb_mul_sim_joint", eb_mul_sim_joint}};
static const struct { const char *n; preb_fn pre; fixb_fn fix; } EBF[] = {{"eb_mul_fix_basic", eb_mul_pre_basic, eb_mul_fix_basic}, {"eb_mul_fix_combs", eb_mul_pre_combs, eb_mul_fix_combs}, {"eb_mul_fix_combd", eb_mul_pre_combd, eb_mul_fix_combd}, {"eb_mul_fix_lwnaf", eb_mul_pre_lwnaf, eb_mul_fix_lwnaf}};
static eb_t EBTAB[4][RLC_EB_TABLE_MAX]; static long ebtab_cid = -9, eb_cid = -9;
static void do_smul_eb(vf_case *c) {
	long cid = mpz_get_si(c->v[1]); int th;
	if (eb_cid != cid) { VF_TRY(th, eb_param_set((int)cid)); if (th) { vf_fail(NULL, "binary curve refused"); return; } eb_cid = cid; }
	bn_st *k = heap_bn(); if (!vf_bn_set(k, c->v[2])) { free(k); return; }
	eb_t g, q, r, e; eb_new(g); eb_new(q); eb_new(r); eb_new(e); eb_curve_get_gen(g); eb_dbl(q, g); eb_norm(q, q);
	int have_e; VF_TRY(th, eb_mul_basic(e, g, k)); have_e = !th;
	bn_t n; bn_new(n); eb_curve_get_ord(n);
	for (unsigned i = 0; i < 5; i++) { if (i == 4 && bn_cmp_abs(k, n) != RLC_LT) continue; /* halving: documented for scalars below the order (L14) */
		vf_reseed(); VF_TRY(th, EBM[i].f(r, g, k)); transitions++; if (!th && have_e && bn_cmp_abs(k, n) == RLC_LT && eb_cmp(r, e) != RLC_EQ) vf_fail(NULL, "%s: disagrees with eb_mul_basic (edge scalar)", EBM[i].n); }
	vf_reseed(); VF_TRY(th, eb_mul_gen(r, k)); transitions++;
	if (ebtab_cid != cid) { for (int i = 0; i < 4; i++) for (int j = 0; j < RLC_EB_TABLE_MAX; j++) eb_new(EBTAB[i][j]); for (int i = 0; i < 4; i++) VF_TRY(th, EBF[i].pre(EBTAB[i], g)); ebtab_cid = cid; }
	for (int i = 0; i < 4; i++) { VF_TRY(th, EBF[i].fix(r, (const eb_t *)EBTAB[i], k)); transitions++; }
	bn_st *one = heap_bn(), *nk = heap_bn(); bn_set_dig(one, 1); bn_neg(nk, k);
	for (unsigned i = 0; i < 4; i++) { vf_reseed(); VF_TRY(th, EBS[i].f(r, g, k, q, one)); VF_TRY(th, EBS[i].f(r, g, one, q, k)); VF_TRY(th, EBS[i].f(r, g, k, q, k)); VF_TRY(th, EBS[i].f(r, g, k, g, nk)); transitions += 4; }
	vf_reseed(); VF_TRY(th, eb_mul_sim_gen(r, k, q, k)); transitions++;
	free(k); free(one); free(nk);
}
#endif

/* ---------------------------------------------------------------- arr: cid, n */
static void do_arr(vf_case *c) {
	long cid = mpz_get_si(c->v[0]); size_t n = mpz_get_ui(c->v[1]); int th;
	if (!select_curve(cid)) { vf_fail(NULL, "curve refused"); return; }
	ep_t g, r; ep_new(g); ep_new(r); ep_curve_get_gen(g);
	/* exact-size arrays (n = 0: a one-byte block, so that any element access is out of bounds) */
	ep_t *ps = malloc(n ? n * sizeof(ep_t) : 1), *rs = malloc(n ? n * sizeof(ep_t) : 1); bn_t *ks = malloc(n ? n * sizeof(bn_t) : 1); dig_t *ds = malloc(n ? n * sizeof(dig_t) : 1);
	for (size_t i = 0; i < n; i++) { ep_new(ps[i]); ep_new(rs[i]); bn_new(ks[i]); ep_mul_dig(ps[i], g, (dig_t)(i + 2)); bn_set_dig(ks[i], (dig_t)(3 * i + 1)); if (i == 1) bn_zero(ks[i]); ds[i] = (dig_t)(i == 2 ? 0 : 5 * i + 1); if (i == 1) ep_set_infty(ps[i]); }
	vf_reseed(); VF_TRY(th, ep_mul_sim_lot(r, ps, (const bn_t *)ks, n)); transitions++; if (th) vf_fail(NULL, "ep_mul_sim_lot(n=%zu) raised %d", n, th);
	VF_TRY(th, ep_mul_sim_dig(r, ps, ds, n)); transitions++; if (th) vf_fail(NULL, "ep_mul_sim_dig(n=%zu) raised %d", n, th);
	VF_TRY(th, ep_norm_sim(rs, (const ep_t *)ps, (int)n)); transitions++; if (th) vf_fail(NULL, "ep_norm_sim(n=%zu) raised %d", n, th);
	{ fp_t *as = malloc(n ? n * sizeof(fp_t) : 1), *bs = malloc(n ? n * sizeof(fp_t) : 1); for (size_t i = 0; i < n; i++) { fp_new(as[i]); fp_new(bs[i]); fp_set_dig(as[i], (dig_t)(i + 2)); } VF_TRY(th, fp_inv_sim(bs, (const fp_t *)as, (int)n)); transitions++; if (th) vf_fail(NULL, "fp_inv_sim(n=%zu) raised %d", n, th); free(as); free(bs); }
#define INV_SIM(T, F) { T *as = malloc(n ? n * sizeof(T) : 1), *bs = malloc(n ? n * sizeof(T) : 1); for (size_t i = 0; i < n; i++) { T##_null(as[i]); T##_new(as[i]); T##_new(bs[i]); F##_set_dig(as[i], (dig_t)(i + 2)); } VF_TRY(th, F##_inv_sim(bs, (const T *)as, (int)n)); transitions++; if (th) vf_fail(NULL, #F "_inv_sim(n=%zu) raised %d", n, th); free(as); free(bs); }
#define fp3_t_null(x) fp3_null(x)
#define fp3_t_new(x) fp3_new(x)
#define fp4_t_null(x) fp4_null(x)
#define fp4_t_new(x) fp4_new(x)
#define fp8_t_null(x) fp8_null(x)
#define fp8_t_new(x) fp8_new(x)
#define fp9_t_null(x) fp9_null(x)
#define fp9_t_new(x) fp9_new(x)
#define fp16_t_null(x) fp16_null(x)
#define fp16_t_new(x) fp16_new(x)
#define fb_t_null(x) fb_null(x)
#define fb_t_new(x) fb_new(x)
#if WSIZE == 64
	if (mpz_fdiv_ui(vf_p, 3) == 1) { INV_SIM(fp3_t, fp3) INV_SIM(fp9_t, fp9) }
	INV_SIM(fp4_t, fp4) INV_SIM(fp8_t, fp8) INV_SIM(fp16_t, fp16)
#if defined(WITH_FB)
	INV_SIM(fb_t, fb)
#endif
#endif
	{ bn_t *as = malloc(n ? n * sizeof(bn_t) : 1), *bs = malloc(n ? n * sizeof(bn_t) : 1); bn_t m; bn_new(m); ep_curve_get_ord(m); for (size_t i = 0; i < n; i++) { bn_new(as[i]); bn_new(bs[i]); bn_set_dig(as[i], (dig_t)(i + 2)); } VF_TRY(th, bn_mod_inv_sim(bs, (const bn_t *)as, m, (int)n)); transitions++; if (th) vf_fail(NULL, "bn_mod_inv_sim(n=%zu) raised %d", n, th); free(as); free(bs); }
#if defined(WITH_EPX) && WSIZE == 64
	if (n == 0) { /* the curves over F_p^3, F_p^4, F_p^8: empty arrays need no curve; every element access is out of bounds (one-byte blocks) */
		dig_t *d0 = malloc(1); bn_t *k0 = malloc(1);
#define EMPTY(N) { ep##N##_t rr, *p0 = malloc(1), *r0 = malloc(1); ep##N##_null(rr); ep##N##_new(rr); VF_TRY(th, ep##N##_mul_sim_dig(rr, (const ep##N##_t *)p0, d0, 0)); transitions++; if (th) vf_fail(NULL, "ep" #N "_mul_sim_dig(n=0) raised %d", th); else if (!ep##N##_is_infty(rr)) vf_fail(NULL, "ep" #N "_mul_sim_dig(n=0) is not the identity"); \
			VF_TRY(th, ep##N##_mul_sim_lot(rr, (const ep##N##_t *)p0, (const bn_t *)k0, 0)); transitions++; if (th) vf_fail(NULL, "ep" #N "_mul_sim_lot(n=0) raised %d", th); VF_TRY(th, ep##N##_norm_sim(r0, (const ep##N##_t *)p0, 0)); transitions++; if (th) vf_fail(NULL, "ep" #N "_norm_sim(n=0) raised %d", th); free(p0); free(r0); ep##N##_free(rr); }
		EMPTY(3) EMPTY(4) EMPTY(8)
		free(d0); free(k0); }
#endif
#if defined(WITH_EPX) && WSIZE == 64 && FP_PRIME == 256
	if (ep_curve_is_pairf()) { VF_TRY(th, ep2_curve_set_twist(cid == SM9_P256 ? RLC_EP_MTYPE : RLC_EP_DTYPE)); e2_cid = cid;
		ep2_t g2, r2; ep2_new(g2); ep2_new(r2); ep2_curve_get_gen(g2);
		ep2_t *p2 = malloc(n ? n * sizeof(ep2_t) : 1), *r2s = malloc(n ? n * sizeof(ep2_t) : 1);
		for (size_t i = 0; i < n; i++) { ep2_new(p2[i]); ep2_new(r2s[i]); ep2_mul_dig(p2[i], g2, (dig_t)(i + 2)); if (i == 1) ep2_set_infty(p2[i]); }
		vf_reseed(); VF_TRY(th, ep2_mul_sim_lot(r2, p2, (const bn_t *)ks, n)); transitions++; if (th) vf_fail(NULL, "ep2_mul_sim_lot(n=%zu) raised %d", n, th);
		VF_TRY(th, ep2_mul_sim_dig(r2, p2, ds, n)); transitions++; if (th) vf_fail(NULL, "ep2_mul_sim_dig(n=%zu) raised %d", n, th);
		VF_TRY(th, ep2_norm_sim(r2s, (const ep2_t *)p2, (int)n)); transitions++; if (th) vf_fail(NULL, "ep2_norm_sim(n=%zu) raised %d", n, th);
		{ fp2_t *as = malloc(n ? n * sizeof(fp2_t) : 1), *bs = malloc(n ? n * sizeof(fp2_t) : 1); for (size_t i = 0; i < n; i++) { fp2_new(as[i]); fp2_new(bs[i]); fp2_set_dig(as[i], (dig_t)(i + 2)); } VF_TRY(th, fp2_inv_sim(bs, (const fp2_t *)as, (int)n)); transitions++; if (th) vf_fail(NULL, "fp2_inv_sim(n=%zu) raised %d", n, th); free(as); free(bs); }
		/* multi-pairing with n pairs */
		{ fp12_t e; fp12_new(e); VF_TRY(th, pp_map_sim_oatep_k12(e, (const ep_t *)ps, (const ep2_t *)p2, (int)n)); transitions++; if (th) vf_fail(NULL, "pp_map_sim_oatep_k12(m=%zu) raised %d", n, th); }
		free(p2); free(r2s); }
#endif
	free(ps); free(rs); free(ks); free(ds);
}

/* ---------------------------------------------------------------- rec: fn, k, w, length delta */
enum { RF_WIN, RF_SLW, RF_NAF, RF_REG, RF_JSF, RF_LAST };
static const char *RFN[] = {"bn_rec_win", "bn_rec_slw", "bn_rec_naf", "bn_rec_reg", "bn_rec_jsf"};
static void do_rec(vf_case *c) {
	int fn = (int)mpz_get_si(c->v[0]); size_t w = mpz_get_ui(c->v[2]); long delta = mpz_get_si(c->v[3]); int th;
	bn_st *k = heap_bn(), *l = heap_bn(); if (!vf_bn_set(k, c->v[1])) { free(k); free(l); return; }
	size_t bits = (size_t)bn_bits(k), need;
	switch (fn) { case RF_WIN: need = (bits + w - 1) / w; break; case RF_SLW: need = bits; break; case RF_NAF: need = bits + 1; break; case RF_REG: need = ((bits ? bits : 8) + w - 1) / (w - 1) + 1; break; default: need = 2 * (bits + 1); break; }
	long ln = (long)need + delta; if (ln < 0) { free(k); free(l); return; }
	size_t len = (size_t)ln; uint8_t *buf = malloc(len ? len : 1);
	switch (fn) {
		case RF_WIN: VF_TRY(th, bn_rec_win(buf, &len, k, w)); break;
		case RF_SLW: VF_TRY(th, bn_rec_slw(buf, &len, k, w)); break;
		case RF_NAF: VF_TRY(th, bn_rec_naf((int8_t *)buf, &len, k, w)); break;
		case RF_REG: VF_TRY(th, bn_rec_reg((int8_t *)buf, &len, k, bits ? bits : 8, w)); break; /* n = bit length of the order: never 0 */
		default: bn_rsh(l, k, 1); VF_TRY(th, bn_rec_jsf((int8_t *)buf, &len, k, l)); break;
	}
	transitions++;
	if (!th && len > (size_t)ln) vf_fail(NULL, "%s: reports %zu digits written into a buffer of %ld", RFN[fn], len, ln);
	free(buf); free(k); free(l);
}

/* ---------------------------------------------------------------- output parameters documented as "can be NULL" */
#include <sys/wait.h>
#include <unistd.h>
#define L41 "L41-gcd-ext-first-cofactor-null"
/* null: variant (0 basic, 1 lehme, 2 binar, 3 dig), which (1: e = NULL, 2: d = NULL, 3: both), a, b.
 * The call runs in a forked child (a null dereference must not take the enumeration down); the parent judges the exit status and, for the
 * variants that survive, the child itself checks gcd and the cofactor that was requested against the call with both cofactors. */
static void do_null(vf_case *c) {
	int var = (int)mpz_get_si(c->v[0]), which = (int)mpz_get_si(c->v[1]); static const char *VN[] = {"bn_gcd_ext_basic", "bn_gcd_ext_lehme", "bn_gcd_ext_binar", "bn_gcd_ext_dig"};
	fflush(stdout); fflush(stderr); pid_t pid = fork();
	if (pid == 0) { signal(SIGSEGV, SIG_DFL); signal(SIGBUS, SIG_DFL); signal(SIGABRT, SIG_DFL); signal(SIGALRM, SIG_DFL); alarm(0); int fd = open("/dev/null", O_WRONLY); if (fd >= 0) { dup2(fd, 2); } bn_t a, b, g, d, e, g2, d2, e2; bn_null(a); bn_null(b); bn_null(g); bn_null(d); bn_null(e); bn_null(g2); bn_null(d2); bn_null(e2); int th = 0, bad = 0;
		RLC_TRY { bn_new(a); bn_new(b); bn_new(g); bn_new(d); bn_new(e); bn_new(g2); bn_new(d2); bn_new(e2); vf_bn_set(a, c->v[2]); vf_bn_set(b, c->v[3]); dig_t bd = b->used ? b->dp[0] : 0;
			bn_st *pd = (which & 2) ? NULL : d, *pe = (which & 1) ? NULL : e;
			switch (var) { case 0: bn_gcd_ext_basic(g2, d2, e2, a, b); bn_gcd_ext_basic(g, pd, pe, a, b); break; case 1: bn_gcd_ext_lehme(g2, d2, e2, a, b); bn_gcd_ext_lehme(g, pd, pe, a, b); break; case 2: bn_gcd_ext_binar(g2, d2, e2, a, b); bn_gcd_ext_binar(g, pd, pe, a, b); break; default: bn_gcd_ext_dig(g2, d2, e2, a, bd); bn_gcd_ext_dig(g, pd, pe, a, bd); break; }
			if (bn_cmp(g, g2) != RLC_EQ) bad = 1; if (pd && bn_cmp(d, d2) != RLC_EQ) bad = 1; if (pe && bn_cmp(e, e2) != RLC_EQ) bad = 1;
		} RLC_CATCH_ANY { th = 1; } RLC_FINALLY { }
		_exit(th ? 35 : bad ? 34 : 0); }
	int st = 0; waitpid(pid, &st, 0); transitions++; if (getenv("VF_DEBUG")) fprintf(stderr, "dbg null var %d which %d: signaled %d sig %d exit %d\n", var, which, WIFSIGNALED(st), WIFSIGNALED(st) ? WTERMSIG(st) : 0, WIFEXITED(st) ? WEXITSTATUS(st) : -1);
	const char *what = which == 1 ? "e = NULL" : which == 2 ? "d = NULL" : "d = e = NULL";
	if (WIFSIGNALED(st) || (WIFEXITED(st) && WEXITSTATUS(st) != 0 && WEXITSTATUS(st) != 35 && WEXITSTATUS(st) != 34)) vf_fail((which & 2) ? L41 : NULL, "%s with %s (documented: \"can be NULL\") dies (%s %d): null dereference", VN[var], what, WIFSIGNALED(st) ? "signal" : "sanitizer exit", WIFSIGNALED(st) ? WTERMSIG(st) : WEXITSTATUS(st));
	else if (WEXITSTATUS(st) == 34) vf_fail(NULL, "%s with %s returns another gcd / cofactor than the call with both cofactors", VN[var], what);
	else if (WEXITSTATUS(st) == 35) vf_stat_add("x.null_cofactor_call_raised", 1);
}

static void run_case(vf_case *c) {
	vf_nontrivial();
	if (!strcmp(c->op, "bnsize")) do_bnsize(c);
	else if (!strcmp(c->op, "smul")) { long fam = mpz_get_si(c->v[0]); if (fam == 0) do_smul_ep(c);
#if defined(WITH_EPX) && WSIZE == 64 && FP_PRIME == 256
		else if (fam == 1) do_smul_ep2(c);
#endif
#if defined(WITH_EB) && WSIZE == 64
		else if (fam == 2) do_smul_eb(c);
#endif
	}
	else if (!strcmp(c->op, "arr")) do_arr(c); else if (!strcmp(c->op, "rec")) do_rec(c); else if (!strcmp(c->op, "null")) do_null(c); else vf_fail(NULL, "unknown op");
}

static vf_case K;
/* scalars that are 0 mod n, have zero digits / zero windows, sit at the length boundaries or exceed them */
static void edge_scalars(vf_dom *d, const mpz_t n) {
	mpz_t t, u; mpz_inits(t, u, NULL); size_t nb = mpz_sizeinbase(n, 2);
	for (long i = -2; i <= 2; i++) vf_dom_add_si(d, i);
	for (long m = 1; m <= 3; m++) { mpz_mul_si(t, n, m); vf_dom_add_near(d, t, 0); mpz_neg(t, t); vf_dom_add(d, t); }
	for (size_t j = 1; j <= nb + 2 * VF_DIGB + 1; j++) { if (j > 8 && j < nb - 2 && (j % VF_DIGB) > 1 && (j % VF_DIGB) < VF_DIGB - 1 && (j % 4)) continue; mpz_set_ui(t, 1); mpz_mul_2exp(t, t, j); vf_dom_add(d, t); mpz_sub_ui(t, t, 1); vf_dom_add(d, t); mpz_add_ui(t, t, 2); vf_dom_add(d, t); }
	/* zero digits inside: n and n-1 with each digit cleared; a single non-zero digit at each position */
	for (size_t j = 0; j * VF_DIGB < nb; j++) { mpz_set(t, n); mpz_set_ui(u, 1); mpz_mul_2exp(u, u, VF_DIGB); mpz_sub_ui(u, u, 1); mpz_mul_2exp(u, u, j * VF_DIGB); mpz_com(u, u); mpz_and(t, t, u); mpz_abs(t, t); vf_dom_add(d, t);
		mpz_set_ui(t, 0xA5); mpz_mul_2exp(t, t, j * VF_DIGB); vf_dom_add(d, t); mpz_setbit(t, nb - 1); vf_dom_add(d, t); }
	/* long runs of zero windows and ones */
	mpz_set_ui(t, 1); mpz_mul_2exp(t, t, nb - 1); mpz_add_ui(t, t, 1); vf_dom_add(d, t);
	mpz_set_ui(t, 1); mpz_mul_2exp(t, t, nb); mpz_sub_ui(t, t, 1); vf_dom_add(d, t);
	mpz_set_ui(t, 1); mpz_mul_2exp(t, t, 4 * nb); vf_dom_add(d, t);
	if (!tiny) { mpz_set_ui(t, 1); mpz_mul_2exp(t, t, (unsigned long)RLC_BN_BITS - 1); vf_dom_add(d, t); }
	mpz_clears(t, u, NULL); vf_dom_uniq(d);
}

static void enumerate(void) {
	vf_case_init(&K);
	mpz_t t; mpz_init(t);
	if (vf_bound_on("null-output-parameters")) { static const long AB[][2] = {{0, 0}, {0, 5}, {5, 0}, {12, 18}, {18, 12}, {17, 1}, {1, 17}, {255, 255}, {0x7fff, 0x1234}, {35, 15}};
		for (int var = 0; var < 4; var++) for (int which = 1; which <= 3; which++) for (unsigned i = 0; i < 10; i++) if (vf_mine()) { K.op = "null"; K.n = 4; mpz_set_si(K.v[0], var); mpz_set_si(K.v[1], which); mpz_set_si(K.v[2], AB[i][0]); mpz_set_si(K.v[3], AB[i][1]); vf_run(&K); }
		vf_bound_done("null-output-parameters"); }
	if (vf_bound_on("bn-size-sweep")) {
		long cap = (long)RLC_BN_SIZE * RLC_DIG;
		for (int fn = 0; fn < BF_LAST; fn++) {
			long unit = fn == BF_READBIN ? 8 : fn == BF_READRAW ? RLC_DIG : fn == BF_READSTR16 ? 4 : fn == BF_READSTR10 ? 3 : 1;
			long lo = 0, hi = (cap + 3 * RLC_DIG + 70) / unit + 2;
			for (long sz = lo; sz <= hi; sz++) { if (unit == 1 && sz > 3 * RLC_DIG && sz < cap - 3 * RLC_DIG - 6 && (sz % 16) > 1) continue; if (vf_mine()) { K.op = "bnsize"; K.n = 2; mpz_set_si(K.v[0], fn); mpz_set_si(K.v[1], sz); vf_run(&K); } } }
		vf_bound_done("bn-size-sweep");
	}
	if (vf_bound_on("recoding-buffer-sweep")) {
		vf_dom S; vf_dom_init(&S); mpz_set_ui(t, 1); mpz_mul_2exp(t, t, tiny ? 16 : 200); mpz_sub_ui(t, t, 1); edge_scalars(&S, t);
		for (int fn = 0; fn < RF_LAST; fn++) for (int j = 0; j < S.n && !vf_expired(); j++) { if (mpz_sgn(S.v[j]) < 0 || mpz_sizeinbase(S.v[j], 2) > (size_t)(tiny ? 40 : 420)) continue; if (!vf_tier && (j % 3)) continue;
			for (size_t w = 2; w <= (fn == RF_JSF ? 2 : 6); w++) for (long delta = -3; delta <= 1; delta++) if (vf_mine()) { K.op = "rec"; K.n = 4; mpz_set_si(K.v[0], fn); mpz_set(K.v[1], S.v[j]); mpz_set_ui(K.v[2], w); mpz_set_si(K.v[3], delta); vf_run(&K); } }
		vf_dom_clear(&S); vf_bound_done("recoding-buffer-sweep");
	}
#if WSIZE != 64
	{ int cids[] = {1, 2, 3, 0, 5, 7};
		for (unsigned ci = 0; ci < 6; ci++) { char bn[48]; snprintf(bn, sizeof bn, "edge-scalars-tiny-curve-%d", cids[ci]); if (!vf_bound_on(bn)) continue; if (!select_curve(cids[ci])) continue;
			vf_dom S; vf_dom_init(&S); edge_scalars(&S, RN);
			for (int j = 0; j < S.n && !vf_expired(); j++) if (vf_mine()) { K.op = "smul"; K.n = 3; mpz_set_si(K.v[0], 0); mpz_set_si(K.v[1], cids[ci]); mpz_set(K.v[2], S.v[j]); vf_run(&K); }
			size_t ns[] = {0, 1, 2, 3, 17}; for (unsigned i = 0; i < 5; i++) if (vf_mine()) { K.op = "arr"; K.n = 2; mpz_set_si(K.v[0], cids[ci]); mpz_set_ui(K.v[1], ns[i]); vf_run(&K); }
			vf_dom_clear(&S); vf_bound_done(bn); } }
#else
#if FP_PRIME == 256
	{ static const int CIDS[] = {NIST_P256, BSI_P256, SECG_K256, SM2_P256, BN_P256, SM9_P256};
		for (unsigned ci = 0; ci < 6; ci++) { char bn[48]; snprintf(bn, sizeof bn, "edge-scalars-curve-%d", CIDS[ci]); if (!vf_bound_on(bn)) continue; if (!select_curve(CIDS[ci])) continue;
			vf_dom S; vf_dom_init(&S); edge_scalars(&S, RN);
			for (int j = 0; j < S.n && !vf_expired(); j++) { if (!vf_tier && ci && ci != 2 && ci != 4 && (j % 3)) continue; if (vf_mine()) { K.op = "smul"; K.n = 3; mpz_set_si(K.v[0], 0); mpz_set_si(K.v[1], CIDS[ci]); mpz_set(K.v[2], S.v[j]); vf_run(&K);
				if (CIDS[ci] == BN_P256 || (CIDS[ci] == SM9_P256 && vf_tier)) { mpz_set_si(K.v[0], 1); vf_run(&K); } } }
			size_t ns[] = {0, 1, 2, 3, 17}; for (unsigned i = 0; i < 5; i++) if (vf_mine()) { K.op = "arr"; K.n = 2; mpz_set_si(K.v[0], CIDS[ci]); mpz_set_ui(K.v[1], ns[i]); vf_run(&K); }
			vf_dom_clear(&S); vf_bound_done(bn); } }
#endif
#if defined(WITH_EB)
	{ int ebc[] = {NIST_B283, NIST_K283};
		for (unsigned ci = 0; ci < 2; ci++) { char bn[48]; snprintf(bn, sizeof bn, "edge-scalars-binary-curve-%d", ebc[ci]); if (!vf_bound_on(bn)) continue; int th; VF_TRY(th, eb_param_set(ebc[ci])); if (th) continue;
			bn_t n; bn_new(n); eb_curve_get_ord(n); vf_bn_get(t, n); vf_dom S; vf_dom_init(&S); edge_scalars(&S, t);
			for (int j = 0; j < S.n && !vf_expired(); j++) { if (!vf_tier && (j % 2)) continue; if (vf_mine()) { K.op = "smul"; K.n = 3; mpz_set_si(K.v[0], 2); mpz_set_si(K.v[1], ebc[ci]); mpz_set(K.v[2], S.v[j]); vf_run(&K); } }
			vf_dom_clear(&S); vf_bound_done(bn); } }
#endif
#endif
	vf_stat_add("transitions", transitions);
	mpz_clear(t);
}

VF_MAIN()
