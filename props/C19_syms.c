/*
 * C19 (d), structural side -- every writable object of the MULTI=PTHREAD library is either thread-local or on a justified list.
 *
 * The schedule exploration (C19_mt.c) decides that the threads' observations do not depend on the interleaving; what it can reach is bounded by
 * the programs it runs. This job closes the other side: it ENUMERATES every data object of librelic_s.a (objdump -t of the archive this harness was
 * linked against) that lives in a writable, non-thread-local section (.data*, .bss*, not .tdata / .tbss / .data.rel.ro) and requires each one to be
 * on the list below, i.e. known to be process-wide by design or never written. A scratch buffer or cache hoisted to file scope, a lazily built table,
 * a "static int initialised" flag all appear here on every run, whatever the threads happen to execute.
 * Case arg: index of the object in the sorted list (the replay re-scans the archive).
 */
#include "vf_relic.h"
#include <unistd.h>

typedef struct { char member[96], section[48], name[96]; unsigned long size; } wsym;
static wsym *W = NULL; static int nw = 0, ntls = 0, scanned = 0; static unsigned long long transitions = 0;
static const struct { const char *name, *why; } ALLOWED[] = {
	{"core_thread_initializer", "process-wide by design: hook installed once by core_set_thread_initializer before threads use the library"},
	{"core_init_ptr", "argument of that hook, same life cycle"},
	{"memset_v.0", "volatile function pointer to memset used to wipe key material; initialised statically, never assigned"},
	{"SHA384_H0", "initial hash value, only ever read (declared without const in the RFC 6234 code)"},
	{"SHA512_H0", "initial hash value, only ever read (declared without const in the RFC 6234 code)"},
	{"SHA224_H0", "initial hash value, only ever read"}, {"SHA256_H0", "initial hash value, only ever read"},
};
static int cmp(const void *a, const void *b) { const wsym *x = a, *y = b; int c = strcmp(x->member, y->member); return c ? c : strcmp(x->name, y->name); }
static void scan(void) {
	if (scanned) return; scanned = 1; char exe[600], lib[700], cmd[800]; ssize_t n = readlink("/proc/self/exe", exe, sizeof exe - 1); if (n <= 0) { fprintf(stderr, "cannot locate the harness binary\n"); exit(2); } exe[n] = 0; char *sl = strrchr(exe, '/'); if (sl) *sl = 0;
	snprintf(lib, sizeof lib, "%s/lib/librelic_s.a", exe); if (access(lib, R_OK)) { fprintf(stderr, "library %s not found\n", lib); exit(2); }
	snprintf(cmd, sizeof cmd, "objdump -t '%s' 2>/dev/null", lib); FILE *f = popen(cmd, "r"); if (!f) { fprintf(stderr, "objdump not available\n"); exit(2); }
	char line[1024], member[96] = "?"; int cap = 0, nobj = 0;
	while (fgets(line, sizeof line, f)) { size_t L = strlen(line); while (L && (line[L - 1] == '\n' || line[L - 1] == ' ')) line[--L] = 0;
		char *colon = strstr(line, ":     file format"); if (colon) { *colon = 0; snprintf(member, sizeof member, "%s", line); nobj++; continue; }
		/* symbol lines: ADDR FLAGS(7 chars) SECTION<tab>SIZE NAME ; data objects carry the flag 'O' */
		if (L < 26 || line[16] != ' ') continue; char flags[8]; memcpy(flags, line + 17, 7); flags[7] = 0;
		char sec[48], name[96]; unsigned long size; if (sscanf(line + 25, "%47s %lx %95s", sec, &size, name) != 3) continue;
		if (!strncmp(sec, ".tdata", 6) || !strncmp(sec, ".tbss", 5)) { if (size) ntls++; continue; } /* thread-local objects carry the TLS type, not 'O' */ if (!strchr(flags, 'O')) continue;
		int writable = (!strncmp(sec, ".data", 5) && strncmp(sec, ".data.rel.ro", 12)) || !strncmp(sec, ".bss", 4) || !strcmp(sec, "*COM*"); if (!writable || size == 0) continue;
		if (nw == cap) { cap = cap ? cap * 2 : 64; W = realloc(W, sizeof(wsym) * (size_t)cap); } snprintf(W[nw].member, sizeof W[nw].member, "%s", member); snprintf(W[nw].section, sizeof W[nw].section, "%s", sec); snprintf(W[nw].name, sizeof W[nw].name, "%s", name); W[nw].size = size; nw++; }
	pclose(f); if (nobj < 100) { fprintf(stderr, "objdump listed only %d members of %s\n", nobj, lib); exit(2); }
	qsort(W, (size_t)nw, sizeof(wsym), cmp); vf_stat_add("x.archive_members_scanned", (unsigned long long)nobj); vf_stat_add("x.thread_local_objects", (unsigned long long)ntls);
}
static void harness_setup(void) { }
static void run_case(vf_case *c) {
	vf_nontrivial(); scan(); long k = mpz_get_si(c->v[0]); if (k < 0 || k >= nw) return; transitions++;
#if MULTI == PTHREAD || MULTI == OPENMP
	for (unsigned i = 0; i < sizeof ALLOWED / sizeof *ALLOWED; i++) if (!strcmp(W[k].name, ALLOWED[i].name)) { vf_statf_add(1, "x.allowed.%s", W[k].name); return; }
	vf_fail(NULL, "%s: the multi-threaded library keeps the writable object '%s' (%lu bytes, section %s) outside the per-thread context: shared mutable state", W[k].member, W[k].name, W[k].size, W[k].section);
#else
	vf_fail(NULL, "this job must run in a MULTI build");
#endif
}
static vf_case K;
static void enumerate(void) {
	vf_case_init(&K); scan();
	if (vf_bound_on("every-writable-object-of-the-archive")) { for (int k = 0; k < nw; k++) if (vf_mine()) { K.op = "sym"; K.n = 1; mpz_set_si(K.v[0], k); vf_stat_add("states", 1); vf_run(&K); } vf_bound_done("every-writable-object-of-the-archive"); }
	if (ntls < 1) vf_fail(NULL, "no thread-local object found in the archive: the scan does not see the context pointers");
	vf_stat_add("transitions", transitions);
}
VF_MAIN()
