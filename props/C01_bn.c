/*
 * C01 -- multi-precision integer arithmetic is exact.
 *
 * Real bn_* code on every enumerated operand tuple, compared with GMP on the values read through the
 * raw representation (dp/used/sign).  Generic over the digit width: compiled for W8 (complete 16-bit
 * operand spaces), W16 and W64 (alphabet products).
 *
 * Per case: every operation is run twice with two different poison patterns in the digits above `used`
 * of the inputs and in the output object; inputs must be unchanged, outputs in normal form.
 */
#include "vf_relic.h"

static bn_t A, B, C, D, SA, SB;
static mpz_t za, zb, ze, zg, zq, zr;
static int pat; /* poison pattern of the current pass */

static void harness_setup(void) {
	if (core_init() != RLC_OK) { fprintf(stderr, "core_init failed\n"); exit(2); }
	bn_new(A); bn_new(B); bn_new(C); bn_new(D); bn_new(SA); bn_new(SB);
	mpz_inits(za, zb, ze, zg, zq, zr, NULL);
	vf_reseed();
}

static size_t ndig(const mpz_t z) { return mpz_sgn(z) ? (mpz_sizeinbase(z, 2) + VF_DIGB - 1) / VF_DIGB : 1; }

/* junk in the output object so a routine that does not write all of it is seen */
static void junk(bn_t c) {
	c->used = 3 < RLC_BN_SIZE ? 3 : 1; c->sign = pat ? RLC_NEG : RLC_POS;
	for (int i = 0; i < (int)RLC_BN_SIZE; i++) c->dp[i] = (dig_t)(pat ? (dig_t)0x5A5A5A5A5A5A5A5AULL : (dig_t)0x33);
}
static int same(const bn_t x, const bn_t s) {
	return x->used == s->used && x->sign == s->sign && memcmp(x->dp, s->dp, (size_t)x->used * sizeof(dig_t)) == 0;
}
static void load(bn_t x, const mpz_t z, bn_t snap) {
	vf_bn_set(x, z); vf_bn_poison(x, pat); bn_copy(snap, x);
}
/* compare a bn result with the expected integer */
static int expect_bn(const char *what, const bn_t got, const mpz_t exp, const char *kf) {
	vf_bn_get(zg, got);
	if (mpz_cmp(zg, exp) != 0) { char b[600]; gmp_snprintf(b, sizeof b, "%s: expected %Zx got %Zx (pass %d)", what, exp, zg, pat); vf_fail(kf, "%s", b); return 0; }
	if (!vf_bn_normal(got)) { vf_fail(kf, "%s: result not in normal form (used=%d sign=%d top=%llx, pass %d)", what, (int)got->used, (int)got->sign, (unsigned long long)got->dp[got->used > 0 ? got->used - 1 : 0], pat); return 0; }
	return 1;
}
/* outcome policy for results near the capacity: need = digits the exact result has, room = digits the
 * routine may legitimately need as scratch.  Returns 1 if the call must succeed, 0 if it must throw,
 * -1 if either is acceptable. */
static int must_succeed(size_t need, size_t room) {
	if (need > RLC_BN_SIZE) return 0;
	if (room <= RLC_BN_SIZE) return 1;
	return -1;
}
static int outcome(const char *what, int thrown, int pol, const char *kf) {
	if (thrown && pol == 1) { vf_fail(kf, "%s: raised error %d although the result fits the precision", what, thrown); return 0; }
	if (!thrown && pol == 0) { vf_fail(kf, "%s: result does not fit the precision but no error was raised", what); return 0; }
	return !thrown;
}

#define IS(o) (strcmp(op, o) == 0)

static void one_pass(vf_case *c) {
	const char *op = c->op;
	int th, al = 0;
	mpz_set(za, c->v[0]);
	if (c->n > 1) mpz_set(zb, c->v[1]);
	long k = c->n > 1 ? mpz_get_si(c->v[1]) : 0; /* small second argument where applicable */
	if (c->n > 2) al = (int)mpz_get_si(c->v[2]);

	/* ---------------- binary: c = a op b, alias al: 0 none, 1 c==a, 2 c==b, 3 a==b (values equal), 4 c==a==b */
	if (IS("bn_add") || IS("bn_sub") || IS("bn_mul_basic") || IS("bn_mul_comba") || IS("bn_mul_karat")) {
		bn_st *pa = A, *pb = B, *pc = C;
		if (al >= 3 && mpz_cmp(za, zb) != 0) return;
		load(A, za, SA); load(B, zb, SB);
		if (al == 3 || al == 4) pb = A;
		if (al == 1 || al == 4) pc = A; else if (al == 2) pc = B; else junk(C);
		size_t need, room;
		if (IS("bn_add")) { mpz_add(ze, za, zb); room = (ndig(za) > ndig(zb) ? ndig(za) : ndig(zb)) + 1; }
		else if (IS("bn_sub")) { mpz_sub(ze, za, zb); room = (ndig(za) > ndig(zb) ? ndig(za) : ndig(zb)) + 1; }
		else { mpz_mul(ze, za, zb); room = ndig(za) + ndig(zb) + 1; }
		need = ndig(ze);
		if (IS("bn_add")) VF_TRY(th, bn_add(pc, pa, pb));
		else if (IS("bn_sub")) VF_TRY(th, bn_sub(pc, pa, pb));
		else if (IS("bn_mul_basic")) VF_TRY(th, bn_mul_basic(pc, pa, pb));
		else if (IS("bn_mul_comba")) VF_TRY(th, bn_mul_comba(pc, pa, pb));
		else VF_TRY(th, bn_mul_karat(pc, pa, pb));
		if (!outcome(op, th, must_succeed(need, room), NULL)) return;
		expect_bn(op, pc, ze, NULL);
		if (pc != A && !same(A, SA)) vf_fail(NULL, "%s: first input modified", op);
		if (pc != B && pb == B && !same(B, SB)) vf_fail(NULL, "%s: second input modified", op);
		return;
	}
	if (IS("bn_cmp") || IS("bn_cmp_abs")) {
		load(A, za, SA); load(B, zb, SB);
		int r = IS("bn_cmp") ? bn_cmp(A, B) : bn_cmp_abs(A, B);
		int e = IS("bn_cmp") ? mpz_cmp(za, zb) : mpz_cmpabs(za, zb);
		e = e < 0 ? RLC_LT : e > 0 ? RLC_GT : RLC_EQ;
		if (r != e) vf_fail(NULL, "%s: expected %d got %d", op, e, r);
		if (al == 3 && mpz_cmp(za, zb) == 0) { r = IS("bn_cmp") ? bn_cmp(A, A) : bn_cmp_abs(A, A); if (r != RLC_EQ) vf_fail(NULL, "%s(a,a) != EQ", op); }
		if (!same(A, SA) || !same(B, SB)) vf_fail(NULL, "%s: input modified", op);
		return;
	}
	/* ---------------- division: alias codes 0 none, 1 q==a, 2 q==b, 3 r==a, 4 r==b, 5 q==a&&r==b, 6 q==b&&r==a */
	if (IS("bn_div") || IS("bn_div_rem")) {
		load(A, za, SA); load(B, zb, SB);
		bn_st *pq = C, *pr = D;
		junk(C); junk(D);
		if (al == 1 || al == 5) pq = A; if (al == 2 || al == 6) pq = B;
		if (al == 3 || al == 6) pr = A; if (al == 4 || al == 5) pr = B;
		if (IS("bn_div")) { if (al > 2) return; VF_TRY(th, bn_div(pq, A, B)); }
		else VF_TRY(th, bn_div_rem(pq, pr, A, B));
		if (mpz_sgn(zb) == 0) { if (!th) vf_fail(NULL, "%s: zero divisor accepted", op); return; }
		/* scratch of the division is dividend length + 1: a dividend filling the whole capacity may be refused */
		if (th) { if (ndig(za) + 1 > RLC_BN_SIZE) return; vf_fail(NULL, "%s: raised error %d", op, th); return; }
		mpz_fdiv_qr(zq, zr, za, zb);
		const char *kf = NULL;
		int ok = expect_bn(IS("bn_div") ? "bn_div.q" : "bn_div_rem.q", pq, zq, kf);
		if (ok && IS("bn_div_rem")) expect_bn("bn_div_rem.r", pr, zr, kf);
		if (pq != A && pr != A && !same(A, SA)) vf_fail(NULL, "%s: dividend modified", op);
		if (pq != B && pr != B && !same(B, SB)) vf_fail(NULL, "%s: divisor modified", op);
		return;
	}
	/* ---------------- unary */
	if (IS("bn_sqr_basic") || IS("bn_sqr_comba") || IS("bn_sqr_karat") || IS("bn_neg") || IS("bn_abs") || IS("bn_dbl") || IS("bn_hlv") || IS("bn_copy")) {
		al = (int)k; /* second arg is the alias flag: 0 none, 1 c==a */
		load(A, za, SA);
		bn_st *pc = al ? A : C; if (!al) junk(C);
		size_t room = ndig(za) + 1; const char *kf = NULL;
		if (op[3] == 's') { mpz_mul(ze, za, za); room = 2 * ndig(za) + 1; }
		else if (IS("bn_neg")) mpz_neg(ze, za);
		else if (IS("bn_abs")) mpz_abs(ze, za);
		else if (IS("bn_dbl")) mpz_mul_2exp(ze, za, 1);
		else if (IS("bn_hlv")) { mpz_fdiv_q_2exp(ze, za, 1); if (mpz_sgn(za) < 0 && mpz_odd_p(za)) kf = "L10-shift-negative-truncates"; }
		else mpz_set(ze, za);
		if (IS("bn_sqr_basic")) VF_TRY(th, bn_sqr_basic(pc, A));
		else if (IS("bn_sqr_comba")) VF_TRY(th, bn_sqr_comba(pc, A));
		else if (IS("bn_sqr_karat")) VF_TRY(th, bn_sqr_karat(pc, A));
		else if (IS("bn_neg")) VF_TRY(th, bn_neg(pc, A));
		else if (IS("bn_abs")) VF_TRY(th, bn_abs(pc, A));
		else if (IS("bn_dbl")) VF_TRY(th, bn_dbl(pc, A));
		else if (IS("bn_hlv")) VF_TRY(th, bn_hlv(pc, A));
		else VF_TRY(th, bn_copy(pc, A));
		if (!outcome(op, th, must_succeed(ndig(ze), room), NULL)) return;
		expect_bn(op, pc, ze, kf);
		if (pc != A && !same(A, SA)) vf_fail(NULL, "%s: input modified", op);
		return;
	}
	if (IS("bn_query")) { /* bits, ham, is_even, is_zero, sign, get_dig */
		load(A, za, SA);
		size_t eb = mpz_sgn(za) ? mpz_sizeinbase(za, 2) : 0;
		if (bn_bits(A) != eb) vf_fail(NULL, "bn_bits: expected %zu got %zu", eb, bn_bits(A));
		mpz_abs(ze, za);
		if (bn_ham(A) != mpz_popcount(ze)) vf_fail(NULL, "bn_ham: expected %lu got %lu", (unsigned long)mpz_popcount(ze), (unsigned long)bn_ham(A));
		if (bn_is_even(A) != (mpz_even_p(za) ? 1 : 0)) vf_fail(NULL, "bn_is_even wrong");
		if (bn_is_zero(A) != (mpz_sgn(za) == 0)) vf_fail(NULL, "bn_is_zero wrong");
		if (bn_sign(A) != (mpz_sgn(za) < 0 ? RLC_NEG : RLC_POS)) vf_fail(NULL, "bn_sign wrong");
		dig_t d; bn_get_dig(&d, A);
		mpz_fdiv_r_2exp(ze, ze, VF_DIGB);
		if (mpz_cmp_ui(ze, 0) >= 0) { mpz_t t; mpz_init(t); mpz_import(t, 1, -1, sizeof(dig_t), 0, 0, &d); if (mpz_cmp(t, ze)) vf_fail(NULL, "bn_get_dig wrong"); mpz_clear(t); }
		if (!same(A, SA)) vf_fail(NULL, "query modified its input");
		return;
	}
	/* ---------------- (a, small k) */
	if (IS("bn_lsh") || IS("bn_rsh") || IS("bn_mod_2b")) {
		load(A, za, SA);
		bn_st *pc = al ? A : C; if (!al) junk(C);
		const char *kf = NULL; size_t room;
		if (IS("bn_lsh")) { mpz_mul_2exp(ze, za, (unsigned long)k); room = (mpz_sizeinbase(za, 2) + (size_t)k + VF_DIGB - 1) / VF_DIGB + 1; VF_TRY(th, bn_lsh(pc, A, (uint_t)k)); }
		else if (IS("bn_rsh")) { mpz_fdiv_q_2exp(ze, za, (unsigned long)k); room = ndig(za); if (mpz_sgn(za) < 0) { mpz_t t; mpz_init(t); mpz_fdiv_r_2exp(t, za, (unsigned long)k); if (mpz_sgn(t)) kf = "L10-shift-negative-truncates"; mpz_clear(t); } VF_TRY(th, bn_rsh(pc, A, (uint_t)k)); }
		else { mpz_fdiv_r_2exp(ze, za, (unsigned long)k); room = ndig(za); if (mpz_sgn(za) < 0 && mpz_sgn(ze)) kf = "L10-shift-negative-truncates"; VF_TRY(th, bn_mod_2b(pc, A, (int)k)); }
		if (mpz_sgn(za) == 0 && !IS("bn_lsh")) room = 1; /* bn_lsh sizes its result from the shift count alone: a zero operand may be refused */
		if (!outcome(op, th, must_succeed(ndig(ze), room), NULL)) return;
		expect_bn(op, pc, ze, kf);
		if (pc != A && !same(A, SA)) vf_fail(NULL, "%s: input modified", op);
		return;
	}
	if (IS("bn_get_bit")) {
		load(A, za, SA);
		mpz_abs(ze, za); /* magnitude semantics */
		int e = mpz_tstbit(ze, (unsigned long)k), r = bn_get_bit(A, (uint_t)k);
		if (r != e) vf_fail(NULL, "bn_get_bit(%ld): expected %d got %d", k, e, r);
		return;
	}
	if (IS("bn_set_bit")) { /* args: a, bit, value */
		int val = (int)mpz_get_si(c->v[2]);
		if (mpz_sgn(za) < 0) return;
		load(A, za, SA);
		mpz_set(ze, za); if (val) mpz_setbit(ze, (unsigned long)k); else mpz_clrbit(ze, (unsigned long)k);
		size_t room = ((size_t)k / VF_DIGB + 1 > ndig(za)) ? (size_t)k / VF_DIGB + 1 : ndig(za);
		VF_TRY(th, bn_set_bit(A, (uint_t)k, val));
		const char *kf = NULL;
		if (!outcome(op, th, must_succeed(ndig(ze), room), kf)) return;
		expect_bn(op, A, ze, kf);
		return;
	}
	if (IS("bn_set_2b")) {
		junk(C); mpz_set_ui(ze, 1); mpz_mul_2exp(ze, ze, (unsigned long)mpz_get_ui(za));
		VF_TRY(th, bn_set_2b(C, (size_t)mpz_get_ui(za)));
		if (!outcome(op, th, must_succeed(ndig(ze), ndig(ze)), NULL)) return;
		expect_bn(op, C, ze, NULL);
		return;
	}
	/* ---------------- (a, digit b) */
	if (IS("bn_add_dig") || IS("bn_sub_dig") || IS("bn_mul_dig") || IS("bn_div_dig") || IS("bn_div_rem_dig") || IS("bn_mod_dig") || IS("bn_cmp_dig") || IS("bn_set_dig")) {
		dig_t dg = 0; mpz_export(&dg, NULL, -1, sizeof(dig_t), 0, 0, zb);
		load(A, za, SA);
		bn_st *pc = al ? A : C; if (!al) junk(C);
		const char *kf = NULL;
		if (IS("bn_set_dig")) { VF_TRY(th, bn_set_dig(C, dg)); if (th) { vf_fail(NULL, "bn_set_dig raised"); return; } expect_bn(op, C, zb, NULL); return; }
		if (IS("bn_cmp_dig")) { int e = mpz_cmp(za, zb); e = e < 0 ? RLC_LT : e > 0 ? RLC_GT : RLC_EQ; int r = bn_cmp_dig(A, dg); if (r != e) vf_fail(NULL, "bn_cmp_dig: expected %d got %d", e, r); return; }
		if (IS("bn_add_dig")) { mpz_add(ze, za, zb); VF_TRY(th, bn_add_dig(pc, A, dg)); if (!outcome(op, th, must_succeed(ndig(ze), ndig(za) + 1), NULL)) return; expect_bn(op, pc, ze, NULL); }
		else if (IS("bn_sub_dig")) { mpz_sub(ze, za, zb); VF_TRY(th, bn_sub_dig(pc, A, dg)); if (!outcome(op, th, must_succeed(ndig(ze), ndig(za) + 1), NULL)) return; expect_bn(op, pc, ze, NULL); }
		else if (IS("bn_mul_dig")) { mpz_mul(ze, za, zb); VF_TRY(th, bn_mul_dig(pc, A, dg)); if (!outcome(op, th, must_succeed(ndig(ze), ndig(za) + 1), NULL)) return; expect_bn(op, pc, ze, NULL); }
		else {
			dig_t r = 0x77;
			if (IS("bn_div_dig")) VF_TRY(th, bn_div_dig(pc, A, dg));
			else if (IS("bn_div_rem_dig")) VF_TRY(th, bn_div_rem_dig(pc, &r, A, dg));
			else VF_TRY(th, bn_mod_dig(&r, A, dg));
			if (mpz_sgn(zb) == 0) { if (!th) vf_fail(NULL, "%s: zero divisor accepted", op); return; }
			if (th) { vf_fail(NULL, "%s raised %d", op, th); return; }
			mpz_fdiv_qr(zq, zr, za, zb);
			if (mpz_sgn(za) < 0) kf = "L2-div-dig-negative-dividend";
			if (!IS("bn_mod_dig")) expect_bn(op, pc, zq, kf);
			if (!IS("bn_div_dig")) { mpz_import(zg, 1, -1, sizeof(dig_t), 0, 0, &r); if (mpz_cmp(zg, zr)) { char b[300]; gmp_snprintf(b, sizeof b, "%s: remainder expected %Zx got %Zx", op, zr, zg); vf_fail(kf, "%s", b); } }
		}
		if (pc != A && !same(A, SA)) vf_fail(NULL, "%s: input modified", op);
		return;
	}
	vf_fail(NULL, "unknown op");
}

static void run_case(vf_case *c) {
	/* non-trivial: at least one operand has more than one digit or is negative, or a second argument is non-zero */
	if (ndig(c->v[0]) > 1 || mpz_sgn(c->v[0]) < 0 || (c->n > 1 && mpz_sgn(c->v[1]) != 0)) vf_nontrivial();
	for (pat = 0; pat < 2 && !vf_cur_failed; pat++) one_pass(c);
}

/* ------------------------------------------------------------------ enumeration */
static vf_case K;
static const char *BIN_OPS[] = {"bn_add", "bn_sub", "bn_mul_basic", "bn_mul_comba", "bn_mul_karat", "bn_cmp", "bn_cmp_abs", "bn_div_rem", "bn_div"};
static const char *UN_OPS[] = {"bn_sqr_basic", "bn_sqr_comba", "bn_sqr_karat", "bn_neg", "bn_abs", "bn_dbl", "bn_hlv", "bn_copy"};
static const char *DIG_OPS[] = {"bn_add_dig", "bn_sub_dig", "bn_mul_dig", "bn_div_dig", "bn_div_rem_dig", "bn_mod_dig", "bn_cmp_dig"};
static const char *SH_OPS[] = {"bn_lsh", "bn_rsh", "bn_mod_2b"};

static void do_pair(const mpz_t a, const mpz_t b, int aliases) {
	for (unsigned o = 0; o < sizeof BIN_OPS / sizeof *BIN_OPS; o++) {
		int isdiv = o >= 7, iscmp = (o == 5 || o == 6);
		int nal = !aliases ? 1 : isdiv ? (o == 7 ? 7 : 3) : iscmp ? 1 : 5;
		for (int al = 0; al < nal; al++) {
			if (!isdiv && al >= 3 && mpz_cmp(a, b) != 0) continue;
			K.op = BIN_OPS[o]; K.n = 3; mpz_set(K.v[0], a); mpz_set(K.v[1], b); mpz_set_si(K.v[2], al);
			vf_run(&K);
		}
	}
}
static void do_unary(const mpz_t a) {
	for (unsigned o = 0; o < sizeof UN_OPS / sizeof *UN_OPS; o++)
		for (int al = 0; al < 2; al++) { K.op = UN_OPS[o]; K.n = 2; mpz_set(K.v[0], a); mpz_set_si(K.v[1], al); vf_run(&K); }
	K.op = "bn_query"; K.n = 1; mpz_set(K.v[0], a); vf_run(&K);
}
static void do_dig(const mpz_t a, const mpz_t d) {
	for (unsigned o = 0; o < sizeof DIG_OPS / sizeof *DIG_OPS; o++)
		for (int al = 0; al < (o < 5 ? 2 : 1); al++) { K.op = DIG_OPS[o]; K.n = 3; mpz_set(K.v[0], a); mpz_set(K.v[1], d); mpz_set_si(K.v[2], al); vf_run(&K); }
}
static void do_shift(const mpz_t a, long k) {
	for (unsigned o = 0; o < 3; o++)
		for (int al = 0; al < 2; al++) { K.op = SH_OPS[o]; K.n = 3; mpz_set(K.v[0], a); mpz_set_si(K.v[1], k); mpz_set_si(K.v[2], al); vf_run(&K); }
	K.op = "bn_get_bit"; K.n = 2; mpz_set(K.v[0], a); mpz_set_si(K.v[1], k); vf_run(&K);
	if (mpz_sgn(a) >= 0) for (int val = 0; val < 2; val++) { K.op = "bn_set_bit"; K.n = 3; mpz_set(K.v[0], a); mpz_set_si(K.v[1], k); mpz_set_si(K.v[2], val); vf_run(&K); }
}

/* digit alphabets */
#if WSIZE == 8
static const unsigned long long DL1[] = {0x00, 0x01, 0x7F, 0x80, 0xFE, 0xFF};
static const unsigned long long DL2[] = {0x00, 0x01, 0x02, 0x7F, 0x80, 0x81, 0xFE, 0xFF};
#elif WSIZE == 16
static const unsigned long long DL1[] = {0x0000, 0x0001, 0x7FFF, 0x8000, 0xFFFE, 0xFFFF};
static const unsigned long long DL2[] = {0x0000, 0x0001, 0x0002, 0x00FF, 0x0100, 0x7FFF, 0x8000, 0x8001, 0xFFFE, 0xFFFF, 0x5555, 0xAAAA};
#else
static const unsigned long long DL1[] = {0, 1, 0x7FFFFFFFFFFFFFFFULL, 0x8000000000000000ULL, 0xFFFFFFFFFFFFFFFEULL, 0xFFFFFFFFFFFFFFFFULL};
static const unsigned long long DL2[] = {0, 1, 2, 0xFFFFFFFFULL, 0x100000000ULL, 0x7FFFFFFFFFFFFFFFULL, 0x8000000000000000ULL, 0xFFFFFFFFFFFFFFFEULL, 0xFFFFFFFFFFFFFFFFULL, 0x5555555555555555ULL, 0xAAAAAAAAAAAAAAAAULL};
#endif
#define NEL(x) ((int)(sizeof(x) / sizeof *(x)))

/* structured long operands: all-ones, single bit, alternating, at lengths around the capacity */
static void add_long(vf_dom *d) {
	int lens[] = {(int)RLC_BN_DIGS - 1, (int)RLC_BN_DIGS, (int)RLC_BN_DIGS + 1, (int)RLC_BN_SIZE / 2, (int)RLC_BN_SIZE / 2 + 1, (int)RLC_BN_SIZE - 2, (int)RLC_BN_SIZE - 1, (int)RLC_BN_SIZE};
	mpz_t z; mpz_init(z);
	for (unsigned i = 0; i < sizeof lens / sizeof *lens; i++) {
		int L = lens[i]; if (L < 1) continue;
		mpz_set_ui(z, 1); mpz_mul_2exp(z, z, (unsigned long)L * VF_DIGB); mpz_sub_ui(z, z, 1); vf_dom_add(d, z);         /* all ones */
		mpz_set_ui(z, 1); mpz_mul_2exp(z, z, (unsigned long)L * VF_DIGB - 1); vf_dom_add(d, z);                             /* top bit */
		mpz_add_ui(z, z, 1); vf_dom_add(d, z);
		mpz_set_ui(z, 0); for (int j = 0; j < L; j++) { mpz_mul_2exp(z, z, VF_DIGB); mpz_add_ui(z, z, (j & 1) ? 0 : 1); } vf_dom_add(d, z); /* 1,0,1,0 digits */
		mpz_set_ui(z, 0); for (int j = 0; j < L * VF_DIGB; j += 2) mpz_setbit(z, (unsigned long)j); vf_dom_add(d, z);        /* 0x55.. */
		mpz_mul_2exp(z, z, 1); mpz_fdiv_r_2exp(z, z, (unsigned long)L * VF_DIGB); vf_dom_add(d, z);                           /* 0xAA.. */
	}
	mpz_clear(z);
}

static void enumerate(void) {
	mpz_t a, b; mpz_inits(a, b, NULL);
	vf_case_init(&K);
	vf_dom al; vf_dom_init(&al);
	/* alphabet: digit vectors over the layer-1 (quick) or layer-2 (thorough) digit alphabet, both signs */
	int vl = WSIZE == 8 ? 4 : 3;
	if (vf_tier) vf_dom_add_vecs(&al, DL2, NEL(DL2), VF_DIGB, WSIZE == 8 ? 4 : 3, 1);
	else vf_dom_add_vecs(&al, DL1, NEL(DL1), VF_DIGB, vl, 1);
	vf_dom_uniq(&al);
	vf_dom lg; vf_dom_init(&lg); add_long(&lg);
	{ int n0 = lg.n; for (int i = 0; i < n0; i++) { mpz_neg(a, lg.v[i]); vf_dom_add(&lg, a); } }
	vf_dom_uniq(&lg);
	printf("@INFO digit width %d, RLC_BN_SIZE %d digits, alphabet %d values, long operands %d values\n", VF_DIGB, (int)RLC_BN_SIZE, al.n, lg.n);

	/* B1: alphabet x alphabet, every binary op, every alias pattern */
	if (vf_bound_on("alphabet-pairs")) {
		for (int i = 0; i < al.n && !vf_expired(); i++) for (int j = 0; j < al.n; j++) if (vf_mine()) do_pair(al.v[i], al.v[j], 1);
		vf_bound_done("alphabet-pairs");
	}
	/* B2: long operands (capacity edge) x (long + short alphabet) */
	if (vf_bound_on("capacity-edge")) {
		for (int i = 0; i < lg.n; i++) {
			for (int j = 0; j < lg.n; j++) if (vf_mine()) { do_pair(lg.v[i], lg.v[j], 1); }
			for (int j = 0; j < al.n; j += (vf_tier ? 1 : 7)) if (vf_mine()) { do_pair(lg.v[i], al.v[j], 1); do_pair(al.v[j], lg.v[i], 1); }
			if (vf_mine()) do_unary(lg.v[i]);
		}
		vf_bound_done("capacity-edge");
	}
	/* B3: unary ops, digit forms and shifts on the alphabet */
	if (vf_bound_on("alphabet-unary-dig-shift")) {
		long shifts[] = {0, 1, VF_DIGB - 1, VF_DIGB, VF_DIGB + 1, 2 * VF_DIGB - 1, 2 * VF_DIGB, 2 * VF_DIGB + 1, (long)RLC_BN_BITS - 1, (long)RLC_BN_BITS, (long)RLC_BN_BITS + 1,
			(long)RLC_BN_SIZE * VF_DIGB - 1, (long)RLC_BN_SIZE * VF_DIGB - VF_DIGB, (long)RLC_BN_SIZE * VF_DIGB - VF_DIGB - 1};
		vf_dom both; vf_dom_init(&both); for (int i = 0; i < al.n; i++) vf_dom_add(&both, al.v[i]); for (int i = 0; i < lg.n; i++) vf_dom_add(&both, lg.v[i]); vf_dom_uniq(&both);
		for (int i = 0; i < both.n && !vf_expired(); i++) if (vf_mine()) {
			do_unary(both.v[i]);
			for (int j = 0; j < NEL(DL2); j++) { mpz_set_ui(b, (unsigned long)(DL2[j] >> 32)); mpz_mul_2exp(b, b, 32); mpz_add_ui(b, b, (unsigned long)(DL2[j] & 0xffffffffULL)); do_dig(both.v[i], b); }
			for (unsigned j = 0; j < sizeof shifts / sizeof *shifts; j++) if (shifts[j] >= 0) do_shift(both.v[i], shifts[j]);
		}
		for (long k = 0; k <= (long)RLC_BN_SIZE * VF_DIGB + 2; k++) if (vf_mine()) { K.op = "bn_set_2b"; K.n = 1; mpz_set_si(K.v[0], k); vf_run(&K); }
		for (int j = 0; j < NEL(DL2); j++) { K.op = "bn_set_dig"; K.n = 2; mpz_set_ui(K.v[0], 0); mpz_set_ui(K.v[1], (unsigned long)(DL2[j] >> 32)); mpz_mul_2exp(K.v[1], K.v[1], 32); mpz_add_ui(K.v[1], K.v[1], (unsigned long)(DL2[j] & 0xffffffffULL)); if (vf_mine()) vf_run(&K); }
		vf_bound_done("alphabet-unary-dig-shift");
	}
#if WSIZE == 8
	/* W8 complete spaces */
	long R1 = vf_tier ? (1L << 16) : (1L << 16);
	if (vf_bound_on("w8-all16bit-unary-dig-shift")) {
		/* every |a| < 2^16: unary ops, every digit 0..255 (quick: 32 digits incl. all boundary ones), every shift 0..40 */
		for (long x = -R1 + 1; x < R1 && !vf_expired(); x++) if (vf_mine()) {
			vf_stat_add("states", 1); /* one state per distinct operand value of the complete space */
			mpz_set_si(a, x); do_unary(a);
			for (long d = 0; d < 256; d++) { if (!vf_tier && !(d < 4 || d > 251 || (d >= 126 && d <= 130) || d % 17 == 0)) continue; mpz_set_si(b, d); do_dig(a, b); }
			for (long k = 0; k <= 40; k++) { if (!vf_tier && k > 18 && k != 24 && k != 32 && k != 40) continue; do_shift(a, k); }
		}
		vf_bound_done("w8-all16bit-unary-dig-shift");
	}
	long R2 = vf_tier ? (1L << 13) : (1L << 11);
	if (vf_bound_on("w8-square-all-pairs")) {
		/* every signed pair in (-R2, R2)^2: crosses the 1/2-digit boundary at 256 */
		for (long x = -R2 + 1; x < R2 && !vf_expired(); x++) if (vf_mine()) { mpz_set_si(a, x); for (long y = -R2 + 1; y < R2; y++) { mpz_set_si(b, y); do_pair(a, b, (x & 63) == 0 || x == y || x == -y); } }
		vf_bound_done("w8-square-all-pairs");
	}
	if (vf_bound_on("w8-all16bit-x-alphabet")) {
		/* every |a| < 2^16 against the digit-vector alphabet, both orders (dividend long / divisor long) */
		int step = vf_tier ? 1 : 3;
		for (long x = -R1 + 1; x < R1 && !vf_expired(); x++) if (vf_mine()) { mpz_set_si(a, x); for (int j = (int)((x + R1) % step); j < al.n; j += step) { do_pair(a, al.v[j], 0); do_pair(al.v[j], a, 0); } }
		vf_bound_done("w8-all16bit-x-alphabet");
	}
	if (vf_bound_on("w8-division-2digit-divisors")) {
		/* Knuth D with every 2-digit divisor against structured 3..5 digit dividends: estimate / add-back corners */
		vf_dom dv; vf_dom_init(&dv); vf_dom_add_vecs(&dv, DL2, NEL(DL2), 8, vf_tier ? 5 : 4, 0); vf_dom_uniq(&dv);
		for (long y = 256; y < 65536 && !vf_expired(); y++) if (vf_mine()) { mpz_set_si(b, y); for (int j = 0; j < dv.n; j++) { K.op = "bn_div_rem"; K.n = 3; mpz_set(K.v[0], dv.v[j]); mpz_set(K.v[1], b); mpz_set_si(K.v[2], 0); vf_run(&K); } }
		vf_bound_done("w8-division-2digit-divisors");
	}
#endif
	mpz_clears(a, b, NULL);
}

VF_MAIN()
