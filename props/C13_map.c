/*
 * C13 -- hashing to groups yields valid subgroup points per the documented map.
 *
 * W8 (tiny, complete): on tiny curves (a b != 0 => simplified SWU; a = 0 => Shallue-van de Woestijne; cofactor curves) ep_map_rnd is fed
 *   EVERY pair of 2-byte strings (u0, u1) -- all p^2 pairs of field elements incl. every exceptional element of each map, plus the
 *   non-canonical values >= p -- on the ~1000-point curves, and every u0 x a small u1 alphabet on the 16-bit curves.
 * W64: every prime curve selectable: ep_map_sswum / ep_map_basic / ep_map_swift / ep_map_rnd for every message length 0..200 x 3 byte
 *   patterns and uniform strings with exceptional field elements; ep2_map* (BN_P256, SM9_P256; B12_P381 with the isogeny in the 381-bit
 *   build), eb_map, g1_map, g2_map.
 * Oracle: (1) on the curve, in the order-r subgroup (reference multiplication), deterministic, sensitive to the last input bit;
 *   (2) for ep_map_sswum / ep_map_rnd / ep_map_basic: EQUALITY with the reference construction: expand_message_xmd (ref_hash.h, OpenSSL SHA-256)
 *   with the library's tag, big-endian reduction, the simplified SWU map (RFC 9380 6.6.2) resp. the Shallue-van de Woestijne map
 *   (draft-irtf-cfrg-hash-to-curve-06, 6.6.1) written from their definitions on GMP, the sign rule sgn0(y) = sgn0(t) (parity of the canonical residues), the isogeny evaluated from the stored coefficients, addition of the two images and
 *   cofactor clearing (h, or 1 - x on BLS12 curves) by the reference group law. The map constants are recomputed from Z and the curve (c3 as the root with sgn0 = 0) and compared with the stored ones.
 * Case args: rnd: cid, u0, u1 (integers; encoded big-endian into elm bytes each);  msg: cid, entry, length, pattern.
 */
#include "ep2_common.h"
#include "ref_hash.h"
#if defined(WITH_EB)
#include "ref_gf2.h"
#endif

/* the tag is private to relic_ep_map.c: "#define RLC_DSTAG RLC_STRING" unless the build overrides it */
#ifndef RLC_DSTAG
#define RLC_DSTAG RLC_STRING
#endif
static void harness_setup(void) {
	if (core_init() != RLC_OK) exit(2);
	vf_reseed(); tiny_curves_setup(); ep2_common_setup();
}
static mpz_t MZ, MA, MB, C3, RMONT; static int map_kind = 0; /* 1 sswu, 2 svdw */ static long map_cid = -99; static int consts_ok = 0;
static size_t ELM;
static void g_of(mpz_t r, const mpz_t x, const mpz_t a, const mpz_t b) { mpz_t t; mpz_init(t); mpz_mul(t, x, x); mpz_add(t, t, a); mpz_mul(t, t, x); mpz_add(t, t, b); mpz_mod(r, t, RC.p); mpz_clear(t); }
static int is_sq(const mpz_t v) { return !mpz_sgn(v) || mpz_jacobi(v, RC.p) == 1; }
/* sgn0: parity of the canonical residue (fp_is_even converts out of the Montgomery representation first) */
static int mont_even(const mpz_t v) { mpz_t t; mpz_init(t); mpz_mod(t, v, RC.p); int e = mpz_even_p(t); mpz_clear(t); return e; }
static void inv0(mpz_t r, const mpz_t v) { if (!mpz_sgn(v)) mpz_set_ui(r, 0); else mpz_invert(r, v, RC.p); }
#ifdef EP_CTMAP
static void horner(mpz_t r, const mpz_t x, fp_st *co, int deg) { mpz_t c; mpz_init(c); vf_fp_get(r, co[deg]); for (int i = deg; i > 0; i--) { mpz_mul(r, r, x); vf_fp_get(c, co[i - 1]); mpz_add(r, r, c); mpz_mod(r, r, RC.p); } mpz_clear(c); }
#endif
/* learn / recompute the map constants for the active curve; obligations on them are reported once per curve */
static int setup_map(long cid) {
	if (map_cid == cid) return consts_ok; map_cid = cid; consts_ok = 0; ctx_t *ctx = core_get();
	static int init = 0; if (!init) { mpz_inits(MZ, MA, MB, C3, RMONT, NULL); init = 1; }
	mpz_set_ui(RMONT, 1); mpz_mul_2exp(RMONT, RMONT, (unsigned long)RLC_FP_DIGS * RLC_DIG); mpz_mod(RMONT, RMONT, RC.p);
	ELM = (size_t)(FP_PRIME + ep_param_level() + 7) / 8;
	vf_fp_get(MZ, ctx->ep_map_u); mpz_set(MA, RC.a); mpz_set(MB, RC.b);
	int abn = ep_curve_opt_a() != RLC_ZERO && ep_curve_opt_b() != RLC_ZERO;
	map_kind = (ep_curve_is_ctmap() || abn) ? 1 : 2;
	mpz_t t, u; mpz_inits(t, u, NULL); int ok = 1;
	if (map_kind == 1) {
#ifdef EP_CTMAP
		if (ep_curve_is_ctmap()) { iso_t iso = ep_curve_get_iso(); vf_fp_get(MA, iso->a); vf_fp_get(MB, iso->b); }
#endif
		/* obligations: Z non-square; A, B non-zero; g(B/(ZA)) square (exceptional case lands on the curve); stored -B/A, a, b agree */
		if (mpz_jacobi(MZ, RC.p) != -1) { vf_fail(NULL, "constants: SSWU Z is not a non-square on curve %ld", cid); ok = 0; }
		if (!mpz_sgn(MA) || !mpz_sgn(MB)) { vf_fail(NULL, "constants: SSWU needs A B != 0 on curve %ld", cid); ok = 0; }
		if (ok) { mpz_mul(t, MZ, MA); mpz_invert(t, t, RC.p); mpz_mul(t, t, MB); mpz_mod(t, t, RC.p); g_of(u, t, MA, MB); if (!is_sq(u)) { vf_fail(NULL, "constants: g(B/(ZA)) is not a square on curve %ld: the exceptional case has no image", cid); ok = 0; }
			vf_fp_get(t, ctx->ep_map_c[0]); mpz_invert(u, MA, RC.p); mpz_mul(u, u, MB); mpz_neg(u, u); mpz_mod(u, u, RC.p); if (mpz_cmp(t, u)) { vf_fail(NULL, "constants: stored -B/A is wrong on curve %ld", cid); ok = 0; }
			vf_fp_get(t, ctx->ep_map_c[2]); vf_fp_get(u, ctx->ep_map_c[3]); if (mpz_cmp(t, MA) || mpz_cmp(u, MB)) { vf_fail(NULL, "constants: stored map coefficients differ from the (isogenous) curve on curve %ld", cid); ok = 0; } }
	} else {
		/* SvdW: g(Z) != 0, 3Z^2 + 4A != 0, -(3Z^2 + 4A)/(4 g(Z)) square-ness as the draft requires is implied by c3 existing: c3^2 = -g(Z)(3Z^2 + 4A) */
		mpz_t gz, d; mpz_inits(gz, d, NULL); g_of(gz, MZ, MA, MB); mpz_mul(d, MZ, MZ); mpz_mul_ui(d, d, 3); mpz_addmul_ui(d, MA, 4); mpz_mod(d, d, RC.p);
		vf_fp_get(C3, ctx->ep_map_c[2]);
		if (!mpz_sgn(gz) || !mpz_sgn(d)) { vf_fail(NULL, "constants: SvdW Z has g(Z) = 0 or 3Z^2 + 4A = 0 on curve %ld", cid); ok = 0; }
		if (ok) { /* c3 = sqrt(-g(Z)(3Z^2 + 4A)) with sgn0(c3) = 0 (draft-06 6.6.1 and the source comment): recomputed, the stored value must be that root */
			mpz_mul(u, gz, d); mpz_neg(u, u); mpz_mod(u, u, RC.p); if (!ref_sqrt_mod(t, u, RC.p)) { vf_fail(NULL, "constants: -g(Z)(3Z^2 + 4A) is not a square on curve %ld", cid); ok = 0; } else { if (mpz_odd_p(t)) mpz_sub(t, RC.p, t); if (mpz_cmp(t, C3)) { vf_fail(NULL, "constants: stored c3 is not the square root of -g(Z)(3Z^2 + 4A) with sgn0 = 0 on curve %ld", cid); ok = 0; } mpz_set(C3, t); }
			vf_fp_get(t, ctx->ep_map_c[0]); if (mpz_cmp(t, gz)) { vf_fail(NULL, "constants: stored g(Z) is wrong on curve %ld", cid); ok = 0; }
			vf_fp_get(t, ctx->ep_map_c[1]); mpz_set_ui(u, 2); mpz_invert(u, u, RC.p); mpz_mul(u, u, MZ); mpz_neg(u, u); mpz_mod(u, u, RC.p); if (mpz_cmp(t, u)) { vf_fail(NULL, "constants: stored -Z/2 is wrong on curve %ld", cid); ok = 0; }
			vf_fp_get(t, ctx->ep_map_c[3]); mpz_invert(u, d, RC.p); mpz_mul(u, u, gz); mpz_mul_si(u, u, -4); mpz_mod(u, u, RC.p); if (mpz_cmp(t, u)) { vf_fail(NULL, "constants: stored -4 g(Z)/(3Z^2 + 4A) is wrong on curve %ld", cid); ok = 0; } }
		mpz_clears(gz, d, NULL);
	}
	mpz_clears(t, u, NULL); consts_ok = ok; return ok;
}
/* the reference map of one field element; result on the (isogenous) curve, then through the isogeny */
static int ref_map_one(rpt *P, const mpz_t tin) {
	mpz_t t, x, y, gx, a, b, c; mpz_inits(t, x, y, gx, a, b, c, NULL); mpz_mod(t, tin, RC.p); int ok = 1;
	if (map_kind == 1) {
		mpz_mul(a, t, t); mpz_mul(a, a, MZ); mpz_mod(a, a, RC.p);                 /* Z t^2 */
		mpz_mul(b, a, a); mpz_add(b, b, a); mpz_mod(b, b, RC.p);                  /* Z^2 t^4 + Z t^2 */
		if (!mpz_sgn(b)) { mpz_mul(x, MZ, MA); mpz_invert(x, x, RC.p); mpz_mul(x, x, MB); }
		else { mpz_invert(b, b, RC.p); mpz_add_ui(b, b, 1); mpz_invert(x, MA, RC.p); mpz_mul(x, x, MB); mpz_neg(x, x); mpz_mul(x, x, b); }
		mpz_mod(x, x, RC.p); g_of(gx, x, MA, MB);
		if (!is_sq(gx)) { mpz_mul(x, x, a); mpz_mod(x, x, RC.p); g_of(gx, x, MA, MB); }
	} else {
		mpz_t gz, d, c2, c4, tv1, tv2, tv3, tv4; mpz_inits(gz, d, c2, c4, tv1, tv2, tv3, tv4, NULL);
		g_of(gz, MZ, MA, MB); mpz_mul(d, MZ, MZ); mpz_mul_ui(d, d, 3); mpz_addmul_ui(d, MA, 4); mpz_mod(d, d, RC.p);
		mpz_set_ui(c2, 2); mpz_invert(c2, c2, RC.p); mpz_mul(c2, c2, MZ); mpz_neg(c2, c2); mpz_mod(c2, c2, RC.p);
		mpz_invert(c4, d, RC.p); mpz_mul(c4, c4, gz); mpz_mul_si(c4, c4, -4); mpz_mod(c4, c4, RC.p);
		mpz_mul(tv1, t, t); mpz_mul(tv1, tv1, gz); mpz_mod(tv1, tv1, RC.p); mpz_add_ui(tv2, tv1, 1); mpz_mod(tv2, tv2, RC.p); mpz_ui_sub(tv1, 1, tv1); mpz_mod(tv1, tv1, RC.p);
		mpz_mul(tv3, tv1, tv2); mpz_mod(tv3, tv3, RC.p); inv0(tv3, tv3);
		mpz_mul(tv4, t, tv1); mpz_mul(tv4, tv4, tv3); mpz_mod(tv4, tv4, RC.p); mpz_mul(tv4, tv4, C3); mpz_mod(tv4, tv4, RC.p);
		mpz_sub(x, c2, tv4); mpz_mod(x, x, RC.p); g_of(gx, x, MA, MB);
		if (!is_sq(gx)) { mpz_add(x, c2, tv4); mpz_mod(x, x, RC.p); g_of(gx, x, MA, MB);
			if (!is_sq(gx)) { mpz_mul(x, tv2, tv2); mpz_mul(x, x, tv3); mpz_mod(x, x, RC.p); mpz_mul(x, x, x); mpz_mul(x, x, c4); mpz_add(x, x, MZ); mpz_mod(x, x, RC.p); g_of(gx, x, MA, MB); } }
		mpz_clears(gz, d, c2, c4, tv1, tv2, tv3, tv4, NULL);
	}
	if (!ref_sqrt_mod(y, gx, RC.p)) ok = 0;
	else { if (mont_even(y) != mont_even(t)) { mpz_neg(y, y); mpz_mod(y, y, RC.p); }
		P->inf = 0; mpz_set(P->x, x); mpz_set(P->y, y);
#ifdef EP_CTMAP
		if (ep_curve_is_ctmap()) { iso_t iso = ep_curve_get_iso(); mpz_t xn, xd, yn, yd; mpz_inits(xn, xd, yn, yd, NULL);
			horner(xn, x, iso->xn, iso->deg_xn); horner(xd, x, iso->xd, iso->deg_xd); horner(yn, x, iso->yn, iso->deg_yn); horner(yd, x, iso->yd, iso->deg_yd);
			if (!mpz_sgn(xd) || !mpz_sgn(yd)) P->inf = 1; else { mpz_invert(xd, xd, RC.p); mpz_mul(P->x, xn, xd); mpz_mod(P->x, P->x, RC.p); mpz_invert(yd, yd, RC.p); mpz_mul(P->y, y, yn); mpz_mul(P->y, P->y, yd); mpz_mod(P->y, P->y, RC.p); }
			mpz_clears(xn, xd, yn, yd, NULL); }
#endif
	}
	mpz_clears(t, x, y, gx, a, b, c, NULL); return ok;
}
static void ref_cof(rpt *R, const rpt *P) {
	if (ep_curve_is_pairf() == EP_BN) { rpt_set(R, P); return; }
	if (ep_curve_is_pairf() == EP_B12) { bn_t x; bn_new(x); fp_prime_get_par(x); mpz_t k; mpz_init(k); vf_bn_get(k, x); mpz_ui_sub(k, 1, k); rpt_mul(&RC, R, P, k); mpz_clear(k); return; }
	rpt_mul(&RC, R, P, RH);
}
static void os2ip(mpz_t r, const uint8_t *b, size_t n) { mpz_import(r, n, 1, 1, 0, 0, b); }
static void check_valid(const char *who, const ep_t got, rpt *out) {
	rpt T; rpt_init(&T); transitions++;
	if (!ep_extract(out, got)) vf_fail(NULL, "%s: result not canonical / not normalised", who);
	else if (out->inf) { /* may legitimately happen only when the reference says so; judged by the caller */ }
	else { if (!rpt_on_curve(&RC, out)) vf_fail(NULL, "%s: result not on the curve", who); else { rpt_mul(&RC, &T, out, RN); if (!T.inf) vf_fail(NULL, "%s: result not in the order-r subgroup", who); } }
	rpt_clear(&T);
}

/* rnd: cid, u0, u1 */
static void do_rnd(vf_case *c) {
	long cid = mpz_get_si(c->v[0]); if (!select_curve(cid)) { vf_fail(NULL, "curve refused"); return; }
	if (!setup_map(cid)) return;
	size_t need = ep_map_rnd_size(); uint8_t *buf = malloc(need + 8); memset(buf, 0, need + 8);
	if (need != 2 * ELM) { vf_fail(NULL, "ep_map_rnd_size() = %zu, expected two elements of %zu bytes", need, ELM); free(buf); return; }
	if (mpz_sizeinbase(c->v[1], 2) > 8 * ELM || mpz_sizeinbase(c->v[2], 2) > 8 * ELM) { free(buf); return; }
	{ size_t n0 = (mpz_sizeinbase(c->v[1], 2) + 7) / 8, n1 = (mpz_sizeinbase(c->v[2], 2) + 7) / 8; if (mpz_sgn(c->v[1])) mpz_export(buf + ELM - n0, NULL, 1, 1, 0, 0, c->v[1]); if (mpz_sgn(c->v[2])) mpz_export(buf + 2 * ELM - n1, NULL, 1, 1, 0, 0, c->v[2]); }
	ep_t p, q; ep_new(p); ep_new(q); int th; rpt G, P0, P1, S, E; rpt_init(&G); rpt_init(&P0); rpt_init(&P1); rpt_init(&S); rpt_init(&E);
	VF_TRY(th, ep_map_rnd(p, buf, need)); if (th) { vf_fail(NULL, "ep_map_rnd raised %d", th); goto done; }
	check_valid("ep_map_rnd", p, &G);
	if (!ref_map_one(&P0, c->v[1]) || !ref_map_one(&P1, c->v[2])) { vf_fail(NULL, "reference: g(x) is not a square for any candidate (constants do not define a map)"); goto done; }
	rpt_add(&RC, &S, &P0, &P1); ref_cof(&E, &S); transitions++;
	/* L27: the library adds the two images with the complete projective formulas, which return the identity when P0 - P1 has order two (even-order curves) */
	const char *kf27 = NULL; { rpt D; rpt_init(&D); rpt_neg(&RC, &D, &P1); rpt_add(&RC, &D, &P0, &D); if (!D.inf && !mpz_sgn(D.y) && !P0.inf && !P1.inf) kf27 = "L27-projc-add-difference-of-order-two"; rpt_clear(&D); }
	if (!rpt_eq(&G, &E)) { char b[900]; gmp_snprintf(b, sizeof b, "ep_map_rnd[%s]: differs from the reference construction: expected %s(%Zx,%Zx) got %s(%Zx,%Zx)", map_kind == 1 ? "sswu" : "svdw", E.inf ? "INF" : "", E.x, E.y, G.inf ? "INF" : "", G.x, G.y); vf_fail(kf27, "%s", b); }
	/* too-short input must be refused */
	if (need) { VF_TRY(th, ep_map_rnd(q, buf, need - 1)); transitions++; if (!th) vf_fail(NULL, "ep_map_rnd accepts %zu bytes although %zu are needed: short buffer not refused", need - 1, need); }
done:
	free(buf); rpt_clear(&G); rpt_clear(&P0); rpt_clear(&P1); rpt_clear(&S); rpt_clear(&E);
}
static void fill(uint8_t *m, size_t len, unsigned pat) { for (size_t i = 0; i < len; i++) m[i] = (uint8_t)(pat == 0 ? 0 : pat == 1 ? 0xFF : (i * 7 + pat)); }
/* msg: cid, entry (0 sswum, 1 basic, 2 swift, 3 ep_map), length, pattern */
static void do_msg(vf_case *c) {
	long cid = mpz_get_si(c->v[0]); int ent = (int)mpz_get_si(c->v[1]); size_t len = mpz_get_ui(c->v[2]); unsigned pat = (unsigned)mpz_get_ui(c->v[3]);
	if (!select_curve(cid)) { vf_fail(NULL, "curve refused"); return; } if (!setup_map(cid)) return;
	uint8_t *msg = malloc(len + 1); fill(msg, len, pat); ep_t p, q; ep_new(p); ep_new(q); int th; rpt G, H, P0, P1, S, E; rpt_init(&G); rpt_init(&H); rpt_init(&P0); rpt_init(&P1); rpt_init(&S); rpt_init(&E);
	static const char *EN[] = {"ep_map_sswum", "ep_map_basic", "ep_map_swift", "ep_map"};
	#define CALL(P) do { if (ent == 0) VF_TRY(th, ep_map_sswum(P, msg, len)); else if (ent == 1) VF_TRY(th, ep_map_basic(P, msg, len)); else if (ent == 2) VF_TRY(th, ep_map_swift(P, msg, len)); else VF_TRY(th, ep_map(P, msg, len)); } while (0)
	CALL(p);
	if (th && ent == 2 && tiny) { vf_stat_add("x.swift_raised_on_tiny_curve", 1); goto done; } /* SwiftEC has no reference here; its exceptional inputs (probability ~1/p) make it raise on 10-bit fields */
	if (th) { /* SwiftEC is refused (error reported) for supersingular curves, p = 2 mod 3 and curves with a b != 0 */ if (!(ent == 2 && (ep_curve_is_super() || core_get()->mod18 % 3 == 2 || (ep_curve_opt_a() != RLC_ZERO && ep_curve_opt_b() != RLC_ZERO)))) vf_fail(NULL, "%s raised %d (len %zu)", EN[ent], th, len); goto done; }
	check_valid(EN[ent], p, &G);
	if (G.inf && !tiny) vf_fail(NULL, "%s: returned the identity", EN[ent]); /* on a ~1000-point curve the two images cancel with probability 2^-10: legitimate there, checked against the reference below */
	vf_reseed(); memset(q, 0xFF, sizeof(ep_st)); q->coord = BASIC; CALL(q); ep_extract(&H, q); transitions++; if (th || !rpt_eq(&G, &H)) vf_fail(NULL, "%s: not deterministic (second call into an output point that held other data)", EN[ent]);
	/* input sensitivity: judged at shipped sizes only (on a 16-bit curve two messages collide with probability ~2^-10 per pair) */
	if (len && !tiny) { msg[len - 1] ^= 1; CALL(q); ep_extract(&H, q); if (!th && rpt_eq(&G, &H)) vf_fail(NULL, "%s: last message bit ignored", EN[ent]); msg[len - 1] ^= 1; }
	/* reference construction */
	if (ent == 0 || ent == 3) { uint8_t *u = malloc(2 * ELM); const char *tag = RLC_DSTAG; mpz_t u0, u1; mpz_inits(u0, u1, NULL);
		if (!ref_xmd("SHA256", 32, 64, u, 2 * ELM, msg, len, (const uint8_t *)tag, sizeof(RLC_DSTAG))) vf_fail(NULL, "reference: XMD parameters out of range");
		else { os2ip(u0, u, ELM); os2ip(u1, u + ELM, ELM); if (!ref_map_one(&P0, u0) || !ref_map_one(&P1, u1)) vf_fail(NULL, "reference: no square candidate"); else { rpt_add(&RC, &S, &P0, &P1); ref_cof(&E, &S); transitions++; const char *kf27 = NULL; { rpt D; rpt_init(&D); rpt_neg(&RC, &D, &P1); rpt_add(&RC, &D, &P0, &D); if (!D.inf && !mpz_sgn(D.y)) kf27 = "L27-projc-add-difference-of-order-two"; rpt_clear(&D); }
			if (!rpt_eq(&G, &E)) { char b[900]; gmp_snprintf(b, sizeof b, "%s[%s]: differs from the reference construction (XMD-SHA-256, tag \"%s\" incl. its terminator): expected (%Zx,%Zx) got (%Zx,%Zx)", EN[ent], map_kind == 1 ? "sswu" : "svdw", tag, E.x, E.y, G.x, G.y); vf_fail(kf27, "%s", b); } } }
		free(u); mpz_clears(u0, u1, NULL); }
	if (ent == 1) { /* try-and-increment: x = OS2IP(XMD(msg, elm bytes, tag without terminator)) mod p, incremented until g(x) is a non-zero square; either root; then cofactor */
		uint8_t *u = malloc(ELM); const char *tag = RLC_DSTAG; mpz_t x, gx; mpz_inits(x, gx, NULL);
		if (ref_xmd("SHA256", 32, 64, u, ELM, msg, len, (const uint8_t *)tag, strlen(tag))) { os2ip(x, u, ELM); mpz_mod(x, x, RC.p); for (;;) { g_of(gx, x, RC.a, RC.b); if (mpz_sgn(gx) && mpz_jacobi(gx, RC.p) == 1) break; mpz_add_ui(x, x, 1); mpz_mod(x, x, RC.p); }
			P0.inf = 0; mpz_set(P0.x, x); ref_sqrt_mod(P0.y, gx, RC.p); ref_cof(&E, &P0); rpt_neg(&RC, &S, &E); transitions++;
			if (!rpt_eq(&G, &E) && !rpt_eq(&G, &S)) vf_fail(NULL, "ep_map_basic: differs from try-and-increment on the expanded message (up to the sign of y)"); }
		free(u); mpz_clears(x, gx, NULL); }
done:
	free(msg); rpt_clear(&G); rpt_clear(&H); rpt_clear(&P0); rpt_clear(&P1); rpt_clear(&S); rpt_clear(&E);
}
#if WSIZE == 64
/* g2: cid, entry (0 ep2_map_sswum, 1 ep2_map_basic, 2 ep2_map_swift, 3 g2_map, 4 g1_map), length, pattern: validity on the twist */
static void do_g2(vf_case *c) {
	long cid = mpz_get_si(c->v[0]); int ent = (int)mpz_get_si(c->v[1]); size_t len = mpz_get_ui(c->v[2]); unsigned pat = (unsigned)mpz_get_ui(c->v[3]);
	if (!select_curve2(cid)) { vf_fail(NULL, "twist refused"); return; }
	uint8_t *msg = malloc(len + 1); fill(msg, len, pat); int th; static const char *EN[] = {"ep2_map_sswum", "ep2_map_basic", "ep2_map_swift", "g2_map", "g1_map"};
	if (ent == 4) { ep_t p, q; ep_new(p); ep_new(q); rpt G, H; rpt_init(&G); rpt_init(&H); VF_TRY(th, g1_map(p, msg, len)); if (th) vf_fail(NULL, "g1_map raised %d", th); else { check_valid("g1_map", p, &G); if (G.inf) vf_fail(NULL, "g1_map: identity"); VF_TRY(th, g1_map(q, msg, len)); ep_extract(&H, q); if (!rpt_eq(&G, &H)) vf_fail(NULL, "g1_map: not deterministic"); int v; VF_TRY(th, v = g1_is_valid(p)); if (!th && !v) vf_fail(NULL, "g1_map: g1_is_valid rejects the result"); } free(msg); return; }
	ep2_t p, q; ep2_new(p); ep2_new(q); rpt2 G, H, T; rpt2_init(&G); rpt2_init(&H); rpt2_init(&T);
	#define CALL2(P) do { if (ent == 0) VF_TRY(th, ep2_map_sswum(P, msg, len)); else if (ent == 1) VF_TRY(th, ep2_map_basic(P, msg, len)); else if (ent == 2) VF_TRY(th, ep2_map_swift(P, msg, len)); else VF_TRY(th, g2_map(P, msg, len)); } while (0)
	CALL2(p); transitions++;
	if (th) { if (ent != 2) vf_fail(NULL, "%s raised %d (len %zu)", EN[ent], th, len); else vf_stat_add("x.ep2_map_swift_unavailable", 1); free(msg); return; }
	if (!ep2_extract(&G, p)) vf_fail(NULL, "%s: result not canonical / not normalised", EN[ent]);
	else if (G.inf) vf_fail(NULL, "%s: returned the identity", EN[ent]);
	else { if (!rpt2_on_curve(&RC2, &G)) vf_fail(NULL, "%s: result not on the twist", EN[ent]); else { rpt2_mul(&RC2, &T, &G, RN2); if (!T.inf) vf_fail(NULL, "%s: result not in the order-r subgroup", EN[ent]); } }
	vf_reseed(); memset(q, 0xFF, sizeof(ep2_st)); q->coord = BASIC; CALL2(q); ep2_extract(&H, q); if (th || !rpt2_eq(&G, &H)) vf_fail(NULL, "%s: not deterministic (second call into an output point that held other data)", EN[ent]);
	if (len) { msg[len - 1] ^= 1; CALL2(q); ep2_extract(&H, q); if (!th && rpt2_eq(&G, &H)) vf_fail(NULL, "%s: last message bit ignored", EN[ent]); }
	free(msg); rpt2_clear(&G); rpt2_clear(&H); rpt2_clear(&T);
}
#if defined(WITH_EB)
static gf2 gf_from_fb(const fb_t a) { gf2 r = gf_zero(); memcpy(r.w, a, sizeof(fb_st) < sizeof r.w ? sizeof(fb_st) : sizeof r.w); return r; }
static bpt bpt_mul(bpt p, const mpz_t k) { bpt acc = bpt_inf(); size_t n = mpz_sgn(k) ? mpz_sizeinbase(k, 2) : 0; for (size_t i = n; i-- > 0;) { acc = bpt_dbl(acc); if (mpz_tstbit(k, i)) acc = bpt_add(acc, p); } return acc; }
/* eb: id, length, pattern */
static void do_eb(vf_case *c) {
	int id = (int)mpz_get_si(c->v[0]), th; size_t len = mpz_get_ui(c->v[1]); unsigned pat = (unsigned)mpz_get_ui(c->v[2]);
	static int cur = -1; if (cur != id) { VF_TRY(th, eb_param_set(id)); if (th) { vf_fail(NULL, "binary curve refused"); return; } cur = id; gf2 f = gf_zero(); memcpy(f.w, fb_poly_get(), sizeof(fb_st) < sizeof f.w ? sizeof(fb_st) : sizeof f.w); gf_setbit(&f, RLC_FB_BITS); GF_M = RLC_FB_BITS; GF_POLY = f; EB_A = gf_from_fb(core_get()->eb_a); EB_B = gf_from_fb(core_get()->eb_b); }
	uint8_t *msg = malloc(len + 1); fill(msg, len, pat); eb_t p, q; eb_new(p); eb_new(q);
	VF_TRY(th, eb_map(p, msg, len)); transitions++; if (th) { vf_fail(NULL, "eb_map raised %d (len %zu)", th, len); free(msg); return; }
	VF_TRY(th, eb_norm(p, p)); bpt G; G.inf = eb_is_infty(p); G.x = gf_from_fb(p->x); G.y = gf_from_fb(p->y);
	if (G.inf) vf_fail(NULL, "eb_map: returned the identity"); else if (!bpt_on_curve(G)) vf_fail(NULL, "eb_map: result not on the curve");
	else { bn_t r; bn_new(r); eb_curve_get_ord(r); mpz_t R; mpz_init(R); vf_bn_get(R, r); if (!bpt_mul(G, R).inf) vf_fail(NULL, "eb_map: result not in the order-r subgroup"); mpz_clear(R); }
	/* a function of the input bytes alone: the second call writes into a destination that held other data (all-ones digits) before */
	memset(q, 0xFF, sizeof(eb_st)); q->coord = BASIC; VF_TRY(th, eb_map(q, msg, len)); if (th || eb_cmp(p, q) != RLC_EQ) vf_fail(NULL, "eb_map: not deterministic (the result depends on the previous content of the output point)");
	if (len) { msg[len - 1] ^= 1; VF_TRY(th, eb_map(q, msg, len)); if (!th && eb_cmp(p, q) == RLC_EQ) vf_fail(NULL, "eb_map: last message bit ignored"); }
	free(msg);
}
#endif
#endif
static void run_case(vf_case *c) {
	vf_nontrivial();
	if (!strcmp(c->op, "rnd")) do_rnd(c); else if (!strcmp(c->op, "msg")) do_msg(c);
#if WSIZE == 64
	else if (!strcmp(c->op, "g2")) do_g2(c);
#if defined(WITH_EB)
	else if (!strcmp(c->op, "eb")) do_eb(c);
#endif
#endif
	else vf_fail(NULL, "unknown op");
}

static vf_case K;
static void enumerate(void) {
	vf_case_init(&K); mpz_t t; mpz_init(t);
#if WSIZE != 64
	/* complete: every pair of 2-byte strings on the ~1000-point curves (prime order a = -3 / a = 1 => SSWU; a = 0 => SvdW; cofactor 2/4 curves) */
	int small[] = {0, 7, 4, 5, 6};
	for (unsigned ci = 0; ci < 5; ci++) { char bn[64]; snprintf(bn, sizeof bn, "tiny-all-pairs-curve-%d", small[ci]); if (!vf_tier && ci >= 3) continue; if (!vf_bound_on(bn)) continue; long cid = small[ci]; if (!select_curve(cid)) continue;
		long p = TC[cid].p, top = p + 6; /* every residue, plus six non-canonical values above p; thorough: also the top of the 2-byte range */
		for (long a = 0; a < top && !vf_expired(); a++) if (vf_mine()) { vf_stat_add("states", 1); for (long b = 0; b < top; b++) { K.op = "rnd"; K.n = 3; mpz_set_si(K.v[0], cid); mpz_set_si(K.v[1], a); mpz_set_si(K.v[2], b); vf_run(&K); } }
		for (long a = 65520; a < 65536; a++) for (long b = 0; b < 16; b++) if (vf_mine()) { K.op = "rnd"; K.n = 3; mpz_set_si(K.v[0], cid); mpz_set_si(K.v[1], a); mpz_set_si(K.v[2], 65535 - b); vf_run(&K); }
		vf_bound_done(bn); }
	/* every first element x a small alphabet of second elements on the 16-bit curves; messages through the hash entry points */
	int big[] = {1, 2, 3};
	for (unsigned ci = 0; ci < 3; ci++) { char bn[64]; snprintf(bn, sizeof bn, "tiny-all-elements-curve-%d", big[ci]); if (!vf_bound_on(bn)) continue; long cid = big[ci]; if (!select_curve(cid)) continue;
		long bs[] = {0, 1, 2, TC[cid].p - 1, TC[cid].p, 12345, 65535};
		for (long a = 0; a < 65536 && !vf_expired(); a++) if (vf_mine()) for (unsigned j = 0; j < (vf_tier ? 7 : 3); j++) { K.op = "rnd"; K.n = 3; mpz_set_si(K.v[0], cid); mpz_set_si(K.v[1], a); mpz_set_si(K.v[2], bs[j]); vf_run(&K); mpz_set_si(K.v[1], bs[j]); mpz_set_si(K.v[2], a); vf_run(&K); }
		vf_bound_done(bn); }
	if (vf_bound_on("tiny-messages")) { int cs[] = {0, 7, 5, 1, 2}; for (unsigned ci = 0; ci < 5; ci++) for (int ent = 0; ent < 4; ent++) for (long len = 0; len <= (vf_tier ? 200 : 70); len++) for (long pat = 0; pat < 3; pat++) if (vf_mine()) { K.op = "msg"; K.n = 4; mpz_set_si(K.v[0], cs[ci]); mpz_set_si(K.v[1], ent); mpz_set_si(K.v[2], len); mpz_set_si(K.v[3], pat); vf_run(&K); } vf_bound_done("tiny-messages"); }
#else
#if FP_PRIME == 256
	static const int IDS[] = {NIST_P256, BSI_P256, SECG_K256, SM2_P256, BN_P256, SM9_P256};
#elif FP_PRIME == 381
	static const int IDS[] = {B12_P381};
#elif FP_PRIME == 255
	static const int IDS[] = {CURVE_25519, TWEEDLEDUM};
#elif FP_PRIME == 446
	static const int IDS[] = {BN_P446, B12_P446};
#else
	static const int IDS[] = {0};
#endif
	for (unsigned ci = 0; ci < sizeof IDS / sizeof *IDS; ci++) { char bn[64]; snprintf(bn, sizeof bn, "w64-curve-%d", IDS[ci]); if (!vf_bound_on(bn)) continue; long cid = IDS[ci]; if (!select_curve(cid)) { vf_fail(NULL, "curve refused"); continue; }
		if (!setup_map(cid)) { vf_bound_done(bn); continue; }
		if (vf_shard == 0) printf("@INFO curve %ld: map %s, %zu bytes per field element\n", cid, map_kind == 1 ? (ep_curve_is_ctmap() ? "simplified SWU + isogeny" : "simplified SWU") : "Shallue-van de Woestijne", ELM);
		/* messages: every length 0..200 (thorough: plus 255, 256, 257, 1000) x 3 patterns x 4 entry points */
		for (int ent = 0; ent < 4; ent++) for (long len = 0; len <= (vf_tier ? 204 : 120); len++) for (long pat = 0; pat < 3; pat++) { long L = len <= 200 ? len : len == 201 ? 255 : len == 202 ? 256 : len == 203 ? 257 : 1000; if (!vf_tier && ent && (len % 3)) continue; if (vf_mine()) { K.op = "msg"; K.n = 4; mpz_set_si(K.v[0], cid); mpz_set_si(K.v[1], ent); mpz_set_si(K.v[2], L); mpz_set_si(K.v[3], pat); vf_run(&K); } }
		/* uniform strings: field-element alphabet incl. the exceptional elements of the map computed by the reference */
		{ vf_dom U; vf_dom_init(&U); vf_dom_add_si(&U, 0); vf_dom_add_si(&U, 1); vf_dom_add_si(&U, 2); vf_dom_add_near(&U, RC.p, 0); mpz_mul_ui(t, RC.p, 2); vf_dom_add(&U, t);
			mpz_set_ui(t, 1); mpz_mul_2exp(t, t, 8 * ELM); mpz_sub_ui(t, t, 1); vf_dom_add(&U, t); mpz_set_ui(t, 1); mpz_mul_2exp(t, t, 8 * ELM - 1); vf_dom_add(&U, t);
			for (long i = 3; i < 40; i++) vf_dom_add_si(&U, i * i * 7919 + 11);
			if (map_kind == 1) { /* Z^2 t^4 + Z t^2 = 0  <=>  t = 0 or t^2 = -1/Z */ mpz_t s; mpz_init(s); mpz_invert(s, MZ, RC.p); mpz_neg(s, s); mpz_mod(s, s, RC.p); if (ref_sqrt_mod(t, s, RC.p)) { vf_dom_add(&U, t); mpz_sub(t, RC.p, t); vf_dom_add(&U, t); } mpz_clear(s); }
			else { /* (1 + t^2 g(Z))(1 - t^2 g(Z)) = 0 */ mpz_t s, gz; mpz_inits(s, gz, NULL); g_of(gz, MZ, MA, MB); mpz_invert(s, gz, RC.p); if (ref_sqrt_mod(t, s, RC.p)) { vf_dom_add(&U, t); mpz_sub(t, RC.p, t); vf_dom_add(&U, t); } mpz_neg(s, s); mpz_mod(s, s, RC.p); if (ref_sqrt_mod(t, s, RC.p)) { vf_dom_add(&U, t); mpz_sub(t, RC.p, t); vf_dom_add(&U, t); } mpz_clears(s, gz, NULL); }
			vf_dom_uniq(&U);
			for (int a = 0; a < U.n; a++) for (int b = 0; b < U.n; b++) { if (mpz_sgn(U.v[a]) < 0 || mpz_sgn(U.v[b]) < 0) continue; if (vf_mine()) { K.op = "rnd"; K.n = 3; mpz_set_si(K.v[0], cid); mpz_set(K.v[1], U.v[a]); mpz_set(K.v[2], U.v[b]); vf_run(&K); } }
			vf_dom_clear(&U); }
#if FP_PRIME != 255
		int g2_usable = ep_curve_is_pairf() != 0;
#if FP_PRIME == 446 && !defined(FP_QNRES)
		if (cid == B12_P446) g2_usable = 0; /* its twist needs a build with FP_QNRES (finding L42, judged in C18) */
#endif
		if (g2_usable) for (int ent = 0; ent < 5; ent++) for (long len = 0; len <= (vf_tier ? 200 : 66); len++) for (long pat = 0; pat < 3; pat++) { if (!vf_tier && ent != 3 && (len % 3)) continue; if (vf_mine()) { K.op = "g2"; K.n = 4; mpz_set_si(K.v[0], cid); mpz_set_si(K.v[1], ent); mpz_set_si(K.v[2], len); mpz_set_si(K.v[3], pat); vf_run(&K); } }
#endif
		vf_bound_done(bn); }
#if defined(WITH_EB) && FP_PRIME == 256
	if (vf_bound_on("w64-binary-curves")) { int ebc[] = {NIST_B283, NIST_K283}; for (unsigned ci = 0; ci < 2; ci++) for (long len = 0; len <= (vf_tier ? 200 : 100); len++) for (long pat = 0; pat < 3; pat++) if (vf_mine()) { K.op = "eb"; K.n = 3; mpz_set_si(K.v[0], ebc[ci]); mpz_set_si(K.v[1], len); mpz_set_si(K.v[2], pat); vf_run(&K); } vf_bound_done("w64-binary-curves"); }
#endif
#endif
	vf_stat_add("transitions", transitions); mpz_clear(t);
}
VF_MAIN()
