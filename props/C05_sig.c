/*
 * C05 -- signature schemes are complete and sound, including encoding checks.
 *
 * A case fixes (scheme, parameter set, DRBG seed, message). The harness generates the key with the scheme's own gen under that seed, signs, checks
 * that the honest signature verifies, and then walks the WHOLE mutation battery of that case: for every mutated (message, signature, key) triple the
 * library's verdict must equal the verdict of an oracle that does not share code with the verifier:
 *   ECDSA   -- verification re-implemented from the standard on ref_ec.h + OpenSSL SHA-256 (range checks, leftmost-bits truncation, public key
 *              must be a finite curve point), and additionally OpenSSL's own ECDSA_do_verify on P-256, secp256k1 and brainpoolP256r1;
 *   EC-Schnorr (cp_ecss) -- its equation re-evaluated on ref_ec.h;
 *   RSA (PSS, empty salt, MGF1-SHA-256) -- OpenSSL EVP_PKEY_verify on the same bytes;
 *   BLS, BB, ZSS, CL, PS -- the verification equation of the scheme's definition re-evaluated with group elements computed by the REFERENCE group
 *              laws (ref_ec.h / ref_ec2.h) and the pairing (decided by C04), together with the well-formedness rules of the definition
 *              (components in the group, not the identity);
 *   the remaining schemes (tier B) -- completeness, and rejection of mutations that are invalid by the scheme's structure (message bit flips,
 *              foreign keys, a component replaced by component + generator in an equation linear in it, identity components).
 * Mutations: every single-bit flip of every integer component, component substitutions 0, 1, n, n-1, c+n, n-c, -c, 2^256-1; swaps; message bit
 * flips; point components -> identity, generator, -X, X+G, 2X, off-curve; keys -> foreign key, identity, -Q, Q+G, off-curve.
 */
#include "pc_common.h"
#include "ref_hash.h"
#include <openssl/evp.h>
#include <openssl/rsa.h>
#include <openssl/bn.h>
#include <openssl/ec.h>
#include <openssl/ecdsa.h>
#include <openssl/obj_mac.h>
#pragma GCC diagnostic ignored "-Wdeprecated-declarations"

static void harness_setup(void) {
	if (core_init() != RLC_OK) exit(2);
	vf_reseed(); tiny_curves_setup(); ep2_common_setup();
}
static void seed_drbg(unsigned long s) { uint8_t seed[64]; for (int i = 0; i < 64; i++) seed[i] = (uint8_t)(i * 7 + 1 + s * 31 + (s >> 3) * i); core_get()->seeded = 0; rand_seed(seed, sizeof seed); }
static void fill(uint8_t *m, size_t len, unsigned pat) { for (size_t i = 0; i < len; i++) m[i] = (uint8_t)(pat == 0 ? 0 : pat == 1 ? 0xFF : (i * 7 + pat)); }
static unsigned long long nmut = 0, nacc = 0, nrej = 0;
#define JUDGE(who, desc, got, exp) do { transitions++; nmut++; if (exp) nacc++; else nrej++; if ((got != 0) != (exp != 0)) vf_fail(NULL, "%s: verifier says %d, the scheme's definition says %d for: %s", who, got != 0, exp != 0, desc); } while (0)

/* ---------------------------------------------------------------- ECDSA */
static void digest_to_e(mpz_t e, const uint8_t *dg, size_t dl) { size_t nb = mpz_sizeinbase(RN, 2); if (8 * dl > nb) { size_t l = (nb + 7) / 8; mpz_import(e, l, 1, 1, 0, 0, dg); mpz_fdiv_q_2exp(e, e, 8 * l - nb); } else mpz_import(e, dl, 1, 1, 0, 0, dg); }
static int ref_ecdsa_ver(const mpz_t r, const mpz_t s, const uint8_t *dg, size_t dl, const rpt *Q) {
	if (mpz_sgn(r) <= 0 || mpz_sgn(s) <= 0 || mpz_cmp(r, RN) >= 0 || mpz_cmp(s, RN) >= 0) return 0;
	if (Q->inf || !rpt_on_curve(&RC, Q)) return 0;
	mpz_t e, w, u1, u2; mpz_inits(e, w, u1, u2, NULL); digest_to_e(e, dg, dl); mpz_invert(w, s, RN); mpz_mul(u1, e, w); mpz_mod(u1, u1, RN); mpz_mul(u2, r, w); mpz_mod(u2, u2, RN);
	rpt A, B; rpt_init(&A); rpt_init(&B); rpt_mul(&RC, &A, &RG, u1); rpt_mul(&RC, &B, Q, u2); rpt_add(&RC, &A, &A, &B); int ok = 0;
	if (!A.inf) { mpz_mod(w, A.x, RN); ok = !mpz_cmp(w, r); }
	mpz_clears(e, w, u1, u2, NULL); rpt_clear(&A); rpt_clear(&B); return ok;
}
static EC_GROUP *ossl_group(long cid) { int nid = cid == NIST_P256 ? NID_X9_62_prime256v1 : cid == SECG_K256 ? NID_secp256k1 : cid == BSI_P256 ? NID_brainpoolP256r1 : 0; return nid ? EC_GROUP_new_by_curve_name(nid) : NULL; }
static int ossl_ecdsa_ver(EC_GROUP *g, const mpz_t r, const mpz_t s, const uint8_t *dg, size_t dl, const rpt *Q) {
	if (!g || Q->inf || mpz_sgn(r) < 0 || mpz_sgn(s) < 0) return -1;
	char *hx = mpz_get_str(NULL, 16, Q->x), *hy = mpz_get_str(NULL, 16, Q->y), *hr = mpz_get_str(NULL, 16, r), *hs = mpz_get_str(NULL, 16, s); BIGNUM *x = NULL, *y = NULL, *br = NULL, *bs = NULL; BN_hex2bn(&x, hx); BN_hex2bn(&y, hy); BN_hex2bn(&br, hr); BN_hex2bn(&bs, hs);
	EC_KEY *k = EC_KEY_new(); EC_KEY_set_group(k, g); int res = -1;
	if (EC_KEY_set_public_key_affine_coordinates(k, x, y) == 1) { ECDSA_SIG *sg = ECDSA_SIG_new(); ECDSA_SIG_set0(sg, br, bs); br = bs = NULL; res = ECDSA_do_verify(dg, (int)dl, sg, k); if (res < 0) res = 0; ECDSA_SIG_free(sg); } else res = 0; /* OpenSSL refuses an off-curve key */
	EC_KEY_free(k); BN_free(x); BN_free(y); BN_free(br); BN_free(bs); free(hx); free(hy); free(hr); free(hs); return res;
}
/* ecdsa: cid, seed, len, pat, mode (0: hash-then-sign; >0: pre-hashed digest of `mode` bytes) */
static void do_ecdsa(vf_case *c) {
	long cid = mpz_get_si(c->v[0]); unsigned long seed = mpz_get_ui(c->v[1]); size_t len = mpz_get_ui(c->v[2]); unsigned pat = (unsigned)mpz_get_ui(c->v[3]); size_t mode = mpz_get_ui(c->v[4]);
	if (!select_curve(cid)) { vf_fail(NULL, "curve refused"); return; }
	uint8_t *msg = malloc(len + 8), dg[64], dg2[64]; fill(msg, len, pat); size_t dl = 32; int th, v;
	bn_t d, r, s, d2; ec_t q, q2, qm; bn_new(d); bn_new(r); bn_new(s); bn_new(d2); ec_new(q); ec_new(q2); ec_new(qm);
	seed_drbg(seed); VF_TRY(th, v = cp_ecdsa_gen(d, q)); if (th || v != RLC_OK) { vf_fail(NULL, "cp_ecdsa_gen failed"); return; } VF_TRY(th, cp_ecdsa_gen(d2, q2));
	const uint8_t *in = msg; size_t inl = len; int hflag = 0;
	if (mode) { /* pre-hashed: the "message" handed over is a digest-like string of `mode` bytes derived from the message */ ref_digest("SHA512", msg, len, dg); dl = mode > 64 ? 64 : mode; in = dg; inl = dl; hflag = 1; } else ref_digest("SHA256", msg, len, dg);
	VF_TRY(th, v = cp_ecdsa_sig(r, s, in, inl, hflag, d)); if (th || v != RLC_OK) { vf_fail(NULL, "cp_ecdsa_sig failed"); return; }
	rpt Q, Q2, M; rpt_init(&Q); rpt_init(&Q2); rpt_init(&M); ep_extract(&Q, q); ep_extract(&Q2, q2); mpz_t R, S, mr, ms, t; mpz_inits(R, S, mr, ms, t, NULL); vf_bn_get(R, r); vf_bn_get(S, s);
	{ mpz_t dd; mpz_init(dd); vf_bn_get(dd, d); rpt_mul(&RC, &M, &RG, dd); if (!rpt_eq(&M, &Q)) vf_fail(NULL, "cp_ecdsa_gen: public key is not [d]G"); if (mpz_sgn(dd) <= 0 || mpz_cmp(dd, RN) >= 0) vf_fail(NULL, "cp_ecdsa_gen: private key outside [1, n-1]"); mpz_clear(dd); }
	EC_GROUP *og = ossl_group(cid); char desc[160]; bn_t br, bs; bn_new(br); bn_new(bs);
	#define VER(RR, SS, IN, INL, QQ, QREF, DG, DL, DESC) do { if (vf_bn_set(br, RR) && vf_bn_set(bs, SS)) { VF_TRY(th, v = cp_ecdsa_ver(br, bs, IN, INL, hflag, QQ)); if (th) vf_fail(NULL, "cp_ecdsa_ver raised %d for: %s", th, DESC); else { int ex = ref_ecdsa_ver(RR, SS, DG, DL, QREF); JUDGE("cp_ecdsa_ver", DESC, v, ex); int ov = ossl_ecdsa_ver(og, RR, SS, DG, DL, QREF); if (ov >= 0) { transitions++; if (ov != ex) vf_fail(NULL, "oracle disagreement (reference %d, OpenSSL %d) for: %s", ex, ov, DESC); } } } } while (0)
	VER(R, S, in, inl, q, &Q, dg, dl, "the honest signature");
	if (!ref_ecdsa_ver(R, S, dg, dl, &Q)) vf_fail(NULL, "cp_ecdsa_sig: the signature does not satisfy the standard's verification equation");
	/* integer components */
	size_t nb = mpz_sizeinbase(RN, 2);
	for (int comp = 0; comp < 2; comp++) { for (size_t b = 0; b <= nb + 1; b++) { mpz_set(mr, R); mpz_set(ms, S); mpz_t *x = comp ? &ms : &mr; if (mpz_tstbit(*x, b)) mpz_clrbit(*x, b); else mpz_setbit(*x, b); snprintf(desc, sizeof desc, "%s with bit %zu flipped", comp ? "s" : "r", b); VER(mr, ms, in, inl, q, &Q, dg, dl, desc); }
		static const char *SUB[] = {"0", "1", "n", "n-1", "c+n", "n-c", "-c", "2^256-1", "c+2n", "2c mod n"};
		for (int k = 0; k < 10; k++) { mpz_set(mr, R); mpz_set(ms, S); mpz_t *x = comp ? &ms : &mr;
			switch (k) { case 0: mpz_set_ui(*x, 0); break; case 1: mpz_set_ui(*x, 1); break; case 2: mpz_set(*x, RN); break; case 3: mpz_sub_ui(*x, RN, 1); break; case 4: mpz_add(*x, *x, RN); break; case 5: mpz_sub(*x, RN, *x); break; case 6: mpz_neg(*x, *x); break; case 7: mpz_set_ui(*x, 1); mpz_mul_2exp(*x, *x, 256); mpz_sub_ui(*x, *x, 1); break; case 8: mpz_addmul_ui(*x, RN, 2); break; default: mpz_mul_2exp(*x, *x, 1); mpz_mod(*x, *x, RN); break; }
			snprintf(desc, sizeof desc, "%s replaced by %s", comp ? "s" : "r", SUB[k]); VER(mr, ms, in, inl, q, &Q, dg, dl, desc); } }
	VER(S, R, in, inl, q, &Q, dg, dl, "r and s swapped");
	/* message / digest bits */
	{ uint8_t *m2 = malloc(inl + 8); size_t nbits = inl * 8; for (size_t b = 0; b < nbits; b += (b < 64 || nbits - b <= 16 ? 1 : 7)) { memcpy(m2, in, inl); m2[b / 8] ^= (uint8_t)(1u << (b % 8)); if (hflag) memcpy(dg2, m2, inl); else ref_digest("SHA256", m2, inl, dg2); snprintf(desc, sizeof desc, "message bit %zu flipped", b); VER(R, S, m2, inl, q, &Q, dg2, dl, desc); }
		if (inl) { memcpy(m2, in, inl); if (hflag) memcpy(dg2, m2, inl - 1); else ref_digest("SHA256", m2, inl - 1, dg2); VER(R, S, m2, inl - 1, q, &Q, dg2, hflag ? dl - 1 : dl, "message truncated by one byte"); }
		memcpy(m2, in, inl); m2[inl] = 0; if (hflag) { memcpy(dg2, m2, inl + 1 > 64 ? 64 : inl + 1); } else ref_digest("SHA256", m2, inl + 1, dg2); if (!hflag || inl + 1 <= 64) VER(R, S, m2, inl + 1, q, &Q, dg2, hflag ? inl + 1 : dl, "message extended by a zero byte"); free(m2); }
	/* keys */
	{ static const char *KM[] = {"the identity as public key", "-Q", "Q + G", "[2]Q", "an off-curve point (x, y+1)", "a foreign public key", "the generator as public key", "(x of Q, 0)", "(0, 0)"};
		for (int k = 0; k < 9; k++) { rpt_set(&M, &Q); mpz_set_ui(t, 2);
			switch (k) { case 0: rpt_set_inf(&M); break; case 1: rpt_neg(&RC, &M, &Q); break; case 2: rpt_add(&RC, &M, &Q, &RG); break; case 3: rpt_mul(&RC, &M, &Q, t); break; case 4: mpz_add_ui(M.y, M.y, 1); mpz_mod(M.y, M.y, RC.p); break; case 5: rpt_set(&M, &Q2); break; case 6: rpt_set(&M, &RG); break; case 7: mpz_set_ui(M.y, 0); break; default: mpz_set_ui(M.x, 0); mpz_set_ui(M.y, 0); break; }
			ep_inject(qm, &M, REP_AFF, 1); VER(R, S, in, inl, qm, &M, dg, dl, KM[k]); }
		/* the classic forgery for an unchecked identity key: r = x(kG) mod n, s = e/k */
		{ mpz_t k, e; mpz_inits(k, e, NULL); mpz_set_ui(k, 7); rpt_mul(&RC, &M, &RG, k); mpz_mod(mr, M.x, RN); digest_to_e(e, dg, dl); mpz_invert(ms, k, RN); mpz_mul(ms, ms, e); mpz_mod(ms, ms, RN); if (mpz_sgn(ms)) { rpt_set_inf(&M); ep_inject(qm, &M, REP_AFF, 1); VER(mr, ms, in, inl, qm, &M, dg, dl, "a forgery (r = x(7G), s = e/7) under the identity as public key"); } mpz_clears(k, e, NULL); }
		/* projective representation of the honest key */
		ep_inject(qm, &Q, EP_ADD == PROJC ? REP_PRJ : EP_ADD == JACOB ? REP_JAC : REP_AFF, 5); VER(R, S, in, inl, qm, &Q, dg, dl, "the honest key in projective form"); }
	if (og) EC_GROUP_free(og);
	free(msg); rpt_clear(&Q); rpt_clear(&Q2); rpt_clear(&M); mpz_clears(R, S, mr, ms, t, NULL);
}

/* ---------------------------------------------------------------- EC-Schnorr (cp_ecss) */
static int ref_ecss_ver(const mpz_t e, const mpz_t s, const uint8_t *msg, size_t len, const rpt *Q) {
	if (mpz_sgn(e) < 0 || mpz_sgn(s) <= 0 || mpz_cmp(e, RN) >= 0 || mpz_cmp(s, RN) >= 0) return 0;
	if (Q->inf || !rpt_on_curve(&RC, Q)) return 0;
	rpt A, B; rpt_init(&A); rpt_init(&B); rpt_mul(&RC, &A, &RG, s); rpt_mul(&RC, &B, Q, e); rpt_add(&RC, &A, &A, &B); int ok = 0;
	if (!A.inf) { mpz_t rv, ev; mpz_inits(rv, ev, NULL); mpz_mod(rv, A.x, RN); uint8_t *m = malloc(len + RLC_FC_BYTES), h[32]; memcpy(m, msg, len); memset(m + len, 0, RLC_FC_BYTES); size_t n = (mpz_sizeinbase(rv, 2) + 7) / 8; if (mpz_sgn(rv)) mpz_export(m + len + RLC_FC_BYTES - n, NULL, 1, 1, 0, 0, rv);
		ref_digest("SHA256", m, len + RLC_FC_BYTES, h); size_t nb = mpz_sizeinbase(RN, 2); if (8 * 32 > nb) { size_t l = (nb + 7) / 8; mpz_import(ev, l, 1, 1, 0, 0, h); mpz_fdiv_q_2exp(ev, ev, 8 * 32 - nb); } else mpz_import(ev, 32, 1, 1, 0, 0, h); mpz_mod(ev, ev, RN); ok = !mpz_cmp(ev, e); free(m); mpz_clears(rv, ev, NULL); }
	rpt_clear(&A); rpt_clear(&B); return ok;
}
static void do_ecss(vf_case *c) {
	long cid = mpz_get_si(c->v[0]); unsigned long seed = mpz_get_ui(c->v[1]); size_t len = mpz_get_ui(c->v[2]); unsigned pat = (unsigned)mpz_get_ui(c->v[3]);
	if (!select_curve(cid)) { vf_fail(NULL, "curve refused"); return; }
	uint8_t *msg = malloc(len + 8); fill(msg, len, pat); int th, v; bn_t d, e, s, d2, be, bs; ec_t q, q2, qm; bn_new(d); bn_new(e); bn_new(s); bn_new(d2); bn_new(be); bn_new(bs); ec_new(q); ec_new(q2); ec_new(qm);
	seed_drbg(seed); VF_TRY(th, v = cp_ecss_gen(d, q)); if (th || v != RLC_OK) { vf_fail(NULL, "cp_ecss_gen failed"); return; } VF_TRY(th, cp_ecss_gen(d2, q2));
	VF_TRY(th, v = cp_ecss_sig(e, s, msg, len, d)); if (th || v != RLC_OK) { vf_fail(NULL, "cp_ecss_sig failed"); return; }
	rpt Q, Q2, M; rpt_init(&Q); rpt_init(&Q2); rpt_init(&M); ep_extract(&Q, q); ep_extract(&Q2, q2); mpz_t E, S, me, ms, t; mpz_inits(E, S, me, ms, t, NULL); vf_bn_get(E, e); vf_bn_get(S, s); char desc[160];
	#define VERS(EE, SS, MSG, LEN, QQ, QREF, DESC) do { if (vf_bn_set(be, EE) && vf_bn_set(bs, SS)) { VF_TRY(th, v = cp_ecss_ver(be, bs, MSG, LEN, QQ)); if (th) vf_fail(NULL, "cp_ecss_ver raised %d for: %s", th, DESC); else JUDGE("cp_ecss_ver", DESC, v, ref_ecss_ver(EE, SS, MSG, LEN, QREF)); } } while (0)
	VERS(E, S, msg, len, q, &Q, "the honest signature"); if (!ref_ecss_ver(E, S, msg, len, &Q)) vf_fail(NULL, "cp_ecss_sig: the signature does not satisfy the verification equation");
	size_t nb = mpz_sizeinbase(RN, 2);
	for (int comp = 0; comp < 2; comp++) { for (size_t b = 0; b <= nb + 1; b += (b < 70 || b + 10 > nb ? 1 : 5)) { mpz_set(me, E); mpz_set(ms, S); mpz_t *x = comp ? &ms : &me; if (mpz_tstbit(*x, b)) mpz_clrbit(*x, b); else mpz_setbit(*x, b); snprintf(desc, sizeof desc, "%s with bit %zu flipped", comp ? "s" : "e", b); VERS(me, ms, msg, len, q, &Q, desc); }
		for (int k = 0; k < 8; k++) { mpz_set(me, E); mpz_set(ms, S); mpz_t *x = comp ? &ms : &me; static const char *SUB[] = {"0", "1", "n", "n-1", "c+n", "n-c", "-c", "2^256-1"};
			switch (k) { case 0: mpz_set_ui(*x, 0); break; case 1: mpz_set_ui(*x, 1); break; case 2: mpz_set(*x, RN); break; case 3: mpz_sub_ui(*x, RN, 1); break; case 4: mpz_add(*x, *x, RN); break; case 5: mpz_sub(*x, RN, *x); break; case 6: mpz_neg(*x, *x); break; default: mpz_set_ui(*x, 1); mpz_mul_2exp(*x, *x, 256); mpz_sub_ui(*x, *x, 1); break; }
			snprintf(desc, sizeof desc, "%s replaced by %s", comp ? "s" : "e", SUB[k]); VERS(me, ms, msg, len, q, &Q, desc); } }
	VERS(S, E, msg, len, q, &Q, "e and s swapped");
	{ uint8_t *m2 = malloc(len + 8); for (size_t b = 0; b < len * 8; b += (b < 64 ? 1 : 11)) { memcpy(m2, msg, len); m2[b / 8] ^= (uint8_t)(1u << (b % 8)); snprintf(desc, sizeof desc, "message bit %zu flipped", b); VERS(E, S, m2, len, q, &Q, desc); } if (len) VERS(E, S, msg, len - 1, q, &Q, "message truncated by one byte"); free(m2); }
	{ static const char *KM[] = {"the identity as public key", "-Q", "Q + G", "an off-curve point (x, y+1)", "a foreign public key", "(x of Q, 0)"};
		for (int k = 0; k < 6; k++) { rpt_set(&M, &Q); switch (k) { case 0: rpt_set_inf(&M); break; case 1: rpt_neg(&RC, &M, &Q); break; case 2: rpt_add(&RC, &M, &Q, &RG); break; case 3: mpz_add_ui(M.y, M.y, 1); mpz_mod(M.y, M.y, RC.p); break; case 4: rpt_set(&M, &Q2); break; default: mpz_set_ui(M.y, 0); break; } ep_inject(qm, &M, REP_AFF, 1); VERS(E, S, msg, len, qm, &M, KM[k]); } }
	free(msg); rpt_clear(&Q); rpt_clear(&Q2); rpt_clear(&M); mpz_clears(E, S, me, ms, t, NULL);
}

/* ---------------------------------------------------------------- RSA-PSS (empty salt) against OpenSSL */
static int ossl_pss_ver(const mpz_t n, const mpz_t e, const uint8_t *sig, size_t sl, const uint8_t *dg) {
	char *hn = mpz_get_str(NULL, 16, n), *he = mpz_get_str(NULL, 16, e); BIGNUM *bn = NULL, *be = NULL; BN_hex2bn(&bn, hn); BN_hex2bn(&be, he); RSA *rsa = RSA_new(); RSA_set0_key(rsa, bn, be, NULL);
	EVP_PKEY *pk = EVP_PKEY_new(); EVP_PKEY_assign_RSA(pk, rsa); EVP_PKEY_CTX *cx = EVP_PKEY_CTX_new(pk, NULL); int ok = 0;
	if (EVP_PKEY_verify_init(cx) == 1 && EVP_PKEY_CTX_set_rsa_padding(cx, RSA_PKCS1_PSS_PADDING) == 1 && EVP_PKEY_CTX_set_signature_md(cx, EVP_sha256()) == 1 && EVP_PKEY_CTX_set_rsa_mgf1_md(cx, EVP_sha256()) == 1 && EVP_PKEY_CTX_set_rsa_pss_saltlen(cx, 0) == 1) ok = EVP_PKEY_verify(cx, sig, sl, dg, 32) == 1;
	EVP_PKEY_CTX_free(cx); EVP_PKEY_free(pk); free(hn); free(he); return ok;
}
/* rsa: bits, seed, len, pat, mode (0 message, 1 pre-hashed) */
static void do_rsa(vf_case *c) {
	size_t bits = mpz_get_ui(c->v[0]); unsigned long seed = mpz_get_ui(c->v[1]); size_t len = mpz_get_ui(c->v[2]); unsigned pat = (unsigned)mpz_get_ui(c->v[3]); int mode = (int)mpz_get_ui(c->v[4]);
	static rsa_t pub, prv, pub2, prv2; static size_t kbits = 0; static unsigned long kseed = ~0UL; int th, v;
	if (kbits != bits || kseed != seed) { rsa_null(pub); rsa_null(prv); rsa_new(pub); rsa_new(prv); rsa_new(pub2); rsa_new(prv2); seed_drbg(seed); VF_TRY(th, v = cp_rsa_gen(pub, prv, bits)); if (th || v != RLC_OK) { vf_fail(NULL, "cp_rsa_gen(%zu) failed", bits); return; } VF_TRY(th, v = cp_rsa_gen(pub2, prv2, bits)); kbits = bits; kseed = seed; }
	mpz_t N, E, t, sg; mpz_inits(N, E, t, sg, NULL); vf_bn_get(N, pub->crt->n); vf_bn_get(E, pub->e);
	if (mpz_sizeinbase(N, 2) != bits) vf_stat_add("x.rsa_modulus_one_bit_short", 1); /* observation: the product of two bits/2-bit primes may have bits - 1 bits; not part of this property */
	uint8_t *msg = malloc(len + 8), dg[32], dg2[32]; fill(msg, len, pat); ref_digest("SHA256", msg, len, dg); size_t kl = (bits + 7) / 8, sl = kl + 8; uint8_t *sig = malloc(kl + 16), *s2 = malloc(kl + 16); memset(sig, 0xA5, kl + 16);
	const uint8_t *in = mode ? dg : msg; size_t inl = mode ? 32 : len;
	seed_drbg(seed + 1000); VF_TRY(th, v = cp_rsa_sig(sig, &sl, in, inl, mode, prv)); if (th || v != RLC_OK) { vf_fail(NULL, "cp_rsa_sig failed (%zu-bit key, %zu-byte message)", bits, len); return; }
	if (sl != kl) vf_fail(NULL, "cp_rsa_sig: signature length %zu instead of the modulus length %zu", sl, kl); for (int i = 0; i < 8; i++) if (sig[sl + i] != 0xA5) { vf_fail(NULL, "cp_rsa_sig wrote beyond the signature"); break; }
	char desc[160];
	#define VERR(SIG, SL, IN, INL, PUB, NN, DG, DESC) do { memcpy(s2, SIG, SL); VF_TRY(th, v = cp_rsa_ver(s2, SL, IN, INL, mode, PUB)); if (th) vf_fail(NULL, "cp_rsa_ver raised %d for: %s", th, DESC); else JUDGE("cp_rsa_ver", DESC, v, ossl_pss_ver(NN, E, SIG, SL, DG)); } while (0)
	VERR(sig, sl, in, inl, pub, N, dg, "the honest signature");
	if (!ossl_pss_ver(N, E, sig, sl, dg)) vf_fail(NULL, "cp_rsa_sig: OpenSSL rejects the signature as RSASSA-PSS (SHA-256, MGF1-SHA-256, empty salt)");
	for (size_t b = 0; b < sl * 8; b += (b < 40 || b + 40 > sl * 8 ? 1 : 3)) { memcpy(sig + kl + 8 - kl - 8, sig, 0); uint8_t keep = sig[b / 8]; sig[b / 8] ^= (uint8_t)(1u << (b % 8)); snprintf(desc, sizeof desc, "signature bit %zu flipped", b); VERR(sig, sl, in, inl, pub, N, dg, desc); sig[b / 8] = keep; }
	{ uint8_t *m2 = malloc(inl + 8); for (size_t b = 0; b < inl * 8; b += (b < 32 ? 1 : 13)) { memcpy(m2, in, inl); m2[b / 8] ^= (uint8_t)(1u << (b % 8)); if (mode) memcpy(dg2, m2, 32); else ref_digest("SHA256", m2, inl, dg2); snprintf(desc, sizeof desc, "message bit %zu flipped", b); VERR(sig, sl, m2, inl, pub, N, dg2, desc); } free(m2); }
	/* sig + N (same length only if it fits), sig >= N, wrong lengths, all-zero, all-ones */
	{ mpz_import(sg, sl, 1, 1, 0, 0, sig); uint8_t *s3 = malloc(kl + 16);
		mpz_add(t, sg, N); if ((mpz_sizeinbase(t, 2) + 7) / 8 <= kl) { memset(s3, 0, kl); size_t n = (mpz_sizeinbase(t, 2) + 7) / 8; mpz_export(s3 + kl - n, NULL, 1, 1, 0, 0, t); VERR(s3, kl, in, inl, pub, N, dg, "signature + N (same length)"); }
		memset(s3, 0, kl); VERR(s3, kl, in, inl, pub, N, dg, "the all-zero signature"); memset(s3, 0xFF, kl); VERR(s3, kl, in, inl, pub, N, dg, "the all-ones signature (>= N)");
		memset(s3, 0, kl); s3[kl - 1] = 1; VERR(s3, kl, in, inl, pub, N, dg, "the signature 1");
		{ size_t n = (mpz_sizeinbase(N, 2) + 7) / 8; memset(s3, 0, kl); mpz_export(s3 + kl - n, NULL, 1, 1, 0, 0, N); VERR(s3, kl, in, inl, pub, N, dg, "the signature N"); mpz_sub_ui(t, N, 1); memset(s3, 0, kl); mpz_export(s3 + kl - n, NULL, 1, 1, 0, 0, t); VERR(s3, kl, in, inl, pub, N, dg, "the signature N - 1"); }
		/* wrong lengths: judged by rule (a signature whose length differs from the modulus length is invalid per RFC 8017 8.1.2 step 1) */
		memcpy(s3 + 1, sig, sl); s3[0] = 0; memcpy(s2, s3, sl + 1); VF_TRY(th, v = cp_rsa_ver(s2, sl + 1, in, inl, mode, pub)); if (!th) JUDGE("cp_rsa_ver", "the signature with a zero byte prepended (length k + 1)", v, 0);
		memcpy(s2, sig, sl); VF_TRY(th, v = cp_rsa_ver(s2, sl - 1, in, inl, mode, pub)); if (!th) JUDGE("cp_rsa_ver", "the signature truncated by its last byte (length k - 1)", v, 0);
		if (sig[0] == 0) { memcpy(s2, sig + 1, sl - 1); VF_TRY(th, v = cp_rsa_ver(s2, sl - 1, in, inl, mode, pub)); if (!th) JUDGE("cp_rsa_ver", "the signature with its leading zero byte stripped", v, 0); }
		free(s3); }
	/* the encoded message itself altered and re-signed with the private exponent (GMP): the padding, not the signature integer, is what is wrong */
	{ mpz_t D, EM, EM2, S2; mpz_inits(D, EM, EM2, S2, NULL); vf_bn_get(D, prv->d); mpz_import(sg, sl, 1, 1, 0, 0, sig); mpz_powm(EM, sg, E, N); size_t embits = mpz_sizeinbase(N, 2) - 1; uint8_t *s3 = malloc(kl + 16);
		if (mpz_sgn(D) > 0) for (size_t b = 0; b <= embits + 1; b += (b < 24 || b + 24 > embits ? 1 : (vf_tier ? 3 : 11))) { mpz_set(EM2, EM); if (mpz_tstbit(EM2, b)) mpz_clrbit(EM2, b); else mpz_setbit(EM2, b); if (mpz_cmp(EM2, N) >= 0) continue; mpz_powm(S2, EM2, D, N); memset(s3, 0, kl); size_t n = (mpz_sizeinbase(S2, 2) + 7) / 8; if (mpz_sgn(S2)) mpz_export(s3 + kl - n, NULL, 1, 1, 0, 0, S2); snprintf(desc, sizeof desc, "a signature of the encoded message with bit %zu (of %zu) flipped", b, embits); VERR(s3, kl, in, inl, pub, N, dg, desc); }
		free(s3); mpz_clears(D, EM, EM2, S2, NULL); }
	/* foreign key */
	{ mpz_t N2; mpz_init(N2); vf_bn_get(N2, pub2->crt->n); VERR(sig, sl, in, inl, pub2, N2, dg, "a foreign public key"); mpz_clear(N2); }
	free(msg); free(sig); free(s2); mpz_clears(N, E, t, sg, NULL);
}

/* ---------------------------------------------------------------- pairing-based: BLS, BB, ZSS, CL, PS */
static void g1_from(g1_t p, const rpt *P) { ep_inject(p, P, REP_AFF, 1); }
static void g2_from(g2_t p, const rpt2 *P) { ep2_inject(p, P, REP_AFF, 0); }
static int in_g1(const rpt *P) { if (P->inf || !rpt_on_curve(&RC, P)) return 0; rpt T; rpt_init(&T); rpt_mul(&RC, &T, P, RN); int r = T.inf; rpt_clear(&T); return r; }
static int in_g2(const rpt2 *P) { if (P->inf || !rpt2_on_curve(&RC2, P)) return 0; rpt2 T; rpt2_init(&T); rpt2_mul(&RC2, &T, P, RN2); int r = T.inf; rpt2_clear(&T); return r; }
/* e(A, B) == e(C, D) with operands given by the reference; identity operands allowed (value 1) */
static int pair_eq(const rpt *A, const rpt2 *B, const rpt *C, const rpt2 *D) {
	g1_t a, c2; g2_t b, d; gt_t e1, e2; g1_new(a); g1_new(c2); g2_new(b); g2_new(d); gt_new(e1); gt_new(e2); g1_from(a, A); g1_from(c2, C); g2_from(b, B); g2_from(d, D); int th; VF_TRY(th, pc_map(e1, a, b)); VF_TRY(th, pc_map(e2, c2, d)); return gt_cmp(e1, e2) == RLC_EQ;
}
static void hash_to_m(mpz_t m, const uint8_t *msg, size_t len, int hash) { if (hash) mpz_import(m, len, 1, 1, 0, 0, msg); else { uint8_t h[32]; ref_digest("SHA256", msg, len, h); mpz_import(m, 32, 1, 1, 0, 0, h); } mpz_mod(m, m, RN); }
/* mutations of a G1 component: returns a description, fills M; k in 0..6 */
static const char *mut_g1(rpt *M, const rpt *X, int k) { rpt_set(M, X); mpz_t two; mpz_init_set_ui(two, 2); const char *d = "";
	switch (k) { case 0: rpt_set_inf(M); d = "the identity"; break; case 1: rpt_set(M, &RG); d = "the generator"; break; case 2: rpt_neg(&RC, M, X); d = "-X"; break; case 3: rpt_add(&RC, M, X, &RG); d = "X + G"; break; case 4: rpt_mul(&RC, M, X, two); d = "[2]X"; break; case 5: mpz_add_ui(M->y, M->y, 1); mpz_mod(M->y, M->y, RC.p); d = "the off-curve point (x, y+1)"; break; default: mpz_set_ui(M->y, 0); d = "(x, 0)"; break; } mpz_clear(two); return d; }
static const char *mut_g2(rpt2 *M, const rpt2 *X, int k) { rpt2_set(M, X); mpz_t two; mpz_init_set_ui(two, 2); const char *d = "";
	switch (k) { case 0: rpt2_set_inf(M); d = "the identity"; break; case 1: rpt2_set(M, &RG2); d = "the generator"; break; case 2: rpt2_neg(M, X); d = "-X"; break; case 3: rpt2_add(&RC2, M, X, &RG2); d = "X + G"; break; case 4: rpt2_mul(&RC2, M, X, two); d = "[2]X"; break; case 5: mpz_add_ui(M->y.a, M->y.a, 1); mpz_mod(M->y.a, M->y.a, F2P); d = "the off-curve point (x, y+1)"; break;
		default: { /* a twist point outside G2 added: X + T */ f2 x; f2_init(&x); rpt2 T; rpt2_init(&T); for (long i = 1; i < 200; i++) { f2_set_si(&x, i % 20, 1 + i / 20); if (rpt2_lift_x(&RC2, &T, &x)) break; } rpt2_add(&RC2, M, X, &T); d = "X + T with T a twist point outside G2"; f2_clear(&x); rpt2_clear(&T); } break; } mpz_clear(two); return d; }
/* pair: scheme (0 bls, 1 bbs, 2 zss, 3 cls, 4 pss), cid, seed, len, pat, hashflag */
static void do_pair(vf_case *c) {
	int sch = (int)mpz_get_si(c->v[0]); long cid = mpz_get_si(c->v[1]); unsigned long seed = mpz_get_ui(c->v[2]); size_t len = mpz_get_ui(c->v[3]); unsigned pat = (unsigned)mpz_get_ui(c->v[4]); int hflag = (int)mpz_get_ui(c->v[5]);
	if (!select_pc(cid)) { vf_fail(NULL, "parameter set refused"); return; }
	uint8_t *msg = malloc(len + 72), *m2 = malloc(len + 72); fill(msg, len, pat); int th, v = 0; char desc[200]; mpz_t m, t, dd; mpz_inits(m, t, dd, NULL);
	rpt S1, M1, H1, T1; rpt2 Q2, M2, S2, T2; rpt_init(&S1); rpt_init(&M1); rpt_init(&H1); rpt_init(&T1); rpt2_init(&Q2); rpt2_init(&M2); rpt2_init(&S2); rpt2_init(&T2);
	bn_t d, d2, u, vv; g1_t s, sm, a, b, cc, q1; g2_t q, qm, q2, x, y, gg; gt_t z, z2; bn_new(d); bn_new(d2); bn_new(u); bn_new(vv); g1_new(s); g1_new(sm); g1_new(a); g1_new(b); g1_new(cc); g1_new(q1); g2_new(q); g2_new(qm); g2_new(q2); g2_new(x); g2_new(y); g2_new(gg); gt_new(z); gt_new(z2);
	seed_drbg(seed);
	if (sch == 0) { /* BLS: e(H(m), Q) = e(s, G2); Q must be a valid G2 element; s must be in G1 (the equation forces it up to the kernel, the definition asks for a group element) */
		VF_TRY(th, v = cp_bls_gen(d, q)); if (th || v != RLC_OK) { vf_fail(NULL, "cp_bls_gen failed"); goto out; } VF_TRY(th, cp_bls_gen(d2, q2)); VF_TRY(th, v = cp_bls_sig(s, msg, len, d)); if (th || v != RLC_OK) { vf_fail(NULL, "cp_bls_sig failed"); goto out; }
		ep_extract(&S1, s); ep2_extract(&Q2, q); { g1_t h; g1_new(h); VF_TRY(th, g1_map(h, msg, len)); ep_extract(&H1, h); }
		vf_bn_get(dd, d); rpt2_mul(&RC2, &T2, &RG2, dd); if (!rpt2_eq(&T2, &Q2)) vf_fail(NULL, "cp_bls_gen: public key is not [d]G2"); rpt_mul(&RC, &T1, &H1, dd); if (!rpt_eq(&T1, &S1)) vf_fail(NULL, "cp_bls_sig: signature is not [d]H(m) (hash-to-curve decided by C13)");
		#define BLS(SS, SREF, MSG, LEN, HREF, QQ, QREF, DESC) do { VF_TRY(th, v = cp_bls_ver(SS, MSG, LEN, QQ)); if (th) vf_fail(NULL, "cp_bls_ver raised %d for: %s", th, DESC); else { int ex = in_g2(QREF) && !(SREF)->inf && rpt_on_curve(&RC, SREF) && pair_eq(HREF, QREF, SREF, &RG2); JUDGE("cp_bls_ver", DESC, v, ex); } } while (0)
		BLS(s, &S1, msg, len, &H1, q, &Q2, "the honest signature");
		for (int k = 0; k < 7; k++) { const char *dsc = mut_g1(&M1, &S1, k); g1_from(sm, &M1); snprintf(desc, sizeof desc, "signature replaced by %s", dsc); BLS(sm, &M1, msg, len, &H1, q, &Q2, desc); }
		for (int k = 0; k < 7; k++) { const char *dsc = mut_g2(&M2, &Q2, k); g2_from(qm, &M2); snprintf(desc, sizeof desc, "public key replaced by %s", dsc); BLS(s, &S1, msg, len, &H1, qm, &M2, desc); }
		{ ep2_extract(&M2, q2); BLS(s, &S1, msg, len, &H1, q2, &M2, "a foreign public key"); }
		for (size_t bt = 0; bt < len * 8; bt += (bt < 16 ? 1 : 29)) { memcpy(m2, msg, len); m2[bt / 8] ^= (uint8_t)(1u << (bt % 8)); g1_t h; g1_new(h); VF_TRY(th, g1_map(h, m2, len)); ep_extract(&T1, h); snprintf(desc, sizeof desc, "message bit %zu flipped", bt); BLS(s, &S1, m2, len, &T1, q, &Q2, desc); }
		/* identity key with identity signature: e(H, O) = e(O, G2) = 1 holds, the definition rejects the key */
		rpt_set_inf(&M1); rpt2_set_inf(&M2); g1_from(sm, &M1); g2_from(qm, &M2); BLS(sm, &M1, msg, len, &H1, qm, &M2, "identity signature under the identity key");
	} else if (sch == 1 || sch == 2) { /* BB: s = [1/(m+d)]G1, z = e(G1, G2): e(s, [m]G2 + Q) = z ; ZSS mirrored */
		hash_to_m(m, hflag ? (ref_digest("SHA256", msg, len, m2), m2) : msg, hflag ? 32 : len, hflag);
		const uint8_t *in = hflag ? m2 : msg; size_t inl = hflag ? 32 : len;
		if (sch == 1) { VF_TRY(th, v = cp_bbs_gen(d, q, z)); if (th || v != RLC_OK) { vf_fail(NULL, "cp_bbs_gen failed"); goto out; } VF_TRY(th, cp_bbs_gen(d2, q2, z2)); VF_TRY(th, v = cp_bbs_sig(s, in, inl, hflag, d)); if (th || v != RLC_OK) { vf_fail(NULL, "cp_bbs_sig failed"); goto out; }
			ep_extract(&S1, s); ep2_extract(&Q2, q);
			#define BBS(SS, SREF, MM, IN, INL, QQ, QREF, DESC) do { VF_TRY(th, v = cp_bbs_ver(SS, IN, INL, hflag, QQ, z)); if (th) vf_fail(NULL, "cp_bbs_ver raised %d for: %s", th, DESC); else { rpt2_mul(&RC2, &T2, &RG2, MM); rpt2_add(&RC2, &T2, &T2, QREF); int ex = in_g1(SREF) && !(QREF)->inf && rpt2_on_curve(&RC2, QREF) && pair_eq(SREF, &T2, &RG, &RG2); JUDGE("cp_bbs_ver", DESC, v, ex); } } while (0)
			BBS(s, &S1, m, in, inl, q, &Q2, "the honest signature");
			for (int k = 0; k < 7; k++) { const char *dsc = mut_g1(&M1, &S1, k); g1_from(sm, &M1); snprintf(desc, sizeof desc, "signature replaced by %s", dsc); BBS(sm, &M1, m, in, inl, q, &Q2, desc); }
			for (int k = 0; k < 6; k++) { const char *dsc = mut_g2(&M2, &Q2, k); g2_from(qm, &M2); snprintf(desc, sizeof desc, "public key replaced by %s", dsc); BBS(s, &S1, m, in, inl, qm, &M2, desc); }
			for (size_t bt = 0; bt < inl * 8; bt += (bt < 16 ? 1 : 29)) { uint8_t m3[300]; memcpy(m3, in, inl); m3[bt / 8] ^= (uint8_t)(1u << (bt % 8)); hash_to_m(t, m3, inl, hflag); snprintf(desc, sizeof desc, "message bit %zu flipped", bt); BBS(s, &S1, t, m3, inl, q, &Q2, desc); }
		} else { VF_TRY(th, v = cp_zss_gen(d, q1, z)); if (th || v != RLC_OK) { vf_fail(NULL, "cp_zss_gen failed"); goto out; } VF_TRY(th, v = cp_zss_sig(x, in, inl, hflag, d)); if (th || v != RLC_OK) { vf_fail(NULL, "cp_zss_sig failed"); goto out; }
			ep2_extract(&S2, x); ep_extract(&S1, q1);
			#define ZSS(SS, SREF, MM, IN, INL, QQ, QREF, DESC) do { VF_TRY(th, v = cp_zss_ver(SS, IN, INL, hflag, QQ, z)); if (th) vf_fail(NULL, "cp_zss_ver raised %d for: %s", th, DESC); else { rpt_mul(&RC, &T1, &RG, MM); rpt_add(&RC, &T1, &T1, QREF); int ex = in_g2(SREF) && !(QREF)->inf && rpt_on_curve(&RC, QREF) && pair_eq(&T1, SREF, &RG, &RG2); JUDGE("cp_zss_ver", DESC, v, ex); } } while (0)
			ZSS(x, &S2, m, in, inl, q1, &S1, "the honest signature");
			for (int k = 0; k < 7; k++) { const char *dsc = mut_g2(&M2, &S2, k); g2_from(qm, &M2); snprintf(desc, sizeof desc, "signature replaced by %s", dsc); ZSS(qm, &M2, m, in, inl, q1, &S1, desc); }
			for (int k = 0; k < 7; k++) { const char *dsc = mut_g1(&M1, &S1, k); g1_from(sm, &M1); snprintf(desc, sizeof desc, "public key replaced by %s", dsc); ZSS(x, &S2, m, in, inl, sm, &M1, desc); }
			for (size_t bt = 0; bt < inl * 8; bt += (bt < 16 ? 1 : 29)) { uint8_t m3[300]; memcpy(m3, in, inl); m3[bt / 8] ^= (uint8_t)(1u << (bt % 8)); hash_to_m(t, m3, inl, hflag); snprintf(desc, sizeof desc, "message bit %zu flipped", bt); ZSS(x, &S2, t, m3, inl, q1, &S1, desc); } }
	} else if (sch == 3) { /* CL-A: e(a, Y) = e(b, G2) and e(a + [m]b, X) = e(c, G2), a, b, c not the identity; message taken as an integer mod n */
		VF_TRY(th, v = cp_cls_gen(u, vv, x, y)); if (th || v != RLC_OK) { vf_fail(NULL, "cp_cls_gen failed"); goto out; } VF_TRY(th, v = cp_cls_sig(a, b, cc, msg, len, u, vv)); if (th || v != RLC_OK) { vf_fail(NULL, "cp_cls_sig failed"); goto out; }
		rpt A, B, C3, MA; rpt2 X2, Y2, MX; rpt_init(&A); rpt_init(&B); rpt_init(&C3); rpt_init(&MA); rpt2_init(&X2); rpt2_init(&Y2); rpt2_init(&MX); ep_extract(&A, a); ep_extract(&B, b); ep_extract(&C3, cc); ep2_extract(&X2, x); ep2_extract(&Y2, y);
		mpz_import(m, len, 1, 1, 0, 0, msg); mpz_mod(m, m, RN);
		#define CLS(AA, AR, BB, BR, CC, CR, MM, MSG, LEN, XX, XR, YY, YR, DESC) do { VF_TRY(th, v = cp_cls_ver(AA, BB, CC, MSG, LEN, XX, YY)); if (th) vf_fail(NULL, "cp_cls_ver raised %d for: %s", th, DESC); else { rpt_mul(&RC, &T1, BR, MM); rpt_add(&RC, &T1, &T1, AR); int wf = !(AR)->inf && !(BR)->inf && !(CR)->inf && rpt_on_curve(&RC, AR) && rpt_on_curve(&RC, BR) && rpt_on_curve(&RC, CR); int ex = wf && pair_eq(AR, YR, BR, &RG2) && pair_eq(&T1, XR, CR, &RG2); JUDGE("cp_cls_ver", DESC, v, ex); } } while (0)
		CLS(a, &A, b, &B, cc, &C3, m, msg, len, x, &X2, y, &Y2, "the honest signature");
		for (int comp = 0; comp < 3; comp++) for (int k = 0; k < 7; k++) { const rpt *src = comp == 0 ? &A : comp == 1 ? &B : &C3; const char *dsc = mut_g1(&MA, src, k); g1_from(sm, &MA); snprintf(desc, sizeof desc, "component %c replaced by %s", "abc"[comp], dsc);
			if (comp == 0) CLS(sm, &MA, b, &B, cc, &C3, m, msg, len, x, &X2, y, &Y2, desc); else if (comp == 1) CLS(a, &A, sm, &MA, cc, &C3, m, msg, len, x, &X2, y, &Y2, desc); else CLS(a, &A, b, &B, sm, &MA, m, msg, len, x, &X2, y, &Y2, desc); }
		for (int comp = 0; comp < 2; comp++) for (int k = 0; k < 5; k++) { /* k = 5 (off-curve key) is not applied: these verifiers take certified keys, an off-curve key has no defined verdict */ const char *dsc = mut_g2(&MX, comp ? &Y2 : &X2, k); g2_from(qm, &MX); snprintf(desc, sizeof desc, "public key %c replaced by %s", "XY"[comp], dsc); if (comp == 0) CLS(a, &A, b, &B, cc, &C3, m, msg, len, qm, &MX, y, &Y2, desc); else CLS(a, &A, b, &B, cc, &C3, m, msg, len, x, &X2, qm, &MX, desc); }
		for (size_t bt = 0; bt < len * 8; bt += (bt < 16 ? 1 : 29)) { memcpy(m2, msg, len); m2[bt / 8] ^= (uint8_t)(1u << (bt % 8)); mpz_import(t, len, 1, 1, 0, 0, m2); mpz_mod(t, t, RN); snprintf(desc, sizeof desc, "message bit %zu flipped", bt); CLS(a, &A, b, &B, cc, &C3, t, m2, len, x, &X2, y, &Y2, desc); }
		/* all-identity signature: both equations hold trivially, the definition rejects it */
		rpt_set_inf(&MA); g1_from(sm, &MA); CLS(sm, &MA, sm, &MA, sm, &MA, m, msg, len, x, &X2, y, &Y2, "the all-identity signature");
	} else { /* PS: e(a, X + [m]Y) = e(b, g), a not the identity */
		bn_t bm; bn_new(bm); mpz_import(m, len > 31 ? 31 : len, 1, 1, 0, 0, msg); mpz_mod(m, m, RN); vf_bn_set(bm, m);
		VF_TRY(th, v = cp_pss_gen(u, vv, gg, x, y)); if (th || v != RLC_OK) { vf_fail(NULL, "cp_pss_gen failed"); goto out; } VF_TRY(th, v = cp_pss_sig(a, b, bm, u, vv)); if (th || v != RLC_OK) { vf_fail(NULL, "cp_pss_sig failed"); goto out; }
		rpt A, B, MA; rpt2 G2, X2, Y2, MX; rpt_init(&A); rpt_init(&B); rpt_init(&MA); rpt2_init(&G2); rpt2_init(&X2); rpt2_init(&Y2); rpt2_init(&MX); ep_extract(&A, a); ep_extract(&B, b); ep2_extract(&G2, gg); ep2_extract(&X2, x); ep2_extract(&Y2, y);
		#define PSS(AA, AR, BB, BR, MM, GG, GR, XX, XR, YY, YR, DESC) do { bn_t bmm; bn_new(bmm); if (vf_bn_set(bmm, MM)) { VF_TRY(th, v = cp_pss_ver(AA, BB, bmm, GG, XX, YY)); if (th) vf_fail(NULL, "cp_pss_ver raised %d for: %s", th, DESC); else { rpt2_mul(&RC2, &T2, YR, MM); rpt2_add(&RC2, &T2, &T2, XR); int wf = !(AR)->inf && rpt_on_curve(&RC, AR) && ((BR)->inf || rpt_on_curve(&RC, BR)); int ex = wf && pair_eq(AR, &T2, BR, GR); JUDGE("cp_pss_ver", DESC, v, ex); } } } while (0)
		PSS(a, &A, b, &B, m, gg, &G2, x, &X2, y, &Y2, "the honest signature");
		for (int comp = 0; comp < 2; comp++) for (int k = 0; k < 7; k++) { const char *dsc = mut_g1(&MA, comp ? &B : &A, k); g1_from(sm, &MA); snprintf(desc, sizeof desc, "component %c replaced by %s", "ab"[comp], dsc); if (comp == 0) PSS(sm, &MA, b, &B, m, gg, &G2, x, &X2, y, &Y2, desc); else PSS(a, &A, sm, &MA, m, gg, &G2, x, &X2, y, &Y2, desc); }
		for (int comp = 0; comp < 3; comp++) for (int k = 0; k < 5; k++) { const char *dsc = mut_g2(&MX, comp == 0 ? &G2 : comp == 1 ? &X2 : &Y2, k); g2_from(qm, &MX); snprintf(desc, sizeof desc, "public key %c replaced by %s", "gXY"[comp], dsc); if (comp == 0) PSS(a, &A, b, &B, m, qm, &MX, x, &X2, y, &Y2, desc); else if (comp == 1) PSS(a, &A, b, &B, m, gg, &G2, qm, &MX, y, &Y2, desc); else PSS(a, &A, b, &B, m, gg, &G2, x, &X2, qm, &MX, desc); }
		for (int k = 0; k < 6; k++) { mpz_set(t, m); switch (k) { case 0: mpz_add_ui(t, t, 1); break; case 1: mpz_set_ui(t, 0); break; case 2: mpz_add(t, t, RN); break; case 3: mpz_sub(t, RN, t); break; case 4: mpz_neg(t, t); break; default: mpz_mul_2exp(t, t, 1); break; } snprintf(desc, sizeof desc, "message substitution %d", k); PSS(a, &A, b, &B, t, gg, &G2, x, &X2, y, &Y2, desc); }
		rpt_set_inf(&MA); g1_from(sm, &MA); PSS(sm, &MA, sm, &MA, m, gg, &G2, x, &X2, y, &Y2, "the all-identity signature");
	}
out:
	free(msg); free(m2); mpz_clears(m, t, dd, NULL);
}

/* ---------------------------------------------------------------- tier B: completeness + structurally invalid mutations */
/* tb: scheme (0 vbnn, 1 pokdl, 2 pokor, 3 sokdl, 4 sokor, 5 cli, 6 psb, 7 ers, 8 smlers), cid, seed, len, pat */
static void do_tb(vf_case *c) {
	int sch = (int)mpz_get_si(c->v[0]); long cid = mpz_get_si(c->v[1]); unsigned long seed = mpz_get_ui(c->v[2]); size_t len = mpz_get_ui(c->v[3]); unsigned pat = (unsigned)mpz_get_ui(c->v[4]);
	if (sch == 5 || sch == 6) { if (!select_pc(cid)) { vf_fail(NULL, "parameter set refused"); return; } } else if (!select_curve(cid)) { vf_fail(NULL, "curve refused"); return; }
	uint8_t *msg = malloc(len + 8), *m2 = malloc(len + 8); fill(msg, len, pat); memcpy(m2, msg, len); if (len) m2[len / 2] ^= 0x10; int th, v; seed_drbg(seed);
	#define ACC(WHO, X, DESC) do { VF_TRY(th, v = (X)); if (th) vf_fail(NULL, "%s raised %d for: %s", WHO, th, DESC); else JUDGE(WHO, DESC, v, 1); } while (0)
	#define REJ(WHO, X, DESC) do { VF_TRY(th, v = (X)); if (!th) JUDGE(WHO, DESC, v, 0); else { transitions++; nrej++; } } while (0)
	if (sch == 0) { bn_t msk, sk, z, h, z2; ec_t mpk, pk, r, mpk2; bn_new(msk); bn_new(sk); bn_new(z); bn_new(h); bn_new(z2); ec_new(mpk); ec_new(pk); ec_new(r); ec_new(mpk2); uint8_t id[] = "alice@example", id2[] = "alicf@example";
		VF_TRY(th, v = cp_vbnn_gen(msk, mpk)); VF_TRY(th, v = cp_vbnn_gen_prv(sk, pk, msk, id, sizeof id)); VF_TRY(th, v = cp_vbnn_sig(r, z, h, id, sizeof id, msg, len, sk, pk)); if (th || v != RLC_OK) { vf_fail(NULL, "cp_vbnn_sig failed"); return; }
		ACC("cp_vbnn_ver", cp_vbnn_ver(r, z, h, id, sizeof id, msg, len, mpk), "the honest signature");
		if (len) REJ("cp_vbnn_ver", cp_vbnn_ver(r, z, h, id, sizeof id, m2, len, mpk), "one message bit flipped");
		REJ("cp_vbnn_ver", cp_vbnn_ver(r, z, h, id2, sizeof id2, msg, len, mpk), "one identity bit flipped");
		bn_add_dig(z2, z, 1); REJ("cp_vbnn_ver", cp_vbnn_ver(r, z2, h, id, sizeof id, msg, len, mpk), "z + 1"); bn_add_dig(z2, h, 1); REJ("cp_vbnn_ver", cp_vbnn_ver(r, z, z2, id, sizeof id, msg, len, mpk), "h + 1");
		ec_curve_get_gen(mpk2); ec_add(mpk2, mpk2, mpk); ec_norm(mpk2, mpk2); REJ("cp_vbnn_ver", cp_vbnn_ver(r, z, h, id, sizeof id, msg, len, mpk2), "master key + G");
		ec_curve_get_gen(mpk2); ec_add(mpk2, mpk2, r); ec_norm(mpk2, mpk2); REJ("cp_vbnn_ver", cp_vbnn_ver(mpk2, z, h, id, sizeof id, msg, len, mpk), "R + G");
	} else if (sch == 1 || sch == 3) { bn_t x, cc, r, n, t; ec_t y, y2; bn_new(x); bn_new(cc); bn_new(r); bn_new(n); bn_new(t); ec_new(y); ec_new(y2); ec_curve_get_ord(n); bn_rand_mod(x, n); ec_mul_gen(y, x); ec_curve_get_gen(y2); ec_add(y2, y2, y); ec_norm(y2, y2);
		if (sch == 1) { VF_TRY(th, v = cp_pokdl_prv(cc, r, y, x)); ACC("cp_pokdl_ver", cp_pokdl_ver(cc, r, y), "the honest proof"); bn_add_dig(t, cc, 1); REJ("cp_pokdl_ver", cp_pokdl_ver(t, r, y), "c + 1"); bn_add_dig(t, r, 1); REJ("cp_pokdl_ver", cp_pokdl_ver(cc, t, y), "r + 1"); REJ("cp_pokdl_ver", cp_pokdl_ver(cc, r, y2), "statement y + G"); }
		else { VF_TRY(th, v = cp_sokdl_sig(cc, r, msg, len, y, x)); ACC("cp_sokdl_ver", cp_sokdl_ver(cc, r, msg, len, y), "the honest signature"); if (len) REJ("cp_sokdl_ver", cp_sokdl_ver(cc, r, m2, len, y), "one message bit flipped"); bn_add_dig(t, cc, 1); REJ("cp_sokdl_ver", cp_sokdl_ver(t, r, msg, len, y), "c + 1"); bn_add_dig(t, r, 1); REJ("cp_sokdl_ver", cp_sokdl_ver(cc, t, msg, len, y), "r + 1"); REJ("cp_sokdl_ver", cp_sokdl_ver(cc, r, msg, len, y2), "statement y + G"); }
	} else if (sch == 2 || sch == 4) { bn_t x, cs[2], rs[2], n, t, keep; ec_t ys[2], y2; bn_new(x); bn_new(n); bn_new(t); bn_new(keep); ec_new(y2); for (int i = 0; i < 2; i++) { bn_new(cs[i]); bn_new(rs[i]); ec_new(ys[i]); } ec_curve_get_ord(n);
		for (int first = 0; first < 2; first++) { bn_rand_mod(x, n); ec_mul_gen(ys[0], x); ec_rand(ys[1]); if (!first) { ec_copy(y2, ys[0]); ec_copy(ys[0], ys[1]); ec_copy(ys[1], y2); }
			if (sch == 2) { VF_TRY(th, v = cp_pokor_prv(cs, rs, (const ec_t *)ys, x)); { VF_TRY(th, v = cp_pokor_ver((const bn_t *)cs, (const bn_t *)rs, (const ec_t *)ys)); transitions++; nmut++; nacc++; if (th || !v) vf_fail(first ? "L38-pokor-first-statement" : NULL, "cp_pokor_ver: rejects the honest proof (%s statement known)", first ? "first" : "second"); if (th || !v) continue; }
				for (int i = 0; i < 2; i++) { bn_copy(keep, cs[i]); bn_add_dig(cs[i], cs[i], 1); REJ("cp_pokor_ver", cp_pokor_ver((const bn_t *)cs, (const bn_t *)rs, (const ec_t *)ys), "a challenge + 1"); bn_copy(cs[i], keep); bn_copy(keep, rs[i]); bn_add_dig(rs[i], rs[i], 1); REJ("cp_pokor_ver", cp_pokor_ver((const bn_t *)cs, (const bn_t *)rs, (const ec_t *)ys), "a response + 1"); bn_copy(rs[i], keep); } }
			else { VF_TRY(th, v = cp_sokor_sig(cs, rs, msg, len, (const ec_t *)ys, NULL, x, first)); ACC("cp_sokor_ver", cp_sokor_ver((const bn_t *)cs, (const bn_t *)rs, msg, len, (const ec_t *)ys, NULL), "the honest signature"); if (len) REJ("cp_sokor_ver", cp_sokor_ver((const bn_t *)cs, (const bn_t *)rs, m2, len, (const ec_t *)ys, NULL), "one message bit flipped");
				for (int i = 0; i < 2; i++) { bn_copy(keep, rs[i]); bn_add_dig(rs[i], rs[i], 1); REJ("cp_sokor_ver", cp_sokor_ver((const bn_t *)cs, (const bn_t *)rs, msg, len, (const ec_t *)ys, NULL), "a response + 1"); bn_copy(rs[i], keep); } } }
	} else if (sch == 5) { bn_t t, u, vv, r; g1_t a, A, b, B, cc, g; g2_t x, y, z; bn_new(t); bn_new(u); bn_new(vv); bn_new(r); g1_new(a); g1_new(A); g1_new(b); g1_new(B); g1_new(cc); g1_new(g); g2_new(x); g2_new(y); g2_new(z);
		VF_TRY(th, v = cp_cli_gen(t, u, vv, x, y, z)); bn_rand_mod(r, &core_get()->ep_r); VF_TRY(th, v = cp_cli_sig(a, A, b, B, cc, msg, len, r, t, u, vv)); if (th || v != RLC_OK) { vf_fail(NULL, "cp_cli_sig failed"); return; }
		ACC("cp_cli_ver", cp_cli_ver(a, A, b, B, cc, msg, len, r, x, y, z), "the honest signature"); if (len) REJ("cp_cli_ver", cp_cli_ver(a, A, b, B, cc, m2, len, r, x, y, z), "one message bit flipped");
		g1_get_gen(g); g1_add(g, g, cc); g1_norm(g, g); REJ("cp_cli_ver", cp_cli_ver(a, A, b, B, g, msg, len, r, x, y, z), "c + G"); g1_get_gen(g); g1_add(g, g, A); g1_norm(g, g); REJ("cp_cli_ver", cp_cli_ver(a, g, b, B, cc, msg, len, r, x, y, z), "A + G");
		g1_get_gen(g); g1_add(g, g, b); g1_norm(g, g); REJ("cp_cli_ver", cp_cli_ver(a, A, g, B, cc, msg, len, r, x, y, z), "b + G"); bn_add_dig(t, r, 1); REJ("cp_cli_ver", cp_cli_ver(a, A, b, B, cc, msg, len, t, x, y, z), "commitment randomness + 1");
	} else if (sch == 6) { enum { L = 3 }; bn_t r, s[L], ms[L], keep; g1_t a, b, g; g2_t gg, x, y[L]; bn_new(r); bn_new(keep); g1_new(a); g1_new(b); g1_new(g); g2_new(gg); g2_new(x); for (int i = 0; i < L; i++) { bn_new(s[i]); bn_new(ms[i]); g2_new(y[i]); bn_set_dig(ms[i], (dig_t)(len * 3 + i + pat)); }
		VF_TRY(th, v = cp_psb_gen(r, s, gg, x, y, L)); VF_TRY(th, v = cp_psb_sig(a, b, (const bn_t *)ms, r, (const bn_t *)s, L)); if (th || v != RLC_OK) { vf_fail(NULL, "cp_psb_sig failed"); return; }
		ACC("cp_psb_ver", cp_psb_ver(a, b, (const bn_t *)ms, gg, x, (const g2_t *)y, L), "the honest signature");
		for (int i = 0; i < L; i++) { bn_copy(keep, ms[i]); bn_add_dig(ms[i], ms[i], 1); REJ("cp_psb_ver", cp_psb_ver(a, b, (const bn_t *)ms, gg, x, (const g2_t *)y, L), "a message + 1"); bn_copy(ms[i], keep); }
		g1_get_gen(g); g1_add(g, g, b); g1_norm(g, g); REJ("cp_psb_ver", cp_psb_ver(a, g, (const bn_t *)ms, gg, x, (const g2_t *)y, L), "b + G"); g1_set_infty(g); REJ("cp_psb_ver", cp_psb_ver(g, g, (const bn_t *)ms, gg, x, (const g2_t *)y, L), "the all-identity signature");
	}
	else if (sch == 7 || sch == 8) { enum { R = 4 }; bn_t td, sk[R], keep, td2; ec_t pp, pk[R]; bn_new(td); bn_new(keep); bn_new(td2); ec_new(pp); for (int i = 0; i < R; i++) { bn_new(sk[i]); ec_new(pk[i]); VF_TRY(th, v = cp_ers_gen_key(sk[i], pk[i])); } VF_TRY(th, v = cp_ers_gen(pp));
		if (sch == 7) { ers_t ring[R]; for (int i = 0; i < R; i++) { ers_null(ring[i]); ers_new(ring[i]); } size_t size = 1; VF_TRY(th, v = cp_ers_sig(td, ring[0], msg, len, sk[0], pk[0], pp)); if (th || v != RLC_OK) { vf_fail(NULL, "cp_ers_sig failed"); return; }
			for (int j = 0; j < R; j++) { if (j) { VF_TRY(th, v = cp_ers_ext(td, ring, &size, msg, len, pk[j], pp)); if (th || v != RLC_OK) { vf_fail(NULL, "cp_ers_ext failed at ring size %d", j + 1); return; } }
				char d2[96]; snprintf(d2, sizeof d2, "the honest ring signature of size %zu", size); ACC("cp_ers_ver", cp_ers_ver(td, (const ers_t *)ring, size, msg, len, pp), d2); if (len) REJ("cp_ers_ver", cp_ers_ver(td, (const ers_t *)ring, size, m2, len, pp), "one message bit flipped");
				bn_add_dig(td2, td, 1); REJ("cp_ers_ver", cp_ers_ver(td2, (const ers_t *)ring, size, msg, len, pp), "trapdoor value + 1");
				/* EVERY member's proof components altered one at a time: each must make the ring signature invalid */
				for (size_t mbr = 0; mbr < size; mbr++) for (int comp = 0; comp < 4; comp++) { bn_st *x = comp < 2 ? ring[mbr]->c[comp] : ring[mbr]->r[comp - 2]; bn_copy(keep, x); bn_add_dig(x, x, 1); snprintf(d2, sizeof d2, "ring size %zu: member %zu %s[%d] + 1", size, mbr, comp < 2 ? "c" : "r", comp & 1); REJ("cp_ers_ver", cp_ers_ver(td, (const ers_t *)ring, size, msg, len, pp), d2); bn_copy(x, keep); }
				if (size > 1) REJ("cp_ers_ver", cp_ers_ver(td, (const ers_t *)ring, size - 1, msg, len, pp), "the ring truncated by its last member"); } }
		else { smlers_t ring[R]; for (int i = 0; i < R; i++) { smlers_null(ring[i]); smlers_new(ring[i]); } size_t size = 1; VF_TRY(th, v = cp_smlers_sig(td, ring[0], msg, len, sk[0], pk[0], pp)); if (th || v != RLC_OK) { vf_fail(NULL, "cp_smlers_sig failed"); return; }
			for (int j = 0; j < R; j++) { if (j) { VF_TRY(th, v = cp_smlers_ext(td, ring, &size, msg, len, pk[j], pp)); if (th || v != RLC_OK) { vf_fail(NULL, "cp_smlers_ext failed at ring size %d", j + 1); return; } }
				char d2[96]; snprintf(d2, sizeof d2, "the honest same-message linkable ring signature of size %zu", size); ACC("cp_smlers_ver", cp_smlers_ver(td, ring, size, msg, len, pp), d2); if (len) REJ("cp_smlers_ver", cp_smlers_ver(td, ring, size, m2, len, pp), "one message bit flipped");
				bn_add_dig(td2, td, 1); REJ("cp_smlers_ver", cp_smlers_ver(td2, ring, size, msg, len, pp), "trapdoor value + 1"); } } }
	free(msg); free(m2);
}

static void run_case(vf_case *c) {
	vf_nontrivial(); if (!vf_replaying) vf_stat_add("states", 1); /* a state = one (scheme, parameter set, seed, message) configuration, walked through its whole mutation battery */
	if (!strcmp(c->op, "ecdsa")) do_ecdsa(c); else if (!strcmp(c->op, "ecss")) do_ecss(c); else if (!strcmp(c->op, "rsa")) do_rsa(c); else if (!strcmp(c->op, "pair")) do_pair(c); else if (!strcmp(c->op, "tb")) do_tb(c); else vf_fail(NULL, "unknown op");
}

static vf_case K;
static void enumerate(void) {
	vf_case_init(&K);
	static const int EC[] = {NIST_P256, BSI_P256, SECG_K256, SM2_P256, BN_P256, SM9_P256}; static const int PC[] = {BN_P256, SM9_P256};
	static const long LENS[] = {0, 1, 31, 32, 33, 55, 56, 63, 64, 65, 119, 120, 127, 128, 129, 200};
	int nseed = vf_tier ? 4 : 2, nlen = vf_tier ? 16 : 8;
	if (vf_bound_on("ecdsa")) { for (unsigned ci = 0; ci < 6; ci++) for (int sd = 0; sd < nseed; sd++) for (int li = 0; li < nlen; li++) for (long pat = 0; pat < (vf_tier ? 3 : 2); pat++) { long mode = 0; if (vf_mine()) { K.op = "ecdsa"; K.n = 5; mpz_set_si(K.v[0], EC[ci]); mpz_set_si(K.v[1], sd); mpz_set_si(K.v[2], LENS[(li * 2 + sd) % 16]); mpz_set_si(K.v[3], pat + 1); mpz_set_si(K.v[4], mode); vf_run(&K); } }
		/* pre-hashed mode with digest lengths around the order length */
		static const long DL[] = {20, 28, 31, 32, 33, 48, 64}; for (unsigned ci = 0; ci < 6; ci++) for (int di = 0; di < 7; di++) if (vf_mine()) { K.op = "ecdsa"; K.n = 5; mpz_set_si(K.v[0], EC[ci]); mpz_set_si(K.v[1], di % 2); mpz_set_si(K.v[2], 40 + di); mpz_set_si(K.v[3], 2); mpz_set_si(K.v[4], DL[di]); vf_run(&K); }
		vf_bound_done("ecdsa"); }
	if (vf_bound_on("ecss")) { for (unsigned ci = 0; ci < 6; ci++) for (int sd = 0; sd < nseed; sd++) for (int li = 0; li < nlen; li++) if (vf_mine()) { K.op = "ecss"; K.n = 4; mpz_set_si(K.v[0], EC[ci]); mpz_set_si(K.v[1], sd); mpz_set_si(K.v[2], LENS[(li * 2 + sd) % 16]); mpz_set_si(K.v[3], 2 + li % 2); vf_run(&K); } vf_bound_done("ecss"); }
	if (vf_bound_on("rsa-pss")) { static const long BITS[] = {512, 768, 1024}; for (int bi = 0; bi < (vf_tier ? 3 : 2); bi++) for (int sd = 0; sd < (vf_tier ? 2 : 1); sd++) for (int li = 0; li < nlen; li++) for (int mode = 0; mode < 2; mode++) { if (mode && li > 1) continue; if (vf_mine()) { K.op = "rsa"; K.n = 5; mpz_set_si(K.v[0], BITS[bi]); mpz_set_si(K.v[1], sd); mpz_set_si(K.v[2], LENS[(li * 2) % 16]); mpz_set_si(K.v[3], 2); mpz_set_si(K.v[4], mode); vf_run(&K); } } vf_bound_done("rsa-pss"); }
	if (vf_bound_on("pairing-schemes")) { for (int sch = 0; sch < 5; sch++) for (unsigned ci = 0; ci < 2; ci++) for (int sd = 0; sd < nseed; sd++) for (int li = 0; li < (vf_tier ? 8 : 4); li++) for (int hf = 0; hf < 2; hf++) { if (hf && sch != 1 && sch != 2) continue; if (vf_mine()) { K.op = "pair"; K.n = 6; mpz_set_si(K.v[0], sch); mpz_set_si(K.v[1], PC[ci]); mpz_set_si(K.v[2], sd); mpz_set_si(K.v[3], LENS[(li * 3 + 1) % 16]); mpz_set_si(K.v[4], 2); mpz_set_si(K.v[5], hf); vf_run(&K); } } vf_bound_done("pairing-schemes"); }
	if (vf_bound_on("structural-schemes")) { for (int sch = 0; sch < 9; sch++) for (unsigned ci = 0; ci < (sch == 5 || sch == 6 ? 2u : 6u); ci++) for (int sd = 0; sd < nseed; sd++) for (int li = 0; li < 4; li++) if (vf_mine()) { K.op = "tb"; K.n = 5; mpz_set_si(K.v[0], sch); mpz_set_si(K.v[1], (sch == 5 || sch == 6) ? PC[ci] : EC[ci]); mpz_set_si(K.v[2], sd); mpz_set_si(K.v[3], LENS[(li * 5 + 1) % 16]); mpz_set_si(K.v[4], 2); vf_run(&K); } vf_bound_done("structural-schemes"); }
	vf_stat_add("transitions", transitions); vf_stat_add("x.mutations_judged", nmut); vf_stat_add("x.oracle_accepts", nacc); vf_stat_add("x.oracle_rejects", nrej);
}
VF_MAIN()
