/*
 * C09 -- modular / number-theoretic integer functions and scalar recodings.
 * Reference: GMP. Generic over the digit width (W8 complete small spaces, W64 alphabets).
 */
#include "vf_relic.h"

static bn_t A, B, M, C, D, E, U, T;
static mpz_t za, zb, zm, ze, zg, zt, zu;
static unsigned long long transitions = 0;

static void harness_setup(void) {
	if (core_init() != RLC_OK) exit(2);
	bn_new(A); bn_new(B); bn_new(M); bn_new(C); bn_new(D); bn_new(E); bn_new(U); bn_new(T);
	mpz_inits(za, zb, zm, ze, zg, zt, zu, NULL);
	vf_reseed();
}
static void junk(bn_t c) { c->used = 2; c->sign = RLC_NEG; for (int i = 0; i < (int)RLC_BN_SIZE; i++) c->dp[i] = (dig_t)0x5A5A5A5A5A5A5A5AULL; }
static int expect_bn(const char *what, const bn_t got, const mpz_t exp, const char *kf) {
	transitions++;
	vf_bn_get(zg, got);
	if (mpz_cmp(zg, exp) != 0) { char b[700]; gmp_snprintf(b, sizeof b, "%s: expected %Zx got %Zx", what, exp, zg); vf_fail(kf, "%s", b); return 0; }
	if (!vf_bn_normal(got)) { vf_fail(kf, "%s: result not in normal form", what); return 0; }
	return 1;
}
static size_t ndig(const mpz_t z) { return mpz_sgn(z) ? (mpz_sizeinbase(z, 2) + VF_DIGB - 1) / VF_DIGB : 1; }
#define IS(o) (strcmp(c->op, o) == 0)

/* ---------------------------------------------------------------- reductions: args a, m */
static void do_mod(vf_case *c) {
	int th;
	mpz_set(za, c->v[0]); mpz_set(zm, c->v[1]);
	if (mpz_sgn(zm) <= 0) return;
	vf_bn_set(A, za); vf_bn_set(M, zm);
	mpz_mod(ze, za, zm);
	const char *kfneg = mpz_sgn(za) < 0 ? "L18-negative-operands" : NULL;
	junk(C); VF_TRY(th, bn_mod_basic(C, A, M)); if (th) vf_fail(NULL, "bn_mod_basic raised %d", th); else expect_bn("bn_mod_basic", C, ze, NULL);
	if (ndig(za) <= 2 * ndig(zm)) {
		junk(U); VF_TRY(th, bn_mod_pre_barrt(U, M));
		if (!th) { junk(C); VF_TRY(th, bn_mod_barrt(C, A, M, U)); if (th) vf_fail(kfneg, "bn_mod_barrt raised %d", th); else expect_bn("bn_mod_barrt", C, ze, kfneg); }
		else if (2 * ndig(zm) + 1 <= RLC_BN_SIZE) vf_fail(NULL, "bn_mod_pre_barrt raised %d", th);
	}
	if (mpz_odd_p(zm) && mpz_sgn(za) >= 0) {
		/* Montgomery: conv(a) = a*R mod m ; monty(t) = t*R^-1 mod m for t < m*R ; back(conv(a)) = a mod m */
		mpz_t R; mpz_init_set_ui(R, 1); mpz_mul_2exp(R, R, ndig(zm) * VF_DIGB);
		junk(U); VF_TRY(th, bn_mod_pre_monty(U, M));
		if (th) vf_fail(NULL, "bn_mod_pre_monty raised %d for an odd modulus", th);
		else {
			mpz_set_ui(zt, 1); mpz_mul_2exp(zt, zt, VF_DIGB); mpz_invert(zu, zm, zt); mpz_sub(zu, zt, zu); mpz_mod(zu, zu, zt);
			expect_bn("bn_mod_pre_monty", U, zu, NULL);
			mpz_mul(zt, zm, R);
			if (mpz_cmp(za, zt) < 0 && ndig(zt) + 1 <= RLC_BN_SIZE) {
				mpz_invert(zu, R, zm); mpz_mul(zu, zu, za); mpz_mod(zu, zu, zm);
				junk(C); VF_TRY(th, bn_mod_monty_basic(C, A, M, U)); if (th) vf_fail(NULL, "bn_mod_monty_basic raised %d", th); else expect_bn("bn_mod_monty_basic", C, zu, NULL);
				junk(C); VF_TRY(th, bn_mod_monty_comba(C, A, M, U)); if (th) vf_fail(NULL, "bn_mod_monty_comba raised %d", th); else expect_bn("bn_mod_monty_comba", C, zu, NULL);
				bn_copy(C, A); VF_TRY(th, bn_mod_monty_basic(C, C, M, U)); if (!th) expect_bn("bn_mod_monty_basic(c==a)", C, zu, NULL);
			}
			if (mpz_cmp(za, zm) < 0 && 2 * ndig(zm) + 1 <= RLC_BN_SIZE) {
				mpz_mul(zu, za, R); mpz_mod(zu, zu, zm);
				junk(C); VF_TRY(th, bn_mod_monty_conv(C, A, M)); if (th) vf_fail(NULL, "bn_mod_monty_conv raised %d", th); else { expect_bn("bn_mod_monty_conv", C, zu, NULL);
					junk(D); VF_TRY(th, bn_mod_monty_back(D, C, M)); if (th) vf_fail(NULL, "bn_mod_monty_back raised %d", th); else expect_bn("bn_mod_monty_back", D, za, NULL); }
			}
		}
		mpz_clear(R);
	}
	/* pseudo-Mersenne: m = 2^k - u with u < 2^(k/2) */
	{
		size_t k = mpz_sizeinbase(zm, 2); mpz_set_ui(zt, 1); mpz_mul_2exp(zt, zt, k); mpz_sub(zt, zt, zm);
		if (mpz_sizeinbase(zt, 2) <= k / 2 && mpz_sgn(za) >= 0 && ndig(za) <= 2 * ndig(zm)) {
			junk(U); VF_TRY(th, bn_mod_pre_pmers(U, M));
			if (!th) { expect_bn("bn_mod_pre_pmers", U, zt, NULL); junk(C); VF_TRY(th, bn_mod_pmers(C, A, M, U)); if (th) vf_fail(NULL, "bn_mod_pmers raised %d", th); else expect_bn("bn_mod_pmers", C, ze, NULL); }
		}
	}
}

/* ---------------------------------------------------------------- exponentiation: args a, e, m */
typedef void (*mxp_fn)(bn_t, const bn_t, const bn_t, const bn_t);
static void do_mxp(vf_case *c) {
	int th;
	static const struct { const char *n; mxp_fn f; } MX[] = {{"bn_mxp_basic", bn_mxp_basic}, {"bn_mxp_slide", bn_mxp_slide}, {"bn_mxp_monty", bn_mxp_monty}};
	mpz_set(za, c->v[0]); mpz_set(zb, c->v[1]); mpz_set(zm, c->v[2]);
	if (mpz_sgn(zm) <= 0) return;
	if (2 * ndig(zm) + 2 > RLC_BN_SIZE) return;
	vf_bn_set(A, za); vf_bn_set(B, zb); vf_bn_set(M, zm);
	int defined = 1;
	if (mpz_sgn(zb) < 0) { if (!mpz_invert(zt, za, zm)) defined = 0; else { mpz_neg(zu, zb); mpz_powm(ze, zt, zu, zm); } }
	else mpz_powm(ze, za, zb, zm);
	if (mpz_cmp_ui(zm, 1) == 0) mpz_set_ui(ze, 0);
	for (int i = 0; i < 3; i++) {
		/* the shipped build reduces with Montgomery: even moduli are admitted only where the algorithm does not raise */
		const char *kf = NULL;
		if (mpz_sgn(za) < 0) kf = "L18-negative-operands";
		junk(C); VF_TRY(th, MX[i].f(C, A, B, M));
		transitions++;
		if (!defined) { if (!th) { /* value for a non-invertible base and negative exponent is undefined; must not be silently "1" unless error */ vf_fail(kf ? kf : "L22-mxp-negative-exponent-noninvertible", "%s: negative exponent of a non-invertible base was not reported", MX[i].n); } continue; }
		if (th) { if (mpz_even_p(zm)) continue; vf_fail(kf, "%s raised %d", MX[i].n, th); continue; }
		expect_bn(MX[i].n, C, ze, kf);
		bn_copy(C, A); VF_TRY(th, MX[i].f(C, C, B, M)); if (!th) expect_bn(MX[i].n, C, ze, kf);
	}
	if (mpz_sgn(zb) >= 0 && mpz_sizeinbase(zb, 2) <= (size_t)VF_DIGB) {
		dig_t d = 0; mpz_export(&d, NULL, -1, sizeof(dig_t), 0, 0, zb);
		junk(C); VF_TRY(th, bn_mxp_dig(C, A, d, M));
		if (th) { if (!mpz_even_p(zm)) vf_fail(NULL, "bn_mxp_dig raised %d", th); } else expect_bn("bn_mxp_dig", C, ze, mpz_sgn(za) < 0 ? "L18-negative-operands" : NULL);
	}
}
/* simultaneous: args m, n, then n pairs (a_i, b_i) ; n == 2 also runs bn_mxp_sim */
static void do_mxp_sim(vf_case *c) {
	int th; int n = (int)mpz_get_si(c->v[1]);
	bn_t as[8], bs[8];
	mpz_set(zm, c->v[0]); vf_bn_set(M, zm);
	if (2 * ndig(zm) + 2 > RLC_BN_SIZE) return;
	mpz_set_ui(ze, 1);
	for (int i = 0; i < n; i++) {
		bn_new(as[i]); bn_new(bs[i]); vf_bn_set(as[i], c->v[2 + 2 * i]); vf_bn_set(bs[i], c->v[3 + 2 * i]);
		mpz_powm(zt, c->v[2 + 2 * i], c->v[3 + 2 * i], zm); mpz_mul(ze, ze, zt); mpz_mod(ze, ze, zm);
	}
	if (mpz_cmp_ui(zm, 1) == 0) mpz_set_ui(ze, 0);
	if (n == 2) { junk(C); VF_TRY(th, bn_mxp_sim(C, as[0], bs[0], as[1], bs[1], M)); if (th) { if (!mpz_even_p(zm)) vf_fail(NULL, "bn_mxp_sim raised %d", th); } else expect_bn("bn_mxp_sim", C, ze, NULL); }
	if (mpz_even_p(zm)) return; /* the shipped build reduces with Montgomery: even moduli are refused, which is an admissible report */
	junk(C); VF_TRY(th, bn_mxp_sim_few(C, (const bn_t *)as, (const bn_t *)bs, M, (size_t)n)); if (th) vf_fail(NULL, "bn_mxp_sim_few(n=%d) raised %d", n, th); else expect_bn("bn_mxp_sim_few", C, ze, NULL);
	junk(C); VF_TRY(th, bn_mxp_sim_lot(C, (const bn_t *)as, (const bn_t *)bs, M, (size_t)n)); if (th) vf_fail(NULL, "bn_mxp_sim_lot(n=%d) raised %d", n, th); else expect_bn("bn_mxp_sim_lot", C, ze, NULL);
}

/* ---------------------------------------------------------------- gcd family: args a, b */
typedef void (*gcd_fn)(bn_t, const bn_t, const bn_t);
typedef void (*gcdx_fn)(bn_t, bn_t, bn_t, const bn_t, const bn_t);
static void do_gcd(vf_case *c) {
	int th;
	static const struct { const char *n; gcd_fn f; } G[] = {{"bn_gcd_basic", bn_gcd_basic}, {"bn_gcd_lehme", bn_gcd_lehme}, {"bn_gcd_binar", bn_gcd_binar}};
	static const struct { const char *n; gcdx_fn f; } GX[] = {{"bn_gcd_ext_basic", bn_gcd_ext_basic}, {"bn_gcd_ext_lehme", bn_gcd_ext_lehme}, {"bn_gcd_ext_binar", bn_gcd_ext_binar}};
	mpz_set(za, c->v[0]); mpz_set(zb, c->v[1]);
	vf_bn_set(A, za); vf_bn_set(B, zb);
	mpz_gcd(ze, za, zb);
	int neg = mpz_sgn(za) < 0 || mpz_sgn(zb) < 0;
	for (int i = 0; i < 3; i++) {
		junk(C); VF_TRY(th, G[i].f(C, A, B));
		if (th) vf_fail(neg ? "L18-negative-operands" : NULL, "%s raised %d", G[i].n, th); else expect_bn(G[i].n, C, ze, neg ? "L18-negative-operands" : NULL);
	}
	if (mpz_sgn(zb) >= 0 && mpz_sizeinbase(zb, 2) <= (size_t)VF_DIGB) {
		dig_t d = 0; mpz_export(&d, NULL, -1, sizeof(dig_t), 0, 0, zb);
		junk(C); VF_TRY(th, bn_gcd_dig(C, A, d)); if (th) vf_fail(neg ? "L18-negative-operands" : NULL, "bn_gcd_dig raised %d", th); else expect_bn("bn_gcd_dig", C, ze, neg ? "L18-negative-operands" : NULL);
		if (d != 0) { junk(C); junk(D); junk(E); VF_TRY(th, bn_gcd_ext_dig(C, D, E, A, d));
			if (th) vf_fail(neg ? "L18-negative-operands" : NULL, "bn_gcd_ext_dig raised %d", th);
			else if (expect_bn("bn_gcd_ext_dig.g", C, ze, neg ? "L18-negative-operands" : NULL)) { vf_bn_get(zt, D); vf_bn_get(zu, E); mpz_mul(zt, zt, za); mpz_addmul(zt, zu, zb); if (mpz_cmp(zt, ze)) vf_fail(neg ? "L18-negative-operands" : NULL, "bn_gcd_ext_dig: d*a + e*b != gcd"); } }
	}
	/* lcm */
	if (ndig(za) + ndig(zb) + 1 <= RLC_BN_SIZE) {
		mpz_lcm(zt, za, zb);
		junk(C); VF_TRY(th, bn_lcm(C, A, B));
		if (mpz_sgn(za) == 0 || mpz_sgn(zb) == 0) { /* lcm with zero: 0 or an error are both acceptable */ if (!th) expect_bn("bn_lcm", C, zt, neg ? "L18-negative-operands" : NULL); }
		else if (th) vf_fail(neg ? "L18-negative-operands" : NULL, "bn_lcm raised %d", th); else expect_bn("bn_lcm", C, zt, neg ? "L18-negative-operands" : NULL);
	}
	/* extended gcd: Bezout identity with the given operands */
	for (int i = 0; i < 3; i++) {
		const char *kf = neg ? "L18-negative-operands" : NULL;
		if (i == 2 && !neg && mpz_sgn(zb) > 0 && mpz_divisible_p(za, zb)) kf = "L19-gcd-ext-binar-b-divides-a";
		if (mpz_sgn(za) == 0 || mpz_sgn(zb) == 0) continue; /* zero operand: no documented contract */
		junk(C); junk(D); junk(E); VF_TRY(th, GX[i].f(C, D, E, A, B));
		if (th) { vf_fail(kf, "%s raised %d", GX[i].n, th); continue; }
		if (!expect_bn(GX[i].n, C, ze, kf)) continue;
		vf_bn_get(zt, D); vf_bn_get(zu, E); mpz_mul(zt, zt, za); mpz_addmul(zt, zu, zb);
		if (mpz_cmp(zt, ze)) { char b[600]; vf_bn_get(zu, D); vf_bn_get(zg, E); gmp_snprintf(b, sizeof b, "%s: d*a + e*b = %Zd, not the gcd %Zd (d=%Zd e=%Zd)", GX[i].n, zt, ze, zu, zg); vf_fail(kf, "%s", b); }
		/* the second cofactor may be NULL (the form bn_mod_inv uses); a NULL first cofactor, which the header also
		 * allows, is dereferenced by the code: that null dereference is C08's business and is probed there */
		junk(C); junk(D); VF_TRY(th, GX[i].f(C, D, NULL, A, B)); if (!th) expect_bn(GX[i].n, C, ze, kf);
	}
}

/* modular inverse: args a, m (m > 1) */
static void do_inv(vf_case *c) {
	int th;
	mpz_set(za, c->v[0]); mpz_set(zm, c->v[1]);
	if (mpz_cmp_ui(zm, 1) <= 0) return;
	vf_bn_set(A, za); vf_bn_set(M, zm);
	int inv = mpz_invert(ze, za, zm);
	const char *kf = mpz_sgn(za) < 0 ? "L18-negative-operands" : NULL;
	junk(C); VF_TRY(th, bn_mod_inv(C, A, M));
	transitions++;
	if (!inv) { if (!th) vf_fail(kf, "bn_mod_inv: non-invertible element accepted"); return; }
	if (th) { vf_fail(kf, "bn_mod_inv raised %d", th); return; }
	expect_bn("bn_mod_inv", C, ze, kf);
}
/* simultaneous inverse: args m, n, a_1..a_n (all invertible) */
static void do_inv_sim(vf_case *c) {
	int th, n = (int)mpz_get_si(c->v[1]);
	bn_t as[8], cs[8];
	mpz_set(zm, c->v[0]); vf_bn_set(M, zm);
	for (int i = 0; i < n; i++) { bn_new(as[i]); bn_new(cs[i]); vf_bn_set(as[i], c->v[2 + i]); junk(cs[i]); }
	VF_TRY(th, bn_mod_inv_sim(cs, (const bn_t *)as, M, n));
	if (th) { vf_fail(NULL, "bn_mod_inv_sim(n=%d) raised %d", n, th); return; }
	for (int i = 0; i < n; i++) { mpz_invert(ze, c->v[2 + i], zm); expect_bn("bn_mod_inv_sim", cs[i], ze, NULL); }
}

/* symbols: args a, b (b odd positive) */
static void do_smb(vf_case *c) {
	int th, r;
	mpz_set(za, c->v[0]); mpz_set(zb, c->v[1]);
	if (mpz_sgn(zb) <= 0 || mpz_even_p(zb)) return;
	vf_bn_set(A, za); vf_bn_set(B, zb);
	int e = mpz_jacobi(za, zb);
	transitions++;
	VF_TRY(th, r = bn_smb_jac(A, B));
	if (th) { if (mpz_sgn(za) >= 0) vf_fail(NULL, "bn_smb_jac raised %d", th); }
	else if (r != e) vf_fail(mpz_sgn(za) < 0 ? "L18-negative-operands" : NULL, "bn_smb_jac: expected %d got %d", e, r);
	if (mpz_probab_prime_p(zb, 25) && mpz_sgn(za) >= 0 && 2 * ndig(zb) + 2 <= RLC_BN_SIZE) {
		transitions++;
		VF_TRY(th, r = bn_smb_leg(A, B));
		if (th) vf_fail(NULL, "bn_smb_leg raised %d", th); else if (r != e) vf_fail(NULL, "bn_smb_leg: expected %d got %d", e, r);
	}
}

/* integer square root: arg a */
static void do_srt(vf_case *c) {
	int th;
	mpz_set(za, c->v[0]); vf_bn_set(A, za);
	junk(C); VF_TRY(th, bn_srt(C, A));
	if (mpz_sgn(za) < 0) { if (!th) vf_fail(NULL, "bn_srt: negative argument accepted"); return; }
	if (th) { vf_fail(NULL, "bn_srt raised %d", th); return; }
	mpz_sqrt(ze, za); expect_bn("bn_srt", C, ze, NULL);
}

/* primality: arg n */
static int ref_is_prime(const mpz_t n) { return mpz_cmp_ui(n, 2) >= 0 && mpz_probab_prime_p(n, 40) > 0; }
static void do_prime(vf_case *c) {
	int th, r;
	mpz_set(za, c->v[0]); vf_bn_set(A, za);
	int e = ref_is_prime(za);
	if (2 * ndig(za) + 2 > RLC_BN_SIZE) return;
	vf_reseed();
	transitions += 4;
	VF_TRY(th, r = bn_is_prime(A)); if (th) vf_fail(NULL, "bn_is_prime raised %d", th); else if (r != e) vf_fail(NULL, "bn_is_prime: expected %d got %d", e, r);
	VF_TRY(th, r = bn_is_prime_rabin(A)); if (th) vf_fail(NULL, "bn_is_prime_rabin raised %d", th); else if (r != e) vf_fail(NULL, "bn_is_prime_rabin: expected %d got %d", e, r);
	VF_TRY(th, r = bn_is_prime_solov(A)); if (th) vf_fail(NULL, "bn_is_prime_solov raised %d", th); else if (r != e) vf_fail(NULL, "bn_is_prime_solov: expected %d got %d", e, r);
	/* trial division is only a filter: it must accept every prime, and a rejection must be a true composite (or < 2) */
	VF_TRY(th, r = bn_is_prime_basic(A)); if (th) vf_fail(NULL, "bn_is_prime_basic raised"); else { if (e && !r) vf_fail(NULL, "bn_is_prime_basic rejected a prime"); }
}
/* prime generation: args kind (0 basic, 1 safe, 2 strong), bits, seed */
static void do_gen(vf_case *c) {
	int th; int kind = (int)mpz_get_si(c->v[0]); size_t bits = mpz_get_ui(c->v[1]);
	vf_reseed(); vf_lcg = (unsigned)mpz_get_ui(c->v[2]) * 2654435761u + 17;
#if RAND != CALL
	{ uint8_t s[32]; for (int i = 0; i < 32; i++) s[i] = (uint8_t)(mpz_get_ui(c->v[2]) * 31 + i); core_get()->seeded = 0; rand_seed(s, 32); }
#endif
	junk(C);
	if (kind == 0) VF_TRY(th, bn_gen_prime_basic(C, bits)); else if (kind == 1) VF_TRY(th, bn_gen_prime_safep(C, bits)); else VF_TRY(th, bn_gen_prime_stron(C, bits));
	transitions++;
	if (th) { vf_fail(NULL, "prime generator kind %d raised %d for %zu bits", kind, th, bits); return; }
	vf_bn_get(zg, C);
	if (!ref_is_prime(zg)) { char b[300]; gmp_snprintf(b, sizeof b, "generator kind %d returned the composite %Zx", kind, zg); vf_fail(NULL, "%s", b); return; }
	if (kind != 2 && mpz_sizeinbase(zg, 2) != bits) vf_fail(NULL, "generator kind %d returned %zu bits instead of %zu", kind, mpz_sizeinbase(zg, 2), bits);
	if (kind == 2 && mpz_sizeinbase(zg, 2) > bits) vf_fail(NULL, "strong-prime generator returned %zu bits, more than the %zu requested", mpz_sizeinbase(zg, 2), bits);
	if (kind == 1) { mpz_sub_ui(zt, zg, 1); mpz_fdiv_q_2exp(zt, zt, 1); if (!ref_is_prime(zt)) vf_fail(NULL, "safe prime: (p-1)/2 is composite"); }
	if (!vf_bn_normal(C)) vf_fail(NULL, "generated prime not in normal form");
}

/* Lagrange / evaluation: args q, n, roots a_1..a_n, x */
static void do_lag(vf_case *c) {
	int th, n = (int)mpz_get_si(c->v[1]);
	bn_t as[6], cs[8];
	mpz_set(zm, c->v[0]); vf_bn_set(M, zm);
	for (int i = 0; i < n; i++) { bn_new(as[i]); vf_bn_set(as[i], c->v[2 + i]); }
	for (int i = 0; i <= n; i++) { bn_new(cs[i]); junk(cs[i]); }
	VF_TRY(th, bn_lag(cs, (const bn_t *)as, M, (size_t)n));
	if (th) { vf_fail(NULL, "bn_lag(n=%d) raised %d", n, th); return; }
	/* reference coefficients of prod (x - a_i) mod q, low degree first */
	mpz_t co[8]; for (int i = 0; i < 8; i++) mpz_init(co[i]);
	mpz_set_ui(co[0], 1); int deg = 0;
	for (int i = 0; i < n; i++) { /* multiply by (x - a_i) */
		mpz_set_ui(co[deg + 1], 0);
		for (int j = deg + 1; j >= 1; j--) { mpz_mul(zt, co[j], c->v[2 + i]); mpz_sub(co[j], co[j - 1], zt); mpz_mod(co[j], co[j], zm); }
		mpz_mul(zt, co[0], c->v[2 + i]); mpz_neg(co[0], zt); mpz_mod(co[0], co[0], zm); deg++;
	}
	/* coefficients are judged as residues modulo q (bn_lag leaves q - 0 = q for a single zero root), in [0, q] */
	for (int i = 0; i <= n; i++) { transitions++; vf_bn_get(zg, cs[i]); if (mpz_sgn(zg) < 0 || mpz_cmp(zg, zm) > 0) vf_fail(NULL, "bn_lag: coefficient %d outside [0, q]", i); mpz_mod(zg, zg, zm); if (mpz_cmp(zg, co[i])) vf_fail(NULL, "bn_lag: coefficient %d is not the coefficient of prod (x - a_i) mod q", i); }
	/* evaluation at x */
	mpz_set(zu, c->v[2 + n]); vf_bn_set(A, zu);
	mpz_set_ui(ze, 0); for (int i = n; i >= 0; i--) { mpz_mul(ze, ze, zu); mpz_add(ze, ze, co[i]); mpz_mod(ze, ze, zm); }
	for (int i = 0; i <= n; i++) vf_bn_set(cs[i], co[i]);
	/* bn_evl's last argument is the number of coefficients (as its only caller mpc_sss_gen uses it; the header's
	 * "degree n, n+1 coefficients" does not match the code) */
	junk(C); VF_TRY(th, bn_evl(C, (const bn_t *)cs, A, M, (size_t)n + 1));
	if (th) vf_fail(NULL, "bn_evl(n=%d) raised %d", n, th); else expect_bn("bn_evl", C, ze, NULL);
	/* "c = a(x) mod q" for ANY integer coefficients: the same polynomial with coefficients shifted by multiples of q above the modulus / below zero */
	for (int v = 0; v < 2; v++) { for (int i = 0; i <= n; i++) { mpz_mul_ui(zt, zm, (unsigned long)(i + 1 + v)); if (v) mpz_sub(zt, co[i], zt); else mpz_add(zt, co[i], zt); if (!vf_bn_set(cs[i], zt)) goto evl_done; }
		junk(C); VF_TRY(th, bn_evl(C, (const bn_t *)cs, A, M, (size_t)n + 1)); if (th) vf_fail(NULL, "bn_evl(n=%d, %s coefficients) raised %d", n, v ? "negative" : "unreduced", th); else expect_bn(v ? "bn_evl[negative coefficients]" : "bn_evl[coefficients above the modulus]", C, ze, NULL); }
evl_done:
	for (int i = 0; i < 8; i++) mpz_clear(co[i]);
}

/* ---------------------------------------------------------------- recodings */
#define GUARD 0x5C
/* args k, w */
static void do_rec(vf_case *c) {
	int th; size_t w = mpz_get_ui(c->v[1]);
	mpz_set(za, c->v[0]); vf_bn_set(A, za); mpz_abs(zt, za);
	size_t bits = mpz_sgn(za) ? mpz_sizeinbase(za, 2) : 0;
	static uint8_t wb[4200]; static int8_t nb[4200];
	if (bits + 16 > 2000) return;
	if (IS("bn_rec_win")) {
		size_t need = (bits + w - 1) / w, len = need + 2;
		memset(wb, GUARD, sizeof wb);
		const char *kf = NULL;
		VF_TRY(th, bn_rec_win(wb + 8, &len, A, w));
		transitions++;
		if (th) { vf_fail(kf, "bn_rec_win raised %d", th); return; }
		if (len > need + 2) { vf_fail(kf, "bn_rec_win: reported length %zu exceeds the buffer", len); return; }
		for (size_t i = 0; i < 8; i++) if (wb[i] != GUARD) { vf_fail(kf, "bn_rec_win wrote before the buffer"); return; }
		for (size_t i = 8 + need + 2; i < 8 + need + 40; i++) if (wb[i] != GUARD) { vf_fail(kf, "bn_rec_win wrote beyond the buffer"); return; }
		mpz_set_ui(ze, 0); for (size_t i = len; i-- > 0;) { if (wb[8 + i] >> w) { vf_fail(kf, "bn_rec_win: digit %u out of range for w=%zu", wb[8 + i], w); return; } mpz_mul_2exp(ze, ze, w); mpz_add_ui(ze, ze, wb[8 + i]); }
		if (mpz_cmp(ze, zt)) { char b[300]; gmp_snprintf(b, sizeof b, "bn_rec_win: digits evaluate to %Zx", ze); vf_fail(kf, "%s", b); }
		/* exact-size buffer must be accepted, a shorter one refused */
		if (need > 0) { len = need; VF_TRY(th, bn_rec_win(wb + 8, &len, A, w)); if (th) vf_fail(kf, "bn_rec_win refused an exact-size buffer"); len = need - 1; VF_TRY(th, bn_rec_win(wb + 8, &len, A, w)); if (!th) vf_fail(kf, "bn_rec_win accepted a too-short buffer"); }
		return;
	}
	if (IS("bn_rec_slw")) {
		size_t len = bits + 2, cap = len;
		memset(wb, GUARD, sizeof wb);
		VF_TRY(th, bn_rec_slw(wb + 8, &len, A, w));
		transitions++;
		if (th) { vf_fail(NULL, "bn_rec_slw raised %d", th); return; }
		if (len > cap) { vf_fail(NULL, "bn_rec_slw: length beyond buffer"); return; }
		for (size_t i = 8 + cap; i < 8 + cap + 32; i++) if (wb[i] != GUARD) { vf_fail(NULL, "bn_rec_slw wrote beyond the buffer"); return; }
		/* entries MSB first: 0 = one squaring; odd window value v of b bits = b squarings then multiply */
		mpz_set_ui(ze, 0);
		for (size_t i = 0; i < len; i++) { unsigned v = wb[8 + i]; if (v == 0) mpz_mul_2exp(ze, ze, 1); else { if (!(v & 1) || (v >> w)) { vf_fail(NULL, "bn_rec_slw: window value %u not odd / wider than w=%zu", v, w); return; } unsigned b = 0; for (unsigned t = v; t; t >>= 1) b++; mpz_mul_2exp(ze, ze, b); mpz_add_ui(ze, ze, v); } }
		if (mpz_cmp(ze, zt)) { char b[300]; gmp_snprintf(b, sizeof b, "bn_rec_slw: windows evaluate to %Zx", ze); vf_fail(NULL, "%s", b); }
		if (bits > 0) { len = bits - 1; VF_TRY(th, bn_rec_slw(wb + 8, &len, A, w)); if (!th) vf_fail(NULL, "bn_rec_slw accepted a too-short buffer"); }
		return;
	}
	if (IS("bn_rec_naf")) {
		size_t len = bits + 1, cap = len;
		memset(nb, GUARD, sizeof nb);
		VF_TRY(th, bn_rec_naf(nb + 8, &len, A, w));
		transitions++;
		if (th) { vf_fail(NULL, "bn_rec_naf raised %d", th); return; }
		if (len > cap) { vf_fail(NULL, "bn_rec_naf: length %zu beyond the buffer %zu", len, cap); return; }
		for (size_t i = 8 + cap; i < 8 + cap + 32; i++) if (nb[i] != GUARD) { vf_fail(NULL, "bn_rec_naf wrote beyond the buffer"); return; }
		mpz_set_ui(ze, 0); long lastnz = -100;
		for (size_t i = len; i-- > 0;) { mpz_mul_2exp(ze, ze, 1); int d = nb[8 + i]; if (d >= 0) mpz_add_ui(ze, ze, (unsigned long)d); else mpz_sub_ui(ze, ze, (unsigned long)-d); }
		for (size_t i = 0; i < len; i++) { int d = nb[8 + i]; if (d) { if (!(d & 1) || d >= (1 << (w - 1)) || d <= -(1 << (w - 1))) { vf_fail(NULL, "bn_rec_naf: digit %d outside the odd range for w=%zu", d, w); return; } if ((long)i - lastnz < (long)w) { vf_fail(NULL, "bn_rec_naf: two non-zero digits within %zu positions", w); return; } lastnz = (long)i; } }
		if (mpz_cmp(ze, zt)) { char b[300]; gmp_snprintf(b, sizeof b, "bn_rec_naf: digits evaluate to %Zx", ze); vf_fail(NULL, "%s", b); }
		if (len && nb[8 + len - 1] == 0) vf_fail(NULL, "bn_rec_naf: leading zero digit counted in the length");
		if (bits > 0) { len = bits; VF_TRY(th, bn_rec_naf(nb + 8, &len, A, w)); if (!th) vf_fail(NULL, "bn_rec_naf accepted a too-short buffer"); }
		return;
	}
	if (IS("bn_rec_reg")) { /* args k, w, n (n >= bits) */
		size_t n = mpz_get_ui(c->v[2]); if (n < bits || mpz_sgn(za) < 0) return;
		size_t l = (n + (w - 1) - 1) / (w - 1), len = l + 1;
		memset(nb, GUARD, sizeof nb);
		VF_TRY(th, bn_rec_reg(nb + 8, &len, A, n, w));
		transitions++;
		if (th) { vf_fail(NULL, "bn_rec_reg raised %d", th); return; }
		if (len != l + 1) { vf_fail(NULL, "bn_rec_reg: length %zu, expected %zu", len, l + 1); return; }
		for (size_t i = 8 + l + 1; i < 8 + l + 33; i++) if (nb[i] != GUARD) { vf_fail(NULL, "bn_rec_reg wrote beyond the buffer"); return; }
		mpz_set_ui(ze, 0);
		for (size_t i = len; i-- > 0;) { mpz_mul_2exp(ze, ze, w - 1); int d = nb[8 + i]; if (d >= 0) mpz_add_ui(ze, ze, (unsigned long)d); else mpz_sub_ui(ze, ze, (unsigned long)-d); }
		if (mpz_cmp(ze, zt)) { char b[300]; gmp_snprintf(b, sizeof b, "bn_rec_reg: digits evaluate to %Zx", ze); vf_fail(NULL, "%s", b); return; }
		if (mpz_odd_p(za)) for (size_t i = 0; i < l; i++) { int d = nb[8 + i]; if (!(d & 1) || d >= (1 << (w - 1)) || d <= -(1 << (w - 1))) { vf_fail(NULL, "bn_rec_reg: digit %d at %zu is not an odd digit of the regular set (w=%zu)", d, i, w); return; } }
		len = l; VF_TRY(th, bn_rec_reg(nb + 8, &len, A, n, w)); if (!th) vf_fail(NULL, "bn_rec_reg accepted a too-short buffer");
		return;
	}
	if (IS("bn_rec_jsf")) { /* args k, l */
		mpz_set(zb, c->v[1]); vf_bn_set(B, zb); mpz_abs(zu, zb);
		size_t bk = bits, bl = mpz_sgn(zb) ? mpz_sizeinbase(zb, 2) : 0, mx = bk > bl ? bk : bl;
		size_t len = 2 * (mx + 1), cap = len, off = mx + 1;
		memset(nb, GUARD, sizeof nb);
		VF_TRY(th, bn_rec_jsf(nb + 8, &len, A, B));
		transitions++;
		if (th) { vf_fail(NULL, "bn_rec_jsf raised %d", th); return; }
		for (size_t i = 8 + cap; i < 8 + cap + 32; i++) if (nb[i] != GUARD) { vf_fail(NULL, "bn_rec_jsf wrote beyond the buffer"); return; }
		if (len > off) { vf_fail(NULL, "bn_rec_jsf: length %zu exceeds max(bits)+1", len); return; }
		mpz_t e0, e1; mpz_inits(e0, e1, NULL);
		for (size_t i = len; i-- > 0;) { int d0 = nb[8 + i], d1 = nb[8 + i + off]; if (d0 < -1 || d0 > 1 || d1 < -1 || d1 > 1) { vf_fail(NULL, "bn_rec_jsf: digit out of {-1,0,1}"); mpz_clears(e0, e1, NULL); return; }
			mpz_mul_2exp(e0, e0, 1); mpz_mul_2exp(e1, e1, 1); if (d0 > 0) mpz_add_ui(e0, e0, 1); else if (d0 < 0) mpz_sub_ui(e0, e0, 1); if (d1 > 0) mpz_add_ui(e1, e1, 1); else if (d1 < 0) mpz_sub_ui(e1, e1, 1); }
		if (mpz_cmp(e0, zt) || mpz_cmp(e1, zu)) vf_fail(NULL, "bn_rec_jsf: rows do not evaluate to the two integers");
		/* JSF property: of any three consecutive columns at least one is zero in both rows */
		for (size_t i = 0; i + 2 < len; i++) { int nz = 0; for (size_t j = i; j < i + 3; j++) if (nb[8 + j] || nb[8 + j + off]) nz++; if (nz == 3) { vf_fail(NULL, "bn_rec_jsf: three consecutive non-zero columns at %zu", i); break; } }
		mpz_clears(e0, e1, NULL);
		return;
	}
	if (IS("bn_rec_tnaf")) { /* args k, w, u (+1/-1 as 1/0), m */
		int u = mpz_get_si(c->v[2]) ? 1 : -1; size_t m = mpz_get_ui(c->v[3]);
		if (mpz_sgn(za) < 0) return;
		/* partial reduction r0 + r1*tau == k (mod delta), delta = (tau^m - 1)/(tau - 1), tau^2 = u*tau - 2 */
		bn_t r0, r1; bn_new(r0); bn_new(r1);
		VF_TRY(th, bn_rec_tnaf_mod(r0, r1, A, u, m));
		transitions++;
		if (th) { vf_fail(NULL, "bn_rec_tnaf_mod raised %d", th); return; }
		mpz_t x0, x1, d0, d1, p0, p1, t0, t1, nrm; mpz_inits(x0, x1, d0, d1, p0, p1, t0, t1, nrm, NULL);
		vf_bn_get(x0, r0); vf_bn_get(x1, r1);
		/* delta = sum_{i<m} tau^i */
		mpz_set_ui(d0, 0); mpz_set_ui(d1, 0); mpz_set_ui(p0, 1); mpz_set_ui(p1, 0);
		for (size_t i = 0; i < m; i++) { mpz_add(d0, d0, p0); mpz_add(d1, d1, p1); /* p *= tau: (a + b tau) tau = -2b + (a + u b) tau */ mpz_mul_si(t0, p1, -2); if (u > 0) mpz_add(t1, p0, p1); else mpz_sub(t1, p0, p1); mpz_set(p0, t0); mpz_set(p1, t1); }
		/* y = (k - x) * conj(delta) ; conj(a + b tau) = (a + u b) - b tau ; divisible by N(delta) = d0^2 + u d0 d1 + 2 d1^2 */
		mpz_sub(x0, za, x0); mpz_neg(x1, x1);
		if (u > 0) mpz_add(t0, d0, d1); else mpz_sub(t0, d0, d1); mpz_neg(t1, d1);           /* conj(delta) = t0 + t1 tau */
		/* (x0 + x1 tau)(t0 + t1 tau) = x0 t0 - 2 x1 t1 + (x0 t1 + x1 t0 + u x1 t1) tau */
		mpz_mul(p0, x0, t0); mpz_mul(nrm, x1, t1); mpz_submul_ui(p0, nrm, 2);
		mpz_mul(p1, x0, t1); mpz_addmul(p1, x1, t0); if (u > 0) mpz_add(p1, p1, nrm); else mpz_sub(p1, p1, nrm);
		mpz_mul(nrm, d0, d0); mpz_mul(t0, d0, d1); if (u > 0) mpz_add(nrm, nrm, t0); else mpz_sub(nrm, nrm, t0); mpz_mul(t0, d1, d1); mpz_addmul_ui(nrm, t0, 2);
		if (!mpz_divisible_p(p0, nrm) || !mpz_divisible_p(p1, nrm)) vf_fail(NULL, "bn_rec_tnaf_mod: r0 + r1*tau is not congruent to k modulo (tau^m-1)/(tau-1)");
		/* digits evaluate (Horner in Z[tau]) to r0 + r1*tau */
		size_t len = m + 8 + bits, cap = len; memset(nb, GUARD, sizeof nb);
		if (cap < bits + 1) cap = len = bits + 1;
		VF_TRY(th, bn_rec_tnaf(nb + 8, &len, A, (int8_t)u, m, w));
		transitions++;
		/* scalars of more than m bits are refused (the partial reduction bounds the expansion only below 2^m) */
		if (th) { if (bits <= m) vf_fail(NULL, "bn_rec_tnaf raised %d", th); goto tdone; }
		if (len > cap) { vf_fail("L24-tnaf-length", "bn_rec_tnaf: wrote %zu digits into a buffer of %zu (its own check asks for bits(k)+1 = %zu)", len, cap, bits + 1); goto tdone; }
		{
			int8_t beta[64], gama[64]; uint8_t tw; bn_rec_tnaf_get(&tw, beta, gama, (int8_t)u, w);
			mpz_set_ui(p0, 0); mpz_set_ui(p1, 0); long lastnz = -100;
			for (size_t i = len; i-- > 0;) {
				mpz_mul_si(t0, p1, -2); if (u > 0) mpz_add(t1, p0, p1); else mpz_sub(t1, p0, p1); mpz_set(p0, t0); mpz_set(p1, t1);
				int d = nb[8 + i]; if (!d) continue;
				if (!(d & 1) || d >= (1 << (w - 1)) || d <= -(1 << (w - 1))) { vf_fail(NULL, "bn_rec_tnaf: digit %d outside the odd range for w=%zu", d, w); goto tdone; }
				int s = d < 0 ? -1 : 1, a = (d < 0 ? -d : d);
				long b0 = w == 2 ? a : beta[a >> 1], g0 = w == 2 ? 0 : gama[a >> 1];
				if (s > 0) { if (b0 >= 0) mpz_add_ui(p0, p0, (unsigned long)b0); else mpz_sub_ui(p0, p0, (unsigned long)-b0); if (g0 >= 0) mpz_add_ui(p1, p1, (unsigned long)g0); else mpz_sub_ui(p1, p1, (unsigned long)-g0); }
				else { if (b0 >= 0) mpz_sub_ui(p0, p0, (unsigned long)b0); else mpz_add_ui(p0, p0, (unsigned long)-b0); if (g0 >= 0) mpz_sub_ui(p1, p1, (unsigned long)g0); else mpz_add_ui(p1, p1, (unsigned long)-g0); }
			}
			for (size_t i = 0; i < len; i++) if (nb[8 + i]) { if ((long)i - lastnz < (long)w) { vf_fail(NULL, "bn_rec_tnaf: two non-zero digits within %zu positions", w); goto tdone; } lastnz = (long)i; }
			vf_bn_get(x0, r0); vf_bn_get(x1, r1);
			if (mpz_cmp(p0, x0) || mpz_cmp(p1, x1)) vf_fail(NULL, "bn_rec_tnaf: digits do not evaluate to the partially reduced scalar");
		}
tdone:
		mpz_clears(x0, x1, d0, d1, p0, p1, t0, t1, nrm, NULL);
		return;
	}
	vf_fail(NULL, "unknown recoding");
}


/* GLV decomposition with the lattice of a shipped endomorphism curve: args curve id, k (0 <= k < n). bn_rec_glv must return k0 + k1 * lambda = k (mod n)
 * for a root lambda of x^2 + x + 1 modulo n (the same root for every scalar of a curve) with both halves at most about sqrt(n) long. */
#if WSIZE == 64 && defined(WITH_EP) && defined(EP_ENDOM) && FP_PRIME == 256
#define HAVE_GLV 1
static void do_glv(vf_case *c) {
	int th; static long cur = -1; static mpz_t n, lam[2]; static int init = 0, which = -1; if (!init) { init = 1; mpz_inits(n, lam[0], lam[1], NULL); }
	long id = mpz_get_si(c->v[0]);
	if (cur != id) { VF_TRY(th, ep_param_set((int)id)); if (th || !ep_curve_is_endom()) { vf_fail(NULL, "curve %ld has no endomorphism / was refused", id); return; } cur = id; which = -1; bn_t r; bn_new(r); ep_curve_get_ord(r); vf_bn_get(n, r);
		/* the two roots of x^2 + x + 1: (-1 +- sqrt(-3)) / 2, square root by exponentiation search on a non-residue-free route: n = 1 mod 3, use g^((n-1)/3) */
		mpz_t g, e, w; mpz_inits(g, e, w, NULL); mpz_sub_ui(e, n, 1); mpz_divexact_ui(e, e, 3); for (unsigned long b = 2;; b++) { mpz_set_ui(g, b); mpz_powm(w, g, e, n); if (mpz_cmp_ui(w, 1)) break; }
		mpz_set(lam[0], w); mpz_mul(lam[1], w, w); mpz_mod(lam[1], lam[1], n); mpz_clears(g, e, w, NULL); }
	bn_t k, k0, k1, bn; bn_new(k); bn_new(k0); bn_new(k1); bn_new(bn); if (!vf_bn_set(k, c->v[1])) return; vf_bn_set(bn, n);
	VF_TRY(th, bn_rec_glv(k0, k1, k, bn, ep_curve_get_v1(), ep_curve_get_v2())); transitions++;
	if (th) { vf_fail(NULL, "bn_rec_glv raised %d", th); return; }
	mpz_t a0, a1, t; mpz_inits(a0, a1, t, NULL); vf_bn_get(a0, k0); vf_bn_get(a1, k1); size_t half = (mpz_sizeinbase(n, 2) + 1) / 2 + 2;
	if (mpz_sizeinbase(a0, 2) > half || mpz_sizeinbase(a1, 2) > half) vf_fail(NULL, "bn_rec_glv: a half has %zu / %zu bits, more than %zu (sqrt of the order)", mpz_sizeinbase(a0, 2), mpz_sizeinbase(a1, 2), half);
	int ok[2]; for (int i = 0; i < 2; i++) { mpz_mul(t, a1, lam[i]); mpz_add(t, t, a0); mpz_sub(t, t, c->v[1]); mpz_mod(t, t, n); ok[i] = !mpz_sgn(t); }
	if (which < 0 && ok[0] != ok[1]) which = ok[0] ? 0 : 1;
	if (!ok[0] && !ok[1]) vf_fail(NULL, "bn_rec_glv: k0 + k1 * lambda != k (mod n) for both roots lambda");
	else if (which >= 0 && !ok[which]) vf_fail(NULL, "bn_rec_glv: the decomposition uses the other root lambda than for the previous scalars of this curve");
	mpz_clears(a0, a1, t, NULL);
}
#endif

static void run_case(vf_case *c) {
	vf_nontrivial();
#ifdef HAVE_GLV
	if (IS("glv")) { do_glv(c); return; }
#endif
	if (IS("mod")) do_mod(c); else if (IS("mxp")) do_mxp(c); else if (IS("mxp_sim")) do_mxp_sim(c); else if (IS("gcd")) do_gcd(c);
	else if (IS("inv")) do_inv(c); else if (IS("inv_sim")) do_inv_sim(c); else if (IS("smb")) do_smb(c); else if (IS("srt")) do_srt(c);
	else if (IS("prime")) do_prime(c); else if (IS("gen")) do_gen(c); else if (IS("lag")) do_lag(c);
	else if (!strncmp(c->op, "bn_rec_", 7)) do_rec(c); else vf_fail(NULL, "unknown op");
}

/* ------------------------------------------------------------------ enumeration */
static vf_case K;
static void r1(const char *op, const mpz_t a) { K.op = op; K.n = 1; mpz_set(K.v[0], a); vf_run(&K); }
static void r2(const char *op, const mpz_t a, const mpz_t b) { K.op = op; K.n = 2; mpz_set(K.v[0], a); mpz_set(K.v[1], b); vf_run(&K); }
static void r3(const char *op, const mpz_t a, const mpz_t b, const mpz_t cc) { K.op = op; K.n = 3; mpz_set(K.v[0], a); mpz_set(K.v[1], b); mpz_set(K.v[2], cc); vf_run(&K); }
static void rec(const char *op, const mpz_t k, long w) { K.op = op; K.n = 2; mpz_set(K.v[0], k); mpz_set_si(K.v[1], w); vf_run(&K); }

#if WSIZE == 8
static const unsigned long long DL[] = {0x00, 0x01, 0x7F, 0x80, 0xFE, 0xFF};
#else
static const unsigned long long DL[] = {0, 1, 0x7FFFFFFFFFFFFFFFULL, 0x8000000000000000ULL, 0xFFFFFFFFFFFFFFFEULL, 0xFFFFFFFFFFFFFFFFULL};
#endif

static void enumerate(void) {
	mpz_t a, b, m, t; mpz_inits(a, b, m, t, NULL);
	vf_case_init(&K);
	vf_dom al; vf_dom_init(&al); vf_dom_add_vecs(&al, DL, 6, VF_DIGB, WSIZE == 8 ? 4 : 3, 1); vf_dom_uniq(&al);
	vf_dom pos; vf_dom_init(&pos); for (int i = 0; i < al.n; i++) if (mpz_sgn(al.v[i]) >= 0) vf_dom_add(&pos, al.v[i]);
	printf("@INFO alphabet %d signed values (%d non-negative)\n", al.n, pos.n);

	long G = WSIZE == 8 ? (vf_tier ? 1024 : 400) : (vf_tier ? 300 : 120);
	if (vf_bound_on("small-complete-gcd-inv-smb")) {
		/* every signed pair in [-G, G]^2: gcd family, lcm, Bezout, inverse, symbols */
		for (long x = -G; x <= G && !vf_expired(); x++) if (vf_mine()) { mpz_set_si(a, x); vf_stat_add("states", 1);
			for (long y = -G; y <= G; y++) { mpz_set_si(b, y); r2("gcd", a, b); if (y > 1) r2("inv", a, b); if (y > 0 && (y & 1)) r2("smb", a, b); if (y > 0) r2("mod", a, b); } }
		vf_bound_done("small-complete-gcd-inv-smb");
	}
	if (vf_bound_on("alphabet-gcd-mod-inv")) {
		for (int i = 0; i < al.n && !vf_expired(); i++) if (vf_mine()) for (int j = 0; j < al.n; j++) {
			r2("gcd", al.v[i], al.v[j]);
			if (mpz_sgn(al.v[j]) > 0) { r2("mod", al.v[i], al.v[j]); if (mpz_cmp_ui(al.v[j], 1) > 0) r2("inv", al.v[i], al.v[j]); if (mpz_odd_p(al.v[j])) r2("smb", al.v[i], al.v[j]); }
		}
		vf_bound_done("alphabet-gcd-mod-inv");
	}
#if WSIZE == 8
	if (vf_bound_on("w8-all16bit-x-alphabet-gcd")) {
		/* Lehmer's single-digit cosequence hits its fallbacks constantly at 8-bit digits */
		int step = vf_tier ? 1 : 5;
		for (long x = 1; x < 65536 && !vf_expired(); x++) if (vf_mine()) { mpz_set_si(a, x); for (int j = (int)(x % step); j < pos.n; j += step) { r2("gcd", a, pos.v[j]); r2("gcd", pos.v[j], a); if (mpz_cmp_ui(pos.v[j], 1) > 0) r2("inv", a, pos.v[j]); } }
		vf_bound_done("w8-all16bit-x-alphabet-gcd");
	}
	if (vf_bound_on("w8-mod-complete")) {
		/* every modulus m < 2^8 (thorough 2^10) x every a < m*R (R = 2^8 per digit) */
		long MM = vf_tier ? 1024 : 256;
		for (long y = 1; y < MM && !vf_expired(); y++) if (vf_mine()) { mpz_set_si(m, y); long top = y * (y < 256 ? 256L : 65536L); long st = top > 200000 ? top / 50021 + 1 : 1;
			for (long x = 0; x < top; x += st) { mpz_set_si(a, x); r2("mod", a, m); } for (long x = 1; x < 300; x++) { mpz_set_si(a, -x); r2("mod", a, m); } }
		vf_bound_done("w8-mod-complete");
	}
#endif
	if (vf_bound_on("mxp-small-complete")) {
		/* every (a, e, m) with a, m < 2^6 and |e| < 2^7 */
		long AM = vf_tier ? 64 : 40;
		for (long y = 1; y < AM && !vf_expired(); y++) if (vf_mine()) { mpz_set_si(m, y); for (long x = 0; x < AM; x++) { mpz_set_si(a, x); for (long e = -127; e <= 127; e++) { mpz_set_si(b, e); r3("mxp", a, b, m); } } }
		vf_bound_done("mxp-small-complete");
	}
	if (vf_bound_on("mxp-alphabet")) {
		/* moduli: odd alphabet values and structured ones; bases around 0/m; exponents incl. m-1, m, m+1, long */
		vf_dom mods; vf_dom_init(&mods);
		for (int i = 0; i < pos.n; i++) if (mpz_cmp_ui(pos.v[i], 2) > 0 && 2 * ndig(pos.v[i]) + 2 <= RLC_BN_SIZE) vf_dom_add(&mods, pos.v[i]);
		const char *big[] = {"ffffffffffffffffffffffffffffffff000000000000000000000001", "fffffffffffffffffffffffffffffffffffffffffffffffffffffffffffffffffffffffffffffffffffffffffffffffffffffffffffffffffffffffffffffffff", "1000000000000000000000000000000000000000000000000000000000000000000000000000000000000000000000000000000000000000000000000000000f1"};
		if (WSIZE == 64) for (unsigned i = 0; i < 3; i++) vf_dom_add_str(&mods, big[i]);
		vf_dom_uniq(&mods);
		int ms = vf_tier ? 1 : (WSIZE == 8 ? 9 : 2);
		for (int i = 0; i < mods.n && !vf_expired(); i += ms) if (vf_mine()) {
			mpz_set(m, mods.v[i]);
			vf_dom es, bs; vf_dom_init(&es); vf_dom_init(&bs);
			for (long e = -2; e <= 3; e++) vf_dom_add_si(&es, e);
			vf_dom_add_near(&es, m, 0); mpz_mul_2exp(t, m, 1); vf_dom_add(&es, t); mpz_mul(t, m, m); if (ndig(t) < RLC_BN_SIZE) vf_dom_add(&es, t);
			for (int j = 0; j < pos.n; j += 13) vf_dom_add(&es, pos.v[j]);
			mpz_neg(t, m); vf_dom_add(&es, t);
			vf_dom_uniq(&es);
			for (long x = -1; x <= 3; x++) vf_dom_add_si(&bs, x);
			vf_dom_add_near(&bs, m, 0); mpz_fdiv_q_2exp(t, m, 1); vf_dom_add(&bs, t); mpz_mul_2exp(t, m, 1); mpz_add_ui(t, t, 1); vf_dom_add(&bs, t);
			vf_dom_uniq(&bs);
			for (int x = 0; x < bs.n; x++) for (int e = 0; e < es.n; e++) r3("mxp", bs.v[x], es.v[e], m);
			/* simultaneous forms, n = 0..8 (bn_mxp_sim_few switches at n > 8 internally) */
			for (int n = 1; n <= 8; n++) { K.op = "mxp_sim"; mpz_set(K.v[0], m); mpz_set_si(K.v[1], n); if (2 + 2 * n > VF_MAXARG) break;
				for (int q = 0; q < n; q++) { mpz_set(K.v[2 + 2 * q], bs.v[(q * 3 + 1) % bs.n]); if (mpz_sgn(K.v[2 + 2 * q]) < 0) mpz_set_ui(K.v[2 + 2 * q], 5); mpz_set(K.v[3 + 2 * q], es.v[(q * 5 + n) % es.n]); if (mpz_sgn(K.v[3 + 2 * q]) < 0) mpz_set_ui(K.v[3 + 2 * q], 0); }
				K.n = 2 + 2 * n; vf_run(&K); }
			/* simultaneous inversion, n = 1..6 with invertible elements */
			if (mpz_odd_p(m)) for (int n = 1; n <= 6; n++) { K.op = "inv_sim"; mpz_set(K.v[0], m); mpz_set_si(K.v[1], n); int ok = 1;
				for (int q = 0; q < n; q++) { mpz_set_ui(K.v[2 + q], 1); mpz_mul_2exp(K.v[2 + q], K.v[2 + q], (unsigned long)(q * 3 + n)); mpz_mod(K.v[2 + q], K.v[2 + q], m); if (mpz_sgn(K.v[2 + q]) == 0) ok = 0; }
				K.n = 2 + n; if (ok) vf_run(&K); }
			vf_dom_clear(&es); vf_dom_clear(&bs);
		}
		vf_bound_done("mxp-alphabet");
	}
	if (vf_bound_on("srt")) {
		long S = WSIZE == 8 ? 65536 : 20000;
		for (long x = -3; x < S; x++) if (vf_mine()) { mpz_set_si(a, x); r1("srt", a); }
		for (int i = 0; i < pos.n; i++) if (vf_mine()) { r1("srt", pos.v[i]); mpz_mul(t, pos.v[i], pos.v[i]); if (ndig(t) < RLC_BN_SIZE) { r1("srt", t); mpz_sub_ui(t, t, 1); r1("srt", t); mpz_add_ui(t, t, 2); r1("srt", t); } }
		vf_bound_done("srt");
	}
	if (vf_bound_on("primality")) {
		/* every n below the bound; every Carmichael number and base-2 strong pseudoprime below 2^26 found by the reference */
		long P = WSIZE == 8 ? 65536 : (vf_tier ? (1L << 20) : (1L << 17));
		for (long x = -2; x < P && !vf_expired(); x++) if (vf_mine()) { mpz_set_si(a, x); r1("prime", a); }
#if WSIZE == 64
		long LIM = vf_tier ? (1L << 26) : (1L << 22);
		for (long n = 9; n < LIM && !vf_expired(); n += 2) { if (!vf_mine()) continue; mpz_set_si(a, n); mpz_sub_ui(t, a, 1); mpz_set_ui(b, 2); mpz_powm(b, b, t, a); if (mpz_cmp_ui(b, 1) != 0) continue; if (mpz_probab_prime_p(a, 20)) continue; vf_stat_add("x.fermat2_pseudoprimes", 1); r1("prime", a); }
		/* squares of primes, products of close primes, (6k+1)(12k+1)(18k+1) */
		for (long p = 3; p < (vf_tier ? 65536 : 8192) && !vf_expired(); p += 2) { mpz_set_si(a, p); if (!mpz_probab_prime_p(a, 20) || !vf_mine()) continue; mpz_mul(t, a, a); r1("prime", t); mpz_nextprime(b, a); mpz_mul(t, a, b); r1("prime", t); mpz_mul_2exp(b, a, 1); mpz_sub_ui(b, b, 1); mpz_mul(t, a, b); r1("prime", t); }
		for (long k = 1; k < (vf_tier ? 20000 : 2000) && !vf_expired(); k++) if (vf_mine()) { mpz_set_si(a, 6 * k + 1); mpz_set_si(b, 12 * k + 1); mpz_mul(t, a, b); mpz_set_si(b, 18 * k + 1); mpz_mul(t, t, b); r1("prime", t); }
		const char *bigp[] = {"ffffffff00000001000000000000000000000000ffffffffffffffffffffffff", "ffffffff00000000ffffffffffffffffbce6faada7179e84f3b9cac2fc632551", "fffffffffffffffffffffffffffffffffffffffffffffffffffffffefffffc2f", "ffffffffffffffffffffffffffffffffffffffffffffffffffffffffffffffff", "fffffffffffffffffffffffffffffffffffffffffffffffffffffffffffffffd"};
		for (unsigned i = 0; i < 5; i++) if (vf_mine()) { mpz_set_str(a, bigp[i], 16); r1("prime", a); }
#endif
		vf_bound_done("primality");
	}
	if (vf_bound_on("prime-generation")) {
		int maxbits = WSIZE == 8 ? 32 : 96;
		for (int kind = 0; kind < 3; kind++) for (int bits = (kind == 2 ? (WSIZE == 8 ? 24 : 160) : 4); bits <= (kind == 2 ? (WSIZE == 8 ? 32 : 256) : maxbits); bits += (bits < 34 || WSIZE == 8 ? 1 : 7)) for (int seed = 0; seed < (vf_tier ? 6 : 2); seed++)
			if (vf_mine()) { K.op = "gen"; K.n = 3; mpz_set_si(K.v[0], kind); mpz_set_si(K.v[1], bits); mpz_set_si(K.v[2], seed); vf_run(&K); }
		vf_bound_done("prime-generation");
	}
	if (vf_bound_on("lagrange")) {
		long qs[] = {5, 7, 251, 257, 65521};
		for (unsigned qi = 0; qi < 5; qi++) for (int n = 0; n <= 5; n++) for (long s = 0; s < 12; s++) if (vf_mine()) { /* n = 0: the empty product 1 */
			K.op = "lag"; mpz_set_si(K.v[0], qs[qi]); mpz_set_si(K.v[1], n);
			for (int i = 0; i < n; i++) mpz_set_si(K.v[2 + i], (s * (i + 3) * 7 + i * i + (s == 0 ? 0 : 1)) % qs[qi]);
			mpz_set_si(K.v[2 + n], (s * 11 + 2) % qs[qi]); K.n = 3 + n; vf_run(&K); }
		vf_bound_done("lagrange");
	}
	if (vf_bound_on("recodings")) {
		long RK = WSIZE == 8 ? 65536 : (vf_tier ? 65536 : 8192);
		for (long x = 0; x < RK && !vf_expired(); x++) if (vf_mine()) { mpz_set_si(a, x);
			for (long w = 2; w <= 8; w++) {
				rec("bn_rec_win", a, w);
				rec("bn_rec_slw", a, w); rec("bn_rec_naf", a, w);
				mpz_neg(t, a); rec("bn_rec_naf", t, w);
				K.op = "bn_rec_reg"; K.n = 3; mpz_set(K.v[0], a); mpz_set_si(K.v[1], w); mpz_set_si(K.v[2], 16); vf_run(&K); mpz_set_si(K.v[2], 17); vf_run(&K);
				if (x < 4096 || x % 7 == 0) for (int u = 0; u < 2; u++) { K.op = "bn_rec_tnaf"; K.n = 4; mpz_set(K.v[0], a); mpz_set_si(K.v[1], w); mpz_set_si(K.v[2], u); mpz_set_si(K.v[3], 17); vf_run(&K); }
			}
			if (x < 1024) for (long y = 0; y < 1024; y += (y <= x ? 1 : 37)) { mpz_set_si(b, y); r2("bn_rec_jsf", a, b); }
		}
		/* long scalars: alphabet values, runs of ones/zeros */
		for (int i = 0; i < pos.n && !vf_expired(); i++) if (vf_mine()) for (long w = 2; w <= 8; w++) {
			rec("bn_rec_win", pos.v[i], w);
			rec("bn_rec_slw", pos.v[i], w); rec("bn_rec_naf", pos.v[i], w);
			K.op = "bn_rec_reg"; K.n = 3; mpz_set(K.v[0], pos.v[i]); mpz_set_si(K.v[1], w); mpz_set_si(K.v[2], (long)mpz_sizeinbase(pos.v[i], 2) + 1); vf_run(&K);
			for (int u = 0; u < 2; u++) { K.op = "bn_rec_tnaf"; K.n = 4; mpz_set(K.v[0], pos.v[i]); mpz_set_si(K.v[1], w); mpz_set_si(K.v[2], u); mpz_set_si(K.v[3], WSIZE == 8 ? 17 : 283); vf_run(&K); }
			if (i % 5 == 0) for (int j = 0; j <= i; j += 11) if (mpz_cmp(pos.v[j], pos.v[i]) <= 0) r2("bn_rec_jsf", pos.v[i], pos.v[j]);
		}
		if (WSIZE == 64) for (int run = 1; run <= 70; run++) for (int off = 0; off < 4; off++) if (vf_mine()) { int offs[] = {0, 1, 62, 63}; mpz_set_ui(a, 1); mpz_mul_2exp(a, a, (unsigned long)run); mpz_sub_ui(a, a, 1); mpz_mul_2exp(a, a, (unsigned long)offs[off] + 64); mpz_add_ui(a, a, 1);
			for (long w = 2; w <= 8; w++) { rec("bn_rec_win", a, w); rec("bn_rec_slw", a, w); rec("bn_rec_naf", a, w); K.op = "bn_rec_reg"; K.n = 3; mpz_set(K.v[0], a); mpz_set_si(K.v[1], w); mpz_set_si(K.v[2], 256); vf_run(&K); } }
		vf_bound_done("recodings");
	}
#ifdef HAVE_GLV
	if (vf_bound_on("glv-decomposition")) {
		/* scalars: alphabet, and for each lattice entry v the scalars whose rounded quotient round(k v / 2^(bits+1)) has a low digit of all ones with the
		 * rounding bit set (carry out of the lowest digit), for 64 high parts */
		static const int CID[] = {SECG_K256, BN_P256, SM9_P256};
		for (unsigned ci = 0; ci < 3; ci++) { int th; VF_TRY(th, ep_param_set(CID[ci])); if (th) continue; bn_t r; bn_new(r); ep_curve_get_ord(r); mpz_t n, v, q, k; mpz_inits(n, v, q, k, NULL); vf_bn_get(n, r); size_t bits = mpz_sizeinbase(n, 2);
			for (int vi = 0; vi < 2; vi++) { vf_bn_get(v, vi ? &ep_curve_get_v2()[0] : &ep_curve_get_v1()[0]); mpz_abs(v, v); if (!mpz_sgn(v)) continue;
				for (unsigned long h = 0; h < 64; h++) for (int lowones = 1; lowones <= 2; lowones++) if (vf_mine()) { /* Q = h' * 2^(64 lowones) + (2^(64 lowones) - 1) */
					mpz_set_ui(q, h * 0x9E3779B1UL + 1); mpz_mul_2exp(q, q, 64UL * (unsigned long)lowones); mpz_set_ui(k, 1); mpz_mul_2exp(k, k, 64UL * (unsigned long)lowones); mpz_sub_ui(k, k, 1); mpz_add(q, q, k);
					mpz_mul_2exp(q, q, bits + 1); mpz_setbit(q, bits); mpz_cdiv_q(k, q, v); if (mpz_cmp(k, n) >= 0) continue; K.op = "glv"; K.n = 2; mpz_set_si(K.v[0], CID[ci]); mpz_set(K.v[1], k); vf_run(&K); mpz_sub_ui(K.v[1], k, 1); vf_run(&K); } }
			for (int i = 0; i < pos.n; i++) if (vf_mine() && mpz_cmp(pos.v[i], n) < 0) { K.op = "glv"; K.n = 2; mpz_set_si(K.v[0], CID[ci]); mpz_set(K.v[1], pos.v[i]); vf_run(&K); mpz_sub(K.v[1], n, pos.v[i]); vf_run(&K); }
			mpz_clears(n, v, q, k, NULL); }
		vf_bound_done("glv-decomposition");
	}
#endif
	vf_stat_add("transitions", transitions);
	mpz_clears(a, b, m, t, NULL);
}

VF_MAIN()
