/*
 * C11 -- curves over F_p^2: group law, [k]Q, Frobenius and cofactor clearing.
 *
 * W8 (tiny): curves over F_p^2 (p = 23, 29, 251) found by reference point counting and installed through ep2_curve_set;
 *   complete Cayley tables for one curve per coefficient-optimisation class, every scalar in [-2r-3, 2r+3] for every routine.
 * W64: BN_P256 (D-type twist) and SM9_P256 (M-type twist); points of G2 and twist points OUTSIDE G2; the GLS recodings,
 *   the Frobenius endomorphism (eigenvalue p on G2, additivity and characteristic equation on every twist point) and
 *   cofactor clearing.
 * Reference: ref_ec2.h. Case args: v[0] = curve id, points as (x, y) with x = a + b * 2^F2BITS, x = -1 for infinity.
 */
#include "ep2_common.h"

static void harness_setup(void) {
	if (core_init() != RLC_OK) exit(2);
	vf_reseed(); tiny_curves_setup(); ep2_common_setup();
#if WSIZE != 64
	/* base curves over F_p (plain, so that the generic F_p^2 algorithms are dispatched) and the F_p^2 curves.
	 * The prime must fill RLC_FP_DIGS digits, so p >= 257 and the curves have ~66 000 points: complete Cayley tables are
	 * run on complete SUBGROUPS of 400..1100 points (plus points outside them), complete scalar ranges on curves of order 2r. */
	static const long PS[] = {257, 263}; int base[2];
	find_soft = 1;
	for (int i = 0; i < 2; i++) { int before = ntc; for (long a = 1; a < 8 && ntc == before; a++) find_curve("base", PS[i], a, 0, 0, 0); if (ntc == before) { fprintf(stderr, "no base curve for p=%ld\n", PS[i]); exit(2); } base[i] = before; }
	long beta[2];
	for (int i = 0; i < 2; i++) { cur_cid = -1; if (!select_curve(base[i]) || !learn_beta()) { fprintf(stderr, "cannot learn beta for p=%ld\n", PS[i]); exit(2); } beta[i] = mpz_get_si(F2BETA); }
	/*            name                                  base     p    beta     a0  a1 kind bmode */
	find_curve2("U0 p=263 a=-3 odd subgroup",            base[1], 263, beta[1], -3, 0, 0, 1);   /* 0 */
	find_curve2("U1 p=263 a=0 odd subgroup",             base[1], 263, beta[1],  0, 0, 0, 1);   /* 1 */
	find_curve2("U2 p=263 a=1 odd subgroup",             base[1], 263, beta[1],  1, 0, 0, 1);   /* 2 */
	find_curve2("U3 p=263 a=2 even subgroup",            base[1], 263, beta[1],  2, 0, 2, 1);   /* 3 */
	find_curve2("U4 p=263 a=5 odd subgroup",             base[1], 263, beta[1],  5, 0, 0, 1);   /* 4 */
	find_curve2("U5 p=263 a=3+4u b in F_p even subgroup", base[1], 263, beta[1], 3, 4, 2, 0);   /* 5 */
	find_curve2("U6 p=263 a=-3 even subgroup",           base[1], 263, beta[1], -3, 0, 2, 1);   /* 6: points of order two */
	find_curve2("U7 p=257 a=1+u odd subgroup",           base[0], 257, beta[0],  1, 1, 0, 1);   /* 7: p = 1 mod 4 */
	find_curve2("U8 p=263 a=-3 order 2r, r 16-bit prime", base[1], 263, beta[1], -3, 0, 1, 1);  /* 8: every scalar */
	find_curve2("U9 p=257 a=7+9u order 2r",              base[0], 257, beta[0],  7, 9, 1, 1);   /* 9 */
	if (vf_shard == 0 && !vf_replaying) for (int i = 0; i < ntc2; i++) printf("@INFO F_p^2 curve %d: %s beta=%ld a=(%ld,%ld) b=(%ld,%ld) order=%ld r=%ld h=%ld\n", i, TC2[i].name, TC2[i].beta, TC2[i].a0, TC2[i].a1, TC2[i].b0, TC2[i].b1, TC2[i].order, TC2[i].r, TC2[i].h);
#endif
}

static int ep2_same(const ep2_t a, const ep2_t b) { return a->coord == b->coord && !memcmp(a->x, b->x, sizeof(fp2_st)) && !memcmp(a->y, b->y, sizeof(fp2_st)) && !memcmp(a->z, b->z, sizeof(fp2_st)); }
static void ep2_junk(ep2_t r) { memset(r->x, 0x5A, sizeof(fp2_st)); memset(r->y, 0x5A, sizeof(fp2_st)); memset(r->z, 0x5A, sizeof(fp2_st)); r->coord = BASIC; }
#if EP_ADD == PROJC
#define DREP REP_PRJ
#elif EP_ADD == JACOB
#define DREP REP_JAC
#else
#define DREP REP_AFF
#endif

/* ---------------------------------------------------------------- group law */
typedef void (*add2_fn)(ep2_t, const ep2_t, const ep2_t);
typedef void (*dbl2_fn)(ep2_t, const ep2_t);
static void do_law(vf_case *c) {
	int th; rpt2 P, Q, S, D, N, M; rpt2_init(&P); rpt2_init(&Q); rpt2_init(&S); rpt2_init(&D); rpt2_init(&N); rpt2_init(&M);
	pt2_from_args(&P, c->v[1], c->v[2]); pt2_from_args(&Q, c->v[3], c->v[4]);
	rpt2_add(&RC2, &S, &P, &Q); rpt2_neg(&N, &Q); rpt2_add(&RC2, &M, &P, &N); rpt2_add(&RC2, &D, &P, &P);
	ep2_t p, q, r, sp, sq; ep2_new(p); ep2_new(q); ep2_new(r); ep2_new(sp); ep2_new(sq);
	static const struct { const char *n; add2_fn f; int rep; } ADD[] = {{"ep2_add_basic", ep2_add_basic, REP_AFF}, {"ep2_add_projc", ep2_add_projc, REP_PRJ}, {"ep2_add_jacob", ep2_add_jacob, REP_JAC}};
	static const struct { const char *n; dbl2_fn f; int rep; } DBL[] = {{"ep2_dbl_basic", ep2_dbl_basic, REP_AFF}, {"ep2_dbl_projc", ep2_dbl_projc, REP_PRJ}, {"ep2_dbl_jacob", ep2_dbl_jacob, REP_JAC}};
	int same = rpt2_eq(&P, &Q);
	/* same finding as on prime curves (one template): the complete projective formulas return Z = 0 when P - Q has order two */
	const char *kf_add = (!M.inf && f2_is_zero(&M.y) && !P.inf && !Q.inf) ? "L27-projc-add-difference-of-order-two" : NULL;
	const char *kf_sub = (!S.inf && f2_is_zero(&S.y) && !P.inf && !Q.inf) ? "L27-projc-add-difference-of-order-two" : NULL;
	for (int s = 0; s < 3; s++) {
		for (int rp = 0; rp < (s ? 2 : 1); rp++) for (int rq = 0; rq < (s ? 2 : 1); rq++) for (int al = 0; al < 4; al++) {
			if (al == 3 && !same) continue;
			ep2_inject(p, &P, rp ? ADD[s].rep : REP_AFF, 1); ep2_inject(q, &Q, rq ? ADD[s].rep : REP_AFF, 2);
			if (al == 3 && rp != rq) continue;
			ep2_copy(sp, p); ep2_copy(sq, q);
			ep2_st *pp = p, *pq = al == 3 ? p : q, *pr = al == 1 ? p : al == 2 ? q : r;
			if (pr == r) { ep2_set_infty(r); ep2_junk(r); }
			VF_TRY(th, ADD[s].f(pr, pp, pq));
			if (th) { vf_fail(NULL, "%s raised %d (reps %d,%d alias %d)", ADD[s].n, th, rp, rq, al); continue; }
			char w[96]; snprintf(w, sizeof w, "%s[reps %d,%d alias %d]", ADD[s].n, rp, rq, al);
			expect_pt2(w, pr, &S, 0, s == 1 ? kf_add : NULL);
			if (pr != p && !ep2_same(p, sp)) vf_fail(NULL, "%s: first operand modified", w);
			if (pr != q && pq == q && !ep2_same(q, sq)) vf_fail(NULL, "%s: second operand modified", w);
		}
		for (int rp = 0; rp < (s ? 2 : 1); rp++) for (int al = 0; al < 2; al++) {
			ep2_inject(p, &P, rp ? DBL[s].rep : REP_AFF, 3);
			ep2_st *pr = al ? p : r;
			VF_TRY(th, DBL[s].f(pr, p));
			if (th) { vf_fail(NULL, "%s raised %d", DBL[s].n, th); continue; }
			char w[96]; snprintf(w, sizeof w, "%s[rep %d alias %d]", DBL[s].n, rp, al);
			expect_pt2(w, pr, &D, 0, NULL);
		}
	}
	for (int rp = 0; rp < 2; rp++) for (int rq = 0; rq < 2; rq++) {
		ep2_inject(p, &P, rp ? DREP : REP_AFF, 4); ep2_inject(q, &Q, rq ? DREP : REP_AFF, 5);
		VF_TRY(th, ep2_sub(r, p, q)); if (th) vf_fail(NULL, "ep2_sub raised %d", th); else expect_pt2("ep2_sub", r, &M, 0, DREP == REP_PRJ ? kf_sub : NULL);
		int e; VF_TRY(th, e = ep2_cmp(p, q)); transitions++;
		if (th) vf_fail(NULL, "ep2_cmp raised"); else if ((e == RLC_EQ) != same) vf_fail(NULL, "ep2_cmp[reps %d,%d]: says %s for %s points", rp, rq, e == RLC_EQ ? "EQ" : "NE", same ? "equal" : "different");
	}
	for (int rp = 0; rp < 2; rp++) {
		ep2_inject(p, &P, rp ? DREP : REP_AFF, 6);
		VF_TRY(th, ep2_neg(r, p)); rpt2_neg(&N, &P); if (th) vf_fail(NULL, "ep2_neg raised"); else expect_pt2("ep2_neg", r, &N, 0, NULL);
		VF_TRY(th, ep2_norm(r, p)); if (th) vf_fail(NULL, "ep2_norm raised %d", th); else expect_pt2("ep2_norm", r, &P, 1, NULL);
		int oc; VF_TRY(th, oc = ep2_on_curve(p)); transitions++; if (th) vf_fail(NULL, "ep2_on_curve raised"); else if (!oc) vf_fail(NULL, "ep2_on_curve rejects a curve point (rep %d)", rp);
		ep2_copy(r, p); VF_TRY(th, ep2_norm(r, r)); if (!th) expect_pt2("ep2_norm(r==p)", r, &P, 1, NULL);
		int inf; VF_TRY(th, inf = ep2_is_infty(p)); if (!th && (inf != 0) != P.inf) vf_fail(NULL, "ep2_is_infty wrong (rep %d)", rp);
	}
	if (!P.inf && !Q.inf) {
		fp2_t sl; fp2_new(sl);
		ep2_inject(p, &P, REP_AFF, 0); ep2_inject(q, &Q, REP_AFF, 0);
		VF_TRY(th, ep2_add_slp_basic(r, sl, p, q)); if (th) vf_fail(NULL, "ep2_add_slp_basic raised %d", th); else expect_pt2("ep2_add_slp_basic", r, &S, 0, NULL);
		VF_TRY(th, ep2_dbl_slp_basic(r, sl, p)); if (th) vf_fail(NULL, "ep2_dbl_slp_basic raised %d", th); else expect_pt2("ep2_dbl_slp_basic", r, &D, 0, NULL);
	}
	if (!P.inf) { rpt2 X; rpt2_init(&X); rpt2_set(&X, &P); mpz_add_ui(X.y.b, X.y.b, 1); mpz_mod(X.y.b, X.y.b, F2P); if (!rpt2_on_curve(&RC2, &X)) { ep2_inject(p, &X, REP_AFF, 0); int oc; VF_TRY(th, oc = ep2_on_curve(p)); transitions++; if (!th && oc) vf_fail(NULL, "ep2_on_curve accepts an off-curve point"); } rpt2_clear(&X);
		/* ep2_rhs */
		fp2_t rh, x; fp2_new(rh); fp2_new(x); f2 e, g; f2_init(&e); f2_init(&g); vf_fp2_set(x, &P.x); VF_TRY(th, ep2_rhs(rh, x)); rpt2_rhs(&RC2, &e, &P.x); transitions++;
		if (th) vf_fail(NULL, "ep2_rhs raised"); else { vf_fp2_get(&g, rh); if (!f2_eq(&g, &e)) vf_fail(NULL, "ep2_rhs: wrong value"); } f2_clear(&e); f2_clear(&g); }
	rpt2_clear(&P); rpt2_clear(&Q); rpt2_clear(&S); rpt2_clear(&D); rpt2_clear(&N); rpt2_clear(&M);
}

/* ---------------------------------------------------------------- scalar multiplication */
typedef void (*mul2_fn)(ep2_t, const ep2_t, const bn_t);
typedef void (*pre2_fn)(ep2_t *, const ep2_t);
typedef void (*fix2_fn)(ep2_t, const ep2_t *, const bn_t);
static ep2_t TAB[4][RLC_EP_TABLE_MAX]; static int tab_ok[4];
static mpz_t tab_x, tab_y; static long tab_cid = -2; static int tab_init = 0;
static const struct { const char *n; pre2_fn pre; fix2_fn fix; } FIX[] = {
	{"ep2_mul_fix_basic", ep2_mul_pre_basic, ep2_mul_fix_basic}, {"ep2_mul_fix_combs", ep2_mul_pre_combs, ep2_mul_fix_combs},
	{"ep2_mul_fix_combd", ep2_mul_pre_combd, ep2_mul_fix_combd}, {"ep2_mul_fix_lwnaf", ep2_mul_pre_lwnaf, ep2_mul_fix_lwnaf}};
static void build_tables(const rpt2 *P, const mpz_t kx, const mpz_t ky) {
	if (!tab_init) { mpz_inits(tab_x, tab_y, NULL); tab_init = 1; for (int i = 0; i < 4; i++) for (int j = 0; j < RLC_EP_TABLE_MAX; j++) ep2_new(TAB[i][j]); }
	if (tab_cid == cur_cid2 && !mpz_cmp(tab_x, kx) && !mpz_cmp(tab_y, ky)) return;
	ep2_t p; ep2_new(p); ep2_inject(p, P, REP_AFF, 0);
	for (int i = 0; i < 4; i++) { int th; VF_TRY(th, FIX[i].pre(TAB[i], p)); tab_ok[i] = !th; }
	tab_cid = cur_cid2; mpz_set(tab_x, kx); mpz_set(tab_y, ky);
}
static int in_subgroup(const rpt2 *P) { rpt2 t; rpt2_init(&t); rpt2_mul(&RC2, &t, P, RN2); int r = t.inf; rpt2_clear(&t); return r; }

static void do_mul(vf_case *c) {
	int th; rpt2 P, E; rpt2_init(&P); rpt2_init(&E);
	pt2_from_args(&P, c->v[1], c->v[2]);
	const mpz_t *k = &c->v[3];
	rpt2_mul(&RC2, &E, &P, *k);
	bn_t bk; bn_new(bk); if (!vf_bn_set(bk, *k)) return;
	ep2_t p, r; ep2_new(p); ep2_new(r);
	static const struct { const char *n; mul2_fn f; int sub; } MUL[] = {{"ep2_mul_basic", ep2_mul_basic, 0}, {"ep2_mul_slide", ep2_mul_slide, 0}, {"ep2_mul_monty", ep2_mul_monty, 1}, {"ep2_mul_lwnaf", ep2_mul_lwnaf, 1}, {"ep2_mul_lwreg", ep2_mul_lwreg, 1}};
	/* the recoding-based routines and the ladder reduce the scalar modulo the group order (and use the Frobenius eigenvalue): contract = points of the order-r subgroup */
	int member = in_subgroup(&P);
	/* the regular / ladder forms (and the comb tables) rely on r being PRIME (no intermediate multiple of P vanishes); the tiny Cayley curves install a
	 * composite-order subgroup, where only the generic left-to-right forms are judged */
	int prime_r = !tiny || TC2[cur_cid2].h == 2;
	/* L35: on curves without the twist structure the recoding-based routines do not reduce the scalar and their buffers hold RLC_FP_BITS + 1 digits */
	const char *kf_long = (mpz_sizeinbase(*k, 2) > RLC_FP_BITS) ? "L35-ep2-plain-routines-refuse-long-scalars" : NULL;
	for (unsigned i = 0; i < sizeof MUL / sizeof *MUL; i++) for (int rp = 0; rp < 2; rp++) {
		if (rp && (DREP == REP_AFF || P.inf)) continue;
		if (MUL[i].sub && !member) continue;
		if (!prime_r && (MUL[i].f == ep2_mul_monty || MUL[i].f == ep2_mul_lwreg)) continue;
		ep2_inject(p, &P, rp ? DREP : REP_AFF, 1);
		ep2_junk(r); vf_reseed();
		VF_TRY(th, MUL[i].f(r, p, bk));
		char w[64]; snprintf(w, sizeof w, "%s[rep %d]", MUL[i].n, rp);
		if (th) { vf_fail(kf_long, "%s raised %d", w, th); continue; }
		expect_pt2(w, r, &E, 1, NULL);
		if (!rp) { ep2_inject(p, &P, REP_AFF, 0); vf_reseed(); VF_TRY(th, MUL[i].f(p, p, bk)); if (!th) expect_pt2(MUL[i].n, p, &E, 1, NULL); }
	}
	if (mpz_sgn(*k) >= 0 && mpz_sizeinbase(*k, 2) <= (size_t)VF_DIGB) {
		dig_t d = 0; mpz_export(&d, NULL, -1, sizeof(dig_t), 0, 0, *k);
		ep2_inject(p, &P, REP_AFF, 0); VF_TRY(th, ep2_mul_dig(r, p, d)); if (th) vf_fail(NULL, "ep2_mul_dig raised %d", th); else expect_pt2("ep2_mul_dig", r, &E, 1, NULL);
	}
	/* tiny_exclusion as in C03: tables judged on curves whose order fills RLC_FP_BITS */
	int tables_ok = !tiny || mpz_sizeinbase(RN2, 2) == RLC_FP_BITS;
	if (rpt2_eq(&P, &RG2) && tables_ok) { vf_reseed(); VF_TRY(th, ep2_mul_gen(r, bk)); if (th) vf_fail(NULL, "ep2_mul_gen raised %d", th); else expect_pt2("ep2_mul_gen", r, &E, 1, NULL); }
	if (!P.inf && tables_ok && member && prime_r) {
		build_tables(&P, c->v[1], c->v[2]);
		for (int i = 0; i < 4; i++) {
			if (!tab_ok[i]) { vf_fail(NULL, "%s: precomputation raised", FIX[i].n); continue; }
			VF_TRY(th, FIX[i].fix(r, (const ep2_t *)TAB[i], bk));
			if (th) { vf_fail(NULL, "%s raised %d", FIX[i].n, th); continue; }
			expect_pt2(FIX[i].n, r, &E, 1, NULL);
		}
	}
	rpt2_clear(&P); rpt2_clear(&E);
}

typedef void (*sim2_fn)(ep2_t, const ep2_t, const bn_t, const ep2_t, const bn_t);
static void do_sim(vf_case *c) {
	int th; rpt2 P, Q, E, T; rpt2_init(&P); rpt2_init(&Q); rpt2_init(&E); rpt2_init(&T);
	pt2_from_args(&P, c->v[1], c->v[2]); pt2_from_args(&Q, c->v[4], c->v[5]);
	rpt2_mul(&RC2, &E, &P, c->v[3]); rpt2_mul(&RC2, &T, &Q, c->v[6]); rpt2_add(&RC2, &E, &E, &T);
	bn_t bk, bm; bn_new(bk); bn_new(bm); if (!vf_bn_set(bk, c->v[3]) || !vf_bn_set(bm, c->v[6])) return;
	ep2_t p, q, r; ep2_new(p); ep2_new(q); ep2_new(r);
	const char *kf_long = (tiny && (mpz_sizeinbase(c->v[3], 2) > RLC_FP_BITS || mpz_sizeinbase(c->v[6], 2) > RLC_FP_BITS)) ? "L35-ep2-plain-routines-refuse-long-scalars" : NULL;
	static const struct { const char *n; sim2_fn f; } SIM[] = {{"ep2_mul_sim_basic", ep2_mul_sim_basic}, {"ep2_mul_sim_trick", ep2_mul_sim_trick}, {"ep2_mul_sim_inter", ep2_mul_sim_inter}, {"ep2_mul_sim_joint", ep2_mul_sim_joint}};
	for (unsigned i = 0; i < 4; i++) {
		ep2_inject(p, &P, REP_AFF, 0); ep2_inject(q, &Q, REP_AFF, 0); ep2_junk(r); vf_reseed();
		VF_TRY(th, SIM[i].f(r, p, bk, q, bm));
		if (th) { vf_fail(kf_long, "%s raised %d", SIM[i].n, th); continue; }
		expect_pt2(SIM[i].n, r, &E, 1, NULL);
	}
	if (!tiny) { ep2_t ps[2]; bn_t ks[2]; ep2_new(ps[0]); ep2_new(ps[1]); bn_new(ks[0]); bn_new(ks[1]); /* always Frobenius-based: needs the twist structure */
		ep2_inject(ps[0], &P, REP_AFF, 0); ep2_inject(ps[1], &Q, REP_AFF, 0); bn_copy(ks[0], bk); bn_copy(ks[1], bm);
		vf_reseed(); VF_TRY(th, ep2_mul_sim_lot(r, ps, (const bn_t *)ks, 2)); if (th) vf_fail(NULL, "ep2_mul_sim_lot(n=2) raised %d", th); else expect_pt2("ep2_mul_sim_lot(n=2)", r, &E, 1, NULL); }
	if (rpt2_eq(&P, &RG2) && (!tiny || mpz_sizeinbase(RN2, 2) == RLC_FP_BITS)) { ep2_inject(q, &Q, REP_AFF, 0); vf_reseed(); VF_TRY(th, ep2_mul_sim_gen(r, bk, q, bm)); if (th) vf_fail(kf_long, "ep2_mul_sim_gen raised %d", th); else expect_pt2("ep2_mul_sim_gen", r, &E, 1, NULL); }
	rpt2_clear(&P); rpt2_clear(&Q); rpt2_clear(&E); rpt2_clear(&T);
}

/* many-point forms: args cid, n, pattern; points P_i = [3i+1]G (infinity at one position when pattern is odd) */
static void scalar_alphabet(vf_dom *d);
static void do_lot(vf_case *c) {
	int th, n = (int)mpz_get_si(c->v[1]); long pat = mpz_get_si(c->v[2]);
	vf_dom S; vf_dom_init(&S); scalar_alphabet(&S);
	ep2_t *ps = malloc(sizeof(ep2_t) * (size_t)(n + 1)); bn_t *ks = malloc(sizeof(bn_t) * (size_t)(n + 1)); dig_t *ds = malloc(sizeof(dig_t) * (size_t)(n + 1));
	rpt2 E, T, P, E2; rpt2_init(&E); rpt2_init(&T); rpt2_init(&P); rpt2_init(&E2);
	for (int i = 0; i < n; i++) {
		ep2_new(ps[i]); bn_new(ks[i]);
		mpz_set_si(zt, 3 * i + 1); rpt2_mul(&RC2, &P, &RG2, zt);
		if ((pat & 1) && i == (int)((pat >> 1) % n)) rpt2_set_inf(&P);
		ep2_inject(ps[i], &P, REP_AFF, 0);
		const mpz_t *k = &S.v[(size_t)((pat * 7 + i * 13) % S.n)];
		if ((pat & 2) && i == (int)((pat >> 2) % n)) k = &S.v[0];
		vf_bn_set(ks[i], *k);
		rpt2_mul(&RC2, &T, &P, *k); rpt2_add(&RC2, &E, &E, &T);
		ds[i] = (dig_t)((pat * 31 + i * 17 + 1) & (WSIZE == 8 ? 0xFF : 0xFFFF)); if ((pat & 2) && i == (int)((pat >> 2) % n)) ds[i] = 0;
		mpz_set_ui(zt, (unsigned long)ds[i]); rpt2_mul(&RC2, &T, &P, zt); rpt2_add(&RC2, &E2, &E2, &T);
	}
	ep2_t r; ep2_new(r); vf_reseed();
	if (!tiny) { VF_TRY(th, ep2_mul_sim_lot(r, ps, (const bn_t *)ks, n));
		if (th) vf_fail(NULL, "ep2_mul_sim_lot(n=%d) raised %d", n, th); else expect_pt2("ep2_mul_sim_lot", r, &E, 1, NULL);
		/* the result aliased to one of the points */
		if (n > 0) { int j = (int)((pat >> 1) % n); ep2_t keep; ep2_new(keep); ep2_copy(keep, ps[j]); vf_reseed(); VF_TRY(th, ep2_mul_sim_lot(ps[j], ps, (const bn_t *)ks, n)); char w[64]; snprintf(w, sizeof w, "ep2_mul_sim_lot(n=%d, result aliased to point %d)", n, j);
			if (th) vf_fail(NULL, "%s raised %d", w, th); else expect_pt2(w, ps[j], &E, 1, NULL); ep2_copy(ps[j], keep); } }
	VF_TRY(th, ep2_mul_sim_dig(r, ps, ds, n));
	if (th) vf_fail(NULL, "ep2_mul_sim_dig(n=%d) raised %d", n, th); else expect_pt2("ep2_mul_sim_dig", r, &E2, 1, NULL);
#if EP_ADD != BASIC
	if (n > 0) {
		ep2_t *rs = malloc(sizeof(ep2_t) * (size_t)n);
		for (int i = 0; i < n; i++) { ep2_new(rs[i]); if (!ep2_is_infty(ps[i])) { mpz_set_si(zt, 3 * i + 1); rpt2_mul(&RC2, &P, &RG2, zt); ep2_inject(ps[i], &P, DREP, i + 1); } }
		VF_TRY(th, ep2_norm_sim(rs, (const ep2_t *)ps, n));
		if (th) vf_fail(NULL, "ep2_norm_sim(n=%d) raised %d", n, th);
		else for (int i = 0; i < n; i++) { mpz_set_si(zt, 3 * i + 1); rpt2_mul(&RC2, &P, &RG2, zt); if (ep2_is_infty(ps[i])) rpt2_set_inf(&P); expect_pt2("ep2_norm_sim", rs[i], &P, 1, NULL); }
		free(rs);
	}
#endif
	vf_dom_clear(&S); free(ps); free(ks); free(ds);
	rpt2_clear(&E); rpt2_clear(&T); rpt2_clear(&P); rpt2_clear(&E2);
}

/* Frobenius and cofactor: args cid, x, y, x', y'   (second point only for additivity) */
static void do_misc(vf_case *c) {
	int th; rpt2 P, Q, E, A, B; rpt2_init(&P); rpt2_init(&Q); rpt2_init(&E); rpt2_init(&A); rpt2_init(&B);
	pt2_from_args(&P, c->v[1], c->v[2]); pt2_from_args(&Q, c->v[3], c->v[4]);
	ep2_t p, q, r, s; ep2_new(p); ep2_new(q); ep2_new(r); ep2_new(s);
	ep2_inject(p, &P, REP_AFF, 0); ep2_inject(q, &Q, REP_AFF, 0);
	int member = in_subgroup(&P);
	if (!tiny) {
		/* psi = twist o Frobenius o untwist */
		VF_TRY(th, ep2_frb(r, p, 1));
		if (th) vf_fail(NULL, "ep2_frb raised %d", th);
		else { ep2_extract(&A, r); transitions++;
			if (!rpt2_on_curve(&RC2, &A)) vf_fail(NULL, "ep2_frb: image not on the twist");
			/* eigenvalue p on G2 */
			if (member) { rpt2_mul(&RC2, &E, &P, RC.p); if (!rpt2_eq(&A, &E)) vf_fail(NULL, "ep2_frb: psi(Q) != [p]Q on the order-r subgroup"); }
			/* characteristic equation psi^2 - [t] psi + [p] = 0 with t = p + 1 - #E(F_p) */
			VF_TRY(th, ep2_frb(s, r, 1)); ep2_extract(&B, s);
			mpz_mul(zt, RN, RH); mpz_sub(zt, RC.p, zt); mpz_add_ui(zt, zt, 1); mpz_neg(zt, zt);
			rpt2 T; rpt2_init(&T); rpt2_mul(&RC2, &T, &A, zt); rpt2_add(&RC2, &B, &B, &T); rpt2_mul(&RC2, &T, &P, RC.p); rpt2_add(&RC2, &B, &B, &T);
			if (!B.inf) vf_fail(NULL, "ep2_frb: psi^2 - [t]psi + [p] does not annihilate the point");
			/* powers: ep2_frb(., i) = psi applied i times */
			ep2_copy(s, p); for (int i = 1; i <= 4; i++) { ep2_t t2; ep2_new(t2); VF_TRY(th, ep2_frb(s, s, 1)); VF_TRY(th, ep2_frb(t2, p, i)); rpt2 X, Y; rpt2_init(&X); rpt2_init(&Y); ep2_extract(&X, s); ep2_extract(&Y, t2); transitions++; if (th) vf_fail(NULL, "ep2_frb(i=%d) raised", i); else if (!rpt2_eq(&X, &Y)) vf_fail(NULL, "ep2_frb(P, %d) != psi^%d(P)", i, i);
#if EP_ADD != BASIC
				if (!P.inf) { ep2_inject(t2, &P, DREP, 5); VF_TRY(th, ep2_frb(t2, t2, i)); ep2_extract(&Y, t2); transitions++; if (th) vf_fail(NULL, "ep2_frb(un-normalised P, %d) raised", i); else if (!rpt2_eq(&X, &Y)) vf_fail(NULL, "ep2_frb(un-normalised P, %d) != psi^%d(P)", i, i); }
#endif
				rpt2_clear(&X); rpt2_clear(&Y); }
			/* additivity psi(P + Q) = psi(P) + psi(Q) */
			rpt2_add(&RC2, &T, &P, &Q); ep2_inject(s, &T, REP_AFF, 0); VF_TRY(th, ep2_frb(s, s, 1)); ep2_extract(&B, s);
			VF_TRY(th, ep2_frb(s, q, 1)); ep2_extract(&T, s); rpt2_add(&RC2, &T, &T, &A); transitions++;
			if (!rpt2_eq(&T, &B)) vf_fail(NULL, "ep2_frb: not additive");
			/* non-normalised input */
			if (!P.inf && DREP != REP_AFF) { ep2_inject(s, &P, DREP, 2); VF_TRY(th, ep2_frb(s, s, 1)); if (th) vf_fail(NULL, "ep2_frb(projective) raised"); else expect_pt2("ep2_frb[projective input]", s, &A, 0, NULL); }
			rpt2_clear(&T); }
	}
	VF_TRY(th, ep2_mul_cof(r, p));
	if (th) vf_fail(NULL, "ep2_mul_cof raised %d", th);
	else { ep2_extract(&A, r); transitions++;
		if (!rpt2_on_curve(&RC2, &A)) vf_fail(NULL, "ep2_mul_cof: image not on the curve");
		rpt2_mul(&RC2, &B, &A, RN2); if (!B.inf) vf_fail(NULL, "ep2_mul_cof: image not in the order-r subgroup");
		rpt2_mul(&RC2, &E, &P, RH2);
		if (tiny) { if (!rpt2_eq(&A, &E)) vf_fail(NULL, "ep2_mul_cof: not [h]P on a curve without twist structure"); }
		else if (A.inf != E.inf) vf_fail(NULL, "ep2_mul_cof: image is %s although [h]P is %s", A.inf ? "the identity" : "not the identity", E.inf ? "the identity" : "not"); }
	rpt2_clear(&P); rpt2_clear(&Q); rpt2_clear(&E); rpt2_clear(&A); rpt2_clear(&B);
}

static void run_case(vf_case *c) {
	if (!select_curve2(mpz_get_si(c->v[0]))) { vf_fail(NULL, "curve %ld could not be installed", mpz_get_si(c->v[0])); return; }
	vf_nontrivial();
	if (!strcmp(c->op, "law")) do_law(c); else if (!strcmp(c->op, "mul")) do_mul(c); else if (!strcmp(c->op, "sim")) do_sim(c);
	else if (!strcmp(c->op, "lot")) do_lot(c); else if (!strcmp(c->op, "misc")) do_misc(c); else vf_fail(NULL, "unknown op");
}

/* ---------------------------------------------------------------- enumeration */
static vf_case K;
static void setpt(int i, const rpt2 *p) { if (p->inf) { mpz_set_si(K.v[i], -1); mpz_set_ui(K.v[i + 1], 0); } else { f2_pack(K.v[i], &p->x); f2_pack(K.v[i + 1], &p->y); } }

static void scalar_alphabet(vf_dom *d) {
	mpz_t t; mpz_init(t);
	for (long i = -2; i <= 3; i++) vf_dom_add_si(d, i);
	vf_dom_add_near(d, RN2, 0); mpz_neg(t, RN2); vf_dom_add(d, t);
	mpz_mul_2exp(t, RN2, 1); vf_dom_add(d, t); mpz_add_ui(t, t, 1); vf_dom_add(d, t);
	mpz_mul_ui(t, RN2, 3); mpz_sub_ui(t, t, 1); vf_dom_add(d, t);
	mpz_fdiv_q_2exp(t, RN2, 1); vf_dom_add(d, t); mpz_add_ui(t, t, 1); vf_dom_add(d, t);
	if (!tiny) {
		int ks[] = {63, 64, 65, 127, 128, 129, 191, 192, 255, 256, 257};
		for (unsigned i = 0; i < 11; i++) { mpz_set_ui(t, 1); mpz_mul_2exp(t, t, (unsigned long)ks[i]); vf_dom_add(d, t); mpz_sub_ui(t, t, 1); vf_dom_add(d, t); mpz_add_ui(t, t, 2); vf_dom_add(d, t); }
		mpz_set_ui(t, 1); mpz_mul_2exp(t, t, 300); vf_dom_add(d, t);
		mpz_set_ui(t, 1); mpz_mul_2exp(t, t, 1000); mpz_sub_ui(t, t, 1); vf_dom_add(d, t);
		mpz_set_str(t, "5555555555555555555555555555555555555555555555555555555555555555", 16); vf_dom_add(d, t);
		mpz_set_str(t, "aaaaaaaaaaaaaaaaaaaaaaaaaaaaaaaaaaaaaaaaaaaaaaaaaaaaaaaaaaaaaaaa", 16); vf_dom_add(d, t);
		mpz_set_str(t, "ffffffffffffffff0000000000000000ffffffffffffffff", 16); vf_dom_add(d, t);
		mpz_sqrt(t, RN2); vf_dom_add_near(d, t, 0);
		mpz_set_str(t, "d3b1a40c29f1e8f7a5b6c3d2e1f0a9b8c7d6e5f4a3b2c1d0e9f8a7b6c5d4e3f", 16); vf_dom_add(d, t); mpz_neg(t, t); vf_dom_add(d, t);
		/* GLS boundary values: sub-scalars at the ends of their ranges, k = sum k_i x^i with x the curve parameter */
		bn_t x; bn_new(x); fp_prime_get_par(x); mpz_t X, xp, u; mpz_inits(X, xp, u, NULL); vf_bn_get(X, x); mpz_abs(X, X);
		mpz_set_ui(xp, 1); for (int i = 0; i < 4; i++) { vf_dom_add_near(d, xp, 0); mpz_mul(u, xp, X); mpz_sub_ui(u, u, 1); mpz_mod(u, u, RN2); vf_dom_add(d, u); mpz_mul(xp, xp, X); }
		mpz_mul(u, X, X); mpz_mul_ui(u, u, 6); vf_dom_add_near(d, u, 0); /* 6x^2: BN eigenvalue-related */
		mpz_set_ui(u, 0); mpz_set_ui(xp, 1); for (int i = 0; i < 4; i++) { mpz_sub_ui(t, X, 1); mpz_mul(t, t, xp); mpz_add(u, u, t); mpz_mul(xp, xp, X); } mpz_mod(u, u, RN2); vf_dom_add(d, u); /* all sub-scalars = x - 1 */
		mpz_clears(X, xp, u, NULL);
	} else {
		for (int k = 7; k <= 17; k++) { mpz_set_ui(t, 1); mpz_mul_2exp(t, t, (unsigned long)k); vf_dom_add(d, t); mpz_sub_ui(t, t, 1); vf_dom_add(d, t); }
		mpz_set_ui(t, 1); mpz_mul_2exp(t, t, 40); vf_dom_add(d, t); mpz_set_ui(t, 1); mpz_mul_2exp(t, t, 60); mpz_sub_ui(t, t, 1); vf_dom_add(d, t);
		mpz_set_ui(t, 0x5555); vf_dom_add(d, t); mpz_set_ui(t, 0xAAAA); vf_dom_add(d, t);
		mpz_sqrt(t, RN2); vf_dom_add_near(d, t, 0);
	}
	mpz_clear(t);
	vf_dom_uniq(d);
	for (int i = 0; i < d->n; i++) if (mpz_sgn(d->v[i]) == 0 && i) mpz_swap(d->v[0], d->v[i]);
}

static void enum_lot(long cid) {
	int ns[] = {0, 1, 2, 3, 4, 9, 10, 11, 12, 33};
	for (unsigned i = 0; i < sizeof ns / sizeof *ns; i++) for (long pat = 0; pat < (ns[i] <= 4 ? 24 : 6); pat++) if (vf_mine()) { if (ns[i] == 0 && pat) continue; K.op = "lot"; K.n = 3; mpz_set_si(K.v[0], cid); mpz_set_si(K.v[1], ns[i]); mpz_set_si(K.v[2], pat); vf_run(&K); }
}

static void enumerate(void) {
	vf_case_init(&K);
	mpz_t k, m; mpz_inits(k, m, NULL);
	rpt2 P, Q; rpt2_init(&P); rpt2_init(&Q);
#if WSIZE != 64
	/* complete Cayley tables on complete subgroups of 400..1100 points (one curve per coefficient class a = -3, 0, 1, 2, one digit, general;
	 * even subgroups contain a point of order two; p = 1 mod 4), extended by points outside the subgroup: every order-two point, T, -T, T + D */
	int cay[] = {0, 5, 6, 1, 2, 3, 4, 7};
	for (unsigned ci = 0; ci < sizeof cay / sizeof *cay; ci++) {
		char bn[64]; snprintf(bn, sizeof bn, "tiny-cayley-fp2-curve-%d", cay[ci]);
		if (!vf_tier && ci >= 4) continue; /* quick: four tables, thorough: all eight */
		if (!vf_bound_on(bn)) continue;
		long cid = cay[ci]; if (!select_curve2(cid)) { vf_fail(NULL, "curve install failed"); continue; }
		tiny_curve2 *c = &TC2[cid];
		long np = 0, cap = c->r + 16; rpt2 *pts = malloc(sizeof(rpt2) * (size_t)cap);
		for (long i = 0; i < c->r; i++) { rpt2_init(&pts[np]); if (i) rpt2_add(&RC2, &pts[np], &pts[np - 1], &RG2); np++; }
		{ rpt2 t; rpt2_init(&t); rpt2_add(&RC2, &t, &pts[np - 1], &RG2); if (!t.inf) { vf_fail(NULL, "generator does not have order r"); continue; } rpt2_clear(&t); }
		f2 x; f2_init(&x); int nT = 0;
		for (long i = 0; i < c->p * c->p && np + 4 < cap; i++) { f2_set_si(&x, i % c->p, i / c->p); rpt2 t; rpt2_init(&t); if (!rpt2_lift_x(&RC2, &t, &x)) { rpt2_clear(&t); continue; }
			int two = f2_is_zero(&t.y); mpz_set_si(k, c->r); rpt2 u; rpt2_init(&u); rpt2_mul(&RC2, &u, &t, k); int inH = u.inf; rpt2_clear(&u);
			if (two && !inH) pts[np++] = t;
			else if (!inH && nT < 1) { nT++; pts[np++] = t; rpt2_init(&pts[np]); rpt2_neg(&pts[np], &t); np++; rpt2_init(&pts[np]); rpt2_add(&RC2, &pts[np], &t, &RG2); np++; }
			else rpt2_clear(&t); }
		if (vf_shard == 0) printf("@INFO curve %ld: Cayley table over %ld points (subgroup of %ld + %ld outside)\n", cid, np, c->r, np - c->r);
		for (long i = 0; i < np && !vf_expired(); i++) if (vf_mine()) { vf_stat_add("states", 1);
			for (long j = 0; j < np; j++) { K.op = "law"; K.n = 5; mpz_set_si(K.v[0], cid); setpt(1, &pts[i]); setpt(3, &pts[j]); vf_run(&K); }
			K.op = "misc"; K.n = 5; mpz_set_si(K.v[0], cid); setpt(1, &pts[i]); setpt(3, &pts[(i * 7 + 3) % np]); vf_run(&K);
		}
		/* every pair of scalars in [-r-2, r+2]^2 for the simultaneous forms on the first table (thorough: all tables) */
		if ((vf_tier || ci == 0) && c->r % 2) { /* odd-order tables only: on even-order ones a sum hits the L27 case by chance (the law table judges it) */ mpz_set_si(k, 5); rpt2_mul(&RC2, &Q, &RG2, k);
			long n = c->r, st = vf_tier ? 1 : 4;
			for (long a = -n - 2; a <= n + 2 && !vf_expired(); a++) if (vf_mine()) for (long b = -n - 2 + ((a + n + 2) % st); b <= n + 2; b += st) { K.op = "sim"; K.n = 7; mpz_set_si(K.v[0], cid); setpt(1, &RG2); mpz_set_si(K.v[3], a); setpt(4, &Q); mpz_set_si(K.v[6], b); vf_run(&K); } }
		/* every scalar in [-2r-3, 2r+3] from every 7th point and from the points outside the subgroup */
		if (c->r % 2) for (long i = 1; i < np && !vf_expired(); i += (i < c->r ? 7 : 1)) if (vf_mine()) for (long a = -2 * c->r - 3; a <= 2 * c->r + 3; a += (vf_tier ? 1 : 5)) { K.op = "mul"; K.n = 4; mpz_set_si(K.v[0], cid); setpt(1, &pts[i]); mpz_set_si(K.v[3], a); vf_run(&K); }
		if (c->r % 2) enum_lot(cid); /* even order: sums hit the L27 case (difference of order two) by chance; the law table covers it */
		free(pts); f2_clear(&x);
		vf_bound_done(bn);
	}
	/* every scalar in [-2r-3, 2r+3] for every routine on the 16-bit prime-order curves */
	int sc[] = {8, 9};
	for (unsigned ci = 0; ci < sizeof sc / sizeof *sc; ci++) {
		char bn[64]; snprintf(bn, sizeof bn, "tiny-all-scalars-fp2-curve-%d", sc[ci]);
		if (!vf_bound_on(bn)) continue;
		long cid = sc[ci]; if (!select_curve2(cid)) { vf_fail(NULL, "curve install failed"); continue; }
		long n = TC2[cid].r;
		for (int pt = 0; pt < (vf_tier ? 2 : 1); pt++) {
			if (pt) { mpz_set_si(k, 12345); rpt2_mul(&RC2, &P, &RG2, k); } else rpt2_set(&P, &RG2);
			long lo = vf_tier ? -2 * n - 3 : -n - 3, hi = vf_tier ? 2 * n + 3 : n + 3;
			if (!vf_tier && ci) { lo = -3; }
			for (long a = lo; a <= hi && !vf_expired(); a++) if (vf_mine()) { K.op = "mul"; K.n = 4; mpz_set_si(K.v[0], cid); setpt(1, &P); mpz_set_si(K.v[3], a); vf_run(&K); }
		}
		{ vf_dom S; vf_dom_init(&S); scalar_alphabet(&S); mpz_set_si(k, 7); rpt2_mul(&RC2, &Q, &RG2, k);
			long st = vf_tier ? 1 : 9;
			for (long a = -n - 2; a <= n + 2 && !vf_expired(); a += st) if (vf_mine()) for (int j = 0; j < S.n; j++) { K.op = "sim"; K.n = 7; mpz_set_si(K.v[0], cid); setpt(1, &RG2); mpz_set_si(K.v[3], a); setpt(4, &Q); mpz_set(K.v[6], S.v[j]); vf_run(&K); }
			for (int j = 0; j < S.n; j++) if (vf_mine()) { K.op = "mul"; K.n = 4; mpz_set_si(K.v[0], cid); setpt(1, &RG2); mpz_set(K.v[3], S.v[j]); vf_run(&K); rpt2_set_inf(&P); setpt(1, &P); vf_run(&K);
				K.op = "sim"; K.n = 7; setpt(1, &P); mpz_set(K.v[3], S.v[j]); setpt(4, &Q); mpz_set(K.v[6], S.v[(j * 3) % S.n]); vf_run(&K); setpt(1, &RG2); setpt(4, &P); vf_run(&K); }
			{ long rel[] = {1, -1, 2, -2, 3}; int sst = vf_tier ? 1 : 2;
				for (unsigned ri = 0; ri < 5; ri++) { mpz_set_si(k, rel[ri]); rpt2_mul(&RC2, &Q, &RG2, k);
					for (int a2 = 0; a2 < S.n; a2++) for (int b2 = a2 % sst; b2 < S.n; b2 += sst) if (vf_mine()) { K.op = "sim"; K.n = 7; mpz_set_si(K.v[0], cid); setpt(1, &RG2); mpz_set(K.v[3], S.v[a2]); setpt(4, &Q); mpz_set(K.v[6], S.v[b2]); vf_run(&K); } } }
			vf_dom_clear(&S); }
		enum_lot(cid);
		vf_bound_done(bn);
	}
#else
#if FP_PRIME == 256
	static const int IDS[] = {BN_P256, SM9_P256};
#elif FP_PRIME == 381
	static const int IDS[] = {B12_P381};
#elif FP_PRIME == 446 && defined(FP_QNRES) /* the twist constants of the BLS12 curves at 446 and 638 bits assume the tower over u^2 = -1, xi = 1 + u, i.e. a build with FP_QNRES */
	static const int IDS[] = {B12_P446};
#elif FP_PRIME == 446
	static const int IDS[] = {BN_P446};
#elif FP_PRIME == 638 && defined(FP_QNRES)
	static const int IDS[] = {B12_P638};
#else
	static const int IDS[] = {0};
#endif
	for (unsigned ci = 0; ci < sizeof IDS / sizeof *IDS; ci++) {
		char bn[64]; snprintf(bn, sizeof bn, "w64-twist-%d", IDS[ci]);
		if (!vf_bound_on(bn)) continue;
		long cid = IDS[ci]; if (!select_curve2(cid)) { vf_fail(NULL, "ep_param_set(%ld) + twist selection failed", cid); continue; }
		if (vf_shard == 0) printf("@INFO curve %ld: twist type %s validated (generator on the twist and of order r)\n", cid, twist_type == RLC_EP_DTYPE ? "D" : "M");
		vf_dom S; vf_dom_init(&S); scalar_alphabet(&S);
		/* points of G2: infinity, G, 2G, -G, fixed multiples; twist points OUTSIDE G2: x = i + j u lifted by the reference square root */
		rpt2 pts[64]; int npt = 0, ng2; long ds[] = {0, 1, 2, -1, 5, 0x12345, -77};
		for (unsigned i = 0; i < 7; i++) { rpt2_init(&pts[npt]); mpz_set_si(k, ds[i]); rpt2_mul(&RC2, &pts[npt], &RG2, k); npt++; }
		ng2 = npt;
		{ f2 x; f2_init(&x); int want = vf_tier ? 40 : 12; for (long i = 0; i < 400 && npt < ng2 + want; i++) { f2_set_si(&x, i % 20, 1 + i / 20); rpt2_init(&pts[npt]); if (rpt2_lift_x(&RC2, &pts[npt], &x)) { if (i & 1) rpt2_neg(&pts[npt], &pts[npt]); npt++; } else rpt2_clear(&pts[npt]); }
			/* a member plus a cofactor-part point, and the pure cofactor part [r]T */
			rpt2_init(&pts[npt]); rpt2_add(&RC2, &pts[npt], &pts[ng2], &RG2); npt++;
			rpt2_init(&pts[npt]); rpt2_mul(&RC2, &pts[npt], &pts[ng2], RN2); npt++;
			rpt2_init(&pts[npt]); rpt2_mul(&RC2, &pts[npt], &pts[ng2 + 1], RH2); npt++; /* [h]T: a G2 member unrelated to the generator table */
			f2_clear(&x); }
		if (vf_shard == 0) { int out = 0; for (int i = ng2; i < npt; i++) out += !in_subgroup(&pts[i]); printf("@INFO curve %ld: %d points, %d outside the order-r subgroup\n", cid, npt, out); }
		int lawn = vf_tier ? npt : (ng2 + 8 < npt ? ng2 + 8 : npt);
		for (int i = 0; i < lawn; i++) for (int j = 0; j < lawn; j++) if (vf_mine()) { K.op = "law"; K.n = 5; mpz_set_si(K.v[0], cid); setpt(1, &pts[i]); setpt(3, &pts[j]); vf_run(&K); }
		for (int i = 0; i < npt; i++) if (vf_mine()) { K.op = "misc"; K.n = 5; mpz_set_si(K.v[0], cid); setpt(1, &pts[i]); setpt(3, &pts[(i * 5 + 2) % npt]); vf_run(&K); }
		for (int i = 0; i < npt && !vf_expired(); i++) { if (!vf_tier && i > 2 && i != 5 && i != ng2 && i != npt - 1) continue; for (int j = 0; j < S.n; j++) if (vf_mine()) { K.op = "mul"; K.n = 4; mpz_set_si(K.v[0], cid); setpt(1, &pts[i]); mpz_set(K.v[3], S.v[j]); vf_run(&K); } }
		int st = vf_tier ? 1 : 5;
		for (int a = 0; a < S.n && !vf_expired(); a++) for (int b = a % st; b < S.n; b += st) if (vf_mine()) { K.op = "sim"; K.n = 7; mpz_set_si(K.v[0], cid); setpt(1, &pts[1]); mpz_set(K.v[3], S.v[a]); setpt(4, &pts[5]); mpz_set(K.v[6], S.v[b]); vf_run(&K); }
		for (int a = 0; a < S.n; a += 3) if (vf_mine()) { K.op = "sim"; K.n = 7; mpz_set_si(K.v[0], cid); setpt(1, &pts[0]); mpz_set(K.v[3], S.v[a]); setpt(4, &pts[4]); mpz_set(K.v[6], S.v[(a * 5 + 1) % S.n]); vf_run(&K); setpt(1, &pts[4]); setpt(4, &pts[0]); vf_run(&K); setpt(4, &pts[4]); vf_run(&K); }
		{ long rel[] = {1, -1, 2, -2}; for (unsigned ri = 0; ri < 4; ri++) { mpz_set_si(k, rel[ri]); rpt2_mul(&RC2, &Q, &RG2, k);
			for (int a = 0; a < S.n && !vf_expired(); a += (vf_tier ? 1 : 3)) for (int b = a % 5; b < S.n; b += 5) if (vf_mine()) { K.op = "sim"; K.n = 7; mpz_set_si(K.v[0], cid); setpt(1, &RG2); mpz_set(K.v[3], S.v[a]); setpt(4, &Q); mpz_set(K.v[6], S.v[b]); vf_run(&K); } } }
		enum_lot(cid);
		vf_dom_clear(&S);
		vf_bound_done(bn);
	}
#endif
	vf_stat_add("transitions", transitions);
}

VF_MAIN()
