/*
 * C12 -- subgroup membership tests are exact; group exponentiation is repeated operation.
 *
 * Worlds: W64 (BN_P256, SM9_P256), W64-381 (B12_P381: G1 has a cofactor).
 * Membership: candidates are constructed with the reference (members, identity, off-curve, curve / twist points outside
 *   the order-r subgroup, their cofactor parts, small-order points, member + non-member; GT: members, 0, 1, elements outside
 *   the cyclotomic subgroup, cyclotomic elements of order not dividing r, -g); expected = the definition
 *   (on the curve, not the identity, annihilated by r -- by plain reference multiplication, no endomorphism shortcut).
 * Exponentiation: every g1_/g2_/gt_ multiplication form against reference repeated operation for scalars 0, negative,
 *   >= r, longer than r.
 * Case args: v[0] = curve id; G1 points (x, y) / G2 points packed F_p^2 coordinates (x = -1: identity); GT packed.
 */
#include "pc_common.h"

static void harness_setup(void) {
	if (core_init() != RLC_OK) exit(2);
	vf_reseed(); tiny_curves_setup(); ep2_common_setup();
}

/* ---------------------------------------------------------------- membership */
static void do_g1v(vf_case *c) {
	rpt P, T; rpt_init(&P); rpt_init(&T); pt_from_args(&P, c->v[1], c->v[2]);
	int exp = !P.inf && rpt_on_curve(&RC, &P);
	if (exp) { rpt_mul(&RC, &T, &P, RN); exp = T.inf; }
	g1_t p; g1_new(p);
	for (int rep = 0; rep < 2; rep++) {
		if (rep && (P.inf || !rpt_on_curve(&RC, &P))) continue;
		ep_inject(p, &P, rep ? (EP_ADD == PROJC ? REP_PRJ : EP_ADD == JACOB ? REP_JAC : REP_AFF) : REP_AFF, 3);
		int th, v; VF_TRY(th, v = g1_is_valid(p)); transitions++;
		/* a raised error is a rejection (the function returns 0 and flags the error); it is only wrong for a member */
		if (th) { vf_stat_add("x.rejections_by_error", 1); v = 0; }
		if ((v != 0) != exp) vf_fail(NULL, "g1_is_valid[rep %d]: says %d for a point that is %s", rep, v, exp ? "a non-identity member of the order-r subgroup" : (P.inf ? "the identity" : rpt_on_curve(&RC, &P) ? "on the curve but outside the subgroup" : "off the curve"));
	}
	rpt_clear(&P); rpt_clear(&T);
}
static void do_g2v(vf_case *c) {
	rpt2 P, T; rpt2_init(&P); rpt2_init(&T); pt2_from_args(&P, c->v[1], c->v[2]);
	int on = rpt2_on_curve(&RC2, &P), exp = !P.inf && on;
	if (exp) { rpt2_mul(&RC2, &T, &P, RN2); exp = T.inf; }
	g2_t p; g2_new(p);
	for (int rep = 0; rep < 2; rep++) {
		if (rep && (P.inf || !on)) continue;
		ep2_inject(p, &P, rep ? (EP_ADD == PROJC ? REP_PRJ : EP_ADD == JACOB ? REP_JAC : REP_AFF) : REP_AFF, 3);
		int th, v; VF_TRY(th, v = g2_is_valid(p)); transitions++;
		/* a raised error is a rejection (the function returns 0 and flags the error); it is only wrong for a member */
		if (th) { vf_stat_add("x.rejections_by_error", 1); v = 0; }
		if ((v != 0) != exp) vf_fail(NULL, "g2_is_valid[rep %d]: says %d for a point that is %s", rep, v, exp ? "a non-identity member of the order-r subgroup" : (P.inf ? "the identity" : on ? "on the twist but outside the subgroup" : "off the twist"));
	}
	rpt2_clear(&P); rpt2_clear(&T);
}
static void do_gtv(vf_case *c) {
	relt A, R; relt_init(&A); relt_init(&R); gt_unpack(&A, c->v[1]);
	int exp = !relt_is_zero(&T12, &A) && !gt_ref_is_one(&A);
	if (exp) { relt_pow(&T12, &R, &A, RN); exp = gt_ref_is_one(&R); }
	gt_t a; gt_new(a); gt_put(a, &A);
	int th, v; VF_TRY(th, v = gt_is_valid(a)); transitions++;
	if (th) { vf_stat_add("x.rejections_by_error", 1); v = 0; }
	if ((v != 0) != exp) vf_fail(NULL, "gt_is_valid: says %d for an element that is %s", v, exp ? "a non-identity element of order dividing r" : relt_is_zero(&T12, &A) ? "zero" : gt_ref_is_one(&A) ? "the identity" : "not of order dividing r");
	relt_clear(&A); relt_clear(&R);
}

/* ---------------------------------------------------------------- exponentiation */
static void do_g1m(vf_case *c) {
	int th; rpt P, E; rpt_init(&P); rpt_init(&E); pt_from_args(&P, c->v[1], c->v[2]);
	const mpz_t *k = &c->v[3]; rpt_mul(&RC, &E, &P, *k);
	bn_t bk; bn_new(bk); if (!vf_bn_set(bk, *k)) return;
	g1_t p, r; g1_new(p); g1_new(r);
	int drep = EP_ADD == PROJC ? REP_PRJ : EP_ADD == JACOB ? REP_JAC : REP_AFF;
	for (int rp = 0; rp < 2; rp++) {
		if (rp && (drep == REP_AFF || P.inf)) continue;
		ep_inject(p, &P, rp ? drep : REP_AFF, 3); vf_reseed(); VF_TRY(th, g1_mul(r, p, bk)); if (th) vf_fail(NULL, "g1_mul[rep %d] raised %d", rp, th); else expect_pt("g1_mul", r, &E, 0, NULL);
		ep_inject(p, &P, rp ? drep : REP_AFF, 3); vf_reseed(); VF_TRY(th, g1_mul_sec(r, p, bk)); if (th) vf_fail(NULL, "g1_mul_sec[rep %d] raised %d", rp, th); else expect_pt("g1_mul_sec", r, &E, 0, NULL);
		ep_inject(p, &P, rp ? drep : REP_AFF, 3); vf_reseed(); VF_TRY(th, g1_mul_any(r, p, bk)); if (th) vf_fail(NULL, "g1_mul_any[rep %d] raised %d", rp, th); else expect_pt("g1_mul_any", r, &E, 0, NULL);
	}
	ep_inject(p, &P, REP_AFF, 1); vf_reseed(); VF_TRY(th, g1_mul(p, p, bk)); if (!th) expect_pt("g1_mul(r==p)", p, &E, 0, NULL);
	if (mpz_sgn(*k) >= 0 && mpz_sizeinbase(*k, 2) <= (size_t)VF_DIGB) { dig_t d = 0; mpz_export(&d, NULL, -1, sizeof(dig_t), 0, 0, *k); ep_inject(p, &P, REP_AFF, 1); VF_TRY(th, g1_mul_dig(r, p, d)); if (th) vf_fail(NULL, "g1_mul_dig raised %d", th); else expect_pt("g1_mul_dig", r, &E, 0, NULL); }
	if (rpt_eq(&P, &RG)) { vf_reseed(); VF_TRY(th, g1_mul_gen(r, bk)); if (th) vf_fail(NULL, "g1_mul_gen raised %d", th); else expect_pt("g1_mul_gen", r, &E, 0, NULL); }
	if (!P.inf) { static g1_t tab[RLC_G1_TABLE]; static int ti = 0; if (!ti) { for (int i = 0; i < RLC_G1_TABLE; i++) g1_new(tab[i]); ti = 1; }
		ep_inject(p, &P, REP_AFF, 1); VF_TRY(th, g1_mul_pre(tab, p)); if (th) vf_fail(NULL, "g1_mul_pre raised %d", th); else { VF_TRY(th, g1_mul_fix(r, (const g1_t *)tab, bk)); if (th) vf_fail(NULL, "g1_mul_fix raised %d", th); else expect_pt("g1_mul_fix", r, &E, 0, NULL); } }
	rpt_clear(&P); rpt_clear(&E);
}
static void do_g1s(vf_case *c) {
	int th; rpt P, Q, E, T; rpt_init(&P); rpt_init(&Q); rpt_init(&E); rpt_init(&T);
	pt_from_args(&P, c->v[1], c->v[2]); pt_from_args(&Q, c->v[4], c->v[5]);
	rpt_mul(&RC, &E, &P, c->v[3]); rpt_mul(&RC, &T, &Q, c->v[6]); rpt_add(&RC, &E, &E, &T);
	bn_t bk, bm; bn_new(bk); bn_new(bm); if (!vf_bn_set(bk, c->v[3]) || !vf_bn_set(bm, c->v[6])) return;
	g1_t p, q, r; g1_new(p); g1_new(q); g1_new(r);
	ep_inject(p, &P, REP_AFF, 1); ep_inject(q, &Q, REP_AFF, 1); vf_reseed();
	VF_TRY(th, g1_mul_sim(r, p, bk, q, bm)); if (th) vf_fail(NULL, "g1_mul_sim raised %d", th); else expect_pt("g1_mul_sim", r, &E, 0, NULL);
	{ g1_t ps[2]; bn_t ks[2]; g1_new(ps[0]); g1_new(ps[1]); bn_new(ks[0]); bn_new(ks[1]); ep_inject(ps[0], &P, REP_AFF, 1); ep_inject(ps[1], &Q, REP_AFF, 1); bn_copy(ks[0], bk); bn_copy(ks[1], bm);
		vf_reseed(); VF_TRY(th, g1_mul_sim_lot(r, ps, (const bn_t *)ks, 2)); if (th) vf_fail(NULL, "g1_mul_sim_lot raised %d", th); else expect_pt("g1_mul_sim_lot", r, &E, 0, NULL); }
	if (rpt_eq(&P, &RG)) { ep_inject(q, &Q, REP_AFF, 1); vf_reseed(); VF_TRY(th, g1_mul_sim_gen(r, bk, q, bm)); if (th) vf_fail(NULL, "g1_mul_sim_gen raised %d", th); else expect_pt("g1_mul_sim_gen", r, &E, 0, NULL);
		{ rpt O, EK; rpt_init(&O); rpt_init(&EK); rpt_set_inf(&O); rpt_mul(&RC, &EK, &RG, c->v[3]); ep_inject(q, &O, REP_AFF, 1); vf_reseed(); VF_TRY(th, g1_mul_sim_gen(r, bk, q, bm)); if (th) vf_fail(NULL, "g1_mul_sim_gen(Q = identity) raised %d", th); else expect_pt("g1_mul_sim_gen(Q = identity)", r, &EK, 0, NULL); rpt_clear(&O); rpt_clear(&EK); } }
	rpt_clear(&P); rpt_clear(&Q); rpt_clear(&E); rpt_clear(&T);
}
static void do_g2m(vf_case *c) {
	int th; rpt2 P, E; rpt2_init(&P); rpt2_init(&E); pt2_from_args(&P, c->v[1], c->v[2]);
	const mpz_t *k = &c->v[3]; rpt2_mul(&RC2, &E, &P, *k);
	bn_t bk; bn_new(bk); if (!vf_bn_set(bk, *k)) return;
	g2_t p, r; g2_new(p); g2_new(r);
	int drep = EP_ADD == PROJC ? REP_PRJ : EP_ADD == JACOB ? REP_JAC : REP_AFF;
	for (int rp = 0; rp < 2; rp++) {
		if (rp && (drep == REP_AFF || P.inf)) continue;
		ep2_inject(p, &P, rp ? drep : REP_AFF, 3); vf_reseed(); VF_TRY(th, g2_mul(r, p, bk)); if (th) vf_fail(NULL, "g2_mul[rep %d] raised %d", rp, th); else expect_pt2("g2_mul", r, &E, 0, NULL);
		ep2_inject(p, &P, rp ? drep : REP_AFF, 3); vf_reseed(); VF_TRY(th, g2_mul_sec(r, p, bk)); if (th) vf_fail(NULL, "g2_mul_sec[rep %d] raised %d", rp, th); else expect_pt2("g2_mul_sec", r, &E, 0, NULL);
		ep2_inject(p, &P, rp ? drep : REP_AFF, 3); vf_reseed(); VF_TRY(th, g2_mul_any(r, p, bk)); if (th) vf_fail(NULL, "g2_mul_any[rep %d] raised %d", rp, th); else expect_pt2("g2_mul_any", r, &E, 0, NULL);
	}
	ep2_inject(p, &P, REP_AFF, 1); vf_reseed(); VF_TRY(th, g2_mul(p, p, bk)); if (!th) expect_pt2("g2_mul(r==p)", p, &E, 0, NULL);
	if (mpz_sgn(*k) >= 0 && mpz_sizeinbase(*k, 2) <= (size_t)VF_DIGB) { dig_t d = 0; mpz_export(&d, NULL, -1, sizeof(dig_t), 0, 0, *k); ep2_inject(p, &P, REP_AFF, 1); VF_TRY(th, g2_mul_dig(r, p, d)); if (th) vf_fail(NULL, "g2_mul_dig raised %d", th); else expect_pt2("g2_mul_dig", r, &E, 0, NULL); }
	if (rpt2_eq(&P, &RG2)) { vf_reseed(); VF_TRY(th, g2_mul_gen(r, bk)); if (th) vf_fail(NULL, "g2_mul_gen raised %d", th); else expect_pt2("g2_mul_gen", r, &E, 0, NULL); }
	if (!P.inf) { static g2_t tab[RLC_G2_TABLE]; static int ti = 0; if (!ti) { for (int i = 0; i < RLC_G2_TABLE; i++) g2_new(tab[i]); ti = 1; }
		ep2_inject(p, &P, REP_AFF, 1); VF_TRY(th, g2_mul_pre(tab, p)); if (th) vf_fail(NULL, "g2_mul_pre raised %d", th); else { VF_TRY(th, g2_mul_fix(r, (const g2_t *)tab, bk)); if (th) vf_fail(NULL, "g2_mul_fix raised %d", th); else expect_pt2("g2_mul_fix", r, &E, 0, NULL); } }
	rpt2_clear(&P); rpt2_clear(&E);
}
static void do_g2s(vf_case *c) {
	int th; rpt2 P, Q, E, T; rpt2_init(&P); rpt2_init(&Q); rpt2_init(&E); rpt2_init(&T);
	pt2_from_args(&P, c->v[1], c->v[2]); pt2_from_args(&Q, c->v[4], c->v[5]);
	rpt2_mul(&RC2, &E, &P, c->v[3]); rpt2_mul(&RC2, &T, &Q, c->v[6]); rpt2_add(&RC2, &E, &E, &T);
	bn_t bk, bm; bn_new(bk); bn_new(bm); if (!vf_bn_set(bk, c->v[3]) || !vf_bn_set(bm, c->v[6])) return;
	g2_t p, q, r; g2_new(p); g2_new(q); g2_new(r);
	ep2_inject(p, &P, REP_AFF, 1); ep2_inject(q, &Q, REP_AFF, 1); vf_reseed();
	VF_TRY(th, g2_mul_sim(r, p, bk, q, bm)); if (th) vf_fail(NULL, "g2_mul_sim raised %d", th); else expect_pt2("g2_mul_sim", r, &E, 0, NULL);
	{ g2_t ps[2]; bn_t ks[2]; g2_new(ps[0]); g2_new(ps[1]); bn_new(ks[0]); bn_new(ks[1]); ep2_inject(ps[0], &P, REP_AFF, 1); ep2_inject(ps[1], &Q, REP_AFF, 1); bn_copy(ks[0], bk); bn_copy(ks[1], bm);
		vf_reseed(); VF_TRY(th, g2_mul_sim_lot(r, ps, (const bn_t *)ks, 2)); if (th) vf_fail(NULL, "g2_mul_sim_lot raised %d", th); else expect_pt2("g2_mul_sim_lot", r, &E, 0, NULL); }
	if (rpt2_eq(&P, &RG2)) { ep2_inject(q, &Q, REP_AFF, 1); vf_reseed(); VF_TRY(th, g2_mul_sim_gen(r, bk, q, bm)); if (th) vf_fail(NULL, "g2_mul_sim_gen raised %d", th); else expect_pt2("g2_mul_sim_gen", r, &E, 0, NULL);
		/* the identity as the variable base: [k]G + [m]O = [k]G */
		{ rpt2 O, EK; rpt2_init(&O); rpt2_init(&EK); O.inf = 1; rpt2_mul(&RC2, &EK, &RG2, c->v[3]); ep2_inject(q, &O, REP_AFF, 1); vf_reseed(); VF_TRY(th, g2_mul_sim_gen(r, bk, q, bm)); if (th) vf_fail(NULL, "g2_mul_sim_gen(Q = identity) raised %d", th); else expect_pt2("g2_mul_sim_gen(Q = identity)", r, &EK, 0, NULL); rpt2_clear(&O); rpt2_clear(&EK); } }
	rpt2_clear(&P); rpt2_clear(&Q); rpt2_clear(&E); rpt2_clear(&T);
}
static void expect_gt(const char *what, const void *got, const relt *exp) {
	relt g; relt_init(&g); transitions++; int canon = gt_get_canon(&g, got);
	if (!relt_eq(&T12, &g, exp)) { int i = 0; while (!mpz_cmp(g.c[i], exp->c[i])) i++; char b[500]; gmp_snprintf(b, sizeof b, "%s: coefficient %d expected %Zx got %Zx", what, i, exp->c[i], g.c[i]); vf_fail(NULL, "%s", b); }
	else if (!canon) vf_fail(NULL, "%s: a coefficient is not canonical", what);
	relt_clear(&g);
}
/* gte: args cid, a, k [, c, d] */
static void do_gte(vf_case *c) {
	int th; relt A, E, C, T; relt_init(&A); relt_init(&E); relt_init(&C); relt_init(&T); gt_unpack(&A, c->v[1]);
	const mpz_t *k = &c->v[2]; gt_ref_pow(&E, &A, *k);
	bn_t bk, bd; bn_new(bk); bn_new(bd); if (!vf_bn_set(bk, *k)) return;
	gt_t a, r, cc; gt_new(a); gt_new(r); gt_new(cc);
	gt_put(a, &A); vf_reseed(); VF_TRY(th, gt_exp(r, a, bk)); if (th) vf_fail(NULL, "gt_exp raised %d", th); else expect_gt("gt_exp", r, &E);
	gt_put(a, &A); vf_reseed(); VF_TRY(th, gt_exp_sec(r, a, bk)); if (th) vf_fail(NULL, "gt_exp_sec raised %d", th); else expect_gt("gt_exp_sec", r, &E);
	gt_put(a, &A); vf_reseed(); VF_TRY(th, gt_exp(a, a, bk)); if (!th) expect_gt("gt_exp(c==a)", a, &E);
	if (mpz_sgn(*k) >= 0 && mpz_sizeinbase(*k, 2) <= (size_t)VF_DIGB) { dig_t d = 0; mpz_export(&d, NULL, -1, sizeof(dig_t), 0, 0, *k); gt_put(a, &A); VF_TRY(th, gt_exp_dig(r, a, d)); if (th) vf_fail(NULL, "gt_exp_dig raised %d", th); else expect_gt("gt_exp_dig", r, &E);
		gt_put(a, &A); VF_TRY(th, gt_exp_dig(a, a, d)); if (th) vf_fail(NULL, "gt_exp_dig(c==a) raised %d", th); else expect_gt("gt_exp_dig(c==a)", a, &E); }
	gt_put(a, &A); vf_reseed(); VF_TRY(th, gt_exp_sec(a, a, bk)); if (!th) expect_gt("gt_exp_sec(c==a)", a, &E);
	{ gt_t g; gt_new(g); gt_get_gen(g); relt G; relt_init(&G); gt_get(&G, g); if (relt_eq(&T12, &G, &A)) { VF_TRY(th, gt_exp_gen(r, bk)); if (th) vf_fail(NULL, "gt_exp_gen raised %d", th); else expect_gt("gt_exp_gen", r, &E); } relt_clear(&G); }
	if (c->n >= 5) { gt_unpack(&C, c->v[3]); gt_ref_pow(&T, &C, c->v[4]); relt_mul(&T12, &E, &E, &T); if (vf_bn_set(bd, c->v[4])) { gt_put(a, &A); gt_put(cc, &C); vf_reseed(); VF_TRY(th, gt_exp_sim(r, a, bk, cc, bd)); if (th) vf_fail(NULL, "gt_exp_sim raised %d", th); else expect_gt("gt_exp_sim", r, &E);
#if FP_PRIME < 1536
		/* the cyclotomic simultaneous exponentiation underneath, with the signed exponents as given (gt_exp_sim reduces them first) */
		if (mpz_sizeinbase(*k, 2) <= RLC_FP_BITS && mpz_sizeinbase(c->v[4], 2) <= RLC_FP_BITS) { gt_put(a, &A); gt_put(cc, &C); vf_reseed(); VF_TRY(th, fp12_exp_cyc_sim(r, a, bk, cc, bd)); if (th) vf_fail(NULL, "fp12_exp_cyc_sim raised %d", th); else expect_gt("fp12_exp_cyc_sim", r, &E); }
#endif
	} }
	relt_clear(&A); relt_clear(&E); relt_clear(&C); relt_clear(&T);
}

static void run_case(vf_case *c) {
	if (!select_pc(mpz_get_si(c->v[0]))) { vf_fail(NULL, "parameter set %ld could not be installed", mpz_get_si(c->v[0])); return; }
	vf_nontrivial();
	if (!strcmp(c->op, "g1v")) do_g1v(c); else if (!strcmp(c->op, "g2v")) do_g2v(c); else if (!strcmp(c->op, "gtv")) do_gtv(c);
	else if (!strcmp(c->op, "g1m")) do_g1m(c); else if (!strcmp(c->op, "g1s")) do_g1s(c); else if (!strcmp(c->op, "g2m")) do_g2m(c); else if (!strcmp(c->op, "g2s")) do_g2s(c);
	else if (!strcmp(c->op, "gte")) do_gte(c); else vf_fail(NULL, "unknown op");
}

/* ---------------------------------------------------------------- enumeration */
static vf_case K;
/* states = configurations dispatched: candidate elements for the predicates, (base, scalar(s)) for the exponentiations */
#define vf_run(KP) do { vf_stat_add("states", 1); (vf_run)(KP); } while (0)
static void setp1(int i, const rpt *p) { if (p->inf) { mpz_set_si(K.v[i], -1); mpz_set_ui(K.v[i + 1], 0); } else { mpz_set(K.v[i], p->x); mpz_set(K.v[i + 1], p->y); } }
static void setp2(int i, const rpt2 *p) { if (p->inf) { mpz_set_si(K.v[i], -1); mpz_set_ui(K.v[i + 1], 0); } else { f2_pack(K.v[i], &p->x); f2_pack(K.v[i + 1], &p->y); } }
static void scalar_alphabet(vf_dom *d, int small) {
	mpz_t t; mpz_init(t);
	for (long i = -2; i <= 3; i++) vf_dom_add_si(d, i);
	vf_dom_add_near(d, RN, 0); mpz_neg(t, RN); vf_dom_add(d, t);
	mpz_mul_2exp(t, RN, 1); vf_dom_add(d, t); mpz_add_ui(t, t, 1); vf_dom_add(d, t);
	mpz_fdiv_q_2exp(t, RN, 1); vf_dom_add(d, t);
	int ks[] = {63, 64, 65, 127, 128, 255, 256};
	for (unsigned i = 0; i < 7; i++) { mpz_set_ui(t, 1); mpz_mul_2exp(t, t, (unsigned long)ks[i]); vf_dom_add(d, t); mpz_sub_ui(t, t, 1); vf_dom_add(d, t); if (!small) { mpz_add_ui(t, t, 2); vf_dom_add(d, t); } }
	mpz_set_ui(t, 1); mpz_mul_2exp(t, t, 300); vf_dom_add(d, t);
	if (!small) { mpz_set_ui(t, 1); mpz_mul_2exp(t, t, 1000); mpz_sub_ui(t, t, 1); vf_dom_add(d, t);
		mpz_set_str(t, "5555555555555555555555555555555555555555555555555555555555555555", 16); vf_dom_add(d, t);
		mpz_set_str(t, "ffffffffffffffff0000000000000000ffffffffffffffff", 16); vf_dom_add(d, t);
		mpz_sqrt(t, RN); vf_dom_add_near(d, t, 0); }
	mpz_set_str(t, "d3b1a40c29f1e8f7a5b6c3d2e1f0a9b8c7d6e5f4a3b2c1d0e9f8a7b6c5d4e3f", 16); vf_dom_add(d, t); mpz_neg(t, t); vf_dom_add(d, t);
	bn_t x; bn_new(x); fp_prime_get_par(x); mpz_t X; mpz_init(X); vf_bn_get(X, x); vf_dom_add_near(d, X, 0); mpz_mul(t, X, X); vf_dom_add(d, t); mpz_mul_ui(t, t, 6); vf_dom_add_near(d, t, 0); mpz_clear(X);
	mpz_clear(t); vf_dom_uniq(d);
	for (int i = 0; i < d->n; i++) if (mpz_sgn(d->v[i]) == 0 && i) mpz_swap(d->v[0], d->v[i]);
}

static void enumerate(void) {
	vf_case_init(&K);
	mpz_t k, t; mpz_inits(k, t, NULL);
#if FP_PRIME == 256
	static const int IDS[] = {BN_P256, SM9_P256};
#elif FP_PRIME == 381
	static const int IDS[] = {B12_P381};
#elif FP_PRIME == 446 && defined(FP_QNRES) /* the twist constants of the BLS12 curves at 446 and 638 bits assume the tower over u^2 = -1, xi = 1 + u, i.e. a build with FP_QNRES */
	static const int IDS[] = {B12_P446};
#elif FP_PRIME == 446
	static const int IDS[] = {BN_P446};
#elif FP_PRIME == 638 && defined(FP_QNRES)
	static const int IDS[] = {B12_P638};
#else
	static const int IDS[] = {0};
#endif
	for (unsigned ci = 0; ci < sizeof IDS / sizeof *IDS; ci++) {
		char bn[64]; snprintf(bn, sizeof bn, "w64-pc-%d", IDS[ci]);
		if (!vf_bound_on(bn)) continue;
		long cid = IDS[ci]; if (!select_pc(cid)) { vf_fail(NULL, "parameter set %ld could not be installed (curve, twist or tower validation)", cid); continue; }
		if (vf_shard == 0) gmp_printf("@INFO set %ld: twist %s, towers validated, r has %zu bits, G1 cofactor %Zd\n", cid, twist_type == RLC_EP_DTYPE ? "D" : "M", mpz_sizeinbase(RN, 2), RH);
		vf_dom S; vf_dom_init(&S); scalar_alphabet(&S, 0);
		vf_dom SS; vf_dom_init(&SS); scalar_alphabet(&SS, 1);
		mpz_set_si(K.v[0], cid);
		/* ---- G1 membership */
		{ rpt P, T; rpt_init(&P); rpt_init(&T);
			long ms[] = {1, 2, 3, -1, 5, 0x12345, -77};
			for (unsigned i = 0; i < 7; i++) if (vf_mine()) { mpz_set_si(k, ms[i]); rpt_mul(&RC, &P, &RG, k); K.op = "g1v"; K.n = 3; setp1(1, &P); vf_run(&K);
				rpt_set(&T, &P); mpz_add_ui(T.y, T.y, 1); mpz_mod(T.y, T.y, RC.p); setp1(1, &T); vf_run(&K); rpt_set(&T, &P); mpz_add_ui(T.x, T.x, 1); mpz_mod(T.x, T.x, RC.p); setp1(1, &T); vf_run(&K); }
			if (vf_mine()) { rpt_set_inf(&P); K.op = "g1v"; K.n = 3; setp1(1, &P); vf_run(&K); mpz_sub_ui(k, RN, 1); rpt_mul(&RC, &P, &RG, k); setp1(1, &P); vf_run(&K); }
			/* degenerate coordinates: (x, 0), (0, y), (0, 0), (x, x), (p-1, p-1): off the curve unless the reference says otherwise (the formulas do not use b: (x, 0) behaves like a 2-torsion point) */
			for (long x = 0; x < (vf_tier ? 120 : 40); x++) if (vf_mine()) { K.op = "g1v"; K.n = 3; P.inf = 0; mpz_set_si(P.x, x); mpz_set_ui(P.y, 0); setp1(1, &P); vf_run(&K); mpz_set_ui(P.x, 0); mpz_set_si(P.y, x); setp1(1, &P); vf_run(&K); mpz_set_si(P.x, x); mpz_set_si(P.y, x); setp1(1, &P); vf_run(&K);
				mpz_sub_ui(P.x, RC.p, (unsigned long)x + 1); mpz_set_ui(P.y, 0); setp1(1, &P); vf_run(&K); mpz_set(P.y, P.x); setp1(1, &P); vf_run(&K); mpz_set(P.x, RG.x); mpz_set_si(P.y, x); setp1(1, &P); vf_run(&K); }
			/* curve points from small x (outside the subgroup when the cofactor is > 1), their cofactor parts [r]P, members [h]P, member + cofactor part, small-order points */
			int want = vf_tier ? 400 : 120, got = 0;
			for (long x = 0; x < 4000 && got < want; x++) { mpz_set_si(t, x); if (!rpt_lift_x(&RC, &P, t)) continue; got++; if (!vf_mine()) continue; if (x & 1) rpt_neg(&RC, &P, &P);
				K.op = "g1v"; K.n = 3; setp1(1, &P); vf_run(&K);
				if (mpz_cmp_ui(RH, 1) > 0) { rpt_mul(&RC, &T, &P, RN); setp1(1, &T); vf_run(&K); rpt_add(&RC, &T, &T, &RG); setp1(1, &T); vf_run(&K); rpt_mul(&RC, &T, &P, RH); setp1(1, &T); vf_run(&K);
					/* points of each small prime order l | h */
					if (got <= 6) for (unsigned long l = 2; l < (1UL << 20); l++) if (mpz_divisible_ui_p(RH, l)) { int pr = 1; for (unsigned long d = 2; d * d <= l; d++) if (l % d == 0) { pr = 0; break; } if (!pr) continue; mpz_mul(k, RN, RH); mpz_divexact_ui(k, k, l); rpt_mul(&RC, &T, &P, k); setp1(1, &T); vf_run(&K); rpt_add(&RC, &T, &T, &RG); setp1(1, &T); vf_run(&K); } } }
			rpt_clear(&P); rpt_clear(&T); }
		/* ---- G2 membership */
		{ rpt2 P, T, U; rpt2_init(&P); rpt2_init(&T); rpt2_init(&U); f2 x; f2_init(&x);
			long ms[] = {1, 2, 3, -1, 5, 0x12345, -77};
			for (unsigned i = 0; i < 7; i++) if (vf_mine()) { mpz_set_si(k, ms[i]); rpt2_mul(&RC2, &P, &RG2, k); K.op = "g2v"; K.n = 3; setp2(1, &P); vf_run(&K);
				rpt2_set(&T, &P); mpz_add_ui(T.y.a, T.y.a, 1); mpz_mod(T.y.a, T.y.a, F2P); setp2(1, &T); vf_run(&K); rpt2_set(&T, &P); mpz_add_ui(T.x.b, T.x.b, 1); mpz_mod(T.x.b, T.x.b, F2P); setp2(1, &T); vf_run(&K); }
			if (vf_mine()) { rpt2_set_inf(&P); K.op = "g2v"; K.n = 3; setp2(1, &P); vf_run(&K); }
			/* degenerate coordinates over F_p^2: (x, 0), (0, y), (0, 0), (x, x), generator x with small y */
			for (long i = 0; i < (vf_tier ? 200 : 64); i++) if (vf_mine()) { K.op = "g2v"; K.n = 3; P.inf = 0; long a = i % 8, b = i / 8;
				f2_set_si(&P.x, a, b); f2_set_si(&P.y, 0, 0); setp2(1, &P); vf_run(&K); f2_set_si(&P.x, 0, 0); f2_set_si(&P.y, a, b); setp2(1, &P); vf_run(&K); f2_set_si(&P.x, a, b); f2_set_si(&P.y, a, b); setp2(1, &P); vf_run(&K);
				f2_set_si(&P.x, -a - 1, -b); f2_set_si(&P.y, 0, 0); setp2(1, &P); vf_run(&K); f2_set(&P.x, &RG2.x); f2_set_si(&P.y, a, b); setp2(1, &P); vf_run(&K); f2_set(&P.y, &RG2.y); f2_set_si(&P.x, a, b); setp2(1, &P); vf_run(&K); }
			int want = vf_tier ? 400 : 120, got = 0;
			for (long i = 0; i < 8000 && got < want; i++) { f2_set_si(&x, i % 40, i / 40); if (!rpt2_lift_x(&RC2, &P, &x)) continue; got++; if (!vf_mine()) continue; if (i & 1) rpt2_neg(&P, &P);
				K.op = "g2v"; K.n = 3; setp2(1, &P); vf_run(&K);                                  /* full-order twist point */
				rpt2_mul(&RC2, &T, &P, RN2); setp2(1, &T); vf_run(&K);                             /* cofactor part */
				rpt2_add(&RC2, &U, &T, &RG2); setp2(1, &U); vf_run(&K);                            /* member + cofactor part */
				rpt2_mul(&RC2, &T, &P, RH2); setp2(1, &T); vf_run(&K);                             /* member unrelated to the generator */
				if (got <= 4) for (unsigned long l = 2; l < (1UL << 20); l++) if (mpz_divisible_ui_p(RH2, l)) { int pr = 1; for (unsigned long d = 2; d * d <= l; d++) if (l % d == 0) { pr = 0; break; } if (!pr) continue; mpz_mul(k, RN2, RH2); mpz_divexact_ui(k, k, l); rpt2_mul(&RC2, &T, &P, k); setp2(1, &T); vf_run(&K); rpt2_add(&RC2, &T, &T, &RG2); setp2(1, &T); vf_run(&K); } }
			/* points on the other sextic twist (b' replaced by b'/xi^2 resp. b' xi^2 is not available generically: use b' + 1 and -b') : off this curve */
			{ rcurve2 O; rcurve2_init(&O); f2_set(&O.a, &RC2.a); f2_neg(&O.b, &RC2.b); int g2c = 0; for (long i = 0; i < 400 && g2c < 6; i++) { f2_set_si(&x, i % 20, 1 + i / 20); if (!rpt2_lift_x(&O, &P, &x)) continue; g2c++; if (vf_mine()) { K.op = "g2v"; K.n = 3; setp2(1, &P); vf_run(&K); } } }
			rpt2_clear(&P); rpt2_clear(&T); rpt2_clear(&U); f2_clear(&x); }
		/* ---- GT membership */
		{ relt G, A, B; relt_init(&G); relt_init(&A); relt_init(&B); gt_t g; gt_new(g); gt_get_gen(g); gt_get(&G, g);
			K.op = "gtv"; K.n = 2;
			long ms[] = {1, 2, -1, 5, 0x12345};
			for (unsigned i = 0; i < 5; i++) if (vf_mine()) { mpz_set_si(k, ms[i]); gt_ref_pow(&A, &G, k); gt_pack(K.v[1], &A); vf_run(&K); }
			if (vf_mine()) { relt_zero(&T12, &A); gt_pack(K.v[1], &A); vf_run(&K); relt_one(&T12, &A); gt_pack(K.v[1], &A); vf_run(&K);
				relt_zero(&T12, &A); mpz_sub_ui(A.c[0], RX_P, 1); gt_pack(K.v[1], &A); vf_run(&K);                         /* -1: order 2 */
				for (int i = 0; i < 12; i++) mpz_sub(A.c[i], RX_P, G.c[i]); mpz_mod(A.c[0], A.c[0], RX_P); for (int i = 0; i < 12; i++) mpz_mod(A.c[i], A.c[i], RX_P); gt_pack(K.v[1], &A); vf_run(&K); /* -g: order 2r */ }
			/* elements of the subfields F_p, F_p^2, F_p^6 (small coefficients) */
			for (int f = 0; f < (vf_tier ? 60 : 20); f++) if (vf_mine()) { relt_zero(&T12, &A); mpz_set_si(A.c[0], f % 5 + 2); if (f >= 5) mpz_set_si(A.c[1], f % 3 + 1); if (f >= 10) { mpz_set_si(A.c[2], f % 4); mpz_set_si(A.c[4], f % 7 + 1); } if (f >= 15) mpz_set_si(A.c[3], 1); gt_pack(K.v[1], &A); vf_run(&K); for (int i = 0; i < 12; i++) if (mpz_sgn(A.c[i])) mpz_sub(A.c[i], RX_P, A.c[i]); gt_pack(K.v[1], &A); vf_run(&K); }
			/* sparse and dense elements outside the cyclotomic subgroup; their images under the easy part (cyclotomic, order not dividing r); products with a member */
			int nf = vf_tier ? 48 : 16;
			mpz_t easy; mpz_init(easy); mpz_pow_ui(easy, RX_P, 6); mpz_sub_ui(easy, easy, 1); mpz_pow_ui(t, RX_P, 2); mpz_add_ui(t, t, 1); mpz_mul(easy, easy, t);
			for (int f = 0; f < nf; f++) if (vf_mine()) { relt_zero(&T12, &A); for (int i = 0; i < 12; i++) if (f < 4 ? (i == f * 3 || i == 0) : 1) { mpz_set_ui(A.c[i], (unsigned long)(f * 131 + i * 17 + 2)); if (f >= 6) { mpz_mul(A.c[i], A.c[i], A.c[i]); mpz_mul_ui(A.c[i], A.c[i], 0x9E3779B1UL); mpz_pow_ui(A.c[i], A.c[i], 5); mpz_mod(A.c[i], A.c[i], RX_P); } }
				gt_pack(K.v[1], &A); vf_run(&K);
				relt_pow(&T12, &B, &A, easy); gt_pack(K.v[1], &B); vf_run(&K);
				relt_mul(&T12, &A, &B, &G); gt_pack(K.v[1], &A); vf_run(&K);
				/* the same pushed into the order-r subgroup by the hard part: a member unrelated to the generator */
				mpz_pow_ui(t, RX_P, 4); mpz_pow_ui(k, RX_P, 2); mpz_sub(t, t, k); mpz_add_ui(t, t, 1); mpz_divexact(t, t, RN); relt_pow(&T12, &A, &B, t); gt_pack(K.v[1], &A); vf_run(&K); }
			mpz_clear(easy); relt_clear(&G); relt_clear(&A); relt_clear(&B); }
		/* ---- exponentiation */
		{ rpt P, Q; rpt_init(&P); rpt_init(&Q); long bs[] = {1, 0x12345, -77, 0};
			for (unsigned b = 0; b < 4; b++) { mpz_set_si(k, bs[b]); rpt_mul(&RC, &P, &RG, k); vf_dom *D = (b == 0 || vf_tier) ? &S : &SS;
				for (int j = 0; j < D->n && !vf_expired(); j++) if (vf_mine()) { K.op = "g1m"; K.n = 4; setp1(1, &P); mpz_set(K.v[3], D->v[j]); vf_run(&K); } }
			mpz_set_si(k, 5); rpt_mul(&RC, &Q, &RG, k);
			for (int a = 0; a < S.n && !vf_expired(); a++) for (int b = a % (vf_tier ? 1 : 2); b < S.n; b += (vf_tier ? 1 : 2)) if (vf_mine()) { K.op = "g1s"; K.n = 7; setp1(1, &RG); mpz_set(K.v[3], S.v[a]); setp1(4, &Q); mpz_set(K.v[6], S.v[b]); vf_run(&K); }
			rpt_clear(&P); rpt_clear(&Q); }
		{ rpt2 P, Q; rpt2_init(&P); rpt2_init(&Q); long bs[] = {1, 0x12345, -77, 0};
			for (unsigned b = 0; b < 4; b++) { mpz_set_si(k, bs[b]); rpt2_mul(&RC2, &P, &RG2, k); vf_dom *D = (b == 0 || vf_tier) ? &S : &SS;
				for (int j = 0; j < D->n && !vf_expired(); j++) if (vf_mine()) { K.op = "g2m"; K.n = 4; setp2(1, &P); mpz_set(K.v[3], D->v[j]); vf_run(&K); } }
			mpz_set_si(k, 5); rpt2_mul(&RC2, &Q, &RG2, k);
			for (int a = 0; a < S.n && !vf_expired(); a++) for (int b = a % (vf_tier ? 1 : 2); b < S.n; b += (vf_tier ? 1 : 2)) if (vf_mine()) { K.op = "g2s"; K.n = 7; setp2(1, &RG2); mpz_set(K.v[3], S.v[a]); setp2(4, &Q); mpz_set(K.v[6], S.v[b]); vf_run(&K); }
			rpt2_clear(&P); rpt2_clear(&Q); }
		{ relt G, A, C; relt_init(&G); relt_init(&A); relt_init(&C); gt_t g; gt_new(g); gt_get_gen(g); gt_get(&G, g); long bs[] = {1, 0x12345, -77};
			mpz_set_si(k, 5); gt_ref_pow(&C, &G, k);
			for (unsigned b = 0; b < 3; b++) { mpz_set_si(k, bs[b]); gt_ref_pow(&A, &G, k); vf_dom *D = (b == 0 || vf_tier) ? &S : &SS;
				for (int j = 0; j < D->n && !vf_expired(); j++) if (vf_mine()) { K.op = "gte"; K.n = 3; gt_pack(K.v[1], &A); mpz_set(K.v[2], D->v[j]); vf_run(&K); } }
			for (int a = 0; a < SS.n && !vf_expired(); a++) for (int b = a % (vf_tier ? 1 : 2); b < SS.n; b += (vf_tier ? 1 : 2)) if (vf_mine()) { K.op = "gte"; K.n = 5; gt_pack(K.v[1], &G); mpz_set(K.v[2], SS.v[a]); gt_pack(K.v[3], &C); mpz_set(K.v[4], SS.v[b]); vf_run(&K); }
			relt_clear(&G); relt_clear(&A); relt_clear(&C); }
		vf_dom_clear(&S); vf_dom_clear(&SS);
		vf_bound_done(bn);
	}
	vf_stat_add("transitions", transitions);
	mpz_clears(k, t, NULL);
}

VF_MAIN()
