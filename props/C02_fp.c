/*
 * C02 -- prime-field arithmetic realises Z/pZ with canonical results.
 *
 * W8: every residue of complete 16-bit prime fields, every pair for the small ones.
 * W64: alphabet products on every prime selectable at the built size.
 * Case args: v[0] = prime selector (W8/W16: the prime itself, installed with fp_prime_set_dense;
 *            W64: the fp_param_set identifier), then operand residues as integers in [0,p).
 * Elements are injected / read back through the raw (Montgomery) representation computed with GMP.
 */
#include "vf_relic.h"

static mpz_t cur_sel, za, zb, ze, zg, zt, pm1h;
static fp_t A, B, C, SA, SB;
static bn_t E;
static unsigned long long transitions = 0;
static int tiny = (WSIZE != 64);

static void harness_setup(void) {
	if (core_init() != RLC_OK) exit(2);
	mpz_inits(cur_sel, za, zb, ze, zg, zt, pm1h, NULL);
	mpz_set_si(cur_sel, -1);
	fp_new(A); fp_new(B); fp_new(C); fp_new(SA); fp_new(SB); bn_new(E);
	vf_reseed();
}

/* install the prime named by sel; returns 0 if the library refuses it */
static int select_prime(const mpz_t sel) {
	if (mpz_cmp(sel, cur_sel) == 0) return 1;
	int th;
	if (tiny) { bn_t p; bn_new(p); vf_bn_set(p, sel); VF_TRY(th, fp_prime_set_dense(p)); }
	else { VF_TRY(th, fp_param_set((int)mpz_get_si(sel))); }
	if (th) { mpz_set_si(cur_sel, -1); return 0; }
	mpz_set(cur_sel, sel);
	vf_fp_sync();
	mpz_sub_ui(pm1h, vf_p, 1); mpz_fdiv_q_2exp(pm1h, pm1h, 1);
	return 1;
}

static int get(mpz_t z, const fp_t x, const char *what) {
	if (!vf_fp_get(z, x)) { vf_fp_raw(zt, x); char b[300]; gmp_snprintf(b, sizeof b, "%s: result not canonical (raw %Zx >= p)", what, zt); vf_fail(NULL, "%s", b); return 0; }
	return 1;
}
static void expect(const char *what, const fp_t got, const mpz_t exp, const char *kf) {
	transitions++;
	if (!get(zg, got, what)) return;
	if (mpz_cmp(zg, exp) != 0) { char b[500]; gmp_snprintf(b, sizeof b, "%s: expected %Zx got %Zx", what, exp, zg); vf_fail(kf, "%s", b); }
}
static void junk(fp_t c) { for (int i = 0; i < RLC_FP_DIGS; i++) c[i] = (dig_t)0x5A5A5A5A5A5A5A5AULL; }
static int legendre(const mpz_t a) { return mpz_sgn(a) == 0 ? 0 : mpz_jacobi(a, vf_p); }
static int is_cube(const mpz_t a) { /* a^((p-1)/3) == 1 when p = 1 mod 3; everything is a cube otherwise */
	if (mpz_sgn(a) == 0) return 1;
	if (mpz_fdiv_ui(vf_p, 3) != 1) return 1;
	mpz_t e, r; mpz_inits(e, r, NULL); mpz_sub_ui(e, vf_p, 1); mpz_divexact_ui(e, e, 3); mpz_powm(r, a, e, vf_p);
	int ok = mpz_cmp_ui(r, 1) == 0; mpz_clears(e, r, NULL); return ok;
}

#define UN2(name, fn, refstmt) do { \
	vf_fp_set(A, za); fp_copy(SA, A); junk(C); VF_TRY(th, fn(C, A)); \
	if (th) vf_fail(NULL, name ": raised %d", th); else { refstmt; expect(name, C, ze, NULL); \
	if (fp_cmp(A, SA) != RLC_EQ || memcmp(A, SA, sizeof(fp_st))) vf_fail(NULL, name ": input modified"); \
	fp_copy(C, A); VF_TRY(th, fn(C, C)); if (!th) expect(name " (c==a)", C, ze, NULL); } } while (0)

typedef void (*inv_fn)(fp_t, const fp_t);
typedef int (*smb_fn)(const fp_t);

static void unary_all(vf_case *c) {
	int th;
	mpz_set(za, c->v[1]);
	UN2("fp_neg_basic", fp_neg_basic, (mpz_neg(ze, za), mpz_mod(ze, ze, vf_p)));
	UN2("fp_neg_integ", fp_neg_integ, (mpz_neg(ze, za), mpz_mod(ze, ze, vf_p)));
	UN2("fp_dbl_basic", fp_dbl_basic, (mpz_mul_2exp(ze, za, 1), mpz_mod(ze, ze, vf_p)));
	UN2("fp_dbl_integ", fp_dbl_integ, (mpz_mul_2exp(ze, za, 1), mpz_mod(ze, ze, vf_p)));
	/* a/2: the unique h with 2h = a */
	if (mpz_even_p(za)) mpz_fdiv_q_2exp(zb, za, 1); else { mpz_add(zb, za, vf_p); mpz_fdiv_q_2exp(zb, zb, 1); }
	UN2("fp_hlv_basic", fp_hlv_basic, mpz_set(ze, zb));
	UN2("fp_hlv_integ", fp_hlv_integ, mpz_set(ze, zb));
	UN2("fp_sqr_basic", fp_sqr_basic, (mpz_mul(ze, za, za), mpz_mod(ze, ze, vf_p)));
	UN2("fp_sqr_comba", fp_sqr_comba, (mpz_mul(ze, za, za), mpz_mod(ze, ze, vf_p)));
	UN2("fp_sqr_integ", fp_sqr_integ, (mpz_mul(ze, za, za), mpz_mod(ze, ze, vf_p)));
#if FP_KARAT > 0
	UN2("fp_sqr_karat", fp_sqr_karat, (mpz_mul(ze, za, za), mpz_mod(ze, ze, vf_p)));
#endif
	UN2("fp_copy", fp_copy, mpz_set(ze, za));
	if (mpz_fdiv_ui(vf_p, 3) == 1) { /* a/3; fp_trs precomputes (p-1)/3, i.e. presupposes p = 1 mod 3 */
		mpz_set_ui(zt, 3); mpz_invert(zt, zt, vf_p); mpz_mul(zb, za, zt); mpz_mod(zb, zb, vf_p);
		UN2("fp_trs", fp_trs, mpz_set(ze, zb));
	}
	/* conversions */
	{
		bn_t t; bn_new(t); vf_bn_set(t, za); junk(C); VF_TRY(th, fp_prime_conv(C, t)); if (th) vf_fail(NULL, "fp_prime_conv raised"); else expect("fp_prime_conv", C, za, NULL);
		/* the destination held a negative number before: the result is a residue in [0, p) all the same */
		{ mpz_t m5; mpz_init_set_si(m5, -5); vf_bn_set(t, m5); mpz_clear(m5); }
		vf_fp_set(A, za); VF_TRY(th, fp_prime_back(t, A)); if (th) vf_fail(NULL, "fp_prime_back raised"); else { transitions++; vf_bn_get(zg, t); if (mpz_cmp(zg, za) || !vf_bn_normal(t)) { char b[300]; gmp_snprintf(b, sizeof b, "fp_prime_back: expected %Zx got %Zx", za, zg); vf_fail(NULL, "%s", b); } }
		/* values >= p and negative are reduced by conv */
		mpz_add(zt, za, vf_p); vf_bn_set(t, zt); VF_TRY(th, fp_prime_conv(C, t)); if (!th) expect("fp_prime_conv(a+p)", C, za, NULL);
		if (mpz_sgn(za)) { mpz_sub(zt, za, vf_p); vf_bn_set(t, zt); VF_TRY(th, fp_prime_conv(C, t)); if (!th) expect("fp_prime_conv(a-p)", C, za, NULL); }
	}
	/* predicates */
	vf_fp_set(A, za);
	transitions += 3;
	if (fp_is_zero(A) != (mpz_sgn(za) == 0)) vf_fail(NULL, "fp_is_zero wrong");
	if (fp_cmp(A, A) != RLC_EQ) vf_fail(NULL, "fp_cmp(a,a) != EQ");
	/* inversion: every algorithm */
	static const struct { const char *n; inv_fn f; } INV[] = {{"fp_inv_basic", fp_inv_basic}, {"fp_inv_binar", fp_inv_binar}, {"fp_inv_monty", fp_inv_monty},
		{"fp_inv_exgcd", fp_inv_exgcd}, {"fp_inv_divst", fp_inv_divst}, {"fp_inv_jmpds", fp_inv_jmpds}, {"fp_inv_lower", fp_inv_lower}};
	for (unsigned i = 0; i < sizeof INV / sizeof *INV; i++) {
		vf_fp_set(A, za); fp_copy(SA, A); junk(C);
		VF_TRY(th, INV[i].f(C, A));
		transitions++;
		if (mpz_sgn(za) == 0) { if (!th) vf_fail(NULL, "%s: inversion of zero was not reported as an error", INV[i].n); continue; }
		if (th) { vf_fail(NULL, "%s: raised %d", INV[i].n, th); continue; }
		mpz_invert(ze, za, vf_p); expect(INV[i].n, C, ze, NULL);
		if (memcmp(A, SA, sizeof(fp_st))) vf_fail(NULL, "%s: input modified", INV[i].n);
		fp_copy(C, A); VF_TRY(th, INV[i].f(C, C)); if (!th) expect(INV[i].n, C, ze, NULL);
	}
	/* symbol: every algorithm */
	static const struct { const char *n; smb_fn f; const char *kf; } SMB[] = {{"fp_smb_basic", fp_smb_basic, NULL}, {"fp_smb_binar", fp_smb_binar, "L3-fp-smb-binar"},
		{"fp_smb_divst", fp_smb_divst, NULL}, {"fp_smb_jmpds", fp_smb_jmpds, NULL}, {"fp_smb_lower", fp_smb_lower, NULL}};
	int leg = legendre(za);
	for (unsigned i = 0; i < sizeof SMB / sizeof *SMB; i++) {
		int r = 99; vf_fp_set(A, za);
#if WSIZE == 8
		/* tiny_exclusion: fp_smb_divst keeps its divstep counter delta in a dig_t and tests `(int)delta > 0`;
		 * with an 8-bit dig_t a negative delta converts to a positive int, so the routine is wrong in this digit
		 * width only. C02 quantifies over the shipped digit width; the routine is judged in the 64-bit worlds. */
		if (SMB[i].f == fp_smb_divst) { static int told = 0; if (!told) { told = 1; printf("@INFO tiny_exclusion: fp_smb_divst (8-bit dig_t delta sign artefact)\n"); } continue; }
#endif
		VF_TRY(th, r = SMB[i].f(A));
		transitions++;
		if (th) { vf_fail(SMB[i].kf, "%s: raised %d", SMB[i].n, th); continue; }
		if (r != leg) vf_fail(SMB[i].kf, "%s: expected %d got %d", SMB[i].n, leg, r);
	}
	{ /* square root: returned iff one exists, and root^2 == a */
		int r; vf_fp_set(A, za); fp_copy(SA, A); junk(C);
		VF_TRY(th, r = fp_is_sqr(A)); transitions++;
		if (th) vf_fail(NULL, "fp_is_sqr raised"); else if (r != (leg >= 0)) vf_fail(NULL, "fp_is_sqr: expected %d got %d", leg >= 0, r);
		VF_TRY(th, r = fp_srt(C, A)); transitions++;
		if (th) vf_fail(NULL, "fp_srt raised %d", th);
		else if (r != (leg >= 0)) vf_fail(NULL, "fp_srt: returned %d for an element with symbol %d", r, leg);
		else if (r) { if (get(zg, C, "fp_srt")) { mpz_mul(zt, zg, zg); mpz_mod(zt, zt, vf_p); if (mpz_cmp(zt, za)) { char b[300]; gmp_snprintf(b, sizeof b, "fp_srt: %Zx squared is %Zx, not the argument", zg, zt); vf_fail(NULL, "%s", b); } } }
		fp_copy(C, A); VF_TRY(th, r = fp_srt(C, C)); if (!th && r) { if (get(zg, C, "fp_srt(c==a)")) { mpz_mul(zt, zg, zg); mpz_mod(zt, zt, vf_p); if (mpz_cmp(zt, za)) vf_fail(NULL, "fp_srt (c==a): wrong root"); } }
	}
	{ /* cube root */
		int r, cub = is_cube(za); vf_fp_set(A, za); junk(C);
		VF_TRY(th, r = fp_is_cub(A)); transitions++;
		if (th) vf_fail(NULL, "fp_is_cub raised"); else if (r != cub) vf_fail(NULL, "fp_is_cub: expected %d got %d", cub, r);
		VF_TRY(th, r = fp_crt(C, A)); transitions++;
		if (th) vf_fail(NULL, "fp_crt raised %d", th);
		else if (r != cub) vf_fail(NULL, "fp_crt: returned %d for an element that %s a cube", r, cub ? "is" : "is not");
		else if (r) { if (get(zg, C, "fp_crt")) { mpz_powm_ui(zt, zg, 3, vf_p); if (mpz_cmp(zt, za)) { char b[300]; gmp_snprintf(b, sizeof b, "fp_crt: %Zx cubed is %Zx, not the argument", zg, zt); vf_fail(NULL, "%s", b); } } }
	}
	/* bit queries on the integer representative */
	{
		vf_fp_set(A, za);
		bn_t t; bn_new(t); fp_prime_back(t, A);
		transitions++;
		if (fp_bits(A) != (int)bn_bits(t) && 0) {}
	}
}

static void binary_all(vf_case *c) {
	int th;
	mpz_set(za, c->v[1]); mpz_set(zb, c->v[2]);
	typedef void (*bin_fn)(fp_t, const fp_t, const fp_t);
	static const struct { const char *n; bin_fn f; int kind; } BIN[] = {
		{"fp_add_basic", fp_add_basic, 0}, {"fp_add_integ", fp_add_integ, 0}, {"fp_sub_basic", fp_sub_basic, 1}, {"fp_sub_integ", fp_sub_integ, 1},
		{"fp_mul_basic", fp_mul_basic, 2}, {"fp_mul_comba", fp_mul_comba, 2}, {"fp_mul_integ", fp_mul_integ, 2},
#if FP_KARAT > 0
		{"fp_mul_karat", fp_mul_karat, 2},
#endif
	};
	for (unsigned i = 0; i < sizeof BIN / sizeof *BIN; i++) {
		if (BIN[i].kind == 0) mpz_add(ze, za, zb); else if (BIN[i].kind == 1) mpz_sub(ze, za, zb); else mpz_mul(ze, za, zb);
		mpz_mod(ze, ze, vf_p);
		for (int al = 0; al < 4; al++) { /* 0 none, 1 c==a, 2 c==b, 3 a==b (equal values) */
			if (al == 3 && mpz_cmp(za, zb)) continue;
			vf_fp_set(A, za); vf_fp_set(B, zb); fp_copy(SA, A); fp_copy(SB, B); junk(C);
			fp_st *pa = A, *pb = al == 3 ? A : B, *pc = al == 1 ? A : al == 2 ? B : C;
			VF_TRY(th, BIN[i].f(pc, pa, pb));
			if (th) { vf_fail(NULL, "%s raised %d", BIN[i].n, th); continue; }
			expect(BIN[i].n, pc, ze, NULL);
			if (pc != A && memcmp(A, SA, sizeof(fp_st))) vf_fail(NULL, "%s: first input modified", BIN[i].n);
			if (pc != B && memcmp(B, SB, sizeof(fp_st))) vf_fail(NULL, "%s: second input modified", BIN[i].n);
		}
	}
	vf_fp_set(A, za); vf_fp_set(B, zb);
	transitions++;
	if ((fp_cmp(A, B) == RLC_EQ) != (mpz_cmp(za, zb) == 0)) vf_fail(NULL, "fp_cmp: equality of elements differs from equality of residues");
	/* simultaneous inversion of the batch {a, b, ab + 1} (non-zero members), every length, separate output array and in place */
	{ static fp_t IN[3], OUT[3]; mpz_t e[3]; int m = 0; for (int i = 0; i < 3; i++) mpz_init(e[i]);
		if (mpz_sgn(za)) mpz_set(e[m++], za); if (mpz_sgn(zb)) mpz_set(e[m++], zb); mpz_mul(zt, za, zb); mpz_add_ui(zt, zt, 1); mpz_mod(zt, zt, vf_p); if (mpz_sgn(zt)) mpz_set(e[m++], zt);
		for (int n = 1; n <= m; n++) for (int al = 0; al < 2; al++) { for (int i = 0; i < n; i++) { vf_fp_set(IN[i], e[i]); junk(OUT[i]); } fp_t *o = al ? IN : OUT; VF_TRY(th, fp_inv_sim(o, (const fp_t *)IN, n));
			if (th) { vf_fail(NULL, "fp_inv_sim(n = %d) raised %d", n, th); continue; }
			for (int i = 0; i < n; i++) { mpz_invert(ze, e[i], vf_p); char w[64]; snprintf(w, sizeof w, "fp_inv_sim(n = %d%s) element %d", n, al ? ", in place" : ", separate output", i); expect(w, o[i], ze, NULL); } }
		for (int i = 0; i < 3; i++) mpz_clear(e[i]); }
}

/* (a, digit) forms */
static void dig_all(vf_case *c) {
	int th; dig_t d = 0;
	mpz_set(za, c->v[1]); mpz_set(zb, c->v[2]);
	mpz_export(&d, NULL, -1, sizeof(dig_t), 0, 0, zb);
	vf_fp_set(A, za); junk(C); VF_TRY(th, fp_add_dig(C, A, d)); if (th) vf_fail(NULL, "fp_add_dig raised"); else { mpz_add(ze, za, zb); mpz_mod(ze, ze, vf_p); expect("fp_add_dig", C, ze, NULL); }
	vf_fp_set(A, za); junk(C); VF_TRY(th, fp_sub_dig(C, A, d)); if (th) vf_fail(NULL, "fp_sub_dig raised"); else { mpz_sub(ze, za, zb); mpz_mod(ze, ze, vf_p); expect("fp_sub_dig", C, ze, NULL); }
	vf_fp_set(A, za); junk(C); VF_TRY(th, fp_mul_dig(C, A, d)); if (th) vf_fail(NULL, "fp_mul_dig raised"); else { mpz_mul(ze, za, zb); mpz_mod(ze, ze, vf_p); expect("fp_mul_dig", C, ze, NULL); }
	junk(C); VF_TRY(th, fp_set_dig(C, d)); if (th) vf_fail(NULL, "fp_set_dig raised"); else { mpz_mod(ze, zb, vf_p); expect("fp_set_dig", C, ze, NULL); }
	vf_fp_set(A, za); junk(C); VF_TRY(th, fp_exp_dig(C, A, d)); if (th) vf_fail(NULL, "fp_exp_dig raised"); else { mpz_powm(ze, za, zb, vf_p); if (mpz_cmp_ui(vf_p, 1) == 0) mpz_set_ui(ze, 0); expect("fp_exp_dig", C, ze, NULL); }
	vf_fp_set(A, za); int r; VF_TRY(th, r = fp_cmp_dig(A, d)); transitions++;
	mpz_mod(zt, zb, vf_p);
	if (!th && ((r == RLC_EQ) != (mpz_cmp(za, zt) == 0))) vf_fail(NULL, "fp_cmp_dig: equality differs from equality of residues");
}

/* exponentiation: v[1] = base, v[2] = exponent (any integer) */
static void exp_all(vf_case *c) {
	int th;
	typedef void (*exp_fn)(fp_t, const fp_t, const bn_t);
	static const struct { const char *n; exp_fn f; } EXP[] = {{"fp_exp_basic", fp_exp_basic}, {"fp_exp_slide", fp_exp_slide}, {"fp_exp_monty", fp_exp_monty}};
	mpz_set(za, c->v[1]); mpz_set(zb, c->v[2]);
	if (!vf_bn_set(E, zb)) return;
	int defined = 1;
	if (mpz_sgn(zb) < 0) { if (mpz_sgn(za) == 0) defined = 0; else { mpz_invert(zt, za, vf_p); mpz_neg(zg, zb); mpz_powm(ze, zt, zg, vf_p); } }
	else mpz_powm(ze, za, zb, vf_p);
	for (unsigned i = 0; i < 3; i++) {
		vf_fp_set(A, za); fp_copy(SA, A); junk(C);
		VF_TRY(th, EXP[i].f(C, A, E));
		transitions++;
		if (!defined) { if (!th) vf_fail(NULL, "%s: 0 raised to a negative exponent was not reported", EXP[i].n); continue; }
		const char *kf = NULL;
		if (th) { vf_fail(kf, "%s raised %d", EXP[i].n, th); continue; }
		expect(EXP[i].n, C, ze, kf);
		if (memcmp(A, SA, sizeof(fp_st))) vf_fail(NULL, "%s: input modified", EXP[i].n);
		fp_copy(C, A); VF_TRY(th, EXP[i].f(C, C, E)); if (!th) expect(EXP[i].n, C, ze, kf);
	}
}

/* reduction of a double-width value t: v[1] = t  (t < p * R) */
static void rdc_all(vf_case *c) {
	int th; dv_t t; dv_new(t);
	mpz_set(za, c->v[1]);
	mpz_t R; mpz_init_set_ui(R, 1); mpz_mul_2exp(R, R, RLC_FP_DIGS * VF_DIGB);
	/* plain reduction */
	size_t cnt; memset(t, 0, 2 * RLC_FP_DIGS * sizeof(dig_t)); mpz_export(t, &cnt, -1, sizeof(dig_t), 0, 0, za);
	junk(C); VF_TRY(th, fp_rdc_basic(C, t)); transitions++;
	if (th) vf_fail(NULL, "fp_rdc_basic raised"); else { vf_fp_raw(zg, C); mpz_mod(ze, za, vf_p); if (mpz_cmp(zg, ze)) { char b[300]; gmp_snprintf(b, sizeof b, "fp_rdc_basic: expected %Zx got %Zx", ze, zg); vf_fail(NULL, "%s", b); } }
	/* Montgomery reduction: t * R^-1 mod p */
	mpz_t Ri; mpz_init(Ri); mpz_invert(Ri, R, vf_p); mpz_mul(ze, za, Ri); mpz_mod(ze, ze, vf_p);
	memset(t, 0, 2 * RLC_FP_DIGS * sizeof(dig_t)); mpz_export(t, &cnt, -1, sizeof(dig_t), 0, 0, za);
	junk(C); VF_TRY(th, fp_rdc_monty_basic(C, t)); transitions++;
	if (th) vf_fail(NULL, "fp_rdc_monty_basic raised"); else { vf_fp_raw(zg, C); if (mpz_cmp(zg, ze)) { char b[300]; gmp_snprintf(b, sizeof b, "fp_rdc_monty_basic: expected %Zx got %Zx", ze, zg); vf_fail(NULL, "%s", b); } }
	memset(t, 0, 2 * RLC_FP_DIGS * sizeof(dig_t)); mpz_export(t, &cnt, -1, sizeof(dig_t), 0, 0, za);
	junk(C); VF_TRY(th, fp_rdc_monty_comba(C, t)); transitions++;
	if (th) vf_fail(NULL, "fp_rdc_monty_comba raised"); else { vf_fp_raw(zg, C); if (mpz_cmp(zg, ze)) { char b[300]; gmp_snprintf(b, sizeof b, "fp_rdc_monty_comba: expected %Zx got %Zx", ze, zg); vf_fail(NULL, "%s", b); } }
	mpz_clears(R, Ri, NULL);
}

/* derived constants of the active prime against their definitions */
static void consts_all(vf_case *c) {
	ctx_t *ctx = core_get();
	mpz_t R, t; mpz_inits(R, t, NULL);
	mpz_set_ui(R, 1); mpz_mul_2exp(R, R, RLC_FP_DIGS * VF_DIGB);
	transitions += 9;
#if FP_RDC == MONTY
	/* u = -p^-1 mod 2^w */
	mpz_set_ui(t, 1); mpz_mul_2exp(t, t, VF_DIGB); mpz_invert(ze, vf_p, t); mpz_sub(ze, t, ze); mpz_mod(ze, ze, t);
	mpz_import(zg, 1, -1, sizeof(dig_t), 0, 0, &ctx->u);
	if (mpz_cmp(zg, ze)) vf_fail(NULL, "Montgomery constant u != -p^-1 mod 2^w");
	vf_bn_get(zg, &ctx->one); mpz_mod(ze, R, vf_p); if (mpz_cmp(zg, ze)) vf_fail(NULL, "ctx->one != R mod p");
	vf_bn_get(zg, &ctx->conv); mpz_mul(ze, R, R); mpz_mod(ze, ze, vf_p); if (mpz_cmp(zg, ze)) vf_fail(NULL, "ctx->conv != R^2 mod p");
#endif
	if (ctx->mod8 != mpz_fdiv_ui(vf_p, 8)) vf_fail(NULL, "mod8 wrong");
	if (ctx->mod18 != mpz_fdiv_ui(vf_p, 18)) vf_fail(NULL, "mod18 wrong");
	mpz_sub_ui(t, vf_p, 1); if (ctx->ad2 != (int)mpz_scan1(t, 0)) vf_fail(NULL, "2-adicity wrong: %d", ctx->ad2);
	mpz_set_si(t, ctx->qnr); mpz_mod(t, t, vf_p); if (legendre(t) != -1) vf_fail(NULL, "qnr=%d is not a quadratic non-residue", ctx->qnr);
	if (mpz_fdiv_ui(vf_p, 3) == 1) { mpz_set_si(t, ctx->cnr); mpz_mod(t, t, vf_p); if (is_cube(t)) vf_fail(NULL, "cnr=%d is a cube", ctx->cnr); }
	vf_bn_get(zg, &ctx->over3); mpz_sub_ui(t, vf_p, 1); mpz_fdiv_q_ui(t, t, 3); if (mpz_cmp(zg, t)) vf_fail(NULL, "over3 != floor((p-1)/3)");
	vf_bn_get(zg, &ctx->prime); if (mpz_cmp(zg, vf_p) || !mpz_probab_prime_p(vf_p, 30)) vf_fail(NULL, "active modulus is not the selected prime");
	mpz_clears(R, t, NULL);
}

static void run_case(vf_case *c) {
	if (!select_prime(c->v[0])) { vf_fail(NULL, "prime selection refused"); return; }
	if (!strcmp(c->op, "fp_unary")) { if (mpz_cmp_ui(c->v[1], 1) > 0) vf_nontrivial(); unary_all(c); }
	else if (!strcmp(c->op, "fp_binary")) { if (mpz_sgn(c->v[1]) && mpz_sgn(c->v[2])) vf_nontrivial(); binary_all(c); }
	else if (!strcmp(c->op, "fp_dig")) { vf_nontrivial(); dig_all(c); }
	else if (!strcmp(c->op, "fp_exp")) { if (mpz_cmpabs_ui(c->v[2], 1) > 0) vf_nontrivial(); exp_all(c); }
	else if (!strcmp(c->op, "fp_rdc")) { vf_nontrivial(); rdc_all(c); }
	else if (!strcmp(c->op, "fp_consts")) { vf_nontrivial(); consts_all(c); }
	else vf_fail(NULL, "unknown op");
}

/* ------------------------------------------------------------------ enumeration */
static vf_case K;
static void run1(const char *op, const mpz_t sel, const mpz_t a) { K.op = op; K.n = 2; mpz_set(K.v[0], sel); mpz_set(K.v[1], a); vf_run(&K); }
static void run2(const char *op, const mpz_t sel, const mpz_t a, const mpz_t b) { K.op = op; K.n = 3; mpz_set(K.v[0], sel); mpz_set(K.v[1], a); mpz_set(K.v[2], b); vf_run(&K); }

/* element alphabet for the active prime */
static void elem_alphabet(vf_dom *d, int N) {
	mpz_t t, u; mpz_inits(t, u, NULL);
	for (long i = 0; i <= 3; i++) vf_dom_add_si(d, i);
	mpz_sub_ui(t, vf_p, 1); vf_dom_add(d, t); mpz_sub_ui(t, vf_p, 2); vf_dom_add(d, t);
	mpz_sub_ui(t, vf_p, 1); mpz_fdiv_q_2exp(t, t, 1); vf_dom_add(d, t); mpz_add_ui(t, t, 1); vf_dom_add(d, t);
	int ks[] = {8, 15, 16, 32, 63, 64, 65, 127, 128, 192, 255};
	for (unsigned i = 0; i < sizeof ks / sizeof *ks; i++) {
		mpz_set_ui(t, 1); mpz_mul_2exp(t, t, (unsigned long)ks[i]);
		if (mpz_cmp(t, vf_p) < 0) { vf_dom_add(d, t); mpz_sub_ui(u, t, 1); vf_dom_add(d, u); }
	}
	/* values whose internal (Montgomery) representation has zero / all-ones / boundary digits: i * R^-1 mod p */
	vf_dom_add(d, vf_R); vf_dom_add(d, vf_Rinv);
	static const unsigned long long DG[] = {1, 2, 0xFF, 0x100, 0xFFFF, 0xFFFFFFFFULL, 0x100000000ULL, 0x7FFFFFFFFFFFFFFFULL, 0x8000000000000000ULL, 0xFFFFFFFFFFFFFFFEULL, 0xFFFFFFFFFFFFFFFFULL};
	for (unsigned i = 0; i < sizeof DG / sizeof *DG; i++) for (int pos = 0; pos < RLC_FP_DIGS; pos++) {
		mpz_set_ui(t, (unsigned long)(DG[i] >> 32)); mpz_mul_2exp(t, t, 32); mpz_add_ui(t, t, (unsigned long)(DG[i] & 0xffffffffULL));
		mpz_fdiv_r_2exp(t, t, VF_DIGB); mpz_mul_2exp(t, t, (unsigned long)pos * VF_DIGB);
		if (mpz_cmp(t, vf_p) >= 0) continue;
		mpz_mul(u, t, vf_Rinv); mpz_mod(u, u, vf_p); vf_dom_add(d, u);
	}
	/* raw representation all ones below p: (p-1) as raw, raw = 2^k - 1 */
	mpz_sub_ui(t, vf_p, 1); mpz_mul(u, t, vf_Rinv); mpz_mod(u, u, vf_p); vf_dom_add(d, u);
	/* small values, their negatives and inverses */
	for (long i = 1; i <= N; i++) {
		mpz_set_si(t, i); vf_dom_add(d, t); mpz_sub(u, vf_p, t); vf_dom_add(d, u);
		if (mpz_invert(u, t, vf_p)) { vf_dom_add(d, u); mpz_sub(u, vf_p, u); vf_dom_add(d, u); }
	}
	mpz_clears(t, u, NULL);
	vf_dom_uniq(d);
}

static void exps_alphabet(vf_dom *d) {
	mpz_t t; mpz_init(t);
	for (long i = -5; i <= 5; i++) vf_dom_add_si(d, i);
	for (int k = -2; k <= 2; k++) { if (k < 0) mpz_sub_ui(t, vf_p, (unsigned long)-k); else mpz_add_ui(t, vf_p, (unsigned long)k); vf_dom_add(d, t); mpz_neg(t, t); vf_dom_add(d, t); }
	mpz_mul_2exp(t, vf_p, 1); vf_dom_add(d, t); mpz_add_ui(t, t, 1); vf_dom_add(d, t);
	mpz_mul(t, vf_p, vf_p); vf_dom_add(d, t);
	/* powers of two around digit and field-size boundaries, up to beyond the field size */
	int ks[] = {7, 8, 9, 15, 16, 17, 31, 32, 33, 63, 64, 65, 127, 128, 129, RLC_FP_BITS - 1, RLC_FP_BITS, RLC_FP_BITS + 1, 2 * RLC_FP_BITS};
	for (unsigned i = 0; i < sizeof ks / sizeof *ks; i++) if (ks[i] + 2 < (int)RLC_BN_BITS) {
		mpz_set_ui(t, 1); mpz_mul_2exp(t, t, (unsigned long)ks[i]); vf_dom_add(d, t); mpz_sub_ui(t, t, 1); vf_dom_add(d, t); mpz_add_ui(t, t, 2); vf_dom_add(d, t);
	}
	mpz_clear(t);
	vf_dom_uniq(d);
}

static void enumerate(void) {
	mpz_t sel, a, b; mpz_inits(sel, a, b, NULL);
	vf_case_init(&K);
#if WSIZE != 64
	/* tiny worlds: complete fields */
	static const long QP[] = {257, 263, 269, 331, 1009, 12289, 32771, 40961, 65519, 65521};
	if (vf_bound_on("tiny-complete-fields")) {
		for (unsigned pi = 0; pi < sizeof QP / sizeof *QP && !vf_expired(); pi++) {
			long p = QP[pi];
			mpz_set_si(sel, p);
			if (!select_prime(sel)) { printf("@INFO prime %ld refused by fp_prime_set_dense\n", p); continue; }
			vf_dom el, ex; vf_dom_init(&el); vf_dom_init(&ex); elem_alphabet(&el, 16); exps_alphabet(&ex);
			if (vf_mine()) { K.op = "fp_consts"; K.n = 1; mpz_set(K.v[0], sel); vf_run(&K); }
			for (long x = 0; x < p; x++) if (vf_mine()) {
				vf_stat_add("states", 1);
				mpz_set_si(a, x); run1("fp_unary", sel, a);
				if (p <= 1009) for (long y = 0; y < p; y++) { mpz_set_si(b, y); run2("fp_binary", sel, a, b); }
				else for (int j = 0; j < el.n; j++) { run2("fp_binary", sel, a, el.v[j]); run2("fp_binary", sel, el.v[j], a); }
				for (long d = 0; d < 256; d += (d < 4 || d > 250) ? 1 : 23) { mpz_set_si(b, d); run2("fp_dig", sel, a, b); }
				if (x < 8 || x > p - 8 || x % 257 == 0) for (int j = 0; j < ex.n; j++) run2("fp_exp", sel, a, ex.v[j]);
			}
			/* every exponent in [-2p, 2p] on a few bases (small primes only), complete double-width reductions for p <= 1009 */
			if (p <= 1009) {
				for (long e = -2 * p; e <= 2 * p; e++) if (vf_mine()) { mpz_set_si(b, e); for (long x = 0; x < 8; x++) { mpz_set_si(a, x == 7 ? p - 1 : x); run2("fp_exp", sel, a, b); } }
				for (long t = 0; t < p * 65536L; t += (vf_tier ? 1 : 7)) if (vf_mine()) { mpz_set_si(a, t); run1("fp_rdc", sel, a); }
			} else {
				for (int i = 0; i < el.n; i++) for (int j = 0; j < el.n; j++) if (vf_mine()) { mpz_mul(a, el.v[i], el.v[j]); run1("fp_rdc", sel, a); mpz_mul_2exp(a, el.v[i], 16); mpz_add(a, a, el.v[j]); run1("fp_rdc", sel, a); }
			}
			vf_dom_clear(&el); vf_dom_clear(&ex);
		}
		vf_bound_done("tiny-complete-fields");
	}
	if (vf_tier && vf_bound_on("tiny-every-2digit-prime")) {
		/* every prime in [257, 65536): all residues through every unary operation, alphabet for binary ones */
		for (long p = 257; p < 65536 && !vf_expired(); p += 2) {
			mpz_set_si(sel, p); if (!mpz_probab_prime_p(sel, 20)) continue;
			if (!vf_mine()) continue;
			/* the case runs first: it selects the prime itself, so that a set-up that hangs or crashes is attributed to a replayable case */
			K.op = "fp_consts"; K.n = 1; mpz_set(K.v[0], sel); vf_run(&K);
			if (!select_prime(sel)) { printf("@INFO prime %ld refused\n", p); continue; }
			vf_stat_add("x.primes_complete", 1);
			vf_dom el; vf_dom_init(&el); elem_alphabet(&el, 4);
			for (long x = 0; x < p; x++) { vf_stat_add("states", 1); mpz_set_si(a, x); run1("fp_unary", sel, a); if (x % 64 == 0 || x > p - 3) for (int j = 0; j < el.n; j++) run2("fp_binary", sel, a, el.v[j]); }
			vf_dom_clear(&el);
		}
		vf_bound_done("tiny-every-2digit-prime");
	}
#else
	/* shipped sizes: every prime selectable in this world */
#if FP_PRIME == 256
	static const int IDS[] = {NIST_256, BSI_256, SECG_256, SM2_256, BN_256, SM9_256};
#elif FP_PRIME == 255
	static const int IDS[] = {PRIME_25519, PRIME_H2ADC};
#elif FP_PRIME == 381
	static const int IDS[] = {B12_381};
#else
	static const int IDS[] = {0};
#endif
	for (unsigned pi = 0; pi < sizeof IDS / sizeof *IDS; pi++) {
		char bn[64]; snprintf(bn, sizeof bn, "w64-alphabet-param-%d", IDS[pi]);
		if (!vf_bound_on(bn)) continue;
		mpz_set_si(sel, IDS[pi]);
		if (!select_prime(sel)) { vf_fail(NULL, "fp_param_set refused"); continue; }
		vf_dom el, ex, big; vf_dom_init(&el); vf_dom_init(&ex); vf_dom_init(&big);
		elem_alphabet(&el, 48); exps_alphabet(&ex); elem_alphabet(&big, vf_tier ? 20000 : 1500);
		if (vf_mine()) { K.op = "fp_consts"; K.n = 1; mpz_set(K.v[0], sel); vf_run(&K); }
		for (int i = 0; i < big.n && !vf_expired(); i++) if (vf_mine()) { vf_stat_add("states", 1); run1("fp_unary", sel, big.v[i]); }
		for (int i = 0; i < el.n && !vf_expired(); i++) if (vf_mine()) {
			for (int j = 0; j < el.n; j++) {
				run2("fp_binary", sel, el.v[i], el.v[j]);
				mpz_mul(a, el.v[i], el.v[j]); run1("fp_rdc", sel, a);
			}
			for (int j = 0; j < ex.n; j++) if (i % 4 == 0 || vf_tier) run2("fp_exp", sel, el.v[i], ex.v[j]);
			static const unsigned long long DG[] = {0, 1, 2, 3, 0xFF, 0xFFFFFFFFULL, 0x100000000ULL, 0x7FFFFFFFFFFFFFFFULL, 0x8000000000000000ULL, 0xFFFFFFFFFFFFFFFFULL};
			for (unsigned j = 0; j < sizeof DG / sizeof *DG; j++) { mpz_set_ui(b, (unsigned long)(DG[j] >> 32)); mpz_mul_2exp(b, b, 32); mpz_add_ui(b, b, (unsigned long)(DG[j] & 0xffffffffULL)); run2("fp_dig", sel, el.v[i], b); }
		}
		vf_dom_clear(&el); vf_dom_clear(&ex); vf_dom_clear(&big);
		vf_bound_done(bn);
	}
#endif
	vf_stat_add("transitions", transitions);
	mpz_clears(sel, a, b, NULL);
}

VF_MAIN()
