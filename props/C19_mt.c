/*
 * C19 (d) -- threads each using their own context (MULTI=PTHREAD build).
 *
 * Controlled mode (the deciding step): the workers are real pthreads, but only the holder of a baton runs; a schedule is the sequence of baton
 * holders at step granularity (a step = one API-level action: core_init, a parameter selection, the observation battery, a throw, err_get_code,
 * core_clean). EVERY interleaving of the workers' programs is enumerated (2 threads x 5 steps: C(10,5) = 252; 3 threads x 3 steps: 1680;
 * thorough adds 2 x 6); the sequence of observations of each thread must equal the one it produces when its program runs alone in a thread.
 * Determinism of the controlled runs is asserted by replaying one schedule twice.
 * Free-running mode (job under ThreadSanitizer, and without): the same thread bodies run with no baton (a cooperative scheduler's hand-offs are
 * happens-before edges that would blind the detector); observations must still equal the solo ones, and any data-race report fails the run.
 * Case args: ctl: program set, schedule (base-N digits: which thread moves at each step); free: program set, repetition.
 */
#include "ctx_battery.h"
#include <pthread.h>

#define MAXT 3
#define MAXS 8
/* step codes: i init, 0..5 select prime curve, b battery, t throw, g get_code, c clean, B binary curve battery after selecting NIST_B283 */
static const char *SETS[][MAXT] = {{"i0btg", "i4bgb", NULL}, {"i5tbg", "i2bbc", NULL}, {"i1b", "i3t", "i4b"}, {"i0bgtc", "i4btgb", NULL}, {"iBbtg", "i5bBb", NULL}};
static int nthreads(int set) { int n = 0; while (n < MAXT && SETS[set][n]) n++; return n; }

static pthread_mutex_t MU = PTHREAD_MUTEX_INITIALIZER; static pthread_cond_t CV = PTHREAD_COND_INITIALIZER;
static int baton = -1;          /* id of the thread allowed to run its next step; -1: nobody; -2: free-running */
static int sched[64], nsched, spos; static int done_steps[MAXT];
typedef struct { int id; const char *prog; uint64_t obs[MAXS * 2]; int nobs; int controlled; } worker;

static void do_step(worker *w, char op, int *have_ep, int *have_eb) {
	int th;
	switch (op) { case 'i': if (core_init() != RLC_OK) { w->obs[w->nobs++] = 0xdead; } *have_ep = *have_eb = 0; break; case 'c': core_clean(); *have_ep = *have_eb = 0; break;
		case 'b': w->obs[w->nobs++] = (*have_ep || *have_eb) ? battery(*have_ep, *have_eb) : 1; break; case 't': th = 0; RLC_TRY { RLC_THROW(ERR_NO_VALID); } RLC_CATCH_ANY { th = 1; } w->obs[w->nobs++] = 100 + (uint64_t)th; break;
		case 'g': w->obs[w->nobs++] = 200 + (uint64_t)err_get_code(); break; case 'B': sel_eb(0); *have_eb = 1; break; default: sel_ep(op - '0'); *have_ep = 1; break; }
}
static void *body(void *arg) {
	worker *w = arg; int have_ep = 0, have_eb = 0; int n = (int)strlen(w->prog);
	for (int s = 0; s < n; s++) {
		if (w->controlled) { pthread_mutex_lock(&MU); while (baton != w->id) pthread_cond_wait(&CV, &MU); pthread_mutex_unlock(&MU); }
		do_step(w, w->prog[s], &have_ep, &have_eb);
		if (w->controlled) { pthread_mutex_lock(&MU); done_steps[w->id]++; baton = -1; pthread_cond_broadcast(&CV); pthread_mutex_unlock(&MU); }
	}
	/* a thread that did not end with core_clean cleans up so that its thread-local context does not outlive it in an odd state */
	if (n && w->prog[n - 1] != 'c') core_clean();
	return NULL;
}
/* solo observations per (set, thread): computed once, each in its own thread */
static worker SOLO[8][MAXT]; static int solo_ok[8];
static void solo(int set) { if (solo_ok[set]) return; int n = nthreads(set); for (int t = 0; t < n; t++) { worker *w = &SOLO[set][t]; memset(w, 0, sizeof *w); w->id = t; w->prog = SETS[set][t]; w->controlled = 0; pthread_t th; pthread_create(&th, NULL, body, w); pthread_join(th, NULL); } solo_ok[set] = 1; }
static void compare(int set, worker *ws, const char *how) { int n = nthreads(set); for (int t = 0; t < n; t++) { worker *s = &SOLO[set][t], *w = &ws[t]; transitions++;
		if (w->nobs != s->nobs || memcmp(w->obs, s->obs, sizeof(uint64_t) * (size_t)s->nobs)) { int i = 0; while (i < w->nobs && i < s->nobs && w->obs[i] == s->obs[i]) i++; vf_fail(NULL, "thread %d (program %s) observes something else at its observation %d %s than when it runs alone", t, s->prog, i, how); } } }
/* run one controlled schedule; returns 0 if the schedule is not a complete interleaving */
static int run_controlled(int set, const int *sc, int ns, worker *ws) {
	int n = nthreads(set); pthread_t th[MAXT]; memset(done_steps, 0, sizeof done_steps); baton = -1;
	for (int t = 0; t < n; t++) { memset(&ws[t], 0, sizeof ws[t]); ws[t].id = t; ws[t].prog = SETS[set][t]; ws[t].controlled = 1; pthread_create(&th[t], NULL, body, &ws[t]); }
	for (int i = 0; i < ns; i++) { pthread_mutex_lock(&MU); baton = sc[i]; pthread_cond_broadcast(&CV); while (baton != -1) pthread_cond_wait(&CV, &MU); pthread_mutex_unlock(&MU); transitions++; }
	for (int t = 0; t < n; t++) pthread_join(th[t], NULL);
	return 1;
}
static void do_ctl(vf_case *c) {
	int set = (int)mpz_get_si(c->v[0]); int n = nthreads(set), len[MAXT], tot = 0; for (int t = 0; t < n; t++) { len[t] = (int)strlen(SETS[set][t]); tot += len[t]; }
	int sc[64], cnt[MAXT] = {0, 0, 0}; mpz_t v; mpz_init_set(v, c->v[1]); for (int i = 0; i < tot; i++) { sc[i] = (int)mpz_fdiv_ui(v, (unsigned long)n); mpz_fdiv_q_ui(v, v, (unsigned long)n); cnt[sc[i]]++; } mpz_clear(v);
	for (int t = 0; t < n; t++) if (cnt[t] != len[t]) return; /* not an interleaving of the programs */
	solo(set); worker ws[MAXT]; run_controlled(set, sc, tot, ws); compare(set, ws, "under this schedule");
	/* replay determinism, asserted on a sample of schedules */
	if (mpz_fdiv_ui(c->v[1], 37) == 0) { worker w2[MAXT]; run_controlled(set, sc, tot, w2); for (int t = 0; t < n; t++) if (w2[t].nobs != ws[t].nobs || memcmp(w2[t].obs, ws[t].obs, sizeof(uint64_t) * (size_t)ws[t].nobs)) vf_fail(NULL, "harness: replaying the same schedule gives different observations (thread %d): uncontrolled nondeterminism", t); }
}
static void do_free(vf_case *c) {
	int set = (int)mpz_get_si(c->v[0]); int n = nthreads(set); solo(set); worker ws[MAXT]; pthread_t th[MAXT];
	for (int t = 0; t < n; t++) { memset(&ws[t], 0, sizeof ws[t]); ws[t].id = t; ws[t].prog = SETS[set][t]; ws[t].controlled = 0; pthread_create(&th[t], NULL, body, &ws[t]); }
	for (int t = 0; t < n; t++) pthread_join(th[t], NULL); transitions += (unsigned long long)n; compare(set, ws, "when all threads run freely");
}
static void harness_setup(void) { /* the main thread owns a context of its own, never used by the workers */ if (core_init() != RLC_OK) exit(2); }
static void run_case(vf_case *c) { vf_nontrivial(); if (!strcmp(c->op, "ctl")) do_ctl(c); else if (!strcmp(c->op, "free")) do_free(c); else vf_fail(NULL, "unknown op"); }
static vf_case K;
static void enumerate(void) {
	vf_case_init(&K);
#ifdef C19_FREE_ONLY
	if (vf_bound_on("free-running")) { for (int set = 0; set < 5; set++) for (int rep = 0; rep < (vf_tier ? 40 : 12); rep++) if (vf_mine()) { K.op = "free"; K.n = 2; mpz_set_si(K.v[0], set); mpz_set_si(K.v[1], rep); vf_stat_add("states", 1); vf_run(&K); } vf_bound_done("free-running"); }
#else
	int nsets = vf_tier ? 5 : 3;
	for (int set = 0; set < nsets; set++) { char bn[48]; snprintf(bn, sizeof bn, "all-interleavings-program-set-%d", set); if (!vf_bound_on(bn)) continue; int n = nthreads(set), tot = 0; for (int t = 0; t < n; t++) tot += (int)strlen(SETS[set][t]);
		/* odometer over base-n strings of length tot; do_ctl keeps exactly the interleavings */
		mpz_t lim, idx; mpz_inits(lim, idx, NULL); mpz_ui_pow_ui(lim, (unsigned long)n, (unsigned long)tot);
		for (mpz_set_ui(idx, 0); mpz_cmp(idx, lim) < 0 && !vf_expired(); mpz_add_ui(idx, idx, 1)) { /* cheap pre-filter: digit counts */ int cnt[MAXT] = {0, 0, 0}; mpz_t v; mpz_init_set(v, idx); for (int i = 0; i < tot; i++) { cnt[mpz_fdiv_ui(v, (unsigned long)n)]++; mpz_fdiv_q_ui(v, v, (unsigned long)n); } mpz_clear(v); int ok = 1; for (int t = 0; t < n; t++) if (cnt[t] != (int)strlen(SETS[set][t])) ok = 0; if (!ok) continue;
			if (!vf_mine()) continue; K.op = "ctl"; K.n = 2; mpz_set_si(K.v[0], set); mpz_set(K.v[1], idx); vf_stat_add("states", 1); vf_run(&K); }
		mpz_clears(lim, idx, NULL); vf_bound_done(bn); }
	if (vf_bound_on("free-running")) { for (int set = 0; set < nsets; set++) for (int rep = 0; rep < 6; rep++) if (vf_mine()) { K.op = "free"; K.n = 2; mpz_set_si(K.v[0], set); mpz_set_si(K.v[1], rep); vf_run(&K); } vf_bound_done("free-running"); }
#endif
	vf_stat_add("transitions", transitions);
}
VF_MAIN()
