/*
 * C06 -- encryption, key agreement and sharing invert correctly; bad input is rejected.
 *
 * Cases fix (scheme, key size / curve, DRBG seed, plaintext spec); each case walks its whole battery:
 *   RSA-OAEP: round trip for the given plaintext length (EVERY length 0..max+2 is enumerated), OpenSSL decrypts the library's ciphertext, and for every
 *     mutated ciphertext (one bit per byte, c -> 0, 1, N-1, N, c+N, length +-1) the library's verdict and plaintext must equal OpenSSL's (RSAES-OAEP,
 *     SHA-256, MGF1-SHA-256, empty label);
 *   Rabin, Benaloh, Paillier (cp_phpe), generalised (cp_ghpe, s = 1, 2) and subgroup (cp_shpe) Paillier: decrypt(encrypt(m)) = m over plaintext alphabets
 *     (0, 1, 2, n-1, n-2, n/2, 2^k boundaries; EVERY residue for Benaloh), homomorphic sums incl. wrap-around (expected (m1 + m2) mod n by GMP);
 *   ECIES: every plaintext length 0..66: round trip; every byte of ciphertext and tag flipped, truncated, ephemeral point -> other point / identity: error and
 *     nothing written beyond out_len; too-short output buffers;
 *   ECDH, ECMQV: both parties derive the same key, equal to KDF2-SHA-256 of the x-coordinate of the shared point computed by the reference group law;
 *   BF-IBE, BGN: round trips and homomorphisms over small plaintexts;
 *   Shamir sharing: every (k, n), 1 <= k <= n <= 5, EVERY k-subset reconstructs, every (k-1)-subset is checked NOT to be forced to reconstruct;
 *   multiplication triples: product of shares.
 */
#include "pc_common.h"
#include "ref_hash.h"
#include <openssl/evp.h>
#include <openssl/rsa.h>
#include <openssl/bn.h>
#pragma GCC diagnostic ignored "-Wdeprecated-declarations"

static void harness_setup(void) { if (core_init() != RLC_OK) exit(2); vf_reseed(); tiny_curves_setup(); ep2_common_setup(); }
static void seed_drbg(unsigned long s) { uint8_t seed[64]; for (int i = 0; i < 64; i++) seed[i] = (uint8_t)(i * 7 + 1 + s * 31 + (s >> 3) * i); core_get()->seeded = 0; rand_seed(seed, sizeof seed); }
static void fill(uint8_t *m, size_t len, unsigned pat) { for (size_t i = 0; i < len; i++) m[i] = (uint8_t)(pat == 0 ? 0 : pat == 1 ? 0xFF : pat == 2 ? (i ? 0xFF : 0) : (i * 7 + pat)); }
static unsigned long long njudged = 0;
#define CHECK(cond, ...) do { transitions++; njudged++; if (!(cond)) vf_fail(NULL, __VA_ARGS__); } while (0)

/* ---------------------------------------------------------------- RSA-OAEP vs OpenSSL */
static EVP_PKEY *ossl_priv(const rsa_t prv, const rsa_t pub) { mpz_t n, e, d; mpz_inits(n, e, d, NULL); vf_bn_get(n, prv->crt->n); vf_bn_get(e, pub->e); vf_bn_get(d, prv->d); char *hn = mpz_get_str(NULL, 16, n), *he = mpz_get_str(NULL, 16, e), *hd = mpz_get_str(NULL, 16, d);
	BIGNUM *bn = NULL, *be = NULL, *bd = NULL; BN_hex2bn(&bn, hn); BN_hex2bn(&be, he); BN_hex2bn(&bd, hd); RSA *r = RSA_new(); RSA_set0_key(r, bn, be, bd); EVP_PKEY *pk = EVP_PKEY_new(); EVP_PKEY_assign_RSA(pk, r); free(hn); free(he); free(hd); mpz_clears(n, e, d, NULL); return pk; }
static int ossl_oaep_dec(EVP_PKEY *pk, uint8_t *out, size_t *ol, const uint8_t *in, size_t il) { EVP_PKEY_CTX *cx = EVP_PKEY_CTX_new(pk, NULL); int ok = 0;
	if (EVP_PKEY_decrypt_init(cx) == 1 && EVP_PKEY_CTX_set_rsa_padding(cx, RSA_PKCS1_OAEP_PADDING) == 1 && EVP_PKEY_CTX_set_rsa_oaep_md(cx, EVP_sha256()) == 1 && EVP_PKEY_CTX_set_rsa_mgf1_md(cx, EVP_sha256()) == 1) ok = EVP_PKEY_decrypt(cx, out, ol, in, il) == 1;
	EVP_PKEY_CTX_free(cx); return ok; }
/* rsa: bits, seed, plaintext length, pattern */
static void do_rsa(vf_case *c) {
	size_t bits = mpz_get_ui(c->v[0]); unsigned long seed = mpz_get_ui(c->v[1]); size_t len = mpz_get_ui(c->v[2]); unsigned pat = (unsigned)mpz_get_ui(c->v[3]);
	static rsa_t pub, prv; static size_t kbits = 0; static unsigned long kseed = ~0UL; static EVP_PKEY *pk = NULL; int th, v;
	if (kbits != bits || kseed != seed) { rsa_null(pub); rsa_null(prv); rsa_new(pub); rsa_new(prv); seed_drbg(seed); VF_TRY(th, v = cp_rsa_gen(pub, prv, bits)); if (th || v != RLC_OK) { vf_fail(NULL, "cp_rsa_gen(%zu) failed", bits); return; } kbits = bits; kseed = seed; if (pk) EVP_PKEY_free(pk); pk = ossl_priv(prv, pub); }
	size_t k = (size_t)bn_size_bin(pub->crt->n), max = k - 66; uint8_t *pt = malloc(len + 8), *ct = malloc(k + 24), *out = malloc(k + 24), *o2 = malloc(k + 24), *c2 = malloc(k + 24); fill(pt, len, pat); size_t cl = k, ol, ol2;
	memset(ct, 0xA5, k + 24); seed_drbg(seed * 77 + len); VF_TRY(th, v = cp_rsa_enc(ct, &cl, pt, len, pub));
	if (len > max) { CHECK(!th && v != RLC_OK, "cp_rsa_enc accepts a %zu-byte plaintext although %zu is the maximum for a %zu-byte modulus", len, max, k); goto done; }
	if (len == 0 && !th && v != RLC_OK) { vf_stat_add("x.rsa_empty_plaintext_refused", 1); goto done; } /* relic's own contract: plaintexts of 1 .. k - 2 hLen - 2 bytes (DESIGN O7) */
	if (th || v != RLC_OK) { vf_fail(NULL, "cp_rsa_enc failed for a %zu-byte plaintext (max %zu)", len, max); goto done; }
	CHECK(cl == k, "cp_rsa_enc: ciphertext length %zu instead of the modulus length %zu", cl, k); for (int i = 0; i < 8; i++) if (ct[k + i] != 0xA5) { vf_fail(NULL, "cp_rsa_enc wrote beyond the capacity it was given"); break; }
	memset(out, 0xA5, k + 24); ol = len; VF_TRY(th, v = cp_rsa_dec(out, &ol, ct, cl, prv)); CHECK(!th && v == RLC_OK && ol == len && !memcmp(out, pt, len), "cp_rsa_dec(cp_rsa_enc(m)) != m for a %zu-byte plaintext into an exact-size buffer (returned %d, length %zu)", len, v, ol);
	for (int i = 0; i < 8; i++) if (out[len + i] != 0xA5) { vf_fail(NULL, "cp_rsa_dec wrote beyond the capacity it was given"); break; }
	ol2 = k; CHECK(ossl_oaep_dec(pk, o2, &ol2, ct, cl) && ol2 == len && !memcmp(o2, pt, len), "OpenSSL does not decrypt the library's ciphertext to the plaintext (RSAES-OAEP, SHA-256, MGF1-SHA-256, empty label)");
	/* exact-size and too-short output buffers */
	if (len) { ol = len - 1; memset(out, 0xA5, k + 24); VF_TRY(th, v = cp_rsa_dec(out, &ol, ct, cl, prv)); CHECK(th || v != RLC_OK, "cp_rsa_dec succeeds into a buffer one byte too short: short buffer not refused"); for (size_t i = len - 1; i < len + 7; i++) if (out[i] != 0xA5) { vf_fail(NULL, "cp_rsa_dec wrote beyond a too-short buffer"); break; } }
	/* mutated ciphertexts: verdict and plaintext must equal OpenSSL's */
	#define RSAMUT(CT, CL, DESC) do { memset(out, 0xA5, k + 24); ol = k; VF_TRY(th, v = cp_rsa_dec(out, &ol, CT, CL, prv)); ol2 = k; int ok2 = (CL == k) ? ossl_oaep_dec(pk, o2, &ol2, CT, CL) : 0; int ok1 = !th && v == RLC_OK; \
		CHECK(ok1 == ok2, "cp_rsa_dec %s a ciphertext that OpenSSL %s: %s", ok1 ? "accepts" : "rejects", ok2 ? "accepts" : "rejects", DESC); if (ok1 && ok2) CHECK(ol == ol2 && !memcmp(out, o2, ol), "cp_rsa_dec and OpenSSL decrypt %s to different plaintexts", DESC); } while (0)
	if (vf_tier || len % 2 == 0 || len == max || len <= 1) { char desc[96];
		for (size_t b = 0; b < cl; b += (vf_tier ? 1 : 3)) { memcpy(c2, ct, cl); c2[b] ^= (uint8_t)(1u << (b % 8)); snprintf(desc, sizeof desc, "byte %zu with one bit flipped", b); RSAMUT(c2, cl, desc); }
		mpz_t N, C, t; mpz_inits(N, C, t, NULL); vf_bn_get(N, pub->crt->n); mpz_import(C, cl, 1, 1, 0, 0, ct);
		#define PUT(T) do { memset(c2, 0, k); size_t nn = (mpz_sizeinbase(T, 2) + 7) / 8; if (mpz_sgn(T) && nn <= k) mpz_export(c2 + k - nn, NULL, 1, 1, 0, 0, T); } while (0)
		mpz_set_ui(t, 0); PUT(t); RSAMUT(c2, k, "the ciphertext 0"); mpz_set_ui(t, 1); PUT(t); RSAMUT(c2, k, "the ciphertext 1"); mpz_sub_ui(t, N, 1); PUT(t); RSAMUT(c2, k, "the ciphertext N - 1"); PUT(N); RSAMUT(c2, k, "the ciphertext N");
		mpz_add(t, C, N); if ((mpz_sizeinbase(t, 2) + 7) / 8 <= k) { PUT(t); RSAMUT(c2, k, "ciphertext + N (same length)"); }
		memcpy(c2 + 1, ct, cl); c2[0] = 0; RSAMUT(c2, cl + 1, "the ciphertext with a zero byte prepended"); RSAMUT(ct, cl - 1, "the ciphertext truncated by one byte");
		mpz_clears(N, C, t, NULL); }
done:
	free(pt); free(ct); free(out); free(o2); free(c2);
}

/* ---------------------------------------------------------------- additively homomorphic schemes */
static void alphabet(vf_dom *D, const mpz_t n) { mpz_t t; mpz_init(t); vf_dom_add_si(D, 0); vf_dom_add_si(D, 1); vf_dom_add_si(D, 2); mpz_sub_ui(t, n, 1); vf_dom_add(D, t); mpz_sub_ui(t, n, 2); vf_dom_add(D, t); mpz_fdiv_q_2exp(t, n, 1); vf_dom_add_near(D, t, 0);
	for (unsigned k = 63; k <= 65; k++) { mpz_set_ui(t, 1); mpz_mul_2exp(t, t, k); if (mpz_cmp(t, n) < 0) vf_dom_add(D, t); } mpz_set_ui(t, 0xDEADBEEF); mpz_mul(t, t, t); mpz_mod(t, t, n); vf_dom_add(D, t); vf_dom_uniq(D); mpz_clear(t); }
/* he: scheme (0 phpe, 1 ghpe s=1, 2 ghpe s=2, 3 shpe, 4 rabin, 5 bdpe), bits, seed */
static void do_he(vf_case *c) {
	int sch = (int)mpz_get_si(c->v[0]); size_t bits = mpz_get_ui(c->v[1]); unsigned long seed = mpz_get_ui(c->v[2]); int th, v; seed_drbg(seed);
	bn_t m, ct, ct2, r, pubn, prvb; bn_new(m); bn_new(ct); bn_new(ct2); bn_new(r); bn_new(pubn); bn_new(prvb); mpz_t N, M, t; mpz_inits(N, M, t, NULL); vf_dom D; vf_dom_init(&D);
	if (sch == 0) { phpe_t prv; phpe_null(prv); phpe_new(prv); VF_TRY(th, v = cp_phpe_gen(pubn, prv, bits)); if (th || v != RLC_OK) { vf_fail(NULL, "cp_phpe_gen failed"); return; } vf_bn_get(N, pubn); alphabet(&D, N);
		for (int i = 0; i < D.n; i++) { vf_bn_set(m, D.v[i]); VF_TRY(th, v = cp_phpe_enc(ct, m, pubn)); if (th || v != RLC_OK) { vf_fail(NULL, "cp_phpe_enc failed"); continue; } VF_TRY(th, v = cp_phpe_dec(r, ct, prv)); vf_bn_get(M, r); CHECK(!th && v == RLC_OK && !mpz_cmp(M, D.v[i]), "cp_phpe_dec(cp_phpe_enc(m)) != m");
			for (int j = 0; j < D.n; j++) { vf_bn_set(m, D.v[j]); VF_TRY(th, v = cp_phpe_enc(ct2, m, pubn)); VF_TRY(th, v = cp_phpe_add(ct2, ct, ct2, pubn)); VF_TRY(th, v = cp_phpe_dec(r, ct2, prv)); vf_bn_get(M, r); mpz_add(t, D.v[i], D.v[j]); mpz_mod(t, t, N); CHECK(!th && v == RLC_OK && !mpz_cmp(M, t), "cp_phpe_add: decrypts to something else than (m1 + m2) mod n"); } }
		/* plaintext n and n + 1: outside the message space */
		vf_bn_set(m, N); VF_TRY(th, v = cp_phpe_enc(ct, m, pubn)); if (!th && v == RLC_OK) { VF_TRY(th, v = cp_phpe_dec(r, ct, prv)); vf_bn_get(M, r); CHECK(mpz_sgn(M) == 0 || th || v != RLC_OK, "cp_phpe: plaintext n is neither refused nor reduced"); }
	} else if (sch == 1 || sch == 2) { size_t s = (size_t)sch; if (s == 2) bits = 320; /* n^3 arithmetic must fit the configured precision */ VF_TRY(th, v = cp_ghpe_gen(pubn, prvb, bits)); if (th || v != RLC_OK) { vf_fail(NULL, "cp_ghpe_gen failed"); return; } vf_bn_get(N, pubn); mpz_pow_ui(t, N, s); mpz_set(N, t); alphabet(&D, N);
		for (int i = 0; i < D.n; i++) { vf_bn_set(m, D.v[i]); VF_TRY(th, v = cp_ghpe_enc(ct, m, pubn, s)); if (th || v != RLC_OK) { vf_fail(NULL, "cp_ghpe_enc(s=%zu) failed", s); continue; } VF_TRY(th, v = cp_ghpe_dec(r, ct, pubn, prvb, s)); vf_bn_get(M, r); CHECK(!th && v == RLC_OK && !mpz_cmp(M, D.v[i]), "cp_ghpe_dec(cp_ghpe_enc(m)) != m for s = %zu", s); }
	} else if (sch == 3) { shpe_t pub, prv; shpe_null(pub); shpe_null(prv); shpe_new(pub); shpe_new(prv); VF_TRY(th, v = cp_shpe_gen(pub, prv, bits / 4, bits)); if (th || v != RLC_OK) { vf_fail(NULL, "cp_shpe_gen failed"); return; } vf_bn_get(N, pub->crt->n); alphabet(&D, N);
		for (int i = 0; i < D.n; i++) { vf_bn_set(m, D.v[i]); VF_TRY(th, v = cp_shpe_enc(ct, m, pub)); if (th || v != RLC_OK) { vf_fail(NULL, "cp_shpe_enc failed"); continue; } VF_TRY(th, v = cp_shpe_dec(r, ct, prv)); vf_bn_get(M, r); CHECK(!th && v == RLC_OK && !mpz_cmp(M, D.v[i]), "cp_shpe_dec(cp_shpe_enc(m)) != m");
			VF_TRY(th, v = cp_shpe_enc_prv(ct, m, prv)); if (!th && v == RLC_OK) { VF_TRY(th, v = cp_shpe_dec(r, ct, prv)); vf_bn_get(M, r); CHECK(!th && v == RLC_OK && !mpz_cmp(M, D.v[i]), "cp_shpe_dec(cp_shpe_enc_prv(m)) != m"); } }
	} else if (sch == 4) { rabin_t pub, prv; rabin_null(pub); rabin_null(prv); rabin_new(pub); rabin_new(prv); VF_TRY(th, v = cp_rabin_gen(pub, prv, bits)); if (th || v != RLC_OK) { vf_fail(NULL, "cp_rabin_gen failed"); return; } size_t k = (size_t)bn_size_bin(pub->n);
		uint8_t pt[300], ctb[300], out[300]; for (size_t len = 1; len + 12 <= k && len < 200; len += (len < 4 || len + 16 > k ? 1 : 7)) for (unsigned pat = 0; pat < 4; pat++) { fill(pt, len, pat); size_t cl = sizeof ctb, ol = sizeof out; VF_TRY(th, v = cp_rabin_enc(ctb, &cl, pt, len, pub)); if (th || v != RLC_OK) { vf_stat_add("x.rabin_enc_refused", 1); continue; }
			VF_TRY(th, v = cp_rabin_dec(out, &ol, ctb, cl, prv)); CHECK(!th && v == RLC_OK && ol == len && !memcmp(out, pt, len), "cp_rabin_dec(cp_rabin_enc(m)) != m for a %zu-byte plaintext pattern %u (returned %d, length %zu)", len, pat, v, ol); }
	} else { dig_t blocks[] = {2, 3, 5, 251, 257}; for (unsigned bi = 0; bi < 5; bi++) { bdpe_t pub, prv; bdpe_null(pub); bdpe_null(prv); bdpe_new(pub); bdpe_new(prv); VF_TRY(th, v = cp_bdpe_gen(pub, prv, blocks[bi], bits)); if (blocks[bi] == 2) { CHECK(th || v != RLC_OK, "cp_bdpe_gen accepts the block size 2 (no odd prime q has gcd(2, q-1) = 1)"); continue; } if (th || v != RLC_OK) { vf_fail(NULL, "cp_bdpe_gen(block %u) failed", (unsigned)blocks[bi]); continue; }
			uint8_t ctb[300]; for (dig_t x = 0; x < blocks[bi]; x++) { size_t cl = sizeof ctb; dig_t o = 99999; VF_TRY(th, v = cp_bdpe_enc(ctb, &cl, x, pub)); if (th || v != RLC_OK) { vf_fail(NULL, "cp_bdpe_enc(%u) failed", (unsigned)x); continue; } VF_TRY(th, v = cp_bdpe_dec(&o, ctb, cl, prv)); CHECK(!th && v == RLC_OK && o == x, "cp_bdpe_dec(cp_bdpe_enc(%u)) = %u for block %u", (unsigned)x, (unsigned)o, (unsigned)blocks[bi]); }
			} }
	vf_dom_clear(&D); mpz_clears(N, M, t, NULL);
}

/* ---------------------------------------------------------------- ECIES / ECDH / ECMQV */
static void ref_kdf_x(uint8_t *key, size_t kl, const mpz_t x, int bouncy) { uint8_t xb[RLC_FC_BYTES + 2]; size_t l = (mpz_sizeinbase(x, 2) + 7) / 8; if (!mpz_sgn(x)) l = 1; memset(xb, 0, sizeof xb); size_t off = 0; if (bouncy && mpz_sizeinbase(x, 2) % 8 == 0) off = 1; if (mpz_sgn(x)) mpz_export(xb + off, NULL, 1, 1, 0, 0, x); ref_ctr_kdf(key, kl, xb, l + off, 1); }
/* ec: kind (0 ecies, 1 ecdh, 2 ecmqv), cid, seed, length */
static void do_ec(vf_case *c) {
	int kind = (int)mpz_get_si(c->v[0]); long cid = mpz_get_si(c->v[1]); unsigned long seed = mpz_get_ui(c->v[2]); size_t len = mpz_get_ui(c->v[3]); if (!select_curve(cid)) { vf_fail(NULL, "curve refused"); return; } int th, v; seed_drbg(seed);
	bn_t da, db, ea, eb2; ec_t qa, qb, ra, rb, r, r2; bn_new(da); bn_new(db); bn_new(ea); bn_new(eb2); ec_new(qa); ec_new(qb); ec_new(ra); ec_new(rb); ec_new(r); ec_new(r2); mpz_t d, t; mpz_inits(d, t, NULL); rpt Q, S; rpt_init(&Q); rpt_init(&S);
	if (kind == 0) { VF_TRY(th, v = cp_ecies_gen(da, qa)); if (th || v != RLC_OK) { vf_fail(NULL, "cp_ecies_gen failed"); return; } uint8_t pt[128], ct[256], out[256], c2[256]; fill(pt, len, 3); size_t cap = (len / 16 + 1) * 16 + RLC_MD_LEN, cl = cap, ol; memset(ct, 0xA5, sizeof ct);
		VF_TRY(th, v = cp_ecies_enc(r, ct, &cl, pt, len, qa)); if (th || v != RLC_OK) { if (len == 0) vf_stat_add("x.ecies_empty_plaintext_refused", 1); else vf_fail(NULL, "cp_ecies_enc failed for a %zu-byte plaintext", len); return; }
		for (int i = 0; i < 8; i++) if (ct[cap + i] != 0xA5) { vf_fail(NULL, "cp_ecies_enc wrote beyond the capacity it was given"); break; }
		memset(out, 0xA5, sizeof out); ol = sizeof out - 8; VF_TRY(th, v = cp_ecies_dec(out, &ol, r, ct, cl, da)); CHECK(!th && v == RLC_OK && ol == len && !memcmp(out, pt, len), "cp_ecies_dec(cp_ecies_enc(m)) != m for a %zu-byte plaintext (returned %d, length %zu)", len, v, ol);
		for (size_t b = 0; b < cl; b++) { memcpy(c2, ct, cl); c2[b] ^= (uint8_t)(1u << (b % 8)); memset(out, 0xA5, sizeof out); ol = sizeof out - 8; VF_TRY(th, v = cp_ecies_dec(out, &ol, r, c2, cl, da)); CHECK(th || v != RLC_OK, "cp_ecies_dec accepts a ciphertext with byte %zu of %zu altered (%s)", b, cl, b + 32 >= cl ? "tag" : "body"); }
		for (size_t cut = 1; cut <= 33 && cut <= cl; cut += 16) { ol = sizeof out - 8; VF_TRY(th, v = cp_ecies_dec(out, &ol, r, ct, cl - cut, da)); CHECK(th || v != RLC_OK, "cp_ecies_dec accepts a ciphertext truncated by %zu bytes", cut); }
		ec_dbl(r2, r); ec_norm(r2, r2); ol = sizeof out - 8; VF_TRY(th, v = cp_ecies_dec(out, &ol, r2, ct, cl, da)); CHECK(th || v != RLC_OK, "cp_ecies_dec accepts a different ephemeral point");
		ec_set_infty(r2); ol = sizeof out - 8; VF_TRY(th, v = cp_ecies_dec(out, &ol, r2, ct, cl, da)); CHECK(th || v != RLC_OK, "cp_ecies_dec accepts the identity as ephemeral point");
		if (len) { memset(out, 0xA5, sizeof out); ol = len - 1; VF_TRY(th, v = cp_ecies_dec(out, &ol, r, ct, cl, da)); CHECK(th || v != RLC_OK, "cp_ecies_dec succeeds into a buffer one byte too short: short buffer not refused"); for (size_t i = len - 1; i < len + 24; i++) if (out[i] != 0xA5) { vf_fail(NULL, "cp_ecies_dec wrote beyond a too-short buffer (offset %zu, capacity %zu)", i, len - 1); break; } }
		{ size_t small = cl - 1; VF_TRY(th, v = cp_ecies_enc(r2, c2, &small, pt, len, qa)); CHECK(th || v != RLC_OK, "cp_ecies_enc succeeds into a buffer one byte too short: short buffer not refused"); }
	} else if (kind == 1) { VF_TRY(th, v = cp_ecdh_gen(da, qa)); VF_TRY(th, v = cp_ecdh_gen(db, qb)); uint8_t k1[80], k2[80], kr[80]; size_t kl = len; memset(k1, 0xA5, sizeof k1); memset(k2, 0x5A, sizeof k2);
		VF_TRY(th, v = cp_ecdh_key(k1, kl, da, qb)); int e1 = th || v != RLC_OK; VF_TRY(th, v = cp_ecdh_key(k2, kl, db, qa)); int e2 = th || v != RLC_OK; CHECK(!e1 && !e2, "cp_ecdh_key failed (key length %zu)", kl); if (e1 || e2) return;
		CHECK(!memcmp(k1, k2, kl), "ECDH: the two parties derive different keys"); for (int i = 0; i < 8; i++) if (k1[kl + i] != 0xA5) { vf_fail(NULL, "cp_ecdh_key wrote beyond the requested key length"); break; }
		ep_extract(&Q, qb); vf_bn_get(d, da); rpt_mul(&RC, &S, &Q, RH); rpt_mul(&RC, &S, &S, d); ref_kdf_x(kr, kl, S.x, 0); CHECK(!memcmp(k1, kr, kl), "ECDH: key differs from KDF2-SHA-256 of the x-coordinate of [h d_A]Q_B computed by the reference");
		ec_set_infty(r2); VF_TRY(th, v = cp_ecdh_key(k1, kl, da, r2)); CHECK(th || v != RLC_OK, "cp_ecdh_key accepts the identity as peer key");
	} else { VF_TRY(th, v = cp_ecmqv_gen(da, qa)); VF_TRY(th, v = cp_ecmqv_gen(db, qb)); VF_TRY(th, v = cp_ecmqv_gen(ea, ra)); VF_TRY(th, v = cp_ecmqv_gen(eb2, rb)); uint8_t k1[80], k2[80]; size_t kl = len;
		VF_TRY(th, v = cp_ecmqv_key(k1, kl, da, ea, ra, qb, rb)); int e1 = th || v != RLC_OK; VF_TRY(th, v = cp_ecmqv_key(k2, kl, db, eb2, rb, qa, ra)); int e2 = th || v != RLC_OK; CHECK(!e1 && !e2, "cp_ecmqv_key failed"); if (!e1 && !e2) CHECK(!memcmp(k1, k2, kl), "ECMQV: the two parties derive different keys");
		/* reference: s = (d2 + xbar(Q2u) d1) mod n, P = [s](Q2v + [xbar(Q2v)]Q1v) */
		if (!e1) { rpt RA, QB, RB, P; rpt_init(&RA); rpt_init(&QB); rpt_init(&RB); rpt_init(&P); ep_extract(&RA, ra); ep_extract(&QB, qb); ep_extract(&RB, rb); mpz_t s, xa, xb, d1, d2; mpz_inits(s, xa, xb, d1, d2, NULL); vf_bn_get(d1, da); vf_bn_get(d2, ea); size_t l = (mpz_sizeinbase(RN, 2) + 1) / 2;
			mpz_fdiv_r_2exp(xa, RA.x, l); mpz_setbit(xa, l); mpz_fdiv_r_2exp(xb, RB.x, l); mpz_setbit(xb, l); mpz_mul(s, xa, d1); mpz_add(s, s, d2); mpz_mod(s, s, RN); rpt_mul(&RC, &P, &QB, xb); rpt_add(&RC, &P, &P, &RB); rpt_mul(&RC, &P, &P, s); uint8_t kr[80]; ref_kdf_x(kr, kl, P.x, 0); CHECK(!memcmp(k1, kr, kl), "ECMQV: key differs from the KDF of the reference shared point"); mpz_clears(s, xa, xb, d1, d2, NULL); } }
	mpz_clears(d, t, NULL);
}

/* ---------------------------------------------------------------- pairing-based encryption: BF-IBE, BGN */
/* pe: kind (0 ibe, 1 bgn), cid, seed, param */
static void do_pe(vf_case *c) {
	int kind = (int)mpz_get_si(c->v[0]); long cid = mpz_get_si(c->v[1]); unsigned long seed = mpz_get_ui(c->v[2]); size_t par = mpz_get_ui(c->v[3]); if (!select_pc(cid)) { vf_fail(NULL, "parameter set refused"); return; } int th, v; seed_drbg(seed);
	if (kind == 0) { bn_t master; g1_t pub; g2_t prv, prv2; bn_new(master); g1_new(pub); g2_new(prv); g2_new(prv2); VF_TRY(th, v = cp_ibe_gen(master, pub)); VF_TRY(th, v = cp_ibe_gen_prv(prv, "alice@example", master)); VF_TRY(th, v = cp_ibe_gen_prv(prv2, "bob@example", master)); if (th || v != RLC_OK) { vf_fail(NULL, "cp_ibe_gen_prv failed"); return; }
		size_t len = par; uint8_t pt[100], ct[600], out[600]; fill(pt, len, 3); size_t cap = 2 * RLC_FP_BYTES + 1 + len, cl = cap, ol = sizeof out; memset(ct, 0xA5, sizeof ct); VF_TRY(th, v = cp_ibe_enc(ct, &cl, pt, len, "alice@example", pub));
		if (len > RLC_MD_LEN) { CHECK(th || v != RLC_OK, "cp_ibe_enc accepts %zu bytes although one hash block (%d) is the documented maximum", len, RLC_MD_LEN); return; }
		if (th || v != RLC_OK) { if (len == 0) vf_stat_add("x.ibe_empty_plaintext_refused", 1); else vf_fail(NULL, "cp_ibe_enc failed for %zu bytes", len); return; }
		for (int i = 0; i < 8; i++) if (ct[cap + i] != 0xA5) { vf_fail(NULL, "cp_ibe_enc wrote beyond the capacity it was given"); break; }
		{ uint8_t c3[600]; size_t small = cap - 1; memset(c3, 0xA5, sizeof c3); VF_TRY(th, v = cp_ibe_enc(c3, &small, pt, len, "alice@example", pub)); CHECK(th || v != RLC_OK, "cp_ibe_enc succeeds into a buffer one byte too short: short buffer not refused"); for (int i = 0; i < 8; i++) if (c3[cap - 1 + i] != 0xA5) { vf_fail(NULL, "cp_ibe_enc wrote beyond a too-short buffer"); break; } }
		VF_TRY(th, v = cp_ibe_dec(out, &ol, ct, cl, prv)); CHECK(!th && v == RLC_OK && ol == len && !memcmp(out, pt, len), "cp_ibe_dec(cp_ibe_enc(m)) != m for a %zu-byte plaintext", len);
		ol = sizeof out; VF_TRY(th, v = cp_ibe_dec(out, &ol, ct, cl, prv2)); CHECK(th || v != RLC_OK || ol != len || memcmp(out, pt, len), "cp_ibe_dec recovers the plaintext with another identity's key");
		if (len) { ol = len - 1; VF_TRY(th, v = cp_ibe_dec(out, &ol, ct, cl, prv)); CHECK(th || v != RLC_OK, "cp_ibe_dec succeeds into a buffer one byte too short: short buffer not refused"); }
	} else { bgn_t pub, prv; bgn_null(pub); bgn_null(prv); bgn_new(pub); bgn_new(prv); VF_TRY(th, v = cp_bgn_gen(pub, prv)); if (th || v != RLC_OK) { vf_fail(NULL, "cp_bgn_gen failed"); return; } g1_t c1[2], c1b[2]; g2_t c2[2], c2b[2]; gt_t e[4], f[4], g[4]; for (int i = 0; i < 2; i++) { g1_new(c1[i]); g1_new(c1b[i]); g2_new(c2[i]); g2_new(c2b[i]); } for (int i = 0; i < 4; i++) { gt_new(e[i]); gt_new(f[i]); gt_new(g[i]); }
		dig_t a = (dig_t)(par % 17), b = (dig_t)(par / 17 % 17), o = 9999;
		VF_TRY(th, v = cp_bgn_enc1(c1, a, pub)); VF_TRY(th, v = cp_bgn_dec1(&o, (const g1_t *)c1, prv)); CHECK(!th && v == RLC_OK && o == a, "cp_bgn_dec1(cp_bgn_enc1(%u)) = %u", (unsigned)a, (unsigned)o);
		VF_TRY(th, v = cp_bgn_enc2(c2, b, pub)); VF_TRY(th, v = cp_bgn_dec2(&o, (const g2_t *)c2, prv)); CHECK(!th && v == RLC_OK && o == b, "cp_bgn_dec2(cp_bgn_enc2(%u)) = %u", (unsigned)b, (unsigned)o);
		VF_TRY(th, v = cp_bgn_mul(e, (const g1_t *)c1, (const g2_t *)c2)); VF_TRY(th, v = cp_bgn_dec(&o, (const gt_t *)e, prv)); CHECK(!th && v == RLC_OK && o == a * b, "cp_bgn_mul: decrypts to %u instead of %u * %u", (unsigned)o, (unsigned)a, (unsigned)b);
		VF_TRY(th, v = cp_bgn_enc1(c1b, b, pub)); VF_TRY(th, v = cp_bgn_enc2(c2b, a, pub)); VF_TRY(th, v = cp_bgn_mul(f, (const g1_t *)c1b, (const g2_t *)c2b)); VF_TRY(th, v = cp_bgn_add(g, (const gt_t *)e, (const gt_t *)f)); VF_TRY(th, v = cp_bgn_dec(&o, (const gt_t *)g, prv)); CHECK(!th && v == RLC_OK && o == 2 * a * b, "cp_bgn_add: decrypts to %u instead of 2 * %u * %u", (unsigned)o, (unsigned)a, (unsigned)b); }
}

/* ---------------------------------------------------------------- Shamir sharing and multiplication triples */
/* sss: k, n, secret selector, seed */
static void do_sss(vf_case *c) {
	size_t k = mpz_get_ui(c->v[0]), n = mpz_get_ui(c->v[1]); int sel = (int)mpz_get_si(c->v[2]); unsigned long seed = mpz_get_ui(c->v[3]); int th, v; seed_drbg(seed);
	if (!select_curve(NIST_P256)) return; bn_t ord, key, rec, x[5], y[5], sx[5], sy[5]; bn_new(ord); bn_new(key); bn_new(rec); for (int i = 0; i < 5; i++) { bn_new(x[i]); bn_new(y[i]); bn_new(sx[i]); bn_new(sy[i]); } ec_curve_get_ord(ord);
	if (sel == 0) bn_zero(key); else if (sel == 1) bn_set_dig(key, 1); else if (sel == 2) bn_sub_dig(key, ord, 1); else bn_rand_mod(key, ord);
	VF_TRY(th, v = mpc_sss_gen(x, y, key, ord, k, n)); if (k == 1 && !th && v != RLC_OK) { vf_stat_add("x.sss_threshold_one_refused", 1); return; } if (th || v != RLC_OK) { vf_fail(NULL, "mpc_sss_gen(k=%zu, n=%zu) failed", k, n); return; }
	for (size_t i = 0; i < n; i++) for (size_t j = i + 1; j < n; j++) CHECK(bn_cmp(x[i], x[j]) != RLC_EQ && !bn_is_zero(x[i]), "mpc_sss_gen: share indexes repeat or are zero");
	for (unsigned mask = 1; mask < (1u << n); mask++) { size_t cnt = 0; for (size_t i = 0; i < n; i++) if (mask & (1u << i)) { bn_copy(sx[cnt], x[i]); bn_copy(sy[cnt], y[i]); cnt++; }
		if (cnt == k) { VF_TRY(th, v = mpc_sss_key(rec, (const bn_t *)sx, (const bn_t *)sy, ord, k)); CHECK(!th && v == RLC_OK && bn_cmp(rec, key) == RLC_EQ, "mpc_sss_key: the %zu-subset %x of %zu shares does not reconstruct the secret", k, mask, n); }
		if (cnt == k + 1 && cnt <= n) { VF_TRY(th, v = mpc_sss_key(rec, (const bn_t *)sx, (const bn_t *)sy, ord, cnt)); CHECK(!th && v == RLC_OK && bn_cmp(rec, key) == RLC_EQ, "mpc_sss_key: %zu shares (one more than the threshold) do not reconstruct the secret", cnt); } }
	/* Lagrange against GMP on the first k shares */
	{ mpz_t q, acc, num, den, xi, xj, yi, s; mpz_inits(q, acc, num, den, xi, xj, yi, s, NULL); vf_bn_get(q, ord); for (size_t i = 0; i < k; i++) { vf_bn_get(xi, x[i]); vf_bn_get(yi, y[i]); mpz_set_ui(num, 1); mpz_set_ui(den, 1); for (size_t j = 0; j < k; j++) if (j != i) { vf_bn_get(xj, x[j]); mpz_mul(num, num, xj); mpz_sub(s, xj, xi); mpz_mul(den, den, s); } mpz_mod(den, den, q); mpz_invert(den, den, q); mpz_mul(num, num, den); mpz_mul(num, num, yi); mpz_add(acc, acc, num); } mpz_mod(acc, acc, q); vf_bn_get(s, key); CHECK(!mpz_cmp(acc, s), "mpc_sss_gen: the shares do not interpolate to the secret at 0 (GMP Lagrange)"); mpz_clears(q, acc, num, den, xi, xj, yi, s, NULL); }
}
/* mt: x selector, y selector, seed */
static void do_mt(vf_case *c) {
	int sx = (int)mpz_get_si(c->v[0]), sy = (int)mpz_get_si(c->v[1]); unsigned long seed = mpz_get_ui(c->v[2]); seed_drbg(seed); if (!select_curve(NIST_P256)) return; int th;
	bn_t ord, x[2], y[2], d[2], e[2], r[2], X, Y, t; mt_t tri[2]; bn_new(ord); bn_new(X); bn_new(Y); bn_new(t); for (int i = 0; i < 2; i++) { bn_new(x[i]); bn_new(y[i]); bn_new(d[i]); bn_new(e[i]); bn_new(r[i]); mt_null(tri[i]); mt_new(tri[i]); } ec_curve_get_ord(ord);
	#define SEL(B, S) do { if (S == 0) bn_zero(B); else if (S == 1) bn_set_dig(B, 1); else if (S == 2) bn_sub_dig(B, ord, 1); else bn_rand_mod(B, ord); } while (0)
	SEL(X, sx); SEL(Y, sy); bn_rand_mod(x[0], ord); bn_sub(x[1], X, x[0]); bn_mod(x[1], x[1], ord); bn_rand_mod(y[0], ord); bn_sub(y[1], Y, y[0]); bn_mod(y[1], y[1], ord);
	VF_TRY(th, mpc_mt_gen(tri, ord)); if (th) { vf_fail(NULL, "mpc_mt_gen raised"); return; }
	{ bn_add(t, tri[0]->a, tri[1]->a); bn_mod(t, t, ord); bn_t u, w; bn_new(u); bn_new(w); bn_add(u, tri[0]->b, tri[1]->b); bn_mod(u, u, ord); bn_mul(t, t, u); bn_mod(t, t, ord); bn_add(w, tri[0]->c, tri[1]->c); bn_mod(w, w, ord); CHECK(bn_cmp(t, w) == RLC_EQ, "mpc_mt_gen: shares of c do not add to (a0 + a1)(b0 + b1)"); }
	for (int i = 0; i < 2; i++) VF_TRY(th, mpc_mt_lcl(d[i], e[i], x[i], y[i], ord, tri[i])); VF_TRY(th, mpc_mt_bct(d, e, ord)); for (int i = 0; i < 2; i++) VF_TRY(th, mpc_mt_mul(r[i], d[i], e[i], ord, tri[i], i));
	bn_add(t, r[0], r[1]); bn_mod(t, t, ord); mpz_t a, b, m, q; mpz_inits(a, b, m, q, NULL); vf_bn_get(a, X); vf_bn_get(b, Y); vf_bn_get(q, ord); mpz_mul(a, a, b); mpz_mod(a, a, q); vf_bn_get(m, t); CHECK(!mpz_cmp(a, m), "multiplication triple protocol: shares do not add to x y mod q"); mpz_clears(a, b, m, q, NULL);
}

/* sok: cid, id index a, id index b, key length: both parties of the Sakai-Ohgishi-Kasahara key agreement derive the same key; a third identity derives another */
static const char *IDS[] = {"Alice", "Bob", "Al", "Alicf", "alice", "A", "node-1", "node-10", "node-2", "Bob ", "", "Alice@example.org"};
static void do_sok(vf_case *c) {
	long cid = mpz_get_si(c->v[0]); int ia = (int)mpz_get_si(c->v[1]), ib = (int)mpz_get_si(c->v[2]); size_t kl = mpz_get_ui(c->v[3]); if (!select_pc(cid)) { vf_fail(NULL, "parameter set refused"); return; } int th, v; seed_drbg(3);
	bn_t master; bn_new(master); sokaka_t ka, kb, kc; sokaka_null(ka); sokaka_null(kb); sokaka_null(kc); sokaka_new(ka); sokaka_new(kb); sokaka_new(kc); VF_TRY(th, v = cp_sokaka_gen(master)); if (th || v != RLC_OK) { vf_fail(NULL, "cp_sokaka_gen failed"); return; }
	VF_TRY(th, v = cp_sokaka_gen_prv(ka, IDS[ia], master)); int ea = th || v != RLC_OK; VF_TRY(th, v = cp_sokaka_gen_prv(kb, IDS[ib], master)); int eb = th || v != RLC_OK; if (ea || eb) { if (!IDS[ia][0] || !IDS[ib][0]) { vf_stat_add("x.sok_empty_identity_refused", 1); return; } vf_fail(NULL, "cp_sokaka_gen_prv failed"); return; }
	uint8_t k1[80], k2[80], k3[80]; memset(k1, 0xA5, sizeof k1); memset(k2, 0x5A, sizeof k2); VF_TRY(th, v = cp_sokaka_key(k1, kl, IDS[ia], ka, IDS[ib])); int e1 = th || v != RLC_OK; VF_TRY(th, v = cp_sokaka_key(k2, kl, IDS[ib], kb, IDS[ia])); int e2 = th || v != RLC_OK;
	if (!strcmp(IDS[ia], IDS[ib])) { CHECK(e1 && e2, "cp_sokaka_key accepts two equal identities (documented as invalid)"); return; }
	CHECK(!e1 && !e2, "cp_sokaka_key failed for the identities \"%s\" and \"%s\"", IDS[ia], IDS[ib]); if (e1 || e2) return;
	CHECK(!memcmp(k1, k2, kl), "SOK key agreement: \"%s\" and \"%s\" derive different keys", IDS[ia], IDS[ib]); for (int i = 0; i < 8; i++) if (k1[kl + i] != 0xA5) { vf_fail(NULL, "cp_sokaka_key wrote beyond the requested key length"); break; }
	/* a third party with its own key does not get the same key */
	int ic = (ia + ib + 1) % 10; if (ic != ia && ic != ib && IDS[ic][0] && kl >= 16) { VF_TRY(th, v = cp_sokaka_gen_prv(kc, IDS[ic], master)); VF_TRY(th, v = cp_sokaka_key(k3, kl, IDS[ic], kc, IDS[ib])); if (!th && v == RLC_OK) CHECK(memcmp(k3, k1, kl) != 0, "SOK: a third identity derives the key shared by two others"); }
}

static void run_case(vf_case *c) {
	vf_nontrivial(); if (!vf_replaying) vf_stat_add("states", 1);
	if (!strcmp(c->op, "rsa")) do_rsa(c); else if (!strcmp(c->op, "he")) do_he(c); else if (!strcmp(c->op, "ec")) do_ec(c); else if (!strcmp(c->op, "pe")) do_pe(c); else if (!strcmp(c->op, "sss")) do_sss(c); else if (!strcmp(c->op, "mt")) do_mt(c); else if (!strcmp(c->op, "sok")) do_sok(c); else vf_fail(NULL, "unknown op");
}
static vf_case K;
static void enumerate(void) {
	vf_case_init(&K);
	static const int EC[] = {NIST_P256, BSI_P256, SECG_K256, SM2_P256, BN_P256, SM9_P256}; static const int PC[] = {BN_P256, SM9_P256};
	if (vf_bound_on("rsa-oaep")) { static const long BITS[] = {768, 1024, 896}; /* 2048-bit RSA does not fit the configured precision (BN_PRECI = 1024) */ for (int bi = 0; bi < (vf_tier ? 3 : 2); bi++) { long k = BITS[bi] / 8, max = k - 66; for (long len = 0; len <= max + 2; len++) for (long pat = 0; pat < 4; pat++) if (vf_mine()) { K.op = "rsa"; K.n = 4; mpz_set_si(K.v[0], BITS[bi]); mpz_set_si(K.v[1], 0); mpz_set_si(K.v[2], len); mpz_set_si(K.v[3], pat); vf_run(&K); } } vf_bound_done("rsa-oaep"); }
	if (vf_bound_on("homomorphic")) { for (int sch = 0; sch < 6; sch++) for (int sd = 0; sd < (vf_tier ? 6 : 2); sd++) for (int bi = 0; bi < 2; bi++) { if (bi && sch < 4) continue; /* n^2 arithmetic of the Paillier family fits the configured precision only up to 512-bit moduli */ if (vf_mine()) { K.op = "he"; K.n = 3; mpz_set_si(K.v[0], sch); mpz_set_si(K.v[1], bi ? 1024 : 512); mpz_set_si(K.v[2], sd); vf_run(&K); } } vf_bound_done("homomorphic"); }
	if (vf_bound_on("ecies-ecdh-ecmqv")) { for (unsigned ci = 0; ci < 6; ci++) for (int sd = 0; sd < (vf_tier ? 3 : 1); sd++) { for (long len = 0; len <= 66; len += (vf_tier || ci == 0 ? 1 : 2)) if (vf_mine()) { K.op = "ec"; K.n = 4; mpz_set_si(K.v[0], 0); mpz_set_si(K.v[1], EC[ci]); mpz_set_si(K.v[2], sd); mpz_set_si(K.v[3], len); vf_run(&K); }
			static const long KL[] = {1, 16, 32, 33, 64, 65}; for (int kind = 1; kind <= 2; kind++) for (int ki = 0; ki < 6; ki++) for (int s2 = 0; s2 < (vf_tier ? 16 : 6); s2++) if (vf_mine()) { K.op = "ec"; K.n = 4; mpz_set_si(K.v[0], kind); mpz_set_si(K.v[1], EC[ci]); mpz_set_si(K.v[2], sd * 10 + s2); mpz_set_si(K.v[3], KL[ki]); vf_run(&K); } } vf_bound_done("ecies-ecdh-ecmqv"); }
	if (vf_bound_on("pairing-encryption")) { for (unsigned ci = 0; ci < 2; ci++) { for (long len = 0; len <= 40; len += (vf_tier ? 1 : 4)) if (vf_mine()) { K.op = "pe"; K.n = 4; mpz_set_si(K.v[0], 0); mpz_set_si(K.v[1], PC[ci]); mpz_set_si(K.v[2], 0); mpz_set_si(K.v[3], len); vf_run(&K); }
			for (long par = 0; par < 17 * 17; par += (vf_tier ? 1 : 7)) if (vf_mine()) { K.op = "pe"; K.n = 4; mpz_set_si(K.v[0], 1); mpz_set_si(K.v[1], PC[ci]); mpz_set_si(K.v[2], 0); mpz_set_si(K.v[3], par); vf_run(&K); } } vf_bound_done("pairing-encryption"); }
	if (vf_bound_on("sok-key-agreement")) { for (unsigned ci = 0; ci < 2; ci++) for (int a = 0; a < 12; a++) for (int b = 0; b < 12; b++) { if (!vf_tier && ci && (a + b) % 3) continue; if (vf_mine()) { K.op = "sok"; K.n = 4; mpz_set_si(K.v[0], PC[ci]); mpz_set_si(K.v[1], a); mpz_set_si(K.v[2], b); mpz_set_si(K.v[3], (a * 7 + b) % 3 == 0 ? 16 : (a + b) % 2 ? 32 : 33); vf_run(&K); } } vf_bound_done("sok-key-agreement"); }
	if (vf_bound_on("sharing")) { for (long n = 1; n <= 5; n++) for (long k = 1; k <= n; k++) for (int sel = 0; sel < 4; sel++) for (int sd = 0; sd < (vf_tier ? 3 : 1); sd++) if (vf_mine()) { K.op = "sss"; K.n = 4; mpz_set_si(K.v[0], k); mpz_set_si(K.v[1], n); mpz_set_si(K.v[2], sel); mpz_set_si(K.v[3], sd); vf_run(&K); }
		for (int sx = 0; sx < 4; sx++) for (int sy = 0; sy < 4; sy++) for (int sd = 0; sd < (vf_tier ? 4 : 2); sd++) if (vf_mine()) { K.op = "mt"; K.n = 3; mpz_set_si(K.v[0], sx); mpz_set_si(K.v[1], sy); mpz_set_si(K.v[2], sd); vf_run(&K); } vf_bound_done("sharing"); }
	vf_stat_add("transitions", transitions); vf_stat_add("x.verdicts_judged", njudged);
}
VF_MAIN()
