/*
 * C19 (a) -- try / throw / catch / finally programs.
 *
 * Every program over the grammar
 *     Seq  := Stmt*
 *     Stmt := m (mark) | t (throw ERR_NO_VALID) | r (throw ERR_CAUGHT = rethrow) | g (err_get_code)
 *           | [a Seq | Seq ]  | [a Seq | Seq | Seq ]      TRY body CATCH_ANY handler [FINALLY fin]
 *           | [e Seq | Seq ]  | [e Seq | Seq | Seq ]      TRY body CATCH(var) handler [FINALLY fin]
 * up to a size and nesting bound is executed with the REAL macros (each TRY node is a C function containing
 * RLC_TRY / RLC_CATCH / RLC_FINALLY, so longjmp crosses real frames) from three initial contexts, and the
 * recorded trace is compared with a reference interpreter of structured-exception semantics:
 *   - no statement of a block runs after a throw in it; the nearest enclosing handler runs;
 *   - a throw from a handler or finaliser reaches the next enclosing handler;
 *   - every entered block's finaliser runs exactly once (relic runs it before the handler);
 *   - the handler chain (ctx->last) after the program is what it was before;
 *   - the sticky code reads RLC_ERR from the first throw until fetched, RLC_OK afterwards;
 *   - CATCH(var) receives the thrown code (a rethrow ERR_CAUGHT does not overwrite it).
 * The program is carried in the case as the integer whose base-256 digits are its text.
 */
#include "vf_relic.h"

#define MAXN 64
typedef struct node { char kind; /* m t r g A E */ int id; int nb, nh, nf, has_fin; struct node *b[8], *h[8], *f[8]; } node;
static node POOL[MAXN]; static int npool;
static unsigned long long transitions = 0;

static void harness_setup(void) { if (core_init() != RLC_OK) exit(2); }

/* ---------------------------------------------------------------- parser */
static const char *PP; static int parse_err;
static node *parse_stmt(void);
static int parse_seq(node **out) {
	int n = 0;
	while (*PP && *PP != '|' && *PP != ']') { if (n == 8) { parse_err = 1; return n; } out[n++] = parse_stmt(); if (parse_err) return n; }
	return n;
}
static node *parse_stmt(void) {
	if (npool == MAXN) { parse_err = 1; return &POOL[0]; }
	node *x = &POOL[npool]; memset(x, 0, sizeof *x); x->id = npool++;
	char ch = *PP++;
	if (ch == 'm' || ch == 't' || ch == 'r' || ch == 'g') { x->kind = ch; return x; }
	if (ch != '[') { parse_err = 1; return x; }
	x->kind = (*PP == 'a') ? 'A' : 'E'; PP++;
	x->nb = parse_seq(x->b); if (*PP != '|') { parse_err = 1; return x; } PP++;
	x->nh = parse_seq(x->h);
	if (*PP == '|') { PP++; x->has_fin = 1; x->nf = parse_seq(x->f); }
	if (*PP != ']') { parse_err = 1; return x; } PP++;
	return x;
}

/* ---------------------------------------------------------------- traces */
typedef struct { int n; int ev[512]; } trace;
static trace TI, TM; /* implementation, model */
static void rec(trace *t, int kind, int id, int val) { if (t->n < 510) t->ev[t->n++] = kind * 1000000 + id * 1000 + (val & 0x3FF); }
#define EV_MARK 1
#define EV_CODE 2
#define EV_HANDLER 3   /* handler entered, value = what CATCH(var) received (0 for CATCH_ANY) */
#define EV_FIN 4
#define EV_TOPCAUGHT 5

/* ---------------------------------------------------------------- implementation side: real macros */
static void ex_seq(node **s, int n);
static void ex_try_a(node *x) { RLC_TRY { ex_seq(x->b, x->nb); } RLC_CATCH_ANY { rec(&TI, EV_HANDLER, x->id, 0); ex_seq(x->h, x->nh); } }
static void ex_try_af(node *x) { RLC_TRY { ex_seq(x->b, x->nb); } RLC_CATCH_ANY { rec(&TI, EV_HANDLER, x->id, 0); ex_seq(x->h, x->nh); } RLC_FINALLY { rec(&TI, EV_FIN, x->id, 0); ex_seq(x->f, x->nf); } }
static void ex_try_e(node *x) { err_t e = (err_t)0; RLC_TRY { ex_seq(x->b, x->nb); } RLC_CATCH(e) { rec(&TI, EV_HANDLER, x->id, (int)e); ex_seq(x->h, x->nh); } }
static void ex_try_ef(node *x) { err_t e = (err_t)0; RLC_TRY { ex_seq(x->b, x->nb); } RLC_CATCH(e) { rec(&TI, EV_HANDLER, x->id, (int)e); ex_seq(x->h, x->nh); } RLC_FINALLY { rec(&TI, EV_FIN, x->id, 0); ex_seq(x->f, x->nf); } }
static void ex_stmt(node *x) {
	switch (x->kind) {
		case 'm': rec(&TI, EV_MARK, x->id, 0); break;
		case 't': RLC_THROW(ERR_NO_VALID); break;
		case 'r': RLC_THROW(ERR_CAUGHT); break;
		case 'g': rec(&TI, EV_CODE, x->id, err_get_code() == RLC_OK ? 0 : 1); break;
		case 'A': if (x->has_fin) ex_try_af(x); else ex_try_a(x); break;
		case 'E': if (x->has_fin) ex_try_ef(x); else ex_try_e(x); break;
	}
}
static void ex_seq(node **s, int n) { for (int i = 0; i < n; i++) ex_stmt(s[i]); }

/* ---------------------------------------------------------------- reference interpreter */
/* model state */
static int m_code;        /* sticky code: 0 ok, 1 error */
static int m_depth;       /* number of enclosing protected blocks (handler frames with block = 1) */
static int m_sentinel;    /* a throw outside any block installed the sentinel (chain non-empty, block = 0) */
static int *m_slot[32];   /* CATCH(var) slots of the enclosing blocks (NULL for CATCH_ANY) */
/* returns 1 if the sequence completed, 0 if a throw is propagating */
static int md_seq(node **s, int n);
static int md_throw(int code) {
	m_code = 1;
	if (m_depth == 0) { /* outside any block: documented behaviour = record and continue */ if (!m_sentinel) m_sentinel = 1; return 1; }
	if (m_slot[m_depth - 1] && code != (int)ERR_CAUGHT) *m_slot[m_depth - 1] = code;
	return 0;
}
static int md_stmt(node *x) {
	transitions++;
	switch (x->kind) {
		case 'm': rec(&TM, EV_MARK, x->id, 0); return 1;
		case 't': return md_throw((int)ERR_NO_VALID);
		case 'r': return md_throw((int)ERR_CAUGHT);
		case 'g': rec(&TM, EV_CODE, x->id, m_code); m_code = 0; return 1;
		default: {
			int var = 0;
			m_slot[m_depth] = x->kind == 'E' ? &var : NULL; m_depth++;
			int ok = md_seq(x->b, x->nb);
			m_depth--;                                   /* chain restored before finaliser and handler run */
			if (x->has_fin) { rec(&TM, EV_FIN, x->id, 0); if (!md_seq(x->f, x->nf)) return 0; /* a throw from the finaliser goes to the next enclosing handler */ }
			if (!ok) { rec(&TM, EV_HANDLER, x->id, var); if (!md_seq(x->h, x->nh)) return 0; }
			return 1;
		}
	}
}
static int md_seq(node **s, int n) { for (int i = 0; i < n; i++) if (!md_stmt(s[i])) return 0; return 1; }

/* ---------------------------------------------------------------- one case: args = program text as integer, initial context 0..2 */
static void run_case(vf_case *c) {
	char prog[256]; size_t cnt = 0; memset(prog, 0, sizeof prog);
	if (mpz_sizeinbase(c->v[0], 256) > 200) return;
	if (mpz_sgn(c->v[0])) mpz_export(prog, &cnt, 1, 1, 1, 0, c->v[0]);
	int ictx = (int)mpz_get_si(c->v[1]);
	npool = 0; parse_err = 0; PP = prog; node *top[8]; int ntop = parse_seq(top);
	if (parse_err || *PP) { vf_fail(NULL, "harness: program text does not parse"); return; }
	vf_nontrivial();
	ctx_t *ctx = core_get();
	/* initial context */
	ctx->last = NULL; ctx->code = RLC_OK; ctx->caught = 0;
	m_code = 0; m_depth = 0; m_sentinel = 0; TI.n = TM.n = 0;
	if (ictx == 1) { RLC_THROW(ERR_NO_PRECI); ctx->code = RLC_OK; m_sentinel = 1; }
	sts_t *before = ctx->last;
	if (ictx == 2) {
		/* inside an enclosing user block */
		volatile int caught_top = 0;
		RLC_TRY { ex_seq(top, ntop); } RLC_CATCH_ANY { caught_top = 1; rec(&TI, EV_TOPCAUGHT, 0, 0); }
		m_slot[0] = NULL; m_depth = 1; int ok = md_seq(top, ntop); m_depth = 0; if (!ok) rec(&TM, EV_TOPCAUGHT, 0, 0);
		(void)caught_top;
	} else {
		ex_seq(top, ntop);
		md_seq(top, ntop);
	}
	/* verdict */
	if (TI.n != TM.n || memcmp(TI.ev, TM.ev, sizeof(int) * (size_t)TI.n)) {
		int i = 0; while (i < TI.n && i < TM.n && TI.ev[i] == TM.ev[i]) i++;
		vf_fail(NULL, "trace: program \"%s\" (context %d) diverges from structured-exception semantics at event %d: implementation %d, model %d (lengths %d/%d)", prog, ictx, i, i < TI.n ? TI.ev[i] : -1, i < TM.n ? TM.ev[i] : -1, TI.n, TM.n);
	}
	sts_t *expect_last = before; if (ictx == 0 && m_sentinel) expect_last = &ctx->error;
	if (ctx->last != expect_last) vf_fail(NULL, "chain: program \"%s\" (context %d): handler chain after the program differs from before", prog, ictx);
	int code = err_get_code();
	if ((code != RLC_OK) != m_code) vf_fail(NULL, "code: program \"%s\" (context %d): sticky code reads %d, model says %d", prog, ictx, code != RLC_OK, m_code);
	if (err_get_code() != RLC_OK) vf_fail(NULL, "code: sticky code not reset by the read");
	ctx->last = NULL; ctx->code = RLC_OK;
}

/* ---------------------------------------------------------------- program enumeration: all programs with <= B statements, nesting <= D */
static vf_case K;
static char BUF[256];
static unsigned long long nprog = 0;
static int B_, D_;
static void emit(int len) {
	BUF[len] = 0;
	nprog++;
	for (int ictx = 0; ictx < 3; ictx++) if (vf_mine()) { K.op = "prog"; K.n = 2; mpz_import(K.v[0], (size_t)len, 1, 1, 1, 0, BUF); if (!len) mpz_set_ui(K.v[0], 0); mpz_set_si(K.v[1], ictx); vf_run(&K); }
}
/* continuation-passing enumeration: gen_seq fills BUF from pos with every sequence using at most `budget` statements, then calls k */
typedef void (*cont_fn)(int pos, int budget, void *env);
typedef struct frame { int stage; int depth; int fin; cont_fn k; void *env; } frame;
static void gen_seq(int pos, int budget, int depth, cont_fn k, void *env);
static void try_cont(int pos, int budget, void *envp) {
	frame *f = envp;
	if (f->stage == 0) { BUF[pos] = '|'; frame g = *f; g.stage = 1; gen_seq(pos + 1, budget, f->depth, try_cont, &g); }
	else if (f->stage == 1) { if (f->fin) { BUF[pos] = '|'; frame g = *f; g.stage = 2; gen_seq(pos + 1, budget, f->depth, try_cont, &g); } else { BUF[pos] = ']'; frame *o = f->env; gen_seq(pos + 1, budget, o->depth, o->k, o->env); } }
	else { BUF[pos] = ']'; frame *o = f->env; gen_seq(pos + 1, budget, o->depth, o->k, o->env); }
}
static void gen_seq(int pos, int budget, int depth, cont_fn k, void *env) {
	if (vf_expired()) return;
	k(pos, budget, env);                 /* end the sequence here */
	if (budget == 0 || pos > 200) return;
	static const char simple[] = "mtrg";
	for (int i = 0; i < 4; i++) { BUF[pos] = simple[i]; gen_seq(pos + 1, budget - 1, depth, k, env); }
	if (depth < D_) for (int kind = 0; kind < 2; kind++) for (int fin = 0; fin < 2; fin++) {
		BUF[pos] = '['; BUF[pos + 1] = kind ? 'e' : 'a';
		frame outer = {0, depth, 0, k, env};
		frame f = {0, depth + 1, fin, NULL, &outer};
		gen_seq(pos + 2, budget - 1, depth + 1, try_cont, &f);
	}
}
static void top_cont(int pos, int budget, void *env) { (void)budget; (void)env; emit(pos); }

static void enumerate(void) {
	vf_case_init(&K);
	int maxB = vf_tier ? 7 : 6; D_ = vf_tier ? 4 : 3;
	/* sizes completed in increasing order: a program with exactly <= b statements */
	for (int b = 0; b <= maxB; b++) {
		char bn[48]; snprintf(bn, sizeof bn, "programs-up-to-%d-statements-depth-%d", b, D_);
		if (b < maxB && b != 0 && b != 3) continue; /* bounds are nested: run the largest (plus two small ones as anchors) */
		if (!vf_bound_on(bn)) continue;
		B_ = b; nprog = 0;
		gen_seq(0, b, 0, top_cont, NULL);
		if (vf_shard == 0) { char key[64]; snprintf(key, sizeof key, "x.programs_up_to_%d", b); vf_stat_add(key, nprog); if (b == maxB) vf_stat_add("states", nprog * 3); }
		vf_bound_done(bn);
	}
	vf_stat_add("transitions", transitions);
}

VF_MAIN()
