/*
 * C03 -- prime-curve group law and every scalar multiplication equal [k]P.
 *
 * W8 (tiny): curves found by reference point counting and installed through ep_curve_set_plain/endom;
 *   complete Cayley tables, every scalar in [-2n-3, 2n+3] for every routine.
 * W64: every curve selectable at the built size, alphabets of points and scalars.
 * Case args: v[0] = curve id (tiny: index into the curve table; W64: ep_param_set identifier),
 *   points as (x, y) with x = -1 for the point at infinity.
 */
#include "ep_common.h"

static void harness_setup(void) {
	if (core_init() != RLC_OK) exit(2);
	vf_reseed();
	tiny_curves_setup();
}

static int ep_same(const ep_t a, const ep_t b) { return a->coord == b->coord && !memcmp(a->x, b->x, sizeof(fp_st)) && !memcmp(a->y, b->y, sizeof(fp_st)) && !memcmp(a->z, b->z, sizeof(fp_st)); }
/* ---------------------------------------------------------------- group law */
typedef void (*add_fn)(ep_t, const ep_t, const ep_t);
typedef void (*dbl_fn)(ep_t, const ep_t);
static void do_law(vf_case *c) {
	int th; rpt P, Q, S, D, N, M; rpt_init(&P); rpt_init(&Q); rpt_init(&S); rpt_init(&D); rpt_init(&N); rpt_init(&M);
	pt_from_args(&P, c->v[1], c->v[2]); pt_from_args(&Q, c->v[3], c->v[4]);
	rpt_add(&RC, &S, &P, &Q); rpt_neg(&RC, &N, &Q); rpt_add(&RC, &M, &P, &N); rpt_add(&RC, &D, &P, &P);
	ep_t p, q, r, sp, sq; ep_new(p); ep_new(q); ep_new(r); ep_new(sp); ep_new(sq);
	static const struct { const char *n; add_fn f; int rep; } ADD[] = {{"ep_add_basic", ep_add_basic, REP_AFF}, {"ep_add_projc", ep_add_projc, REP_PRJ}, {"ep_add_jacob", ep_add_jacob, REP_JAC}};
	static const struct { const char *n; dbl_fn f; int rep; } DBL[] = {{"ep_dbl_basic", ep_dbl_basic, REP_AFF}, {"ep_dbl_projc", ep_dbl_projc, REP_PRJ}, {"ep_dbl_jacob", ep_dbl_jacob, REP_JAC}};
	int same = rpt_eq(&P, &Q);
	/* known finding: the complete projective formulas (Renes-Costello-Batina) are complete only on odd-order curves;
	 * when P - Q is a point of order two they return Z = 0 */
	const char *kf_add = (!M.inf && mpz_sgn(M.y) == 0 && !P.inf && !Q.inf) ? "L27-projc-add-difference-of-order-two" : NULL;
	const char *kf_sub = (!S.inf && mpz_sgn(S.y) == 0 && !P.inf && !Q.inf) ? "L27-projc-add-difference-of-order-two" : NULL;
	for (int s = 0; s < 3; s++) {
		/* operand representations: affine or the system's own (scaled by 3 resp. 5 so that Z != 1) */
		for (int rp = 0; rp < (s ? 2 : 1); rp++) for (int rq = 0; rq < (s ? 2 : 1); rq++) for (int al = 0; al < 4; al++) {
			if (al == 3 && !same) continue; /* p == q object */
			ep_inject(p, &P, rp ? ADD[s].rep : REP_AFF, 3); ep_inject(q, &Q, rq ? ADD[s].rep : REP_AFF, 5);
			if (al == 3 && rp != rq) continue;
			ep_copy(sp, p); ep_copy(sq, q);
			ep_st *pp = p, *pq = al == 3 ? p : q, *pr = al == 1 ? p : al == 2 ? q : r;
			if (pr == r) { ep_set_infty(r); memset(r->x, 0x5A, sizeof(fp_st)); memset(r->y, 0x5A, sizeof(fp_st)); memset(r->z, 0x5A, sizeof(fp_st)); }
			VF_TRY(th, ADD[s].f(pr, pp, pq));
			if (th) { vf_fail(NULL, "%s raised %d (reps %d,%d alias %d)", ADD[s].n, th, rp, rq, al); continue; }
			char w[96]; snprintf(w, sizeof w, "%s[reps %d,%d alias %d]", ADD[s].n, rp, rq, al);
			expect_pt(w, pr, &S, 0, s == 1 ? kf_add : NULL);
			if (pr != p && !ep_same(p, sp)) vf_fail(NULL, "%s: first operand modified", w);
			if (pr != q && pq == q && !ep_same(q, sq)) vf_fail(NULL, "%s: second operand modified", w);
		}
		for (int rp = 0; rp < (s ? 2 : 1); rp++) for (int al = 0; al < 2; al++) {
			ep_inject(p, &P, rp ? DBL[s].rep : REP_AFF, 7);
			ep_st *pr = al ? p : r;
			VF_TRY(th, DBL[s].f(pr, p));
			if (th) { vf_fail(NULL, "%s raised %d", DBL[s].n, th); continue; }
			char w[96]; snprintf(w, sizeof w, "%s[rep %d alias %d]", DBL[s].n, rp, al);
			expect_pt(w, pr, &D, 0, NULL);
		}
	}
	/* default-system wrappers: sub, neg, norm, cmp, on_curve with the world's own representation */
#if EP_ADD == PROJC
	int drep = REP_PRJ;
#elif EP_ADD == JACOB
	int drep = REP_JAC;
#else
	int drep = REP_AFF;
#endif
	for (int rp = 0; rp < 2; rp++) for (int rq = 0; rq < 2; rq++) {
		ep_inject(p, &P, rp ? drep : REP_AFF, 9); ep_inject(q, &Q, rq ? drep : REP_AFF, 11);
		VF_TRY(th, ep_sub(r, p, q)); if (th) vf_fail(NULL, "ep_sub raised %d", th); else expect_pt("ep_sub", r, &M, 0, drep == REP_PRJ ? kf_sub : NULL);
		int e; VF_TRY(th, e = ep_cmp(p, q)); transitions++;
		if (th) vf_fail(NULL, "ep_cmp raised"); else if ((e == RLC_EQ) != same) vf_fail(NULL, "ep_cmp[reps %d,%d]: says %s for %s points", rp, rq, e == RLC_EQ ? "EQ" : "NE", same ? "equal" : "different");
	}
	for (int rp = 0; rp < 2; rp++) {
		ep_inject(p, &P, rp ? drep : REP_AFF, 13);
		VF_TRY(th, ep_neg(r, p)); rpt_neg(&RC, &N, &P); if (th) vf_fail(NULL, "ep_neg raised"); else expect_pt("ep_neg", r, &N, 0, NULL);
		VF_TRY(th, ep_norm(r, p)); if (th) vf_fail(NULL, "ep_norm raised %d", th); else expect_pt("ep_norm", r, &P, 1, NULL);
		int oc; VF_TRY(th, oc = ep_on_curve(p)); transitions++; if (th) vf_fail(NULL, "ep_on_curve raised"); else if (!oc) vf_fail(NULL, "ep_on_curve rejects a curve point (rep %d)", rp);
		ep_copy(r, p); VF_TRY(th, ep_norm(r, r)); if (!th) expect_pt("ep_norm(r==p)", r, &P, 1, NULL);
	}
	/* slope-returning affine forms */
	if (!P.inf && !Q.inf) {
		fp_t sl; fp_new(sl);
		ep_inject(p, &P, REP_AFF, 1); ep_inject(q, &Q, REP_AFF, 1);
		VF_TRY(th, ep_add_slp_basic(r, sl, p, q)); if (th) vf_fail(NULL, "ep_add_slp_basic raised %d", th); else expect_pt("ep_add_slp_basic", r, &S, 0, NULL);
		VF_TRY(th, ep_dbl_slp_basic(r, sl, p)); if (th) vf_fail(NULL, "ep_dbl_slp_basic raised %d", th); else expect_pt("ep_dbl_slp_basic", r, &D, 0, NULL);
	}
	/* off-curve neighbour must be rejected by ep_on_curve */
	if (!P.inf) { rpt X; rpt_init(&X); rpt_set(&X, &P); mpz_add_ui(X.y, X.y, 1); mpz_mod(X.y, X.y, RC.p); if (!rpt_on_curve(&RC, &X)) { ep_inject(p, &X, REP_AFF, 1); int oc; VF_TRY(th, oc = ep_on_curve(p)); transitions++; if (!th && oc) vf_fail(NULL, "ep_on_curve accepts an off-curve point"); } rpt_clear(&X); }
	rpt_clear(&P); rpt_clear(&Q); rpt_clear(&S); rpt_clear(&D); rpt_clear(&N); rpt_clear(&M);
}

/* ---------------------------------------------------------------- scalar multiplication */
typedef void (*mul_fn)(ep_t, const ep_t, const bn_t);
typedef void (*pre_fn)(ep_t *, const ep_t);
typedef void (*fix_fn)(ep_t, const ep_t *, const bn_t);
static ep_t TAB[4][RLC_EP_TABLE_MAX];
static int tab_ok[4];
static mpz_t tab_x, tab_y; static long tab_cid = -2; static int tab_init = 0;
static const struct { const char *n; pre_fn pre; fix_fn fix; } FIX[] = {
	{"ep_mul_fix_basic", ep_mul_pre_basic, ep_mul_fix_basic}, {"ep_mul_fix_combs", ep_mul_pre_combs, ep_mul_fix_combs},
	{"ep_mul_fix_combd", ep_mul_pre_combd, ep_mul_fix_combd}, {"ep_mul_fix_lwnaf", ep_mul_pre_lwnaf, ep_mul_fix_lwnaf}};

static void build_tables(const rpt *P) {
	if (!tab_init) { mpz_inits(tab_x, tab_y, NULL); tab_init = 1; for (int i = 0; i < 4; i++) for (int j = 0; j < RLC_EP_TABLE_MAX; j++) ep_new(TAB[i][j]); }
	if (tab_cid == cur_cid && !mpz_cmp(tab_x, P->x) && !mpz_cmp(tab_y, P->y)) return;
	ep_t p; ep_new(p); ep_inject(p, P, REP_AFF, 1);
	for (int i = 0; i < 4; i++) { int th; VF_TRY(th, FIX[i].pre(TAB[i], p)); tab_ok[i] = !th; }
	tab_cid = cur_cid; mpz_set(tab_x, P->x); mpz_set(tab_y, P->y);
}

static void do_mul(vf_case *c) {
	int th; rpt P, E; rpt_init(&P); rpt_init(&E);
	pt_from_args(&P, c->v[1], c->v[2]);
	const mpz_t *k = &c->v[3];
	rpt_mul(&RC, &E, &P, *k);
	bn_t bk; bn_new(bk); if (!vf_bn_set(bk, *k)) return;
	ep_t p, r; ep_new(p); ep_new(r);
	static const struct { const char *n; mul_fn f; } MUL[] = {{"ep_mul_basic", ep_mul_basic}, {"ep_mul_slide", ep_mul_slide}, {"ep_mul_monty", ep_mul_monty}, {"ep_mul_lwnaf", ep_mul_lwnaf}, {"ep_mul_lwreg", ep_mul_lwreg}};
#if EP_ADD == PROJC
	int drep = REP_PRJ;
#elif EP_ADD == JACOB
	int drep = REP_JAC;
#else
	int drep = REP_AFF;
#endif
	for (unsigned i = 0; i < sizeof MUL / sizeof *MUL; i++) for (int rp = 0; rp < 2; rp++) {
		if (rp && (drep == REP_AFF || P.inf)) continue;
		ep_inject(p, &P, rp ? drep : REP_AFF, 3);
		memset(r, 0x5A, sizeof(ep_st)); r->coord = BASIC;
		vf_reseed();
		VF_TRY(th, MUL[i].f(r, p, bk));
		char w[64]; snprintf(w, sizeof w, "%s[rep %d]", MUL[i].n, rp);
		if (th) { vf_fail(NULL, "%s raised %d", w, th); continue; }
		expect_pt(w, r, &E, 1, NULL);
		/* r == p */
		if (!rp) { ep_inject(p, &P, REP_AFF, 1); vf_reseed(); VF_TRY(th, MUL[i].f(p, p, bk)); if (!th) expect_pt(MUL[i].n, p, &E, 1, NULL); }
	}
	if (mpz_sgn(*k) >= 0 && mpz_sizeinbase(*k, 2) <= (size_t)VF_DIGB) {
		dig_t d = 0; mpz_export(&d, NULL, -1, sizeof(dig_t), 0, 0, *k);
		ep_inject(p, &P, REP_AFF, 1); VF_TRY(th, ep_mul_dig(r, p, d)); if (th) vf_fail(NULL, "ep_mul_dig raised %d", th); else expect_pt("ep_mul_dig", r, &E, 1, NULL);
	}
	/* tiny_exclusion: comb / fixed-base tables (also behind ep_mul_gen) are dimensioned as RLC_DEPTH * ceil(bits(n) / (2*RLC_DEPTH)) + 1 bits per
	 * sub-scalar; on a 10-bit GLV order that leaves no slack over sqrt(n) and one scalar class (k = 901 mod 967 on T8) does not fit, which
	 * cannot happen at 256 bits (131 bits of room for 128-bit sub-scalars). Tables are judged on curves whose order fills RLC_FP_BITS. */
	int tables_ok = !tiny || mpz_sizeinbase(RN, 2) == RLC_FP_BITS;
	/* generator forms */
	if (rpt_eq(&P, &RG) && tables_ok) { vf_reseed(); VF_TRY(th, ep_mul_gen(r, bk)); if (th) vf_fail(NULL, "ep_mul_gen raised %d", th); else expect_pt("ep_mul_gen", r, &E, 1, NULL); }
	/* fixed-base forms (tables cached per base point). Tables are only meaningful on curves whose order fills the field (tiny_exclusion otherwise) */
	if (!P.inf && tables_ok) {
		build_tables(&P);
		for (int i = 0; i < 4; i++) {
			if (!tab_ok[i]) { vf_fail(NULL, "%s: precomputation raised", FIX[i].n); continue; }
			VF_TRY(th, FIX[i].fix(r, (const ep_t *)TAB[i], bk));
			const char *kf = NULL;
			if (th) { vf_fail(kf, "%s raised %d", FIX[i].n, th); continue; }
			expect_pt(FIX[i].n, r, &E, 1, kf);
		}
	}
	rpt_clear(&P); rpt_clear(&E);
}

typedef void (*sim_fn)(ep_t, const ep_t, const bn_t, const ep_t, const bn_t);
static void do_sim(vf_case *c) {
	int th; rpt P, Q, E, T; rpt_init(&P); rpt_init(&Q); rpt_init(&E); rpt_init(&T);
	pt_from_args(&P, c->v[1], c->v[2]); pt_from_args(&Q, c->v[4], c->v[5]);
	rpt_mul(&RC, &E, &P, c->v[3]); rpt_mul(&RC, &T, &Q, c->v[6]); rpt_add(&RC, &E, &E, &T);
	bn_t bk, bm; bn_new(bk); bn_new(bm); if (!vf_bn_set(bk, c->v[3]) || !vf_bn_set(bm, c->v[6])) return;
	ep_t p, q, r; ep_new(p); ep_new(q); ep_new(r);
	static const struct { const char *n; sim_fn f; } SIM[] = {{"ep_mul_sim_basic", ep_mul_sim_basic}, {"ep_mul_sim_trick", ep_mul_sim_trick}, {"ep_mul_sim_inter", ep_mul_sim_inter}, {"ep_mul_sim_joint", ep_mul_sim_joint}};
	for (unsigned i = 0; i < 4; i++) {
		ep_inject(p, &P, REP_AFF, 1); ep_inject(q, &Q, REP_AFF, 1); memset(r, 0x5A, sizeof(ep_st)); r->coord = BASIC;
		vf_reseed();
		VF_TRY(th, SIM[i].f(r, p, bk, q, bm));
		if (th) { vf_fail(NULL, "%s raised %d", SIM[i].n, th); continue; }
		expect_pt(SIM[i].n, r, &E, 1, NULL);
		/* second run: result aliased to one of the points and / or un-normalised operands; the variation is a function of the scalars so that
		 * every combination occurs over the sweep */
		{ int al = (int)((mpz_fdiv_ui(c->v[3], 3) + mpz_fdiv_ui(c->v[6], 5) + i) % 3), rp = (int)((mpz_fdiv_ui(c->v[3], 2) + mpz_fdiv_ui(c->v[6], 7)) % 2), rq = (int)(mpz_fdiv_ui(c->v[6], 2));
#if EP_ADD == PROJC
			int drep_ = REP_PRJ;
#elif EP_ADD == JACOB
			int drep_ = REP_JAC;
#else
			int drep_ = REP_AFF;
#endif
			if (!al && !rp && !rq) al = 2;
			ep_inject(p, &P, (rp && !P.inf) ? drep_ : REP_AFF, 3); ep_inject(q, &Q, (rq && !Q.inf) ? drep_ : REP_AFF, 5); ep_st *o = al == 1 ? p : al == 2 ? q : r; if (o == r) { memset(r, 0x5A, sizeof(ep_st)); r->coord = BASIC; }
			char w[80]; snprintf(w, sizeof w, "%s[alias %d, reps %d %d]", SIM[i].n, al, rp, rq); vf_reseed(); VF_TRY(th, SIM[i].f(o, p, bk, q, bm)); if (th) vf_fail(NULL, "%s raised %d", w, th); else expect_pt(w, o, &E, 1, NULL); }
	}
	{ /* many-point form with n = 2 */
		ep_t ps[2]; bn_t ks[2]; ep_new(ps[0]); ep_new(ps[1]); bn_new(ks[0]); bn_new(ks[1]);
		ep_inject(ps[0], &P, REP_AFF, 1); ep_inject(ps[1], &Q, REP_AFF, 1); bn_copy(ks[0], bk); bn_copy(ks[1], bm);
		vf_reseed(); VF_TRY(th, ep_mul_sim_lot(r, ps, (const bn_t *)ks, 2)); if (th) vf_fail(NULL, "ep_mul_sim_lot(n=2) raised %d", th); else expect_pt("ep_mul_sim_lot(n=2)", r, &E, 1, NULL);
	}
	if (rpt_eq(&P, &RG) && (!tiny || mpz_sizeinbase(RN, 2) == RLC_FP_BITS)) { ep_inject(q, &Q, REP_AFF, 1); vf_reseed(); VF_TRY(th, ep_mul_sim_gen(r, bk, q, bm)); if (th) vf_fail(NULL, "ep_mul_sim_gen raised %d", th); else expect_pt("ep_mul_sim_gen", r, &E, 1, NULL); }
	rpt_clear(&P); rpt_clear(&Q); rpt_clear(&E); rpt_clear(&T);
}

/* many-point multiplication: args cid, n, pattern, then up to 3 explicit scalars; points P_i = [3i+1]G (infinity at position `pattern % n` when pattern is odd) */
static void scalar_alphabet(vf_dom *d);
static void do_lot(vf_case *c) {
	int th, n = (int)mpz_get_si(c->v[1]); long pat = mpz_get_si(c->v[2]);
	vf_dom S; vf_dom_init(&S); scalar_alphabet(&S);
	ep_t *ps = malloc(sizeof(ep_t) * (size_t)(n + 1)); bn_t *ks = malloc(sizeof(bn_t) * (size_t)(n + 1)); dig_t *ds = malloc(sizeof(dig_t) * (size_t)(n + 1));
	rpt E, T, P; rpt_init(&E); rpt_init(&T); rpt_init(&P);
	rpt E2; rpt_init(&E2);
	for (int i = 0; i < n; i++) {
		ep_new(ps[i]); bn_new(ks[i]);
		mpz_set_si(zt, 3 * i + 1); rpt_mul(&RC, &P, &RG, zt);
		if ((pat & 1) && i == (int)((pat >> 1) % n)) rpt_set_inf(&P);
		ep_inject(ps[i], &P, REP_AFF, 1);
		const mpz_t *k = &S.v[(size_t)((pat * 7 + i * 13) % S.n)];
		if ((pat & 2) && i == (int)((pat >> 2) % n)) k = &S.v[0]; /* S.v[0] is 0 */
		vf_bn_set(ks[i], *k);
		rpt_mul(&RC, &T, &P, *k); rpt_add(&RC, &E, &E, &T);
		ds[i] = (dig_t)((pat * 31 + i * 17 + 1) & (WSIZE == 8 ? 0xFF : 0xFFFF)); if ((pat & 2) && i == (int)((pat >> 2) % n)) ds[i] = 0;
		mpz_set_ui(zt, (unsigned long)ds[i]); rpt_mul(&RC, &T, &P, zt); rpt_add(&RC, &E2, &E2, &T);
	}
	ep_t r; ep_new(r);
	vf_reseed();
	VF_TRY(th, ep_mul_sim_lot(r, ps, (const bn_t *)ks, n));
	if (th) vf_fail(NULL, "ep_mul_sim_lot(n=%d) raised %d", n, th); else expect_pt("ep_mul_sim_lot", r, &E, 1, NULL);
	VF_TRY(th, ep_mul_sim_dig(r, ps, ds, n));
	if (th) vf_fail(NULL, "ep_mul_sim_dig(n=%d) raised %d", n, th); else expect_pt("ep_mul_sim_dig", r, &E2, 1, NULL);
	/* simultaneous normalisation of n points in the default projective system, with an identity among them when pattern is odd */
#if EP_ADD != BASIC
	if (n > 0) {
		ep_t *rs = malloc(sizeof(ep_t) * (size_t)n);
		for (int i = 0; i < n; i++) { ep_new(rs[i]); if (!ep_is_infty(ps[i])) { mpz_set_si(zt, 3 * i + 1); rpt_mul(&RC, &P, &RG, zt); ep_inject(ps[i], &P, EP_ADD == PROJC ? REP_PRJ : REP_JAC, (unsigned long)(2 * i + 3)); } }
		VF_TRY(th, ep_norm_sim(rs, (const ep_t *)ps, n));
		const char *kf = NULL;
		if (th) vf_fail(kf, "ep_norm_sim(n=%d) raised %d", n, th);
		else for (int i = 0; i < n; i++) { mpz_set_si(zt, 3 * i + 1); rpt_mul(&RC, &P, &RG, zt); if (ep_is_infty(ps[i])) rpt_set_inf(&P); expect_pt("ep_norm_sim", rs[i], &P, 1, kf); }
		free(rs);
	}
#endif
	vf_dom_clear(&S); free(ps); free(ks); free(ds);
	rpt_clear(&E); rpt_clear(&T); rpt_clear(&P); rpt_clear(&E2);
}

/* endomorphism and cofactor: args cid, x, y */
static void do_misc(vf_case *c) {
	int th; rpt P, E; rpt_init(&P); rpt_init(&E);
	pt_from_args(&P, c->v[1], c->v[2]);
	ep_t p, r; ep_new(p); ep_new(r);
	ep_inject(p, &P, REP_AFF, 1);
	if (cur_endom) {
		/* psi(P) = (beta x, y) must be [lambda]P with lambda the root of l^2 + l + 1 the library was given (tiny) / derives (W64):
		 * decided as: psi(P) is on the curve, psi^2 + psi + 1 = 0 on P, and psi(P) = [l]P for a fixed l in {lambda, lambda^2} for all P */
		VF_TRY(th, ep_psi(r, p));
		if (th) vf_fail(NULL, "ep_psi raised %d", th);
		else { rpt A, B2; rpt_init(&A); rpt_init(&B2); ep_extract(&A, r); transitions++;
			if (!rpt_on_curve(&RC, &A)) vf_fail(NULL, "ep_psi: image not on the curve");
			ep_t r2; ep_new(r2); VF_TRY(th, ep_psi(r2, r)); ep_extract(&B2, r2); rpt_add(&RC, &B2, &B2, &A); rpt_add(&RC, &B2, &B2, &P);
			if (!B2.inf) vf_fail(NULL, "ep_psi: psi^2 + psi + 1 does not annihilate the point");
			if (tiny) { mpz_set_si(zt, TC[cur_cid].lambda); rpt_mul(&RC, &E, &P, zt); if (!rpt_eq(&A, &E)) vf_fail(NULL, "ep_psi(P) != [lambda]P"); }
			rpt_clear(&A); rpt_clear(&B2); }
	}
	VF_TRY(th, ep_mul_cof(r, p));
	if (th) vf_fail(NULL, "ep_mul_cof raised %d", th); else { /* on the BLS12 families the library clears the cofactor with the effective cofactor 1 - x (as the hash-to-curve standard does), elsewhere with h */
		if (ep_curve_is_pairf() == EP_B12) { bn_t x; bn_new(x); fp_prime_get_par(x); mpz_t k; mpz_init(k); vf_bn_get(k, x); mpz_ui_sub(k, 1, k); rpt_mul(&RC, &E, &P, k); mpz_clear(k); bn_free(x); } else rpt_mul(&RC, &E, &P, RH);
		expect_pt("ep_mul_cof", r, &E, 0, NULL); rpt A; rpt_init(&A); ep_extract(&A, r); rpt_mul(&RC, &A, &A, RN); if (!A.inf) vf_fail(NULL, "ep_mul_cof: image not in the order-r subgroup"); rpt_clear(&A); }
	rpt_clear(&P); rpt_clear(&E);
}

/* Canonical two-step selection history: every curve is selected right after a curve of another kind, in the sweep and in a replay alike, so that
 * what a set leaves behind for the next one (flags, table layouts) is part of every case and a violation caused by it reproduces in a fresh process. */
static int select_hist(long cid) {
	if (cid == cur_cid) return 1;
#if WSIZE == 64 && FP_PRIME == 256
	{ long pred = (cid == SECG_K256 || cid == BN_P256 || cid == SM9_P256) ? NIST_P256 : SECG_K256; (void)select_curve(pred); }
#elif WSIZE != 64
	if (ntc > 1 && cid >= 0 && cid < ntc) (void)select_curve((cid + 1) % ntc);
#endif
	return select_curve(cid);
}

static void run_case(vf_case *c) {
	if (!select_hist(mpz_get_si(c->v[0]))) { vf_fail(NULL, "curve %ld could not be installed", mpz_get_si(c->v[0])); return; }
	vf_nontrivial();
	if (!strcmp(c->op, "law")) do_law(c); else if (!strcmp(c->op, "mul")) do_mul(c); else if (!strcmp(c->op, "sim")) do_sim(c);
	else if (!strcmp(c->op, "lot")) do_lot(c); else if (!strcmp(c->op, "misc")) do_misc(c); else vf_fail(NULL, "unknown op");
}

/* ---------------------------------------------------------------- enumeration */
static vf_case K;
static void setpt(int i, const rpt *p) { if (p->inf) { mpz_set_si(K.v[i], -1); mpz_set_ui(K.v[i + 1], 0); } else { mpz_set(K.v[i], p->x); mpz_set(K.v[i + 1], p->y); } }

/* scalar alphabet S(n) for the active curve; S.v[0] == 0 */
static void scalar_alphabet(vf_dom *d) {
	mpz_t t; mpz_init(t);
	for (long i = -2; i <= 3; i++) vf_dom_add_si(d, i);
	vf_dom_add_near(d, RN, 0); mpz_neg(t, RN); vf_dom_add(d, t);
	mpz_mul_2exp(t, RN, 1); vf_dom_add(d, t); mpz_add_ui(t, t, 1); vf_dom_add(d, t);
	mpz_mul_ui(t, RN, 3); mpz_sub_ui(t, t, 1); vf_dom_add(d, t);
	mpz_fdiv_q_2exp(t, RN, 1); vf_dom_add(d, t); mpz_add_ui(t, t, 1); vf_dom_add(d, t);
	if (!tiny) {
		int ks[] = {63, 64, 65, 127, 128, 129, 255, 256, 257};
		for (unsigned i = 0; i < 9; i++) { mpz_set_ui(t, 1); mpz_mul_2exp(t, t, (unsigned long)ks[i]); vf_dom_add(d, t); mpz_sub_ui(t, t, 1); vf_dom_add(d, t); mpz_add_ui(t, t, 2); vf_dom_add(d, t); }
		mpz_set_ui(t, 1); mpz_mul_2exp(t, t, 300); vf_dom_add(d, t);
		mpz_set_ui(t, 1); mpz_mul_2exp(t, t, 1000); mpz_sub_ui(t, t, 1); vf_dom_add(d, t);
		mpz_set_str(t, "5555555555555555555555555555555555555555555555555555555555555555", 16); vf_dom_add(d, t);
		mpz_set_str(t, "aaaaaaaaaaaaaaaaaaaaaaaaaaaaaaaaaaaaaaaaaaaaaaaaaaaaaaaaaaaaaaaa", 16); vf_dom_add(d, t);
		mpz_set_str(t, "ffffffffffffffff0000000000000000ffffffffffffffff", 16); vf_dom_add(d, t);
		mpz_set_str(t, "ffffffffffffffff0000000000000000", 16); vf_dom_add(d, t);
		mpz_sqrt(t, RN); vf_dom_add_near(d, t, 0);
		mpz_set_str(t, "d3b1a40c29f1e8f7a5b6c3d2e1f0a9b8c7d6e5f4a3b2c1d0e9f8a7b6c5d4e3f", 16); vf_dom_add(d, t); mpz_neg(t, t); vf_dom_add(d, t);
	} else {
		for (int k = 7; k <= 17; k++) { mpz_set_ui(t, 1); mpz_mul_2exp(t, t, (unsigned long)k); vf_dom_add(d, t); mpz_sub_ui(t, t, 1); vf_dom_add(d, t); }
		mpz_set_ui(t, 1); mpz_mul_2exp(t, t, 40); vf_dom_add(d, t); mpz_set_ui(t, 1); mpz_mul_2exp(t, t, 60); mpz_sub_ui(t, t, 1); vf_dom_add(d, t);
		mpz_set_ui(t, 0x5555); vf_dom_add(d, t); mpz_set_ui(t, 0xAAAA); vf_dom_add(d, t);
		mpz_sqrt(t, RN); vf_dom_add_near(d, t, 0);
	}
	mpz_clear(t);
	vf_dom_uniq(d);
	/* make sure 0 is first */
	for (int i = 0; i < d->n; i++) if (mpz_sgn(d->v[i]) == 0 && i) mpz_swap(d->v[0], d->v[i]);
}

static void enum_lot(long cid) {
	int ns[] = {0, 1, 2, 3, 4, 9, 10, 11, 12, 33};
	for (unsigned i = 0; i < sizeof ns / sizeof *ns; i++) for (long pat = 0; pat < (ns[i] <= 4 ? 24 : 6); pat++) if (vf_mine()) { if (ns[i] == 0 && pat) continue; K.op = "lot"; K.n = 3; mpz_set_si(K.v[0], cid); mpz_set_si(K.v[1], ns[i]); mpz_set_si(K.v[2], pat); vf_run(&K); }
}

static void enumerate(void) {
	vf_case_init(&K);
	mpz_t k, m; mpz_inits(k, m, NULL);
	rpt P, Q; rpt_init(&P); rpt_init(&Q);
#if WSIZE != 64
	/* complete Cayley tables on the ~1000-point curves (incl. cofactor curves with order-2 points, and the small GLV curve) */
	int cay[] = {0, 4, 5, 6, 7};
	for (unsigned ci = 0; ci < sizeof cay / sizeof *cay; ci++) {
		char bn[64]; snprintf(bn, sizeof bn, "tiny-cayley-curve-%d", cay[ci]);
		if (!vf_tier && ci >= 3) continue; /* quick: three complete tables, thorough: all five */
		if (!vf_bound_on(bn)) continue;
		long cid = cay[ci]; if (!select_hist(cid)) { vf_fail(NULL, "curve install failed"); continue; }
		tiny_curve *c = &TC[cid];
		/* list every point */
		long np = 0; long *px = malloc(sizeof(long) * (size_t)(2 * c->p + 2)), *py = malloc(sizeof(long) * (size_t)(2 * c->p + 2));
		px[np] = -1; py[np] = 0; np++;
		for (long x = 0; x < c->p; x++) { long v = (long)(((__int128)x * x % c->p * x + (__int128)c->a * x + c->b) % c->p); long y = sqrtl_(v, c->p); if (y < 0) continue; px[np] = x; py[np] = y; np++; if (y) { px[np] = x; py[np] = c->p - y; np++; } }
		if (np != c->order) { vf_fail(NULL, "point list does not match the counted order"); continue; }
		for (long i = 0; i < np && !vf_expired(); i++) if (vf_mine()) { vf_stat_add("states", 1);
			for (long j = 0; j < np; j++) { K.op = "law"; K.n = 5; mpz_set_si(K.v[0], cid); mpz_set_si(K.v[1], px[i]); mpz_set_si(K.v[2], py[i]); mpz_set_si(K.v[3], px[j]); mpz_set_si(K.v[4], py[j]); vf_run(&K); }
			K.op = "misc"; K.n = 3; mpz_set_si(K.v[0], cid); mpz_set_si(K.v[1], px[i]); mpz_set_si(K.v[2], py[i]); vf_run(&K);
		}
		/* every pair of scalars in [-n-2, n+2]^2 for the simultaneous forms on the prime-order tables */
		if (c->h == 1 && (vf_tier || ci == 0)) { mpz_set_si(k, 5); rpt_mul(&RC, &Q, &RG, k);
			long n = c->r, st = vf_tier ? 1 : 3;
			for (long a = -n - 2; a <= n + 2 && !vf_expired(); a++) if (vf_mine()) for (long b = -n - 2 + ((a + n + 2) % st); b <= n + 2; b += st) { K.op = "sim"; K.n = 7; mpz_set_si(K.v[0], cid); setpt(1, &RG); mpz_set_si(K.v[3], a); setpt(4, &Q); mpz_set_si(K.v[6], b); vf_run(&K); } }
		free(px); free(py);
		vf_bound_done(bn);
	}
	/* every scalar in [-2n-3, 2n+3] for every routine on the 16-bit prime-order curves */
	int sc[] = {1, 2, 3, 7, 0};
	for (unsigned ci = 0; ci < sizeof sc / sizeof *sc; ci++) {
		char bn[64]; snprintf(bn, sizeof bn, "tiny-all-scalars-curve-%d", sc[ci]);
		if (!vf_bound_on(bn)) continue;
		long cid = sc[ci]; if (!select_hist(cid)) { vf_fail(NULL, "curve install failed"); continue; }
		long n = TC[cid].r;
		for (int pt = 0; pt < (vf_tier ? 2 : 1); pt++) {
			if (pt) { mpz_set_si(k, 12345); rpt_mul(&RC, &P, &RG, k); } else rpt_set(&P, &RG);
			for (long a = -2 * n - 3; a <= 2 * n + 3 && !vf_expired(); a++) if (vf_mine()) { K.op = "mul"; K.n = 4; mpz_set_si(K.v[0], cid); setpt(1, &P); mpz_set_si(K.v[3], a); vf_run(&K); }
		}
		/* simultaneous: all k x alphabet m */
		{ vf_dom S; vf_dom_init(&S); scalar_alphabet(&S); mpz_set_si(k, 7); rpt_mul(&RC, &Q, &RG, k);
			long st = vf_tier ? 1 : 5;
			for (long a = -n - 2; a <= n + 2 && !vf_expired(); a += st) if (vf_mine()) for (int j = 0; j < S.n; j++) { K.op = "sim"; K.n = 7; mpz_set_si(K.v[0], cid); setpt(1, &RG); mpz_set_si(K.v[3], a); setpt(4, &Q); mpz_set(K.v[6], S.v[j]); vf_run(&K); }
			/* alphabet scalars (longer than the order, negative, ...) through the single-scalar routines, and identity operands */
			for (int j = 0; j < S.n; j++) if (vf_mine()) { K.op = "mul"; K.n = 4; mpz_set_si(K.v[0], cid); setpt(1, &RG); mpz_set(K.v[3], S.v[j]); vf_run(&K); rpt_set_inf(&P); setpt(1, &P); vf_run(&K);
				K.op = "sim"; K.n = 7; setpt(1, &P); mpz_set(K.v[3], S.v[j]); setpt(4, &Q); mpz_set(K.v[6], S.v[(j * 3) % S.n]); vf_run(&K); setpt(1, &RG); setpt(4, &P); vf_run(&K); }
			/* related base points: Q in {P, -P, 2P, -2P, 3P} makes table entries i*P + j*Q hit the identity and each other */
			{ long rel[] = {1, -1, 2, -2, 3}; int sst = vf_tier ? 1 : 2;
				for (unsigned ri = 0; ri < 5; ri++) { mpz_set_si(k, rel[ri]); rpt_mul(&RC, &Q, &RG, k);
					for (int a2 = 0; a2 < S.n; a2++) for (int b2 = a2 % sst; b2 < S.n; b2 += sst) if (vf_mine()) { K.op = "sim"; K.n = 7; mpz_set_si(K.v[0], cid); setpt(1, &RG); mpz_set(K.v[3], S.v[a2]); setpt(4, &Q); mpz_set(K.v[6], S.v[b2]); vf_run(&K); } } }
			vf_dom_clear(&S); }
		enum_lot(cid);
		vf_bound_done(bn);
	}
#else
#if FP_PRIME == 256
	static const int IDS[] = {NIST_P256, BSI_P256, SECG_K256, SM2_P256, BN_P256, SM9_P256};
#elif FP_PRIME == 255
	static const int IDS[] = {CURVE_25519, TWEEDLEDUM};
#elif FP_PRIME == 381
	static const int IDS[] = {B12_P381};
#elif FP_PRIME == 446
	static const int IDS[] = {BN_P446, B12_P446};
#elif FP_PRIME == 160
	static const int IDS[] = {SECG_P160, SECG_K160};
#elif FP_PRIME == 192
	static const int IDS[] = {NIST_P192, SECG_K192};
#elif FP_PRIME == 224
	static const int IDS[] = {NIST_P224, SECG_K224};
#elif FP_PRIME == 384
	static const int IDS[] = {NIST_P384};
#elif FP_PRIME == 521
	static const int IDS[] = {NIST_P521};
#else
	static const int IDS[] = {0};
#endif
	for (unsigned ci = 0; ci < sizeof IDS / sizeof *IDS; ci++) {
		char bn[64]; snprintf(bn, sizeof bn, "w64-curve-%d", IDS[ci]);
		if (!vf_bound_on(bn)) continue;
		long cid = IDS[ci]; if (!select_hist(cid)) { vf_fail(NULL, "ep_param_set(%ld) failed", cid); continue; }
		vf_dom S; vf_dom_init(&S); scalar_alphabet(&S);
		/* points: infinity, G, 2G, -G, 3 fixed multiples */
		rpt pts[8]; int npt = 0; long ds[] = {0, 1, 2, -1, 5, 0x12345, -77};
		for (unsigned i = 0; i < 7; i++) { rpt_init(&pts[npt]); mpz_set_si(k, ds[i]); rpt_mul(&RC, &pts[npt], &RG, k); npt++; }
		for (int i = 0; i < npt; i++) for (int j = 0; j < npt; j++) if (vf_mine()) { K.op = "law"; K.n = 5; mpz_set_si(K.v[0], cid); setpt(1, &pts[i]); setpt(3, &pts[j]); vf_run(&K); }
		for (int i = 0; i < npt; i++) if (vf_mine()) { K.op = "misc"; K.n = 3; mpz_set_si(K.v[0], cid); setpt(1, &pts[i]); vf_run(&K); }
		for (int i = 0; i < npt && !vf_expired(); i++) { if (!vf_tier && i > 2 && i != 5) continue; for (int j = 0; j < S.n; j++) if (vf_mine()) { K.op = "mul"; K.n = 4; mpz_set_si(K.v[0], cid); setpt(1, &pts[i]); mpz_set(K.v[3], S.v[j]); vf_run(&K); } }
		int st = vf_tier ? 1 : 4;
		for (int a = 0; a < S.n && !vf_expired(); a++) for (int b = a % st; b < S.n; b += st) if (vf_mine()) { K.op = "sim"; K.n = 7; mpz_set_si(K.v[0], cid); setpt(1, &pts[1]); mpz_set(K.v[3], S.v[a]); setpt(4, &pts[5]); mpz_set(K.v[6], S.v[b]); vf_run(&K); }
		for (int a = 0; a < S.n; a += 3) if (vf_mine()) { K.op = "sim"; K.n = 7; mpz_set_si(K.v[0], cid); setpt(1, &pts[0]); mpz_set(K.v[3], S.v[a]); setpt(4, &pts[4]); mpz_set(K.v[6], S.v[(a * 5 + 1) % S.n]); vf_run(&K); setpt(1, &pts[4]); setpt(4, &pts[0]); vf_run(&K); setpt(4, &pts[4]); vf_run(&K); }
		{ long rel[] = {1, -1, 2, -2}; for (unsigned ri = 0; ri < 4; ri++) { mpz_set_si(k, rel[ri]); rpt_mul(&RC, &Q, &RG, k);
			for (int a = 0; a < S.n && !vf_expired(); a += (vf_tier ? 1 : 3)) for (int b = a % 5; b < S.n; b += 5) if (vf_mine()) { K.op = "sim"; K.n = 7; mpz_set_si(K.v[0], cid); setpt(1, &RG); mpz_set(K.v[3], S.v[a]); setpt(4, &Q); mpz_set(K.v[6], S.v[b]); vf_run(&K); } } }
		enum_lot(cid);
		vf_dom_clear(&S);
		vf_bound_done(bn);
	}
#endif
	vf_stat_add("transitions", transitions);
}

VF_MAIN()
