/*
 * C15 -- the deterministic random generator follows SP 800-90A Hash_DRBG(SHA-256) for every call history.
 *
 * State machine: state = (V, C, reseed counter, seeded) in ctx->rand / ctx->counter / ctx->seeded;
 * transitions = rand_seed(data) (instantiate / reseed) and rand_bytes(len).  The model keeps V and C as
 * 440-bit GMP integers and hashes with OpenSSL; it shares nothing with relic's byte-wise carry code.
 * A case is a whole history, replayed from a fresh state; after EVERY transition outputs and state are compared.
 */
#include "vf_relic.h"
#include <openssl/sha.h>

#define SEEDLEN 55
static mpz_t MV, MC, M440; static unsigned long MCTR; static int MSEEDED;
static unsigned long long transitions = 0;

static void harness_setup(void) {
	if (core_init() != RLC_OK) exit(2);
	mpz_inits(MV, MC, M440, NULL); mpz_set_ui(M440, 1); mpz_mul_2exp(M440, M440, 440);
}

/* ---------------------------------------------------------------- reference model */
static void hash_df(mpz_t out, const uint8_t *in, size_t inlen) {
	uint8_t *buf = malloc(5 + inlen), tmp[64], h[32];
	buf[0] = 1; buf[1] = 0; buf[2] = 0; buf[3] = (440 >> 8) & 0xFF; buf[4] = 440 & 0xFF;
	memcpy(buf + 5, in, inlen);
	for (int i = 0; i < 2; i++) { SHA256(buf, 5 + inlen, h); memcpy(tmp + 32 * i, h, 32); buf[0]++; }
	mpz_import(out, SEEDLEN, 1, 1, 1, 0, tmp);
	free(buf);
}
static void v_bytes(uint8_t *out, const mpz_t v) { memset(out, 0, SEEDLEN); size_t n = (mpz_sizeinbase(v, 2) + 7) / 8; if (mpz_sgn(v)) mpz_export(out + SEEDLEN - n, NULL, 1, 1, 1, 0, v); }
static void m_derive_c(void) { uint8_t b[1 + SEEDLEN]; b[0] = 0; v_bytes(b + 1, MV); hash_df(MC, b, sizeof b); }
static void m_seed(const uint8_t *data, size_t len) {
	if (!MSEEDED) hash_df(MV, data, len);
	else { uint8_t *b = malloc(1 + SEEDLEN + len); b[0] = 1; v_bytes(b + 1, MV); memcpy(b + 1 + SEEDLEN, data, len); hash_df(MV, b, 1 + SEEDLEN + len); free(b); }
	m_derive_c(); MCTR = 1; MSEEDED = 1;
}
static void m_generate(uint8_t *out, size_t len) {
	mpz_t data; mpz_init_set(data, MV); uint8_t b[1 + SEEDLEN], h[32];
	size_t off = 0;
	while (off < len) { v_bytes(b, data); SHA256(b, SEEDLEN, h); size_t n = len - off < 32 ? len - off : 32; memcpy(out + off, h, n); off += n; mpz_add_ui(data, data, 1); mpz_mod(data, data, M440); }
	b[0] = 3; v_bytes(b + 1, MV); SHA256(b, 1 + SEEDLEN, h);
	mpz_import(data, 32, 1, 1, 1, 0, h);
	mpz_add(MV, MV, data); mpz_add(MV, MV, MC); mpz_add_ui(MV, MV, MCTR); mpz_mod(MV, MV, M440);
	MCTR++;
	mpz_clear(data);
}

/* ---------------------------------------------------------------- comparison of implementation state with the model */
static int state_matches(const char *after) {
	ctx_t *ctx = core_get(); uint8_t v[SEEDLEN], cc[SEEDLEN];
	v_bytes(v, MV); v_bytes(cc, MC);
	if (memcmp(ctx->rand + 1, v, SEEDLEN)) { vf_fail(NULL, "state V differs from the SP 800-90A model after %s (reseed counter %lu)", after, MCTR); return 0; }
	if (memcmp(ctx->rand + 1 + SEEDLEN, cc, SEEDLEN)) { vf_fail(NULL, "state C differs from the model after %s", after); return 0; }
	if ((unsigned long)ctx->counter != MCTR) { vf_fail(NULL, "reseed counter %d differs from the model's %lu after %s", ctx->counter, MCTR, after); return 0; }
	return 1;
}
static void fill_seed(uint8_t *s, size_t len, unsigned salt) { for (size_t i = 0; i < len; i++) s[i] = (uint8_t)(i * 29 + salt * 101 + 7); }

/* transition alphabet */
static const long GEN[] = {0, 1, 31, 32, 33, 55, 64, 65, 110, 111, 440, 65535, 65536};
#define NGEN 13
static const long RSD[] = {1, 32, 55, 56, 64, 200};
#define NRSD 6
#define OP_TOOBIG (NGEN)            /* generate(65537): must be refused, state unchanged */
#define OP_RESEED0 (NGEN + 1)       /* .. + NRSD reseeds */
#define OP_SEEDEMPTY (NGEN + 1 + NRSD) /* seed with 0 bytes: must be refused */
#define NOPS (NGEN + 2 + NRSD)
static const long INST[] = {1, 20, 32, 55, 56, 64, 65, 440};

static uint8_t OUT[70000], REF[70000];
/* apply one transition to implementation and model; returns 0 on disagreement */
static int step(int op, unsigned salt) {
	int th; char nm[64];
	transitions++;
	if (op < NGEN) {
		size_t len = (size_t)GEN[op]; snprintf(nm, sizeof nm, "generate(%zu)", len);
		memset(OUT, 0xEE, len + 8);
		VF_TRY(th, rand_bytes(OUT, len));
		if (th) { vf_fail(NULL, "%s raised %d", nm, th); return 0; }
		m_generate(REF, len);
		if (memcmp(OUT, REF, len)) { size_t i = 0; while (OUT[i] == REF[i]) i++; vf_fail(NULL, "%s: output differs from Hash_DRBG at byte %zu", nm, i); return 0; }
		for (int i = 0; i < 8; i++) if (OUT[len + i] != 0xEE) { vf_fail(NULL, "%s wrote beyond its buffer", nm); return 0; }
		return state_matches(nm);
	}
	if (op == OP_TOOBIG) {
		ctx_t snap = *core_get();
		VF_TRY(th, rand_bytes(OUT, 65537));
		if (!th) { vf_fail(NULL, "generate(65537) above the per-request limit was not refused"); return 0; }
		if (memcmp(snap.rand, core_get()->rand, sizeof snap.rand) || snap.counter != core_get()->counter) { vf_fail(NULL, "a refused request changed the generator state"); return 0; }
		return 1;
	}
	if (op == OP_SEEDEMPTY) {
		ctx_t snap = *core_get(); uint8_t s[4] = {1, 2, 3, 4};
		VF_TRY(th, rand_seed(s, 0));
		if (!th) { vf_fail(NULL, "seeding with zero bytes was not refused"); return 0; }
		if (memcmp(snap.rand + 1, core_get()->rand + 1, sizeof snap.rand - 1) || snap.counter != core_get()->counter) { vf_fail(NULL, "a refused seed changed the generator state"); return 0; }
		return 1;
	}
	{ size_t len = (size_t)RSD[op - OP_RESEED0]; uint8_t s[512]; fill_seed(s, len, salt); snprintf(nm, sizeof nm, "reseed(%zu bytes)", len);
		VF_TRY(th, rand_seed(s, len));
		if (th) { vf_fail(NULL, "%s raised %d", nm, th); return 0; }
		m_seed(s, len);
		return state_matches(nm); }
}
static void instantiate(long seedlen, unsigned salt) {
	uint8_t s[512]; fill_seed(s, (size_t)seedlen, salt);
	core_get()->seeded = 0; MSEEDED = 0;
	rand_seed(s, (size_t)seedlen); m_seed(s, (size_t)seedlen);
}

/* history from the initial state: args inst-index, depth, op1..op_depth */
static void do_hist(vf_case *c) {
	int d = (int)mpz_get_si(c->v[1]);
	instantiate(INST[mpz_get_si(c->v[0])], 3);
	transitions++;
	if (!state_matches("instantiate")) return;
	for (int i = 0; i < d; i++) if (!step((int)mpz_get_si(c->v[2 + i]), (unsigned)i + 11)) return;
}
/* injected (non-initial) state: args V, C, counter, depth, op1, op2 */
static void do_inj(vf_case *c) {
	ctx_t *ctx = core_get(); uint8_t b[SEEDLEN];
	instantiate(32, 1);
	mpz_set(MV, c->v[0]); mpz_set(MC, c->v[1]); MCTR = mpz_get_ui(c->v[2]);
	v_bytes(b, MV); memcpy(ctx->rand + 1, b, SEEDLEN); v_bytes(b, MC); memcpy(ctx->rand + 1 + SEEDLEN, b, SEEDLEN); ctx->counter = (int)MCTR;
	int d = (int)mpz_get_si(c->v[3]);
	for (int i = 0; i < d; i++) if (!step((int)mpz_get_si(c->v[4 + i]), (unsigned)i + 5)) return;
}
/* reach a counter value honestly: args target counter ; generate(1) that many times, compared at every step */
static void do_reach(vf_case *c) {
	unsigned long target = mpz_get_ui(c->v[0]);
	instantiate(32, 2);
	while (MCTR < target) if (!step(1, 0)) return;
	/* and a few more of every small size at the reached counter */
	for (int op = 0; op < 9; op++) if (!step(op, 0)) return;
}
/* integer sampling: args bits, sign(0 pos / 1 neg), seed salt */
static void do_bnrand(vf_case *c) {
	int th; size_t bits = mpz_get_ui(c->v[0]); int sign = mpz_get_si(c->v[1]) ? RLC_NEG : RLC_POS;
	instantiate(32, (unsigned)mpz_get_ui(c->v[2]));
	bn_t a; bn_new(a);
	size_t digs = bits / VF_DIGB + (bits % VF_DIGB ? 1 : 0);
	VF_TRY(th, bn_rand(a, sign, bits));
	transitions++;
	if (digs > RLC_BN_SIZE) { if (!th) vf_fail(NULL, "bn_rand(%zu bits) beyond the precision was not refused", bits); return; }
	if (th) { vf_fail(NULL, "bn_rand(%zu bits) raised %d", bits, th); return; }
	m_generate(REF, digs * sizeof(dig_t));
	mpz_t e, g; mpz_inits(e, g, NULL);
	mpz_import(e, digs * sizeof(dig_t), -1, 1, -1, 0, REF); mpz_fdiv_r_2exp(e, e, bits); if (sign == RLC_NEG) mpz_neg(e, e);
	vf_bn_get(g, a);
	if (mpz_cmp(e, g)) vf_fail(NULL, "bn_rand(%zu bits): value is not the masked little-endian stream", bits);
	else if (mpz_sizeinbase(g, 2) > bits && mpz_sgn(g)) vf_fail(NULL, "bn_rand returned more than %zu bits", bits);
	else if (!vf_bn_normal(a)) vf_fail(NULL, "bn_rand: result not in normal form");
	else state_matches("bn_rand");
	mpz_clears(e, g, NULL);
}
/* args bound, salt, repetitions */
static void do_bnmod(vf_case *c) {
	int th; bn_t a, b; bn_new(a); bn_new(b);
	if (!vf_bn_set(b, c->v[0])) return;
	instantiate(32, (unsigned)mpz_get_ui(c->v[1]));
	int reps = (int)mpz_get_si(c->v[2]); size_t bits = mpz_sizeinbase(c->v[0], 2) + 40, digs = bits / VF_DIGB + (bits % VF_DIGB ? 1 : 0);
	mpz_t e, g; mpz_inits(e, g, NULL);
	for (int r = 0; r < reps; r++) {
		VF_TRY(th, bn_rand_mod(a, b));
		transitions++;
		if (th) { vf_fail(NULL, "bn_rand_mod raised %d", th); break; }
		/* model: oversample bits(b)+40 bits, reduce, reject 0 */
		do { m_generate(REF, digs * sizeof(dig_t)); mpz_import(e, digs * sizeof(dig_t), -1, 1, -1, 0, REF); mpz_fdiv_r_2exp(e, e, bits); mpz_mod(e, e, c->v[0]); if (mpz_sgn(e) == 0) vf_stat_add("x.zero_rejections", 1); } while (mpz_sgn(e) == 0);
		vf_bn_get(g, a);
		if (mpz_sgn(g) <= 0 || mpz_cmp(g, c->v[0]) >= 0) { vf_fail(NULL, "bn_rand_mod returned a value outside [1, bound)"); break; }
		if (mpz_cmp(e, g)) { vf_fail(NULL, "bn_rand_mod: value differs from oversample-and-reduce on the model stream"); break; }
		if (!state_matches("bn_rand_mod")) break;
	}
	mpz_clears(e, g, NULL);
}

static void run_case(vf_case *c) {
	vf_nontrivial();
	if (!strcmp(c->op, "hist")) do_hist(c); else if (!strcmp(c->op, "inj")) do_inj(c); else if (!strcmp(c->op, "reach")) do_reach(c);
	else if (!strcmp(c->op, "bnrand")) do_bnrand(c); else if (!strcmp(c->op, "bnmod")) do_bnmod(c); else vf_fail(NULL, "unknown op");
}

static vf_case K;
static void enumerate(void) {
	vf_case_init(&K);
	mpz_t t; mpz_init(t);
	int D = vf_tier ? 4 : 3;
	for (int d = 0; d <= D; d++) {
		char bn[40]; snprintf(bn, sizeof bn, "histories-depth-%d", d);
		if (!vf_bound_on(bn)) continue;
		unsigned long n = 1; for (int i = 0; i < d; i++) n *= NOPS;
		/* depth 4: the two 64 KiB requests only in the last two positions (cost), everything else complete */
		for (int inst = 0; inst < 8; inst++) { if (d == 4 && inst != 2 && inst != 5) continue;
			for (unsigned long code = 0; code < n && !vf_expired(); code++) if (vf_mine()) {
				K.op = "hist"; K.n = 2 + d; mpz_set_si(K.v[0], inst); mpz_set_si(K.v[1], d); unsigned long cc = code; int big = 0, skip = 0;
				for (int i = 0; i < d; i++) { int op = (int)(cc % NOPS); cc /= NOPS; mpz_set_si(K.v[2 + i], op); if (op == 11 || op == 12) { big++; if (d >= 3 && i < d - 2) skip = 1; } }
				if (skip) continue;
				vf_stat_add("states", 1); /* one reached state per distinct history */
				vf_run(&K); } }
		vf_bound_done(bn);
	}
	if (vf_bound_on("injected-states")) {
		/* V, C from structured 440-bit values (carry paths), counters around 2^8, 2^15, 2^16, 2^31 */
		vf_dom vs; vf_dom_init(&vs);
		vf_dom_add_si(&vs, 0); vf_dom_add_si(&vs, 1); mpz_sub_ui(t, M440, 1); vf_dom_add(&vs, t); mpz_sub_ui(t, M440, 2); vf_dom_add(&vs, t);
		mpz_set_ui(t, 1); mpz_mul_2exp(t, t, 256); vf_dom_add(&vs, t); mpz_sub_ui(t, t, 1); vf_dom_add(&vs, t);
		mpz_set_ui(t, 1); mpz_mul_2exp(t, t, 256); mpz_sub_ui(t, t, 1); mpz_mul_2exp(t, t, 184); vf_dom_add(&vs, t);
		mpz_set_ui(t, 1); mpz_mul_2exp(t, t, 439); vf_dom_add(&vs, t);
		mpz_set_ui(t, 0); for (int i = 0; i < 55; i++) { mpz_mul_2exp(t, t, 8); mpz_add_ui(t, t, (i & 1) ? 0xFF : 0x00); } vf_dom_add(&vs, t);
		mpz_sub_ui(t, M440, 1); mpz_fdiv_q_2exp(t, t, 8); vf_dom_add(&vs, t); /* 00 FF .. FF */
		vf_dom_uniq(&vs);
		unsigned long ctrs[] = {1, 2, 255, 256, 257, 32511, 32512, 32513, 32767, 32768, 65535, 65536, 16777215, 16777216, 2147483640UL}; /* the counter is an int: 2^31 requests without reseeding are out of its range and not explored */
		for (int i = 0; i < vs.n; i++) for (int j = 0; j < vs.n; j++) for (unsigned k = 0; k < sizeof ctrs / sizeof *ctrs; k++) if (vf_mine()) {
			vf_stat_add("states", 1);
			for (int op1 = 0; op1 < NOPS; op1++) { if (GEN[op1 < NGEN ? op1 : 0] > 1000 && (i + j) % 4) continue;
				K.op = "inj"; K.n = 5; mpz_set(K.v[0], vs.v[i]); mpz_set(K.v[1], vs.v[j]); mpz_set_ui(K.v[2], ctrs[k]); mpz_set_si(K.v[3], 1); mpz_set_si(K.v[4], op1); vf_run(&K);
				if (vf_tier || (i + j + (int)k) % 3 == 0) for (int op2 = 0; op2 < 11; op2 += 2) { K.n = 6; mpz_set_si(K.v[3], 2); mpz_set_si(K.v[5], op2); vf_run(&K); } }
		}
		vf_bound_done("injected-states");
	}
	if (vf_bound_on("honestly-reached-counters")) {
		unsigned long targets[] = {300, 33000, 70000};
		for (unsigned i = 0; i < 3; i++) if (vf_mine()) { K.op = "reach"; K.n = 1; mpz_set_ui(K.v[0], targets[i]); vf_run(&K); }
		vf_bound_done("honestly-reached-counters");
	}
	if (vf_bound_on("integer-sampling")) {
		for (unsigned long bits = 0; bits <= RLC_BN_BITS + 1 + 64 * (RLC_BN_SIZE - RLC_BN_DIGS); bits++) for (int sg = 0; sg < 2; sg++) if (vf_mine()) { K.op = "bnrand"; K.n = 3; mpz_set_ui(K.v[0], bits); mpz_set_si(K.v[1], sg); mpz_set_ui(K.v[2], bits % 4); vf_run(&K); }
		const char *bounds[] = {"2", "3", "ff", "100", "10000000000000000", "10000000000000001", "ffffffff00000000ffffffffffffffffbce6faada7179e84f3b9cac2fc632551", "fffffffffffffffffffffffffffffffebaaedce6af48a03bbfd25e8cd0364141", "a9fb57dba1eea9bc3e660a909d838d718c397aa3b561a6f7901e0e82974856a7", "8000000000000000000000000000000000000000000000000000000000000001"};
		for (unsigned i = 0; i < sizeof bounds / sizeof *bounds; i++) for (int salt = 0; salt < 4; salt++) if (vf_mine()) { K.op = "bnmod"; K.n = 3; mpz_set_str(K.v[0], bounds[i], 16); mpz_set_si(K.v[1], salt); mpz_set_si(K.v[2], 64); vf_run(&K); }
		if (vf_mine()) { K.op = "bnmod"; K.n = 3; mpz_set_ui(K.v[0], 1); mpz_mul_2exp(K.v[0], K.v[0], 1000); mpz_sub_ui(K.v[0], K.v[0], 1); mpz_set_si(K.v[1], 0); mpz_set_si(K.v[2], 8); vf_run(&K); }
		vf_bound_done("integer-sampling");
	}
	vf_stat_add("transitions", transitions);
}

VF_MAIN()
