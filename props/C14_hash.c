/*
 * C14 -- hash functions, MAC, KDFs, XMD and AES-CBC conform to their standards.
 * Oracle: OpenSSL EVP + own MGF1/KDF2/XMD/BLAKE2s (ref_hash.h). Complete over ranges of lengths.
 */
#include "vf_relic.h"
#include "ref_hash.h"

static uint8_t MSG[70000], KEY[512], DST[300];
static unsigned long long transitions = 0;

static void fill(uint8_t *b, size_t n, int pat) { for (size_t i = 0; i < n; i++) b[i] = pat == 0 ? 0 : pat == 1 ? 0xFF : pat == 2 ? (uint8_t)(i * 7 + 1) : (i == 0 ? 0x80 : 0); }
static void harness_setup(void) {
	if (core_init() != RLC_OK) exit(2);
	/* reference self-check: own BLAKE2s against EVP at 256 bits */
	uint8_t a[32], b[32]; for (size_t l = 0; l < 200; l += 13) { fill(MSG, l, 2); ref_blake2s(a, 32, MSG, l); if (ref_digest("BLAKE2s256", MSG, l, b) == 32 && memcmp(a, b, 32)) { fprintf(stderr, "reference BLAKE2s disagrees with EVP\n"); exit(2); } }
}

/* the hash the build maps md_map / md_hmac / md_kdf / md_mgf to (MD_MAP): reference counterpart */
#if MD_MAP == SH224
#define CFG_EVP "SHA224"
#define CFG_BLK 64
#elif MD_MAP == SH256
#define CFG_EVP "SHA256"
#define CFG_BLK 64
#elif MD_MAP == SH384
#define CFG_EVP "SHA384"
#define CFG_BLK 128
#elif MD_MAP == SH512
#define CFG_EVP "SHA512"
#define CFG_BLK 128
#elif MD_MAP == B2S256
#define CFG_EVP "BLAKE2s256"
#define CFG_BLK 64
#else
#define CFG_EVP NULL
#define CFG_BLK 64
#endif
static void cfg_hash(uint8_t *o, const uint8_t *m, size_t l) { if (CFG_EVP) ref_digest(CFG_EVP, m, l, o); else ref_blake2s(o, RLC_MD_LEN, m, l); }
/* RFC 2104 written out over the configured hash */
static void cfg_hmac(uint8_t *o, const uint8_t *key, size_t kl, const uint8_t *m, size_t l) {
	uint8_t k0[128], ih[64]; memset(k0, 0, sizeof k0); if (kl > CFG_BLK) cfg_hash(k0, key, kl); else memcpy(k0, key, kl);
	uint8_t *b = malloc(CFG_BLK + l + 64); for (int i = 0; i < CFG_BLK; i++) b[i] = k0[i] ^ 0x36; memcpy(b + CFG_BLK, m, l); cfg_hash(ih, b, CFG_BLK + l);
	for (int i = 0; i < CFG_BLK; i++) b[i] = k0[i] ^ 0x5c; memcpy(b + CFG_BLK, ih, RLC_MD_LEN); cfg_hash(o, b, CFG_BLK + RLC_MD_LEN); free(b);
}
static void cfg_ctr_kdf(uint8_t *out, size_t n, const uint8_t *in, size_t l, uint32_t start) {
	uint8_t *buf = malloc(l + 4), h[64]; memcpy(buf, in, l); size_t off = 0;
	for (uint32_t c = start; off < n; c++) { buf[l] = (uint8_t)(c >> 24); buf[l + 1] = (uint8_t)(c >> 16); buf[l + 2] = (uint8_t)(c >> 8); buf[l + 3] = (uint8_t)c; cfg_hash(h, buf, l + 4); size_t m = n - off < RLC_MD_LEN ? n - off : RLC_MD_LEN; memcpy(out + off, h, m); off += m; }
	free(buf);
}
typedef void (*md_fn)(uint8_t *, const uint8_t *, size_t);
static const struct { const char *n, *evp; md_fn f; size_t len; } MD[] = {
	{"md_map_sh224", "SHA224", md_map_sh224, 28}, {"md_map_sh256", "SHA256", md_map_sh256, 32}, {"md_map_sh384", "SHA384", md_map_sh384, 48},
	{"md_map_sh512", "SHA512", md_map_sh512, 64}, {"md_map_b2s256", "BLAKE2s256", md_map_b2s256, 32}, {"md_map_b2s160", NULL, md_map_b2s160, 20}};

static void do_hash(vf_case *c) { /* alg, len, pattern */
	int a = (int)mpz_get_si(c->v[0]); size_t l = mpz_get_ui(c->v[1]); int pat = (int)mpz_get_si(c->v[2]);
	uint8_t got[80], exp[80]; fill(MSG, l, pat); memset(got, 0xA5, sizeof got);
	int th; VF_TRY(th, MD[a].f(got, MSG, l)); transitions++;
	if (th) { vf_fail(NULL, "%s raised %d", MD[a].n, th); return; }
	if (MD[a].evp) ref_digest(MD[a].evp, MSG, l, exp); else ref_blake2s(exp, 20, MSG, l);
	if (memcmp(got, exp, MD[a].len)) vf_fail(NULL, "%s: digest of %zu bytes differs from the standard", MD[a].n, l);
	else if (got[MD[a].len] != 0xA5) vf_fail(NULL, "%s wrote beyond the digest length", MD[a].n);
}
static void do_hmac(vf_case *c) { /* keylen, msglen, pattern */
	size_t kl = mpz_get_ui(c->v[0]), l = mpz_get_ui(c->v[1]); int pat = (int)mpz_get_si(c->v[2]);
	uint8_t got[96], exp[96]; fill(MSG, l, pat); fill(KEY, kl, (pat + 2) % 4); memset(got, 0xA5, sizeof got);
	int th; VF_TRY(th, md_hmac(got, MSG, l, KEY, kl)); transitions++;
	if (th) { vf_fail(NULL, "md_hmac raised %d", th); return; }
	cfg_hmac(exp, KEY, kl, MSG, l);
#if MD_MAP == SH256
	{ uint8_t e2[64]; unsigned ol; HMAC(EVP_sha256(), kl ? KEY : (const uint8_t *)"", (int)kl, MSG, l, e2, &ol); if (memcmp(e2, exp, 32)) { fprintf(stderr, "reference HMAC disagrees with OpenSSL\n"); exit(2); } }
#endif
	if (memcmp(got, exp, RLC_MD_LEN)) vf_fail(NULL, "md_hmac(key %zu bytes, msg %zu bytes) differs from RFC 2104", kl, l);
	else if (got[RLC_MD_LEN] != 0xA5) vf_fail(NULL, "md_hmac wrote beyond the tag");
	/* the generic entry point maps to the configured hash */
	if (kl == 0) { memset(got, 0xA5, sizeof got); VF_TRY(th, md_map(got, MSG, l)); transitions++; cfg_hash(exp, MSG, l); if (th) vf_fail(NULL, "md_map raised"); else if (memcmp(got, exp, RLC_MD_LEN)) vf_fail(NULL, "md_map(%zu bytes) is not the configured hash", l); else if (got[RLC_MD_LEN] != 0xA5) vf_fail(NULL, "md_map wrote beyond the digest"); }
}
static void do_kdf(vf_case *c) { /* kind (0 mgf, 1 kdf), outlen, inlen */
	int kind = (int)mpz_get_si(c->v[0]); size_t n = mpz_get_ui(c->v[1]), il = mpz_get_ui(c->v[2]);
	static uint8_t got[70100], exp[70100]; fill(MSG, il, 2); memset(got, 0xA5, n + 8);
	int th; if (kind) VF_TRY(th, md_kdf(got, n, MSG, il)); else VF_TRY(th, md_mgf(got, n, MSG, il)); transitions++;
	if (th) { vf_fail(NULL, "%s raised %d", kind ? "md_kdf" : "md_mgf", th); return; }
	cfg_ctr_kdf(exp, n, MSG, il, kind ? 1 : 0);
	if (memcmp(got, exp, n)) vf_fail(NULL, "%s(out %zu, in %zu) differs from %s", kind ? "md_kdf" : "md_mgf", n, il, kind ? "KDF2" : "MGF1");
	else for (int i = 0; i < 8; i++) if (got[n + i] != 0xA5) { vf_fail(NULL, "%s wrote beyond the requested length", kind ? "md_kdf" : "md_mgf"); break; }
}
typedef void (*xmd_fn)(uint8_t *, size_t, const uint8_t *, size_t, const uint8_t *, size_t);
static const struct { const char *n, *evp; xmd_fn f; size_t hlen, blk; } XM[] = {{"md_xmd_sh224", "SHA224", md_xmd_sh224, 28, 64}, {"md_xmd_sh256", "SHA256", md_xmd_sh256, 32, 64}, {"md_xmd_sh384", "SHA384", md_xmd_sh384, 48, 128}, {"md_xmd_sh512", "SHA512", md_xmd_sh512, 64, 128}};
static void do_xmd(vf_case *c) { /* alg, outlen, msglen, dstlen */
	int a = (int)mpz_get_si(c->v[0]); size_t n = mpz_get_ui(c->v[1]), ml = mpz_get_ui(c->v[2]), dl = mpz_get_ui(c->v[3]);
	static uint8_t got[17000], exp[17000]; fill(MSG, ml, 2); fill(DST, dl, 2); memset(got, 0xA5, n + 8);
	int ok = ref_xmd(XM[a].evp, XM[a].hlen, XM[a].blk, exp, n, MSG, ml, DST, dl);
	int th; VF_TRY(th, XM[a].f(got, n, MSG, ml, DST, dl)); transitions++;
	if (!ok) { if (!th) vf_fail(NULL, "%s: parameters outside RFC 9380 (out %zu, dst %zu) were not refused", XM[a].n, n, dl); return; }
	if (th) { vf_fail(NULL, "%s(out %zu, msg %zu, dst %zu) raised %d", XM[a].n, n, ml, dl, th); return; }
	if (memcmp(got, exp, n)) vf_fail(NULL, "%s(out %zu, msg %zu, dst %zu) differs from expand_message_xmd", XM[a].n, n, ml, dl);
	else for (int i = 0; i < 8; i++) if (got[n + i] != 0xA5) { vf_fail(NULL, "%s wrote beyond the requested length", XM[a].n); break; }
}
static void do_aes(vf_case *c) { /* keysize, plen, iv selector */
	int ks = (int)mpz_get_si(c->v[0]); size_t l = mpz_get_ui(c->v[1]); int ivs = (int)mpz_get_si(c->v[2]);
	uint8_t iv[16], ct[400], ct2[400], pt[400]; fill(KEY, 32, 2); for (int i = 0; i < 16; i++) iv[i] = (uint8_t)(ivs ? 0xF0 + i : 0); fill(MSG, l, 2);
	int valid_key = (ks == 16 || ks == 24 || ks == 32);
	size_t ol = 380; memset(ct, 0xA5, sizeof ct);
	int r = bc_aes_cbc_enc(ct, &ol, MSG, l, KEY, (size_t)ks, iv); transitions++;
	if (!valid_key) { if (r == RLC_OK) vf_fail(NULL, "bc_aes_cbc_enc accepted a %d-byte key", ks); return; }
	int el = ref_aes_cbc_enc(ct2, MSG, l, KEY, ks, iv);
	const char *kf = l == 0 ? "L20-aes-empty-plaintext" : NULL;
	if (r != RLC_OK) { vf_fail(kf, "bc_aes_cbc_enc refused a %zu-byte plaintext", l); }
	else if (ol != (size_t)el || memcmp(ct, ct2, ol)) vf_fail(kf, "bc_aes_cbc_enc(%d-byte key, %zu bytes) differs from SP 800-38A CBC with PKCS#7", ks, l);
	else if (ct[ol] != 0xA5) vf_fail(NULL, "bc_aes_cbc_enc wrote beyond the ciphertext");
	/* output buffer one byte too small must be refused without writing beyond it */
	{ size_t small = (size_t)el - 1; memset(ct, 0xA5, sizeof ct); size_t o2 = small; int r2 = bc_aes_cbc_enc(ct, &o2, MSG, l, KEY, (size_t)ks, iv); transitions++;
		if (r2 == RLC_OK) vf_fail(NULL, "bc_aes_cbc_enc accepted an output buffer one byte too small"); if (ct[small] != 0xA5) vf_fail(NULL, "bc_aes_cbc_enc wrote beyond a too-small buffer"); }
	/* decryption of the reference ciphertext */
	size_t pl = 380; memset(pt, 0xA5, sizeof pt);
	r = bc_aes_cbc_dec(pt, &pl, ct2, (size_t)el, KEY, (size_t)ks, iv); transitions++;
	if (r != RLC_OK) vf_fail(kf, "bc_aes_cbc_dec refused a valid ciphertext (%zu-byte plaintext)", l);
	else if (pl != l || memcmp(pt, MSG, l)) vf_fail(kf, "bc_aes_cbc_dec does not invert encryption (%zu bytes)", l);
}
/* ciphertext operators: keysize, plen, op (0 flip byte, 1 truncate by k, 2 empty), index/amount, xor value */
static void do_aesmut(vf_case *c) {
	int ks = (int)mpz_get_si(c->v[0]); size_t l = mpz_get_ui(c->v[1]); int op = (int)mpz_get_si(c->v[2]); size_t idx = mpz_get_ui(c->v[3]); int xv = (int)mpz_get_si(c->v[4]);
	uint8_t iv[16], ct[400], pt[400], rp[400]; fill(KEY, 32, 2); for (int i = 0; i < 16; i++) iv[i] = (uint8_t)(0xF0 + i); fill(MSG, l, 2);
	int el = ref_aes_cbc_enc(ct, MSG, l, KEY, ks, iv); size_t cl = (size_t)el;
	if (op == 0) { if (idx >= cl) return; ct[idx] ^= (uint8_t)xv; } else if (op == 1) { if (idx > cl) return; cl -= idx; } else cl = 0;
	int expl = ref_aes_cbc_dec(rp, ct, cl, KEY, ks, iv);
	size_t pl = 380; memset(pt, 0xA5, sizeof pt);
	int r = bc_aes_cbc_dec(pt, &pl, ct, cl, KEY, (size_t)ks, iv); transitions++;
	const char *kf = (expl == 0) ? "L20-aes-empty-plaintext" : NULL;
	if (expl < 0) { if (r == RLC_OK) vf_fail(NULL, "bc_aes_cbc_dec accepted a ciphertext with invalid padding or length (op %d idx %zu xor %02x, len %zu)", op, idx, xv, cl); }
	else { if (r != RLC_OK) vf_fail(kf, "bc_aes_cbc_dec rejected a ciphertext whose padding is valid (op %d idx %zu xor %02x)", op, idx, xv); else if (pl != (size_t)expl || memcmp(pt, rp, pl)) vf_fail(kf, "bc_aes_cbc_dec plaintext differs from the reference on a mutated ciphertext"); }
	for (size_t i = cl > 0 ? cl : 1; i < cl + 8 && i < sizeof pt; i++) if (pt[i] != 0xA5) { vf_fail(NULL, "bc_aes_cbc_dec wrote beyond the ciphertext length"); break; }
	/* output buffer shorter than the ciphertext is refused */
	if (cl > 1) { size_t o = cl - 1; memset(pt, 0xA5, sizeof pt); int r2 = bc_aes_cbc_dec(pt, &o, ct, cl, KEY, (size_t)ks, iv); if (r2 == RLC_OK && o > cl - 1) vf_fail(NULL, "bc_aes_cbc_dec overran a short output buffer"); if (pt[cl - 1] != 0xA5 && r2 != RLC_OK) vf_fail(NULL, "bc_aes_cbc_dec wrote into a refused buffer beyond its length"); }
}

static void run_case(vf_case *c) {
	vf_nontrivial(); if (!vf_replaying) vf_stat_add("states", 1); /* every case is a distinct (primitive, lengths, pattern / operator) point of the enumerated grid */
	if (!strcmp(c->op, "hash")) do_hash(c); else if (!strcmp(c->op, "hmac")) do_hmac(c); else if (!strcmp(c->op, "kdf")) do_kdf(c);
	else if (!strcmp(c->op, "xmd")) do_xmd(c); else if (!strcmp(c->op, "aes")) do_aes(c); else if (!strcmp(c->op, "aesmut")) do_aesmut(c); else vf_fail(NULL, "unknown op");
}

static vf_case K;
static void R(const char *op, int n, long a, long b, long c2, long d, long e) { K.op = op; K.n = n; mpz_set_si(K.v[0], a); mpz_set_si(K.v[1], b); mpz_set_si(K.v[2], c2); mpz_set_si(K.v[3], d); mpz_set_si(K.v[4], e); vf_run(&K); }

static void enumerate(void) {
	vf_case_init(&K);
	if (vf_bound_on("digests-every-length")) {
		long ML = vf_tier ? 4200 : 1100; long extra[] = {511, 512, 513, 1023, 1024, 1025, 4096, 65537};
		for (int a = 0; a < 6; a++) for (int pat = 0; pat < 4; pat++) {
			for (long l = 0; l <= ML; l++) if (vf_mine()) R("hash", 3, a, l, pat, 0, 0);
			for (unsigned i = 0; i < 8; i++) if (vf_mine()) R("hash", 3, a, extra[i], pat, 0, 0);
		}
		vf_bound_done("digests-every-length");
	}
	if (vf_bound_on("mac-hmac-key-x-message-lengths")) {
		long kls[] = {0, 1, 31, 32, 33, 63, 64, 65, 127, 128, 129, 200};
		{ long KL = vf_tier ? 300 : 140; for (long kl = 0; kl <= KL; kl++) for (long l = 0; l <= (vf_tier ? 300 : 140); l += (l < 150 ? 1 : 7)) if (vf_mine()) R("hmac", 3, kl, l, 2, 0, 0); }
		for (unsigned k = 0; k < 12; k++) for (long l = 0; l <= 150; l++) for (int pat = 0; pat < 3; pat++) if (vf_mine()) R("hmac", 3, kls[k], l, pat, 0, 0);
		vf_bound_done("mac-hmac-key-x-message-lengths");
	}
	if (vf_bound_on("mac-kdf-mgf-every-output-length")) {
		long ins[] = {0, 1, 32, 55, 56, 64, 100}, outs[] = {255, 256, 257, 1000, 8191, 8192, 8193};
		for (int kind = 0; kind < 2; kind++) for (unsigned k = 0; k < 7; k++) { for (long n = 0; n <= (vf_tier ? 700 : 270); n++) if (vf_mine()) R("kdf", 3, kind, n, ins[k], 0, 0); for (unsigned j = 0; j < 7; j++) if (vf_mine()) R("kdf", 3, kind, outs[j], ins[k], 0, 0); }
		vf_bound_done("mac-kdf-mgf-every-output-length");
	}
	if (vf_bound_on("xmd")) {
		long mls[] = {0, 1, 55, 56, 64, 200}, dls[] = {0, 1, 16, 43, 255, 256};
		for (int a = 0; a < 4; a++) { long h = (long)XM[a].hlen; long outs[] = {0, 1, h - 1, h, h + 1, 2 * h, 2 * h + 1, 96, 128, 255 * h, 255 * h + 1};
			for (unsigned o = 0; o < 11; o++) for (unsigned m = 0; m < 6; m++) for (unsigned d = 0; d < 6; d++) if (vf_mine()) R("xmd", 4, a, outs[o], mls[m], dls[d], 0);
			for (long n = 0; n <= (vf_tier ? 2100 : 700); n++) if (vf_mine()) R("xmd", 4, a, n, n % 77, 16 + (n % 5), 0);
			for (long d = 0; d <= 257; d++) if (vf_mine()) R("xmd", 4, a, 2 * h + 3, d % 19, d, 0); }
		vf_bound_done("xmd");
	}
	if (vf_bound_on("aes-cbc")) {
		int kss[] = {16, 24, 32, 0, 15, 17, 33};
		for (unsigned k = 0; k < 7; k++) for (long l = 0; l <= 80; l++) for (int ivs = 0; ivs < 2; ivs++) if (vf_mine()) { if (k >= 3 && l > 2) continue; R("aes", 3, kss[k], l, ivs, 0, 0); }
		/* ciphertext operators: every byte of the last two blocks x xor alphabet (padding-oracle surface), truncations, empty */
		int xs[] = {0x01, 0x02, 0x0F, 0x10, 0x80, 0xFF};
		for (unsigned k = 0; k < 3; k++) for (long l = 0; l <= 48; l += (l < 18 ? 1 : 5)) if (vf_mine()) {
			long cl = (l / 16 + 1) * 16;
			for (long idx = (cl >= 32 ? cl - 32 : 0); idx < cl; idx++) for (unsigned x = 0; x < 6; x++) R("aesmut", 5, kss[k], l, 0, idx, xs[x]);
			if (vf_tier || l % 16 == 15 || l % 16 == 0) for (int xv = 1; xv < 256; xv++) R("aesmut", 5, kss[k], l, 0, cl - 1, xv); /* every value of the last (padding length) byte */
			for (long t = 1; t <= 17; t++) R("aesmut", 5, kss[k], l, 1, t, 0);
			R("aesmut", 5, kss[k], l, 2, 0, 0);
		}
		vf_bound_done("aes-cbc");
	}
	vf_stat_add("transitions", transitions);
}

VF_MAIN()
