/*
 * C06 (protocol part) -- set intersection, delegated pairing, Pedersen commitment, scalar-multiplication / exponentiation / pairing triples.
 *
 *   psi: the three private-set-intersection protocols (cp_rsapsi, cp_shipsi, cp_pbpsi). Alphabet: a universe of six elements (0, 1, 2, n - 1 and two
 *     dense ones); EVERY pair (X, Y) of subsets of at most three elements (42 x 42 pairs, incl. empty sets, equal sets, disjoint sets, nested sets), in
 *     ascending and in descending / rotated array order; the client's output must be exactly X intersect Y as a multiset (each common element once).
 *   del: the four delegated-pairing protocols (cp_pdpub, cp_lvpub, cp_pdprv, cp_lvprv) over a grid of inputs P = [a]G1, Q = [b]G2 (a, b in 0, 1, 2,
 *     n - 1, dense): with the honest helper the client must accept and output e(P, Q); then EVERY answer of the helper is altered in EVERY way of the
 *     mutation alphabet (times the generator, squared, inverted, replaced by 1, by 0, by another answer, by a non-member; and, for a challenge that is a multiple of a small prime l, times an element of order l outside GT): whenever the client accepts,
 *     its output must still be e(P, Q) ("outputs the pairing value or rejects a dishonest helper").
 *   ped: cp_ped_com(c, h, r, x) = [x]G + [r]H by the plain double-and-add multiplication, over edge and dense (x, r); x = 0, x >= n, H = O refused.
 *   tri: the g1 / g2 / gt triples (g*_mul_lcl/bct/mpc, gt_exp_*) and the pairing triple (pc_map_tri/lcl/bct/mpc): both parties' outputs combine to
 *     [k]P, P^k, e(P, Q) for edge and dense k and P incl. the identity, for every way of splitting the inputs into shares from the share alphabet.
 * The pairing, the group operations and the plain multiplications used to state the expected values are the ones decided against the reference
 * model in C03 / C04 / C11 / C12; this harness decides the protocol logic on top of them.
 */
#include "pc_common.h"

static void harness_setup(void) { if (core_init() != RLC_OK) exit(2); vf_reseed(); tiny_curves_setup(); ep2_common_setup(); }
static void seed_drbg(unsigned long s) { uint8_t seed[64]; for (int i = 0; i < 64; i++) seed[i] = (uint8_t)(i * 11 + 3 + s * 29 + (s >> 2) * i); core_get()->seeded = 0; rand_seed(seed, sizeof seed); }
static unsigned long long njudged = 0;
#ifdef FAM /* builds of the other pairing families: the set pc_param_set_any selects, whatever identifier a case names */
static int fam_state = 0; static int select_any(void) { if (!fam_state) { int th, v = RLC_ERR; VF_TRY(th, v = pc_param_set_any()); fam_state = (!th && v == RLC_OK) ? 1 : -1; if (fam_state == 1) vf_fp_sync(); } return fam_state == 1; }
#define select_pc(C) select_any()
#endif
#define CHECK(cond, ...) do { transitions++; njudged++; if (!(cond)) vf_fail(NULL, __VA_ARGS__); } while (0)

/* ---------------------------------------------------------------- private set intersection */
#define UNI 6
#define MAXS 3
/* psi: protocol, X mask, Y mask, order, seed */
static void do_psi(vf_case *c) {
	int proto = (int)mpz_get_si(c->v[0]); unsigned xm = (unsigned)mpz_get_ui(c->v[1]), ym = (unsigned)mpz_get_ui(c->v[2]); int order = (int)mpz_get_si(c->v[3]); unsigned long seed = mpz_get_ui(c->v[4]); int th, v;
	static bn_t g, n, q, sk, U[UNI]; static crt_t crt; static g1_t ss; static g2_t s[MAXS + 2]; static int kproto = -1; static unsigned long kseed = ~0UL; static int inited = 0;
	if (!inited) { bn_null(g); bn_null(n); bn_null(q); bn_null(sk); bn_new(g); bn_new(n); bn_new(q); bn_new(sk); crt_null(crt); crt_new(crt); for (int i = 0; i < UNI; i++) { bn_null(U[i]); bn_new(U[i]); } inited = 1; }
	if (proto == 2 && !select_pc(BN_P256)) { vf_fail(NULL, "parameter set refused"); return; }
	if (kproto != proto || kseed != seed) { seed_drbg(seed); const bn_st *mod;
		if (proto == 0) { VF_TRY(th, v = cp_rsapsi_gen(g, n, 512)); if (th || v != RLC_OK) { vf_fail(NULL, "cp_rsapsi_gen failed"); return; } mod = n; }
		else if (proto == 1) { VF_TRY(th, v = cp_shipsi_gen(g, crt, 512)); if (th || v != RLC_OK) { vf_fail(NULL, "cp_shipsi_gen failed"); return; } mod = crt->n; }
		else { static int g2i = 0; if (!g2i) { g1_null(ss); g1_new(ss); for (int i = 0; i < MAXS + 2; i++) { g2_null(s[i]); g2_new(s[i]); } g2i = 1; } VF_TRY(th, v = cp_pbpsi_gen(sk, ss, s, MAXS)); if (th || v != RLC_OK) { vf_fail(NULL, "cp_pbpsi_gen failed"); return; } pc_get_ord(q); mod = q; }
		bn_zero(U[0]); bn_set_dig(U[1], 1); bn_set_dig(U[2], 2); bn_sub_dig(U[3], mod, 1); bn_rand_mod(U[4], mod); bn_rand_mod(U[5], mod); kproto = proto; kseed = seed; }
	size_t m = 0, l = 0; bn_t x[MAXS + 1], y[MAXS + 1], p[MAXS + 1], z[MAXS * MAXS + 2], d, r, w, tv[MAXS + 1], uv[MAXS + 1]; int xi[MAXS + 1], yi[MAXS + 1];
	for (int i = 0; i <= MAXS; i++) { bn_null(x[i]); bn_null(y[i]); bn_null(p[i]); bn_null(tv[i]); bn_null(uv[i]); bn_new(x[i]); bn_new(y[i]); bn_new(p[i]); bn_new(tv[i]); bn_new(uv[i]); } for (int i = 0; i < MAXS * MAXS + 2; i++) { bn_null(z[i]); bn_new(z[i]); } bn_null(d); bn_null(r); bn_null(w); bn_new(d); bn_new(r); bn_new(w);
	for (int i = 0; i < UNI; i++) { int e = order ? UNI - 1 - i : i; if (xm & (1u << e)) { xi[m] = e; bn_copy(x[m++], U[e]); } } for (int i = 0; i < UNI; i++) { int e = order ? (i + 2) % UNI : i; if (ym & (1u << e)) { yi[l] = e; bn_copy(y[l++], U[e]); } }
	unsigned im = xm & ym; size_t want = (size_t)__builtin_popcount(im), got = 99; seed_drbg(seed * 1000 + xm * 64 + ym);
	static const char *PN[] = {"cp_rsapsi", "cp_shipsi", "cp_pbpsi"};
	if (proto == 0) { VF_TRY(th, v = cp_rsapsi_ask(d, r, p, g, n, (const bn_t *)x, m)); if (th || v != RLC_OK) { vf_fail(NULL, "cp_rsapsi_ask failed (m = %zu)", m); goto done; }
		VF_TRY(th, v = cp_rsapsi_ans(tv, uv, d, g, n, (const bn_t *)y, l)); if (th || v != RLC_OK) { if (l == 0) { vf_stat_add("x.psi_empty_server_set_refused", 1); goto done; } vf_fail(NULL, "cp_rsapsi_ans failed (l = %zu)", l); goto done; }
		VF_TRY(th, v = cp_rsapsi_int(z, &got, r, (const bn_t *)p, n, (const bn_t *)x, m, (const bn_t *)tv, (const bn_t *)uv, l)); }
	else if (proto == 1) { VF_TRY(th, v = cp_shipsi_ask(d, r, p, g, crt->n, (const bn_t *)x, m)); if (th || v != RLC_OK) { vf_fail(NULL, "cp_shipsi_ask failed (m = %zu)", m); goto done; }
		VF_TRY(th, v = cp_shipsi_ans(tv, w, d, g, crt, (const bn_t *)y, l)); if (th || v != RLC_OK) { if (l == 0) { vf_stat_add("x.psi_empty_server_set_refused", 1); goto done; } vf_fail(NULL, "cp_shipsi_ans failed (l = %zu)", l); goto done; }
		VF_TRY(th, v = cp_shipsi_int(z, &got, r, (const bn_t *)p, crt->n, (const bn_t *)x, m, (const bn_t *)tv, w, l)); }
	else { g2_t dd[MAXS + 2]; gt_t t[MAXS + 1]; g1_t u[MAXS + 1]; for (int i = 0; i < MAXS + 2; i++) { g2_null(dd[i]); g2_new(dd[i]); } for (int i = 0; i <= MAXS; i++) { gt_null(t[i]); gt_new(t[i]); g1_null(u[i]); g1_new(u[i]); }
		VF_TRY(th, v = cp_pbpsi_ask(dd, r, (const bn_t *)x, (const g2_t *)s, m)); if (th || v != RLC_OK) { vf_fail(NULL, "cp_pbpsi_ask failed (m = %zu)", m); goto done; }
		VF_TRY(th, v = cp_pbpsi_ans(t, u, ss, dd[0], (const bn_t *)y, l)); if (th || v != RLC_OK) { if (l == 0) { vf_stat_add("x.psi_empty_server_set_refused", 1); goto done; } vf_fail(NULL, "cp_pbpsi_ans failed (l = %zu)", l); goto done; }
		VF_TRY(th, v = cp_pbpsi_int(z, &got, (const g2_t *)dd, (const bn_t *)x, m, (const gt_t *)t, (const g1_t *)u, l)); }
	if (th || v != RLC_OK) { vf_fail(NULL, "%s_int failed (m = %zu, l = %zu)", PN[proto], m, l); goto done; }
	{ char xs[40] = "", ys[40] = ""; for (size_t i = 0; i < m; i++) snprintf(xs + strlen(xs), 8, "u%d ", xi[i]); for (size_t i = 0; i < l; i++) snprintf(ys + strlen(ys), 8, "u%d ", yi[i]);
		CHECK(got == want, "%s: the client outputs %zu elements for X = {%s} and Y = {%s}; the intersection has %zu", PN[proto], got, xs, ys, want);
		if (got == want) { unsigned seen = 0; for (size_t i = 0; i < got; i++) { int hit = -1; for (int e = 0; e < UNI; e++) if ((im & (1u << e)) && !(seen & (1u << e)) && bn_cmp(z[i], U[e]) == RLC_EQ) { hit = e; break; } if (hit < 0) { vf_fail(NULL, "%s: output element %zu is not an element of the intersection (or is repeated) for X = {%s} and Y = {%s}", PN[proto], i, xs, ys); break; } seen |= 1u << hit; } transitions++; } }
done:
	for (int i = 0; i <= MAXS; i++) { bn_free(x[i]); bn_free(y[i]); bn_free(p[i]); bn_free(tv[i]); bn_free(uv[i]); } for (int i = 0; i < MAXS * MAXS + 2; i++) bn_free(z[i]); bn_free(d); bn_free(r); bn_free(w);
}

/* ---------------------------------------------------------------- delegated pairing */
static void pick_scalar(bn_t k, int sel, const bn_t ord) { if (sel == 0) bn_zero(k); else if (sel == 1) bn_set_dig(k, 1); else if (sel == 2) bn_set_dig(k, 2); else if (sel == 3) bn_sub_dig(k, ord, 1); else bn_rand_mod(k, ord); }
#define NMUT 8
static const char *MUTN[NMUT] = {"multiplied by the generator of GT", "squared", "inverted", "replaced by 1", "replaced by 0", "replaced by the next answer", "with 1 added to its first coefficient (a non-member)", "multiplied by e(P, Q)"};
static void mutate(gt_t *g, int ng, int i, int kind, const gt_t E) { gt_t t; gt_null(t); gt_new(t);
	switch (kind) { case 0: gt_get_gen(t); gt_mul(g[i], g[i], t); break; case 1: gt_sqr(g[i], g[i]); break; case 2: gt_inv(g[i], g[i]); break; case 3: gt_set_unity(g[i]); break; case 4: gt_zero(g[i]); break;
		case 5: gt_copy(g[i], g[(i + 1) % ng]); break; case 6: { fp_st *s = (fp_st *)g[i]; fp_add_dig(s[0], s[0], 1); break; } default: gt_mul(g[i], g[i], E); break; }
	gt_free(t); }

/* an element of small prime order l outside GT: l | Phi_12(p) / r found by trial division, w = f^((p^12 - 1) / l) != 1 computed by the reference tower */
static gt_t SMALLW; static unsigned long SMALLL = 0; static long smallw_cid = -1;
static int small_order_element(long cid) {
#ifdef FAM
	(void)cid; return 0; /* the cofactor of the target group is family-specific: not built here */
#endif
	if (smallw_cid == cid) return SMALLL != 0; smallw_cid = cid; SMALLL = 0; static int init = 0; if (!init) { gt_null(SMALLW); gt_new(SMALLW); init = 1; }
	mpz_t phi, r, t, e; mpz_inits(phi, r, t, e, NULL); bn_t ord; bn_null(ord); bn_new(ord); pc_get_ord(ord); vf_bn_get(r, ord); bn_free(ord);
	mpz_pow_ui(phi, vf_p, 4); mpz_pow_ui(t, vf_p, 2); mpz_sub(phi, phi, t); mpz_add_ui(phi, phi, 1); /* Phi_12(p) */ if (!mpz_divisible_p(phi, r)) { mpz_clears(phi, r, t, e, NULL); return 0; } mpz_divexact(phi, phi, r);
	for (unsigned long l = 5; l < 20000 && !SMALLL; l += 2) { int pr = 1; for (unsigned long d = 3; d * d <= l; d += 2) if (l % d == 0) { pr = 0; break; } if (pr && mpz_divisible_ui_p(phi, l)) SMALLL = l; }
	if (SMALLL) { mpz_divexact_ui(e, GT_Q12, SMALLL); relt f, w; relt_init(&f); relt_init(&w); int found = 0; for (unsigned long s0 = 2; s0 < 40 && !found; s0++) { for (int i = 0; i < 12; i++) mpz_set_ui(f.c[i], s0 + (unsigned long)i * i + 1); relt_pow(&T12, &w, &f, e); if (!gt_ref_is_one(&w)) found = 1; }
		if (found) gt_put(SMALLW, &w); else SMALLL = 0; relt_clear(&f); relt_clear(&w); }
	mpz_clears(phi, r, t, e, NULL); return SMALLL != 0;
}
/* del: protocol, cid, a selector, b selector, seed */
static void do_del(vf_case *c) {
	int proto = (int)mpz_get_si(c->v[0]); long cid = mpz_get_si(c->v[1]); int as = (int)mpz_get_si(c->v[2]), bs = (int)mpz_get_si(c->v[3]); unsigned long seed = mpz_get_ui(c->v[4]); int th, v;
	if (!select_pc(cid)) { vf_fail(NULL, "parameter set refused"); return; } seed_drbg(seed);
	static const char *PN[] = {"cp_pdpub", "cp_lvpub", "cp_pdprv", "cp_lvprv"}; static const int NG[] = {3, 2, 4, 3}; /* cp_lvprv_ans fills three of its four slots */ int ng = NG[proto];
	bn_t ord, a, b, cc, r1, r2[3]; g1_t P, u1[2], v1[3]; g2_t Q, u2[2], v2[4], w2[4]; gt_t E, e[2], r, g[4], gh[4];
	bn_null(ord); bn_null(a); bn_null(b); bn_null(cc); bn_null(r1); bn_new(ord); bn_new(a); bn_new(b); bn_new(cc); bn_new(r1); g1_null(P); g1_new(P); g2_null(Q); g2_new(Q); gt_null(E); gt_new(E); gt_null(r); gt_new(r);
	for (int i = 0; i < 3; i++) { bn_null(r2[i]); bn_new(r2[i]); g1_null(v1[i]); g1_new(v1[i]); } for (int i = 0; i < 2; i++) { g1_null(u1[i]); g1_new(u1[i]); g2_null(u2[i]); g2_new(u2[i]); gt_null(e[i]); gt_new(e[i]); } for (int i = 0; i < 4; i++) { g2_null(v2[i]); g2_new(v2[i]); g2_null(w2[i]); g2_new(w2[i]); gt_null(g[i]); gt_new(g[i]); gt_null(gh[i]); gt_new(gh[i]); }
	pc_get_ord(ord); pick_scalar(a, as, ord); pick_scalar(b, bs, ord); g1_mul_gen(P, a); g2_mul_gen(Q, b); VF_TRY(th, pc_map(E, P, Q)); if (th) { vf_fail(NULL, "pc_map raised"); goto done; }
	/* offline + online phases with the honest helper */
	switch (proto) {
		case 0: VF_TRY(th, v = cp_pdpub_gen(cc, r2[0], u1[0], u2[0], v2[0], e[0])); if (th || v != RLC_OK) goto genfail; VF_TRY(th, v = cp_pdpub_ask(v1[0], w2[0], P, Q, cc, r2[0], u1[0], u2[0], v2[0])); if (th || v != RLC_OK) goto askfail; VF_TRY(th, v = cp_pdpub_ans(gh, P, Q, v1[0], v2[0], w2[0])); break;
		case 1: VF_TRY(th, v = cp_lvpub_gen(r2[0], u1[0], u2[0], v2[0], e[0])); if (th || v != RLC_OK) goto genfail; VF_TRY(th, v = cp_lvpub_ask(cc, v1[0], w2[0], P, Q, r2[0], u1[0], u2[0], v2[0])); if (th || v != RLC_OK) goto askfail; VF_TRY(th, v = cp_lvpub_ans(gh, P, Q, v1[0], v2[0], w2[0])); break;
		case 2: VF_TRY(th, v = cp_pdprv_gen(cc, r2, u1, u2, v2, e)); if (th || v != RLC_OK) goto genfail; VF_TRY(th, v = cp_pdprv_ask(v1, w2, P, Q, cc, (const bn_t *)r2, (const g1_t *)u1, (const g2_t *)u2, (const g2_t *)v2)); if (th || v != RLC_OK) goto askfail; VF_TRY(th, v = cp_pdprv_ans(gh, (const g1_t *)v1, (const g2_t *)w2)); break;
		default: VF_TRY(th, v = cp_lvprv_gen(cc, r2, u1, u2, v2, e)); if (th || v != RLC_OK) goto genfail; VF_TRY(th, v = cp_lvprv_ask(v1, w2, P, Q, cc, (const bn_t *)r2, (const g1_t *)u1, (const g2_t *)u2, (const g2_t *)v2)); if (th || v != RLC_OK) goto askfail; VF_TRY(th, v = cp_lvprv_ans(gh, (const g1_t *)v1, (const g2_t *)w2)); break; }
	if (th || v != RLC_OK) { vf_fail(NULL, "%s_ans failed", PN[proto]); goto done; }
#define VER(G) do { gt_zero(r); switch (proto) { case 0: VF_TRY(th, v = cp_pdpub_ver(r, (const gt_t *)G, cc, e[0])); break; case 1: VF_TRY(th, v = cp_lvpub_ver(r, (const gt_t *)G, cc, e[0])); break; case 2: VF_TRY(th, v = cp_pdprv_ver(r, (const gt_t *)G, cc, (const gt_t *)e)); break; default: VF_TRY(th, v = cp_lvprv_ver(r, (const gt_t *)G, cc, (const gt_t *)e)); break; } } while (0)
	VER(gh); int unity = gt_is_unity(E);
	CHECK(!th && (v == 1 || (unity && v == 0)), "%s_ver rejects the honest helper (returned %d, raised %d) for P = [sel %d]G1, Q = [sel %d]G2", PN[proto], v, th, as, bs);
	if (!th && v == 1) CHECK(gt_cmp(r, E) == RLC_EQ, "%s_ver accepts the honest helper but outputs something else than e(P, Q) for P = [sel %d]G1, Q = [sel %d]G2", PN[proto], as, bs);
	if (!th && v == 0) CHECK(gt_is_unity(r), "%s_ver rejects but does not reset its output to 1", PN[proto]);
	/* every answer altered in every way */
	for (int i = 0; i < ng; i++) for (int kind = 0; kind < NMUT; kind++) { for (int j = 0; j < ng; j++) gt_copy(g[j], gh[j]); mutate(g, ng, i, kind, E); int same = 1; for (int j = 0; j < ng; j++) if (gt_cmp(g[j], gh[j]) != RLC_EQ) same = 0; if (same) continue;
		VER(g); if (getenv("VF_DEBUG")) fprintf(stderr, "dbg proto %d ans %d kind %d: th %d v %d r==E %d r==1 %d valid(g_i) %d\n", proto, i, kind, th, v, gt_cmp(r, E) == RLC_EQ, gt_is_unity(r), gt_is_valid(g[i])); if (th) { vf_statf_add(1, "x.del_ver_raised.%s", PN[proto]); continue; }
		CHECK(v == 0 || v == 1, "%s_ver returns %d (neither accept nor reject) when the helper's answer %d is %s", PN[proto], v, i, MUTN[kind]);
		if (v != 0) CHECK(gt_cmp(r, E) == RLC_EQ, "%s_ver ACCEPTS a dishonest helper and outputs a value different from e(P, Q): answer %d %s (P = [sel %d]G1, Q = [sel %d]G2)", PN[proto], i, MUTN[kind], as, bs);
		else vf_stat_add("x.del_dishonest_rejected", 1); }
	/* answers carrying a component of small order l outside GT, for a challenge that is a multiple of l (the consistency equation cannot see the
	   component of an answer that is raised to the challenge; only the membership check can) */
	if (small_order_element(cid)) { int ok = 1;
		switch (proto) {
			case 0: VF_TRY(th, v = cp_pdpub_gen(cc, r2[0], u1[0], u2[0], v2[0], e[0])); { dig_t rem; bn_mod_dig(&rem, cc, (dig_t)SMALLL); bn_sub_dig(cc, cc, rem); if (bn_is_zero(cc)) bn_set_dig(cc, (dig_t)SMALLL); } VF_TRY(th, v = cp_pdpub_ask(v1[0], w2[0], P, Q, cc, r2[0], u1[0], u2[0], v2[0])); VF_TRY(th, v = cp_pdpub_ans(gh, P, Q, v1[0], v2[0], w2[0])); break;
			case 1: VF_TRY(th, v = cp_lvpub_gen(r2[0], u1[0], u2[0], v2[0], e[0])); ok = 0; for (int tries = 0; tries < 40 * (int)SMALLL && !ok; tries++) { VF_TRY(th, v = cp_lvpub_ask(cc, v1[0], w2[0], P, Q, r2[0], u1[0], u2[0], v2[0])); dig_t rem; bn_mod_dig(&rem, cc, (dig_t)SMALLL); ok = rem == 0 && !bn_is_zero(cc); } if (ok) VF_TRY(th, v = cp_lvpub_ans(gh, P, Q, v1[0], v2[0], w2[0])); break;
			case 2: VF_TRY(th, v = cp_pdprv_gen(cc, r2, u1, u2, v2, e)); { dig_t rem; bn_mod_dig(&rem, cc, (dig_t)SMALLL); bn_sub_dig(cc, cc, rem); if (bn_is_zero(cc)) bn_set_dig(cc, (dig_t)SMALLL); } VF_TRY(th, v = cp_pdprv_ask(v1, w2, P, Q, cc, (const bn_t *)r2, (const g1_t *)u1, (const g2_t *)u2, (const g2_t *)v2)); VF_TRY(th, v = cp_pdprv_ans(gh, (const g1_t *)v1, (const g2_t *)w2)); break;
			default: VF_TRY(th, v = cp_lvprv_gen(cc, r2, u1, u2, v2, e)); { dig_t rem; bn_mod_dig(&rem, cc, (dig_t)SMALLL); bn_sub_dig(cc, cc, rem); if (bn_is_zero(cc)) bn_set_dig(cc, (dig_t)SMALLL); } VF_TRY(th, v = cp_lvprv_ask(v1, w2, P, Q, cc, (const bn_t *)r2, (const g1_t *)u1, (const g2_t *)u2, (const g2_t *)v2)); VF_TRY(th, v = cp_lvprv_ans(gh, (const g1_t *)v1, (const g2_t *)w2)); break; }
		if (!ok) vf_stat_add("x.del_no_challenge_multiple_found", 1);
		else { VER(gh); CHECK(!th && (v == 1 || (unity && v == 0)), "%s_ver rejects the honest helper for a challenge that is a multiple of %lu", PN[proto], SMALLL); if (!th && v == 1) CHECK(gt_cmp(r, E) == RLC_EQ, "%s_ver: honest helper, challenge multiple of %lu: output differs from e(P, Q)", PN[proto], SMALLL);
			for (int i = 0; i < ng; i++) { for (int j = 0; j < ng; j++) gt_copy(g[j], gh[j]); gt_mul(g[i], g[i], SMALLW); VER(g); if (th) { vf_statf_add(1, "x.del_ver_raised.%s", PN[proto]); continue; }
				if (v != 0) CHECK(gt_cmp(r, E) == RLC_EQ, "%s_ver ACCEPTS a dishonest helper and outputs a value different from e(P, Q): answer %d multiplied by an element of order %lu outside GT, challenge a multiple of %lu (P = [sel %d]G1, Q = [sel %d]G2)", PN[proto], i, SMALLL, SMALLL, as, bs); else vf_stat_add("x.del_small_order_rejected", 1); } } }
	goto done;
genfail: vf_fail(NULL, "%s_gen failed", PN[proto]); goto done;
askfail: vf_fail(NULL, "%s_ask failed", PN[proto]);
done:
	bn_free(ord); bn_free(a); bn_free(b); bn_free(cc); bn_free(r1); g1_free(P); g2_free(Q); gt_free(E); gt_free(r);
	for (int i = 0; i < 3; i++) { bn_free(r2[i]); g1_free(v1[i]); } for (int i = 0; i < 2; i++) { g1_free(u1[i]); g2_free(u2[i]); gt_free(e[i]); } for (int i = 0; i < 4; i++) { g2_free(v2[i]); g2_free(w2[i]); gt_free(g[i]); gt_free(gh[i]); }
}

/* ---------------------------------------------------------------- Pedersen commitment */
/* ped: cid, x selector, r selector, h selector, seed */
static void do_ped(vf_case *c) {
	long cid = mpz_get_si(c->v[0]); int xs = (int)mpz_get_si(c->v[1]), rs = (int)mpz_get_si(c->v[2]), hs = (int)mpz_get_si(c->v[3]); unsigned long seed = mpz_get_ui(c->v[4]); int th, v;
	if (!select_curve(cid)) { vf_fail(NULL, "parameter set refused"); return; } seed_drbg(seed);
	bn_t n, x, r, k; ec_t h, cm, e1, e2, gg; bn_null(n); bn_null(x); bn_null(r); bn_null(k); bn_new(n); bn_new(x); bn_new(r); bn_new(k); ec_null(h); ec_null(cm); ec_null(e1); ec_null(e2); ec_null(gg); ec_new(h); ec_new(cm); ec_new(e1); ec_new(e2); ec_new(gg);
	ec_curve_get_ord(n); ec_curve_get_gen(gg);
	/* x: 0 (refused), 1, 2, n-1, n (refused), n+1 (refused), dense */ if (xs == 4) bn_copy(x, n); else if (xs == 5) bn_add_dig(x, n, 1); else if (xs == 6) bn_rand_mod(x, n); else pick_scalar(x, xs, n);
	if (rs == 4) bn_copy(r, n); else if (rs == 5) { bn_rand_mod(r, n); bn_add(r, r, n); } else if (rs == 6) bn_rand_mod(r, n); else pick_scalar(r, rs, n);
	if (hs == 0) ec_set_infty(h); else if (hs == 1) ec_copy(h, gg); else if (hs == 2) ec_neg(h, gg); else { bn_rand_mod(k, n); ep_mul_basic(h, gg, k); }
	ec_set_infty(cm); VF_TRY(th, v = cp_ped_com(cm, h, r, x));
	int refuse = hs == 0 || xs == 0 || xs == 4 || xs == 5;
	if (refuse) { CHECK(th || v != RLC_OK, "cp_ped_com accepts %s", hs == 0 ? "the identity as second generator" : xs == 0 ? "the message 0 (documented as refused)" : "a message >= the group order"); goto done; }
	if (th || v != RLC_OK) { if (rs == 4 || rs == 5) { vf_stat_add("x.ped_unreduced_randomness_refused", 1); goto done; } vf_fail(NULL, "cp_ped_com failed for x sel %d, r sel %d, h sel %d", xs, rs, hs); goto done; }
	ep_mul_basic(e1, gg, x); ep_mul_basic(e2, h, r); ec_add(e1, e1, e2); ec_norm(e1, e1);
	CHECK(ec_cmp(cm, e1) == RLC_EQ, "cp_ped_com(c, h, r, x) != [x]G + [r]H for x sel %d, r sel %d, h sel %d", xs, rs, hs);
	CHECK(ec_on_curve(cm), "cp_ped_com: the commitment is not on the curve");
done:
	bn_free(n); bn_free(x); bn_free(r); bn_free(k); ec_free(h); ec_free(cm); ec_free(e1); ec_free(e2); ec_free(gg);
}

/* ---------------------------------------------------------------- triples */
/* share alphabet for a scalar K: K = s0 + s1 with s0 in {0, 1, K, K + 1 (so that s1 = n - 1), n - 1, dense} */
static void split(bn_t s0, bn_t s1, const bn_t K, int how, const bn_t ord) { switch (how) { case 0: bn_zero(s0); break; case 1: bn_set_dig(s0, 1); break; case 2: bn_copy(s0, K); break; case 3: bn_add_dig(s0, K, 1); bn_mod(s0, s0, ord); break; case 4: bn_sub_dig(s0, ord, 1); break; default: bn_rand_mod(s0, ord); break; }
	bn_sub(s1, K, s0); bn_mod(s1, s1, ord); if (bn_sign(s1) == RLC_NEG) bn_add(s1, s1, ord); }
/* tri: kind, cid, k selector, point selector, share split, seed */
static void do_tri(vf_case *c) {
	int kind = (int)mpz_get_si(c->v[0]); long cid = mpz_get_si(c->v[1]); int ks = (int)mpz_get_si(c->v[2]), ps = (int)mpz_get_si(c->v[3]), how = (int)mpz_get_si(c->v[4]); unsigned long seed = mpz_get_ui(c->v[5]); int th;
	if (!select_pc(cid)) { vf_fail(NULL, "parameter set refused"); return; } seed_drbg(seed);
	bn_t n, K, k[2], l[2], t; mt_t tri[2]; bn_null(n); bn_null(K); bn_null(t); bn_new(n); bn_new(K); bn_new(t); for (int i = 0; i < 2; i++) { bn_null(k[i]); bn_null(l[i]); bn_new(k[i]); bn_new(l[i]); mt_null(tri[i]); mt_new(tri[i]); }
	pc_get_ord(n); pick_scalar(K, ks, n); split(k[0], k[1], K, how, n);
	if (kind < 3) { VF_TRY(th, mpc_mt_gen(tri, n)); if (th) { vf_fail(NULL, "mpc_mt_gen raised"); goto done; } }
	if (kind == 0) { g1_t P, p[2], d[2], b1[2], c1[2], E; g1_null(P); g1_new(P); g1_null(E); g1_new(E); for (int i = 0; i < 2; i++) { g1_null(p[i]); g1_new(p[i]); g1_null(d[i]); g1_new(d[i]); g1_null(b1[i]); g1_new(b1[i]); g1_null(c1[i]); g1_new(c1[i]); }
		if (ps == 0) g1_set_infty(P); else if (ps == 1) g1_get_gen(P); else g1_rand(P); ep_mul_basic(E, P, K); /* P = p0 + p1 */ if (how % 3 == 0) g1_set_infty(p[1]); else if (how % 3 == 1) g1_copy(p[1], P); else g1_rand(p[1]); g1_sub(p[0], P, p[1]); g1_norm(p[0], p[0]);
		for (int i = 0; i < 2; i++) { g1_mul_gen(b1[i], tri[i]->b); g1_mul_gen(c1[i], tri[i]->c); tri[i]->b1 = &b1[i]; tri[i]->c1 = &c1[i]; }
		for (int i = 0; i < 2; i++) { VF_TRY(th, g1_mul_lcl(l[i], d[i], k[i], p[i], tri[i])); if (th) { vf_fail(NULL, "g1_mul_lcl raised"); goto done; } } VF_TRY(th, g1_mul_bct(l, d)); if (th) { vf_fail(NULL, "g1_mul_bct raised"); goto done; }
		CHECK(bn_cmp(l[0], l[1]) == RLC_EQ && g1_cmp(d[0], d[1]) == RLC_EQ, "g1_mul_bct: the parties hold different opened values");
		for (int i = 0; i < 2; i++) { VF_TRY(th, g1_mul_mpc(d[i], l[i], d[i], tri[i], i)); if (th) { vf_fail(NULL, "g1_mul_mpc raised"); goto done; } } g1_add(d[0], d[0], d[1]); g1_norm(d[0], d[0]);
		CHECK(g1_cmp(d[0], E) == RLC_EQ, "g1 multiplication triple: the shares do not add to [k]P (k sel %d, P sel %d, split %d)", ks, ps, how); }
	else if (kind == 1) { g2_t P, p[2], d[2], b2[2], c2[2], E; g2_null(P); g2_new(P); g2_null(E); g2_new(E); for (int i = 0; i < 2; i++) { g2_null(p[i]); g2_new(p[i]); g2_null(d[i]); g2_new(d[i]); g2_null(b2[i]); g2_new(b2[i]); g2_null(c2[i]); g2_new(c2[i]); }
		if (ps == 0) g2_set_infty(P); else if (ps == 1) g2_get_gen(P); else g2_rand(P); RLC_CAT(RLC_G2_LOWER, mul_basic)(E, P, K); if (how % 3 == 0) g2_set_infty(p[1]); else if (how % 3 == 1) g2_copy(p[1], P); else g2_rand(p[1]); g2_sub(p[0], P, p[1]); g2_norm(p[0], p[0]);
		for (int i = 0; i < 2; i++) { g2_mul_gen(b2[i], tri[i]->b); g2_mul_gen(c2[i], tri[i]->c); tri[i]->b2 = &b2[i]; tri[i]->c2 = &c2[i]; }
		for (int i = 0; i < 2; i++) { VF_TRY(th, g2_mul_lcl(l[i], d[i], k[i], p[i], tri[i])); if (th) { vf_fail(NULL, "g2_mul_lcl raised"); goto done; } } VF_TRY(th, g2_mul_bct(l, d)); if (th) { vf_fail(NULL, "g2_mul_bct raised"); goto done; }
		CHECK(bn_cmp(l[0], l[1]) == RLC_EQ && g2_cmp(d[0], d[1]) == RLC_EQ, "g2_mul_bct: the parties hold different opened values");
		for (int i = 0; i < 2; i++) { VF_TRY(th, g2_mul_mpc(d[i], l[i], d[i], tri[i], i)); if (th) { vf_fail(NULL, "g2_mul_mpc raised"); goto done; } } g2_add(d[0], d[0], d[1]); g2_norm(d[0], d[0]);
		CHECK(g2_cmp(d[0], E) == RLC_EQ, "g2 multiplication triple: the shares do not add to [k]Q (k sel %d, Q sel %d, split %d)", ks, ps, how); }
	else if (kind == 2) { gt_t P, p[2], d[2], bt[2], ct[2], E; gt_null(P); gt_new(P); gt_null(E); gt_new(E); for (int i = 0; i < 2; i++) { gt_null(p[i]); gt_new(p[i]); gt_null(d[i]); gt_new(d[i]); gt_null(bt[i]); gt_new(bt[i]); gt_null(ct[i]); gt_new(ct[i]); }
		if (ps == 0) gt_set_unity(P); else if (ps == 1) gt_get_gen(P); else gt_rand(P); RLC_CAT(RLC_GT_LOWER, exp)(E, P, K); if (how % 3 == 0) gt_set_unity(p[1]); else if (how % 3 == 1) gt_copy(p[1], P); else gt_rand(p[1]); gt_inv(p[0], p[1]); gt_mul(p[0], p[0], P);
		for (int i = 0; i < 2; i++) { gt_exp_gen(bt[i], tri[i]->b); gt_exp_gen(ct[i], tri[i]->c); tri[i]->bt = &bt[i]; tri[i]->ct = &ct[i]; }
		for (int i = 0; i < 2; i++) { VF_TRY(th, gt_exp_lcl(l[i], d[i], k[i], p[i], tri[i])); if (th) { vf_fail(NULL, "gt_exp_lcl raised"); goto done; } } VF_TRY(th, gt_exp_bct(l, d)); if (th) { vf_fail(NULL, "gt_exp_bct raised"); goto done; }
		CHECK(bn_cmp(l[0], l[1]) == RLC_EQ && gt_cmp(d[0], d[1]) == RLC_EQ, "gt_exp_bct: the parties hold different opened values");
		for (int i = 0; i < 2; i++) { VF_TRY(th, gt_exp_mpc(d[i], l[i], d[i], tri[i], i)); if (th) { vf_fail(NULL, "gt_exp_mpc raised"); goto done; } } gt_mul(d[0], d[0], d[1]);
		CHECK(gt_cmp(d[0], E) == RLC_EQ, "gt exponentiation triple: the shares do not multiply to P^k (k sel %d, P sel %d, split %d)", ks, ps, how); }
	else { pt_t pt[2]; g1_t P, p[2], d[2]; g2_t Q, q[2], e[2]; gt_t E, r[2], f; g1_null(P); g1_new(P); g2_null(Q); g2_new(Q); gt_null(E); gt_new(E); gt_null(f); gt_new(f); for (int i = 0; i < 2; i++) { pt_null(pt[i]); pt_new(pt[i]); g1_null(p[i]); g1_new(p[i]); g1_null(d[i]); g1_new(d[i]); g2_null(q[i]); g2_new(q[i]); g2_null(e[i]); g2_new(e[i]); gt_null(r[i]); gt_new(r[i]); }
		VF_TRY(th, pc_map_tri(pt)); if (th) { vf_fail(NULL, "pc_map_tri raised"); goto done; }
		/* the triple itself: e(A0 + A1, B0 + B1) = C0 C1 */ { g1_t A; g2_t B; g1_null(A); g1_new(A); g2_null(B); g2_new(B); g1_add(A, pt[0]->a, pt[1]->a); g1_norm(A, A); g2_add(B, pt[0]->b, pt[1]->b); g2_norm(B, B); pc_map(E, A, B); gt_mul(f, pt[0]->c, pt[1]->c); CHECK(gt_cmp(E, f) == RLC_EQ, "pc_map_tri: e(A0 + A1, B0 + B1) != C0 C1"); g1_free(A); g2_free(B); }
		/* P = [K]G1 (k selector), Q by the point selector */ g1_mul_gen(P, K); if (ps == 0) g2_set_infty(Q); else if (ps == 1) g2_get_gen(Q); else g2_rand(Q); pc_map(E, P, Q);
		if (how % 3 == 0) g1_set_infty(p[1]); else if (how % 3 == 1) g1_copy(p[1], P); else g1_rand(p[1]); g1_sub(p[0], P, p[1]); g1_norm(p[0], p[0]); if (how / 3 == 0) g2_set_infty(q[1]); else if (how / 3 == 1) g2_copy(q[1], Q); else g2_rand(q[1]); g2_sub(q[0], Q, q[1]); g2_norm(q[0], q[0]);
		for (int i = 0; i < 2; i++) { VF_TRY(th, pc_map_lcl(d[i], e[i], p[i], q[i], pt[i])); if (th) { vf_fail(NULL, "pc_map_lcl raised"); goto done; } } VF_TRY(th, pc_map_bct(d, e)); if (th) { vf_fail(NULL, "pc_map_bct raised"); goto done; }
		CHECK(g1_cmp(d[0], d[1]) == RLC_EQ && g2_cmp(e[0], e[1]) == RLC_EQ, "pc_map_bct: the parties hold different opened values");
		for (int i = 0; i < 2; i++) { VF_TRY(th, pc_map_mpc(r[i], d[i], e[i], pt[i], i)); if (th) { vf_fail(NULL, "pc_map_mpc raised"); goto done; } } gt_mul(f, r[0], r[1]);
		CHECK(gt_cmp(f, E) == RLC_EQ, "pairing triple: the shares do not multiply to e(P, Q) (P = [sel %d]G1, Q sel %d, split %d)", ks, ps, how); }
done:
	bn_free(n); bn_free(K); bn_free(t); for (int i = 0; i < 2; i++) { bn_free(k[i]); bn_free(l[i]); mt_free(tri[i]); }
}

static void run_case(vf_case *c) {
	vf_nontrivial(); if (!vf_replaying) vf_stat_add("states", 1);
	if (!strcmp(c->op, "psi")) do_psi(c); else if (!strcmp(c->op, "del")) do_del(c); else if (!strcmp(c->op, "ped")) do_ped(c); else if (!strcmp(c->op, "tri")) do_tri(c); else vf_fail(NULL, "unknown op");
}
static vf_case K;
static void enumerate(void) {
	vf_case_init(&K);
#ifdef FAM
	static const int PC[] = {0, 0}; static const int EC[] = {0, 0, 0, 0, 0, 0}; vf_tier = 0; /* one set per build: the quick-tier sizes of each bound */
#else
	static const int PC[] = {BN_P256, SM9_P256}; static const int EC[] = {NIST_P256, SECG_K256, BN_P256, SM2_P256, BSI_P256, SM9_P256};
#endif
	if (vf_bound_on("set-intersection-all-subset-pairs")) { for (int proto = 0; proto < 3; proto++) for (int order = 0; order < (vf_tier ? 2 : 1); order++) for (int sd = 0; sd < (vf_tier ? 2 : 1); sd++)
			for (unsigned xm = 0; xm < (1u << UNI); xm++) { if (__builtin_popcount(xm) > MAXS) continue; for (unsigned ym = 0; ym < (1u << UNI) && !vf_expired(); ym++) { if (__builtin_popcount(ym) > MAXS) continue; if (!vf_tier && ((xm | ym) & (1u << 5)) && (xm + ym) % 3) continue; if (order && xm == 0 && ym == 0) continue;
					if (vf_mine()) { K.op = "psi"; K.n = 5; mpz_set_si(K.v[0], proto); mpz_set_ui(K.v[1], xm); mpz_set_ui(K.v[2], ym); mpz_set_si(K.v[3], order); mpz_set_si(K.v[4], sd); vf_run(&K); } } }
		vf_bound_done("set-intersection-all-subset-pairs"); }
	if (vf_bound_on("delegated-pairing-all-helper-mutations")) { for (int proto = 0; proto < 4; proto++) for (unsigned ci = 0; ci < (vf_tier ? 2 : 1); ci++) for (int a = 0; a < 5; a++) for (int b = 0; b < 5; b++) for (int sd = 0; sd < (vf_tier ? 3 : 1); sd++) if (vf_mine() && !vf_expired()) { K.op = "del"; K.n = 5; mpz_set_si(K.v[0], proto); mpz_set_si(K.v[1], PC[ci]); mpz_set_si(K.v[2], a); mpz_set_si(K.v[3], b); mpz_set_si(K.v[4], sd); vf_run(&K); }
		vf_bound_done("delegated-pairing-all-helper-mutations"); }
#ifndef FAM
	if (vf_bound_on("pedersen")) { for (unsigned ci = 0; ci < (vf_tier ? 6 : 3); ci++) for (int xs = 0; xs < 7; xs++) for (int rs = 0; rs < 7; rs++) for (int hs = 0; hs < 4; hs++) if (vf_mine()) { K.op = "ped"; K.n = 5; mpz_set_si(K.v[0], EC[ci]); mpz_set_si(K.v[1], xs); mpz_set_si(K.v[2], rs); mpz_set_si(K.v[3], hs); mpz_set_si(K.v[4], xs + rs); vf_run(&K); } vf_bound_done("pedersen"); }
#endif
	if (vf_bound_on("pairing-group-triples")) { for (int kind = 0; kind < 4; kind++) for (unsigned ci = 0; ci < (vf_tier ? 2 : 1); ci++) for (int ks = 0; ks < 5; ks++) for (int ps = 0; ps < 3; ps++) for (int how = 0; how < (kind == 3 ? 9 : 6); how++) for (int sd = 0; sd < (vf_tier ? 2 : 1); sd++) if (vf_mine() && !vf_expired()) { K.op = "tri"; K.n = 6; mpz_set_si(K.v[0], kind); mpz_set_si(K.v[1], PC[ci]); mpz_set_si(K.v[2], ks); mpz_set_si(K.v[3], ps); mpz_set_si(K.v[4], how); mpz_set_si(K.v[5], sd); vf_run(&K); }
		vf_bound_done("pairing-group-triples"); }
	vf_stat_add("transitions", transitions); vf_stat_add("x.verdicts_judged", njudged);
}
VF_MAIN()
