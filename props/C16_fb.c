/*
 * C16 -- binary fields GF(2^m) and binary curves (random and Koblitz).
 * W8: m = 17, every one of the 2^17 elements through every unary operation and variant; tiny curves over
 *     GF(2^17) found by reference point counting: group law on point subsets, every scalar in [-2n-3, 2n+3].
 * W64: m = 283, alphabets; NIST B-283 and K-283.
 */
#include "vf_relic.h"
#include "ref_gf2.h"

static unsigned long long transitions = 0;
static fb_t A, B, C, SA;
static const int tiny = (WSIZE != 64);
static int alt_poly = 0;
static const char *srt_kf = NULL;

static gf2 gf_from_mpz(const mpz_t z) { gf2 r = gf_zero(); size_t c = 0; if (mpz_sgn(z)) mpz_export(r.w, &c, -1, 8, 0, 0, z); return r; }
static void gf_to_mpz(mpz_t z, gf2 a) { mpz_import(z, GW, -1, 8, 0, 0, a.w); }
static void fb_from_gf(fb_t c, gf2 a) { uint8_t raw[GW * 8]; memcpy(raw, a.w, sizeof raw); memset(c, 0, sizeof(fb_st)); memcpy(c, raw, sizeof(fb_st) < sizeof raw ? sizeof(fb_st) : sizeof raw); }
static gf2 gf_from_fb(const fb_t a) { gf2 r = gf_zero(); memcpy(r.w, a, sizeof(fb_st) < sizeof r.w ? sizeof(fb_st) : sizeof r.w); return r; }
static void junk(fb_t c) { memset(c, 0x5A, sizeof(fb_st)); }
static int fb_in_range(const fb_t a) { return gf_deg(gf_from_fb(a)) < GF_M; }

/* ---------------------------------------------------------------- curves */
typedef struct { gf2 a, b; bpt g; long order, r, h; const char *name; } tcurve;
static tcurve TC[8]; static int ntc = 0; static long cur_cid = -99;
static bpt RG; static mpz_t RN, RH; static int is_kbltz;

static bpt bpt_mul(bpt p, const mpz_t k) {
	bpt acc = bpt_inf(); mpz_t a; mpz_init(a); mpz_abs(a, k); size_t n = mpz_sgn(a) ? mpz_sizeinbase(a, 2) : 0;
	for (size_t i = n; i-- > 0;) { acc = bpt_dbl(acc); if (mpz_tstbit(a, i)) acc = bpt_add(acc, p); }
	mpz_clear(a); return mpz_sgn(k) < 0 ? bpt_neg(acc) : acc;
}
static int isprime_l(long n) { if (n < 2) return 0; for (long d = 2; d * d <= n; d++) if (n % d == 0) return 0; return 1; }
static void find_bcurve(const char *name, uint64_t a, uint64_t bstart, int koblitz) {
	for (uint64_t b = bstart; b < 4096; b++) {
		EB_A = gf_from_u64(a); EB_B = gf_from_u64(b);
		long n = 2; /* infinity and (0, sqrt b) */
		for (uint64_t x = 1; x < ((uint64_t)1 << GF_M); x++) { gf2 X = gf_from_u64(x), xi = gf_inv(X); gf2 c = gf_add(gf_add(X, EB_A), gf_mul(EB_B, gf_sqr(xi))); if (gf_trace(c) == 0) n += 2; }
		long h = 1, r = n; while (r % 2 == 0) { r /= 2; h *= 2; }
		if (!isprime_l(r) || h > 4) { if (koblitz) { printf("@INFO Koblitz curve a=%lu over GF(2^%d) has order %ld = %ld * %ld with a composite odd part: not used\n", (unsigned long)a, GF_M, n, h, r); return; } continue; }
		tcurve *c = &TC[ntc]; c->name = name; c->a = EB_A; c->b = EB_B; c->order = n; c->r = r; c->h = h;
		mpz_t hh; mpz_init_set_si(hh, h);
		for (uint64_t x = 1; x < 4096; x++) { gf2 X = gf_from_u64(x), xi = gf_inv(X); gf2 cc = gf_add(gf_add(X, EB_A), gf_mul(EB_B, gf_sqr(xi))); if (gf_trace(cc)) continue; gf2 z = gf_htrace(cc); bpt p; p.inf = 0; p.x = X; p.y = gf_mul(z, X); if (!bpt_on_curve(p)) continue; bpt g = bpt_mul(p, hh); if (g.inf) continue; c->g = g; break; }
		mpz_clear(hh); ntc++; return;
	}
	fprintf(stderr, "no binary curve found for %s\n", name); exit(2);
}

static void harness_setup(void) {
	if (core_init() != RLC_OK) exit(2);
	vf_reseed();
	fb_new(A); fb_new(B); fb_new(C); fb_new(SA); mpz_inits(RN, RH, NULL);
	const char *alt = getenv("VF_FB_POLY"); /* "t:a" trinomial, "p:a,b,c" pentanomial, "sqrt" the library's second 283-bit set */
	if (alt && !*alt) alt = NULL;
	alt_poly = alt != NULL;
	/* finding L48: with 8-bit digits the table-driven square root is wrong for a polynomial with an even middle exponent (generic fb_sqrt_low path) */
	if (alt && tiny) { int e[3] = {1, 1, 1}; if (alt[0] == 't') e[0] = atoi(alt + 2); else if (alt[0] == 'p') sscanf(alt + 2, "%d,%d,%d", &e[0], &e[1], &e[2]); if (!(e[0] & 1) || !(e[1] & 1) || !(e[2] & 1)) srt_kf = "L48-fb-srt-quick-even-exponent-8-bit-digits"; }
	if (tiny) {
		int t[3] = {3, 0, 0}, nt = 1;
		if (alt && alt[0] == 't') { nt = 1; t[0] = atoi(alt + 2); } else if (alt && alt[0] == 'p') { nt = 3; if (sscanf(alt + 2, "%d,%d,%d", &t[0], &t[1], &t[2]) != 3) exit(2); }
		gf_set_poly(17, t, nt);
		/* the alternative polynomial must be irreducible (m prime): x^(2^m) = x and no root in GF(2) */
		{ gf2 x = gf_from_u64(2), y = x; for (int i = 0; i < GF_M; i++) y = gf_sqr(y); int wt = 0; for (int i = 0; i <= GF_M; i++) wt += gf_bit(GF_POLY, i); if (!gf_eq(x, y) || !(wt & 1)) { fprintf(stderr, "VF_FB_POLY is not irreducible\n"); exit(2); } }
		if (nt == 1) fb_poly_set_trino(t[0]); else fb_poly_set_penta(t[0], t[1], t[2]);
		if (alt) goto polycheck;
		find_bcurve("K17-1 Koblitz a=1 b=1", 1, 1, 1);
		find_bcurve("K17-0 Koblitz a=0 b=1", 0, 1, 1);
		find_bcurve("R17 random a=1", 1, 2, 0);
		find_bcurve("R17z random a=0", 0, 2, 0);
		for (int i = 0; i < ntc; i++) printf("@INFO binary curve %d: %s b=%llx order=%ld = %ld * %ld\n", i, TC[i].name, (unsigned long long)TC[i].b.w[0], TC[i].order, TC[i].h, TC[i].r);
	} else {
#if FB_POLYN == 163
		int t[] = {7, 6, 3}; gf_set_poly(163, t, 3); fb_param_set(NIST_163);
#elif FB_POLYN == 233
		int t[] = {74}; gf_set_poly(233, t, 1); fb_param_set(NIST_233);
#else
		if (alt) { int t[] = {97, 89, 87}; gf_set_poly(283, t, 3); fb_param_set(SQRT_283); } else {
		int t[] = {12, 7, 5}; gf_set_poly(283, t, 3);
		fb_param_set(NIST_283); }
#endif
	}
polycheck:
	/* the library's polynomial must be the reference's */
	gf2 lp = gf_zero(); memcpy(lp.w, fb_poly_get(), sizeof(fb_st)); gf_setbit(&lp, GF_M);
	if (!gf_eq(lp, GF_POLY)) { fprintf(stderr, "library polynomial differs from the reference polynomial\n"); exit(2); }
}

static int select_bcurve(long cid) {
	if (cid == cur_cid) return 1;
	int th; cur_cid = -99;
	if (tiny) {
		if (cid < 0 || cid >= ntc) return 0;
		tcurve *c = &TC[cid]; fb_t a, b; eb_t g; bn_t r, h; fb_new(a); fb_new(b); eb_new(g); bn_new(r); bn_new(h);
		fb_from_gf(a, c->a); fb_from_gf(b, c->b); fb_from_gf(g->x, c->g.x); fb_from_gf(g->y, c->g.y); fb_set_dig(g->z, 1); g->coord = BASIC;
		mpz_t t; mpz_init(t); mpz_set_si(t, c->r); vf_bn_set(r, t); mpz_set_si(t, c->h); vf_bn_set(h, t); mpz_clear(t);
		vf_reseed();
		VF_TRY(th, eb_curve_set(a, b, g, r, h)); if (th) return 0;
		EB_A = c->a; EB_B = c->b; RG = c->g; mpz_set_si(RN, c->r); mpz_set_si(RH, c->h);
	} else {
		VF_TRY(th, eb_param_set((int)cid)); if (th) return 0;
		ctx_t *ctx = core_get(); EB_A = gf_from_fb(ctx->eb_a); EB_B = gf_from_fb(ctx->eb_b);
		RG.inf = 0; RG.x = gf_from_fb(ctx->eb_g.x); RG.y = gf_from_fb(ctx->eb_g.y); vf_bn_get(RN, &ctx->eb_r); vf_bn_get(RH, &ctx->eb_h);
		if (!bpt_on_curve(RG)) return 0;
	}
	is_kbltz = eb_curve_is_kbltz();
	cur_cid = cid; return 1;
}
#define REP_AFF 0
#define REP_LD 1
static void eb_inject(eb_t e, bpt p, int rep, uint64_t lam) {
	if (p.inf) { eb_set_infty(e); if (rep == REP_LD) e->coord = PROJC; return; }
	if (rep == REP_AFF) { fb_from_gf(e->x, p.x); fb_from_gf(e->y, p.y); fb_set_dig(e->z, 1); e->coord = BASIC; }
	else { gf2 l = gf_from_u64(lam); fb_from_gf(e->x, gf_mul(p.x, l)); fb_from_gf(e->y, gf_mul(p.y, gf_sqr(l))); fb_from_gf(e->z, l); e->coord = PROJC; }
}
static int eb_extract(bpt *r, const eb_t e) {
	gf2 x = gf_from_fb(e->x), y = gf_from_fb(e->y), z = gf_from_fb(e->z);
	int ok = fb_in_range(e->x) && fb_in_range(e->y) && fb_in_range(e->z);
	if (gf_is_zero(z)) { *r = bpt_inf(); return ok; }
	r->inf = 0;
	if (e->coord == PROJC) { gf2 zi = gf_inv(z); r->x = gf_mul(x, zi); r->y = gf_mul(y, gf_sqr(zi)); }
	else if (e->coord == HALVE) { r->x = x; r->y = gf_mul(gf_add(x, y), x); } /* lambda representation: y = x (x + lambda) */
	else { r->x = x; r->y = y; if (!gf_eq(z, gf_one())) ok = 0; }
	return ok;
}
static void expect_bpt(const char *what, const eb_t got, bpt exp, int must_norm, const char *kf) {
	bpt r; transitions++;
	int ok = eb_extract(&r, got);
	if (!bpt_eq(r, exp)) { vf_fail(kf, "%s: expected %s(%llx..,%llx..) got %s(%llx..,%llx..)", what, exp.inf ? "INF" : "", (unsigned long long)exp.x.w[0], (unsigned long long)exp.y.w[0], r.inf ? "INF" : "", (unsigned long long)r.x.w[0], (unsigned long long)r.y.w[0]); }
	else if (!ok) vf_fail(kf, "%s: a coordinate has bits at or above x^m, or an affine result has z != 1", what);
	else if (must_norm && !r.inf && got->coord != BASIC) vf_fail(kf, "%s: result not normalised (coord %d)", what, got->coord);
}
static bpt pt_arg(const mpz_t x, const mpz_t y) { bpt p; if (mpz_sgn(x) < 0) return bpt_inf(); p.inf = 0; p.x = gf_from_mpz(x); p.y = gf_from_mpz(y); return p; }

/* ---------------------------------------------------------------- field */
static void expect_fb(const char *what, const fb_t got, gf2 exp, const char *kf) {
	transitions++;
	gf2 g = gf_from_fb(got);
	if (!gf_eq(g, exp)) vf_fail(kf, "%s: expected %llx.. got %llx..", what, (unsigned long long)exp.w[0], (unsigned long long)g.w[0]);
}
typedef void (*fb_un)(fb_t, const fb_t);
typedef void (*fb_bin)(fb_t, const fb_t, const fb_t);
static void do_fbun(vf_case *c) {
	int th; gf2 a = gf_from_mpz(c->v[0]);
	static const struct { const char *n; fb_un f; int kind; } UN[] = {
		{"fb_sqr_basic", fb_sqr_basic, 0}, {"fb_sqr_integ", fb_sqr_integ, 0}, {"fb_sqr_quick", fb_sqr_quick, 0},
		{"fb_srt_basic", fb_srt_basic, 1}, {"fb_srt_quick", fb_srt_quick, 1},
		{"fb_inv_basic", fb_inv_basic, 2}, {"fb_inv_binar", fb_inv_binar, 2}, {"fb_inv_exgcd", fb_inv_exgcd, 2}, {"fb_inv_almos", fb_inv_almos, 2},
		{"fb_inv_itoht", fb_inv_itoht, 2}, {"fb_inv_bruch", fb_inv_bruch, 2}, {"fb_inv_ctaia", fb_inv_ctaia, 2}, {"fb_inv_lower", fb_inv_lower, 2},
		{"fb_slv_basic", fb_slv_basic, 3}, {"fb_slv_quick", fb_slv_quick, 3}};
	gf2 sq = gf_sqr(a), rt = gf_sqrt(a), inv = gf_is_zero(a) ? gf_zero() : gf_inv(a); int tr = gf_trace(a);
	for (unsigned i = 0; i < sizeof UN / sizeof *UN; i++) for (int al = 0; al < 2; al++) {
		fb_from_gf(A, a); fb_copy(SA, A); junk(C); fb_st *pc = al ? A : C;
		VF_TRY(th, UN[i].f(pc, A));
		if (UN[i].kind == 2 && gf_is_zero(a)) { transitions++; if (!th) vf_fail(NULL, "%s: inversion of zero was not reported as an error", UN[i].n); continue; }
		if (th) { vf_fail(NULL, "%s raised %d", UN[i].n, th); continue; }
		if (UN[i].kind == 0) expect_fb(UN[i].n, pc, sq, NULL); else if (UN[i].kind == 1) expect_fb(UN[i].n, pc, rt, UN[i].f == fb_srt_quick ? srt_kf : NULL); else if (UN[i].kind == 2) expect_fb(UN[i].n, pc, inv, NULL);
		else if (tr == 0) { /* the solution z of z^2 + z = a is defined up to +1 */ transitions++; gf2 z = gf_from_fb(pc); if (!gf_eq(gf_add(gf_sqr(z), z), a)) vf_fail(NULL, "%s: result does not solve z^2 + z = a (trace 0)", UN[i].n); else if (!fb_in_range(pc)) vf_fail(NULL, "%s: result not reduced", UN[i].n); }
		if (!al && memcmp(A, SA, sizeof(fb_st))) vf_fail(NULL, "%s: input modified", UN[i].n);
	}
	fb_from_gf(A, a); transitions += 2;
	int t1 = 9, t2 = 9; VF_TRY(th, t1 = fb_trc_basic(A)); VF_TRY(th, t2 = fb_trc_quick(A));
	if (t1 != tr) vf_fail(NULL, "fb_trc_basic: expected %d got %d", tr, t1); if (t2 != tr) vf_fail(NULL, "fb_trc_quick: expected %d got %d", tr, t2);
	if ((fb_is_zero(A) != 0) != gf_is_zero(a)) vf_fail(NULL, "fb_is_zero wrong");
	if (fb_bits(A) != (size_t)(gf_deg(a) + 1)) vf_fail(NULL, "fb_bits: expected %d got %zu", gf_deg(a) + 1, (size_t)fb_bits(A));
	/* iterated squaring for every count 0..m+1 (basic) and the table method for a few */
	{ gf2 s = a; for (int k = 0; k <= GF_M + 1; k++) { if (tiny || k < 4 || k > GF_M - 2 || k % 37 == 0) { fb_from_gf(A, a); junk(C); VF_TRY(th, fb_itr_basic(C, A, k)); if (th) vf_fail(NULL, "fb_itr_basic(%d) raised", k); else expect_fb("fb_itr_basic", C, s, NULL);
			/* fb_exp_2b is declared in the header but not defined in this tree */ } s = gf_sqr(s); } }
	/* codec: write / read round trip and rejection of bits >= m is in do_fbbin_codec */
}
static void do_fbbin(vf_case *c) {
	int th; gf2 a = gf_from_mpz(c->v[0]), b = gf_from_mpz(c->v[1]);
	static const struct { const char *n; fb_bin f; } BIN[] = {{"fb_mul_basic", fb_mul_basic}, {"fb_mul_integ", fb_mul_integ}, {"fb_mul_lodah", fb_mul_lodah},
#if FB_KARAT > 0
		{"fb_mul_karat", fb_mul_karat},
#endif
	};
	gf2 pr = gf_mul(a, b), sm = gf_add(a, b);
	for (unsigned i = 0; i < sizeof BIN / sizeof *BIN; i++) for (int al = 0; al < 4; al++) {
		if (al == 3 && !gf_eq(a, b)) continue;
		fb_from_gf(A, a); fb_from_gf(B, b); junk(C); fb_st *pa = A, *pb = al == 3 ? A : B, *pc = al == 1 ? A : al == 2 ? B : C;
		VF_TRY(th, BIN[i].f(pc, pa, pb)); if (th) vf_fail(NULL, "%s raised %d", BIN[i].n, th); else expect_fb(BIN[i].n, pc, pr, NULL);
	}
	fb_from_gf(A, a); fb_from_gf(B, b); junk(C); VF_TRY(th, fb_add(C, A, B)); if (th) vf_fail(NULL, "fb_add raised"); else expect_fb("fb_add", C, sm, NULL);
	transitions++; if ((fb_cmp(A, B) == RLC_EQ) != gf_eq(a, b)) vf_fail(NULL, "fb_cmp wrong");
	if (gf_deg(b) < VF_DIGB) { dig_t d = (dig_t)b.w[0]; fb_from_gf(A, a); junk(C); VF_TRY(th, fb_mul_dig(C, A, d)); if (th) vf_fail(NULL, "fb_mul_dig raised"); else expect_fb("fb_mul_dig", C, pr, NULL);
		junk(C); VF_TRY(th, fb_add_dig(C, A, d)); if (!th) expect_fb("fb_add_dig", C, sm, NULL); }
	/* simultaneous inversion of {a, b, a+b+1..} when all non-zero */
	if (!gf_is_zero(a) && !gf_is_zero(b)) { fb_t in[3], out[3]; gf2 e3 = gf_add(gf_mul(a, b), gf_one()); if (!gf_is_zero(e3)) { for (int i = 0; i < 3; i++) { fb_new(in[i]); fb_new(out[i]); junk(out[i]); } fb_from_gf(in[0], a); fb_from_gf(in[1], b); fb_from_gf(in[2], e3);
		VF_TRY(th, fb_inv_sim(out, (const fb_t *)in, 3)); if (th) vf_fail(NULL, "fb_inv_sim raised"); else { expect_fb("fb_inv_sim", out[0], gf_inv(a), NULL); expect_fb("fb_inv_sim", out[1], gf_inv(b), NULL); expect_fb("fb_inv_sim", out[2], gf_inv(e3), NULL); } } }
}
static void do_fbexp(vf_case *c) { /* a, e */
	int th; gf2 a = gf_from_mpz(c->v[0]); bn_t e; bn_new(e); if (!vf_bn_set(e, c->v[1])) return;
	typedef void (*ex_fn)(fb_t, const fb_t, const bn_t);
	static const struct { const char *n; ex_fn f; } EX[] = {{"fb_exp_basic", fb_exp_basic}, {"fb_exp_slide", fb_exp_slide}, {"fb_exp_monty", fb_exp_monty}};
	int defined = 1; gf2 base = a; mpz_t k; mpz_init(k); mpz_abs(k, c->v[1]);
	if (mpz_sgn(c->v[1]) < 0) { if (gf_is_zero(a)) defined = 0; else base = gf_inv(a); }
	gf2 r = gf_one(); for (size_t i = mpz_sizeinbase(k, 2); i-- > 0 && mpz_sgn(k);) { r = gf_sqr(r); if (mpz_tstbit(k, i)) r = gf_mul(r, base); }
	mpz_clear(k);
	for (int i = 0; i < 3; i++) { fb_from_gf(A, a); junk(C); VF_TRY(th, EX[i].f(C, A, e)); transitions++;
		if (!defined) { if (!th) vf_fail(NULL, "%s: 0 to a negative power not reported", EX[i].n); continue; }
		if (th) { vf_fail(NULL, "%s raised %d", EX[i].n, th); continue; } expect_fb(EX[i].n, C, r, NULL); }
}
/* byte codec: args len, value */
static void do_fbcodec(vf_case *c) {
	int th; size_t len = mpz_get_ui(c->v[0]); uint8_t buf[80], out[120]; memset(buf, 0, sizeof buf);
	if (len > 60) return;
	if (mpz_sgn(c->v[1])) { size_t n = (mpz_sizeinbase(c->v[1], 2) + 7) / 8; if (n > len) return; mpz_export(buf + len - n, NULL, 1, 1, 1, 0, c->v[1]); }
	int valid = len == RLC_FB_BYTES && (mpz_sgn(c->v[1]) == 0 || mpz_sizeinbase(c->v[1], 2) <= (size_t)GF_M);
	junk(C); VF_TRY(th, fb_read_bin(C, buf, len)); transitions++;
	if (!valid) { if (!th) vf_fail(NULL, "fb_read_bin accepted %s", len != RLC_FB_BYTES ? "a wrong length" : "an element with bits at or above x^m"); return; }
	if (th) { vf_fail(NULL, "fb_read_bin raised %d on a valid encoding", th); return; }
	if (!gf_eq(gf_from_fb(C), gf_from_mpz(c->v[1]))) { vf_fail(NULL, "fb_read_bin decoded a different element"); return; }
	memset(out, 0xC7, sizeof out); VF_TRY(th, fb_write_bin(out + 16, RLC_FB_BYTES, C)); transitions++;
	if (th) vf_fail(NULL, "fb_write_bin raised"); else if (memcmp(out + 16, buf, RLC_FB_BYTES)) vf_fail(NULL, "fb_write_bin: re-encoding differs"); else if (out[15] != 0xC7 || out[16 + RLC_FB_BYTES] != 0xC7) vf_fail(NULL, "fb_write_bin wrote outside its buffer");
	VF_TRY(th, fb_write_bin(out + 16, RLC_FB_BYTES - 1, C)); if (!th) vf_fail(NULL, "fb_write_bin accepted a short buffer");
}

/* ---------------------------------------------------------------- curve: group law. args cid, xP, yP, xQ, yQ */
static void do_eblaw(vf_case *c) {
	int th; bpt P = pt_arg(c->v[1], c->v[2]), Q = pt_arg(c->v[3], c->v[4]);
	bpt S = bpt_add(P, Q), D = bpt_dbl(P), M = bpt_add(P, bpt_neg(Q)), N = bpt_neg(P);
	eb_t p, q, r; eb_new(p); eb_new(q); eb_new(r);
	int same = bpt_eq(P, Q);
	for (int sys = 0; sys < 2; sys++) for (int rp = 0; rp <= sys; rp++) for (int rq = 0; rq <= sys; rq++) for (int al = 0; al < 4; al++) {
		if (al == 3 && (!same || rp != rq)) continue;
		eb_inject(p, P, rp, 3); eb_inject(q, Q, rq, 5);
		eb_st *pp = p, *pq = al == 3 ? p : q, *pr = al == 1 ? p : al == 2 ? q : r;
		if (pr == r) memset(r, 0x5A, sizeof(eb_st));
		char w[80];
		if (sys == 0) VF_TRY(th, eb_add_basic(pr, pp, pq)); else VF_TRY(th, eb_add_projc(pr, pp, pq));
		snprintf(w, sizeof w, "%s[reps %d,%d alias %d]", sys ? "eb_add_projc" : "eb_add_basic", rp, rq, al);
		if (th) vf_fail(NULL, "%s raised %d", w, th); else expect_bpt(w, pr, S, 0, NULL);
		if (al == 0) { eb_inject(p, P, rp, 3); eb_inject(q, Q, rq, 5); if (sys == 0) VF_TRY(th, eb_sub_basic(r, p, q)); else VF_TRY(th, eb_sub_projc(r, p, q));
			snprintf(w, sizeof w, "%s[reps %d,%d]", sys ? "eb_sub_projc" : "eb_sub_basic", rp, rq); if (th) vf_fail(NULL, "%s raised %d", w, th); else expect_bpt(w, r, M, 0, NULL); }
	}
	for (int sys = 0; sys < 2; sys++) for (int rp = 0; rp <= sys; rp++) for (int al = 0; al < 2; al++) {
		eb_inject(p, P, rp, 7); eb_st *pr = al ? p : r; char w[80];
		if (sys == 0) VF_TRY(th, eb_dbl_basic(pr, p)); else VF_TRY(th, eb_dbl_projc(pr, p));
		snprintf(w, sizeof w, "%s[rep %d alias %d]", sys ? "eb_dbl_projc" : "eb_dbl_basic", rp, al);
		if (th) vf_fail(NULL, "%s raised %d", w, th); else expect_bpt(w, pr, D, 0, NULL);
		eb_inject(p, P, rp, 7); if (sys == 0 && rp == 0) { VF_TRY(th, eb_neg_basic(r, p)); if (!th) expect_bpt("eb_neg_basic", r, N, 0, NULL); } if (sys == 1) { VF_TRY(th, eb_neg_projc(r, p)); if (!th) expect_bpt("eb_neg_projc", r, N, 0, NULL); }
	}
	for (int rp = 0; rp < 2; rp++) for (int rq = 0; rq < 2; rq++) { eb_inject(p, P, rp, 9); eb_inject(q, Q, rq, 11); int e; VF_TRY(th, e = eb_cmp(p, q)); transitions++; if (!th && ((e == RLC_EQ) != same)) vf_fail(NULL, "eb_cmp[reps %d,%d]: says %s for %s points", rp, rq, e == RLC_EQ ? "EQ" : "NE", same ? "equal" : "different"); }
	for (int rp = 0; rp < 2; rp++) { eb_inject(p, P, rp, 13); VF_TRY(th, eb_norm(r, p)); if (th) vf_fail(NULL, "eb_norm raised"); else expect_bpt("eb_norm", r, P, 1, NULL); int oc; VF_TRY(th, oc = eb_on_curve(p)); transitions++; if (!th && !oc) vf_fail(NULL, "eb_on_curve rejects a curve point (rep %d)", rp); }
	if (!P.inf) { bpt X = P; X.y = gf_add(X.y, gf_one()); if (!bpt_on_curve(X)) { eb_inject(p, X, 0, 1); int oc; VF_TRY(th, oc = eb_on_curve(p)); transitions++; if (!th && oc) vf_fail(NULL, "eb_on_curve accepts an off-curve point"); } }
}
/* halving and Frobenius: args cid, x, y */
static void do_ebmisc(vf_case *c) {
	int th; bpt P = pt_arg(c->v[1], c->v[2]); eb_t p, r; eb_new(p); eb_new(r);
	if (P.inf) return;
	eb_inject(p, P, 0, 1);
	/* halving is defined on the odd-order subgroup: [r]P = infinity */
	bpt T = bpt_mul(P, RN);
	if (T.inf) { VF_TRY(th, eb_hlv(r, p)); transitions++; if (th) vf_fail(NULL, "eb_hlv raised %d", th); else { bpt H; int ok = eb_extract(&H, r); if (!ok) vf_fail(NULL, "eb_hlv: unreduced coordinate"); else if (!bpt_on_curve(H)) vf_fail(NULL, "eb_hlv: result not on the curve"); else if (!bpt_eq(bpt_dbl(H), P)) vf_fail(NULL, "eb_hlv: doubling the result does not give the argument"); else if (mpz_cmp_ui(RH, 2) == 0 && !bpt_mul(H, RN).inf) vf_fail(NULL, "eb_hlv: result outside the odd-order subgroup (cofactor-2 curve)"); } }
	if (is_kbltz) { VF_TRY(th, eb_frb(r, p)); if (th) vf_fail(NULL, "eb_frb raised"); else { bpt F; F.inf = 0; F.x = gf_sqr(P.x); F.y = gf_sqr(P.y); expect_bpt("eb_frb", r, F, 0, NULL); }
		eb_inject(p, P, 1, 3); VF_TRY(th, eb_frb(r, p)); if (!th) { bpt F; F.inf = 0; F.x = gf_sqr(P.x); F.y = gf_sqr(P.y); expect_bpt("eb_frb[projective]", r, F, 0, NULL); } }
}
/* scalar multiplication: args cid, x, y, k */
typedef void (*emul_fn)(eb_t, const eb_t, const bn_t);
typedef void (*epre_fn)(eb_t *, const eb_t);
typedef void (*efix_fn)(eb_t, const eb_t *, const bn_t);
static eb_t TAB[4][RLC_EB_TABLE_MAX]; static int tab_ok[4], tab_init = 0; static long tab_cid = -5; static gf2 tab_x;
static const struct { const char *n; epre_fn pre; efix_fn fix; } FIX[] = {{"eb_mul_fix_basic", eb_mul_pre_basic, eb_mul_fix_basic}, {"eb_mul_fix_combs", eb_mul_pre_combs, eb_mul_fix_combs}, {"eb_mul_fix_combd", eb_mul_pre_combd, eb_mul_fix_combd}, {"eb_mul_fix_lwnaf", eb_mul_pre_lwnaf, eb_mul_fix_lwnaf}};
static void do_ebmul(vf_case *c) {
	int th; bpt P = pt_arg(c->v[1], c->v[2]); bpt E = bpt_mul(P, c->v[3]);
	bn_t k; bn_new(k); if (!vf_bn_set(k, c->v[3])) return;
	eb_t p, r; eb_new(p); eb_new(r);
	static const struct { const char *n; emul_fn f; int subgroup; } MUL[] = {{"eb_mul_basic", eb_mul_basic, 0}, {"eb_mul_lodah", eb_mul_lodah, 0}, {"eb_mul_lwnaf", eb_mul_lwnaf, 0}, {"eb_mul_rwnaf", eb_mul_rwnaf, 0}, {"eb_mul_halve", eb_mul_halve, 1}};
	for (unsigned i = 0; i < 5; i++) for (int rp = 0; rp < 2; rp++) {
		if (rp && P.inf) continue;
		eb_inject(p, P, rp, 3); memset(r, 0x5A, sizeof(eb_st)); r->coord = BASIC; vf_reseed();
		VF_TRY(th, MUL[i].f(r, p, k)); char w[64]; snprintf(w, sizeof w, "%s[rep %d]", MUL[i].n, rp);
		const char *kf = NULL; int unreduced = mpz_cmpabs(c->v[3], RN) >= 0;
		if (rp && (i == 1 || i == 3 || i == 4)) kf = "L29-eb-mul-projective-input";
		else if (unreduced && i >= 1) kf = "L14-eb-unreduced-scalar";
		if (th) { vf_fail(kf, "%s raised %d", w, th); continue; } expect_bpt(w, r, E, 1, kf);
	}
	if (mpz_sgn(c->v[3]) >= 0 && mpz_sizeinbase(c->v[3], 2) <= (size_t)VF_DIGB) { dig_t d = 0; mpz_export(&d, NULL, -1, sizeof(dig_t), 0, 0, c->v[3]); eb_inject(p, P, 0, 1); VF_TRY(th, eb_mul_dig(r, p, d)); if (th) vf_fail(NULL, "eb_mul_dig raised %d", th); else expect_bpt("eb_mul_dig", r, E, 1, NULL); }
	if (bpt_eq(P, RG)) { vf_reseed(); VF_TRY(th, eb_mul_gen(r, k)); if (th) vf_fail(NULL, "eb_mul_gen raised %d", th); else expect_bpt("eb_mul_gen", r, E, 1, NULL); }
	if (!P.inf) {
		if (!tab_init) { tab_init = 1; for (int i = 0; i < 4; i++) for (int j = 0; j < RLC_EB_TABLE_MAX; j++) eb_new(TAB[i][j]); }
		if (tab_cid != cur_cid || !gf_eq(tab_x, P.x)) { eb_inject(p, P, 0, 1); for (int i = 0; i < 4; i++) { VF_TRY(th, FIX[i].pre(TAB[i], p)); tab_ok[i] = !th; } tab_cid = cur_cid; tab_x = P.x; }
		for (int i = 0; i < 4; i++) { if (!tab_ok[i]) { vf_fail(NULL, "%s: precomputation raised", FIX[i].n); continue; } const char *kf = (i == 3 && mpz_cmpabs(c->v[3], RN) >= 0) ? "L14-eb-unreduced-scalar" : NULL;
			VF_TRY(th, FIX[i].fix(r, (const eb_t *)TAB[i], k)); if (th) vf_fail(kf, "%s raised %d", FIX[i].n, th); else expect_bpt(FIX[i].n, r, E, 1, kf); }
	}
}
typedef void (*esim_fn)(eb_t, const eb_t, const bn_t, const eb_t, const bn_t);
static void do_ebsim(vf_case *c) { /* cid, xP,yP,k, xQ,yQ,m */
	int th; bpt P = pt_arg(c->v[1], c->v[2]), Q = pt_arg(c->v[4], c->v[5]); bpt E = bpt_add(bpt_mul(P, c->v[3]), bpt_mul(Q, c->v[6]));
	bn_t k, m; bn_new(k); bn_new(m); if (!vf_bn_set(k, c->v[3]) || !vf_bn_set(m, c->v[6])) return;
	eb_t p, q, r; eb_new(p); eb_new(q); eb_new(r);
	static const struct { const char *n; esim_fn f; } SIM[] = {{"eb_mul_sim_basic", eb_mul_sim_basic}, {"eb_mul_sim_trick", eb_mul_sim_trick}, {"eb_mul_sim_inter", eb_mul_sim_inter}, {"eb_mul_sim_joint", eb_mul_sim_joint}};
	size_t lk = mpz_sizeinbase(c->v[3], 2), lm = mpz_sizeinbase(c->v[6], 2);
	for (int i = 0; i < 4; i++) { eb_inject(p, P, 0, 1); eb_inject(q, Q, 0, 1); memset(r, 0x5A, sizeof(eb_st)); r->coord = BASIC; vf_reseed();
		VF_TRY(th, SIM[i].f(r, p, k, q, m));
		const char *kf = (mpz_cmpabs(c->v[3], RN) >= 0 || mpz_cmpabs(c->v[6], RN) >= 0) ? "L14-eb-unreduced-scalar" : NULL;

		if (th) { vf_fail(kf, "%s raised %d", SIM[i].n, th); continue; } expect_bpt(SIM[i].n, r, E, 1, kf); }
	if (bpt_eq(P, RG)) { const char *kf = (mpz_cmpabs(c->v[3], RN) >= 0 || mpz_cmpabs(c->v[6], RN) >= 0) ? "L14-eb-unreduced-scalar" : NULL; eb_inject(q, Q, 0, 1); vf_reseed(); VF_TRY(th, eb_mul_sim_gen(r, k, q, m)); if (th) vf_fail(kf, "eb_mul_sim_gen raised %d", th); else expect_bpt("eb_mul_sim_gen", r, E, 1, kf); }
}


/* ---------------------------------------------------------------- quadratic extension GF(2^m)[s]/(s^2 + s + 1): args a0, a1, b0, b1 */
typedef struct { gf2 c0, c1; } gf22;
static gf22 g22_mul(gf22 a, gf22 b) { /* schoolbook with s^2 = s + 1 */
	gf2 p00 = gf_mul(a.c0, b.c0), p01 = gf_mul(a.c0, b.c1), p10 = gf_mul(a.c1, b.c0), p11 = gf_mul(a.c1, b.c1);
	gf22 r; r.c0 = gf_add(p00, p11); r.c1 = gf_add(gf_add(p01, p10), p11); return r;
}
static int g22_eq(gf22 a, gf22 b) { return gf_eq(a.c0, b.c0) && gf_eq(a.c1, b.c1); }
static void fb2_from(fb2_t c, gf22 a) { fb_from_gf(c[0], a.c0); fb_from_gf(c[1], a.c1); }
static gf22 g22_from(const fb2_t a) { gf22 r; r.c0 = gf_from_fb(a[0]); r.c1 = gf_from_fb(a[1]); return r; }
static void expect_fb2(const char *what, const fb2_t got, gf22 exp) {
	transitions++; gf22 g = g22_from(got);
	if (!g22_eq(g, exp)) vf_fail(NULL, "%s: expected (%llx.., %llx..) got (%llx.., %llx..)", what, (unsigned long long)exp.c0.w[0], (unsigned long long)exp.c1.w[0], (unsigned long long)g.c0.w[0], (unsigned long long)g.c1.w[0]);
	else if (!fb_in_range(got[0]) || !fb_in_range(got[1])) vf_fail(NULL, "%s: a component has bits at or above x^m", what);
}
static void do_fb2(vf_case *c) {
	int th; gf22 a, b; a.c0 = gf_from_mpz(c->v[0]); a.c1 = gf_from_mpz(c->v[1]); b.c0 = gf_from_mpz(c->v[2]); b.c1 = gf_from_mpz(c->v[3]);
	static fb2_t XA, XB, XC; static int init = 0; if (!init) { init = 1; fb2_new(XA); fb2_new(XB); fb2_new(XC); }
	gf22 pr = g22_mul(a, b), sq = g22_mul(a, a), one, s, zero; one.c0 = gf_one(); one.c1 = gf_zero(); s.c0 = gf_zero(); s.c1 = gf_one(); zero.c0 = zero.c1 = gf_zero();
	int same = g22_eq(a, b);
	for (int al = 0; al < 4; al++) { if (al == 3 && !same) continue;
		fb2_from(XA, a); fb2_from(XB, b); junk(XC[0]); junk(XC[1]); fb_t *pa = XA, *pb = al == 3 ? XA : XB, *pc = al == 1 ? XA : al == 2 ? XB : XC;
		VF_TRY(th, fb2_mul(pc, pa, pb)); char w[40]; snprintf(w, sizeof w, "fb2_mul[alias %d]", al); if (th) vf_fail(NULL, "%s raised %d", w, th); else expect_fb2(w, pc, pr); }
	for (int al = 0; al < 2; al++) { fb2_from(XA, a); junk(XC[0]); junk(XC[1]); fb_t *pc = al ? XA : XC;
		VF_TRY(th, fb2_sqr(pc, XA)); if (th) vf_fail(NULL, "fb2_sqr raised %d", th); else expect_fb2(al ? "fb2_sqr[alias]" : "fb2_sqr", pc, sq);
		fb2_from(XA, a); junk(XC[0]); junk(XC[1]); VF_TRY(th, fb2_mul_nor(pc, XA)); if (th) vf_fail(NULL, "fb2_mul_nor raised %d", th); else expect_fb2(al ? "fb2_mul_nor[alias]" : "fb2_mul_nor", pc, g22_mul(a, s));
		fb2_from(XA, a); junk(XC[0]); junk(XC[1]); VF_TRY(th, fb2_inv(pc, XA));
		if (g22_eq(a, zero)) { transitions++; if (!th) vf_fail(NULL, "fb2_inv: inversion of zero was not reported as an error"); }
		else if (th) vf_fail(NULL, "fb2_inv raised %d", th);
		else { transitions++; gf22 g = g22_from(pc); if (!g22_eq(g22_mul(g, a), one)) vf_fail(NULL, "fb2_inv%s: a * result != 1", al ? "[alias]" : ""); else if (!fb_in_range(pc[0]) || !fb_in_range(pc[1])) vf_fail(NULL, "fb2_inv: unreduced component"); }
		/* z^2 + z = a is solvable in the extension iff Tr(a) = Tr_m(a1) = 0 (m odd); the documented precondition */
		if ((GF_M & 1) && gf_trace(a.c1) == 0) { fb2_from(XA, a); junk(XC[0]); junk(XC[1]); VF_TRY(th, fb2_slv(pc, XA)); transitions++;
			if (th) vf_fail(NULL, "fb2_slv raised %d", th); else { gf22 z = g22_from(pc), q = g22_mul(z, z); q.c0 = gf_add(q.c0, z.c0); q.c1 = gf_add(q.c1, z.c1);
				if (!g22_eq(q, a)) vf_fail(NULL, "fb2_slv%s: result does not solve z^2 + z = a (trace 0)", al ? "[alias]" : ""); else if (!fb_in_range(pc[0]) || !fb_in_range(pc[1])) vf_fail(NULL, "fb2_slv: unreduced component"); } }
	}
	{ fb2_from(XA, a); fb2_from(XB, b); junk(XC[0]); junk(XC[1]); VF_TRY(th, fb2_add(XC, XA, XB)); gf22 sm; sm.c0 = gf_add(a.c0, b.c0); sm.c1 = gf_add(a.c1, b.c1); if (th) vf_fail(NULL, "fb2_add raised"); else expect_fb2("fb2_add", XC, sm);
		int e = 9; VF_TRY(th, e = fb2_cmp(XA, XB)); transitions++; if (!th && ((e == RLC_EQ) != same)) vf_fail(NULL, "fb2_cmp wrong");
		int z = 9; VF_TRY(th, z = fb2_is_zero(XA)); transitions++; if (!th && ((z != 0) != g22_eq(a, zero))) vf_fail(NULL, "fb2_is_zero wrong"); }
}
/* iterated squaring with the precomputed table, reduction of double-length polynomials, bit access, shifts: args a, b */
static gf2 gf_rdc_wide(const uint64_t *in, int words) { /* reduce a polynomial of up to 2 GW words */
	uint64_t r[2 * GW]; memset(r, 0, sizeof r); memcpy(r, in, (size_t)words * 8);
	for (int i = 2 * GW * 64 - 1; i >= GF_M; i--) if ((r[i >> 6] >> (i & 63)) & 1) { int sh = i - GF_M, ws = sh >> 6, bs = sh & 63; for (int j = 0; j < GW && j + ws < 2 * GW; j++) { r[j + ws] ^= GF_POLY.w[j] << bs; if (bs && j + ws + 1 < 2 * GW) r[j + ws + 1] ^= GF_POLY.w[j] >> (64 - bs); } }
	gf2 o; memcpy(o.w, r, sizeof o.w); return o;
}
static fb_st *ITR_TAB[GW * 64 + 4];
static void do_fbmisc(vf_case *c) {
	int th; gf2 a = gf_from_mpz(c->v[0]), b = gf_from_mpz(c->v[1]);
	/* table-driven iterated squaring for every count (tiny) / a count alphabet */
	{ gf2 s = a; for (int k = 0; k <= GF_M + 1; k++) { if (tiny || k < 4 || k > GF_M - 2 || k % 37 == 0) {
			if (!ITR_TAB[k]) { ITR_TAB[k] = malloc(sizeof(fb_st) * RLC_FB_TABLE_QUICK); VF_TRY(th, fb_itr_pre_quick(ITR_TAB[k], k)); if (th) { vf_fail(NULL, "fb_itr_pre_quick(%d) raised", k); free(ITR_TAB[k]); ITR_TAB[k] = NULL; } }
			if (ITR_TAB[k]) for (int al = 0; al < 2; al++) { fb_from_gf(A, a); junk(C); fb_st *pc = al ? A : C; VF_TRY(th, fb_itr_quick(pc, A, ITR_TAB[k])); if (th) vf_fail(NULL, "fb_itr_quick(%d) raised", k); else expect_fb(al ? "fb_itr_quick[alias]" : "fb_itr_quick", pc, s, NULL); }
			fb_from_gf(A, a); VF_TRY(th, fb_itr_basic(A, A, k)); if (!th) expect_fb("fb_itr_basic[alias]", A, s, NULL); } s = gf_sqr(s); } }
	/* reductions of the unreduced product a * b and of a shifted up to the top of the double-length buffer */
	{ uint64_t wide[2 * GW]; memset(wide, 0, sizeof wide);
		for (int i = 0; i < GF_M; i++) if (gf_bit(b, i)) { int ws = i >> 6, bs = i & 63; for (int j = 0; j < GW; j++) { wide[j + ws] ^= a.w[j] << bs; if (bs && j + ws + 1 < 2 * GW) wide[j + ws + 1] ^= a.w[j] >> (64 - bs); } }
		gf2 exp = gf_rdc_wide(wide, 2 * GW);
		dv_t d; dv_null(d); dv_new(d); for (int v = 0; v < 2; v++) { memset(d, 0, 2 * RLC_FB_DIGS * sizeof(dig_t)); memcpy(d, wide, 2 * RLC_FB_DIGS * sizeof(dig_t) < sizeof wide ? 2 * RLC_FB_DIGS * sizeof(dig_t) : sizeof wide); junk(C);
			if (v) VF_TRY(th, fb_rdc_quick(C, d)); else VF_TRY(th, fb_rdc_basic(C, d)); if (th) vf_fail(NULL, "%s raised", v ? "fb_rdc_quick" : "fb_rdc_basic"); else expect_fb(v ? "fb_rdc_quick" : "fb_rdc_basic", C, exp, NULL); }
		dv_free(d); }
	/* bit access and comparison with a digit */
	{ fb_from_gf(A, a); for (int i = 0; i < GF_M; i += (tiny ? 1 : 13)) { int g = 9; VF_TRY(th, g = fb_get_bit(A, i)); transitions++; if (th || g != gf_bit(a, i)) vf_fail(NULL, "fb_get_bit(%d) wrong", i); }
		int i = (int)(b.w[0] % (uint64_t)GF_M); for (int v = 0; v < 2; v++) { fb_from_gf(A, a); VF_TRY(th, fb_set_bit(A, i, v)); gf2 e = a; if (gf_bit(e, i)) e.w[i >> 6] ^= (uint64_t)1 << (i & 63); if (v) gf_setbit(&e, i); if (th) vf_fail(NULL, "fb_set_bit raised"); else expect_fb("fb_set_bit", A, e, NULL); }
		if (gf_deg(b) < VF_DIGB) { fb_from_gf(A, a); int e = 9; VF_TRY(th, e = fb_cmp_dig(A, (dig_t)b.w[0])); transitions++; if (!th && ((e == RLC_EQ) != gf_eq(a, b))) vf_fail(NULL, "fb_cmp_dig wrong"); } }
}
static void do_fbstr(vf_case *c) { /* args a */
	int th; gf2 a = gf_from_mpz(c->v[0]);
	/* strings in every radix that is a power of two: positional notation of the polynomial's integer image, round trip */
	{ mpz_t z; mpz_init(z); gf_to_mpz(z, a); for (int lg = 1; lg <= 6; lg++) { unsigned radix = 1u << lg; char ref[700], got[720]; mpz_get_str(ref, (int)radix <= 36 ? (int)radix : 62, z); /* digits above 36 are compared through the round trip only */
			fb_from_gf(A, a); size_t sz = 0; VF_TRY(th, sz = (size_t)fb_size_str(A, radix)); transitions++; if (th) { vf_fail(NULL, "fb_size_str(radix %u) raised", radix); continue; }
			size_t nd = mpz_sgn(z) ? (mpz_sizeinbase(z, 2) + (size_t)lg - 1) / (size_t)lg : 1; if (sz != nd + 1) { vf_fail(NULL, "fb_size_str(radix %u) = %zu, expected %zu digits + terminator", radix, sz, nd); continue; }
			memset(got, 0x7E, sizeof got); VF_TRY(th, fb_write_str(got + 8, sz, A, radix)); transitions++; if (th) { vf_fail(NULL, "fb_write_str(radix %u) raised %d", radix, th); continue; }
			if (got[7] != 0x7E || got[8 + sz] != 0x7E) vf_fail(NULL, "fb_write_str wrote outside its buffer"); if (got[8 + sz - 1] != 0) { vf_fail(NULL, "fb_write_str: no terminator at the advertised length"); continue; }
			if (radix <= 36) { int same = strlen(got + 8) == strlen(ref); for (size_t i = 0; same && ref[i]; i++) { char x = got[8 + i], y = ref[i]; if (x >= 'a' && x <= 'z') x = (char)(x - 32); if (y >= 'a' && y <= 'z') y = (char)(y - 32); if (x != y) same = 0; } if (!same) vf_fail(NULL, "fb_write_str(radix %u) = \"%s\", positional notation is \"%s\"", radix, got + 8, ref); }
			junk(C); VF_TRY(th, fb_read_str(C, got + 8, strlen(got + 8), radix)); transitions++; if (th) vf_fail(NULL, "fb_read_str(radix %u) raised on fb_write_str's output", radix); else expect_fb("fb_read_str(fb_write_str)", C, a, NULL);
			VF_TRY(th, fb_write_str(got + 8, sz - 1, A, radix)); transitions++; if (!th) vf_fail(NULL, "fb_write_str(radix %u) accepted a buffer one byte short", radix); }
		mpz_clear(z); }
}
/* binary-curve point codec, decoding direction: args cid, len, tag, X, Y (byte string tag || X [|| Y]) */
static int ref_eb_decode(bpt *P, int *either, size_t len, unsigned tag, const mpz_t X, const mpz_t Y) {
	*either = 0;
	if (len == 1) { if (tag == 0) { *P = bpt_inf(); return 1; } return 0; }
	size_t fbits = 8 * RLC_FB_BYTES; if (mpz_sizeinbase(X, 2) > fbits && mpz_sgn(X)) return 0;
	if (len == RLC_FB_BYTES + 1) {
		if (tag != 2 && tag != 3) return 0; if (mpz_sgn(X) && mpz_sizeinbase(X, 2) > (size_t)GF_M) return 0;
		gf2 x = gf_from_mpz(X); if (gf_is_zero(x)) { /* (0, sqrt b): SEC 1 encodes it as 02 || 0 (compressed bit 0 by convention); 03 || 0 is not canonical */ P->inf = 0; P->x = x; P->y = gf_sqrt(EB_B); return tag == 2; }
		gf2 xi = gf_inv(x); gf2 cc = gf_add(gf_add(x, EB_A), gf_mul(EB_B, gf_sqr(xi))); if (gf_trace(cc)) return 0;
		if (!(GF_M & 1)) return 0; gf2 z = gf_htrace(cc); if ((unsigned)gf_bit(z, 0) != (tag & 1)) z = gf_add(z, gf_one());
		P->inf = 0; P->x = x; P->y = gf_mul(z, x); return bpt_on_curve(*P);
	}
	if (len == 2 * RLC_FB_BYTES + 1) {
		if (tag != 4) return 0; if ((mpz_sgn(X) && mpz_sizeinbase(X, 2) > (size_t)GF_M) || (mpz_sgn(Y) && mpz_sizeinbase(Y, 2) > (size_t)GF_M)) return 0;
		P->inf = 0; P->x = gf_from_mpz(X); P->y = gf_from_mpz(Y); return bpt_on_curve(*P);
	}
	return 0;
}
static void put_be(uint8_t *o, size_t n, const mpz_t z) { memset(o, 0, n); if (mpz_sgn(z)) { size_t k = (mpz_sizeinbase(z, 2) + 7) / 8; if (k <= n) mpz_export(o + n - k, NULL, 1, 1, 1, 0, z); else { uint8_t tmp[200]; mpz_export(tmp, NULL, 1, 1, 1, 0, z); memcpy(o, tmp + k - n, n); } } }
static void do_ebdec(vf_case *c) {
	int th; size_t len = mpz_get_ui(c->v[1]); unsigned tag = (unsigned)mpz_get_ui(c->v[2]); static uint8_t buf[200], out[260];
	if (len > 150) return; memset(buf, 0, sizeof buf);
	if (len >= 1) buf[0] = (uint8_t)tag; if (len > 1) { size_t xl = len - 1 < RLC_FB_BYTES ? len - 1 : RLC_FB_BYTES; put_be(buf + 1, xl, c->v[3]); if (len - 1 > xl) put_be(buf + 1 + xl, len - 1 - xl, c->v[4]); }
	bpt P = bpt_inf(), Q; int either; int valid = ref_eb_decode(&P, &either, len, tag, c->v[3], c->v[4]);
	eb_t e; eb_new(e); memset(e, 0x5A, sizeof(eb_st)); e->coord = BASIC;
	VF_TRY(th, eb_read_bin(e, buf, len)); transitions++;
	if (!valid) { if (!th) vf_fail(NULL, "eb_read_bin accepted an invalid encoding (len %zu, tag %02x)", len, tag); return; }
	if (th) { if (!either) vf_fail(NULL, "eb_read_bin raised %d on a valid encoding (len %zu tag %02x)", th, len, tag); else vf_stat_add("x.compressed_order_two_point_refused", 1); return; }
	if (!eb_extract(&Q, e) || !bpt_eq(P, Q)) { vf_fail(NULL, "eb_read_bin decoded a different point (len %zu tag %02x)", len, tag); return; }
	int pack = (len == RLC_FB_BYTES + 1); size_t sz = 0; VF_TRY(th, sz = (size_t)eb_size_bin(e, pack)); transitions++;
	if (th || sz != len) { vf_fail(NULL, "eb_size_bin = %zu for an accepted encoding of %zu bytes", sz, len); return; }
	memset(out, 0xC7, sizeof out); VF_TRY(th, eb_write_bin(out + 16, len, e, pack)); transitions++;
	if (th) { vf_fail(NULL, "eb_write_bin raised %d on a decoded point", th); return; }
	if (memcmp(out + 16, buf, len)) vf_fail(NULL, "eb_write_bin: re-encoding differs from the accepted input (tag %02x -> %02x)", buf[0], out[16]);
	for (size_t j = 0; j < 16; j++) if (out[j] != 0xC7 || out[16 + len + j] != 0xC7) { vf_fail(NULL, "eb_write_bin wrote outside its buffer"); break; }
}
/* encoding direction: args cid, x, y */
static void do_ebenc(vf_case *c) {
	int th; bpt P = pt_arg(c->v[1], c->v[2]), Q; static uint8_t out[260]; eb_t e, d; eb_new(e); eb_new(d);
	int two = !P.inf && gf_is_zero(P.x);
	for (int rep = 0; rep < 2; rep++) for (int pack = 0; pack < 2; pack++) {
		eb_inject(e, P, rep, 7); size_t esz = P.inf ? 1 : (pack ? RLC_FB_BYTES + 1 : 2 * RLC_FB_BYTES + 1), sz = 0;
		const char *kf = NULL;
		VF_TRY(th, sz = (size_t)eb_size_bin(e, pack)); transitions++; if (th || sz != esz) { vf_fail(NULL, "eb_size_bin(pack=%d) = %zu expected %zu", pack, sz, esz); continue; }
		memset(out, 0xC7, sizeof out); VF_TRY(th, eb_write_bin(out + 16, sz, e, pack)); transitions++;
		if (th) { vf_fail(kf, "eb_write_bin(pack=%d, rep=%d) raised %d", pack, rep, th); continue; }
		for (size_t j = 0; j < 16; j++) if (out[j] != 0xC7 || out[16 + sz + j] != 0xC7) { vf_fail(NULL, "eb_write_bin wrote outside its buffer"); break; }
		/* canonical bytes: the reference decodes them to P */
		{ mpz_t X, Y; mpz_inits(X, Y, NULL); int either = 0, ok; if (sz > 1) { mpz_import(X, RLC_FB_BYTES, 1, 1, 1, 0, out + 17); if (!pack) mpz_import(Y, RLC_FB_BYTES, 1, 1, 1, 0, out + 17 + RLC_FB_BYTES); }
			ok = ref_eb_decode(&Q, &either, sz, out[16], X, Y); mpz_clears(X, Y, NULL);
			if (!ok || !bpt_eq(P, Q)) { vf_fail(kf, "eb_write_bin(pack=%d, rep=%d): bytes are not the canonical encoding of the point (tag %02x)", pack, rep, out[16]); continue; } }
		memset(d, 0x5A, sizeof(eb_st)); d->coord = BASIC; VF_TRY(th, eb_read_bin(d, out + 16, sz)); transitions++;
		if (th) { vf_fail(kf, "eb_read_bin rejects eb_write_bin's own output (pack=%d)", pack); continue; }
		if (!eb_extract(&Q, d) || !bpt_eq(P, Q)) vf_fail(kf, "decode(encode(P)) != P (pack=%d)", pack);
		if (sz > 0) { memset(out, 0xC7, sizeof out); VF_TRY(th, eb_write_bin(out + 16, sz - 1, e, pack)); transitions++; if (!th) vf_fail(NULL, "eb_write_bin accepted a buffer one byte short (pack=%d)", pack); for (size_t j = 0; j < 16; j++) if (out[16 + sz - 1 + j] != 0xC7) { vf_fail(NULL, "eb_write_bin wrote beyond a too-short buffer"); break; } }
	}
	/* pack / unpack on the point itself */
	if (!P.inf) { eb_inject(e, P, 0, 1); VF_TRY(th, eb_pck(d, e)); transitions++; if (th) vf_fail(NULL, "eb_pck raised"); else { gf2 z = two ? gf_zero() : gf_mul(P.y, gf_inv(P.x)); gf2 yb = gf_from_fb(d->y); if (!gf_eq(gf_from_fb(d->x), P.x) || !gf_eq(yb, gf_from_u64((uint64_t)gf_bit(z, 0)))) vf_fail(NULL, "eb_pck: wrong compressed form");
			int r = 0; VF_TRY(th, r = eb_upk(e, d)); transitions++; if (th || !r) vf_fail(NULL, "eb_upk refuses eb_pck's output"); else if (!eb_extract(&Q, e) || !bpt_eq(P, Q)) vf_fail(NULL, "eb_upk(eb_pck(P)) != P"); } }
}


/* user-configured trinomials / pentanomials z^m + z^a [+ z^b + z^c] + 1: args a, b, c (b = 0: trinomial), x, y.
 * The word-level fast reduction folds a whole digit at a time and is only right when m - a >= RLC_DIG (Hankerson-Menezes-Vanstone, Alg. 2.41 ff.);
 * the setters do not state or check that (finding L46). Runs in the tiny build only, restores the default polynomial. */
static void do_polyprobe(vf_case *c) {
	int th; int a = (int)mpz_get_si(c->v[0]), b = (int)mpz_get_si(c->v[1]), cc = (int)mpz_get_si(c->v[2]);
	gf2 save = GF_POLY; int t[3] = {a, b, cc}; gf_set_poly(GF_M, t, b ? 3 : 1);
	{ gf2 x = gf_from_u64(2), y = x; for (int i = 0; i < GF_M; i++) y = gf_sqr(y); int wt = 0; for (int i = 0; i <= GF_M; i++) wt += gf_bit(GF_POLY, i); if (!gf_eq(x, y) || !(wt & 1)) { GF_POLY = save; return; } } /* not irreducible: not offered */
	const char *kf = (GF_M - a < (int)RLC_DIG) ? "L46-fast-reduction-needs-m-minus-a-at-least-a-digit" : NULL;
	if (b) VF_TRY(th, fb_poly_set_penta(a, b, cc)); else VF_TRY(th, fb_poly_set_trino(a));
	if (th) vf_stat_add("x.user_polynomial_refused_by_setter", 1); /* e.g. more than three trace-one basis elements: reported, not computed */
	else { gf2 x = gf_from_mpz(c->v[3]), y = gf_from_mpz(c->v[4]), pr = gf_mul(x, y);
		static const struct { const char *n; fb_bin f; } BIN[] = {{"fb_mul_basic", fb_mul_basic}, {"fb_mul_integ", fb_mul_integ}, {"fb_mul_lodah", fb_mul_lodah}};
		for (int i = 0; i < 3; i++) { fb_from_gf(A, x); fb_from_gf(B, y); junk(C); VF_TRY(th, BIN[i].f(C, A, B)); char w[64]; snprintf(w, sizeof w, "%s mod (%d,%d,%d)", BIN[i].n, a, b, cc); if (th) vf_fail(kf, "%s raised", w); else expect_fb(w, C, pr, kf); }
		fb_from_gf(A, x); junk(C); VF_TRY(th, fb_sqr_quick(C, A)); if (th) vf_fail(kf, "fb_sqr_quick mod (%d,%d,%d) raised", a, b, cc); else { char w[64]; snprintf(w, sizeof w, "fb_sqr_quick mod (%d,%d,%d)", a, b, cc); expect_fb(w, C, gf_sqr(x), kf); } }
	GF_POLY = save; VF_TRY(th, fb_poly_set_trino(3)); if (th) { fprintf(stderr, "cannot restore the default polynomial\n"); exit(2); }
	cur_cid = -99;
}

static void run_case(vf_case *c) {
	vf_nontrivial();
	if (!strncmp(c->op, "eb", 2)) { if (!select_bcurve(mpz_get_si(c->v[0]))) { vf_fail(NULL, "binary curve %ld could not be installed", mpz_get_si(c->v[0])); return; } }
	if (!strcmp(c->op, "fbun")) do_fbun(c); else if (!strcmp(c->op, "fbbin")) do_fbbin(c); else if (!strcmp(c->op, "fbexp")) do_fbexp(c); else if (!strcmp(c->op, "fbcodec")) do_fbcodec(c);
	else if (!strcmp(c->op, "polyprobe")) do_polyprobe(c); else if (!strcmp(c->op, "fb2")) do_fb2(c); else if (!strcmp(c->op, "fbmisc")) do_fbmisc(c); else if (!strcmp(c->op, "fbstr")) do_fbstr(c); else if (!strcmp(c->op, "ebdec")) do_ebdec(c); else if (!strcmp(c->op, "ebenc")) do_ebenc(c);
	else if (!strcmp(c->op, "eblaw")) do_eblaw(c); else if (!strcmp(c->op, "ebmisc")) do_ebmisc(c); else if (!strcmp(c->op, "ebmul")) do_ebmul(c); else if (!strcmp(c->op, "ebsim")) do_ebsim(c);
	else vf_fail(NULL, "unknown op");
}

/* ---------------------------------------------------------------- enumeration */
static vf_case K;
static void setb(int i, bpt p) { if (p.inf) { mpz_set_si(K.v[i], -1); mpz_set_ui(K.v[i + 1], 0); } else { gf_to_mpz(K.v[i], p.x); gf_to_mpz(K.v[i + 1], p.y); } }
static void field_alphabet(vf_dom *d) {
	mpz_t t; mpz_init(t);
	vf_dom_add_si(d, 0); vf_dom_add_si(d, 1); vf_dom_add_si(d, 2); vf_dom_add_si(d, 3);
	mpz_set_ui(t, 1); mpz_mul_2exp(t, t, (unsigned long)GF_M - 1); vf_dom_add(d, t); mpz_add_ui(t, t, 1); vf_dom_add(d, t);
	mpz_set_ui(t, 1); mpz_mul_2exp(t, t, (unsigned long)GF_M); mpz_sub_ui(t, t, 1); vf_dom_add(d, t);
	for (int k = 7; k < GF_M; k += (GF_M > 64 ? 19 : 3)) { mpz_set_ui(t, 1); mpz_mul_2exp(t, t, (unsigned long)k); vf_dom_add(d, t); mpz_sub_ui(t, t, 1); vf_dom_add(d, t); }
	for (int k = 63; k < GF_M; k += 64) for (int j = -1; j <= 1; j++) { mpz_set_ui(t, 1); mpz_mul_2exp(t, t, (unsigned long)(k + j)); vf_dom_add(d, t); }
	if (GF_M > 256) { mpz_set_ui(t, 1); mpz_mul_2exp(t, t, (unsigned long)GF_M); mpz_sub_ui(t, t, 1); mpz_fdiv_q_2exp(t, t, 256); mpz_mul_2exp(t, t, 256); vf_dom_add(d, t); } /* bits 256..m-1 set */
	gf2 v = gf_from_u64(0x1ABCD); for (int i = 0; i < 6; i++) { v = gf_mul(gf_add(v, gf_from_u64(7)), gf_from_u64(0x1F3)); v = gf_sqr(v); gf_to_mpz(t, v); vf_dom_add(d, t); }
	mpz_clear(t); vf_dom_uniq(d);
}
static void scalar_alphabet(vf_dom *d) {
	mpz_t t; mpz_init(t);
	for (long i = -2; i <= 3; i++) vf_dom_add_si(d, i);
	vf_dom_add_near(d, RN, 0); mpz_neg(t, RN); vf_dom_add(d, t); mpz_mul_2exp(t, RN, 1); vf_dom_add(d, t); mpz_add_ui(t, t, 1); vf_dom_add(d, t);
	mpz_fdiv_q_2exp(t, RN, 1); vf_dom_add(d, t); mpz_add_ui(t, t, 1); vf_dom_add(d, t);
	int ks[] = {GF_M - 2, GF_M - 1, GF_M, GF_M + 1, 63, 64, 65, 127, 128};
	for (unsigned i = 0; i < 9; i++) if (ks[i] > 2) { mpz_set_ui(t, 1); mpz_mul_2exp(t, t, (unsigned long)ks[i]); vf_dom_add(d, t); mpz_sub_ui(t, t, 1); vf_dom_add(d, t); }
	mpz_set_ui(t, 1); mpz_mul_2exp(t, t, (unsigned long)GF_M + 17); vf_dom_add(d, t);
	mpz_set_ui(t, 1); mpz_mul_2exp(t, t, (unsigned long)(tiny ? 60 : 600)); mpz_sub_ui(t, t, 1); vf_dom_add(d, t);
	mpz_clear(t); vf_dom_uniq(d);
}

static void enumerate(void) {
	vf_case_init(&K);
	mpz_t a, b; mpz_inits(a, b, NULL);
	vf_dom fa; vf_dom_init(&fa); field_alphabet(&fa);
	if (vf_bound_on("field")) {
		if (tiny) { for (unsigned long x = 0; x < (1UL << GF_M) && !vf_expired(); x++) if (vf_mine()) { vf_stat_add("states", 1); K.op = "fbun"; K.n = 1; mpz_set_ui(K.v[0], x); vf_run(&K);
				for (int j = 0; j < fa.n; j++) { K.op = "fbbin"; K.n = 2; mpz_set_ui(K.v[0], x); mpz_set(K.v[1], fa.v[j]); vf_run(&K); } } }
		for (int i = 0; i < fa.n && !vf_expired(); i++) if (vf_mine()) { K.op = "fbun"; K.n = 1; mpz_set(K.v[0], fa.v[i]); vf_run(&K);
			for (int j = 0; j < fa.n; j++) { K.op = "fbbin"; K.n = 2; mpz_set(K.v[0], fa.v[i]); mpz_set(K.v[1], fa.v[j]); vf_run(&K); }
			long es[] = {0, 1, 2, 3, -1, -2, -3, 255, 256, 65535, 65537}; for (unsigned j = 0; j < 11; j++) { K.op = "fbexp"; K.n = 2; mpz_set(K.v[0], fa.v[i]); mpz_set_si(K.v[1], es[j]); vf_run(&K); }
			mpz_set_ui(b, 1); mpz_mul_2exp(b, b, (unsigned long)GF_M); for (int dlt = -2; dlt <= 1; dlt++) { if (dlt < 0) mpz_sub_ui(a, b, (unsigned long)-dlt); else mpz_add_ui(a, b, (unsigned long)dlt); K.op = "fbexp"; K.n = 2; mpz_set(K.v[0], fa.v[i]); mpz_set(K.v[1], a); vf_run(&K); mpz_neg(K.v[1], a); vf_run(&K); }
		}
		if (tiny) for (long e = -300; e <= 300; e++) if (vf_mine()) for (unsigned long x = 0; x < 6; x++) { K.op = "fbexp"; K.n = 2; mpz_set_ui(K.v[0], x == 5 ? 0x1FFFF : x); mpz_set_si(K.v[1], e); vf_run(&K); }
		vf_bound_done("field");
	}
	if (tiny && !alt_poly && vf_bound_on("user-polynomials")) {
		/* every trinomial and every pentanomial of degree 17 (irreducible ones are kept by the case itself) x an operand alphabet */
		for (int pa = 1; pa < GF_M; pa++) for (int pb = 0; pb < pa; pb++) for (int pc = (pb ? 1 : 0); pc < (pb ? pb : 1); pc++) if (vf_mine())
			for (int i = 0; i < fa.n; i += 2) for (int j = 1; j < fa.n; j += 5) { K.op = "polyprobe"; K.n = 5; mpz_set_si(K.v[0], pa); mpz_set_si(K.v[1], pb); mpz_set_si(K.v[2], pc); mpz_set(K.v[3], fa.v[i]); mpz_set(K.v[4], fa.v[j]); vf_run(&K); }
		vf_bound_done("user-polynomials");
	}
	if (vf_bound_on("fb-codec")) {
		/* codec: every 3-byte string in the tiny field; alphabets at 283 bits */
		if (tiny) { for (unsigned long x = 0; x < (1UL << 24) && !vf_expired(); x += (x < (1UL << 18) ? 1 : 257)) if (vf_mine()) { K.op = "fbcodec"; K.n = 2; mpz_set_ui(K.v[0], 3); mpz_set_ui(K.v[1], x); vf_run(&K); } for (int l = 0; l < 6; l++) if (vf_mine()) { K.op = "fbcodec"; K.n = 2; mpz_set_ui(K.v[0], (unsigned long)l); mpz_set_ui(K.v[1], l ? 1 : 0); vf_run(&K); } }
		else for (int i = 0; i < fa.n; i++) if (vf_mine()) for (int l = 34; l <= 38; l++) { K.op = "fbcodec"; K.n = 2; mpz_set_ui(K.v[0], (unsigned long)l); mpz_set(K.v[1], fa.v[i]); vf_run(&K); mpz_set_ui(b, 1); mpz_mul_2exp(b, b, (unsigned long)GF_M + (unsigned long)(i % 5)); mpz_add(K.v[1], fa.v[i], b); vf_run(&K); }
		/* strings: every element (tiny) / the alphabet */
		if (tiny) { for (unsigned long x = 0; x < (1UL << GF_M) && !vf_expired(); x++) if (vf_mine()) { K.op = "fbstr"; K.n = 1; mpz_set_ui(K.v[0], x); vf_run(&K); } }
		for (int i = 0; i < fa.n; i++) if (vf_mine()) { K.op = "fbstr"; K.n = 1; mpz_set(K.v[0], fa.v[i]); vf_run(&K); }
		vf_bound_done("fb-codec");
	}
	if (vf_bound_on("fb2-and-misc")) {
		int ns = fa.n < 6 ? fa.n : 6;
		if (tiny) { unsigned long M = (1UL << GF_M) - 1; for (unsigned long x = 0; x <= M && !vf_expired(); x++) if (vf_mine()) { unsigned long x2 = (x * 0x9E37UL + 0x1234UL) & M; int j1 = (int)(x % (unsigned long)fa.n), j2 = (int)((x / 7) % (unsigned long)fa.n);
				K.op = "fbmisc"; K.n = 2; mpz_set_ui(K.v[0], x); mpz_set(K.v[1], fa.v[j1]); vf_run(&K); mpz_set_ui(K.v[1], x2); vf_run(&K);
				K.op = "fb2"; K.n = 4; mpz_set_ui(K.v[0], x); mpz_set(K.v[1], fa.v[j1]); mpz_set_ui(K.v[2], x2); mpz_set(K.v[3], fa.v[j2]); vf_run(&K);
				mpz_set(K.v[0], fa.v[j1]); mpz_set_ui(K.v[1], x); mpz_set(K.v[2], fa.v[j2]); mpz_set_ui(K.v[3], x2); vf_run(&K);
				mpz_set_ui(K.v[0], x); mpz_set_ui(K.v[1], x2); mpz_set_ui(K.v[2], x); mpz_set_ui(K.v[3], x2); vf_run(&K);
				mpz_set_ui(K.v[0], x2); mpz_set_ui(K.v[1], x); mpz_set_ui(K.v[2], (x2 * 31 + x) & M); mpz_set_ui(K.v[3], (x ^ (x2 >> 3)) & M); vf_run(&K); } }
		for (int i = 0; i < fa.n && !vf_expired(); i++) for (int j = 0; j < fa.n; j++) if (vf_mine()) { K.op = "fbmisc"; K.n = 2; mpz_set(K.v[0], fa.v[i]); mpz_set(K.v[1], fa.v[j]); vf_run(&K);
			for (int k = 0; k < ns; k++) for (int l = 0; l < ns; l++) { K.op = "fb2"; K.n = 4; mpz_set(K.v[0], fa.v[i]); mpz_set(K.v[1], fa.v[j]); mpz_set(K.v[2], fa.v[(k * 5 + i) % fa.n]); mpz_set(K.v[3], fa.v[(l * 7 + j) % fa.n]); vf_run(&K); }
			K.op = "fb2"; K.n = 4; mpz_set(K.v[0], fa.v[i]); mpz_set(K.v[1], fa.v[j]); mpz_set(K.v[2], fa.v[i]); mpz_set(K.v[3], fa.v[j]); vf_run(&K); }
		vf_bound_done("fb2-and-misc");
	}
#if WSIZE != 64
	int ncur = ntc; long cids[8]; for (int i = 0; i < ncur; i++) cids[i] = i;
#else
#if FB_POLYN == 163
	int ncur = 2; long cids[2] = {NIST_B163, NIST_K163};
#elif FB_POLYN == 233
	int ncur = 2; long cids[2] = {NIST_B233, NIST_K233};
#else
	int ncur = 2; long cids[2] = {NIST_B283, NIST_K283};
#endif
#endif
	if (alt_poly) ncur = 0; /* the curves are defined over the default polynomial */
	for (int ci = 0; ci < ncur; ci++) {
		char bn[64]; snprintf(bn, sizeof bn, "binary-curve-%ld", cids[ci]);
		if (!vf_bound_on(bn)) continue;
		long cid = cids[ci]; if (!select_bcurve(cid)) { vf_fail(NULL, "binary curve install failed"); continue; }
		vf_dom S; vf_dom_init(&S); scalar_alphabet(&S);
		/* point list: identity, the point of order two (0, sqrt b), generator multiples, and cofactor-full points */
		bpt pts[700]; int npt = 0; pts[npt++] = bpt_inf(); { bpt t2; t2.inf = 0; t2.x = gf_zero(); t2.y = gf_sqrt(EB_B); pts[npt++] = t2; }
		int NP = tiny ? (vf_tier ? 400 : 60) : 8;
		bpt acc = RG; for (int i = 0; i < NP; i++) { pts[npt++] = acc; if (i % 9 == 0) pts[npt++] = bpt_neg(acc); if (i % 13 == 0) pts[npt++] = bpt_add(acc, pts[1]); acc = bpt_add(acc, i % 2 ? RG : bpt_dbl(RG)); }
		for (int i = 0; i < npt && !vf_expired(); i++) if (vf_mine()) { for (int j = 0; j < npt; j++) { K.op = "eblaw"; K.n = 5; mpz_set_si(K.v[0], cid); setb(1, pts[i]); setb(3, pts[j]); vf_run(&K); } K.op = "ebmisc"; K.n = 3; mpz_set_si(K.v[0], cid); setb(1, pts[i]); vf_run(&K); }
		if (tiny) { long n = mpz_get_si(RN); long st = vf_tier ? 1 : 3;
			for (long k = -2 * n - 3; k <= 2 * n + 3 && !vf_expired(); k += st) if (vf_mine()) { K.op = "ebmul"; K.n = 4; mpz_set_si(K.v[0], cid); setb(1, RG); mpz_set_si(K.v[3], k); vf_run(&K); }
			bpt Q = bpt_mul(RG, S.v[S.n > 7 ? 7 : 0]); mpz_set_si(a, 7); Q = bpt_mul(RG, a);
			for (long k = -n - 2; k <= n + 2 && !vf_expired(); k += (vf_tier ? 3 : 11)) if (vf_mine()) for (int j = 0; j < S.n; j++) { K.op = "ebsim"; K.n = 7; mpz_set_si(K.v[0], cid); setb(1, RG); mpz_set_si(K.v[3], k); setb(4, Q); mpz_set(K.v[6], S.v[j]); vf_run(&K); }
		}
		/* base points of the scalar multiplications are points of the order-r subgroup (and the identity): [k]P for P outside it is not what the routines promise */
		{ mpz_set_si(a, 5); bpt P5 = bpt_mul(RG, a);
		for (int j = 0; j < S.n; j++) if (vf_mine()) { K.op = "ebmul"; K.n = 4; mpz_set_si(K.v[0], cid); setb(1, RG); mpz_set(K.v[3], S.v[j]); vf_run(&K); setb(1, P5); vf_run(&K); setb(1, pts[0]); vf_run(&K); } }
		{ long rel[] = {7, 1, -1, 2, -2}; for (unsigned ri = 0; ri < 5; ri++) { mpz_set_si(a, rel[ri]); bpt Q = bpt_mul(RG, a); for (int i = 0; i < S.n && !vf_expired(); i += (tiny ? 1 : 2)) for (int j = i % 3; j < S.n; j += 3) if (vf_mine()) { K.op = "ebsim"; K.n = 7; mpz_set_si(K.v[0], cid); setb(1, RG); mpz_set(K.v[3], S.v[i]); setb(4, Q); mpz_set(K.v[6], S.v[j]); vf_run(&K); } } }
		vf_dom_clear(&S);
		vf_bound_done(bn);
	}
	for (int ci = 0; ci < ncur; ci++) {
		char bn[64]; snprintf(bn, sizeof bn, "ebcodec-curve-%ld", cids[ci]);
		if (!vf_bound_on(bn)) continue;
		long cid = cids[ci]; if (!select_bcurve(cid)) { vf_fail(NULL, "binary curve install failed"); continue; }
		unsigned long FBL = RLC_FB_BYTES; long tags[] = {0, 1, 2, 3, 4, 5, 6, 7, 0xFF};
		/* identity and wrong lengths */
		for (unsigned long len = 0; len <= 2 * FBL + 3; len++) for (unsigned t = 0; t < 9; t++) if (vf_mine()) { if (len == FBL + 1 || len == 2 * FBL + 1) continue; K.op = "ebdec"; K.n = 5; mpz_set_si(K.v[0], cid); mpz_set_ui(K.v[1], len); mpz_set_si(K.v[2], tags[t]); gf_to_mpz(K.v[3], RG.x); gf_to_mpz(K.v[4], RG.y); vf_run(&K); mpz_set_ui(K.v[3], 0); mpz_set_ui(K.v[4], 0); vf_run(&K); }
		if (tiny) {
			unsigned long M = 1UL << GF_M;
			for (unsigned long x = 0; x < M && !vf_expired(); x++) if (vf_mine()) { vf_stat_add("states", 1);
				gf2 X = gf_from_u64(x); bpt P; P.inf = 0; P.x = X; int on = 0; gf2 y0 = gf_zero();
				if (x == 0) { on = 1; y0 = gf_sqrt(EB_B); } else { gf2 xi = gf_inv(X); gf2 cc = gf_add(gf_add(X, EB_A), gf_mul(EB_B, gf_sqr(xi))); if (!gf_trace(cc)) { on = 1; y0 = gf_mul(gf_htrace(cc), X); } }
				/* compressed form: every tag for this abscissa, and the abscissa with each of the unused high bits set */
				for (unsigned t = 0; t < 9; t++) { K.op = "ebdec"; K.n = 5; mpz_set_si(K.v[0], cid); mpz_set_ui(K.v[1], FBL + 1); mpz_set_si(K.v[2], tags[t]); mpz_set_ui(K.v[3], x); mpz_set_ui(K.v[4], 0); vf_run(&K); }
				for (unsigned long hb = GF_M; hb < 8 * FBL; hb++) for (long t = 2; t <= 3; t++) { K.op = "ebdec"; K.n = 5; mpz_set_si(K.v[0], cid); mpz_set_ui(K.v[1], FBL + 1); mpz_set_si(K.v[2], t); mpz_set_ui(K.v[3], x | (1UL << hb)); mpz_set_ui(K.v[4], 0); vf_run(&K); }
				/* uncompressed form: both ordinates when on the curve, neighbours of them, an arbitrary ordinate, wrong tags, high bits */
				gf2 ys[6]; int ny = 0; if (on) { ys[ny++] = y0; ys[ny++] = gf_add(y0, X); ys[ny++] = gf_add(y0, gf_one()); ys[ny++] = gf_add(gf_add(y0, X), gf_one()); } ys[ny++] = gf_from_u64((x * 0x51ED + 3) & (M - 1)); ys[ny++] = gf_zero();
				for (int yi = 0; yi < ny; yi++) { K.op = "ebdec"; K.n = 5; mpz_set_si(K.v[0], cid); mpz_set_ui(K.v[1], 2 * FBL + 1); mpz_set_si(K.v[2], 4); mpz_set_ui(K.v[3], x); gf_to_mpz(K.v[4], ys[yi]); vf_run(&K);
					if (yi < 2) { for (unsigned t = 0; t < 9; t++) if (tags[t] != 4) { mpz_set_si(K.v[2], tags[t]); vf_run(&K); } mpz_set_si(K.v[2], 4);
						for (unsigned long hb = GF_M; hb < 8 * FBL; hb += 3) { mpz_set_ui(K.v[3], x | (1UL << hb)); vf_run(&K); mpz_set_ui(K.v[3], x); mpz_setbit(K.v[4], hb); vf_run(&K); mpz_clrbit(K.v[4], hb); } } }
				/* encoding direction on every point of the curve */
				if (on) { P.y = y0; K.op = "ebenc"; K.n = 3; mpz_set_si(K.v[0], cid); setb(1, P); vf_run(&K); P.y = gf_add(y0, X); if (x) { setb(1, P); vf_run(&K); } }
			}
		} else {
			vf_dom fx; vf_dom_init(&fx); field_alphabet(&fx);
			bpt acc = RG; bpt pl[40]; int np = 0; pl[np++] = bpt_inf(); { bpt t2; t2.inf = 0; t2.x = gf_zero(); t2.y = gf_sqrt(EB_B); pl[np++] = t2; } for (int i = 0; i < 12; i++) { pl[np++] = acc; pl[np++] = bpt_neg(acc); acc = bpt_add(bpt_dbl(acc), RG); }
			for (int i = 0; i < np; i++) if (vf_mine()) { K.op = "ebenc"; K.n = 3; mpz_set_si(K.v[0], cid); setb(1, pl[i]); vf_run(&K); if (pl[i].inf) continue;
				for (unsigned t = 0; t < 9; t++) { K.op = "ebdec"; K.n = 5; mpz_set_si(K.v[0], cid); mpz_set_si(K.v[2], tags[t]); gf_to_mpz(K.v[3], pl[i].x); gf_to_mpz(K.v[4], pl[i].y);
					mpz_set_ui(K.v[1], FBL + 1); vf_run(&K); mpz_set_ui(K.v[1], 2 * FBL + 1); vf_run(&K); gf_to_mpz(K.v[4], gf_add(pl[i].y, gf_one())); vf_run(&K);
					for (unsigned long hb = GF_M; hb < 8 * FBL; hb++) { mpz_setbit(K.v[3], hb); mpz_set_ui(K.v[1], FBL + 1); vf_run(&K); mpz_set_ui(K.v[1], 2 * FBL + 1); vf_run(&K); mpz_clrbit(K.v[3], hb); gf_to_mpz(K.v[4], pl[i].y); mpz_setbit(K.v[4], hb); vf_run(&K); mpz_clrbit(K.v[4], hb); } } }
			/* abscissas from the field alphabet: on the curve or not, both tags */
			for (int i = 0; i < fx.n; i++) if (vf_mine()) for (long t = 2; t <= 4; t++) { K.op = "ebdec"; K.n = 5; mpz_set_si(K.v[0], cid); mpz_set_ui(K.v[1], t == 4 ? 2 * FBL + 1 : FBL + 1); mpz_set_si(K.v[2], t); mpz_set(K.v[3], fx.v[i]); mpz_set(K.v[4], fx.v[(i * 3 + 1) % fx.n]); vf_run(&K); }
			vf_dom_clear(&fx);
		}
		vf_bound_done(bn);
	}
	vf_stat_add("transitions", transitions);
}

VF_MAIN()
