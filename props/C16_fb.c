/*
 * C16 -- binary fields GF(2^m) and binary curves (random and Koblitz).
 * W8: m = 17, every one of the 2^17 elements through every unary operation and variant; tiny curves over
 *     GF(2^17) found by reference point counting: group law on point subsets, every scalar in [-2n-3, 2n+3].
 * W64: m = 283, alphabets; NIST B-283 and K-283.
 */
#include "vf_relic.h"
#include "ref_gf2.h"

static unsigned long long transitions = 0;
static fb_t A, B, C, SA;
static const int tiny = (WSIZE != 64);

static gf2 gf_from_mpz(const mpz_t z) { gf2 r = gf_zero(); size_t c = 0; if (mpz_sgn(z)) mpz_export(r.w, &c, -1, 8, 0, 0, z); return r; }
static void gf_to_mpz(mpz_t z, gf2 a) { mpz_import(z, GW, -1, 8, 0, 0, a.w); }
static void fb_from_gf(fb_t c, gf2 a) { uint8_t raw[GW * 8]; memcpy(raw, a.w, sizeof raw); memset(c, 0, sizeof(fb_st)); memcpy(c, raw, sizeof(fb_st) < sizeof raw ? sizeof(fb_st) : sizeof raw); }
static gf2 gf_from_fb(const fb_t a) { gf2 r = gf_zero(); memcpy(r.w, a, sizeof(fb_st) < sizeof r.w ? sizeof(fb_st) : sizeof r.w); return r; }
static void junk(fb_t c) { memset(c, 0x5A, sizeof(fb_st)); }
static int fb_in_range(const fb_t a) { return gf_deg(gf_from_fb(a)) < GF_M; }

/* ---------------------------------------------------------------- curves */
typedef struct { gf2 a, b; bpt g; long order, r, h; const char *name; } tcurve;
static tcurve TC[8]; static int ntc = 0; static long cur_cid = -99;
static bpt RG; static mpz_t RN, RH; static int is_kbltz;

static bpt bpt_mul(bpt p, const mpz_t k) {
	bpt acc = bpt_inf(); mpz_t a; mpz_init(a); mpz_abs(a, k); size_t n = mpz_sgn(a) ? mpz_sizeinbase(a, 2) : 0;
	for (size_t i = n; i-- > 0;) { acc = bpt_dbl(acc); if (mpz_tstbit(a, i)) acc = bpt_add(acc, p); }
	mpz_clear(a); return mpz_sgn(k) < 0 ? bpt_neg(acc) : acc;
}
static int isprime_l(long n) { if (n < 2) return 0; for (long d = 2; d * d <= n; d++) if (n % d == 0) return 0; return 1; }
static void find_bcurve(const char *name, uint64_t a, uint64_t bstart, int koblitz) {
	for (uint64_t b = bstart; b < 4096; b++) {
		EB_A = gf_from_u64(a); EB_B = gf_from_u64(b);
		long n = 2; /* infinity and (0, sqrt b) */
		for (uint64_t x = 1; x < ((uint64_t)1 << GF_M); x++) { gf2 X = gf_from_u64(x), xi = gf_inv(X); gf2 c = gf_add(gf_add(X, EB_A), gf_mul(EB_B, gf_sqr(xi))); if (gf_trace(c) == 0) n += 2; }
		long h = 1, r = n; while (r % 2 == 0) { r /= 2; h *= 2; }
		if (!isprime_l(r) || h > 4) { if (koblitz) { printf("@INFO Koblitz curve a=%lu over GF(2^%d) has order %ld = %ld * %ld with a composite odd part: not used\n", (unsigned long)a, GF_M, n, h, r); return; } continue; }
		tcurve *c = &TC[ntc]; c->name = name; c->a = EB_A; c->b = EB_B; c->order = n; c->r = r; c->h = h;
		mpz_t hh; mpz_init_set_si(hh, h);
		for (uint64_t x = 1; x < 4096; x++) { gf2 X = gf_from_u64(x), xi = gf_inv(X); gf2 cc = gf_add(gf_add(X, EB_A), gf_mul(EB_B, gf_sqr(xi))); if (gf_trace(cc)) continue; gf2 z = gf_htrace(cc); bpt p; p.inf = 0; p.x = X; p.y = gf_mul(z, X); if (!bpt_on_curve(p)) continue; bpt g = bpt_mul(p, hh); if (g.inf) continue; c->g = g; break; }
		mpz_clear(hh); ntc++; return;
	}
	fprintf(stderr, "no binary curve found for %s\n", name); exit(2);
}

static void harness_setup(void) {
	if (core_init() != RLC_OK) exit(2);
	vf_reseed();
	fb_new(A); fb_new(B); fb_new(C); fb_new(SA); mpz_inits(RN, RH, NULL);
	if (tiny) {
		int t[] = {3}; gf_set_poly(17, t, 1);
		fb_poly_set_trino(3);
		find_bcurve("K17-1 Koblitz a=1 b=1", 1, 1, 1);
		find_bcurve("K17-0 Koblitz a=0 b=1", 0, 1, 1);
		find_bcurve("R17 random a=1", 1, 2, 0);
		find_bcurve("R17z random a=0", 0, 2, 0);
		for (int i = 0; i < ntc; i++) printf("@INFO binary curve %d: %s b=%llx order=%ld = %ld * %ld\n", i, TC[i].name, (unsigned long long)TC[i].b.w[0], TC[i].order, TC[i].h, TC[i].r);
	} else {
#if FB_POLYN == 163
		int t[] = {7, 6, 3}; gf_set_poly(163, t, 3); fb_param_set(NIST_163);
#elif FB_POLYN == 233
		int t[] = {74}; gf_set_poly(233, t, 1); fb_param_set(NIST_233);
#else
		int t[] = {12, 7, 5}; gf_set_poly(283, t, 3);
		fb_param_set(NIST_283);
#endif
	}
	/* the library's polynomial must be the reference's */
	gf2 lp = gf_zero(); memcpy(lp.w, fb_poly_get(), sizeof(fb_st)); gf_setbit(&lp, GF_M);
	if (!gf_eq(lp, GF_POLY)) { fprintf(stderr, "library polynomial differs from the reference polynomial\n"); exit(2); }
}

static int select_bcurve(long cid) {
	if (cid == cur_cid) return 1;
	int th; cur_cid = -99;
	if (tiny) {
		if (cid < 0 || cid >= ntc) return 0;
		tcurve *c = &TC[cid]; fb_t a, b; eb_t g; bn_t r, h; fb_new(a); fb_new(b); eb_new(g); bn_new(r); bn_new(h);
		fb_from_gf(a, c->a); fb_from_gf(b, c->b); fb_from_gf(g->x, c->g.x); fb_from_gf(g->y, c->g.y); fb_set_dig(g->z, 1); g->coord = BASIC;
		mpz_t t; mpz_init(t); mpz_set_si(t, c->r); vf_bn_set(r, t); mpz_set_si(t, c->h); vf_bn_set(h, t); mpz_clear(t);
		vf_reseed();
		VF_TRY(th, eb_curve_set(a, b, g, r, h)); if (th) return 0;
		EB_A = c->a; EB_B = c->b; RG = c->g; mpz_set_si(RN, c->r); mpz_set_si(RH, c->h);
	} else {
		VF_TRY(th, eb_param_set((int)cid)); if (th) return 0;
		ctx_t *ctx = core_get(); EB_A = gf_from_fb(ctx->eb_a); EB_B = gf_from_fb(ctx->eb_b);
		RG.inf = 0; RG.x = gf_from_fb(ctx->eb_g.x); RG.y = gf_from_fb(ctx->eb_g.y); vf_bn_get(RN, &ctx->eb_r); vf_bn_get(RH, &ctx->eb_h);
		if (!bpt_on_curve(RG)) return 0;
	}
	is_kbltz = eb_curve_is_kbltz();
	cur_cid = cid; return 1;
}
#define REP_AFF 0
#define REP_LD 1
static void eb_inject(eb_t e, bpt p, int rep, uint64_t lam) {
	if (p.inf) { eb_set_infty(e); if (rep == REP_LD) e->coord = PROJC; return; }
	if (rep == REP_AFF) { fb_from_gf(e->x, p.x); fb_from_gf(e->y, p.y); fb_set_dig(e->z, 1); e->coord = BASIC; }
	else { gf2 l = gf_from_u64(lam); fb_from_gf(e->x, gf_mul(p.x, l)); fb_from_gf(e->y, gf_mul(p.y, gf_sqr(l))); fb_from_gf(e->z, l); e->coord = PROJC; }
}
static int eb_extract(bpt *r, const eb_t e) {
	gf2 x = gf_from_fb(e->x), y = gf_from_fb(e->y), z = gf_from_fb(e->z);
	int ok = fb_in_range(e->x) && fb_in_range(e->y) && fb_in_range(e->z);
	if (gf_is_zero(z)) { *r = bpt_inf(); return ok; }
	r->inf = 0;
	if (e->coord == PROJC) { gf2 zi = gf_inv(z); r->x = gf_mul(x, zi); r->y = gf_mul(y, gf_sqr(zi)); }
	else if (e->coord == HALVE) { r->x = x; r->y = gf_mul(gf_add(x, y), x); } /* lambda representation: y = x (x + lambda) */
	else { r->x = x; r->y = y; if (!gf_eq(z, gf_one())) ok = 0; }
	return ok;
}
static void expect_bpt(const char *what, const eb_t got, bpt exp, int must_norm, const char *kf) {
	bpt r; transitions++;
	int ok = eb_extract(&r, got);
	if (!bpt_eq(r, exp)) { vf_fail(kf, "%s: expected %s(%llx..,%llx..) got %s(%llx..,%llx..)", what, exp.inf ? "INF" : "", (unsigned long long)exp.x.w[0], (unsigned long long)exp.y.w[0], r.inf ? "INF" : "", (unsigned long long)r.x.w[0], (unsigned long long)r.y.w[0]); }
	else if (!ok) vf_fail(kf, "%s: a coordinate has bits at or above x^m, or an affine result has z != 1", what);
	else if (must_norm && !r.inf && got->coord != BASIC) vf_fail(kf, "%s: result not normalised (coord %d)", what, got->coord);
}
static bpt pt_arg(const mpz_t x, const mpz_t y) { bpt p; if (mpz_sgn(x) < 0) return bpt_inf(); p.inf = 0; p.x = gf_from_mpz(x); p.y = gf_from_mpz(y); return p; }

/* ---------------------------------------------------------------- field */
static void expect_fb(const char *what, const fb_t got, gf2 exp, const char *kf) {
	transitions++;
	gf2 g = gf_from_fb(got);
	if (!gf_eq(g, exp)) vf_fail(kf, "%s: expected %llx.. got %llx..", what, (unsigned long long)exp.w[0], (unsigned long long)g.w[0]);
}
typedef void (*fb_un)(fb_t, const fb_t);
typedef void (*fb_bin)(fb_t, const fb_t, const fb_t);
static void do_fbun(vf_case *c) {
	int th; gf2 a = gf_from_mpz(c->v[0]);
	static const struct { const char *n; fb_un f; int kind; } UN[] = {
		{"fb_sqr_basic", fb_sqr_basic, 0}, {"fb_sqr_integ", fb_sqr_integ, 0}, {"fb_sqr_quick", fb_sqr_quick, 0},
		{"fb_srt_basic", fb_srt_basic, 1}, {"fb_srt_quick", fb_srt_quick, 1},
		{"fb_inv_basic", fb_inv_basic, 2}, {"fb_inv_binar", fb_inv_binar, 2}, {"fb_inv_exgcd", fb_inv_exgcd, 2}, {"fb_inv_almos", fb_inv_almos, 2},
		{"fb_inv_itoht", fb_inv_itoht, 2}, {"fb_inv_bruch", fb_inv_bruch, 2}, {"fb_inv_ctaia", fb_inv_ctaia, 2}, {"fb_inv_lower", fb_inv_lower, 2},
		{"fb_slv_basic", fb_slv_basic, 3}, {"fb_slv_quick", fb_slv_quick, 3}};
	gf2 sq = gf_sqr(a), rt = gf_sqrt(a), inv = gf_is_zero(a) ? gf_zero() : gf_inv(a); int tr = gf_trace(a);
	for (unsigned i = 0; i < sizeof UN / sizeof *UN; i++) for (int al = 0; al < 2; al++) {
		fb_from_gf(A, a); fb_copy(SA, A); junk(C); fb_st *pc = al ? A : C;
		VF_TRY(th, UN[i].f(pc, A));
		if (UN[i].kind == 2 && gf_is_zero(a)) { transitions++; if (!th) vf_fail(NULL, "%s: inversion of zero was not reported as an error", UN[i].n); continue; }
		if (th) { vf_fail(NULL, "%s raised %d", UN[i].n, th); continue; }
		if (UN[i].kind == 0) expect_fb(UN[i].n, pc, sq, NULL); else if (UN[i].kind == 1) expect_fb(UN[i].n, pc, rt, NULL); else if (UN[i].kind == 2) expect_fb(UN[i].n, pc, inv, NULL);
		else if (tr == 0) { /* the solution z of z^2 + z = a is defined up to +1 */ transitions++; gf2 z = gf_from_fb(pc); if (!gf_eq(gf_add(gf_sqr(z), z), a)) vf_fail(NULL, "%s: result does not solve z^2 + z = a (trace 0)", UN[i].n); else if (!fb_in_range(pc)) vf_fail(NULL, "%s: result not reduced", UN[i].n); }
		if (!al && memcmp(A, SA, sizeof(fb_st))) vf_fail(NULL, "%s: input modified", UN[i].n);
	}
	fb_from_gf(A, a); transitions += 2;
	int t1 = 9, t2 = 9; VF_TRY(th, t1 = fb_trc_basic(A)); VF_TRY(th, t2 = fb_trc_quick(A));
	if (t1 != tr) vf_fail(NULL, "fb_trc_basic: expected %d got %d", tr, t1); if (t2 != tr) vf_fail(NULL, "fb_trc_quick: expected %d got %d", tr, t2);
	if ((fb_is_zero(A) != 0) != gf_is_zero(a)) vf_fail(NULL, "fb_is_zero wrong");
	if (fb_bits(A) != (size_t)(gf_deg(a) + 1)) vf_fail(NULL, "fb_bits: expected %d got %zu", gf_deg(a) + 1, (size_t)fb_bits(A));
	/* iterated squaring for every count 0..m+1 (basic) and the table method for a few */
	{ gf2 s = a; for (int k = 0; k <= GF_M + 1; k++) { if (tiny || k < 4 || k > GF_M - 2 || k % 37 == 0) { fb_from_gf(A, a); junk(C); VF_TRY(th, fb_itr_basic(C, A, k)); if (th) vf_fail(NULL, "fb_itr_basic(%d) raised", k); else expect_fb("fb_itr_basic", C, s, NULL);
			/* fb_exp_2b is declared in the header but not defined in this tree */ } s = gf_sqr(s); } }
	/* codec: write / read round trip and rejection of bits >= m is in do_fbbin_codec */
}
static void do_fbbin(vf_case *c) {
	int th; gf2 a = gf_from_mpz(c->v[0]), b = gf_from_mpz(c->v[1]);
	static const struct { const char *n; fb_bin f; } BIN[] = {{"fb_mul_basic", fb_mul_basic}, {"fb_mul_integ", fb_mul_integ}, {"fb_mul_lodah", fb_mul_lodah},
#if FB_KARAT > 0
		{"fb_mul_karat", fb_mul_karat},
#endif
	};
	gf2 pr = gf_mul(a, b), sm = gf_add(a, b);
	for (unsigned i = 0; i < sizeof BIN / sizeof *BIN; i++) for (int al = 0; al < 4; al++) {
		if (al == 3 && !gf_eq(a, b)) continue;
		fb_from_gf(A, a); fb_from_gf(B, b); junk(C); fb_st *pa = A, *pb = al == 3 ? A : B, *pc = al == 1 ? A : al == 2 ? B : C;
		VF_TRY(th, BIN[i].f(pc, pa, pb)); if (th) vf_fail(NULL, "%s raised %d", BIN[i].n, th); else expect_fb(BIN[i].n, pc, pr, NULL);
	}
	fb_from_gf(A, a); fb_from_gf(B, b); junk(C); VF_TRY(th, fb_add(C, A, B)); if (th) vf_fail(NULL, "fb_add raised"); else expect_fb("fb_add", C, sm, NULL);
	transitions++; if ((fb_cmp(A, B) == RLC_EQ) != gf_eq(a, b)) vf_fail(NULL, "fb_cmp wrong");
	if (gf_deg(b) < VF_DIGB) { dig_t d = (dig_t)b.w[0]; fb_from_gf(A, a); junk(C); VF_TRY(th, fb_mul_dig(C, A, d)); if (th) vf_fail(NULL, "fb_mul_dig raised"); else expect_fb("fb_mul_dig", C, pr, NULL);
		junk(C); VF_TRY(th, fb_add_dig(C, A, d)); if (!th) expect_fb("fb_add_dig", C, sm, NULL); }
	/* simultaneous inversion of {a, b, a+b+1..} when all non-zero */
	if (!gf_is_zero(a) && !gf_is_zero(b)) { fb_t in[3], out[3]; gf2 e3 = gf_add(gf_mul(a, b), gf_one()); if (!gf_is_zero(e3)) { for (int i = 0; i < 3; i++) { fb_new(in[i]); fb_new(out[i]); junk(out[i]); } fb_from_gf(in[0], a); fb_from_gf(in[1], b); fb_from_gf(in[2], e3);
		VF_TRY(th, fb_inv_sim(out, (const fb_t *)in, 3)); if (th) vf_fail(NULL, "fb_inv_sim raised"); else { expect_fb("fb_inv_sim", out[0], gf_inv(a), NULL); expect_fb("fb_inv_sim", out[1], gf_inv(b), NULL); expect_fb("fb_inv_sim", out[2], gf_inv(e3), NULL); } } }
}
static void do_fbexp(vf_case *c) { /* a, e */
	int th; gf2 a = gf_from_mpz(c->v[0]); bn_t e; bn_new(e); if (!vf_bn_set(e, c->v[1])) return;
	typedef void (*ex_fn)(fb_t, const fb_t, const bn_t);
	static const struct { const char *n; ex_fn f; } EX[] = {{"fb_exp_basic", fb_exp_basic}, {"fb_exp_slide", fb_exp_slide}, {"fb_exp_monty", fb_exp_monty}};
	int defined = 1; gf2 base = a; mpz_t k; mpz_init(k); mpz_abs(k, c->v[1]);
	if (mpz_sgn(c->v[1]) < 0) { if (gf_is_zero(a)) defined = 0; else base = gf_inv(a); }
	gf2 r = gf_one(); for (size_t i = mpz_sizeinbase(k, 2); i-- > 0 && mpz_sgn(k);) { r = gf_sqr(r); if (mpz_tstbit(k, i)) r = gf_mul(r, base); }
	mpz_clear(k);
	for (int i = 0; i < 3; i++) { fb_from_gf(A, a); junk(C); VF_TRY(th, EX[i].f(C, A, e)); transitions++;
		if (!defined) { if (!th) vf_fail(NULL, "%s: 0 to a negative power not reported", EX[i].n); continue; }
		if (th) { vf_fail(NULL, "%s raised %d", EX[i].n, th); continue; } expect_fb(EX[i].n, C, r, NULL); }
}
/* byte codec: args len, value */
static void do_fbcodec(vf_case *c) {
	int th; size_t len = mpz_get_ui(c->v[0]); uint8_t buf[80], out[120]; memset(buf, 0, sizeof buf);
	if (len > 60) return;
	if (mpz_sgn(c->v[1])) { size_t n = (mpz_sizeinbase(c->v[1], 2) + 7) / 8; if (n > len) return; mpz_export(buf + len - n, NULL, 1, 1, 1, 0, c->v[1]); }
	int valid = len == RLC_FB_BYTES && (mpz_sgn(c->v[1]) == 0 || mpz_sizeinbase(c->v[1], 2) <= (size_t)GF_M);
	junk(C); VF_TRY(th, fb_read_bin(C, buf, len)); transitions++;
	if (!valid) { if (!th) vf_fail(NULL, "fb_read_bin accepted %s", len != RLC_FB_BYTES ? "a wrong length" : "an element with bits at or above x^m"); return; }
	if (th) { vf_fail(NULL, "fb_read_bin raised %d on a valid encoding", th); return; }
	if (!gf_eq(gf_from_fb(C), gf_from_mpz(c->v[1]))) { vf_fail(NULL, "fb_read_bin decoded a different element"); return; }
	memset(out, 0xC7, sizeof out); VF_TRY(th, fb_write_bin(out + 16, RLC_FB_BYTES, C)); transitions++;
	if (th) vf_fail(NULL, "fb_write_bin raised"); else if (memcmp(out + 16, buf, RLC_FB_BYTES)) vf_fail(NULL, "fb_write_bin: re-encoding differs"); else if (out[15] != 0xC7 || out[16 + RLC_FB_BYTES] != 0xC7) vf_fail(NULL, "fb_write_bin wrote outside its buffer");
	VF_TRY(th, fb_write_bin(out + 16, RLC_FB_BYTES - 1, C)); if (!th) vf_fail(NULL, "fb_write_bin accepted a short buffer");
}

/* ---------------------------------------------------------------- curve: group law. args cid, xP, yP, xQ, yQ */
static void do_eblaw(vf_case *c) {
	int th; bpt P = pt_arg(c->v[1], c->v[2]), Q = pt_arg(c->v[3], c->v[4]);
	bpt S = bpt_add(P, Q), D = bpt_dbl(P), M = bpt_add(P, bpt_neg(Q)), N = bpt_neg(P);
	eb_t p, q, r; eb_new(p); eb_new(q); eb_new(r);
	int same = bpt_eq(P, Q);
	for (int sys = 0; sys < 2; sys++) for (int rp = 0; rp <= sys; rp++) for (int rq = 0; rq <= sys; rq++) for (int al = 0; al < 4; al++) {
		if (al == 3 && (!same || rp != rq)) continue;
		eb_inject(p, P, rp, 3); eb_inject(q, Q, rq, 5);
		eb_st *pp = p, *pq = al == 3 ? p : q, *pr = al == 1 ? p : al == 2 ? q : r;
		if (pr == r) memset(r, 0x5A, sizeof(eb_st));
		char w[80];
		if (sys == 0) VF_TRY(th, eb_add_basic(pr, pp, pq)); else VF_TRY(th, eb_add_projc(pr, pp, pq));
		snprintf(w, sizeof w, "%s[reps %d,%d alias %d]", sys ? "eb_add_projc" : "eb_add_basic", rp, rq, al);
		if (th) vf_fail(NULL, "%s raised %d", w, th); else expect_bpt(w, pr, S, 0, NULL);
		if (al == 0) { eb_inject(p, P, rp, 3); eb_inject(q, Q, rq, 5); if (sys == 0) VF_TRY(th, eb_sub_basic(r, p, q)); else VF_TRY(th, eb_sub_projc(r, p, q));
			snprintf(w, sizeof w, "%s[reps %d,%d]", sys ? "eb_sub_projc" : "eb_sub_basic", rp, rq); if (th) vf_fail(NULL, "%s raised %d", w, th); else expect_bpt(w, r, M, 0, NULL); }
	}
	for (int sys = 0; sys < 2; sys++) for (int rp = 0; rp <= sys; rp++) for (int al = 0; al < 2; al++) {
		eb_inject(p, P, rp, 7); eb_st *pr = al ? p : r; char w[80];
		if (sys == 0) VF_TRY(th, eb_dbl_basic(pr, p)); else VF_TRY(th, eb_dbl_projc(pr, p));
		snprintf(w, sizeof w, "%s[rep %d alias %d]", sys ? "eb_dbl_projc" : "eb_dbl_basic", rp, al);
		if (th) vf_fail(NULL, "%s raised %d", w, th); else expect_bpt(w, pr, D, 0, NULL);
		eb_inject(p, P, rp, 7); if (sys == 0 && rp == 0) { VF_TRY(th, eb_neg_basic(r, p)); if (!th) expect_bpt("eb_neg_basic", r, N, 0, NULL); } if (sys == 1) { VF_TRY(th, eb_neg_projc(r, p)); if (!th) expect_bpt("eb_neg_projc", r, N, 0, NULL); }
	}
	for (int rp = 0; rp < 2; rp++) for (int rq = 0; rq < 2; rq++) { eb_inject(p, P, rp, 9); eb_inject(q, Q, rq, 11); int e; VF_TRY(th, e = eb_cmp(p, q)); transitions++; if (!th && ((e == RLC_EQ) != same)) vf_fail(NULL, "eb_cmp[reps %d,%d]: says %s for %s points", rp, rq, e == RLC_EQ ? "EQ" : "NE", same ? "equal" : "different"); }
	for (int rp = 0; rp < 2; rp++) { eb_inject(p, P, rp, 13); VF_TRY(th, eb_norm(r, p)); if (th) vf_fail(NULL, "eb_norm raised"); else expect_bpt("eb_norm", r, P, 1, NULL); int oc; VF_TRY(th, oc = eb_on_curve(p)); transitions++; if (!th && !oc) vf_fail(NULL, "eb_on_curve rejects a curve point (rep %d)", rp); }
	if (!P.inf) { bpt X = P; X.y = gf_add(X.y, gf_one()); if (!bpt_on_curve(X)) { eb_inject(p, X, 0, 1); int oc; VF_TRY(th, oc = eb_on_curve(p)); transitions++; if (!th && oc) vf_fail(NULL, "eb_on_curve accepts an off-curve point"); } }
}
/* halving and Frobenius: args cid, x, y */
static void do_ebmisc(vf_case *c) {
	int th; bpt P = pt_arg(c->v[1], c->v[2]); eb_t p, r; eb_new(p); eb_new(r);
	if (P.inf) return;
	eb_inject(p, P, 0, 1);
	/* halving is defined on the odd-order subgroup: [r]P = infinity */
	bpt T = bpt_mul(P, RN);
	if (T.inf) { VF_TRY(th, eb_hlv(r, p)); transitions++; if (th) vf_fail(NULL, "eb_hlv raised %d", th); else { bpt H; int ok = eb_extract(&H, r); if (!ok) vf_fail(NULL, "eb_hlv: unreduced coordinate"); else if (!bpt_on_curve(H)) vf_fail(NULL, "eb_hlv: result not on the curve"); else if (!bpt_eq(bpt_dbl(H), P)) vf_fail(NULL, "eb_hlv: doubling the result does not give the argument"); else if (mpz_cmp_ui(RH, 2) == 0 && !bpt_mul(H, RN).inf) vf_fail(NULL, "eb_hlv: result outside the odd-order subgroup (cofactor-2 curve)"); } }
	if (is_kbltz) { VF_TRY(th, eb_frb(r, p)); if (th) vf_fail(NULL, "eb_frb raised"); else { bpt F; F.inf = 0; F.x = gf_sqr(P.x); F.y = gf_sqr(P.y); expect_bpt("eb_frb", r, F, 0, NULL); }
		eb_inject(p, P, 1, 3); VF_TRY(th, eb_frb(r, p)); if (!th) { bpt F; F.inf = 0; F.x = gf_sqr(P.x); F.y = gf_sqr(P.y); expect_bpt("eb_frb[projective]", r, F, 0, NULL); } }
}
/* scalar multiplication: args cid, x, y, k */
typedef void (*emul_fn)(eb_t, const eb_t, const bn_t);
typedef void (*epre_fn)(eb_t *, const eb_t);
typedef void (*efix_fn)(eb_t, const eb_t *, const bn_t);
static eb_t TAB[4][RLC_EB_TABLE_MAX]; static int tab_ok[4], tab_init = 0; static long tab_cid = -5; static gf2 tab_x;
static const struct { const char *n; epre_fn pre; efix_fn fix; } FIX[] = {{"eb_mul_fix_basic", eb_mul_pre_basic, eb_mul_fix_basic}, {"eb_mul_fix_combs", eb_mul_pre_combs, eb_mul_fix_combs}, {"eb_mul_fix_combd", eb_mul_pre_combd, eb_mul_fix_combd}, {"eb_mul_fix_lwnaf", eb_mul_pre_lwnaf, eb_mul_fix_lwnaf}};
static void do_ebmul(vf_case *c) {
	int th; bpt P = pt_arg(c->v[1], c->v[2]); bpt E = bpt_mul(P, c->v[3]);
	bn_t k; bn_new(k); if (!vf_bn_set(k, c->v[3])) return;
	eb_t p, r; eb_new(p); eb_new(r);
	static const struct { const char *n; emul_fn f; int subgroup; } MUL[] = {{"eb_mul_basic", eb_mul_basic, 0}, {"eb_mul_lodah", eb_mul_lodah, 0}, {"eb_mul_lwnaf", eb_mul_lwnaf, 0}, {"eb_mul_rwnaf", eb_mul_rwnaf, 0}, {"eb_mul_halve", eb_mul_halve, 1}};
	for (unsigned i = 0; i < 5; i++) for (int rp = 0; rp < 2; rp++) {
		if (rp && P.inf) continue;
		eb_inject(p, P, rp, 3); memset(r, 0x5A, sizeof(eb_st)); r->coord = BASIC; vf_reseed();
		VF_TRY(th, MUL[i].f(r, p, k)); char w[64]; snprintf(w, sizeof w, "%s[rep %d]", MUL[i].n, rp);
		const char *kf = NULL; int unreduced = mpz_cmpabs(c->v[3], RN) >= 0;
		if (rp && (i == 1 || i == 3 || i == 4)) kf = "L29-eb-mul-projective-input";
		else if (unreduced && i >= 1) kf = "L14-eb-unreduced-scalar";
		if (th) { vf_fail(kf, "%s raised %d", w, th); continue; } expect_bpt(w, r, E, 1, kf);
	}
	if (mpz_sgn(c->v[3]) >= 0 && mpz_sizeinbase(c->v[3], 2) <= (size_t)VF_DIGB) { dig_t d = 0; mpz_export(&d, NULL, -1, sizeof(dig_t), 0, 0, c->v[3]); eb_inject(p, P, 0, 1); VF_TRY(th, eb_mul_dig(r, p, d)); if (th) vf_fail(NULL, "eb_mul_dig raised %d", th); else expect_bpt("eb_mul_dig", r, E, 1, NULL); }
	if (bpt_eq(P, RG)) { vf_reseed(); VF_TRY(th, eb_mul_gen(r, k)); if (th) vf_fail(NULL, "eb_mul_gen raised %d", th); else expect_bpt("eb_mul_gen", r, E, 1, NULL); }
	if (!P.inf) {
		if (!tab_init) { tab_init = 1; for (int i = 0; i < 4; i++) for (int j = 0; j < RLC_EB_TABLE_MAX; j++) eb_new(TAB[i][j]); }
		if (tab_cid != cur_cid || !gf_eq(tab_x, P.x)) { eb_inject(p, P, 0, 1); for (int i = 0; i < 4; i++) { VF_TRY(th, FIX[i].pre(TAB[i], p)); tab_ok[i] = !th; } tab_cid = cur_cid; tab_x = P.x; }
		for (int i = 0; i < 4; i++) { if (!tab_ok[i]) { vf_fail(NULL, "%s: precomputation raised", FIX[i].n); continue; } const char *kf = (i == 3 && mpz_cmpabs(c->v[3], RN) >= 0) ? "L14-eb-unreduced-scalar" : NULL;
			VF_TRY(th, FIX[i].fix(r, (const eb_t *)TAB[i], k)); if (th) vf_fail(kf, "%s raised %d", FIX[i].n, th); else expect_bpt(FIX[i].n, r, E, 1, kf); }
	}
}
typedef void (*esim_fn)(eb_t, const eb_t, const bn_t, const eb_t, const bn_t);
static void do_ebsim(vf_case *c) { /* cid, xP,yP,k, xQ,yQ,m */
	int th; bpt P = pt_arg(c->v[1], c->v[2]), Q = pt_arg(c->v[4], c->v[5]); bpt E = bpt_add(bpt_mul(P, c->v[3]), bpt_mul(Q, c->v[6]));
	bn_t k, m; bn_new(k); bn_new(m); if (!vf_bn_set(k, c->v[3]) || !vf_bn_set(m, c->v[6])) return;
	eb_t p, q, r; eb_new(p); eb_new(q); eb_new(r);
	static const struct { const char *n; esim_fn f; } SIM[] = {{"eb_mul_sim_basic", eb_mul_sim_basic}, {"eb_mul_sim_trick", eb_mul_sim_trick}, {"eb_mul_sim_inter", eb_mul_sim_inter}, {"eb_mul_sim_joint", eb_mul_sim_joint}};
	size_t lk = mpz_sizeinbase(c->v[3], 2), lm = mpz_sizeinbase(c->v[6], 2);
	for (int i = 0; i < 4; i++) { eb_inject(p, P, 0, 1); eb_inject(q, Q, 0, 1); memset(r, 0x5A, sizeof(eb_st)); r->coord = BASIC; vf_reseed();
		VF_TRY(th, SIM[i].f(r, p, k, q, m));
		const char *kf = (mpz_cmpabs(c->v[3], RN) >= 0 || mpz_cmpabs(c->v[6], RN) >= 0) ? "L14-eb-unreduced-scalar" : NULL;

		if (th) { vf_fail(kf, "%s raised %d", SIM[i].n, th); continue; } expect_bpt(SIM[i].n, r, E, 1, kf); }
	if (bpt_eq(P, RG)) { const char *kf = (mpz_cmpabs(c->v[3], RN) >= 0 || mpz_cmpabs(c->v[6], RN) >= 0) ? "L14-eb-unreduced-scalar" : NULL; eb_inject(q, Q, 0, 1); vf_reseed(); VF_TRY(th, eb_mul_sim_gen(r, k, q, m)); if (th) vf_fail(kf, "eb_mul_sim_gen raised %d", th); else expect_bpt("eb_mul_sim_gen", r, E, 1, kf); }
}

static void run_case(vf_case *c) {
	vf_nontrivial();
	if (!strncmp(c->op, "eb", 2)) { if (!select_bcurve(mpz_get_si(c->v[0]))) { vf_fail(NULL, "binary curve %ld could not be installed", mpz_get_si(c->v[0])); return; } }
	if (!strcmp(c->op, "fbun")) do_fbun(c); else if (!strcmp(c->op, "fbbin")) do_fbbin(c); else if (!strcmp(c->op, "fbexp")) do_fbexp(c); else if (!strcmp(c->op, "fbcodec")) do_fbcodec(c);
	else if (!strcmp(c->op, "eblaw")) do_eblaw(c); else if (!strcmp(c->op, "ebmisc")) do_ebmisc(c); else if (!strcmp(c->op, "ebmul")) do_ebmul(c); else if (!strcmp(c->op, "ebsim")) do_ebsim(c);
	else vf_fail(NULL, "unknown op");
}

/* ---------------------------------------------------------------- enumeration */
static vf_case K;
static void setb(int i, bpt p) { if (p.inf) { mpz_set_si(K.v[i], -1); mpz_set_ui(K.v[i + 1], 0); } else { gf_to_mpz(K.v[i], p.x); gf_to_mpz(K.v[i + 1], p.y); } }
static void field_alphabet(vf_dom *d) {
	mpz_t t; mpz_init(t);
	vf_dom_add_si(d, 0); vf_dom_add_si(d, 1); vf_dom_add_si(d, 2); vf_dom_add_si(d, 3);
	mpz_set_ui(t, 1); mpz_mul_2exp(t, t, (unsigned long)GF_M - 1); vf_dom_add(d, t); mpz_add_ui(t, t, 1); vf_dom_add(d, t);
	mpz_set_ui(t, 1); mpz_mul_2exp(t, t, (unsigned long)GF_M); mpz_sub_ui(t, t, 1); vf_dom_add(d, t);
	for (int k = 7; k < GF_M; k += (GF_M > 64 ? 19 : 3)) { mpz_set_ui(t, 1); mpz_mul_2exp(t, t, (unsigned long)k); vf_dom_add(d, t); mpz_sub_ui(t, t, 1); vf_dom_add(d, t); }
	for (int k = 63; k < GF_M; k += 64) for (int j = -1; j <= 1; j++) { mpz_set_ui(t, 1); mpz_mul_2exp(t, t, (unsigned long)(k + j)); vf_dom_add(d, t); }
	if (GF_M > 256) { mpz_set_ui(t, 1); mpz_mul_2exp(t, t, (unsigned long)GF_M); mpz_sub_ui(t, t, 1); mpz_fdiv_q_2exp(t, t, 256); mpz_mul_2exp(t, t, 256); vf_dom_add(d, t); } /* bits 256..m-1 set */
	gf2 v = gf_from_u64(0x1ABCD); for (int i = 0; i < 6; i++) { v = gf_mul(gf_add(v, gf_from_u64(7)), gf_from_u64(0x1F3)); v = gf_sqr(v); gf_to_mpz(t, v); vf_dom_add(d, t); }
	mpz_clear(t); vf_dom_uniq(d);
}
static void scalar_alphabet(vf_dom *d) {
	mpz_t t; mpz_init(t);
	for (long i = -2; i <= 3; i++) vf_dom_add_si(d, i);
	vf_dom_add_near(d, RN, 0); mpz_neg(t, RN); vf_dom_add(d, t); mpz_mul_2exp(t, RN, 1); vf_dom_add(d, t); mpz_add_ui(t, t, 1); vf_dom_add(d, t);
	mpz_fdiv_q_2exp(t, RN, 1); vf_dom_add(d, t); mpz_add_ui(t, t, 1); vf_dom_add(d, t);
	int ks[] = {GF_M - 2, GF_M - 1, GF_M, GF_M + 1, 63, 64, 65, 127, 128};
	for (unsigned i = 0; i < 9; i++) if (ks[i] > 2) { mpz_set_ui(t, 1); mpz_mul_2exp(t, t, (unsigned long)ks[i]); vf_dom_add(d, t); mpz_sub_ui(t, t, 1); vf_dom_add(d, t); }
	mpz_set_ui(t, 1); mpz_mul_2exp(t, t, (unsigned long)GF_M + 17); vf_dom_add(d, t);
	mpz_set_ui(t, 1); mpz_mul_2exp(t, t, (unsigned long)(tiny ? 60 : 600)); mpz_sub_ui(t, t, 1); vf_dom_add(d, t);
	mpz_clear(t); vf_dom_uniq(d);
}

static void enumerate(void) {
	vf_case_init(&K);
	mpz_t a, b; mpz_inits(a, b, NULL);
	vf_dom fa; vf_dom_init(&fa); field_alphabet(&fa);
	if (vf_bound_on("field")) {
		if (tiny) { for (unsigned long x = 0; x < (1UL << GF_M) && !vf_expired(); x++) if (vf_mine()) { vf_stat_add("states", 1); K.op = "fbun"; K.n = 1; mpz_set_ui(K.v[0], x); vf_run(&K);
				for (int j = 0; j < fa.n; j++) { K.op = "fbbin"; K.n = 2; mpz_set_ui(K.v[0], x); mpz_set(K.v[1], fa.v[j]); vf_run(&K); } } }
		for (int i = 0; i < fa.n && !vf_expired(); i++) if (vf_mine()) { K.op = "fbun"; K.n = 1; mpz_set(K.v[0], fa.v[i]); vf_run(&K);
			for (int j = 0; j < fa.n; j++) { K.op = "fbbin"; K.n = 2; mpz_set(K.v[0], fa.v[i]); mpz_set(K.v[1], fa.v[j]); vf_run(&K); }
			long es[] = {0, 1, 2, 3, -1, -2, -3, 255, 256, 65535, 65537}; for (unsigned j = 0; j < 11; j++) { K.op = "fbexp"; K.n = 2; mpz_set(K.v[0], fa.v[i]); mpz_set_si(K.v[1], es[j]); vf_run(&K); }
			mpz_set_ui(b, 1); mpz_mul_2exp(b, b, (unsigned long)GF_M); for (int dlt = -2; dlt <= 1; dlt++) { if (dlt < 0) mpz_sub_ui(a, b, (unsigned long)-dlt); else mpz_add_ui(a, b, (unsigned long)dlt); K.op = "fbexp"; K.n = 2; mpz_set(K.v[0], fa.v[i]); mpz_set(K.v[1], a); vf_run(&K); mpz_neg(K.v[1], a); vf_run(&K); }
		}
		if (tiny) for (long e = -300; e <= 300; e++) if (vf_mine()) for (unsigned long x = 0; x < 6; x++) { K.op = "fbexp"; K.n = 2; mpz_set_ui(K.v[0], x == 5 ? 0x1FFFF : x); mpz_set_si(K.v[1], e); vf_run(&K); }
		/* codec: every 3-byte string in the tiny field; alphabets at 283 bits */
		if (tiny) { for (unsigned long x = 0; x < (1UL << 24) && !vf_expired(); x += (x < (1UL << 18) ? 1 : 257)) if (vf_mine()) { K.op = "fbcodec"; K.n = 2; mpz_set_ui(K.v[0], 3); mpz_set_ui(K.v[1], x); vf_run(&K); } for (int l = 0; l < 6; l++) if (vf_mine()) { K.op = "fbcodec"; K.n = 2; mpz_set_ui(K.v[0], (unsigned long)l); mpz_set_ui(K.v[1], l ? 1 : 0); vf_run(&K); } }
		else for (int i = 0; i < fa.n; i++) if (vf_mine()) for (int l = 34; l <= 38; l++) { K.op = "fbcodec"; K.n = 2; mpz_set_ui(K.v[0], (unsigned long)l); mpz_set(K.v[1], fa.v[i]); vf_run(&K); mpz_set_ui(b, 1); mpz_mul_2exp(b, b, (unsigned long)GF_M + (unsigned long)(i % 5)); mpz_add(K.v[1], fa.v[i], b); vf_run(&K); }
		vf_bound_done("field");
	}
#if WSIZE != 64
	int ncur = ntc; long cids[8]; for (int i = 0; i < ncur; i++) cids[i] = i;
#else
#if FB_POLYN == 163
	int ncur = 2; long cids[2] = {NIST_B163, NIST_K163};
#elif FB_POLYN == 233
	int ncur = 2; long cids[2] = {NIST_B233, NIST_K233};
#else
	int ncur = 2; long cids[2] = {NIST_B283, NIST_K283};
#endif
#endif
	for (int ci = 0; ci < ncur; ci++) {
		char bn[64]; snprintf(bn, sizeof bn, "binary-curve-%ld", cids[ci]);
		if (!vf_bound_on(bn)) continue;
		long cid = cids[ci]; if (!select_bcurve(cid)) { vf_fail(NULL, "binary curve install failed"); continue; }
		vf_dom S; vf_dom_init(&S); scalar_alphabet(&S);
		/* point list: identity, the point of order two (0, sqrt b), generator multiples, and cofactor-full points */
		bpt pts[700]; int npt = 0; pts[npt++] = bpt_inf(); { bpt t2; t2.inf = 0; t2.x = gf_zero(); t2.y = gf_sqrt(EB_B); pts[npt++] = t2; }
		int NP = tiny ? (vf_tier ? 400 : 60) : 8;
		bpt acc = RG; for (int i = 0; i < NP; i++) { pts[npt++] = acc; if (i % 9 == 0) pts[npt++] = bpt_neg(acc); if (i % 13 == 0) pts[npt++] = bpt_add(acc, pts[1]); acc = bpt_add(acc, i % 2 ? RG : bpt_dbl(RG)); }
		for (int i = 0; i < npt && !vf_expired(); i++) if (vf_mine()) { for (int j = 0; j < npt; j++) { K.op = "eblaw"; K.n = 5; mpz_set_si(K.v[0], cid); setb(1, pts[i]); setb(3, pts[j]); vf_run(&K); } K.op = "ebmisc"; K.n = 3; mpz_set_si(K.v[0], cid); setb(1, pts[i]); vf_run(&K); }
		if (tiny) { long n = mpz_get_si(RN); long st = vf_tier ? 1 : 3;
			for (long k = -2 * n - 3; k <= 2 * n + 3 && !vf_expired(); k += st) if (vf_mine()) { K.op = "ebmul"; K.n = 4; mpz_set_si(K.v[0], cid); setb(1, RG); mpz_set_si(K.v[3], k); vf_run(&K); }
			bpt Q = bpt_mul(RG, S.v[S.n > 7 ? 7 : 0]); mpz_set_si(a, 7); Q = bpt_mul(RG, a);
			for (long k = -n - 2; k <= n + 2 && !vf_expired(); k += (vf_tier ? 3 : 11)) if (vf_mine()) for (int j = 0; j < S.n; j++) { K.op = "ebsim"; K.n = 7; mpz_set_si(K.v[0], cid); setb(1, RG); mpz_set_si(K.v[3], k); setb(4, Q); mpz_set(K.v[6], S.v[j]); vf_run(&K); }
		}
		/* base points of the scalar multiplications are points of the order-r subgroup (and the identity): [k]P for P outside it is not what the routines promise */
		{ mpz_set_si(a, 5); bpt P5 = bpt_mul(RG, a);
		for (int j = 0; j < S.n; j++) if (vf_mine()) { K.op = "ebmul"; K.n = 4; mpz_set_si(K.v[0], cid); setb(1, RG); mpz_set(K.v[3], S.v[j]); vf_run(&K); setb(1, P5); vf_run(&K); setb(1, pts[0]); vf_run(&K); } }
		{ long rel[] = {7, 1, -1, 2, -2}; for (unsigned ri = 0; ri < 5; ri++) { mpz_set_si(a, rel[ri]); bpt Q = bpt_mul(RG, a); for (int i = 0; i < S.n && !vf_expired(); i += (tiny ? 1 : 2)) for (int j = i % 3; j < S.n; j += 3) if (vf_mine()) { K.op = "ebsim"; K.n = 7; mpz_set_si(K.v[0], cid); setb(1, RG); mpz_set(K.v[3], S.v[i]); setb(4, Q); mpz_set(K.v[6], S.v[j]); vf_run(&K); } } }
		vf_dom_clear(&S);
		vf_bound_done(bn);
	}
	vf_stat_add("transitions", transitions);
}

VF_MAIN()
