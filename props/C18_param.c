/*
 * C18 -- every built-in parameter set is internally consistent.
 *
 * The space is the set of parameter identifiers: EVERY identifier value in a generous range is offered to
 * fp_param_set / ep_param_set / eb_param_set (/ ed_param_set in the 255-bit world); the accepted ones are the sets
 * "selectable in this build", and each is put through every obligation below, decided with GMP and the reference
 * group laws (never with the library's own arithmetic):
 *   field:   p prime; sparse forms of p and of the curve-family parameter evaluate to them; Montgomery constants
 *            (R mod p, R^2 mod p, -1/p mod 2^w), quadratic / cubic non-residues really are non-residues;
 *   curve:   non-singular; G on the curve; r prime; [r]G = O; Hasse |p + 1 - rh| <= 2 sqrt(p); [rh]T = O for 8 curve
 *            points T (with Hasse and r prime > 4 sqrt(p)/h this pins the order); ep_mul_cof(T) has order dividing r;
 *            advertised level consistent with bits(r);
 *   endom:   beta^3 = 1, beta != 1; psi(G) = [lambda]G for a root lambda of l^2 + l + 1 mod r; the GLV decomposition
 *            with the stored lattice satisfies k0 + k1 lambda = k (mod r) with half-length parts for a scalar alphabet;
 *   pairing: p and r equal the family polynomials at the stored parameter; r | Phi_k(p), r does not divide p^j - 1 for
 *            j < k; k = ep_curve_embed(); twist type derived from b' (b/xi or b xi); G2 on the twist; [r]G2 = O;
 *            Hasse over F_p^2; [r h2]T = O for 4 twist points; psi(G2) = [p]G2; e(G1, G2) != 1 and equals gt_get_gen;
 *   binary:  f(z) irreducible (Rabin), G on the curve, r prime, [r]G = O, Hasse, [rh]T = O for 8 curve points.
 * Case args: kind (0 fp, 1 ep, 2 eb, 3 ed), identifier.
 */
#include "pc_common.h"
#if defined(WITH_EB)
#include "ref_gf2.h"
#endif

static void harness_setup(void) {
	if (core_init() != RLC_OK) exit(2);
	vf_reseed(); tiny_curves_setup(); ep2_common_setup();
}
#define OBL(cond, ...) do { transitions++; if (!(cond)) vf_fail(NULL, __VA_ARGS__); } while (0)

static void check_field(const char *who) {
	mpz_t t, u, R; mpz_inits(t, u, R, NULL); ctx_t *ctx = core_get();
	OBL(mpz_probab_prime_p(vf_p, 64) > 0, "%s: modulus: not prime", who);
	OBL(mpz_sizeinbase(vf_p, 2) <= RLC_FP_BITS && mpz_sizeinbase(vf_p, 2) > RLC_FP_BITS - RLC_DIG, "%s: modulus: bit length %zu does not fit the configured field size", who, mpz_sizeinbase(vf_p, 2));
	/* Montgomery constants */
	mpz_set_ui(R, 1); mpz_mul_2exp(R, R, (unsigned long)RLC_FP_DIGS * RLC_DIG);
	vf_bn_get(t, &ctx->one); mpz_mod(u, R, vf_p); OBL(!mpz_cmp(t, u), "%s: montgomery: stored R mod p is wrong", who);
	vf_bn_get(t, &ctx->conv); mpz_mul(u, R, R); mpz_mod(u, u, vf_p); OBL(!mpz_cmp(t, u), "%s: montgomery: stored R^2 mod p is wrong", who);
	mpz_set_ui(u, 1); mpz_mul_2exp(u, u, RLC_DIG); mpz_invert(t, vf_p, u); mpz_neg(t, t); mpz_mod(t, t, u); { dig_t uu = 0; mpz_export(&uu, NULL, -1, sizeof(dig_t), 0, 0, t); OBL(uu == ctx->u, "%s: montgomery: stored -1/p mod 2^w is wrong", who); }
	OBL(fp_prime_get_mod8() == (dig_t)mpz_fdiv_ui(vf_p, 8), "%s: residues: stored p mod 8 is wrong", who);
	/* non-residues */
	{ int q = fp_prime_get_qnr(); if (q) { mpz_set_si(t, q); OBL(mpz_jacobi(t, vf_p) == -1, "%s: non-residues: stored quadratic non-residue %d is a square", who, q); } }
	{ int cn = fp_prime_get_cnr(); if (cn && mpz_fdiv_ui(vf_p, 3) == 1) { mpz_set_si(t, cn); mpz_mod(t, t, vf_p); mpz_sub_ui(u, vf_p, 1); mpz_divexact_ui(u, u, 3); mpz_powm(t, t, u, vf_p); OBL(mpz_cmp_ui(t, 1) != 0, "%s: non-residues: stored cubic non-residue %d is a cube", who, cn); } }
	/* 2-adicity */
	{ mpz_sub_ui(t, vf_p, 1); OBL((unsigned long)fp_prime_get_2ad() == mpz_scan1(t, 0), "%s: residues: stored 2-adicity of p - 1 is wrong", who); }
	/* sparse form of the modulus, when one is stored */
	/* sparse form of the modulus, when one is stored: sps[0] is the constant term itself, sps[1..len-1] are signed exponents */
	{ int len = 0; const int *sp = fp_prime_get_sps(&len); if (sp && len > 1) { mpz_set_si(t, sp[0]); for (int i = 1; i < len; i++) { mpz_set_ui(u, 1); mpz_mul_2exp(u, u, (unsigned long)abs(sp[i])); if (sp[i] < 0) mpz_sub(t, t, u); else mpz_add(t, t, u); }
		OBL(!mpz_cmp(t, vf_p), "%s: sparse form of the modulus does not evaluate to it", who); } }
	mpz_clears(t, u, R, NULL);
}
/* curve family parameter from its sparse form */
static void check_family_param(const char *who, mpz_t X) {
	bn_t x; bn_new(x); fp_prime_get_par(x); vf_bn_get(X, x);
	int len = 0; const int *sp = fp_prime_get_par_sps(&len);
	if (sp && len > 0 && mpz_sgn(X)) { mpz_t t, u; mpz_inits(t, u, NULL); for (int i = 0; i < len; i++) { mpz_set_ui(u, 1); mpz_mul_2exp(u, u, (unsigned long)abs(sp[i])); if (sp[i] < 0) mpz_sub(t, t, u); else mpz_add(t, t, u); }
		mpz_abs(u, X); mpz_abs(t, t); mpz_sub(t, t, u); OBL(mpz_cmpabs_ui(t, 2) <= 0 && mpz_cmpabs_ui(t, 1) != 0, "%s: family: sparse form of the curve parameter does not evaluate to it", who); mpz_clears(t, u, NULL); }
}

static void do_fp(vf_case *c) {
	/* fp_param_set has no default branch at most sizes: an unknown identifier is silently ignored (the previous modulus stays). To tell
	 * "selected" from "ignored" the library is re-initialised first, which leaves the modulus zero. */
	int id = (int)mpz_get_si(c->v[1]), th; core_clean(); if (core_init() != RLC_OK) exit(2); vf_reseed(); cur_cid = -1; cur_cid2 = -1;
	VF_TRY(th, fp_param_set(id)); if (th) return; if (bn_is_zero(&core_get()->prime)) { vf_stat_add("x.unknown_field_ids_silently_ignored", 1); return; } vf_fp_sync();
	OBL(fp_param_get() == id, "fp %d: fp_param_get() returns %d after selecting it", id, fp_param_get());
	char who[32]; snprintf(who, sizeof who, "fp %d", id); vf_stat_add("x.sets_selected", 1); vf_stat_add("states", 1); printf("@INFO selectable field parameter %d (%zu bits)\n", id, mpz_sizeinbase(vf_p, 2));
	check_field(who);
}

static void do_ep(vf_case *c) {
	long id = mpz_get_si(c->v[1]); cur_cid = -1; cur_cid2 = -1;
	/* every set is examined on a fresh context (what survives a RE-selection is C19's question) */
	core_clean(); if (core_init() != RLC_OK) exit(2); vf_reseed();
	/* second pass (3 arguments): the set is selected AFTER another one of a different kind; what the set advertises (family, embedding
	 * degree, endomorphism, tables) must not depend on what was selected before */
	if (c->n > 2 && mpz_sgn(c->v[2]) >= 0) { int th; VF_TRY(th, ep_param_set((int)mpz_get_si(c->v[2]))); if (th) return; }
	{ int th; VF_TRY(th, ep_param_set((int)id)); if (th) return; }
	if (!select_curve(id)) { vf_fail(NULL, "ep %ld: generator not on the curve (or selection failed on re-selection)", id); return; }
	char who[32]; snprintf(who, sizeof who, "ep %ld", id); vf_stat_add("x.sets_selected", 1); vf_stat_add("states", 1);
	ctx_t *ctx = core_get(); mpz_t t, u, n; mpz_inits(t, u, n, NULL); rpt T, U; rpt_init(&T); rpt_init(&U);
	gmp_printf("@INFO selectable curve %ld: %zu-bit p, %zu-bit r, h = %Zd, endom %d, pairf %d, level %d\n", id, mpz_sizeinbase(RC.p, 2), mpz_sizeinbase(RN, 2), RH, ep_curve_is_endom(), ep_curve_is_pairf(), ep_param_level());
	check_field(who);
	/* discriminant */
	mpz_powm_ui(t, RC.a, 3, RC.p); mpz_mul_ui(t, t, 4); mpz_mul(u, RC.b, RC.b); mpz_mul_ui(u, u, 27); mpz_add(t, t, u); mpz_mod(t, t, RC.p); OBL(mpz_sgn(t), "%s: curve: singular (4a^3 + 27b^2 = 0)", who);
	OBL(rpt_on_curve(&RC, &RG) && !RG.inf, "%s: generator: not on the curve", who);
	OBL(mpz_probab_prime_p(RN, 64) > 0, "%s: order: r is not prime", who);
	rpt_mul(&RC, &T, &RG, RN); OBL(T.inf, "%s: order: [r]G is not the identity", who);
	mpz_mul(n, RN, RH); mpz_add_ui(t, RC.p, 1); mpz_sub(t, t, n); mpz_mul(t, t, t); mpz_mul_ui(u, RC.p, 4); OBL(mpz_cmp(t, u) <= 0, "%s: order: r h violates the Hasse bound", who);
	{ int got = 0; for (long x = 0; x < 200 && got < 8; x++) { mpz_set_si(t, x); if (!rpt_lift_x(&RC, &T, t)) continue; got++; rpt_mul(&RC, &U, &T, n); OBL(U.inf, "%s: order: [r h]T is not the identity for the curve point with x = %ld: r h is not the curve order", who, x);
			/* a test point of small even order (e.g. (2, 3) of order 6 on y^2 = x^3 + 1) walks ep_mul_cof's double-and-add through a sum whose difference has order two: finding L27 (ep_add_projc), judged in C03 */
			const char *kf = NULL; { rpt V; rpt_init(&V); mpz_t j; mpz_init(j); for (unsigned long o = 2; o <= 64 && !kf; o += 2) { mpz_set_ui(j, o); rpt_mul(&RC, &V, &T, j); if (V.inf) kf = "L27-projc-add-difference-of-order-two"; } mpz_clear(j); rpt_clear(&V); }
			ep_t p, r; ep_new(p); ep_new(r); ep_inject(p, &T, REP_AFF, 1); int th; VF_TRY(th, ep_mul_cof(r, p)); if (th) vf_fail(NULL, "%s: cofactor: ep_mul_cof raised", who); else { ep_extract(&U, r); rpt_mul(&RC, &U, &U, RN); transitions++; if (!U.inf) vf_fail(kf, "%s: cofactor: ep_mul_cof does not map the curve point with x = %ld into the order-r subgroup", who, x); rpt_mul(&RC, &U, &T, RH); ep_extract(&T, r); transitions++; if (U.inf != T.inf) vf_fail(kf, "%s: cofactor: ep_mul_cof kills the curve point with x = %ld although [h] does not (or the converse)", who, x); } } }
	{ int lv = ep_param_level(); size_t rb = mpz_sizeinbase(RN, 2); OBL(lv > 0 && (size_t)lv * 2 <= rb + 4, "%s: level: advertised %d bits exceeds half the bit length of r (%zu)", who, lv, rb); }
	/* stored optimisation classes of the coefficients */
	{ mpz_t m3; mpz_init(m3); mpz_sub_ui(m3, RC.p, 3); int oa = ep_curve_opt_a(); OBL((oa == RLC_MIN3) == !mpz_cmp(RC.a, m3) && (oa == RLC_ZERO) == !mpz_sgn(RC.a) && (oa == RLC_ONE) == !mpz_cmp_ui(RC.a, 1), "%s: flags: coefficient class of a (%d) does not match a", who, oa); mpz_clear(m3); }
#if defined(EP_ENDOM)
	if (ep_curve_is_endom()) {
		mpz_t beta, lam, s3; mpz_inits(beta, lam, s3, NULL); vf_fp_get(beta, ctx->beta);
		if (!mpz_sgn(RC.b) && mpz_sgn(RC.a)) { /* y^2 = x^3 + a x (j = 1728, the KSS16 family): the endomorphism is (x, y) -> (-x, i y); i must exist in both fields */
			OBL(mpz_fdiv_ui(RC.p, 4) == 1 && mpz_fdiv_ui(RN, 4) == 1, "%s: endomorphism: -1 is not a square modulo p and r on a curve y^2 = x^3 + a x", who); vf_stat_add("x.j1728_endomorphism_lattice_not_judged", 1); goto endo_done; }
		mpz_powm_ui(t, beta, 3, RC.p); OBL(!mpz_cmp_ui(t, 1) && mpz_cmp_ui(beta, 1), "%s: endomorphism: beta is not a primitive cube root of unity", who);
		OBL(!mpz_sgn(RC.a), "%s: endomorphism: flagged on a curve with a != 0", who);
		/* lambda = (-1 +- sqrt(-3)) / 2 mod r; pick the one with psi(G) = [lambda]G */
		mpz_sub_ui(t, RN, 3); int ok = ref_sqrt_mod(s3, t, RN); OBL(ok, "%s: endomorphism: -3 is not a square modulo r", who);
		if (ok) { int match = 0; for (int sg = 0; sg < 2 && !match; sg++) { if (sg) mpz_sub(s3, RN, s3); mpz_sub_ui(lam, s3, 1); mpz_set_ui(t, 2); mpz_invert(t, t, RN); mpz_mul(lam, lam, t); mpz_mod(lam, lam, RN);
				rpt_mul(&RC, &T, &RG, lam); mpz_mul(t, beta, RG.x); mpz_mod(t, t, RC.p); if (!T.inf && !mpz_cmp(T.x, t) && !mpz_cmp(T.y, RG.y)) match = 1; }
			OBL(match, "%s: endomorphism: (beta x, y) is not [lambda]G for either root lambda of l^2 + l + 1 mod r", who);
			{ ep_t g, r; ep_new(g); ep_new(r); ep_curve_get_gen(g); int th; VF_TRY(th, ep_psi(r, g)); ep_extract(&U, r); rpt_mul(&RC, &T, &RG, lam); OBL(!th && rpt_eq(&U, &T), "%s: endomorphism: ep_psi(G) != [lambda]G", who); }
			/* GLV decomposition with the stored lattice */
			if (match) { bn_t k, k0, k1, bn; bn_new(k); bn_new(k0); bn_new(k1); bn_new(bn); vf_bn_set(bn, RN); size_t half = (mpz_sizeinbase(RN, 2) + 1) / 2 + 2;
				const char *ks[] = {"1", "2", "ffffffffffffffff", "10000000000000000", "5555555555555555555555555555555555555555555555555555555555555555", "d3b1a40c29f1e8f7a5b6c3d2e1f0a9b8c7d6e5f4a3b2c1d0e9f8a7b6c5d4e3f", "-1", "-2", "HALF", "LAM", "LAM1", "SQRT"};
				for (unsigned i = 0; i < 12; i++) { mpz_t K, A, B; mpz_inits(K, A, B, NULL);
					if (!strcmp(ks[i], "-1")) mpz_sub_ui(K, RN, 1); else if (!strcmp(ks[i], "-2")) mpz_sub_ui(K, RN, 2); else if (!strcmp(ks[i], "HALF")) mpz_fdiv_q_2exp(K, RN, 1); else if (!strcmp(ks[i], "LAM")) mpz_set(K, lam); else if (!strcmp(ks[i], "LAM1")) mpz_sub_ui(K, lam, 1); else if (!strcmp(ks[i], "SQRT")) mpz_sqrt(K, RN); else mpz_set_str(K, ks[i], 16);
					mpz_mod(K, K, RN); vf_bn_set(k, K); int th; VF_TRY(th, bn_rec_glv(k0, k1, k, bn, (const bn_st *)ctx->ep_v1, (const bn_st *)ctx->ep_v2));
					if (th) vf_fail(NULL, "%s: lattice: bn_rec_glv raised", who); else { vf_bn_get(A, k0); vf_bn_get(B, k1); mpz_mul(t, B, lam); mpz_add(t, t, A); mpz_sub(t, t, K); mpz_mod(t, t, RN);
						OBL(!mpz_sgn(t), "%s: lattice: k0 + k1 lambda != k (mod r) for k = %s", who, ks[i]); OBL(mpz_sizeinbase(A, 2) <= half && mpz_sizeinbase(B, 2) <= half, "%s: lattice: sub-scalars are longer than half of r for k = %s", who, ks[i]); }
					mpz_clears(K, A, B, NULL); } } }
		endo_done: mpz_clears(beta, lam, s3, NULL);
	}
#endif
#if defined(WITH_PP) && FP_PRIME != 255
	if (ep_curve_is_pairf()) {
		mpz_t X, P4; mpz_inits(X, P4, NULL); check_family_param(who, X);
		int k = ep_curve_embed();
		/* family polynomials */
		if (ep_curve_is_pairf() == EP_BN) { mpz_t x2, x3, x4; mpz_inits(x2, x3, x4, NULL); mpz_mul(x2, X, X); mpz_mul(x3, x2, X); mpz_mul(x4, x3, X);
			mpz_mul_ui(t, x4, 36); mpz_mul_ui(u, x3, 36); mpz_add(t, t, u); mpz_mul_ui(u, x2, 24); mpz_add(t, t, u); mpz_mul_ui(u, X, 6); mpz_add(t, t, u); mpz_add_ui(t, t, 1); OBL(!mpz_cmp(t, RC.p), "%s: family: p != 36x^4 + 36x^3 + 24x^2 + 6x + 1", who);
			mpz_mul_ui(u, x2, 6); mpz_sub(t, t, u); OBL(!mpz_cmp(t, RN), "%s: family: r != 36x^4 + 36x^3 + 18x^2 + 6x + 1", who); mpz_clears(x2, x3, x4, NULL); }
		else if (ep_curve_is_pairf() == EP_B12) { mpz_t x2, x4; mpz_inits(x2, x4, NULL); mpz_mul(x2, X, X); mpz_mul(x4, x2, x2); mpz_sub(t, x4, x2); mpz_add_ui(t, t, 1); OBL(!mpz_cmp(t, RN), "%s: family: r != x^4 - x^2 + 1", who);
			mpz_sub_ui(u, X, 1); mpz_mul(u, u, u); mpz_mul(t, t, u); OBL(mpz_divisible_ui_p(t, 3), "%s: family: (x-1)^2 (x^4 - x^2 + 1) not divisible by 3", who); mpz_divexact_ui(t, t, 3); mpz_add(t, t, X); OBL(!mpz_cmp(t, RC.p), "%s: family: p != (x-1)^2 (x^4 - x^2 + 1)/3 + x", who); mpz_clears(x2, x4, NULL); }
		/* embedding degree */
		/* the advertised embedding degree is the multiplicative order of p modulo r (any family) */
		OBL(k >= 2, "%s: pairing: embedding degree %d advertised for a pairing-friendly curve", who, k);
		if (k >= 2) { mpz_powm_ui(t, RC.p, (unsigned long)k, RN); OBL(!mpz_cmp_ui(t, 1), "%s: pairing: r does not divide p^%d - 1", who, k);
			for (int q = 2; q <= k; q++) { if (k % q) continue; int prime = 1; for (int d = 2; d * d <= q; d++) if (q % d == 0) prime = 0; if (!prime) continue; mpz_powm_ui(t, RC.p, (unsigned long)(k / q), RN); OBL(mpz_cmp_ui(t, 1), "%s: pairing: r divides p^%d - 1: the embedding degree is below the advertised %d", who, k / q, k); } }
		(void)P4;
		/* twist, tower and pairing value: for the family the pairing layer of this build serves with k = 12; the other families' builds are judged by the
		 * family job of C04 (e(G1, G2) non-degenerate, of order r in a validated reference tower, generators valid) */
		if (k != 12 || RLC_GT_EMBED != 12) vf_statf_add(1, "x.pairing_layer_obligations_left_to_family_job.k%d", k);
		else if (!select_pc(id)) {
#if FP_PRIME == 446 && !defined(FP_QNRES)
			const char *kf = id == B12_P446 ? "L42-b12-p446-twist-needs-qnres" : NULL;
#else
			const char *kf = NULL;
#endif
			vf_fail(kf, "%s: twist: no twist type matches b' (b/xi, b xi), or G2 is not on it / not of order r, or a tower constant is reducible", who); }
		else { mpz_t n2; mpz_init(n2); rpt2 T2, U2; rpt2_init(&T2); rpt2_init(&U2);
			printf("@INFO curve %ld: twist type %s from the coefficients\n", id, twist_type == RLC_EP_DTYPE ? "D" : "M");
			mpz_mul(n2, RN2, RH2); mpz_mul(t, RC.p, RC.p); mpz_add_ui(t, t, 1); mpz_sub(t, t, n2); mpz_mul(t, t, t); mpz_mul(u, RC.p, RC.p); mpz_mul_ui(u, u, 4); OBL(mpz_cmp(t, u) <= 0, "%s: twist: r h2 violates the Hasse bound over F_p^2", who);
			/* #E'(F_p^2) from the trace: t1 = p + 1 - #E(F_p); t2 = t1^2 - 2p; the sextic twists have p^2 + 1 - (+-t2 +- 3 f2)/2 ... : decided by annihilation instead */
			f2 x; f2_init(&x); int got = 0; for (long i = 0; i < 400 && got < 4; i++) { f2_set_si(&x, i % 20, 1 + i / 20); if (!rpt2_lift_x(&RC2, &T2, &x)) continue; got++; rpt2_mul(&RC2, &U2, &T2, n2); OBL(U2.inf, "%s: twist: [r h2]T is not the identity for a twist point: r h2 is not the order of the twist", who);
				ep2_t p2, r2; ep2_new(p2); ep2_new(r2); ep2_inject(p2, &T2, REP_AFF, 0); int th; VF_TRY(th, ep2_mul_cof(r2, p2)); if (th) vf_fail(NULL, "%s: twist: ep2_mul_cof raised", who); else { ep2_extract(&U2, r2); rpt2_mul(&RC2, &U2, &U2, RN2); OBL(U2.inf, "%s: twist: ep2_mul_cof does not map into the order-r subgroup", who); } }
			{ ep2_t g2, r2; ep2_new(g2); ep2_new(r2); ep2_curve_get_gen(g2); int th; VF_TRY(th, ep2_frb(r2, g2, 1)); ep2_extract(&U2, r2); rpt2_mul(&RC2, &T2, &RG2, RC.p); OBL(!th && rpt2_eq(&U2, &T2), "%s: twist: Frobenius constants: psi(G2) != [p]G2", who); }
			{ g1_t g1; g2_t g2; gt_t e, g; g1_new(g1); g2_new(g2); gt_new(e); gt_new(g); g1_get_gen(g1); g2_get_gen(g2); int th; VF_TRY(th, pc_map(e, g1, g2)); relt E, G; relt_init(&E); relt_init(&G); gt_get(&E, e); gt_get_gen(g); gt_get(&G, g);
				OBL(!th && !gt_ref_is_one(&E) && !relt_is_zero(&T12, &E), "%s: pairing: e(G1, G2) is degenerate", who); OBL(relt_eq(&T12, &E, &G), "%s: pairing: gt_get_gen != e(G1, G2)", who);
				relt_pow(&T12, &G, &E, RN); OBL(gt_ref_is_one(&G), "%s: pairing: e(G1, G2)^r != 1", who); relt_clear(&E); relt_clear(&G); }
			/* the other twist type must NOT make the generator's Frobenius consistent (the type is not interchangeable) */
			{ int other = twist_type == RLC_EP_DTYPE ? RLC_EP_MTYPE : RLC_EP_DTYPE, th; VF_TRY(th, ep2_curve_set_twist(other)); if (!th) { ep2_t g2, r2; ep2_new(g2); ep2_new(r2); ep2_curve_get_gen(g2); VF_TRY(th, ep2_frb(r2, g2, 1)); ep2_extract(&U2, r2); rpt2_mul(&RC2, &T2, &RG2, RC.p); vf_stat_add(rpt2_eq(&U2, &T2) ? "x.other_twist_type_also_consistent" : "x.other_twist_type_inconsistent", 1); } cur_cid2 = -1; }
			f2_clear(&x); rpt2_clear(&T2); rpt2_clear(&U2); mpz_clear(n2); }
		mpz_clears(X, P4, NULL);
	}
#endif
	mpz_clears(t, u, n, NULL); rpt_clear(&T); rpt_clear(&U);
}

#if defined(WITH_EB)
static gf2 gf_from_fb(const fb_t a) { gf2 r = gf_zero(); memcpy(r.w, a, sizeof(fb_st) < sizeof r.w ? sizeof(fb_st) : sizeof r.w); return r; }
/* z^(2^k) mod f by k squarings */
static gf2 gf_frob_z(int k) { gf2 z = gf_zero(); gf_setbit(&z, 1); for (int i = 0; i < k; i++) z = gf_sqr(z); return z; }
static gf2 gf_poly_gcd(gf2 a, gf2 b) { while (!gf_is_zero(b)) { int da = gf_deg(a), db = gf_deg(b); if (da < db) { gf2 t = a; a = b; b = t; continue; } a = gf_add(a, gf_shl(b, da - db)); } return a; }
static bpt bpt_mul(bpt p, const mpz_t k) { bpt acc = bpt_inf(); size_t n = mpz_sgn(k) ? mpz_sizeinbase(k, 2) : 0; for (size_t i = n; i-- > 0;) { acc = bpt_dbl(acc); if (mpz_tstbit(k, i)) acc = bpt_add(acc, p); } return acc; }
static void do_eb(vf_case *c) {
	int id = (int)mpz_get_si(c->v[1]), th; core_clean(); if (core_init() != RLC_OK) exit(2); vf_reseed(); cur_cid = -1; cur_cid2 = -1;
	VF_TRY(th, eb_param_set(id)); if (th) return;
	char who[32]; snprintf(who, sizeof who, "eb %d", id); vf_stat_add("x.sets_selected", 1); vf_stat_add("states", 1);
	/* polynomial: read, must have degree m, irreducible by Rabin's test: z^(2^m) = z mod f and gcd(z^(2^(m/q)) - z, f) = 1 for every prime q | m */
	gf2 f = gf_zero(); memcpy(f.w, fb_poly_get(), sizeof(fb_st) < sizeof f.w ? sizeof(fb_st) : sizeof f.w); gf_setbit(&f, RLC_FB_BITS);
	GF_M = RLC_FB_BITS; GF_POLY = f;
	printf("@INFO selectable binary curve %d over GF(2^%d)\n", id, GF_M);
	OBL(gf_bit(f, 0), "%s: polynomial: constant term is zero", who);
	{ gf2 z = gf_zero(); gf_setbit(&z, 1); gf2 zz = gf_frob_z(GF_M); OBL(gf_eq(zz, z), "%s: polynomial: z^(2^m) != z mod f: f is not irreducible", who);
		for (int q = 2; q <= GF_M; q++) { if (GF_M % q) continue; int pr = 1; for (int d = 2; d * d <= q; d++) if (q % d == 0) pr = 0; if (!pr) continue; gf2 w = gf_add(gf_frob_z(GF_M / q), z); gf2 g = gf_poly_gcd(f, w); OBL(gf_deg(g) == 0, "%s: polynomial: shares a factor with z^(2^(m/%d)) - z: f is not irreducible", who, q); } }
	ctx_t *ctx = core_get(); EB_A = gf_from_fb(ctx->eb_a); EB_B = gf_from_fb(ctx->eb_b);
	OBL(!gf_is_zero(EB_B), "%s: curve: singular (b = 0)", who);
	eb_t g; eb_new(g); eb_curve_get_gen(g); bpt G; G.inf = 0; G.x = gf_from_fb(g->x); G.y = gf_from_fb(g->y);
	OBL(bpt_on_curve(G) && !eb_is_infty(g), "%s: generator: not on the curve", who);
	bn_t r, h; bn_new(r); bn_new(h); eb_curve_get_ord(r); eb_curve_get_cof(h); mpz_t R, H, n, t, u; mpz_inits(R, H, n, t, u, NULL); vf_bn_get(R, r); vf_bn_get(H, h);
	OBL(mpz_probab_prime_p(R, 64) > 0, "%s: order: r is not prime", who);
	OBL(bpt_mul(G, R).inf, "%s: order: [r]G is not the identity", who);
	mpz_mul(n, R, H); mpz_set_ui(t, 1); mpz_mul_2exp(t, t, (unsigned long)GF_M); mpz_add_ui(t, t, 1); mpz_sub(t, t, n); mpz_mul(t, t, t); mpz_set_ui(u, 1); mpz_mul_2exp(u, u, (unsigned long)GF_M + 2); OBL(mpz_cmp(t, u) <= 0, "%s: order: r h violates the Hasse bound", who);
	/* curve points from small x: y^2 + xy = x^3 + a x^2 + b  <=>  (y/x)^2 + (y/x) = x + a + b/x^2, solvable iff the trace vanishes (m odd: half-trace) */
	{ int got = 0; for (uint64_t xv = 2; xv < 200 && got < 8; xv++) { gf2 x = gf_from_u64(xv), xi = gf_inv(x); gf2 rhs = gf_add(gf_add(x, EB_A), gf_mul(EB_B, gf_sqr(xi))); if (gf_trace(rhs)) continue; if (!(GF_M & 1)) continue; gf2 z = gf_htrace(rhs); bpt T; T.inf = 0; T.x = x; T.y = gf_mul(z, x);
			if (!bpt_on_curve(T)) { vf_fail(NULL, "harness: constructed point not on the curve"); continue; } got++; OBL(bpt_mul(T, n).inf, "%s: order: [r h]T is not the identity for the curve point with x = %llu", who, (unsigned long long)xv); } }
	{ int lv = eb_param_level(); OBL(lv > 0 && (size_t)lv * 2 <= mpz_sizeinbase(R, 2) + 4, "%s: level: advertised %d bits exceeds half the bit length of r", who, lv); }
	OBL((eb_curve_is_kbltz() != 0) == (gf_eq(EB_B, gf_one()) && (gf_is_zero(EB_A) || gf_eq(EB_A, gf_one()))), "%s: flags: Koblitz flag does not match the coefficients", who);
	mpz_clears(R, H, n, t, u, NULL);
}
#endif

static void run_case(vf_case *c) {
	vf_nontrivial(); long kind = mpz_get_si(c->v[0]);
	if (kind == 0) do_fp(c); else if (kind == 1) do_ep(c);
#if defined(WITH_EB)
	else if (kind == 2) do_eb(c);
#endif
	else vf_fail(NULL, "unknown kind");
}

static vf_case K;
static void enumerate(void) {
	vf_case_init(&K);
	if (vf_bound_on("all-identifiers")) {
		/* every identifier value 0..255 is offered to each selection function */
		for (long kind = 0; kind <= 2; kind++) {
#if !defined(WITH_EB)
			if (kind == 2) continue;
#endif
			for (long id = 0; id < 256; id++) if (vf_mine()) { K.op = "set"; K.n = 2; mpz_set_si(K.v[0], kind); mpz_set_si(K.v[1], id); vf_run(&K); }
		}
		vf_bound_done("all-identifiers");
	}
	if (vf_bound_on("curve-sets-after-another-selection")) {
		/* priors: the first selectable pairing-friendly set, the first endomorphism set that is not pairing-friendly, the first plain set */
		long prior[3] = {-1, -1, -1};
		for (long id = 0; id < 256; id++) { core_clean(); if (core_init() != RLC_OK) exit(2); int th; VF_TRY(th, ep_param_set((int)id)); if (th || ep_param_get() != id) continue;
			int k = ep_curve_is_pairf() ? 0 : ep_curve_is_endom() ? 1 : 2; if (prior[k] < 0) prior[k] = id; }
		for (int k = 0; k < 3; k++) if (prior[k] >= 0) for (long id = 0; id < 256; id++) if (vf_mine()) { K.op = "set"; K.n = 3; mpz_set_si(K.v[0], 1); mpz_set_si(K.v[1], id); mpz_set_si(K.v[2], prior[k]); vf_run(&K); }
		vf_bound_done("curve-sets-after-another-selection");
	}
	vf_stat_add("transitions", transitions);
}

VF_MAIN()
