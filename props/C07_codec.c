/*
 * C07 -- decoding validates untrusted bytes; encoding is canonical and round-trips.
 * Part 1: integers, prime-field elements, prime-curve points (bn_*, fp_*, ep_* codecs).
 * Byte strings are carried in a case as (length, big-endian integer value of the bytes).
 */
#include "ep_common.h"


static mpz_t za, ze, zg, cur_prime;
static bn_t A, C;
#define GB 0xC7 /* guard byte */

static void harness_setup(void) {
	if (core_init() != RLC_OK) exit(2);
	vf_reseed();
	tiny_curves_setup();
	mpz_inits(za, ze, zg, cur_prime, NULL); mpz_set_si(cur_prime, -1);
	bn_new(A); bn_new(C);
}
static void bytes_of(uint8_t *buf, size_t len, const mpz_t v) { memset(buf, 0, len); if (len && mpz_sgn(v)) { size_t n = (mpz_sizeinbase(v, 2) + 7) / 8; if (n <= len) mpz_export(buf + (len - n), NULL, 1, 1, 1, 0, v); } }
static void value_of(mpz_t v, const uint8_t *buf, size_t len) { mpz_import(v, len, 1, 1, 1, 0, buf); }

static int select_prime_only(const mpz_t sel) {
	if (!mpz_cmp(sel, cur_prime)) return 1;
	int th;
	if (tiny) { bn_t p; bn_new(p); vf_bn_set(p, sel); VF_TRY(th, fp_prime_set_dense(p)); }
	else VF_TRY(th, fp_param_set((int)mpz_get_si(sel)));
	if (th) return 0;
	vf_fp_sync(); mpz_set(cur_prime, sel); cur_cid = -1;
	return 1;
}

/* reference digit alphabet of the text form */
static const char DIGS[] = "0123456789ABCDEFGHIJKLMNOPQRSTUVWXYZabcdefghijklmnopqrstuvwxyz+/";
static void ref_to_str(char *out, const mpz_t a, int radix) {
	char tmp[2200]; int n = 0; mpz_t t; mpz_init(t); mpz_abs(t, a);
	if (mpz_sgn(t) == 0) tmp[n++] = '0';
	while (mpz_sgn(t)) { tmp[n++] = DIGS[mpz_fdiv_q_ui(t, t, (unsigned long)radix)]; }
	int o = 0; if (mpz_sgn(a) < 0) out[o++] = '-';
	while (n) out[o++] = tmp[--n];
	out[o] = 0; mpz_clear(t);
}

/* ---------------------------------------------------------------- integers */
static void do_bn_bin(vf_case *c) { /* args: len, value */
	int th; size_t len = mpz_get_ui(c->v[0]);
	static uint8_t buf[600], out[700];
	if (len > 500) return;
	bytes_of(buf, len, c->v[1]);
	size_t need = mpz_sgn(c->v[1]) ? (mpz_sizeinbase(c->v[1], 2) + VF_DIGB - 1) / VF_DIGB : 1;
	bn_zero(A); A->sign = RLC_NEG; A->dp[0] = 77;
	VF_TRY(th, bn_read_bin(A, buf, len));
	transitions++;
	size_t cap_d = (len + sizeof(dig_t) - 1) / sizeof(dig_t);
	if (cap_d > RLC_BN_SIZE) { if (!th) vf_fail(NULL, "bn_read_bin: %zu bytes exceed the precision but no error was raised", len); return; }
	if (th) { vf_fail(NULL, "bn_read_bin raised %d for %zu bytes", th, len); return; }
	vf_bn_get(zg, A);
	if (mpz_cmp(zg, c->v[1])) { char b[300]; gmp_snprintf(b, sizeof b, "bn_read_bin: decoded %Zx", zg); vf_fail(NULL, "%s", b); return; }
	if (!vf_bn_normal(A)) { vf_fail(NULL, "bn_read_bin: result not in normal form"); return; }
	/* size + canonical encoding: minimal length, big-endian; longer buffers are left-padded with zeros */
	size_t sz = bn_size_bin(A), esz = mpz_sgn(c->v[1]) ? (mpz_sizeinbase(c->v[1], 2) + 7) / 8 : 0;
	transitions++;
	if (sz != esz) { vf_fail(NULL, "bn_size_bin: %zu, expected %zu", sz, esz); return; }
	size_t lens[] = {sz, sz + 1, sz + 5, len};
	for (int i = 0; i < 4; i++) {
		size_t L = lens[i]; if (L < sz || L > 600) continue;
		memset(out, GB, sizeof out);
		VF_TRY(th, bn_write_bin(out + 16, L, A));
		transitions++;
		if (th) { vf_fail(NULL, "bn_write_bin raised %d for a buffer of %zu >= size %zu", th, L, sz); continue; }
		for (size_t j = 0; j < 16; j++) if (out[j] != GB || out[16 + L + j] != GB) { vf_fail(NULL, "bn_write_bin wrote outside its buffer"); return; }
		value_of(zg, out + 16, L);
		if (mpz_cmp(zg, c->v[1])) { vf_fail(NULL, "bn_write_bin(len %zu): bytes do not encode the value", L); continue; }
		for (size_t j = 0; j + sz < L; j++) if (out[16 + j]) { vf_fail(NULL, "bn_write_bin: padding not zero"); break; }
	}
	if (sz > 0) { memset(out, GB, sizeof out); VF_TRY(th, bn_write_bin(out + 16, sz - 1, A)); transitions++; if (!th) vf_fail(NULL, "bn_write_bin accepted a buffer one byte too short");
		for (size_t j = 0; j < 16; j++) if (out[j] != GB || out[16 + sz - 1 + j] != GB) { vf_fail(NULL, "bn_write_bin wrote outside a too-short buffer"); break; } }
	/* raw form */
	dig_t raw[RLC_BN_SIZE + 4]; for (size_t j = 0; j < RLC_BN_SIZE + 4; j++) raw[j] = (dig_t)0xC7C7C7C7C7C7C7C7ULL;
	size_t rs = bn_size_raw(A); transitions++;
	if (rs != need) vf_fail(NULL, "bn_size_raw: %zu expected %zu", rs, need);
	size_t rl = rs + 1 <= RLC_BN_SIZE ? rs + 1 : rs; /* one spare (zero) digit where the precision allows */
	VF_TRY(th, bn_write_raw(raw + 1, rl, A)); if (th) vf_fail(NULL, "bn_write_raw raised"); else {
		if (raw[0] != (dig_t)0xC7C7C7C7C7C7C7C7ULL || raw[rl + 1] != (dig_t)0xC7C7C7C7C7C7C7C7ULL) vf_fail(NULL, "bn_write_raw wrote outside its buffer");
		VF_TRY(th, bn_read_raw(C, raw + 1, rl)); if (th) vf_fail(NULL, "bn_read_raw raised"); else { vf_bn_get(zg, C); if (mpz_cmp(zg, c->v[1]) || !vf_bn_normal(C)) vf_fail(NULL, "bn raw round trip differs"); } }
	if (rs > 1) { VF_TRY(th, bn_write_raw(raw + 1, rs - 1, A)); if (!th) vf_fail(NULL, "bn_write_raw accepted a too-short buffer"); }
}
static void do_bn_str(vf_case *c) { /* args: a, radix */
	int th; int radix = (int)mpz_get_si(c->v[1]);
	static char ref[2300], out[2400];
	mpz_set(za, c->v[0]); if (!vf_bn_set(A, za)) return;
	if (mpz_sizeinbase(za, 2) > 2000) return;
	ref_to_str(ref, za, radix);
	size_t sz = 0; VF_TRY(th, sz = bn_size_str(A, (uint_t)radix)); transitions++;
	if (th) { vf_fail(NULL, "bn_size_str raised %d", th); return; }
	size_t rl = strlen(ref);
	/* size must be enough for the text and its terminator; the header promises the number of chars needed */
	if (sz < rl + 1) { vf_fail(NULL, "bn_size_str: %zu is less than the %zu characters + terminator needed", sz, rl); return; }
	if (sz > rl + 2) { vf_fail(NULL, "bn_size_str: %zu for a text of %zu characters", sz, rl); return; }
	memset(out, GB, sizeof out);
	VF_TRY(th, bn_write_str(out + 16, sz, A, (uint_t)radix)); transitions++;
	if (th) { vf_fail(NULL, "bn_write_str raised %d with the advertised size", th); return; }
	for (size_t j = 0; j < 16; j++) if ((uint8_t)out[j] != GB || (uint8_t)out[16 + sz + j] != GB) { vf_fail(NULL, "bn_write_str wrote outside its buffer"); return; }
	if (memchr(out + 16, 0, sz) == NULL) { vf_fail(NULL, "bn_write_str: no terminator inside the buffer"); return; }
	if (strcmp(out + 16, ref)) { vf_fail(NULL, "bn_write_str: \"%s\" expected \"%s\"", out + 16, ref); return; }
	/* too-short buffer is refused and untouched beyond its end */
	if (rl >= 1) { memset(out, GB, sizeof out); VF_TRY(th, bn_write_str(out + 16, rl, A, (uint_t)radix)); transitions++;
		if (!th) vf_fail(NULL, "bn_write_str accepted a buffer without room for the terminator");
		for (size_t j = 0; j < 16; j++) if ((uint8_t)out[16 + rl + j] != GB) { vf_fail(NULL, "bn_write_str wrote beyond a too-short buffer"); break; } }
	/* read back (also lower case for radix < 36) */
	junk: ;
	bn_zero(C); VF_TRY(th, bn_read_str(C, ref, rl, (uint_t)radix)); transitions++;
	if (th) vf_fail(NULL, "bn_read_str raised %d", th); else { vf_bn_get(zg, C); if (mpz_cmp(zg, za) || !vf_bn_normal(C)) { char b[300]; gmp_snprintf(b, sizeof b, "bn_read_str(\"%s\", radix %d) = %Zd", ref, radix, zg); vf_fail(NULL, "%s", b); } }
	if (radix < 36) { char low[2300]; for (size_t i = 0; i <= rl; i++) low[i] = (char)((ref[i] >= 'A' && ref[i] <= 'Z') ? ref[i] + 32 : ref[i]);
		VF_TRY(th, bn_read_str(C, low, rl, (uint_t)radix)); if (!th) { vf_bn_get(zg, C); if (mpz_cmp(zg, za)) vf_fail(NULL, "bn_read_str: lower-case digits read differently (radix %d)", radix); } }
}
/* arbitrary short text: args radix, len, code (each character an index into a 67-symbol alphabet) */
static void do_bn_strin(vf_case *c) {
	static const char AL[] = "0123456789ABCDEFGHIJKLMNOPQRSTUVWXYZabcdefghijklmnopqrstuvwxyz+/- \x01";
	int th; int radix = (int)mpz_get_si(c->v[0]); size_t len = mpz_get_ui(c->v[1]); unsigned long code = mpz_get_ui(c->v[2]);
	char s[8]; for (size_t i = 0; i < len; i++) { s[i] = AL[code % 67]; code /= 67; } s[len] = 0;
	/* reference: optional '-', then the longest prefix of valid digits (documented behaviour: parsing stops at the first other character) */
	size_t j = 0; int neg = 0; if (len && s[0] == '-') { neg = 1; j = 1; }
	mpz_set_ui(ze, 0);
	for (; j < len; j++) { char ch = s[j]; if (radix < 36 && ch >= 'a' && ch <= 'z') ch -= 32; const char *p = ch ? strchr(DIGS, ch) : NULL; if (!p || (p - DIGS) >= radix) break; mpz_mul_ui(ze, ze, (unsigned long)radix); mpz_add_ui(ze, ze, (unsigned long)(p - DIGS)); }
	if (neg) mpz_neg(ze, ze);
	bn_zero(C); VF_TRY(th, bn_read_str(C, s, len, (uint_t)radix)); transitions++;
	if (th) { if (len == 0) return; /* the empty text is not a number: refusing it is an admissible report */ vf_fail(NULL, "bn_read_str raised %d on a short text", th); return; }
	vf_bn_get(zg, C);
	if (mpz_cmp(zg, ze)) { char b[200]; gmp_snprintf(b, sizeof b, "bn_read_str(\"%s\", radix %d) = %Zd, positional value of the valid prefix is %Zd", s, radix, zg, ze); vf_fail(NULL, "%s", b); }
	else if (!vf_bn_normal(C)) vf_fail(NULL, "bn_read_str(\"%s\"): result not in normal form (sign %d)", s, C->sign);
	/* the length argument bounds the text: the same buffer with len - 1 must give the value of the first len - 1 characters only, whatever
	 * character follows (a number parsed out of a longer record) */
	if (len >= 2) { size_t l2 = len - 1; j = 0; neg = 0; if (s[0] == '-') { neg = 1; j = 1; } mpz_set_ui(ze, 0);
		for (; j < l2; j++) { char ch = s[j]; if (radix < 36 && ch >= 'a' && ch <= 'z') ch -= 32; const char *p = ch ? strchr(DIGS, ch) : NULL; if (!p || (p - DIGS) >= radix) break; mpz_mul_ui(ze, ze, (unsigned long)radix); mpz_add_ui(ze, ze, (unsigned long)(p - DIGS)); }
		if (neg) mpz_neg(ze, ze); bn_zero(C); VF_TRY(th, bn_read_str(C, s, l2, (uint_t)radix)); transitions++; if (th) return; vf_bn_get(zg, C);
		if (mpz_cmp(zg, ze)) { char b[200]; gmp_snprintf(b, sizeof b, "bn_read_str(\"%s\", len %zu, radix %d) = %Zd: characters beyond the given length were read (value of the first %zu characters is %Zd)", s, l2, radix, zg, l2, ze); vf_fail(NULL, "%s", b); } }
}

/* ---------------------------------------------------------------- field elements: args prime, len, value */
static void do_fp_bin(vf_case *c) {
	int th; size_t len = mpz_get_ui(c->v[1]);
	static uint8_t buf[200], out[260]; fp_t a; fp_new(a);
	if (!select_prime_only(c->v[0])) { vf_fail(NULL, "prime refused"); return; }
	if (len > 150) return;
	bytes_of(buf, len, c->v[2]);
	int valid = (len == RLC_FP_BYTES) && mpz_cmp(c->v[2], vf_p) < 0;
	memset(a, 0x5A, sizeof(fp_st));
	VF_TRY(th, fp_read_bin(a, buf, len)); transitions++;
	if (!valid) { if (!th) vf_fail(NULL, "fp_read_bin accepted %s", len != RLC_FP_BYTES ? "a wrong length" : "a value >= p"); return; }
	if (th) { vf_fail(NULL, "fp_read_bin raised %d on a valid encoding", th); return; }
	if (!vf_fp_get(zg, a)) { vf_fail(NULL, "fp_read_bin: element not reduced"); return; }
	if (mpz_cmp(zg, c->v[2])) { vf_fail(NULL, "fp_read_bin decoded a different residue"); return; }
	memset(out, GB, sizeof out);
	VF_TRY(th, fp_write_bin(out + 16, RLC_FP_BYTES, a)); transitions++;
	if (th) { vf_fail(NULL, "fp_write_bin raised %d", th); return; }
	if (memcmp(out + 16, buf, RLC_FP_BYTES)) vf_fail(NULL, "fp_write_bin: re-encoding differs from the input");
	for (size_t j = 0; j < 16; j++) if (out[j] != GB || out[16 + RLC_FP_BYTES + j] != GB) { vf_fail(NULL, "fp_write_bin wrote outside its buffer"); break; }
	VF_TRY(th, fp_write_bin(out + 16, RLC_FP_BYTES - 1, a)); if (!th) vf_fail(NULL, "fp_write_bin accepted a short buffer");
	VF_TRY(th, fp_write_bin(out + 16, RLC_FP_BYTES + 1, a)); if (!th) { /* longer buffers: not part of the advertised fixed length */ }
	/* text form */
	for (int radix = 2; radix <= 64; radix += (radix < 17 ? 1 : 7)) {
		static char ref[2300], so[2400]; ref_to_str(ref, c->v[2], radix);
		size_t sz = 0; VF_TRY(th, sz = fp_size_str(a, (uint_t)radix)); transitions++;
		if (th) { vf_fail(NULL, "fp_size_str raised"); continue; }
		if (sz < strlen(ref) + 1 || sz > strlen(ref) + 2) { vf_fail(NULL, "fp_size_str(radix %d) = %zu for %zu characters", radix, sz, strlen(ref)); continue; }
		memset(so, GB, sizeof so); VF_TRY(th, fp_write_str(so + 16, sz, a, (uint_t)radix));
		if (th) { vf_fail(NULL, "fp_write_str raised %d", th); continue; }
		if (strcmp(so + 16, ref)) { vf_fail(NULL, "fp_write_str(radix %d): \"%s\" expected \"%s\"", radix, so + 16, ref); continue; }
		fp_t b; fp_new(b); VF_TRY(th, fp_read_str(b, ref, strlen(ref), (uint_t)radix)); if (th) vf_fail(NULL, "fp_read_str raised"); else if (!vf_fp_get(zg, b) || mpz_cmp(zg, c->v[2])) vf_fail(NULL, "fp_read_str(radix %d) differs", radix);
	}
}

/* ---------------------------------------------------------------- curve points */
/* reference decoder: returns 1 and the point if `buf` is a valid canonical encoding */
static int ref_ep_decode(rpt *P, const uint8_t *buf, size_t len) {
	size_t fb = RLC_FP_BYTES;
	if (len == 1) { if (buf[0] != 0) return 0; rpt_set_inf(P); return 1; }
	if (len == fb + 1) {
		if (buf[0] != 2 && buf[0] != 3) return 0;
		mpz_t x, v, y, ym; mpz_inits(x, v, y, ym, NULL); value_of(x, buf + 1, fb);
		int ok = mpz_cmp(x, RC.p) < 0;
		if (ok) { mpz_mul(v, x, x); mpz_add(v, v, RC.a); mpz_mul(v, v, x); mpz_add(v, v, RC.b); mpz_mod(v, v, RC.p); ok = ref_sqrt_mod(y, v, RC.p); }
		if (ok) {
			/* sign convention (observation O1): bit 0 of the internal Montgomery representation of y for ordinary curves,
			 * [y > (p-1)/2] for pairing-friendly curves */
			int want = buf[0] & 1, bit;
			if (ep_curve_is_pairf()) { mpz_sub_ui(ym, RC.p, 1); mpz_fdiv_q_2exp(ym, ym, 1); bit = mpz_cmp(y, ym) > 0; }
			else { mpz_mul(ym, y, vf_R); mpz_mod(ym, ym, RC.p); bit = mpz_tstbit(ym, 0); }
			if (bit != want) { if (mpz_sgn(y) == 0) ok = 0; /* (x, 0) has a single canonical tag */ else mpz_sub(y, RC.p, y); }
			if (ok) { mpz_set(P->x, x); mpz_set(P->y, y); P->inf = 0; }
		}
		mpz_clears(x, v, y, ym, NULL); return ok;
	}
	if (len == 2 * fb + 1) {
		if (buf[0] != 4) return 0;
		value_of(P->x, buf + 1, fb); value_of(P->y, buf + 1 + fb, fb); P->inf = 0;
		if (mpz_cmp(P->x, RC.p) >= 0 || mpz_cmp(P->y, RC.p) >= 0) return 0;
		return rpt_on_curve(&RC, P);
	}
	return 0;
}
static void do_ep_bin(vf_case *c) { /* args: cid, len, value */
	int th; size_t len = mpz_get_ui(c->v[1]);
	static uint8_t buf[300], out[400];
	if (!select_curve(mpz_get_si(c->v[0]))) { vf_fail(NULL, "curve refused"); return; }
	mpz_set_si(cur_prime, -1);
	if (len > 260) return;
	bytes_of(buf, len, c->v[2]);
	rpt P, Q; rpt_init(&P); rpt_init(&Q);
	int valid = ref_ep_decode(&P, buf, len);
	ep_t e; ep_new(e); memset(e, 0x5A, sizeof(ep_st)); e->coord = BASIC;
	VF_TRY(th, ep_read_bin(e, buf, len)); transitions++;
	if (!valid) { if (!th) vf_fail(NULL, "ep_read_bin accepted an invalid encoding (len %zu, tag %02x)", len, len ? buf[0] : 0); goto done; }
	if (th) { vf_fail(NULL, "ep_read_bin raised %d on a valid encoding (len %zu tag %02x)", th, len, buf[0]); goto done; }
	if (!ep_extract(&Q, e) || !rpt_eq(&P, &Q)) { vf_fail(NULL, "ep_read_bin decoded a different point"); goto done; }
	if (!Q.inf && !rpt_on_curve(&RC, &Q)) { vf_fail(NULL, "ep_read_bin produced an off-curve point"); goto done; }
	/* re-encoding in the same format and length reproduces the input */
	{
		int pack = (len == RLC_FP_BYTES + 1);
		size_t sz = 0; VF_TRY(th, sz = (size_t)ep_size_bin(e, pack)); transitions++;
		if (th || sz != len) { vf_fail(NULL, "ep_size_bin = %zu for an encoding of %zu bytes", sz, len); goto done; }
		memset(out, GB, sizeof out); VF_TRY(th, ep_write_bin(out + 16, len, e, pack)); transitions++;
		if (th) { vf_fail(NULL, "ep_write_bin raised %d", th); goto done; }
		if (memcmp(out + 16, buf, len)) vf_fail(NULL, "ep_write_bin: re-encoding differs from the accepted input (tag %02x -> %02x)", buf[0], out[16]);
		for (size_t j = 0; j < 16; j++) if (out[j] != GB || out[16 + len + j] != GB) { vf_fail(NULL, "ep_write_bin wrote outside its buffer"); break; }
		if (len > 0) { memset(out, GB, sizeof out); VF_TRY(th, ep_write_bin(out + 16, len - 1, e, pack)); transitions++; if (!th) vf_fail(NULL, "ep_write_bin accepted a buffer one byte short");
			for (size_t j = 0; j < 16; j++) if (out[16 + len - 1 + j] != GB) { vf_fail(NULL, "ep_write_bin wrote beyond a too-short buffer"); break; } }
	}
done:
	rpt_clear(&P); rpt_clear(&Q);
}
/* encode a given point in both forms: args cid, x, y */
static void do_ep_enc(vf_case *c) {
	int th; static uint8_t out[400];
	if (!select_curve(mpz_get_si(c->v[0]))) { vf_fail(NULL, "curve refused"); return; }
	mpz_set_si(cur_prime, -1);
	rpt P, Q; rpt_init(&P); rpt_init(&Q); pt_from_args(&P, c->v[1], c->v[2]);
	ep_t e, d; ep_new(e); ep_new(d);
	for (int rep = 0; rep < 2; rep++) for (int pack = 0; pack < 2; pack++) {
#if EP_ADD == PROJC
		ep_inject(e, &P, rep ? REP_PRJ : REP_AFF, 7);
#elif EP_ADD == JACOB
		ep_inject(e, &P, rep ? REP_JAC : REP_AFF, 7);
#else
		ep_inject(e, &P, REP_AFF, 1); if (rep) continue;
#endif
		size_t esz = P.inf ? 1 : (pack ? RLC_FP_BYTES + 1 : 2 * RLC_FP_BYTES + 1), sz = 0;
		VF_TRY(th, sz = (size_t)ep_size_bin(e, pack)); transitions++;
		if (th || sz != esz) { vf_fail(NULL, "ep_size_bin(pack=%d) = %zu expected %zu", pack, sz, esz); continue; }
		memset(out, GB, sizeof out); VF_TRY(th, ep_write_bin(out + 16, sz, e, pack)); transitions++;
		if (th) { vf_fail(NULL, "ep_write_bin(pack=%d, rep=%d) raised %d", pack, rep, th); continue; }
		for (size_t j = 0; j < 16; j++) if (out[j] != GB || out[16 + sz + j] != GB) { vf_fail(NULL, "ep_write_bin wrote outside its buffer"); break; }
		/* the encoding must be the reference's canonical one: decoding it with the reference gives P */
		if (!ref_ep_decode(&Q, out + 16, sz) || !rpt_eq(&P, &Q)) { vf_fail(NULL, "ep_write_bin(pack=%d, rep=%d): bytes are not the canonical encoding of the point", pack, rep); continue; }
		VF_TRY(th, ep_read_bin(d, out + 16, sz)); transitions++;
		if (th) { vf_fail(NULL, "ep_read_bin rejects ep_write_bin's own output (pack=%d)", pack); continue; }
		if (!ep_extract(&Q, d) || !rpt_eq(&P, &Q)) vf_fail(NULL, "decode(encode(P)) != P (pack=%d)", pack);
	}
	rpt_clear(&P); rpt_clear(&Q);
}

static void run_case(vf_case *c) {
	vf_nontrivial();
	if (!strcmp(c->op, "bn_bin")) do_bn_bin(c); else if (!strcmp(c->op, "bn_str")) do_bn_str(c); else if (!strcmp(c->op, "bn_strin")) do_bn_strin(c);
	else if (!strcmp(c->op, "fp_bin")) do_fp_bin(c); else if (!strcmp(c->op, "ep_bin")) do_ep_bin(c); else if (!strcmp(c->op, "ep_enc")) do_ep_enc(c);
	else vf_fail(NULL, "unknown op");
}

/* ------------------------------------------------------------------ enumeration */
static vf_case K;
static void run3(const char *op, long a, long b, const mpz_t v) { K.op = op; K.n = 3; mpz_set_si(K.v[0], a); mpz_set_si(K.v[1], b); mpz_set(K.v[2], v); vf_run(&K); }

static void enumerate(void) {
	vf_case_init(&K);
	mpz_t v, t; mpz_inits(v, t, NULL);
	if (vf_bound_on("bn-bin-all-short-strings")) {
		/* every byte string of length 0..2 (quick) / 0..3 (thorough, 16.8 M) */
		int ML = 3;
		for (int len = 0; len <= ML; len++) { unsigned long n = 1UL << (8 * len); for (unsigned long x = 0; x < n && !vf_expired(); x++) if (vf_mine()) { vf_stat_add("states", 1); K.op = "bn_bin"; K.n = 2; mpz_set_si(K.v[0], len); mpz_set_ui(K.v[1], x); vf_run(&K); } }
		/* longer strings: structured bytes, lengths around digit and capacity boundaries */
		size_t cap = RLC_BN_SIZE * sizeof(dig_t);
		size_t lens[] = {3, 4, 7, 8, 9, 15, 16, 17, 31, 32, 33, 64, 65, 128, 129, cap - 1, cap, cap + 1, cap + 8};
		for (unsigned i = 0; i < sizeof lens / sizeof *lens; i++) if (lens[i] <= 500) for (int pat = 0; pat < 6; pat++) if (vf_mine()) {
			size_t L = lens[i]; mpz_set_ui(v, 0);
			if (pat == 0) { mpz_set_ui(v, 1); mpz_mul_2exp(v, v, 8 * L); mpz_sub_ui(v, v, 1); }
			else if (pat == 1) mpz_set_ui(v, 1);
			else if (pat == 2) { mpz_set_ui(v, 1); mpz_mul_2exp(v, v, 8 * L - 1); }
			else if (pat == 3) { mpz_set_ui(v, 0x80); }
			else if (pat == 4) { for (size_t j = 0; j < L; j++) { mpz_mul_2exp(v, v, 8); mpz_add_ui(v, v, (j * 37 + 1) & 0xFF); } }
			K.op = "bn_bin"; K.n = 2; mpz_set_ui(K.v[0], L); mpz_set(K.v[1], v); vf_run(&K); }
		vf_bound_done("bn-bin-all-short-strings");
	}
	if (vf_bound_on("bn-str-all-values-all-radices")) {
		long R = vf_tier ? 65536 : 16384;
		for (long x = -R + 1; x < R && !vf_expired(); x++) if (vf_mine()) for (int radix = 2; radix <= 64; radix++) { K.op = "bn_str"; K.n = 2; mpz_set_si(K.v[0], x); mpz_set_si(K.v[1], radix); vf_run(&K); }
		/* powers of the radix +-1 (size computations), long values */
		for (int radix = 2; radix <= 64; radix++) if (vf_mine()) for (int e = 1; e <= (WSIZE == 8 ? 20 : 160); e += (e < 12 ? 1 : 13)) { mpz_ui_pow_ui(v, (unsigned long)radix, (unsigned long)e); if (mpz_sizeinbase(v, 2) + 2 > RLC_BN_BITS) break;
			for (int d = -1; d <= 1; d++) { if (d < 0) mpz_sub_ui(t, v, 1); else mpz_add_ui(t, v, (unsigned long)d); K.op = "bn_str"; K.n = 2; mpz_set(K.v[0], t); mpz_set_si(K.v[1], radix); vf_run(&K); mpz_neg(K.v[0], t); vf_run(&K); } }
		vf_bound_done("bn-str-all-values-all-radices");
	}
	if (vf_bound_on("bn-str-all-short-texts")) {
		/* every text of length 0..2 (thorough 3) over a 67-symbol alphabet (all digit characters, '-', space, control) x every radix */
		int ML = 3;
		for (int len = 0; len <= ML; len++) { unsigned long n = 1; for (int i = 0; i < len; i++) n *= 67; for (unsigned long code = 0; code < n && !vf_expired(); code++) if (vf_mine()) for (int radix = 2; radix <= 64; radix += (len == 3 ? 5 : 1)) { K.op = "bn_strin"; K.n = 3; mpz_set_si(K.v[0], radix); mpz_set_si(K.v[1], len); mpz_set_ui(K.v[2], code); vf_run(&K); } }
		vf_bound_done("bn-str-all-short-texts");
	}
#if WSIZE != 64
	if (vf_bound_on("tiny-fp-bin-all-strings")) {
		static const long QP[] = {257, 1009, 32771, 65519, 65521};
		for (unsigned pi = 0; pi < 5; pi++) {
			for (unsigned long x = 0; x < 65536 && !vf_expired(); x++) if (vf_mine()) { vf_stat_add("states", 1); mpz_set_ui(v, x); run3("fp_bin", QP[pi], 2, v); }
			/* wrong lengths 0, 1, 3 over {00, 01, FF} */
			if (vf_mine()) { int ls[] = {0, 1, 3}; unsigned char al[] = {0, 1, 0xFF}; for (int li = 0; li < 3; li++) for (int code = 0; code < 27; code++) { mpz_set_ui(v, 0); int cc = code; for (int j = 0; j < ls[li]; j++) { mpz_mul_2exp(v, v, 8); mpz_add_ui(v, v, al[cc % 3]); cc /= 3; } run3("fp_bin", QP[pi], ls[li], v); } }
		}
		vf_bound_done("tiny-fp-bin-all-strings");
	}
	int cids[] = {0, 5, 1, 7};
	for (unsigned ci = 0; ci < 4; ci++) {
		char bn[64]; snprintf(bn, sizeof bn, "tiny-ep-bin-curve-%d", cids[ci]);
		if (!vf_tier && ci >= 3) continue;
		if (!vf_bound_on(bn)) continue;
		long cid = cids[ci];
		/* every string of length 1 and of length 3 (compressed form): 2^24 */
		for (unsigned long x = 0; x < 256; x++) if (vf_mine()) { mpz_set_ui(v, x); run3("ep_bin", cid, 1, v); }
		for (unsigned long x = 0; x < (1UL << 24) && !vf_expired(); x++) if (vf_mine()) { vf_stat_add("states", 1); mpz_set_ui(v, x); run3("ep_bin", cid, 3, v); }
		/* lengths 0, 2, 4, 6 over a 4-byte alphabet */
		{ int ls[] = {0, 2, 4, 6}; unsigned char al[] = {0, 2, 4, 0xFF}; for (int li = 0; li < 4; li++) { int n = 1; for (int j = 0; j < ls[li]; j++) n *= 4; for (int code = 0; code < n; code++) if (vf_mine()) { mpz_set_ui(v, 0); int cc = code; for (int j = 0; j < ls[li]; j++) { mpz_mul_2exp(v, v, 8); mpz_add_ui(v, v, al[cc % 4]); cc /= 4; } run3("ep_bin", cid, ls[li], v); } } }
		/* length 5 (uncompressed): every tag x every x x y in {both roots, root+-1, 0, p, p+1, FFFF} */
		if (!select_curve(cid)) continue;
		long p = TC[cid].p;
		for (long x = 0; x < 65536 && !vf_expired(); x += (x < p + 2 ? 1 : 4099)) if (vf_mine()) {
			long vv = (long)(((__int128)x % p * (x % p) % p * (x % p) + (__int128)TC[cid].a * (x % p) + TC[cid].b) % p); long y = sqrtl_(vv, p);
			long ys[8]; int ny = 0; if (y >= 0) { ys[ny++] = y; ys[ny++] = (p - y) % p; ys[ny++] = y + 1; ys[ny++] = y > 0 ? y - 1 : 1; } ys[ny++] = 0; ys[ny++] = p; ys[ny++] = p + 1; ys[ny++] = 0xFFFF;
			for (int tag = 0; tag < 256; tag += (x < 64 || tag < 8 ? 1 : 51)) for (int j = 0; j < ny; j++) { mpz_set_ui(v, (unsigned long)tag); mpz_mul_2exp(v, v, 16); mpz_add_ui(v, v, (unsigned long)x); mpz_mul_2exp(v, v, 16); mpz_add_ui(v, v, (unsigned long)ys[j]); run3("ep_bin", cid, 5, v); }
		}
		/* encode every point of the ~1000-point curves */
		if (p < 2000) for (long x = 0; x < p; x++) if (vf_mine()) { long vv = (long)(((__int128)x * x % p * x + (__int128)TC[cid].a * x + TC[cid].b) % p); long y = sqrtl_(vv, p); if (y < 0) continue; K.op = "ep_enc"; K.n = 3; mpz_set_si(K.v[0], cid); mpz_set_si(K.v[1], x); mpz_set_si(K.v[2], y); vf_run(&K); mpz_set_si(K.v[2], (p - y) % p); vf_run(&K); }
		if (vf_mine()) { K.op = "ep_enc"; K.n = 3; mpz_set_si(K.v[0], cid); mpz_set_si(K.v[1], -1); mpz_set_si(K.v[2], 0); vf_run(&K); }
		vf_bound_done(bn);
	}
#else
	/* shipped sizes */
	static const int FIDS[] = {NIST_256, BSI_256, SECG_256, SM2_256, BN_256, SM9_256};
	if (vf_bound_on("w64-fp-bin")) {
		for (unsigned pi = 0; pi < 6; pi++) { mpz_set_si(t, FIDS[pi]); if (!select_prime_only(t)) continue;
			vf_dom d; vf_dom_init(&d); vf_dom_add_si(&d, 0); vf_dom_add_si(&d, 1); vf_dom_add_near(&d, vf_p, 0); mpz_set_ui(v, 1); mpz_mul_2exp(v, v, 256); mpz_sub_ui(v, v, 1); vf_dom_add(&d, v); mpz_fdiv_q_2exp(v, vf_p, 1); vf_dom_add(&d, v); mpz_set_ui(v, 1); mpz_mul_2exp(v, v, 255); vf_dom_add(&d, v); mpz_set_ui(v, 1); mpz_mul_2exp(v, v, 64); vf_dom_add(&d, v); vf_dom_uniq(&d);
			int ls[] = {0, 1, 31, 32, 33, 64};
			for (int i = 0; i < d.n; i++) for (int li = 0; li < 6; li++) if (vf_mine()) { if (mpz_sizeinbase(d.v[i], 2) > (size_t)ls[li] * 8 && mpz_sgn(d.v[i])) continue; run3("fp_bin", FIDS[pi], ls[li], d.v[i]); }
			vf_dom_clear(&d); }
		vf_bound_done("w64-fp-bin");
	}
	static const int CIDS[] = {NIST_P256, BSI_P256, SECG_K256, SM2_P256, BN_P256, SM9_P256};
	for (unsigned ci = 0; ci < 6; ci++) {
		char bn[64]; snprintf(bn, sizeof bn, "w64-ep-bin-curve-%d", CIDS[ci]);
		if (!vf_bound_on(bn)) continue;
		long cid = CIDS[ci]; if (!select_curve(cid)) { vf_fail(NULL, "curve refused"); continue; }
		/* coordinate alphabet: 0, 1, p-1, p, p+1, 2^256-1, x of G, x of 2G, an x with non-square right-hand side */
		vf_dom xs; vf_dom_init(&xs); vf_dom_add_si(&xs, 0); vf_dom_add_si(&xs, 1); vf_dom_add_near(&xs, RC.p, 0); mpz_set_ui(v, 1); mpz_mul_2exp(v, v, 256); mpz_sub_ui(v, v, 1); vf_dom_add(&xs, v); vf_dom_add(&xs, RG.x);
		rpt G2; rpt_init(&G2); rpt_add(&RC, &G2, &RG, &RG); vf_dom_add(&xs, G2.x);
		for (long x = 2; x < 12; x++) { mpz_set_si(v, x); vf_dom_add(&xs, v); }
		vf_dom_uniq(&xs);
		int ls[] = {0, 1, 2, 31, 32, 33, 34, 63, 64, 65, 66, 96, 97, 129};
		for (int tag = 0; tag < 256 && !vf_expired(); tag++) if (vf_mine()) for (unsigned li = 0; li < sizeof ls / sizeof *ls; li++) {
			int L = ls[li];
			if (L == 0) { if (tag == 0) { mpz_set_ui(v, 0); run3("ep_bin", cid, 0, v); } continue; }
			if (L == 1) { mpz_set_ui(v, (unsigned long)tag); run3("ep_bin", cid, 1, v); continue; }
			for (int i = 0; i < xs.n; i++) {
				/* x in the first coordinate slot, y alphabet: true root, p - root, root + 1, 0, p */
				rpt P; rpt_init(&P); int lifted = mpz_cmp(xs.v[i], RC.p) < 0 && rpt_lift_x(&RC, &P, xs.v[i]);
				mpz_t ys[5]; int ny = 0; for (int j = 0; j < 5; j++) mpz_init(ys[j]);
				if (lifted) { mpz_set(ys[ny++], P.y); mpz_sub(ys[ny], RC.p, P.y); ny++; mpz_add_ui(ys[ny], P.y, 1); ny++; } mpz_set_ui(ys[ny++], 0); mpz_set(ys[ny++], RC.p);
				int ycount = (L > 33) ? ny : 1;
				if (tag > 6 && tag < 250 && i > 3) ycount = 0; /* unknown tags: a few coordinates are enough */
				for (int j = 0; j < ycount; j++) {
					/* layout: tag || x (32 bytes) || y (rest), truncated / zero-extended to L bytes */
					uint8_t raw[200]; memset(raw, 0, sizeof raw); raw[0] = (uint8_t)tag; uint8_t xb[40], yb[40]; bytes_of(xb, 32, xs.v[i]); bytes_of(yb, 32, ys[j]);
					memcpy(raw + 1, xb, 32); memcpy(raw + 33, yb, 32);
					value_of(v, raw, (size_t)L); run3("ep_bin", cid, L, v);
				}
				for (int j = 0; j < 5; j++) mpz_clear(ys[j]); rpt_clear(&P);
			}
		}
		/* encoders on a list of points */
		long ds[] = {0, 1, 2, -1, 5, 0x12345, -77}; for (unsigned i = 0; i < 7; i++) if (vf_mine()) { rpt P; rpt_init(&P); mpz_set_si(v, ds[i]); rpt_mul(&RC, &P, &RG, v); K.op = "ep_enc"; K.n = 3; mpz_set_si(K.v[0], cid); if (P.inf) { mpz_set_si(K.v[1], -1); mpz_set_ui(K.v[2], 0); } else { mpz_set(K.v[1], P.x); mpz_set(K.v[2], P.y); } vf_run(&K); rpt_clear(&P); }
		vf_dom_clear(&xs);
		vf_bound_done(bn);
	}
#endif
	vf_stat_add("transitions", transitions);
}

VF_MAIN()
